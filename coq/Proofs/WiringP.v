(* WiringP.v — lemmas about Model/Wiring.v (signatures, flipping, create/is_compliant, connect, metadata). *)
From Coq Require Import ZArith List Bool Lia Arith Permutation.
From V.Model Require Import Bits Wiring.
Import ListNotations.
Open Scope Z_scope.

(* ------------------------------------------------------------------ induction principle (nested inductive) *)
Section member_ind2.
  Variable P : member -> Prop.
  Hypothesis HP : forall f sh i d, P (Port f sh i d).
  Hypothesis HI : forall f w ms d, Forall (fun nm => P (snd nm)) ms -> P (Iface f w ms d).
  Fixpoint member_ind2 (m : member) : P m :=
    match m with
    | Port f sh i d => HP f sh i d
    | Iface f w ms d =>
        HI f w ms d ((fix go (l : members) : Forall (fun nm => P (snd nm)) l :=
                        match l with
                        | [] => Forall_nil _
                        | nm :: r => Forall_cons nm (member_ind2 (snd nm)) (go r)
                        end) ms)
    end.
End member_ind2.

(* ------------------------------------------------------------------ small facts *)
Lemma flip_flow_inv f : flip_flow (flip_flow f) = f.
Proof. destruct f; reflexivity. Qed.

Lemma flip_member_inv m : flip_member (flip_member m) = m.
Proof. destruct m; simpl; rewrite flip_flow_inv; reflexivity. Qed.

Lemma sig_flip_inv x : sig_flip (sig_flip x) = x.
Proof. destruct x; unfold sig_flip; simpl. rewrite negb_involutive. reflexivity. Qed.

Lemma sig_members_flip x :
  sig_members (sig_flip x) = map (fun nm => (fst nm, flip_member (snd nm))) (sig_members x).
Proof.
  destruct x as [w ms]. unfold sig_members, sig_flip; simpl. rewrite map_map. apply map_ext.
  intros [n m]; simpl. destruct w; simpl; [rewrite flip_member_inv|]; reflexivity.
Qed.

Lemma flipm_negb fl m : flipm (negb fl) m = flip_member (flipm fl m).
Proof. destruct fl; simpl; [rewrite flip_member_inv|]; reflexivity. Qed.

Lemma is_in_flip f : is_in (flip_flow f) = negb (is_in f).
Proof. destruct f; reflexivity. Qed.

Lemma sub_flag_negb fl f w : sub_flag (negb fl) f w = negb (sub_flag fl f w).
Proof. unfold sub_flag. destruct fl, f, w; reflexivity. Qed.

Lemma map_flat_map {A B C} (g : B -> C) (h : A -> list B) l :
  map g (flat_map h l) = flat_map (fun x => map g (h x)) l.
Proof. induction l; simpl; [reflexivity|]. rewrite map_app, IHl. reflexivity. Qed.

Lemma flat_map_ext_Forall {A B} (P : A -> Prop) (f g : A -> list B) l :
  Forall P l -> (forall a, P a -> f a = g a) -> flat_map f l = flat_map g l.
Proof. induction 1; intros H1; simpl; [reflexivity|]. rewrite (H1 _ H), IHForall; auto. Qed.

(* ------------------------------------------------------------------ flipping reverses every entry *)
Definition flip_entry (e : entry) : entry := (fst e, flip_member (snd e)).

Lemma flat_m_flip m : forall fl pre n,
  flat_m (negb fl) pre n m = map flip_entry (flat_m fl pre n m).
Proof.
  induction m as [f sh i d | f w ms d IH] using member_ind2; intros fl pre n.
  - simpl. unfold flip_entry; simpl. rewrite flipm_negb. reflexivity.
  - cbn [flat_m map]. unfold flip_entry at 1; cbn [fst snd]. rewrite flipm_negb. f_equal.
    rewrite map_flat_map. rewrite sub_flag_negb.
    eapply flat_map_ext_Forall; [exact IH|]. intros a Ha. apply Ha.
Qed.

Lemma flat_members_flip x : flat_members (sig_flip x) = map flip_entry (flat_members x).
Proof.
  destruct x as [w ms]. unfold flat_members, flat_ms, sig_flip; simpl.
  rewrite map_flat_map. apply flat_map_ext. intros a. apply flat_m_flip.
Qed.

Lemma flat_members_flip_flip x : flat_members (sig_flip (sig_flip x)) = flat_members x.
Proof. rewrite sig_flip_inv. reflexivity. Qed.

(* ------------------------------------------------------------------ effective direction = parity of reversals *)
Lemma iter_flip_odd k f : iter_flip k f = flipif (Nat.odd k) f.
Proof.
  induction k; [reflexivity|]. cbn [iter_flip]. rewrite IHk, Nat.odd_succ, <- Nat.negb_odd.
  destruct (Nat.odd k), f; reflexivity.
Qed.

Lemma m_flow_flipm fl m : m_flow (flipm fl m) = flipif fl (m_flow m).
Proof. destruct fl, m; reflexivity. Qed.

Lemma sub_flag_odd k f w : sub_flag (Nat.odd k) f w = Nat.odd (k + b2n w + b2n (is_in f)).
Proof.
  rewrite !Nat.odd_add. unfold sub_flag. destruct (Nat.odd k), w, f; reflexivity.
Qed.

Definition entry_flow (e : entry) : list Z * flow := (fst e, m_flow (snd e)).

Lemma flat_m_effective m : forall k pre n,
  map entry_flow (flat_m (Nat.odd k) pre n m) = spec_flat_m k pre n m.
Proof.
  induction m as [f sh i d | f w ms d IH] using member_ind2; intros k pre n.
  - simpl. unfold entry_flow; simpl. rewrite m_flow_flipm, iter_flip_odd. reflexivity.
  - cbn [flat_m spec_flat_m map]. unfold entry_flow at 1; cbn [fst snd].
    rewrite m_flow_flipm, iter_flip_odd. f_equal.
    rewrite map_flat_map, sub_flag_odd.
    eapply flat_map_ext_Forall; [exact IH|]. intros a Ha. apply Ha.
Qed.

Definition spec_flat (x : sigt) : list (list Z * flow) :=
  flat_map (fun nm => spec_flat_m (b2n (fst x)) [] (fst nm) (snd nm)) (snd x).

Lemma flat_members_effective x : map entry_flow (flat_members x) = spec_flat x.
Proof.
  destruct x as [w ms]. unfold flat_members, flat_ms, spec_flat; simpl.
  rewrite map_flat_map. apply flat_map_ext. intros a.
  replace w with (Nat.odd (b2n w)) at 1 by (destruct w; reflexivity). apply flat_m_effective.
Qed.

(* flipping once reverses the effective direction of every entry (ports and interface nodes), at any depth *)
Lemma flat_members_flip_flows x :
  map entry_flow (flat_members (sig_flip x)) =
  map (fun pf => (fst pf, flip_flow (snd pf))) (map entry_flow (flat_members x)).
Proof.
  rewrite flat_members_flip, !map_map. apply map_ext. intros [p m]. unfold entry_flow, flip_entry; simpl.
  destruct m; reflexivity.
Qed.

(* ------------------------------------------------------------------ create / is_compliant *)
Lemma path_cmp_refl p : path_cmp p p = Eq.
Proof. induction p; simpl; [reflexivity|]. rewrite Z.compare_refl. exact IHp. Qed.
Lemma path_eqb_refl p : path_eqb p p = true.
Proof. unfold path_eqb. rewrite path_cmp_refl. reflexivity. Qed.
Lemma dims_eqb_refl d : dims_eqb d d = true.
Proof. induction d; simpl; [reflexivity|]. rewrite Nat.eqb_refl. exact IHd. Qed.
Lemma shape_eqb_refl s : shape_eqb s s = true.
Proof. unfold shape_eqb. rewrite Z.eqb_refl, eqb_reflx. reflexivity. Qed.
Lemma flow_eqb_refl f : flow_eqb f f = true.
Proof. destruct f; reflexivity. Qed.
Lemma member_eqb_refl m : member_eqb m m = true.
Proof.
  destruct m; simpl; rewrite ?flow_eqb_refl, ?shape_eqb_refl, ?Z.eqb_refl, ?dims_eqb_refl; reflexivity.
Qed.
Lemma entries_eqb_refl l : entries_eqb l l = true.
Proof. induction l as [|[p m] l IH]; simpl; [reflexivity|]. rewrite path_eqb_refl, member_eqb_refl. exact IH. Qed.
Lemma sig_eqb_refl x : sig_eqb x x = true.
Proof. apply entries_eqb_refl. Qed.

Lemma nodupb_assoc {A} (l : list (Z * A)) n a :
  nodupb (map fst l) = true -> In (n, a) l -> assoc n l = Some a.
Proof.
  induction l as [|[k v] l IH]; simpl; intros Hn Hin; [contradiction|].
  apply andb_prop in Hn. destruct Hn as [Hk Hn].
  destruct Hin as [E|Hin].
  - inversion E; subst. rewrite Z.eqb_refl. reflexivity.
  - destruct (k =? n) eqn:Ek.
    + apply Z.eqb_eq in Ek; subst k. exfalso.
      apply negb_true_iff in Hk. assert (existsb (Z.eqb n) (map fst l) = true); [|congruence].
      apply existsb_exists. exists n. split; [|apply Z.eqb_refl].
      apply in_map_iff. exists (n, a). split; auto.
    + apply IH; auto.
Qed.

Lemma all_res_true {A} (sc : bool) (f : A -> res bool) l :
  (forall a, In a l -> f a = Ok true) -> all_res sc f l = Ok true.
Proof.
  induction l; simpl; intros H; [reflexivity|]. rewrite (H a) by auto. apply IHl. intros; apply H; auto.
Qed.

Lemma check_dims_create (sc : bool) chk f dims : forall p,
  (forall q, chk (f q) = Ok true) -> check_dims sc chk dims (create_dims f dims p) = Ok true.
Proof.
  induction dims as [|d rest IH]; intros p H; simpl; [apply H|].
  rewrite map_length, seq_length, Nat.eqb_refl.
  apply all_res_true. intros a Ha. apply in_map_iff in Ha. destruct Ha as (i & <- & _). apply IH. exact H.
Qed.

(* the view handed out by a FlippedInterface proxy for an interface-valued attribute *)
Definition tog (b : bool) (o : obj) : obj :=
  if b then match o with OIf fl x a => OIf (negb fl) x a | _ => o end else o.

Lemma sub_flag_tog (fl : bool) f w : (if fl then negb (sub_flag false f w) else sub_flag false f w) = sub_flag fl f w.
Proof. destruct fl, f, w; reflexivity. Qed.

Lemma compl_create m : forall fl p, names_ok m = true -> safe_mb fl m = true ->
  compl_m true fl m (tog (fl && m_is_iface m) (create_m false m p)) = Ok true.
Proof.
  induction m as [f sh i d | f w ms d IH] using member_ind2; intros fl p Hwf Hsafe.
  - simpl in *. rewrite andb_false_r. simpl. rewrite shape_eqb_refl, Z.eqb_refl. reflexivity.
  - cbn [m_is_iface m_is_port negb]. rewrite andb_true_r.
    cbn [create_m]. set (attrs := map _ ms).
    assert (Ht : tog fl (OIf (sub_flag false f w) (false, ms) attrs) = OIf (sub_flag fl f w) (false, ms) attrs).
    { unfold tog. destruct fl; [|reflexivity]. f_equal. destruct f, w; reflexivity. }
    rewrite Ht. clear Ht. set (g := sub_flag fl f w) in *.
    cbn [compl_m]. fold g. cbn [obj_sig].
    assert (Hs : (if g then sig_flip (false, ms) else (false, ms)) = (g, ms)) by (destruct g; reflexivity).
    rewrite Hs, sig_eqb_refl. cbn [negb fst].
    cbn [names_ok] in Hwf. apply andb_prop in Hwf. destruct Hwf as [Hnd Hwf].
    cbn [safe_mb] in Hsafe. fold g in Hsafe.
    rewrite forallb_forall in Hwf, Hsafe. rewrite Forall_forall in IH. clear Hs. clearbody g.
    apply all_res_true. intros [n mm] Hin. cbn [fst snd].
    specialize (Hsafe _ Hin). cbn [snd] in Hsafe. apply andb_prop in Hsafe. destruct Hsafe as [Hs1 Hs2].
    specialize (Hwf _ Hin). cbn [snd] in Hwf.
    specialize (IH _ Hin). cbn [snd] in IH.
    unfold obj_get.
    assert (Ha : assoc n attrs = Some (create_dims (create_m false mm) (m_dims mm) (p ++ [PN n]))).
    { apply nodupb_assoc.
      - unfold attrs. rewrite map_map. cbn [fst]. exact Hnd.
      - unfold attrs. apply in_map_iff. exists (n, mm). split; auto. }
    rewrite Ha.
    assert (Hi : is_iface_name n (false, ms) = m_is_iface mm).
    { unfold is_iface_name. cbn [snd]. rewrite (nodupb_assoc ms n mm Hnd Hin). reflexivity. }
    rewrite Hi.
    destruct (g && m_is_iface mm) eqn:Egi.
    + (* proxy hands out a flipped interface: it must not be a list *)
      try rewrite Egi in Hs1. cbn [andb negb] in Hs1. apply negb_true_iff in Hs1.
      destruct (m_dims mm) eqn:Ed; [|discriminate]. cbn [create_dims].
      apply andb_prop in Egi. destruct Egi as [Eg Ei]. subst g.
      destruct mm as [|f' w' ms' d']; [discriminate|].
      specialize (IH true (p ++ [PN n]) Hwf Hs2).
      cbn [m_is_iface m_is_port negb andb] in IH.
      cbn [create_m flipped] in *. cbn [check_dims]. unfold tog in IH. exact IH.
    + apply check_dims_create. intros q.
      specialize (IH g q Hwf Hs2). rewrite Egi in IH. exact IH.
Qed.

Theorem create_compliant x p :
  names_ok (top x) = true -> safe_sig x = true -> is_compliant x (create x p) = Ok true.
Proof.
  intros Hw Hs. unfold is_compliant, create.
  exact (compl_create (top x) false p Hw Hs).
Qed.

(* ------------------------------------------------------------------ connect: what an assignment can be *)
(* an assignment made by connect: same path on both sides, different roles, and the input is a Signal
   (never a constant) *)
Definition good_asg (objs : list obj) (a : asg) : Prop :=
  snd (fst a) = snd (snd a) /\ exists nm sh i, traverse objs (fst a) = Ok (OSig nm sh i).

Lemma concat_res_Forall {A} (P : A -> Prop) (l : list (res (list A))) r :
  concat_res l = Ok r -> (forall y, In (Ok y) l -> Forall P y) -> Forall P r.
Proof.
  revert r. induction l as [|x l IH]; simpl; intros r H HP.
  - inversion H. constructor.
  - destruct x as [a|e]; [|discriminate]. destruct (concat_res l) as [b|e] eqn:E; [|discriminate].
    inversion H; subst. apply Forall_app. split; [apply HP; auto|]. apply IH; auto.
Qed.

Lemma connect_value_good objs hi ho q l :
  connect_value objs (hi, q) (ho, q) = Ok l -> Forall (good_asg objs) l.
Proof.
  unfold connect_value. destruct (traverse objs (hi, q)) as [iv|] eqn:Ei; [|discriminate].
  destruct (traverse objs (ho, q)) as [ov|] eqn:Eo; [|discriminate].
  destruct iv; try discriminate.
  - intros H. inversion H; subst. constructor; [|constructor]. split; [reflexivity|]. simpl. eauto.
  - destruct ov; try discriminate. destruct (v =? v0); [|discriminate]. intros H; inversion H. constructor.
Qed.

Lemma connect_in_good objs p o i l : connect_in objs p o i = Ok l -> Forall (good_asg objs) l.
Proof.
  unfold connect_in. destruct (dims_eqb _ _); [|discriminate]. intros H.
  eapply concat_res_Forall; [exact H|]. intros y Hy. apply in_map_iff in Hy. destruct Hy as (idx & Hy & _).
  eapply connect_value_good; eauto.
Qed.

Definition st_good (objs : list obj) (st : state) : Prop := Forall (good_asg objs) (fst (fst st)).

Lemma step_good objs p ms st st' : st_good objs st -> step objs p ms st = Ok st' -> st_good objs st'.
Proof.
  unfold step, st_good. intros Hg.
  destruct (nonempty _ && _); [discriminate|]. destruct (nonempty _); [intros H; inversion H; subst; exact Hg|].
  destruct st as [[cs ai] ao]. simpl in Hg.
  destruct (filter is_in_port _ ++ filter is_out_port _) as [|[h0 m0] r]; [intros H; inversion H; exact Hg|].
  destruct (check_wi _ _ _); [discriminate|].
  destruct (filter is_out_port _) as [|o [|o2 r2]]; [intros H; inversion H; exact Hg| |discriminate].
  destruct (concat_res _) as [new|] eqn:E; [|discriminate]. intros H; inversion H; subst. simpl.
  apply Forall_app. split; [exact Hg|].
  eapply concat_res_Forall; [exact E|]. intros y Hy. apply in_map_iff in Hy. destruct Hy as (i & Hy & _).
  eapply connect_in_good; eauto.
Qed.

Lemma conn_loop_good objs f0 : forall rest st st',
  st_good objs st -> conn_loop objs f0 rest st = Ok st' -> st_good objs st'.
Proof.
  induction f0 as [|[p m] t0 IH]; simpl; intros rest st st' Hg H.
  - destruct (forallb _ _); [inversion H; subst; exact Hg|discriminate].
  - destruct (heads p rest) as [[hs tails]|]; [|discriminate].
    destruct (step objs p (m :: hs) st) as [st1|] eqn:E; [|discriminate].
    eapply IH; [|exact H]. eapply step_good; eauto.
Qed.

Theorem connect_assignments_good objs cs : connect objs = Ok cs -> Forall (good_asg objs) cs.
Proof.
  unfold connect. destruct (check_args objs) as [sigs|]; [|discriminate]. unfold connect_sigs.
  destruct (map _ sigs) as [|f0 [|f1 rest]]; try (intros H; inversion H; constructor).
  destruct (conn_loop _ _ _ _) as [[[cs' ai] ao]|] eqn:E; [|discriminate].
  destruct (is_nil cs' && ai && negb ao); [discriminate|]. intros H; inversion H; subst.
  assert (G : st_good objs (cs, ai, ao)); [|exact G].
  eapply conn_loop_good; [|exact E]. constructor.
Qed.

(* every argument was checked against its own signature *)
Lemma check_args_compliant objs sigs :
  check_args objs = Ok sigs ->
  Forall2 (fun o x => obj_sig o = Some x /\ is_compliant x o = Ok true) objs sigs.
Proof.
  revert sigs. induction objs as [|o r IH]; simpl; intros sigs H.
  - inversion H. constructor.
  - destruct (obj_sig o) as [x|] eqn:Es; [|discriminate].
    destruct (is_compliant x o) as [[|]|] eqn:Ec; try discriminate.
    + destruct (check_args r) as [xs|]; [|discriminate]. inversion H; subst. constructor; auto.
    + destruct (is_compliant_reasons x o); discriminate.
Qed.

Theorem connect_ok_compliant objs cs :
  connect objs = Ok cs -> Forall (fun o => exists x, obj_sig o = Some x /\ is_compliant x o = Ok true) objs.
Proof.
  unfold connect. destruct (check_args objs) as [sigs|] eqn:E; [|discriminate]. intros _.
  apply check_args_compliant in E. induction E; constructor; eauto.
Qed.

(* one lock step: with members in handle order, exactly one output port and equal widths/inits, every input
   port member gets (per index) one assignment from that output; nothing else is assigned *)
Lemma step_single_out objs p ms st st' o :
  step objs p ms st = Ok st' ->
  filter is_sig_kind (tag_from 0 ms) = [] ->
  filter is_out_port (tag_from 0 ms) = [o] ->
  exists new, concat_res (map (connect_in objs p o) (filter is_in_port (tag_from 0 ms))) = Ok new /\
              fst (fst st') = fst (fst st) ++ new.
Proof.
  unfold step. intros H Hs Ho. rewrite Hs, Ho in H. cbn [nonempty andb] in H.
  destruct st as [[cs ai] ao].
  destruct (filter is_in_port (tag_from 0 ms) ++ [o]) as [|[h0 m0] r] eqn:El.
  { destruct (filter is_in_port (tag_from 0 ms)); discriminate. }
  destruct (check_wi _ _ _); [discriminate|].
  destruct (concat_res _) as [new|]; [|discriminate]. inversion H; subst. simpl. eauto.
Qed.

(* ================================================================== connect: exact characterisation *)
Definition is_ok {A} (x : res A) : bool := match x with Ok _ => true | Err _ => false end.
Definition unres {A} (x : res (list A)) : list A := match x with Ok l => l | Err _ => [] end.

Lemma concat_res_iff {A} (l : list (res (list A))) r :
  concat_res l = Ok r <-> (forall x, In x l -> is_ok x = true) /\ r = flat_map unres l.
Proof.
  revert r. induction l as [|x l IH]; simpl; intros r.
  - split; [intros H; inversion H; split; [intros ? []|reflexivity]|intros [_ ->]; reflexivity].
  - destruct x as [a|e].
    + destruct (concat_res l) as [b|e] eqn:E.
      * destruct (IH b) as [IH1 _]. destruct (IH1 eq_refl) as [Hok Hb]. subst b. split.
        -- intros H; inversion H; subst. split; [intros x [<-|Hx]; auto|reflexivity].
        -- intros [_ ->]. reflexivity.
      * split; [discriminate|]. intros [Hok ->].
        destruct (IH (flat_map unres l)) as [_ IH2].
        assert (G : @Err (list A) e = Ok (flat_map unres l)) by (apply IH2; split; auto). discriminate.
    + split; [discriminate|]. intros [Hok _]. specialize (Hok (Err e) (or_introl eq_refl)). discriminate.
Qed.

Lemma concat_res_map_iff {A B} (f : A -> res (list B)) l r :
  concat_res (map f l) = Ok r <-> (forall a, In a l -> is_ok (f a) = true) /\ r = flat_map (fun a => unres (f a)) l.
Proof.
  rewrite concat_res_iff. split; intros [H ->]; split.
  - intros a Ha. apply H. apply in_map. exact Ha.
  - induction l; simpl; [reflexivity|]. f_equal. apply IHl. intros; apply H; right; auto.
  - intros x Hx. apply in_map_iff in Hx. destruct Hx as (a & <- & Ha). auto.
  - induction l; simpl; [reflexivity|]. f_equal. apply IHl. intros; apply H; right; auto.
Qed.

(* ---- tags ---- *)
Lemma tag_from_fst k ms : map fst (tag_from k ms) = seq k (length ms).
Proof. revert k. induction ms; intros k; simpl; [reflexivity|]. rewrite IHms. reflexivity. Qed.
Lemma tag_from_snd k ms : map snd (tag_from k ms) = ms.
Proof. revert k. induction ms; intros k; simpl; [reflexivity|]. rewrite IHms. reflexivity. Qed.
Lemma tag_from_NoDup k ms : NoDup (tag_from k ms).
Proof. apply (NoDup_map_inv fst). rewrite tag_from_fst. apply seq_NoDup. Qed.
Lemma in_tag_from k ms h m : In (h, m) (tag_from k ms) <-> (k <= h)%nat /\ nth_error ms (h - k) = Some m.
Proof.
  revert k. induction ms as [|a ms IH]; intros k; simpl.
  - split; [intros []|]. intros [_ H]. destruct (h - k)%nat; discriminate.
  - rewrite IH. split.
    + intros [E|[Hk Hn]].
      * inversion E; subst. split; [lia|]. rewrite Nat.sub_diag. reflexivity.
      * split; [lia|]. replace (h - k)%nat with (S (h - S k)) by lia. exact Hn.
    + intros [Hk Hn]. destruct (h - k)%nat as [|j] eqn:Ej.
      * left. inversion Hn; subst. f_equal. lia.
      * right. split; [lia|]. replace (h - S k)%nat with j by lia. exact Hn.
Qed.
Lemma in_tag_snd k ms t : In t (tag_from k ms) -> In (snd t) ms.
Proof. intros H. rewrite <- (tag_from_snd k ms). apply in_map. exact H. Qed.
Lemma in_snd_tag k ms m : In m ms -> exists h, In (h, m) (tag_from k ms).
Proof.
  intros H. rewrite <- (tag_from_snd k ms) in H. apply in_map_iff in H. destruct H as ([h m'] & <- & H). eauto.
Qed.

Lemma kind_cases t : (is_sig_kind t = true /\ is_in_port t = false /\ is_out_port t = false) \/
                     (is_sig_kind t = false /\ is_in_port t = true /\ is_out_port t = false) \/
                     (is_sig_kind t = false /\ is_in_port t = false /\ is_out_port t = true).
Proof.
  unfold is_sig_kind, is_in_port, is_out_port, m_is_iface. destruct (m_is_port (snd t)), (is_in (m_flow (snd t))); simpl; auto.
Qed.

Lemma filter_nil_iff {A} (f : A -> bool) l : filter f l = [] <-> forall a, In a l -> f a = false.
Proof.
  induction l; simpl; [split; auto; intros _ ? []|]. destruct (f a) eqn:E.
  - split; [discriminate|]. intros H. specialize (H a (or_introl eq_refl)). congruence.
  - rewrite IHl. split; intros H b; [intros [<-|Hb]; auto|auto].
Qed.

Lemma at_most_one {A} (l : list A) : NoDup l -> (forall a b, In a l -> In b l -> a = b) -> l = [] \/ exists o, l = [o].
Proof.
  intros Hn H. destruct l as [|a [|b r]]; [auto|right; eauto|exfalso].
  assert (a = b) by (apply H; simpl; auto). subst. inversion Hn; subst. apply H2. simpl; auto.
Qed.

Definition uniform_wi (ms : list member) : Prop :=
  forall m m', In m ms -> In m' ms -> width (m_shape m) = width (m_shape m') /\ m_cinit m = m_cinit m'.

Lemma check_wi_none w0 i0 l :
  check_wi w0 i0 l = None <-> forall t, In t l -> width (m_shape (snd t)) = w0 /\ m_cinit (snd t) = i0.
Proof.
  induction l as [|[h m] l IH]; simpl; [split; auto; intros _ ? []|].
  destruct (w0 =? width (m_shape m)) eqn:Ew; simpl.
  - destruct (i0 =? m_cinit m) eqn:Ei; simpl.
    + rewrite IH. apply Z.eqb_eq in Ew, Ei. split; intros H t; [intros [<-|Ht]; simpl; auto|auto].
    + split; [discriminate|]. intros H. destruct (H (h, m) (or_introl eq_refl)) as [_ E]. simpl in E.
      apply Z.eqb_neq in Ei. congruence.
  - split; [discriminate|]. intros H. destruct (H (h, m) (or_introl eq_refl)) as [E _]. simpl in E.
    apply Z.eqb_neq in Ew. congruence.
Qed.

Section Row.
  Variable objs : list obj.
  Variable p : list Z.
  Variable ms : list member.
  Let t := tag_from 0 ms.
  Let outs := filter is_out_port t.
  Let ins := filter is_in_port t.
  Let sigs := filter is_sig_kind t.

  Definition row_asgs_ : list asg :=
    match outs with [o] => flat_map (fun i => unres (connect_in objs p o i)) ins | _ => [] end.

  Definition row_ok_ : Prop :=
    (Forall (fun m => m_is_iface m = true) ms \/ Forall (fun m => m_is_port m = true) ms) /\
    uniform_wi ms /\
    (forall o o', In o outs -> In o' outs -> o = o') /\
    (forall o i, In o outs -> In i ins -> is_ok (connect_in objs p o i) = true).

  Lemma step_iff cs ai ao st' :
    step objs p ms (cs, ai, ao) = Ok st' <->
    row_ok_ /\ st' = (cs ++ row_asgs_, ai || nonempty ins, ao || nonempty outs).
  Proof.
    unfold step, row_ok_, row_asgs_. fold t. fold outs ins sigs.
    assert (Hpart : forall x, In x t -> In x sigs \/ In x ins \/ In x outs).
    { intros x Hx. unfold sigs, ins, outs. rewrite !filter_In. destruct (kind_cases x) as [(a&b&c)|[(a&b&c)|(a&b&c)]]; auto. }
    assert (Hnd : NoDup outs) by (apply NoDup_filter, tag_from_NoDup).
    destruct sigs as [|s0 sr] eqn:Es.
    - (* only ports *)
      cbn [nonempty andb].
      assert (Hport : Forall (fun m => m_is_port m = true) ms).
      { apply Forall_forall. intros m Hm. destruct (in_snd_tag 0 ms m Hm) as [h Hh].
        assert (Hf : is_sig_kind (h, m) = false).
        { assert (E : filter is_sig_kind t = []) by exact Es. rewrite filter_nil_iff in E. apply E. exact Hh. }
        unfold is_sig_kind, m_is_iface in Hf. simpl in Hf. destruct (m_is_port m); auto. }
      assert (Hall : forall m, In m ms -> exists x, In x (ins ++ outs) /\ snd x = m).
      { intros m Hm. destruct (in_snd_tag 0 ms m Hm) as [h Hh]. exists (h, m). split; [|reflexivity].
        apply in_or_app. destruct (Hpart _ Hh) as [[]|[H|H]]; auto. }
      assert (Hsub : forall x, In x (ins ++ outs) -> In (snd x) ms).
      { intros x Hx. apply in_app_or in Hx. unfold ins, outs in Hx. rewrite !filter_In in Hx.
        apply (in_tag_snd 0). tauto. }
      destruct (ins ++ outs) as [|[h0 m0] r] eqn:El.
      + (* no member at all *)
        assert (Hms : ms = []). { destruct ms as [|m ?]; [reflexivity|]. destruct (Hall m (or_introl eq_refl)) as (x & [] & _). }
        apply app_eq_nil in El. destruct El as [Ei Eo]. rewrite Ei, Eo. cbn [nonempty].
        rewrite app_nil_r. split.
        * intros H; inversion H; subst. split; [|reflexivity].
          split; [right; constructor|]. split; [intros ? ? []|]. split; intros ? ? [].
        * intros [_ ->]. reflexivity.
      + destruct (check_wi (width (m_shape m0)) (m_cinit m0) r) as [e|] eqn:Ec.
        * split; [discriminate|]. intros [(_ & Hu & _) _]. exfalso.
          assert (check_wi (width (m_shape m0)) (m_cinit m0) r = None); [|congruence].
          apply check_wi_none. intros x Hx.
          assert (In (snd x) ms) by (apply Hsub; right; exact Hx).
          assert (In m0 ms) by (apply (Hsub (h0, m0)); left; reflexivity).
          destruct (Hu (snd x) m0); auto.
        * rewrite check_wi_none in Ec.
          assert (Hu : uniform_wi ms).
          { intros m m' Hm Hm'.
            assert (G : forall m, In m ms -> width (m_shape m) = width (m_shape m0) /\ m_cinit m = m_cinit m0).
            { intros m1 H1. destruct (Hall m1 H1) as (x & [<-|Hx] & <-); [simpl; auto|apply Ec; exact Hx]. }
            destruct (G m Hm), (G m' Hm'). split; congruence. }
          destruct outs as [|o [|o2 r2]] eqn:Eo.
          -- cbn [nonempty]. rewrite app_nil_r. split.
             ++ intros H; inversion H; subst. split; [|reflexivity].
                split; [right; exact Hport|]. split; [exact Hu|]. split; intros ? ? [].
             ++ intros [_ ->]. reflexivity.
          -- cbn [nonempty].
             destruct (concat_res (map (connect_in objs p o) ins)) as [new|e] eqn:En.
             ++ apply concat_res_map_iff in En. destruct En as [Hok ->]. split.
                ** intros H; inversion H; subst. split; [|reflexivity].
                   split; [right; exact Hport|]. split; [exact Hu|]. split.
                   --- intros a b [<-|[]] [<-|[]]. reflexivity.
                   --- intros a i [<-|[]] Hi. apply Hok. exact Hi.
                ** intros [_ ->]. reflexivity.
             ++ split; [discriminate|]. intros [(_ & _ & _ & Hok) _]. exfalso.
                assert (G : exists r', concat_res (map (connect_in objs p o) ins) = Ok r').
                { eexists. apply concat_res_map_iff. split; [|reflexivity]. intros i Hi. apply Hok; simpl; auto. }
                destruct G as [r' G]. congruence.
          -- split; [discriminate|]. intros [(_ & _ & H1 & _) _]. exfalso.
             assert (o = o2) by (apply H1; simpl; auto). subst. inversion Hnd; subst. apply H2. simpl; auto.
    - (* some interface member *)
      cbn [nonempty andb].
      assert (Hs0 : In s0 t /\ is_sig_kind s0 = true).
      { apply filter_In. fold sigs. rewrite Es. left; reflexivity. }
      destruct (nonempty outs || nonempty ins) eqn:En.
      + split; [discriminate|]. intros [([Hi|Hp] & _) _]; exfalso.
        * assert (exists x, In x t /\ is_sig_kind x = false) as (x & Hx & Hk).
          { destruct outs as [|x ?] eqn:Eo.
            - destruct ins as [|x ?] eqn:Ei; [discriminate|].
              assert (G : In x ins) by (rewrite Ei; left; reflexivity). unfold ins in G. rewrite filter_In in G.
              exists x. split; [tauto|]. destruct (kind_cases x) as [(a&b&c)|[(a&b&c)|(a&b&c)]]; auto. destruct G; congruence.
            - assert (G : In x outs) by (rewrite Eo; left; reflexivity). unfold outs in G. rewrite filter_In in G.
              exists x. split; [tauto|]. destruct (kind_cases x) as [(a&b&c)|[(a&b&c)|(a&b&c)]]; auto. destruct G; congruence. }
          rewrite Forall_forall in Hi. specialize (Hi _ (in_tag_snd 0 ms x Hx)). unfold is_sig_kind in Hk. congruence.
        * destruct Hs0 as [Hs0 Hk]. rewrite Forall_forall in Hp. specialize (Hp _ (in_tag_snd 0 ms s0 Hs0)).
          unfold is_sig_kind, m_is_iface in Hk. rewrite Hp in Hk. discriminate.
      + apply orb_false_elim in En. destruct En as [Eo Ei].
        destruct outs as [|? ?] eqn:Eo'; [|discriminate]. destruct ins as [|? ?] eqn:Ei'; [|discriminate].
        cbn [nonempty]. rewrite app_nil_r, !orb_false_r. split.
        * intros H; inversion H; subst. split; [|reflexivity]. split.
          -- left. apply Forall_forall. intros m Hm. destruct (in_snd_tag 0 ms m Hm) as [h Hh].
             destruct (Hpart _ Hh) as [H1|[[]|[]]]. rewrite <- Es in H1. unfold sigs in H1. apply filter_In in H1. tauto.
          -- split.
             ++ intros m m' Hm Hm'.
                assert (G : forall m, In m ms -> m_is_iface m = true).
                { intros m1 H1. destruct (in_snd_tag 0 ms m1 H1) as [h Hh].
                  destruct (Hpart _ Hh) as [H2|[[]|[]]]. rewrite <- Es in H2. unfold sigs in H2. apply filter_In in H2. tauto. }
                specialize (G m Hm) as G1. specialize (G m' Hm') as G2. destruct m, m'; try discriminate. simpl. auto.
             ++ split; intros ? ? [].
        * intros [_ ->]. reflexivity.
  Qed.
End Row.

(* ---- the lock-step loop = transposition of the sorted lists + one step per row ---- *)
Definition row := (list Z * list member)%type.
Definition row_ok (objs : list obj) (r : row) : Prop := row_ok_ objs (fst r) (snd r).
Definition row_asgs (objs : list obj) (r : row) : list asg := row_asgs_ objs (fst r) (snd r).
Definition row_has_in (r : row) : bool := nonempty (filter is_in_port (tag_from 0 (snd r))).
Definition row_has_out (r : row) : bool := nonempty (filter is_out_port (tag_from 0 (snd r))).

Fixpoint transpose (f0 : list entry) (rest : list (list entry)) : option (list row) :=
  match f0 with
  | [] => if forallb is_nil rest then Some [] else None
  | (p, m) :: t0 =>
      match heads p rest with
      | None => None
      | Some (hs, tails) =>
          match transpose t0 tails with Some r => Some ((p, m :: hs) :: r) | None => None end
      end
  end.

Fixpoint fold_steps (objs : list obj) (rows : list row) (st : state) : res state :=
  match rows with
  | [] => Ok st
  | r :: rs => match step objs (fst r) (snd r) st with Ok st' => fold_steps objs rs st' | Err e => Err e end
  end.

Lemma conn_loop_iff objs f0 : forall rest st st',
  conn_loop objs f0 rest st = Ok st' <->
  exists rows, transpose f0 rest = Some rows /\ fold_steps objs rows st = Ok st'.
Proof.
  induction f0 as [|[p m] t0 IH]; intros rest st st'; simpl.
  - destruct (forallb is_nil rest).
    + split; [intros H; exists []; auto|intros (rows & H1 & H2); inversion H1; subst; exact H2].
    + split; [discriminate|intros (rows & H1 & _); discriminate].
  - destruct (heads p rest) as [[hs tails]|]; [|split; [discriminate|intros (rows & H1 & _); discriminate]].
    destruct (step objs p (m :: hs) st) as [st1|e] eqn:Es.
    + rewrite IH. split.
      * intros (rows & H1 & H2). exists ((p, m :: hs) :: rows). rewrite H1. split; [reflexivity|]. simpl. rewrite Es. exact H2.
      * intros (rows & H1 & H2). destruct (transpose t0 tails) as [r|]; [|discriminate]. inversion H1; subst.
        exists r. split; [reflexivity|]. simpl in H2. rewrite Es in H2. exact H2.
    + split; [discriminate|]. intros (rows & H1 & H2). destruct (transpose t0 tails) as [r|]; [|discriminate].
      inversion H1; subst. simpl in H2. rewrite Es in H2. discriminate.
Qed.

Lemma fold_steps_iff objs rows : forall cs ai ao st',
  fold_steps objs rows (cs, ai, ao) = Ok st' <->
  Forall (row_ok objs) rows /\
  st' = (cs ++ flat_map (row_asgs objs) rows, ai || existsb row_has_in rows, ao || existsb row_has_out rows).
Proof.
  induction rows as [|r rs IH]; intros cs ai ao st'; simpl.
  - rewrite app_nil_r, !orb_false_r. split; [intros H; inversion H; auto|intros [_ ->]; reflexivity].
  - destruct (step objs (fst r) (snd r) (cs, ai, ao)) as [st1|e] eqn:Es.
    + apply step_iff in Es. destruct Es as [Hr ->]. rewrite IH. rewrite <- app_assoc, <- !orb_assoc. split.
      * intros [H1 ->]. split; [constructor; auto|reflexivity].
      * intros [H1 ->]. inversion H1; subst. split; auto.
    + split; [discriminate|]. intros [H1 _]. inversion H1; subst. exfalso.
      assert (G : exists s, step objs (fst r) (snd r) (cs, ai, ao) = Ok s) by (eexists; apply step_iff; split; [exact H2|reflexivity]).
      destruct G as [s G]. congruence.
Qed.

Definition sorted_lists (sigs : list sigt) : list (list entry) := map (fun x => sort (flat_members x)) sigs.
Definition rows_of (sigs : list sigt) : option (list row) :=
  match sorted_lists sigs with [] => Some [] | f0 :: rest => transpose f0 rest end.

(* connect succeeds exactly when: the sorted member lists line up (no member missing anywhere), every row is
   acceptable, and not (nothing connected although inputs but no output were seen) *)
Theorem connect_sigs_iff objs sigs cs : (2 <= length sigs)%nat ->
  connect_sigs objs sigs = Ok cs <->
  exists rows, rows_of sigs = Some rows /\ Forall (row_ok objs) rows /\ cs = flat_map (row_asgs objs) rows /\
               (is_nil cs && existsb row_has_in rows && negb (existsb row_has_out rows)) = false.
Proof.
  intros Hlen. unfold connect_sigs, rows_of, sorted_lists.
  destruct sigs as [|x0 [|x1 xs]]; simpl in Hlen; try lia. cbn [map].
  set (f0 := sort (flat_members x0)). set (rest := sort (flat_members x1) :: map _ xs).
  destruct (conn_loop objs f0 rest ([], false, false)) as [[[cs' ai] ao]|e] eqn:E.
  - apply conn_loop_iff in E. destruct E as (rows & Ht & Hf). apply fold_steps_iff in Hf. destruct Hf as [Hok Hst].
    inversion Hst; subst. simpl. split.
    + destruct (is_nil _ && _ && _) eqn:Eb; [discriminate|]. intros H; inversion H; subst.
      exists rows. repeat split; auto.
    + intros (rows' & Ht' & _ & -> & Hb). rewrite Ht in Ht'. inversion Ht'; subst. rewrite Hb. reflexivity.
  - split; [discriminate|]. intros (rows & Ht & Hok & _ & _). exfalso.
    assert (G : exists s, conn_loop objs f0 rest ([], false, false) = Ok s).
    { eexists. apply conn_loop_iff. exists rows. split; [exact Ht|]. apply fold_steps_iff. split; [exact Hok|reflexivity]. }
    destruct G as [s G]. congruence.
Qed.

(* ---- transposition: column h of the rows is the h-th sorted list ---- *)
Lemma path_cmp_eq a : forall b, path_cmp a b = Eq -> a = b.
Proof.
  induction a as [|x a IH]; intros [|y b]; simpl; try discriminate; auto.
  destruct (x ?= y) eqn:E; try discriminate. intros H. apply Z.compare_eq in E. subst. f_equal. auto.
Qed.
Lemma path_eqb_eq a b : path_eqb a b = true -> a = b.
Proof. unfold path_eqb. destruct (path_cmp a b) eqn:E; try discriminate. intros _. apply path_cmp_eq; auto. Qed.

Lemma heads_nth p rest : forall hs tails, heads p rest = Some (hs, tails) ->
  length hs = length rest /\ length tails = length rest /\
  forall h l, nth_error rest h = Some l ->
    exists m t, l = (p, m) :: t /\ nth_error hs h = Some m /\ nth_error tails h = Some t.
Proof.
  induction rest as [|l0 rest IH]; intros hs tails H; simpl in H.
  - inversion H; subst. repeat split; auto. intros [|h] l; discriminate.
  - destruct l0 as [|[q m] t]; [discriminate|]. destruct (path_eqb p q) eqn:E; [|discriminate].
    apply path_eqb_eq in E. subst q. destruct (heads p rest) as [[hs' ts']|]; [|discriminate].
    inversion H; subst. destruct (IH hs' ts' eq_refl) as (L1 & L2 & IH'). simpl. repeat split; auto.
    intros [|h] l Hl; simpl in *.
    + inversion Hl; subst. eauto.
    + apply IH'. exact Hl.
Qed.

Definition col (h : nat) (rows : list row) (l : list entry) : Prop :=
  Forall2 (fun r e => fst e = fst r /\ nth_error (snd r) h = Some (snd e)) rows l.

Lemma transpose_col f0 : forall rest rows, transpose f0 rest = Some rows ->
  Forall (fun r => length (snd r) = S (length rest)) rows /\
  forall h l, nth_error (f0 :: rest) h = Some l -> col h rows l.
Proof.
  induction f0 as [|[p m] t0 IH]; intros rest rows H; simpl in H.
  - destruct (forallb is_nil rest) eqn:E; [|discriminate]. inversion H; subst. split; [constructor|].
    intros [|h] l Hl; simpl in Hl.
    + inversion Hl. constructor.
    + rewrite forallb_forall in E. apply nth_error_In in Hl. specialize (E _ Hl). destruct l; [constructor|discriminate].
  - destruct (heads p rest) as [[hs tails]|] eqn:Eh; [|discriminate].
    destruct (transpose t0 tails) as [r|] eqn:Et; [|discriminate]. inversion H; subst.
    destruct (heads_nth _ _ _ _ Eh) as (L1 & L2 & Hn). destruct (IH _ _ Et) as [Hlen Hc]. split.
    + constructor; [simpl; congruence|]. rewrite L2 in Hlen. exact Hlen.
    + intros [|h] l Hl; simpl in Hl.
      * inversion Hl; subst. constructor; [simpl; auto|]. apply (Hc 0%nat). reflexivity.
      * destruct (Hn _ _ Hl) as (m' & t & -> & H1 & H2). constructor; [simpl; auto|]. apply (Hc (S h)). exact H2.
Qed.

Lemma transpose_some f0 : forall rest, Forall (fun l => map fst l = map fst f0) rest -> exists rows, transpose f0 rest = Some rows.
Proof.
  induction f0 as [|[p m] t0 IH]; intros rest H; cbn [transpose].
  - assert (E : forallb (@is_nil entry) rest = true).
    { apply forallb_forall. intros l Hl. rewrite Forall_forall in H. specialize (H _ Hl). destruct l; [reflexivity|discriminate]. }
    exists []. rewrite E. reflexivity.
  - assert (G : exists hs tails, heads p rest = Some (hs, tails) /\ Forall (fun l => map fst l = map fst t0) tails).
    { induction rest as [|l rest IHr]; simpl; [exists [], []; auto|].
      inversion H as [|? ? H2 H3]; subst. destruct l as [|[q m'] t]; [discriminate|]. simpl in H2. injection H2 as Hq Ht0. subst q.
      rewrite path_eqb_refl. destruct (IHr H3) as (hs & tails & Eh & Ht). exists (m' :: hs), (t :: tails). rewrite Eh. split; [reflexivity|constructor; auto]. }
    destruct G as (hs & tails & Eh & Ht). destruct (IH _ Ht) as [rows Er]. exists ((p, m :: hs) :: rows). rewrite Eh, Er. reflexivity.
Qed.

Lemma transpose_aligned f0 : forall rest rows, transpose f0 rest = Some rows -> Forall (fun l => map fst l = map fst f0) rest.
Proof.
  intros rest rows H. apply Forall_forall. intros l Hl. apply In_nth_error in Hl. destruct Hl as [h Hh].
  destruct (transpose_col _ _ _ H) as [_ Hc].
  assert (C0 := Hc 0%nat f0 eq_refl). assert (Ch := Hc (S h) l Hh).
  assert (G : forall h l, col h rows l -> map fst l = map fst rows).
  { clear. intros h l Hc. induction Hc; simpl; [reflexivity|]. destruct H as [-> _]. f_equal. exact IHHc. }
  rewrite (G _ _ C0), (G _ _ Ch). reflexivity.
Qed.

Lemma Forall2_in_l {A B} (R : A -> B -> Prop) l l' a : Forall2 R l l' -> In a l -> exists b, In b l' /\ R a b.
Proof. induction 1; intros []; [subst; eexists; split; [left; reflexivity|auto]|]. destruct (IHForall2 H1) as (b & Hb & Hr). eauto using in_cons. Qed.
Lemma Forall2_in_r {A B} (R : A -> B -> Prop) l l' b : Forall2 R l l' -> In b l' -> exists a, In a l /\ R a b.
Proof. induction 1; intros []; [subst; eexists; split; [left; reflexivity|auto]|]. destruct (IHForall2 H1) as (a & Ha & Hr). eauto using in_cons. Qed.

(* ---- sort is a permutation ---- *)
Lemma insert_perm {A} (e : list Z * A) l : Permutation (insert e l) (e :: l).
Proof.
  induction l as [|h t IH]; simpl; [reflexivity|]. destruct (path_leb (fst e) (fst h)); [reflexivity|].
  rewrite IH. apply perm_swap.
Qed.
Lemma sort_perm {A} (l : list (list Z * A)) : Permutation (sort l) l.
Proof. induction l; simpl; [reflexivity|]. rewrite insert_perm. constructor. exact IHl. Qed.
Lemma in_sort {A} (l : list (list Z * A)) e : In e (sort l) <-> In e l.
Proof. split; apply Permutation_in; [|symmetry]; apply sort_perm. Qed.

(* ---- member paths of a signature are pairwise distinct (dict keys distinct at each level) ---- *)
Lemma NoDup_app_intro {A} (l l' : list A) :
  NoDup l -> NoDup l' -> (forall x, In x l -> In x l' -> False) -> NoDup (l ++ l').
Proof.
  induction l as [|a l IH]; simpl; intros H1 H2 H3; [exact H2|]. inversion H1; subst. constructor.
  - intros Hin. apply in_app_or in Hin. destruct Hin; [contradiction|]. apply (H3 a); auto.
  - apply IH; auto. intros x Hx Hx'. apply (H3 x); auto.
Qed.

Lemma NoDup_flat_map_intro {A B} (F : A -> list B) l :
  NoDup l -> (forall a, In a l -> NoDup (F a)) ->
  (forall a b x, In a l -> In b l -> In x (F a) -> In x (F b) -> a = b) -> NoDup (flat_map F l).
Proof.
  induction l as [|a l IH]; simpl; intros H1 H2 H3; [constructor|]. inversion H1; subst.
  apply NoDup_app_intro; [apply H2; auto|apply IH; auto|].
  - intros a' b x Ha Hb. apply H3; auto.
  - intros x Hx Hx'. apply in_flat_map in Hx'. destruct Hx' as (b & Hb & Hxb).
    assert (a = b) by (apply (H3 a b x); auto). subst. contradiction.
Qed.

Lemma map_fst_flat_map {A B C} (F : A -> list (B * C)) l : map fst (flat_map F l) = flat_map (fun a => map fst (F a)) l.
Proof. apply map_flat_map. Qed.

Lemma flat_m_prefix m : forall fl pre n q m', In (q, m') (flat_m fl pre n m) -> exists s, q = pre ++ n :: s.
Proof.
  induction m as [f sh i d | f w ms d IH] using member_ind2; intros fl pre n q m' H.
  - simpl in H. destruct H as [H|[]]. inversion H. exists []. reflexivity.
  - cbn [flat_m] in H. destruct H as [H|H].
    + inversion H. exists []. reflexivity.
    + apply in_flat_map in H. destruct H as ([n' mm] & Hin & H). rewrite Forall_forall in IH.
      destruct (IH _ Hin _ _ _ _ _ H) as [s ->]. exists (n' :: s). rewrite <- app_assoc. reflexivity.
Qed.

Lemma nodupb_NoDup l : nodupb l = true -> NoDup l.
Proof.
  induction l as [|a l IH]; simpl; intros H; [constructor|]. apply andb_prop in H. destruct H as [H1 H2].
  constructor; [|auto]. intros Hin. apply negb_true_iff in H1.
  assert (existsb (Z.eqb a) l = true); [|congruence]. apply existsb_exists. exists a. split; [auto|apply Z.eqb_refl].
Qed.

Lemma flat_ms_nodup fl pre ms :
  nodupb (map fst ms) = true ->
  (forall nm, In nm ms -> forall fl pre n, NoDup (map fst (flat_m fl pre n (snd nm)))) ->
  NoDup (map fst (flat_ms fl pre ms)).
Proof.
  intros Hn Hm. unfold flat_ms, entry. rewrite (map_flat_map fst). apply nodupb_NoDup in Hn.
  apply NoDup_flat_map_intro.
  - apply (NoDup_map_inv fst). exact Hn.
  - intros a Ha. apply Hm. exact Ha.
  - intros [na ma] [nb mb] x Ha Hb Hxa Hxb. cbn [fst snd] in *.
    apply in_map_iff in Hxa. destruct Hxa as ([qa ea] & <- & Hqa). apply in_map_iff in Hxb. destruct Hxb as ([qb eb] & E & Hqb).
    cbn [fst] in E. subst qb.
    destruct (flat_m_prefix _ _ _ _ _ _ Hqa) as [sa Ea]. destruct (flat_m_prefix _ _ _ _ _ _ Hqb) as [sb Eb].
    rewrite Ea in Eb. apply app_inv_head in Eb. inversion Eb; subst nb.
    (* same name -> same pair, by NoDup of names *)
    clear - Hn Ha Hb. induction ms as [|[k v] ms IH]; [destruct Ha|]. simpl in Hn. inversion Hn; subst.
    destruct Ha as [Ea|Ha], Hb as [Eb|Hb].
    + congruence.
    + inversion Ea; subst. exfalso. apply H1. apply in_map_iff. exists (na, mb). auto.
    + inversion Eb; subst. exfalso. apply H1. apply in_map_iff. exists (na, ma). auto.
    + apply IH; auto.
Qed.

Lemma flat_m_nodup m : forall fl pre n, names_ok m = true -> NoDup (map fst (flat_m fl pre n m)).
Proof.
  induction m as [f sh i d | f w ms d IH] using member_ind2; intros fl pre n Hn.
  - simpl. constructor; [intros []|constructor].
  - cbn [flat_m map fst]. cbn [names_ok] in Hn. apply andb_prop in Hn. destruct Hn as [Hn1 Hn2].
    rewrite forallb_forall in Hn2. rewrite Forall_forall in IH. constructor.
    + intros Hin. apply in_map_iff in Hin. destruct Hin as ([q e] & E & Hin). cbn [fst] in E. subst q.
      apply in_flat_map in Hin. destruct Hin as ([n' mm] & _ & Hin).
      destruct (flat_m_prefix _ _ _ _ _ _ Hin) as [s Es]. rewrite <- app_assoc in Es.
      apply app_inv_head in Es. discriminate.
    + apply (flat_ms_nodup (sub_flag fl f w) (pre ++ [n]) ms Hn1).
      intros nm Hnm fl' pre' n'. apply IH; auto.
Qed.

Lemma flat_members_nodup x : names_ok (top x) = true -> NoDup (map fst (flat_members x)).
Proof.
  intros H. cbn [top names_ok] in H. apply andb_prop in H. destruct H as [H1 H2]. rewrite forallb_forall in H2.
  apply flat_ms_nodup; [exact H1|]. intros nm Hnm fl pre n. apply flat_m_nodup. auto.
Qed.

Lemma sorted_nodup x : names_ok (top x) = true -> NoDup (map fst (sort (flat_members x))).
Proof.
  intros H. eapply Permutation_NoDup; [|apply flat_members_nodup; exact H].
  apply Permutation_map. symmetry. apply sort_perm.
Qed.

Lemma NoDup_fst_inj {A B} (l : list (A * B)) a b : NoDup (map fst l) -> In a l -> In b l -> fst a = fst b -> a = b.
Proof.
  induction l as [|x l IH]; simpl; intros Hn Ha Hb E; [destruct Ha|]. inversion Hn; subst.
  destruct Ha as [<-|Ha], Hb as [<-|Hb]; auto.
  - exfalso. apply H1. rewrite E. apply in_map. exact Hb.
  - exfalso. apply H1. rewrite <- E. apply in_map. exact Ha.
Qed.

(* ---- what one port connection contributes ---- *)
Definition is_sigr (r : res obj) : bool := match r with Ok (OSig _ _ _) => true | _ => false end.
Definition PNs (p : list Z) : path := map PN p.

Lemma connect_value_unres objs ip op :
  is_ok (connect_value objs ip op) = true ->
  unres (connect_value objs ip op) = if is_sigr (traverse objs ip) then [(ip, op)] else [].
Proof.
  unfold connect_value. destruct (traverse objs ip) as [iv|]; [|discriminate].
  destruct (traverse objs op) as [ov|]; [|discriminate].
  destruct iv; try discriminate; simpl; auto.
  destruct ov; try discriminate. destruct (v =? v0); [reflexivity|discriminate].
Qed.

Lemma dims_eqb_eq a : forall b, dims_eqb a b = true -> a = b.
Proof.
  induction a as [|x a IH]; intros [|y b]; simpl; try discriminate; auto.
  intros H. apply andb_prop in H. destruct H as [H1 H2]. apply Nat.eqb_eq in H1. subst. f_equal. auto.
Qed.

Lemma connect_in_unres objs p o i :
  is_ok (connect_in objs p o i) = true ->
  m_dims (snd o) = m_dims (snd i) /\
  unres (connect_in objs p o i) =
    flat_map (fun idx => if is_sigr (traverse objs (fst i, PNs p ++ idx))
                         then [((fst i, PNs p ++ idx), (fst o, PNs p ++ idx))] else [])
             (idx_paths (m_dims (snd o))).
Proof.
  unfold connect_in. destruct (dims_eqb _ _) eqn:Ed; [|discriminate]. intros H. split; [apply dims_eqb_eq; exact Ed|].
  destruct (concat_res _) as [r|] eqn:E; [|discriminate]. apply concat_res_map_iff in E. destruct E as [Hok ->].
  simpl. apply flat_map_ext_Forall with (P := fun idx => In idx (idx_paths (m_dims (snd o)))).
  - apply Forall_forall. auto.
  - intros idx Hidx. apply connect_value_unres. apply Hok. exact Hidx.
Qed.

Definition is_pi (i : item) : bool := match i with PI _ => true | PN _ => false end.

Lemma idx_paths_pi d : forall idx, In idx (idx_paths d) -> forallb is_pi idx = true.
Proof.
  induction d as [|n d IH]; simpl; intros idx H.
  - destruct H as [<-|[]]. reflexivity.
  - apply in_flat_map in H. destruct H as (k & _ & H). apply in_map_iff in H. destruct H as (r & <- & Hr). simpl. auto.
Qed.

Lemma NoDup_map_inj {A B} (f : A -> B) l : (forall a b, f a = f b -> a = b) -> NoDup l -> NoDup (map f l).
Proof.
  intros Hinj. induction 1; simpl; constructor; auto. intros Hin. apply in_map_iff in Hin.
  destruct Hin as (y & E & Hy). apply Hinj in E. subst. contradiction.
Qed.

Lemma idx_paths_nodup d : NoDup (idx_paths d).
Proof.
  induction d as [|n d IH]; simpl; [constructor; [intros []|constructor]|].
  apply NoDup_flat_map_intro.
  - apply seq_NoDup.
  - intros a _. apply NoDup_map_inj; [|exact IH]. intros x y E. inversion E. reflexivity.
  - intros a b x _ _ Ha Hb. apply in_map_iff in Ha. destruct Ha as (r & <- & _).
    apply in_map_iff in Hb. destruct Hb as (r' & E & _). inversion E. reflexivity.
Qed.

Lemma pn_pi_split p : forall p' idx idx', PNs p ++ idx = PNs p' ++ idx' ->
  forallb is_pi idx = true -> forallb is_pi idx' = true -> p = p' /\ idx = idx'.
Proof.
  induction p as [|a p IH]; intros [|b p'] idx idx' E H1 H2; simpl in E.
  - auto.
  - subst idx. simpl in H1. discriminate.
  - subst idx'. simpl in H2. discriminate.
  - inversion E; subst. destruct (IH _ _ _ H3 H1 H2) as [-> ->]. auto.
Qed.

(* ================================================================== connect: leaf-level specification *)
Lemma col_fst h rows l : col h rows l -> map fst l = map fst rows.
Proof. intros Hc. induction Hc; simpl; [reflexivity|]. destruct H as [-> _]. f_equal. exact IHHc. Qed.

Lemma nth_error_map_inv {A B} (f : A -> B) l n y :
  nth_error (map f l) n = Some y -> exists x, nth_error l n = Some x /\ y = f x.
Proof.
  revert n. induction l as [|a l IH]; intros [|n]; simpl; try discriminate.
  - intros H; inversion H; eauto.
  - apply IH.
Qed.

Lemma rows_member sigs rows r h m :
  rows_of sigs = Some rows -> In r rows -> nth_error (snd r) h = Some m ->
  exists x, nth_error sigs h = Some x /\ In (fst r, m) (flat_members x).
Proof.
  unfold rows_of. destruct (sorted_lists sigs) as [|f0 rest] eqn:E; intros Ht Hr Hm.
  - inversion Ht; subst. destruct Hr.
  - destruct (transpose_col _ _ _ Ht) as [Hlen Hc]. rewrite Forall_forall in Hlen. specialize (Hlen _ Hr).
    assert (Hh : (h < length (f0 :: rest))%nat).
    { simpl. rewrite <- Hlen. apply nth_error_Some. congruence. }
    destruct (nth_error (f0 :: rest) h) as [l|] eqn:El; [|apply nth_error_None in El; lia].
    specialize (Hc _ _ El). rewrite <- E in El. unfold sorted_lists in El.
    apply nth_error_map_inv in El. destruct El as (x & Hx & ->).
    destruct (Forall2_in_l _ _ _ _ Hc Hr) as ([q m'] & He & Hq & Hn). cbn [fst snd] in *.
    exists x. split; [exact Hx|]. apply (proj1 (in_sort _ _)) in He. rewrite Hm in Hn. inversion Hn; subst. exact He.
Qed.

Lemma rows_find sigs rows h x p m :
  rows_of sigs = Some rows -> nth_error sigs h = Some x -> In (p, m) (flat_members x) ->
  exists r, In r rows /\ fst r = p /\ nth_error (snd r) h = Some m.
Proof.
  unfold rows_of. intros Ht Hx Hin.
  assert (El : nth_error (sorted_lists sigs) h = Some (sort (flat_members x))).
  { unfold sorted_lists. exact (map_nth_error (fun x => sort (flat_members x)) h sigs Hx). }
  destruct (sorted_lists sigs) as [|f0 rest]; [destruct h; discriminate|].
  destruct (transpose_col _ _ _ Ht) as [_ Hc]. specialize (Hc _ _ El).
  assert (Hs : In (p, m) (sort (flat_members x))) by (apply in_sort; exact Hin).
  destruct (Forall2_in_r _ _ _ _ Hc Hs) as (r & Hr & Hq & Hn). cbn [fst snd] in *. eauto.
Qed.

Lemma rows_nodup sigs rows :
  rows_of sigs = Some rows -> (forall x, In x sigs -> names_ok (top x) = true) -> NoDup (map fst rows).
Proof.
  unfold rows_of, sorted_lists. destruct sigs as [|x0 xs]; simpl; intros Ht Hn.
  - inversion Ht. constructor.
  - destruct (transpose_col _ _ _ Ht) as [_ Hc]. specialize (Hc 0%nat _ eq_refl).
    rewrite <- (col_fst _ _ _ Hc). apply sorted_nodup. apply Hn. left; reflexivity.
Qed.

Definition asg_at (objs : list obj) (i j : nat) (p : list Z) (idx : path) : asg :=
  ((i, PNs p ++ idx), (j, PNs p ++ idx)).

Lemma out_port_iff t : is_out_port t = true <-> m_is_port (snd t) = true /\ is_in (m_flow (snd t)) = false.
Proof. unfold is_out_port. rewrite andb_true_iff, negb_true_iff. tauto. Qed.
Lemma in_port_iff t : is_in_port t = true <-> m_is_port (snd t) = true /\ is_in (m_flow (snd t)) = true.
Proof. unfold is_in_port. rewrite andb_true_iff. tauto. Qed.

Lemma in_tags ms h m : In (h, m) (tag_from 0 ms) <-> nth_error ms h = Some m.
Proof. rewrite in_tag_from, Nat.sub_0_r. split; [tauto|]. intros H; split; [lia|exact H]. Qed.

Lemma row_asgs_mem objs r a : row_ok objs r ->
  (In a (row_asgs objs r) <->
   exists i j mi mj idx,
     nth_error (snd r) i = Some mi /\ m_is_port mi = true /\ is_in (m_flow mi) = true /\
     nth_error (snd r) j = Some mj /\ m_is_port mj = true /\ is_in (m_flow mj) = false /\
     In idx (idx_paths (m_dims mi)) /\ is_sigr (traverse objs (i, PNs (fst r) ++ idx)) = true /\
     a = asg_at objs i j (fst r) idx).
Proof.
  destruct r as [p ms]. unfold row_ok, row_asgs, row_ok_, row_asgs_. cbn [fst snd].
  set (t := tag_from 0 ms). set (outs := filter is_out_port t). set (ins := filter is_in_port t).
  intros (_ & _ & Hone & Hokc). split.
  - intros Ha. destruct outs as [|o [|o2 ro]] eqn:Eo; try destruct Ha.
    apply in_flat_map in Ha. destruct Ha as ([i mi] & Hi & Ha).
    assert (Ho : In o outs) by (rewrite Eo; left; reflexivity).
    destruct (connect_in_unres objs p o (i, mi)) as [Hd Hu]; [apply Hokc; [left; reflexivity|exact Hi]|].
    rewrite Hu in Ha. apply in_flat_map in Ha. destruct Ha as (idx & Hidx & Ha).
    destruct (is_sigr _) eqn:Es; [|destruct Ha]. destruct Ha as [<-|[]].
    destruct o as [j mj]. unfold outs in Ho. apply filter_In in Ho. destruct Ho as [Ho1 Ho2].
    unfold ins in Hi. apply filter_In in Hi. destruct Hi as [Hi1 Hi2].
    apply in_tags in Ho1, Hi1. apply out_port_iff in Ho2. apply in_port_iff in Hi2. cbn [fst snd] in *.
    exists i, j, mi, mj, idx. rewrite <- Hd. tauto.
  - intros (i & j & mi & mj & idx & Hi & Hip & Hii & Hj & Hjp & Hjo & Hidx & Hs & ->).
    assert (Hin : In (i, mi) ins).
    { unfold ins. apply filter_In. split; [apply in_tags; exact Hi|apply in_port_iff; auto]. }
    assert (Hout : In (j, mj) outs).
    { unfold outs. apply filter_In. split; [apply in_tags; exact Hj|apply out_port_iff; auto]. }
    destruct (at_most_one outs) as [E|[o E]]; [apply NoDup_filter, tag_from_NoDup|exact Hone|rewrite E in Hout; destruct Hout|].
    rewrite E in *. destruct Hout as [->|[]].
    apply in_flat_map. exists (i, mi). split; [exact Hin|].
    destruct (connect_in_unres objs p (j, mj) (i, mi)) as [Hd Hu]; [apply Hokc; [left; reflexivity|exact Hin]|].
    rewrite Hu. apply in_flat_map. exists idx. cbn [fst snd] in *. split; [rewrite Hd; exact Hidx|].
    rewrite Hs. left. reflexivity.
Qed.

Lemma row_asgs_keys_nodup objs r : row_ok objs r -> NoDup (map fst (row_asgs objs r)).
Proof.
  destruct r as [p ms]. unfold row_ok, row_asgs, row_ok_, row_asgs_. cbn [fst snd].
  set (t := tag_from 0 ms). set (outs := filter is_out_port t). set (ins := filter is_in_port t).
  intros (_ & _ & _ & Hokc). destruct outs as [|o [|o2 ro]] eqn:Eo; [constructor| |constructor].
  rewrite (@map_flat_map tagged asg hpath fst).
  assert (Hu : forall i, In i ins -> @map asg hpath fst (unres (connect_in objs p o i)) =
     flat_map (fun idx => if is_sigr (traverse objs (fst i, PNs p ++ idx)) then [(fst i, PNs p ++ idx)] else [])
              (idx_paths (m_dims (snd o)))).
  { intros i Hi. destruct (connect_in_unres objs p o i) as [_ ->]; [apply Hokc; [left; reflexivity|exact Hi]|].
    rewrite (@map_flat_map path asg hpath fst). apply flat_map_ext. intros idx. destruct (is_sigr _); reflexivity. }
  apply NoDup_flat_map_intro.
  - apply NoDup_filter, tag_from_NoDup.
  - intros i Hi. cbv beta. rewrite (Hu i Hi). apply NoDup_flat_map_intro.
    + apply idx_paths_nodup.
    + intros idx _. destruct (is_sigr _); constructor; [intros []|constructor].
    + intros a b x _ _ Ha Hb. destruct (is_sigr (traverse objs (fst i, PNs p ++ a))); [|destruct Ha].
      destruct (is_sigr (traverse objs (fst i, PNs p ++ b))); [|destruct Hb].
      destruct Ha as [<-|[]]. destruct Hb as [E|[]]. inversion E. apply app_inv_head in H0. congruence.
  - intros a b x Ha Hb Hxa Hxb. cbv beta in Hxa, Hxb. rewrite (Hu a Ha) in Hxa. rewrite (Hu b Hb) in Hxb.
    apply in_flat_map in Hxa. destruct Hxa as (ia & _ & Hxa). apply in_flat_map in Hxb. destruct Hxb as (ib & _ & Hxb).
    destruct (is_sigr _) in Hxa; [|destruct Hxa]. destruct (is_sigr _) in Hxb; [|destruct Hxb].
    destruct Hxa as [<-|[]]. destruct Hxb as [E|[]]. inversion E.
    unfold ins in Ha, Hb. apply filter_In in Ha, Hb.
    apply (NoDup_fst_inj t); try tauto. unfold t. rewrite tag_from_fst. apply seq_NoDup. congruence.
Qed.

Definition port_at (sigs : list sigt) (h : nat) (p : list Z) (m : member) : Prop :=
  exists x, nth_error sigs h = Some x /\ In (p, m) (flat_members x) /\ m_is_port m = true.

(* the assignments of a successful connect: exactly one per input leaf that is a Signal and has an output port
   member at the same path in another argument; driven from that output at the same path and index *)
Theorem connect_leafwise objs sigs cs :
  (2 <= length sigs)%nat -> (forall x, In x sigs -> names_ok (top x) = true) ->
  connect_sigs objs sigs = Ok cs ->
  (forall a, In a cs <->
     exists i j p mi mj idx,
       port_at sigs i p mi /\ is_in (m_flow mi) = true /\
       port_at sigs j p mj /\ is_in (m_flow mj) = false /\
       In idx (idx_paths (m_dims mi)) /\
       is_sigr (traverse objs (i, PNs p ++ idx)) = true /\
       a = asg_at objs i j p idx) /\
  NoDup (map fst cs).
Proof.
  intros Hlen Hnames Hc. apply connect_sigs_iff in Hc; [|exact Hlen].
  destruct Hc as (rows & Hrows & Hok & -> & _). rewrite Forall_forall in Hok.
  assert (Hnd : NoDup (map fst rows)) by (eapply rows_nodup; eauto).
  split.
  - intros a. rewrite in_flat_map. split.
    + intros (r & Hr & Ha). apply (row_asgs_mem objs r a (Hok _ Hr)) in Ha.
      destruct Ha as (i & j & mi & mj & idx & Hi & Hip & Hii & Hj & Hjp & Hjo & Hidx & Hs & ->).
      destruct (rows_member _ _ _ _ _ Hrows Hr Hi) as (xi & Hxi & Hini).
      destruct (rows_member _ _ _ _ _ Hrows Hr Hj) as (xj & Hxj & Hinj).
      exists i, j, (fst r), mi, mj, idx. unfold port_at. repeat split; eauto.
    + intros (i & j & p & mi & mj & idx & (xi & Hxi & Hini & Hip) & Hii & (xj & Hxj & Hinj & Hjp) & Hjo & Hidx & Hs & ->).
      destruct (rows_find _ _ _ _ _ _ Hrows Hxi Hini) as (r & Hr & Hp & Hi).
      destruct (rows_find _ _ _ _ _ _ Hrows Hxj Hinj) as (r' & Hr' & Hp' & Hj).
      assert (r' = r) by (apply (NoDup_fst_inj rows); auto; congruence). subst r'.
      exists r. split; [exact Hr|]. apply (row_asgs_mem objs r _ (Hok _ Hr)). subst p.
      exists i, j, mi, mj, idx. tauto.
  - rewrite (@map_flat_map row asg hpath fst). apply NoDup_flat_map_intro.
    + apply (NoDup_map_inv fst). exact Hnd.
    + intros r Hr. apply row_asgs_keys_nodup. auto.
    + intros ra rb x Hra Hrb Hxa Hxb.
      apply in_map_iff in Hxa. destruct Hxa as (a & <- & Ha). apply in_map_iff in Hxb. destruct Hxb as (b & E & Hb).
      apply (row_asgs_mem objs ra a (Hok _ Hra)) in Ha. apply (row_asgs_mem objs rb b (Hok _ Hrb)) in Hb.
      destruct Ha as (i & j & mi & mj & idx & _ & _ & _ & _ & _ & _ & Hidx & _ & ->).
      destruct Hb as (i' & j' & mi' & mj' & idx' & _ & _ & _ & _ & _ & _ & Hidx' & _ & ->).
      unfold asg_at in E. cbn [fst] in E. inversion E.
      apply pn_pi_split in H1; [|eapply idx_paths_pi; eauto|eapply idx_paths_pi; eauto].
      apply (NoDup_fst_inj rows); auto. symmetry. tauto.
Qed.

(* ================================================================== connect: success criterion per handle *)
Definition member_at (sigs : list sigt) (h : nat) (p : list Z) (m : member) : Prop :=
  exists x, nth_error sigs h = Some x /\ In (p, m) (flat_members x).
Definition cv_ok (objs : list obj) (ip op : hpath) : Prop := is_ok (connect_value objs ip op) = true.
Definition has_in (sigs : list sigt) : Prop :=
  exists h p m, member_at sigs h p m /\ m_is_port m = true /\ is_in (m_flow m) = true.
Definition has_out (sigs : list sigt) : Prop :=
  exists h p m, member_at sigs h p m /\ m_is_port m = true /\ is_in (m_flow m) = false.

Record connectable (objs : list obj) (sigs : list sigt) : Prop := {
  (* no member is missing anywhere: the sorted member paths of all arguments coincide *)
  c_paths : forall h h' x x', nth_error sigs h = Some x -> nth_error sigs h' = Some x' ->
            map fst (sort (flat_members x)) = map fst (sort (flat_members x'));
  (* a path is a port everywhere or an interface everywhere *)
  c_kind : forall h h' p m m', member_at sigs h p m -> member_at sigs h' p m' -> m_is_port m = m_is_port m';
  (* equal widths and initial values *)
  c_wi : forall h h' p m m', member_at sigs h p m -> member_at sigs h' p m' ->
         width (m_shape m) = width (m_shape m') /\ m_cinit m = m_cinit m';
  (* at most one output per port member *)
  c_one : forall h h' p m m', member_at sigs h p m -> member_at sigs h' p m' ->
          m_is_port m = true -> m_is_port m' = true -> is_in (m_flow m) = false -> is_in (m_flow m') = false -> h = h';
  (* an input and the output have the same dimensions, every leaf can be reached, constants agree *)
  c_conn : forall h h' p m m', member_at sigs h p m -> member_at sigs h' p m' ->
           m_is_port m = true -> is_in (m_flow m) = true -> m_is_port m' = true -> is_in (m_flow m') = false ->
           m_dims m' = m_dims m /\
           forall idx, In idx (idx_paths (m_dims m')) -> cv_ok objs (h, PNs p ++ idx) (h', PNs p ++ idx)
}.

Lemma dims_eqb_refl' d : dims_eqb d d = true. Proof. apply dims_eqb_refl. Qed.

Lemma connect_in_ok_iff objs p o i :
  is_ok (connect_in objs p o i) = true <->
  m_dims (snd o) = m_dims (snd i) /\
  forall idx, In idx (idx_paths (m_dims (snd o))) -> cv_ok objs (fst i, PNs p ++ idx) (fst o, PNs p ++ idx).
Proof.
  unfold connect_in, cv_ok. destruct (dims_eqb _ _) eqn:Ed.
  - apply dims_eqb_eq in Ed. split.
    + intros H. split; [exact Ed|]. destruct (concat_res _) as [r|] eqn:E; [|discriminate].
      apply concat_res_map_iff in E. destruct E as [Hok _]. exact Hok.
    + intros [_ H]. destruct (concat_res _) as [r|] eqn:E; [reflexivity|]. exfalso.
      assert (G : exists r, concat_res (map (fun idx => connect_value objs (fst i, PNs p ++ idx) (fst o, PNs p ++ idx))
                                          (idx_paths (m_dims (snd o)))) = Ok r).
      { eexists. apply concat_res_map_iff. split; [exact H|reflexivity]. }
      destruct G as [r G]. unfold PNs in G. congruence.
  - split; [discriminate|]. intros [E _]. rewrite E, dims_eqb_refl in Ed. discriminate.
Qed.

Lemma rows_fst sigs rows h x :
  rows_of sigs = Some rows -> nth_error sigs h = Some x -> map fst (sort (flat_members x)) = map fst rows.
Proof.
  unfold rows_of. intros Ht Hx.
  assert (El : nth_error (sorted_lists sigs) h = Some (sort (flat_members x))).
  { unfold sorted_lists. exact (map_nth_error (fun x => sort (flat_members x)) h sigs Hx). }
  destruct (sorted_lists sigs) as [|f0 rest]; [destruct h; discriminate|].
  destruct (transpose_col _ _ _ Ht) as [_ Hc]. apply (col_fst h). apply Hc. exact El.
Qed.

Lemma nonempty_filter {A} (f : A -> bool) l : nonempty (filter f l) = true <-> exists a, In a l /\ f a = true.
Proof.
  split.
  - destruct (filter f l) as [|a r] eqn:E; [discriminate|]. intros _. exists a. apply filter_In. rewrite E. left; reflexivity.
  - intros (a & Ha & Hf). destruct (filter f l) as [|b r] eqn:E; [|reflexivity].
    assert (In a (filter f l)) by (apply filter_In; auto). rewrite E in H. destruct H.
Qed.

Lemma rows_has_in sigs rows : rows_of sigs = Some rows -> (existsb row_has_in rows = true <-> has_in sigs).
Proof.
  intros Hr. rewrite existsb_exists. split.
  - intros (r & Hin & H). unfold row_has_in in H. apply nonempty_filter in H. destruct H as ([h m] & Ht & Hp).
    apply in_tags in Ht. apply in_port_iff in Hp. destruct (rows_member _ _ _ _ _ Hr Hin Ht) as (x & Hx & Hm).
    exists h, (fst r), m. unfold member_at. cbn [snd] in Hp. split; [eauto|tauto].
  - intros (h & p & m & (x & Hx & Hm) & Hp & Hi). destruct (rows_find _ _ _ _ _ _ Hr Hx Hm) as (r & Hin & _ & Hn).
    exists r. split; [exact Hin|]. unfold row_has_in. apply nonempty_filter. exists (h, m).
    split; [apply in_tags; exact Hn|apply in_port_iff; auto].
Qed.

Lemma rows_has_out sigs rows : rows_of sigs = Some rows -> (existsb row_has_out rows = true <-> has_out sigs).
Proof.
  intros Hr. rewrite existsb_exists. split.
  - intros (r & Hin & H). unfold row_has_out in H. apply nonempty_filter in H. destruct H as ([h m] & Ht & Hp).
    apply in_tags in Ht. apply out_port_iff in Hp. destruct (rows_member _ _ _ _ _ Hr Hin Ht) as (x & Hx & Hm).
    exists h, (fst r), m. unfold member_at. cbn [snd] in Hp. split; [eauto|tauto].
  - intros (h & p & m & (x & Hx & Hm) & Hp & Hi). destruct (rows_find _ _ _ _ _ _ Hr Hx Hm) as (r & Hin & _ & Hn).
    exists r. split; [exact Hin|]. unfold row_has_out. apply nonempty_filter. exists (h, m).
    split; [apply in_tags; exact Hn|apply out_port_iff; auto].
Qed.

Lemma no_out_no_asgs objs rows : existsb row_has_out rows = false -> flat_map (row_asgs objs) rows = [].
Proof.
  induction rows as [|r rows IH]; simpl; [reflexivity|]. intros H. apply orb_false_elim in H. destruct H as [H1 H2].
  rewrite (IH H2), app_nil_r. unfold row_asgs, row_asgs_. unfold row_has_out in H1.
  destruct (filter is_out_port (tag_from 0 (snd r))); [reflexivity|discriminate].
Qed.

Theorem connect_sigs_ok_iff objs sigs :
  (2 <= length sigs)%nat -> (forall x, In x sigs -> names_ok (top x) = true) ->
  ((exists cs, connect_sigs objs sigs = Ok cs) <-> connectable objs sigs /\ (has_in sigs -> has_out sigs)).
Proof.
  intros Hlen Hnames. split.
  - intros [cs Hc]. apply connect_sigs_iff in Hc; [|exact Hlen].
    destruct Hc as (rows & Hrows & Hok & -> & Hb). rewrite Forall_forall in Hok.
    assert (Hnd : NoDup (map fst rows)) by (eapply rows_nodup; eauto).
    assert (Hsame : forall h h' p m m', member_at sigs h p m -> member_at sigs h' p m' ->
              exists r, In r rows /\ fst r = p /\ nth_error (snd r) h = Some m /\ nth_error (snd r) h' = Some m').
    { intros h h' p m m' (x & Hx & Hm) (x' & Hx' & Hm').
      destruct (rows_find _ _ _ _ _ _ Hrows Hx Hm) as (r & Hr & Hp & Hn).
      destruct (rows_find _ _ _ _ _ _ Hrows Hx' Hm') as (r' & Hr' & Hp' & Hn').
      assert (r' = r) by (apply (NoDup_fst_inj rows); auto; congruence). subst r'. eauto. }
    split; [constructor|].
    + intros h h' x x' Hx Hx'. rewrite (rows_fst _ _ _ _ Hrows Hx), (rows_fst _ _ _ _ Hrows Hx'). reflexivity.
    + intros h h' p m m' H1 H2. destruct (Hsame _ _ _ _ _ H1 H2) as (r & Hr & _ & Hn & Hn').
      destruct (Hok _ Hr) as ([Hk|Hk] & _); rewrite Forall_forall in Hk;
        specialize (Hk _ (nth_error_In _ _ Hn)) as K1; specialize (Hk _ (nth_error_In _ _ Hn')) as K2.
      * unfold m_is_iface in K1, K2. destruct (m_is_port m), (m_is_port m'); auto; discriminate.
      * congruence.
    + intros h h' p m m' H1 H2. destruct (Hsame _ _ _ _ _ H1 H2) as (r & Hr & _ & Hn & Hn').
      destruct (Hok _ Hr) as (_ & Hu & _). apply Hu; eapply nth_error_In; eauto.
    + intros h h' p m m' H1 H2 P1 P2 O1 O2. destruct (Hsame _ _ _ _ _ H1 H2) as (r & Hr & _ & Hn & Hn').
      destruct (Hok _ Hr) as (_ & _ & Hone & _).
      assert (E : (h, m) = (h', m')); [|inversion E; reflexivity].
      apply Hone; apply filter_In; (split; [apply in_tags; assumption|apply out_port_iff; auto]).
    + intros h h' p m m' H1 H2 P1 I1 P2 O2. destruct (Hsame _ _ _ _ _ H1 H2) as (r & Hr & Hp & Hn & Hn').
      destruct (Hok _ Hr) as (_ & _ & _ & Hc).
      assert (G : is_ok (connect_in objs (fst r) (h', m') (h, m)) = true).
      { apply Hc; apply filter_In; (split; [apply in_tags; assumption|]); [apply out_port_iff|apply in_port_iff]; auto. }
      apply connect_in_ok_iff in G. cbn [fst snd] in G. rewrite Hp in G. exact G.
    + intros Hin. apply (rows_has_in _ _ Hrows) in Hin. rewrite Hin in Hb.
      destruct (existsb row_has_out rows) eqn:Eo; [apply (rows_has_out _ _ Hrows); exact Eo|].
      rewrite (no_out_no_asgs _ _ Eo) in Hb. discriminate.
  - intros [Hc Hio].
    destruct (sorted_lists sigs) as [|f0 rest] eqn:Es.
    { destruct sigs; [simpl in Hlen; lia|discriminate]. }
    assert (Hal : Forall (fun l => map fst l = map fst f0) rest).
    { apply Forall_forall. intros l Hl. apply In_nth_error in Hl. destruct Hl as [h Hh].
      assert (E0 : nth_error (sorted_lists sigs) 0 = Some f0) by (rewrite Es; reflexivity).
      assert (Eh : nth_error (sorted_lists sigs) (S h) = Some l) by (rewrite Es; exact Hh).
      unfold sorted_lists in E0, Eh. apply nth_error_map_inv in E0, Eh.
      destruct E0 as (x0 & Hx0 & ->). destruct Eh as (x & Hx & ->). apply (c_paths _ _ Hc _ _ _ _ Hx Hx0). }
    destruct (transpose_some _ _ Hal) as [rows Ht].
    assert (Hrows : rows_of sigs = Some rows) by (unfold rows_of; rewrite Es; exact Ht).
    assert (Hmem : forall r h m, In r rows -> nth_error (snd r) h = Some m -> member_at sigs h (fst r) m).
    { intros r h m Hr Hn. destruct (rows_member _ _ _ _ _ Hrows Hr Hn) as (x & Hx & Hm). exists x. auto. }
    assert (Hok : Forall (row_ok objs) rows).
    { apply Forall_forall. intros r Hr. unfold row_ok, row_ok_. split; [|split; [|split]].
      - destruct (snd r) as [|m0 ms] eqn:Er; [left; constructor|].
        assert (H0 : member_at sigs 0 (fst r) m0) by (apply Hmem; [exact Hr|rewrite Er; reflexivity]).
        assert (Hall : forall m, In m (m0 :: ms) -> m_is_port m = m_is_port m0).
        { intros m Hm. apply In_nth_error in Hm. destruct Hm as [h Hh]. rewrite <- Er in Hh.
          apply (c_kind _ _ Hc h 0%nat (fst r)); auto. }
        destruct (m_is_port m0) eqn:E0; [right|left]; apply Forall_forall; intros m Hm; specialize (Hall m Hm).
        + exact Hall.
        + unfold m_is_iface. rewrite Hall. reflexivity.
      - intros m m' Hm Hm'. apply In_nth_error in Hm, Hm'. destruct Hm as [h Hh], Hm' as [h' Hh'].
        apply (c_wi _ _ Hc h h' (fst r)); auto.
      - intros [h m] [h' m'] Ho Ho'. apply filter_In in Ho, Ho'. destruct Ho as [Ht1 Hp1], Ho' as [Ht2 Hp2].
        apply out_port_iff in Hp1, Hp2. cbn [snd] in Hp1, Hp2.
        assert (E : h = h').
        { apply in_tags in Ht1, Ht2. apply (c_one _ _ Hc h h' (fst r) m m'); auto; tauto. }
        subst h'. apply (NoDup_fst_inj (tag_from 0 (snd r))); auto. rewrite tag_from_fst. apply seq_NoDup.
      - intros [h' m'] [h m] Ho Hi. apply filter_In in Ho, Hi. destruct Ho as [Ht1 Hp1], Hi as [Ht2 Hp2].
        apply out_port_iff in Hp1. apply in_port_iff in Hp2. cbn [snd] in Hp1, Hp2. apply in_tags in Ht1, Ht2.
        apply connect_in_ok_iff. cbn [fst snd].
        apply (c_conn _ _ Hc h h' (fst r) m m'); auto; tauto. }
    eexists. apply connect_sigs_iff; [exact Hlen|]. exists rows. split; [exact Hrows|]. split; [exact Hok|].
    split; [reflexivity|].
    destruct (existsb row_has_out rows) eqn:Eo; [rewrite andb_false_r; reflexivity|].
    destruct (existsb row_has_in rows) eqn:Ei; [|rewrite andb_false_r; reflexivity].
    apply (rows_has_in _ _ Hrows) in Ei. apply Hio in Ei. apply (rows_has_out _ _ Hrows) in Ei. congruence.
Qed.

(* ================================================================== compliant objects can be traversed *)
Definition is_leaf (o : obj) : bool := match o with OSig _ _ _ | OConst _ _ => true | _ => false end.

Lemma all_res_inv {A} (f : A -> res bool) l : all_res true f l = Ok true -> forall a, In a l -> f a = Ok true.
Proof.
  induction l as [|x l IH]; simpl; intros H a Ha; [destruct Ha|].
  destruct (f x) as [[|]|] eqn:E; try discriminate. destruct Ha as [<-|Ha]; auto.
Qed.

Lemma check_dims_trav chk dims : forall v,
  check_dims true chk dims v = Ok true -> (forall u, chk u = Ok true -> is_leaf u = true) ->
  forall idx, In idx (idx_paths dims) -> exists leaf, trav v idx = Ok leaf /\ is_leaf leaf = true.
Proof.
  induction dims as [|d rest IH]; intros v Hc Hl idx Hidx; simpl in *.
  - destruct Hidx as [<-|[]]. simpl. eauto.
  - destruct v; try discriminate. destruct (Nat.eqb (length l) d) eqn:El; [|discriminate]. apply Nat.eqb_eq in El.
    apply in_flat_map in Hidx. destruct Hidx as (i & Hi & Hidx). apply in_map_iff in Hidx. destruct Hidx as (r & <- & Hr).
    apply in_seq in Hi. simpl. destruct (nth_error l i) as [u|] eqn:En; [|apply nth_error_None in En; lia].
    apply (IH u); auto. apply (all_res_inv _ _ Hc). eapply nth_error_In; eauto.
Qed.

Lemma flat_m_pre_cons m : forall fl a pre n,
  flat_m fl (a :: pre) n m = map (fun e => (a :: fst e, snd e)) (flat_m fl pre n m).
Proof.
  induction m as [f sh i d | f w ms d IH] using member_ind2; intros fl a pre n.
  - reflexivity.
  - cbn [flat_m map fst snd app]. f_equal. rewrite map_flat_map.
    eapply flat_map_ext_Forall; [exact IH|]. intros nm H. apply H.
Qed.

Lemma m_dims_flipm fl m : m_dims (flipm fl m) = m_dims m.
Proof. destruct fl, m; reflexivity. Qed.
Lemma m_is_port_flipm fl m : m_is_port (flipm fl m) = m_is_port m.
Proof. destruct fl, m; reflexivity. Qed.

Lemma compl_trav m : forall fl c, nodims_m m = true -> compl_m true fl m c = Ok true ->
  match m with
  | Port _ _ _ _ => is_leaf c = true
  | Iface f w ms _ =>
      forall q mm idx, In (q, mm) (flat_ms (sub_flag fl f w) [] ms) -> m_is_port mm = true ->
        In idx (idx_paths (m_dims mm)) -> exists leaf, trav c (PNs q ++ idx) = Ok leaf /\ is_leaf leaf = true
  end.
Proof.
  induction m as [f sh i d | f w ms d IH] using member_ind2; intros fl c Hnd Hc.
  - simpl in Hc. destruct c; try discriminate; reflexivity.
  - intros q mm idx Hin Hport Hidx. cbn [compl_m] in Hc. set (g := sub_flag fl f w) in *.
    destruct (obj_sig c) as [y|]; [|discriminate]. destruct (negb (sig_eqb (g, ms) y)); [discriminate|].
    cbn [fst] in Hc. unfold flat_ms in Hin. apply in_flat_map in Hin. destruct Hin as ([n m1] & Hnm & Hin).
    cbn [fst snd] in Hin. pose proof (all_res_inv _ _ Hc _ Hnm) as Hf. cbn [fst snd] in Hf.
    cbn [nodims_m] in Hnd. rewrite forallb_forall in Hnd. specialize (Hnd _ Hnm). cbn [snd] in Hnd.
    apply andb_prop in Hnd. destruct Hnd as [Hd1 Hd2].
    rewrite Forall_forall in IH. specialize (IH _ Hnm). cbn [snd] in IH.
    destruct (obj_get c n) as [c1| |] eqn:Eg; try discriminate.
    destruct m1 as [f1 sh1 i1 d1 | f1 w1 ms1 d1].
    + (* a port of this interface *)
      simpl in Hin. destruct Hin as [E|[]]. inversion E; subst q mm. simpl. rewrite Eg.
      assert (Ed : m_dims (flipm g (Port f1 sh1 i1 d1)) = d1) by (destruct g; reflexivity).
      rewrite Ed in Hidx. cbn [m_dims] in Hf.
      apply (check_dims_trav _ _ _ Hf); [|exact Hidx].
      intros u Hu. exact (IH g u eq_refl Hu).
    + (* through a nested interface (no dimensions) *)
      cbn [m_is_port m_dims orb] in Hd1. destruct d1; [|discriminate]. cbn [m_dims check_dims] in Hf.
      cbn [flat_m] in Hin. destruct Hin as [E|Hin].
      * inversion E; subst. destruct g; discriminate.
      * apply in_flat_map in Hin. destruct Hin as ([n2 m2] & Hnm2 & Hin). cbn [fst snd app] in Hin.
        rewrite flat_m_pre_cons in Hin. apply in_map_iff in Hin. destruct Hin as ([q' e'] & E & Hin).
        cbn [fst snd] in E. inversion E; subst q mm.
        specialize (IH g c1 Hd2 Hf). cbn beta iota in IH.
        destruct (IH q' e' idx) as (leaf & Ht & Hl); auto.
        { unfold flat_ms. apply in_flat_map. exists (n2, m2). auto. }
        exists leaf. split; [|exact Hl]. simpl. rewrite Eg. exact Ht.
Qed.

Lemma sub_flag_top w : sub_flag false FOut w = w.
Proof. destruct w; reflexivity. Qed.

Theorem compliant_traversable x o q mm idx :
  nodims_sig x = true -> is_compliant x o = Ok true ->
  In (q, mm) (flat_members x) -> m_is_port mm = true -> In idx (idx_paths (m_dims mm)) ->
  exists leaf, trav o (PNs q ++ idx) = Ok leaf /\ is_leaf leaf = true.
Proof.
  intros Hn Hc Hin Hp Hidx. pose proof (compl_trav (top x) false o Hn Hc) as H. cbn [top] in H.
  rewrite sub_flag_top in H. apply (H q mm idx); auto.
Qed.

(* ================================================================== connect on compliant arguments *)
Definition const_ok (objs : list obj) (ip op : hpath) : Prop :=
  forall sh v, traverse objs ip = Ok (OConst sh v) -> exists sh', traverse objs op = Ok (OConst sh' v).

Lemma cv_ok_leaf objs ip op li lo :
  traverse objs ip = Ok li -> is_leaf li = true -> traverse objs op = Ok lo -> is_leaf lo = true ->
  (cv_ok objs ip op <-> const_ok objs ip op).
Proof.
  intros Hi Li Ho Lo. unfold cv_ok, const_ok, connect_value. rewrite Hi, Ho.
  destruct li; try discriminate.
  - split; [intros _ sh' v E; discriminate|reflexivity].
  - destruct lo; try discriminate.
    + split; [discriminate|]. intros H. destruct (H _ _ eq_refl) as [sh' E]. discriminate.
    + split.
      * destruct (v =? v0) eqn:E; [|discriminate]. apply Z.eqb_eq in E. subst. intros _ sh1 v1 E1. inversion E1; subst. eauto.
      * intros H. destruct (H _ _ eq_refl) as [sh' E]. inversion E; subst. rewrite Z.eqb_refl. reflexivity.
Qed.

Record connectable_with (okp : hpath -> hpath -> Prop) (sigs : list sigt) : Prop := {
  k_paths : forall h h' x x', nth_error sigs h = Some x -> nth_error sigs h' = Some x' ->
            map fst (sort (flat_members x)) = map fst (sort (flat_members x'));
  k_kind : forall h h' p m m', member_at sigs h p m -> member_at sigs h' p m' -> m_is_port m = m_is_port m';
  k_wi : forall h h' p m m', member_at sigs h p m -> member_at sigs h' p m' ->
         width (m_shape m) = width (m_shape m') /\ m_cinit m = m_cinit m';
  k_one : forall h h' p m m', member_at sigs h p m -> member_at sigs h' p m' ->
          m_is_port m = true -> m_is_port m' = true -> is_in (m_flow m) = false -> is_in (m_flow m') = false -> h = h';
  k_conn : forall h h' p m m', member_at sigs h p m -> member_at sigs h' p m' ->
           m_is_port m = true -> is_in (m_flow m) = true -> m_is_port m' = true -> is_in (m_flow m') = false ->
           m_dims m' = m_dims m /\
           forall idx, In idx (idx_paths (m_dims m')) -> okp (h, PNs p ++ idx) (h', PNs p ++ idx)
}.

Lemma connectable_with_iff (P Q : hpath -> hpath -> Prop) sigs :
  (forall h h' p m m' idx, member_at sigs h p m -> member_at sigs h' p m' ->
      m_is_port m = true -> m_is_port m' = true -> m_dims m' = m_dims m -> In idx (idx_paths (m_dims m')) ->
      (P (h, PNs p ++ idx) (h', PNs p ++ idx) <-> Q (h, PNs p ++ idx) (h', PNs p ++ idx))) ->
  connectable_with P sigs -> connectable_with Q sigs.
Proof.
  intros HPQ [H1 H2 H3 H4 H5]. constructor; auto.
  intros h h' p m m' M1 M2 P1 I1 P2 O2. destruct (H5 _ _ _ _ _ M1 M2 P1 I1 P2 O2) as [Hd Hk]. split; [exact Hd|].
  intros idx Hidx. apply (HPQ h h' p m m' idx); auto.
Qed.

Lemma connectable_is_with objs sigs : connectable objs sigs <-> connectable_with (cv_ok objs) sigs.
Proof. split; intros [H1 H2 H3 H4 H5]; constructor; auto. Qed.

Definition args_ok (objs : list obj) (sigs : list sigt) : Prop :=
  Forall2 (fun o x => obj_sig o = Some x /\ is_compliant x o = Ok true) objs sigs.

Lemma check_args_iff objs sigs : check_args objs = Ok sigs <-> args_ok objs sigs.
Proof.
  split; [apply check_args_compliant|]. induction 1 as [|o x objs sigs [Hs Hc] _ IH]; simpl; [reflexivity|].
  rewrite Hs, Hc, IH. reflexivity.
Qed.

Lemma Forall2_nth_r {A B} (R : A -> B -> Prop) l l' h b :
  Forall2 R l l' -> nth_error l' h = Some b -> exists a, nth_error l h = Some a /\ R a b.
Proof.
  intros H. revert h. induction H; intros [|h] Hh; simpl in *; try discriminate.
  - inversion Hh; subst. eauto.
  - apply IHForall2. exact Hh.
Qed.

Lemma args_traversable objs sigs h p m idx :
  args_ok objs sigs -> (forall x, In x sigs -> nodims_sig x = true) ->
  member_at sigs h p m -> m_is_port m = true -> In idx (idx_paths (m_dims m)) ->
  exists leaf, traverse objs (h, PNs p ++ idx) = Ok leaf /\ is_leaf leaf = true.
Proof.
  intros Ha Hn (x & Hx & Hm) Hp Hidx. destruct (Forall2_nth_r _ _ _ _ _ Ha Hx) as (o & Ho & _ & Hc).
  unfold traverse. cbn [fst snd]. rewrite Ho. eapply compliant_traversable; eauto.
  apply Hn. eapply nth_error_In; eauto.
Qed.

(* the full criterion for compliant arguments without arrays of interfaces *)
Theorem connect_ok_iff objs sigs :
  check_args objs = Ok sigs -> (2 <= length sigs)%nat ->
  (forall x, In x sigs -> names_ok (top x) = true) -> (forall x, In x sigs -> nodims_sig x = true) ->
  ((exists cs, connect objs = Ok cs) <->
   connectable_with (const_ok objs) sigs /\ (has_in sigs -> has_out sigs)).
Proof.
  intros Hca Hlen Hnames Hnd. unfold connect. rewrite Hca. apply check_args_iff in Hca.
  rewrite (connect_sigs_ok_iff objs sigs Hlen Hnames), connectable_is_with.
  assert (G : forall h h' p m m' idx, member_at sigs h p m -> member_at sigs h' p m' ->
      m_is_port m = true -> m_is_port m' = true -> m_dims m' = m_dims m -> In idx (idx_paths (m_dims m')) ->
      (cv_ok objs (h, PNs p ++ idx) (h', PNs p ++ idx) <-> const_ok objs (h, PNs p ++ idx) (h', PNs p ++ idx))).
  { intros h h' p m m' idx M1 M2 P1 P2 Hd Hidx.
    destruct (args_traversable objs sigs h p m idx Hca Hnd M1 P1) as (li & Hi & Li); [rewrite <- Hd; exact Hidx|].
    destruct (args_traversable objs sigs h' p m' idx Hca Hnd M2 P2 Hidx) as (lo & Ho & Lo).
    eapply cv_ok_leaf; eauto. }
  split; intros [Hc Hio]; (split; [|exact Hio]); eapply connectable_with_iff; try exact Hc.
  - exact G.
  - intros h h' p m m' idx M1 M2 P1 P2 Hd Hidx. symmetry. apply (G h h' p m m' idx); auto.
Qed.

(* what the assignments are *)
Theorem connect_ok_spec objs sigs cs :
  check_args objs = Ok sigs -> (2 <= length sigs)%nat ->
  (forall x, In x sigs -> names_ok (top x) = true) ->
  connect objs = Ok cs ->
  (forall a, In a cs <->
     exists i j p mi mj idx,
       port_at sigs i p mi /\ is_in (m_flow mi) = true /\
       port_at sigs j p mj /\ is_in (m_flow mj) = false /\
       In idx (idx_paths (m_dims mi)) /\
       is_sigr (traverse objs (i, PNs p ++ idx)) = true /\
       a = asg_at objs i j p idx) /\
  NoDup (map fst cs) /\
  (* no output leaf is driven *)
  (forall a, In a cs -> forall p mo idx, port_at sigs (fst (fst a)) p mo -> is_in (m_flow mo) = false ->
        In idx (idx_paths (m_dims mo)) -> snd (fst a) <> PNs p ++ idx).
Proof.
  intros Hca Hlen Hnames Hc. unfold connect in Hc. rewrite Hca in Hc.
  destruct (connect_leafwise objs sigs cs Hlen Hnames Hc) as [Hmem Hnd]. split; [exact Hmem|]. split; [exact Hnd|].
  intros a Ha p mo idx (x & Hx & Hmo & Hpo) Ho Hidx E.
  apply Hmem in Ha. destruct Ha as (i & j & p' & mi & mj & idx' & (x' & Hx' & Hmi & Hpi) & Hi & _ & _ & Hidx' & _ & ->).
  unfold asg_at in *. cbn [fst snd] in *. rewrite Hx in Hx'. inversion Hx'; subst x'.
  apply pn_pi_split in E; [|eapply idx_paths_pi; eauto|eapply idx_paths_pi; eauto]. destruct E as [-> ->].
  assert (G : (p, mi) = (p, mo)).
  { apply (NoDup_fst_inj (flat_members x)); auto. apply flat_members_nodup. apply Hnames. eapply nth_error_In; eauto. }
  inversion G; subst. congruence.
Qed.

(* ================================================================== connect does not depend on the argument order *)
Definition swap_at (k h : nat) : nat := if Nat.eqb h k then S k else if Nat.eqb h (S k) then k else h.

Lemma swap_at_invol k h : swap_at k (swap_at k h) = h.
Proof.
  unfold swap_at. destruct (Nat.eqb_spec h k).
  - subst. rewrite (proj2 (Nat.eqb_neq (S k) k)) by lia. rewrite Nat.eqb_refl. reflexivity.
  - destruct (Nat.eqb_spec h (S k)).
    + subst. rewrite Nat.eqb_refl. reflexivity.
    + rewrite (proj2 (Nat.eqb_neq h k)), (proj2 (Nat.eqb_neq h (S k))) by lia. reflexivity.
Qed.

Lemma nth_error_swap {A} (l1 : list A) a b l2 h :
  nth_error (l1 ++ b :: a :: l2) (swap_at (length l1) h) = nth_error (l1 ++ a :: b :: l2) h.
Proof.
  revert h. induction l1 as [|x l1 IH]; intros h; simpl.
  - destruct h as [|[|h]]; reflexivity.
  - destruct h as [|h]; [reflexivity|]. simpl. rewrite <- IH. unfold swap_at. simpl.
    destruct (Nat.eqb h (length l1)); [reflexivity|]. destruct (Nat.eqb h (S (length l1))); reflexivity.
Qed.

Section Swap.
  Variables (objs objs' : list obj) (sigs sigs' : list sigt) (s : nat -> nat).
  Hypothesis Hinv : forall h, s (s h) = h.
  Hypothesis Hsig : forall h, nth_error sigs' (s h) = nth_error sigs h.
  Hypothesis Hobj : forall h, nth_error objs' (s h) = nth_error objs h.

  Lemma sw_traverse h q : traverse objs' (s h, q) = traverse objs (h, q).
  Proof. unfold traverse. cbn [fst snd]. rewrite Hobj. reflexivity. Qed.
  Lemma sw_traverse' h q : traverse objs' (h, q) = traverse objs (s h, q).
  Proof. rewrite <- (Hinv h) at 1. apply sw_traverse. Qed.

  Lemma sw_member h p m : member_at sigs' h p m -> member_at sigs (s h) p m.
  Proof. intros (x & Hx & Hm). exists x. split; [|exact Hm]. rewrite <- Hsig, Hinv. exact Hx. Qed.
  Lemma sw_member' h p m : member_at sigs h p m -> member_at sigs' (s h) p m.
  Proof. intros (x & Hx & Hm). exists x. split; [|exact Hm]. rewrite Hsig. exact Hx. Qed.
  Lemma sw_port h p m : port_at sigs h p m -> port_at sigs' (s h) p m.
  Proof. intros (x & Hx & Hm). exists x. split; [|exact Hm]. rewrite Hsig. exact Hx. Qed.
  Lemma sw_port' h p m : port_at sigs' h p m -> port_at sigs (s h) p m.
  Proof. intros (x & Hx & Hm). exists x. split; [|exact Hm]. rewrite <- Hsig, Hinv. exact Hx. Qed.

  Lemma sw_cv_ok h h' q q' : cv_ok objs (s h, q) (s h', q') -> cv_ok objs' (h, q) (h', q').
  Proof.
    unfold cv_ok, connect_value. rewrite !sw_traverse'.
    destruct (traverse objs (s h, q)) as [iv|]; [|auto]. destruct (traverse objs (s h', q')) as [ov|]; [|auto].
    destruct iv; auto.
  Qed.

  Lemma sw_connectable : connectable objs sigs -> connectable objs' sigs'.
  Proof.
    intros [H1 H2 H3 H4 H5]. constructor.
    - intros h h' x x' Hx Hx'. apply (H1 (s h) (s h')); rewrite <- Hsig, Hinv; assumption.
    - intros h h' p m m' M1 M2. apply (H2 (s h) (s h') p); apply sw_member; assumption.
    - intros h h' p m m' M1 M2. apply (H3 (s h) (s h') p); apply sw_member; assumption.
    - intros h h' p m m' M1 M2 P1 P2 O1 O2.
      assert (E : s h = s h') by (apply (H4 (s h) (s h') p m m'); auto; apply sw_member; assumption).
      rewrite <- (Hinv h), <- (Hinv h'), E. reflexivity.
    - intros h h' p m m' M1 M2 P1 I1 P2 O2.
      destruct (H5 (s h) (s h') p m m') as [Hd Hk]; auto; try (apply sw_member; assumption).
      split; [exact Hd|]. intros idx Hidx. apply sw_cv_ok. apply Hk. exact Hidx.
  Qed.

  Lemma sw_has_in : has_in sigs -> has_in sigs'.
  Proof. intros (h & p & m & M & P). exists (s h), p, m. split; [apply sw_member'; exact M|exact P]. Qed.
  Lemma sw_has_out : has_out sigs' -> has_out sigs.
  Proof. intros (h & p & m & M & P). exists (s h), p, m. split; [apply sw_member; exact M|exact P]. Qed.
End Swap.

Definition rn (s : nat -> nat) (a : asg) : asg := ((s (fst (fst a)), snd (fst a)), (s (fst (snd a)), snd (snd a))).
Definition resolve (objs : list obj) (a : asg) : res obj * res obj := (traverse objs (fst a), traverse objs (snd a)).
Definition names_good (objs : list obj) : Prop :=
  Forall (fun o => forall x, obj_sig o = Some x -> names_ok (top x) = true) objs.

Lemma args_names objs sigs : args_ok objs sigs -> names_good objs -> forall x, In x sigs -> names_ok (top x) = true.
Proof.
  intros Ha Hg x Hx. destruct (Forall2_in_r _ _ _ _ Ha Hx) as (o & Ho & Hs & _).
  unfold names_good in Hg. rewrite Forall_forall in Hg. apply (Hg o Ho). exact Hs.
Qed.

Lemma F2_length {A B} (R : A -> B -> Prop) l l' : Forall2 R l l' -> length l = length l'.
Proof. induction 1; simpl; congruence. Qed.

Lemma connect_swap l1 a b l2 cs :
  names_good (l1 ++ a :: b :: l2) -> connect (l1 ++ a :: b :: l2) = Ok cs ->
  exists cs', connect (l1 ++ b :: a :: l2) = Ok cs' /\
              Permutation (map (resolve (l1 ++ a :: b :: l2)) cs) (map (resolve (l1 ++ b :: a :: l2)) cs').
Proof.
  set (objs := l1 ++ a :: b :: l2). set (objs' := l1 ++ b :: a :: l2). intros Hg Hc.
  unfold connect in Hc. destruct (check_args objs) as [sigs|] eqn:Hca; [|discriminate].
  apply check_args_iff in Hca. unfold objs, args_ok in Hca.
  apply Forall2_app_inv_l in Hca. destruct Hca as (s1 & sr & F1 & Fr & Es).
  inversion Fr as [|? xa ? sr' Ra Fr']; subst. inversion Fr' as [|? xb ? s2 Rb F2]; subst.
  set (sigs := s1 ++ xa :: xb :: s2) in *. set (sigs' := s1 ++ xb :: xa :: s2).
  assert (Hl : length l1 = length s1) by (eapply F2_length; eauto).
  set (s := swap_at (length l1)).
  assert (Ha : args_ok objs sigs) by (apply Forall2_app; [exact F1|constructor; [exact Ra|constructor; [exact Rb|exact F2]]]).
  assert (Ha' : args_ok objs' sigs') by (apply Forall2_app; [exact F1|constructor; [exact Rb|constructor; [exact Ra|exact F2]]]).
  assert (Hinv : forall h, s (s h) = h) by (intros; apply swap_at_invol).
  assert (Hsig : forall h, nth_error sigs' (s h) = nth_error sigs h).
  { intros h. unfold s, sigs, sigs'. rewrite Hl. apply nth_error_swap. }
  assert (Hobj : forall h, nth_error objs' (s h) = nth_error objs h).
  { intros h. unfold s, objs, objs'. apply nth_error_swap. }
  assert (Hsig2 : forall h, nth_error sigs (s h) = nth_error sigs' h) by (intros h; rewrite <- Hsig, Hinv; reflexivity).
  assert (Hobj2 : forall h, nth_error objs (s h) = nth_error objs' h) by (intros h; rewrite <- Hobj, Hinv; reflexivity).
  assert (Hlen : (2 <= length sigs)%nat) by (unfold sigs; rewrite app_length; simpl; lia).
  assert (Hlen' : (2 <= length sigs')%nat) by (unfold sigs'; rewrite app_length; simpl; lia).
  assert (Hg' : names_good objs').
  { unfold names_good, objs' in *. unfold objs in Hg. rewrite Forall_app in *. destruct Hg as [G1 G2].
    inversion G2 as [|? ? Ga G3]; subst. inversion G3 as [|? ? Gb G4]; subst. split; [exact G1|]. repeat constructor; auto. }
  assert (Hn : forall x, In x sigs -> names_ok (top x) = true) by (eapply args_names; eauto).
  assert (Hn' : forall x, In x sigs' -> names_ok (top x) = true) by (eapply args_names; eauto).
  assert (Hex : exists cs', connect_sigs objs' sigs' = Ok cs').
  { apply (connect_sigs_ok_iff objs' sigs' Hlen' Hn').
    destruct (proj1 (connect_sigs_ok_iff objs sigs Hlen Hn) (ex_intro _ cs Hc)) as [C Hio]. split.
    - apply (sw_connectable objs objs' sigs sigs' s Hinv Hsig Hobj C).
    - intros Hi. apply (sw_has_in sigs' sigs s Hsig2) in Hi. apply Hio in Hi.
      apply (sw_has_out sigs' sigs s Hinv Hsig2). exact Hi. }
  destruct Hex as [cs' Hc']. exists cs'. split.
  { unfold connect. apply check_args_iff in Ha'. rewrite Ha'. exact Hc'. }
  destruct (connect_leafwise objs sigs cs Hlen Hn Hc) as [Hm Hnd].
  destruct (connect_leafwise objs' sigs' cs' Hlen' Hn' Hc') as [Hm' Hnd'].
  assert (Hperm : Permutation (map (rn s) cs) cs').
  { apply NoDup_Permutation.
    - apply NoDup_map_inj; [|apply (NoDup_map_inv fst); exact Hnd].
      intros [[i q] [j q']] [[i2 q2] [j2 q2']] E. unfold rn in E. cbn [fst snd] in E. inversion E.
      assert (i = i2) by (rewrite <- (Hinv i), <- (Hinv i2); congruence).
      assert (j = j2) by (rewrite <- (Hinv j), <- (Hinv j2); congruence). congruence.
    - apply (NoDup_map_inv fst). exact Hnd'.
    - intros a'. rewrite in_map_iff. split.
      + intros (a0 & <- & Ha0). apply Hm in Ha0.
        destruct Ha0 as (i & j & p & mi & mj & idx & Pi & Ii & Pj & Oj & Hidx & Hs & ->).
        apply Hm'. exists (s i), (s j), p, mi, mj, idx.
        split; [apply (sw_port sigs sigs' s Hsig); exact Pi|]. split; [exact Ii|].
        split; [apply (sw_port sigs sigs' s Hsig); exact Pj|]. split; [exact Oj|]. split; [exact Hidx|].
        split; [rewrite (sw_traverse objs objs' s Hobj); exact Hs|reflexivity].
      + intros Ha0. apply Hm' in Ha0.
        destruct Ha0 as (i & j & p & mi & mj & idx & Pi & Ii & Pj & Oj & Hidx & Hs & ->).
        exists (asg_at objs (s i) (s j) p idx). split.
        * unfold rn, asg_at. cbn [fst snd]. rewrite !Hinv. reflexivity.
        * apply Hm. exists (s i), (s j), p, mi, mj, idx.
          split; [apply (sw_port' sigs sigs' s Hinv Hsig); exact Pi|]. split; [exact Ii|].
          split; [apply (sw_port' sigs sigs' s Hinv Hsig); exact Pj|]. split; [exact Oj|]. split; [exact Hidx|].
          split; [rewrite <- (sw_traverse' objs objs' s Hinv Hobj); exact Hs|reflexivity]. }
  assert (Hres : map (resolve objs) cs = map (resolve objs') (map (rn s) cs)).
  { rewrite map_map. apply map_ext. intros [[i q] [j q']]. unfold resolve, rn. cbn [fst snd].
    rewrite !(sw_traverse objs objs' s Hobj). reflexivity. }
  rewrite Hres. apply Permutation_map. exact Hperm.
Qed.

Definition perm_rel (l l' : list obj) : Prop :=
  forall cs, connect l = Ok cs ->
  exists cs', connect l' = Ok cs' /\ Permutation (map (resolve l) cs) (map (resolve l') cs').

Lemma names_good_perm l l' : Permutation l l' -> names_good l -> names_good l'.
Proof.
  unfold names_good. intros HP H. rewrite Forall_forall in *. intros o Ho. apply H.
  eapply Permutation_in; [symmetry; exact HP|exact Ho].
Qed.

(* the assignments made by connect (as pairs of the connected objects) and its success do not depend on the
   order of the arguments *)
Theorem connect_perm l l' : Permutation l l' -> names_good l -> perm_rel l l' /\ perm_rel l' l.
Proof.
  intros HP. induction HP as [l|x y l1 l2|l l' l'' HP1 IH1 HP2 IH2] using Permutation_ind_transp; intros Hg.
  - split; intros cs H; exists cs; split; auto.
  - split; intros cs H; apply connect_swap; auto.
    eapply names_good_perm; [|exact Hg]. apply Permutation_app_head. apply perm_swap.
  - destruct (IH1 Hg) as [A1 B1]. destruct (IH2 (names_good_perm _ _ HP1 Hg)) as [A2 B2]. split.
    + intros cs H. destruct (A1 cs H) as (cs1 & H1 & P1). destruct (A2 cs1 H1) as (cs2 & H2 & P2).
      exists cs2. split; [exact H2|]. eapply Permutation_trans; eauto.
    + intros cs H. destruct (B2 cs H) as (cs1 & H1 & P1). destruct (B1 cs1 H1) as (cs2 & H2 & P2).
      exists cs2. split; [exact H2|]. eapply Permutation_trans; eauto.
Qed.

Corollary connect_perm_error l l' e : Permutation l l' -> names_good l -> connect l = Err e -> exists e', connect l' = Err e'.
Proof.
  intros HP Hg He. destruct (connect_perm l l' HP Hg) as [_ B]. destruct (connect l') as [cs'|e'] eqn:E; [|eauto].
  destruct (B cs' E) as (cs & H & _). congruence.
Qed.

(* ================================================================== metadata lists every leaf once *)
Fixpoint json_ports (j : json) : list sleaf :=
  match j with
  | JPort nm d w sg i => [SLeaf nm d (Sh w sg) i]
  | JArr l => flat_map json_ports l
  | JIface ms => flat_map (fun nj => json_ports (snd nj)) ms
  end.

Lemma flat_map_map {A B C} (g : B -> list C) (h : A -> B) l : flat_map g (map h l) = flat_map (fun a => g (h a)) l.
Proof. induction l; simpl; [reflexivity|]. rewrite IHl. reflexivity. Qed.
Lemma flat_map_flat_map {A B C} (g : B -> list C) (h : A -> list B) l :
  flat_map g (flat_map h l) = flat_map (fun a => flat_map g (h a)) l.
Proof. induction l; simpl; [reflexivity|]. rewrite flat_map_app, IHl. reflexivity. Qed.

Lemma meta_dims_ports f dims : forall p,
  json_ports (meta_dims f dims p) = flat_map (fun idx => json_ports (f (p ++ idx))) (idx_paths dims).
Proof.
  induction dims as [|d rest IH]; intros p; simpl.
  - rewrite !app_nil_r. reflexivity.
  - rewrite flat_map_map, flat_map_flat_map. apply flat_map_ext. intros i.
    rewrite IH, flat_map_map. apply flat_map_ext. intros idx. rewrite <- app_assoc. reflexivity.
Qed.

Lemma meta_m_ports m : forall k p,
  json_ports (meta_dims (meta_m (Nat.odd k) m) (m_dims m) p) = spec_leaves_m k m p.
Proof.
  induction m as [f sh i d | f w ms d IH] using member_ind2; intros k p; rewrite meta_dims_ports.
  - cbn [m_dims meta_m json_ports spec_leaves_m]. rewrite iter_flip_odd. destruct sh as [wd sg]. cbn [width sgn].
    induction (idx_paths d); simpl; [reflexivity|]. f_equal; assumption.
  - cbn [m_dims meta_m json_ports spec_leaves_m]. apply flat_map_ext. intros idx.
    rewrite flat_map_map. cbn [snd fst]. rewrite sub_flag_odd.
    eapply flat_map_ext_Forall; [exact IH|]. intros nm H. rewrite H, <- app_assoc. reflexivity.
Qed.

(* ComponentMetadata.as_json lists exactly the leaves of the specification (path with indices, effective
   direction, width, signedness, initial value), in order *)
Theorem metadata_lists_leaves x : json_ports (metadata x) = spec_leaves x.
Proof.
  destruct x as [w ms]. unfold metadata, spec_leaves, top. cbn [meta_m json_ports fst snd].
  rewrite flat_map_map. cbn [snd fst app]. rewrite sub_flag_top.
  apply flat_map_ext. intros nm.
  replace w with (Nat.odd (b2n w)) at 1 by (destruct w; reflexivity). apply meta_m_ports.
Qed.

(* ---- each leaf once ---- *)
Lemma spec_leaves_prefix m : forall k p l, In l (spec_leaves_m k m p) -> exists s, s_path l = p ++ s.
Proof.
  induction m as [f sh i d | f w ms d IH] using member_ind2; intros k p l H; cbn [spec_leaves_m] in H.
  - apply in_map_iff in H. destruct H as (idx & <- & _). simpl. eauto.
  - apply in_flat_map in H. destruct H as (idx & _ & H). apply in_flat_map in H. destruct H as (nm & Hnm & H).
    rewrite Forall_forall in IH. destruct (IH _ Hnm _ _ _ H) as [s ->]. exists (idx ++ [PN (fst nm)] ++ s).
    rewrite <- !app_assoc. reflexivity.
Qed.

Lemma pi_split idx : forall idx' n n' s s', idx ++ PN n :: s = idx' ++ PN n' :: s' ->
  forallb is_pi idx = true -> forallb is_pi idx' = true -> idx = idx' /\ n = n'.
Proof.
  induction idx as [|a idx IH]; intros [|b idx'] n n' s s' E H1 H2; simpl in *.
  - inversion E. auto.
  - inversion E; subst. discriminate.
  - inversion E; subst. discriminate.
  - inversion E; subst. apply andb_prop in H1, H2. destruct (IH _ _ _ _ _ H3 (proj2 H1) (proj2 H2)) as [-> ->]. auto.
Qed.

Lemma spec_leaves_nodup m : forall k p, names_ok m = true -> NoDup (map s_path (spec_leaves_m k m p)).
Proof.
  induction m as [f sh i d | f w ms d IH] using member_ind2; intros k p Hn; cbn [spec_leaves_m].
  - rewrite map_map. cbn [s_path]. apply NoDup_map_inj; [|apply idx_paths_nodup]. intros a b E. apply app_inv_head in E. exact E.
  - cbn [names_ok] in Hn. apply andb_prop in Hn. destruct Hn as [Hn1 Hn2]. rewrite forallb_forall in Hn2.
    rewrite Forall_forall in IH. apply nodupb_NoDup in Hn1.
    rewrite (map_flat_map s_path). apply NoDup_flat_map_intro.
    + apply idx_paths_nodup.
    + intros idx _. rewrite (map_flat_map s_path). apply NoDup_flat_map_intro.
      * apply (NoDup_map_inv fst). exact Hn1.
      * intros nm Hnm. apply IH; auto.
      * intros a b x Ha Hb Hxa Hxb. apply in_map_iff in Hxa, Hxb.
        destruct Hxa as (la & <- & Hla). destruct Hxb as (lb & E & Hlb).
        destruct (spec_leaves_prefix _ _ _ _ Hla) as [sa Ea]. destruct (spec_leaves_prefix _ _ _ _ Hlb) as [sb Eb].
        rewrite Ea, Eb in E. rewrite <- !app_assoc in E. apply app_inv_head in E. apply app_inv_head in E.
        inversion E. apply (NoDup_fst_inj ms); auto.
    + intros ia ib x Hia Hib Hxa Hxb. apply in_map_iff in Hxa, Hxb.
      destruct Hxa as (la & <- & Hla). destruct Hxb as (lb & E & Hlb).
      apply in_flat_map in Hla, Hlb. destruct Hla as (na & _ & Hla). destruct Hlb as (nb & _ & Hlb).
      destruct (spec_leaves_prefix _ _ _ _ Hla) as [sa Ea]. destruct (spec_leaves_prefix _ _ _ _ Hlb) as [sb Eb].
      rewrite Ea, Eb in E. rewrite <- !app_assoc in E. apply app_inv_head in E. simpl in E.
      symmetry. eapply pi_split; [exact E| |]; eapply idx_paths_pi; eauto.
Qed.

Theorem spec_leaves_once x : names_ok (top x) = true -> NoDup (map s_path (spec_leaves x)).
Proof.
  destruct x as [w ms]. unfold spec_leaves. cbn [top names_ok fst snd]. intros Hn.
  apply andb_prop in Hn. destruct Hn as [Hn1 Hn2]. rewrite forallb_forall in Hn2. apply nodupb_NoDup in Hn1.
  rewrite (map_flat_map s_path). apply NoDup_flat_map_intro.
  - apply (NoDup_map_inv fst). exact Hn1.
  - intros nm Hnm. apply spec_leaves_nodup. auto.
  - intros a b x Ha Hb Hxa Hxb. apply in_map_iff in Hxa, Hxb.
    destruct Hxa as (la & <- & Hla). destruct Hxb as (lb & E & Hlb).
    destruct (spec_leaves_prefix _ _ _ _ Hla) as [sa Ea]. destruct (spec_leaves_prefix _ _ _ _ Hlb) as [sb Eb].
    rewrite Ea, Eb in E. simpl in E. inversion E. apply (NoDup_fst_inj ms); auto.
Qed.

(* ================================================================== sorted lock step = same member sets *)
Lemma path_cmp_antisym a : forall b, path_cmp a b = CompOpp (path_cmp b a).
Proof.
  induction a as [|x a IH]; intros [|y b]; simpl; try reflexivity.
  rewrite (Z.compare_antisym y x). destruct (y ?= x); simpl; auto.
Qed.

Lemma path_leb_total a b : path_leb a b = false -> path_leb b a = true.
Proof. unfold path_leb. rewrite (path_cmp_antisym b a). destruct (path_cmp a b); simpl; auto; discriminate. Qed.

Lemma path_leb_antisym a b : path_leb a b = true -> path_leb b a = true -> a = b.
Proof.
  unfold path_leb. rewrite (path_cmp_antisym b a). destruct (path_cmp a b) eqn:E; simpl; try discriminate.
  intros _ _. apply path_cmp_eq. exact E.
Qed.

Lemma path_leb_trans a : forall b c, path_leb a b = true -> path_leb b c = true -> path_leb a c = true.
Proof.
  unfold path_leb. induction a as [|x a IH]; intros [|y b] [|z c]; simpl; auto; try discriminate.
  destruct (Z.compare_spec x y), (Z.compare_spec y z); try discriminate; subst; intros H1 H2.
  - rewrite Z.compare_refl. apply (IH b c); auto.
  - rewrite (proj2 (Z.compare_lt_iff _ _)) by lia. reflexivity.
  - rewrite (proj2 (Z.compare_lt_iff _ _)) by lia. reflexivity.
  - rewrite (proj2 (Z.compare_lt_iff _ _)) by lia. reflexivity.
Qed.

Fixpoint sortedk (l : list (list Z)) : Prop :=
  match l with [] => True | a :: r => (forall b, In b r -> path_leb a b = true) /\ sortedk r end.

Lemma insert_keys {A} (e : list Z * A) l x : In x (map fst (insert e l)) <-> x = fst e \/ In x (map fst l).
Proof.
  assert (P := insert_perm e l). split; intros H.
  - apply (Permutation_in _ (Permutation_map fst P)) in H. simpl in H. destruct H; auto.
  - apply (Permutation_in _ (Permutation_sym (Permutation_map fst P))). simpl. destruct H; auto.
Qed.

Lemma insert_sorted {A} (e : list Z * A) l : sortedk (map fst l) -> sortedk (map fst (insert e l)).
Proof.
  induction l as [|h t IH]; simpl; intros Hs; [split; [intros ? []|exact I]|].
  destruct Hs as [Hh Ht]. destruct (path_leb (fst e) (fst h)) eqn:E; simpl.
  - split; [|split; assumption]. intros b [<-|Hb]; [exact E|]. eapply path_leb_trans; [exact E|]. apply Hh. exact Hb.
  - split; [|apply IH; exact Ht]. intros b Hb. apply insert_keys in Hb. destruct Hb as [->|Hb].
    + apply path_leb_total. exact E.
    + apply Hh. exact Hb.
Qed.

Lemma sort_sorted {A} (l : list (list Z * A)) : sortedk (map fst (sort l)).
Proof. induction l; simpl; [exact I|]. apply insert_sorted. exact IHl. Qed.

Lemma sorted_unique l : forall l', sortedk l -> sortedk l' -> NoDup l -> NoDup l' ->
  (forall x, In x l <-> In x l') -> l = l'.
Proof.
  induction l as [|a r IH]; intros [|a' r'] S S' N N' H.
  - reflexivity.
  - exfalso. apply (proj2 (H a')). left; reflexivity.
  - exfalso. apply (proj1 (H a)). left; reflexivity.
  - destruct S as [Sa Sr], S' as [Sa' Sr']. inversion N; subst. inversion N'; subst.
    assert (E : a = a').
    { destruct (proj1 (H a) (or_introl eq_refl)) as [E|Hin]; [auto|].
      destruct (proj2 (H a') (or_introl eq_refl)) as [E|Hin']; [auto|].
      apply path_leb_antisym; [apply Sa; exact Hin'|apply Sa'; exact Hin]. }
    subst a'. f_equal. apply IH; auto. intros x. split; intros Hx.
    + destruct (proj1 (H x) (or_intror Hx)) as [E|]; [subst; contradiction|assumption].
    + destruct (proj2 (H x) (or_intror Hx)) as [E|]; [subst; contradiction|assumption].
Qed.

(* the sorted member paths of two signatures coincide iff they have the same member paths *)
Theorem sorted_paths_eq_iff x x' :
  names_ok (top x) = true -> names_ok (top x') = true ->
  (map fst (sort (flat_members x)) = map fst (sort (flat_members x')) <->
   forall p, In p (map fst (flat_members x)) <-> In p (map fst (flat_members x'))).
Proof.
  intros Hn Hn'.
  assert (K : forall y p, In p (map fst (sort (flat_members y))) <-> In p (map fst (flat_members y))).
  { intros y p. split; apply Permutation_in; apply Permutation_map; [|symmetry]; apply sort_perm. }
  split.
  - intros E p. rewrite <- !K, E. tauto.
  - intros H. apply sorted_unique; try apply sort_sorted; try (apply sorted_nodup; assumption).
    intros p. rewrite !K. apply H.
Qed.

(* ================================================================== the leaves of the specification are the port members x indices *)
Definition entry_leaves (e : entry) : list sleaf :=
  match snd e with
  | Port f sh i d => map (fun idx => SLeaf (PNs (fst e) ++ idx) f sh (norm sh i)) (idx_paths d)
  | Iface _ _ _ _ => []
  end.

Lemma leaves_entries m : forall k pre n, nodims_m m = true -> (m_is_port m || is_nil (m_dims m)) = true ->
  spec_leaves_m k m (PNs (pre ++ [n])) = flat_map entry_leaves (flat_m (Nat.odd k) pre n m).
Proof.
  induction m as [f sh i d | f w ms d IH] using member_ind2; intros k pre n Hnd Hd.
  - cbn [flat_m flat_map spec_leaves_m]. rewrite app_nil_r. unfold entry_leaves. cbn [fst snd].
    rewrite iter_flip_odd. destruct (Nat.odd k); reflexivity.
  - cbn [m_is_port m_dims orb] in Hd. destruct d; [|discriminate].
    cbn [flat_m flat_map spec_leaves_m idx_paths]. rewrite app_nil_r.
    replace (entry_leaves (pre ++ [n], flipm (Nat.odd k) (Iface f w ms []))) with (@nil sleaf) by (destruct (Nat.odd k); reflexivity).
    cbn [app]. rewrite flat_map_flat_map. cbn [nodims_m] in Hnd. rewrite forallb_forall in Hnd. rewrite Forall_forall in IH.
    rewrite sub_flag_odd.
    apply flat_map_ext_Forall with (P := fun nm => In nm ms); [apply Forall_forall; auto|].
    intros nm Hnm. specialize (Hnd _ Hnm). apply andb_prop in Hnd. destruct Hnd as [H1 H2].
    rewrite <- (IH _ Hnm _ (pre ++ [n]) (fst nm) H2 H1). f_equal. unfold PNs. rewrite !map_app. reflexivity.
Qed.

Theorem spec_leaves_are_port_entries x :
  nodims_sig x = true -> spec_leaves x = flat_map entry_leaves (flat_members x).
Proof.
  destruct x as [w ms]. unfold nodims_sig, spec_leaves, flat_members, flat_ms. cbn [top nodims_m fst snd]. intros Hnd.
  rewrite forallb_forall in Hnd. rewrite flat_map_flat_map.
  apply flat_map_ext_Forall with (P := fun nm => In nm ms); [apply Forall_forall; auto|].
  intros nm Hnm. specialize (Hnd _ Hnm). apply andb_prop in Hnd. destruct Hnd as [H1 H2].
  replace w with (Nat.odd (b2n w)) at 2 by (destruct w; reflexivity).
  rewrite <- (leaves_entries (snd nm) (b2n w) [] (fst nm) H2 H1). reflexivity.
Qed.

(* ================================================================== Signature.flatten on a created interface *)
Definition strip (l : leaf) : sleaf := SLeaf (l_path l) (l_flow l) (l_shape l) (l_init l).

Definition elem_leaves (k : nat) (m : member) (q : path) : list sleaf :=
  match m with
  | Port f sh i _ => [SLeaf q (iter_flip k f) sh (norm sh i)]
  | Iface f w ms _ => flat_map (fun nm => spec_leaves_m (k + b2n w + b2n (is_in f)) (snd nm) (q ++ [PN (fst nm)])) ms
  end.

Lemma spec_leaves_elem k m q :
  spec_leaves_m k m q = flat_map (fun idx => elem_leaves k m (q ++ idx)) (idx_paths (m_dims m)).
Proof.
  destruct m as [f sh i d | f w ms d]; cbn [spec_leaves_m m_dims elem_leaves].
  - induction (idx_paths d); simpl; [reflexivity|]. f_equal; assumption.
  - apply flat_map_ext. intros idx. apply flat_map_ext. intros nm. rewrite <- app_assoc. reflexivity.
Qed.

Lemma nth_error_seq len : forall a i, (i < len)%nat -> nth_error (seq a len) i = Some (a + i)%nat.
Proof.
  induction len as [|len IH]; intros a i Hi; [lia|]. destruct i as [|i]; simpl.
  - f_equal. lia.
  - rewrite IH by lia. f_equal. lia.
Qed.

Lemma iter_dims_create {A} (F : path -> obj -> res (list A)) f dims : forall p q,
  (forall idx, In idx (idx_paths dims) -> is_ok (F (q ++ idx) (f (p ++ idx))) = true) ->
  iter_dims F dims q (create_dims f dims p) =
    Ok (flat_map (fun idx => unres (F (q ++ idx) (f (p ++ idx)))) (idx_paths dims)).
Proof.
  induction dims as [|d rest IH]; intros p q H.
  - simpl. specialize (H [] (or_introl eq_refl)). rewrite !app_nil_r in *.
    destruct (F q (f p)); [reflexivity|discriminate].
  - cbn [iter_dims create_dims idx_paths].
    set (E := fun i => match nth_error (map (fun i0 => create_dims f rest (p ++ [PI i0])) (seq 0 d)) i with
                       | Some c => iter_dims F rest (q ++ [PI i]) c | None => Err EIndex end).
    assert (HE : forall i, In i (seq 0 d) ->
               E i = Ok (flat_map (fun idx => unres (F (q ++ PI i :: idx) (f (p ++ PI i :: idx)))) (idx_paths rest))).
    { intros i Hi. apply in_seq in Hi. unfold E.
      rewrite (map_nth_error (fun i0 => create_dims f rest (p ++ [PI i0])) i (seq 0 d) (nth_error_seq d 0 i ltac:(lia))).
      simpl. rewrite IH.
      - f_equal. apply flat_map_ext. intros idx. rewrite <- !app_assoc. reflexivity.
      - intros idx Hidx. rewrite <- !app_assoc. apply H. apply in_flat_map. exists i. split; [apply in_seq; lia|].
        apply in_map. exact Hidx. }
    assert (G : concat_res (map E (seq 0 d)) =
                Ok (flat_map (fun i => unres (E i)) (seq 0 d))).
    { apply concat_res_map_iff. split; [|reflexivity]. intros i Hi. rewrite (HE i Hi). reflexivity. }
    fold E. rewrite G. f_equal. rewrite flat_map_flat_map.
    apply flat_map_ext_Forall with (P := fun i => In i (seq 0 d)); [apply Forall_forall; auto|].
    intros i Hi. rewrite (HE i Hi). simpl. rewrite flat_map_map. reflexivity.
Qed.

Lemma flat_create m : forall k p q, names_ok m = true -> safe_mb (Nat.odd k) m = true ->
  let r := flat_obj_m (Nat.odd k) m q (tog (Nat.odd k && m_is_iface m) (create_m false m p)) in
  is_ok r = true /\ map strip (unres r) = elem_leaves k m q.
Proof.
  induction m as [f sh i d | f w ms d IH] using member_ind2; intros k p q Hwf Hsafe; cbv zeta.
  - simpl. rewrite iter_flip_odd. split; reflexivity.
  - set (fl := Nat.odd k) in *.
    cbn [m_is_iface m_is_port negb]. rewrite andb_true_r.
    cbn [create_m]. set (attrs := map _ ms).
    assert (Ht : tog fl (OIf (sub_flag false f w) (false, ms) attrs) = OIf (sub_flag fl f w) (false, ms) attrs).
    { unfold tog. destruct fl; [|reflexivity]. f_equal. destruct f, w; reflexivity. }
    rewrite Ht. clear Ht.
    assert (Hg : sub_flag fl f w = Nat.odd (k + b2n w + b2n (is_in f))) by (unfold fl; apply sub_flag_odd).
    set (k' := (k + b2n w + b2n (is_in f))%nat) in *. set (g := sub_flag fl f w) in *.
    cbn [flat_obj_m elem_leaves]. fold g. fold k'.
    cbn [names_ok] in Hwf. apply andb_prop in Hwf. destruct Hwf as [Hnd Hwf].
    cbn [safe_mb] in Hsafe. fold g in Hsafe.
    rewrite forallb_forall in Hwf, Hsafe. rewrite Forall_forall in IH. clearbody g. subst g.
    set (E := fun nm : Z * member => match obj_get (OIf (Nat.odd k') (false, ms) attrs) (fst nm) with
              | GVal c => iter_dims (flat_obj_m (Nat.odd k') (snd nm)) (m_dims (snd nm)) (q ++ [PN (fst nm)]) c
              | GMissing => Err EAttr | GTypeErr => Err ETypeErr end).
    assert (HE : forall nm, In nm ms ->
              is_ok (E nm) = true /\ map strip (unres (E nm)) = spec_leaves_m k' (snd nm) (q ++ [PN (fst nm)])).
    { intros [n mm] Hin. unfold E. cbn [fst snd].
      specialize (Hsafe _ Hin). cbn [snd] in Hsafe. apply andb_prop in Hsafe. destruct Hsafe as [Hs1 Hs2].
      specialize (Hwf _ Hin). cbn [snd] in Hwf. specialize (IH _ Hin). cbn [snd] in IH.
      unfold obj_get.
      assert (Ha : assoc n attrs = Some (create_dims (create_m false mm) (m_dims mm) (p ++ [PN n]))).
      { apply nodupb_assoc.
        - unfold attrs. rewrite map_map. cbn [fst]. exact Hnd.
        - unfold attrs. apply in_map_iff. exists (n, mm). split; auto. }
      rewrite Ha.
      assert (Hi : is_iface_name n (false, ms) = m_is_iface mm).
      { unfold is_iface_name. cbn [snd]. rewrite (nodupb_assoc ms n mm Hnd Hin). reflexivity. }
      rewrite Hi. rewrite spec_leaves_elem.
      destruct (Nat.odd k' && m_is_iface mm) eqn:Egi.
      - try rewrite Egi in Hs1. cbn [andb negb] in Hs1. apply negb_true_iff in Hs1.
        destruct (m_dims mm) eqn:Ed; [|discriminate]. cbn [create_dims idx_paths flat_map iter_dims].
        rewrite !app_nil_r.
        destruct mm as [|f' w' ms' d']; [cbn [m_is_iface m_is_port negb] in Egi; rewrite andb_false_r in Egi; discriminate|].
        specialize (IH k' (p ++ [PN n]) (q ++ [PN n]) Hwf Hs2). cbv zeta in IH. rewrite Egi in IH.
        cbn [create_m flipped] in *. unfold tog in IH. exact IH.
      - assert (Hall : forall idx, In idx (idx_paths (m_dims mm)) ->
            is_ok (flat_obj_m (Nat.odd k') mm ((q ++ [PN n]) ++ idx) (create_m false mm ((p ++ [PN n]) ++ idx))) = true /\
            map strip (unres (flat_obj_m (Nat.odd k') mm ((q ++ [PN n]) ++ idx) (create_m false mm ((p ++ [PN n]) ++ idx))))
              = elem_leaves k' mm ((q ++ [PN n]) ++ idx)).
        { intros idx _. specialize (IH k' ((p ++ [PN n]) ++ idx) ((q ++ [PN n]) ++ idx) Hwf Hs2). cbv zeta in IH.
          rewrite Egi in IH. exact IH. }
        rewrite iter_dims_create by (intros idx Hidx; apply Hall; exact Hidx).
        split; [reflexivity|]. cbn [unres]. rewrite (map_flat_map strip).
        apply flat_map_ext_Forall with (P := fun idx => In idx (idx_paths (m_dims mm))); [apply Forall_forall; auto|].
        intros idx Hidx. apply Hall. exact Hidx. }
    fold E.
    assert (G : concat_res (map E ms) = Ok (flat_map (fun nm => unres (E nm)) ms)).
    { apply concat_res_map_iff. split; [|reflexivity]. intros nm Hnm. apply HE. exact Hnm. }
    rewrite G. split; [reflexivity|]. cbn [unres]. rewrite (map_flat_map strip).
    apply flat_map_ext_Forall with (P := fun nm => In nm ms); [apply Forall_forall; auto|].
    intros nm Hnm. apply HE. exact Hnm.
Qed.

(* Signature.flatten(obj) on an interface created from the signature yields exactly the specification leaves
   (paths with indices, effective directions, shapes, inits), in order *)
Theorem flatten_created x p :
  names_ok (top x) = true -> safe_sig x = true ->
  exists ls, flat_obj x (create x p) = Ok ls /\ map strip ls = spec_leaves x.
Proof.
  intros Hw Hs. unfold flat_obj, create.
  pose proof (flat_create (top x) 0 p [] Hw Hs) as H. cbv zeta in H. change (Nat.odd 0) with false in H. cbn [andb tog] in H.
  destruct (flat_obj_m false (top x) [] (create_m false (top x) p)) as [ls|] eqn:E; [|destruct H; discriminate].
  exists ls. split; [reflexivity|]. destruct H as [_ H]. cbn [unres] in H. rewrite H.
  unfold spec_leaves, top, elem_leaves. cbn [is_in b2n]. rewrite Nat.add_0_r. reflexivity.
Qed.

(* ================================================================== every error kind is raised only for its defect *)
Lemma heads_nth_conv p rest : forall hs tails, heads p rest = Some (hs, tails) ->
  (forall h t, nth_error tails h = Some t -> exists m, nth_error rest h = Some ((p, m) :: t) /\ nth_error hs h = Some m) /\
  (forall h m, nth_error hs h = Some m -> exists t, nth_error rest h = Some ((p, m) :: t)).
Proof.
  induction rest as [|l0 rest IH]; intros hs tails H; simpl in H.
  - inversion H; subst. split; intros [|h] ? E; discriminate.
  - destruct l0 as [|[q m] t]; [discriminate|]. destruct (path_eqb p q) eqn:E; [|discriminate].
    apply path_eqb_eq in E. subst q. destruct (heads p rest) as [[hs' ts']|]; [|discriminate].
    inversion H; subst. destruct (IH hs' ts' eq_refl) as [I1 I2]. split.
    + intros [|h] t' Ht; simpl in *; [inversion Ht; subst; eauto|apply I1; exact Ht].
    + intros [|h] m' Hm; simpl in *; [inversion Hm; subst; eauto|apply I2; exact Hm].
Qed.

(* ms is what the lock step sees at path p: the h-th member comes from the h-th list *)
Definition rowlike (p : list Z) (ms : list member) (lists : list (list entry)) : Prop :=
  forall h m, nth_error ms h = Some m -> exists l, nth_error lists h = Some l /\ In (p, m) l.

Lemma conn_loop_err objs f0 : forall rest st e, conn_loop objs f0 rest st = Err e ->
  (e = EMissing /\ transpose f0 rest = None) \/
  (exists p ms st0, step objs p ms st0 = Err e /\ rowlike p ms (f0 :: rest)).
Proof.
  induction f0 as [|[p m] t0 IH]; intros rest st e H; simpl in H.
  - destruct (forallb is_nil rest) eqn:E; [discriminate|]. inversion H; subst. left. simpl. rewrite E. auto.
  - destruct (heads p rest) as [[hs tails]|] eqn:Eh.
    + destruct (heads_nth_conv _ _ _ _ Eh) as [C1 C2].
      destruct (step objs p (m :: hs) st) as [st1|e1] eqn:Es.
      * destruct (IH _ _ _ H) as [[-> Ht]|(p' & ms' & st0 & Hs & Hr)].
        -- left. split; [reflexivity|]. simpl. rewrite Eh, Ht. reflexivity.
        -- right. exists p', ms', st0. split; [exact Hs|]. intros h m' Hm. destruct (Hr h m' Hm) as (l & Hl & Hin).
           destruct h as [|h]; simpl in *.
           ++ inversion Hl; subst. eexists; split; [reflexivity|right; exact Hin].
           ++ destruct (C1 _ _ Hl) as (m2 & Hrest & _). eexists; split; [exact Hrest|right; exact Hin].
      * inversion H; subst. right. exists p, (m :: hs), st. split; [exact Es|]. intros [|h] m' Hm; simpl in *.
        -- inversion Hm; subst. eexists; split; [reflexivity|left; reflexivity].
        -- destruct (C2 _ _ Hm) as (t & Hrest). eexists; split; [exact Hrest|left; reflexivity].
    + inversion H; subst. left. simpl. rewrite Eh. auto.
Qed.

Lemma check_wi_some w0 i0 l e : check_wi w0 i0 l = Some e ->
  (e = EWidth /\ exists t, In t l /\ width (m_shape (snd t)) <> w0) \/
  (e = EInit /\ exists t, In t l /\ m_cinit (snd t) <> i0).
Proof.
  induction l as [|[h m] l IH]; simpl; [discriminate|].
  destruct (w0 =? width (m_shape m)) eqn:Ew; simpl.
  - destruct (i0 =? m_cinit m) eqn:Ei; simpl.
    + intros H. destruct (IH H) as [[-> (t & Ht & Hw)]|[-> (t & Ht & Hw)]]; [left|right]; split; eauto.
    + intros H; inversion H; subst. right. split; [reflexivity|]. exists (h, m). split; [auto|]. simpl.
      apply Z.eqb_neq in Ei. congruence.
  - intros H; inversion H; subst. left. split; [reflexivity|]. exists (h, m). split; [auto|]. simpl.
    apply Z.eqb_neq in Ew. congruence.
Qed.

Lemma concat_res_err {A} (l : list (res (list A))) e : concat_res l = Err e -> In (Err e) l.
Proof.
  induction l as [|x l IH]; simpl; [discriminate|]. destruct x as [a|e']; [|intros H; inversion H; auto].
  destruct (concat_res l); [discriminate|]. intros H; inversion H; subst. right. apply IH. reflexivity.
Qed.

(* what went wrong in one lock step *)
Inductive step_defect (objs : list obj) (p : list Z) (ms : list member) : cerr -> Prop :=
| sd_kind h h' m m' : nth_error ms h = Some m -> nth_error ms h' = Some m' -> m_is_port m = false -> m_is_port m' = true ->
    step_defect objs p ms ESigPort
| sd_width h h' m m' : nth_error ms h = Some m -> nth_error ms h' = Some m' -> m_is_port m = true -> m_is_port m' = true ->
    width (m_shape m) <> width (m_shape m') -> step_defect objs p ms EWidth
| sd_init h h' m m' : nth_error ms h = Some m -> nth_error ms h' = Some m' -> m_is_port m = true -> m_is_port m' = true ->
    m_cinit m <> m_cinit m' -> step_defect objs p ms EInit
| sd_several h h' m m' : nth_error ms h = Some m -> nth_error ms h' = Some m' -> h <> h' ->
    is_out_port (h, m) = true -> is_out_port (h', m') = true -> step_defect objs p ms ESeveral
| sd_dims h h' m m' : nth_error ms h = Some m -> nth_error ms h' = Some m' ->
    is_in_port (h, m) = true -> is_out_port (h', m') = true -> m_dims m' <> m_dims m -> step_defect objs p ms EAssertDims
| sd_leaf h h' m m' idx e : nth_error ms h = Some m -> nth_error ms h' = Some m' ->
    is_in_port (h, m) = true -> is_out_port (h', m') = true -> m_dims m' = m_dims m -> In idx (idx_paths (m_dims m')) ->
    connect_value objs (h, PNs p ++ idx) (h', PNs p ++ idx) = Err e -> step_defect objs p ms e.

Lemma step_err objs p ms st e : step objs p ms st = Err e -> step_defect objs p ms e.
Proof.
  unfold step. set (t := tag_from 0 ms). set (outs := filter is_out_port t). set (ins := filter is_in_port t).
  set (sigs := filter is_sig_kind t).
  assert (Hin : forall x, In x ins -> nth_error ms (fst x) = Some (snd x) /\ is_in_port x = true).
  { intros [h m] Hx. unfold ins in Hx. apply filter_In in Hx. destruct Hx as [H1 H2]. apply in_tags in H1. auto. }
  assert (Hout : forall x, In x outs -> nth_error ms (fst x) = Some (snd x) /\ is_out_port x = true).
  { intros [h m] Hx. unfold outs in Hx. apply filter_In in Hx. destruct Hx as [H1 H2]. apply in_tags in H1. auto. }
  assert (Hio : forall x, In x (ins ++ outs) -> nth_error ms (fst x) = Some (snd x) /\ m_is_port (snd x) = true).
  { intros x Hx. apply in_app_or in Hx. destruct Hx as [Hx|Hx].
    - destruct (Hin x Hx) as [H1 H2]. apply in_port_iff in H2. tauto.
    - destruct (Hout x Hx) as [H1 H2]. apply out_port_iff in H2. tauto. }
  destruct (nonempty sigs && (nonempty outs || nonempty ins)) eqn:E1.
  - intros H; inversion H; subst. apply andb_prop in E1. destruct E1 as [Es Ep].
    assert (exists s, In s t /\ is_sig_kind s = true) as ([hs ms_] & Hs1 & Hs2).
    { apply (nonempty_filter is_sig_kind t). exact Es. }
    assert (exists x, In x (ins ++ outs)) as (x & Hx).
    { destruct outs as [|o ?]; [destruct ins as [|i ?]; [discriminate|exists i; left; reflexivity]|].
      exists o. apply in_or_app. right. left. reflexivity. }
    destruct (Hio x Hx) as [Hx1 Hx2]. apply in_tags in Hs1.
    eapply (sd_kind objs p ms hs (fst x)); eauto. unfold is_sig_kind, m_is_iface in Hs2. simpl in Hs2.
    destruct (m_is_port ms_); [discriminate|reflexivity].
  - destruct (nonempty sigs); [discriminate|]. destruct st as [[cs ai] ao].
    destruct (ins ++ outs) as [|[h0 m0] r] eqn:El; [discriminate|].
    assert (H0 : nth_error ms h0 = Some m0 /\ m_is_port m0 = true) by (apply (Hio (h0, m0)); left; reflexivity).
    destruct (check_wi (width (m_shape m0)) (m_cinit m0) r) as [e'|] eqn:Ec.
    + intros H; inversion H; subst.
      destruct (check_wi_some _ _ _ _ Ec) as [[-> (x & Hx & Hw)]|[-> (x & Hx & Hw)]];
        destruct (Hio x (or_intror Hx)) as [Hx1 Hx2].
      * destruct H0 as [H01 H02]. apply (sd_width objs p ms (fst x) h0 (snd x) m0); auto.
      * destruct H0 as [H01 H02]. apply (sd_init objs p ms (fst x) h0 (snd x) m0); auto.
    + destruct outs as [|o [|o2 r2]] eqn:Eo; [discriminate| |].
      * destruct (concat_res (map (connect_in objs p o) ins)) as [new|e'] eqn:En; [discriminate|].
        intros H; inversion H; subst. apply concat_res_err in En. apply in_map_iff in En.
        destruct En as (i & Hi & Hiin). destruct (Hin i Hiin) as [Hi1 Hi2].
        destruct (Hout o (or_introl eq_refl)) as [Ho1 Ho2]. destruct i as [hi mi], o as [ho mo]. cbn [fst snd] in *.
        unfold connect_in in Hi. cbn [fst snd] in Hi. destruct (dims_eqb (m_dims mo) (m_dims mi)) eqn:Ed.
        -- apply concat_res_err in Hi. apply in_map_iff in Hi. destruct Hi as (idx & Hv & Hidx).
           eapply (sd_leaf objs p ms hi ho mi mo idx); eauto. apply dims_eqb_eq. exact Ed.
        -- inversion Hi; subst. eapply (sd_dims objs p ms hi ho mi mo); eauto.
           intros Eq. rewrite Eq, dims_eqb_refl in Ed. discriminate.
      * intros H; inversion H; subst.
        destruct (Hout o (or_introl eq_refl)) as [Ho1 Ho2]. destruct (Hout o2 (or_intror (or_introl eq_refl))) as [Hp1 Hp2].
        destruct o as [ho mo], o2 as [ho2 mo2]. cbn [fst snd] in *.
        eapply (sd_several objs p ms ho ho2 mo mo2); eauto.
        intros ->. assert (Hnd : NoDup (filter is_out_port t)) by (apply NoDup_filter, tag_from_NoDup).
        fold outs in Hnd. rewrite Eo in Hnd. inversion Hnd as [|? ? Hni Hnd']; subst. apply Hni. left.
        rewrite Ho1 in Hp1. inversion Hp1. reflexivity.
Qed.

Inductive connect_defect (objs : list obj) (sigs : list sigt) : cerr -> Prop :=
| cd_missing h h' x x' : nth_error sigs h = Some x -> nth_error sigs h' = Some x' ->
    map fst (sort (flat_members x)) <> map fst (sort (flat_members x')) -> connect_defect objs sigs EMissing
| cd_kind h h' p m m' : member_at sigs h p m -> member_at sigs h' p m' -> m_is_port m = false -> m_is_port m' = true ->
    connect_defect objs sigs ESigPort
| cd_width h h' p m m' : member_at sigs h p m -> member_at sigs h' p m' -> m_is_port m = true -> m_is_port m' = true ->
    width (m_shape m) <> width (m_shape m') -> connect_defect objs sigs EWidth
| cd_init h h' p m m' : member_at sigs h p m -> member_at sigs h' p m' -> m_is_port m = true -> m_is_port m' = true ->
    m_cinit m <> m_cinit m' -> connect_defect objs sigs EInit
| cd_several h h' p m m' : member_at sigs h p m -> member_at sigs h' p m' -> h <> h' ->
    m_is_port m = true -> is_in (m_flow m) = false -> m_is_port m' = true -> is_in (m_flow m') = false ->
    connect_defect objs sigs ESeveral
| cd_dims h h' p m m' : member_at sigs h p m -> member_at sigs h' p m' ->
    m_is_port m = true -> is_in (m_flow m) = true -> m_is_port m' = true -> is_in (m_flow m') = false ->
    m_dims m' <> m_dims m -> connect_defect objs sigs EAssertDims
| cd_leaf h h' p m m' idx e : member_at sigs h p m -> member_at sigs h' p m' ->
    m_is_port m = true -> is_in (m_flow m) = true -> m_is_port m' = true -> is_in (m_flow m') = false ->
    m_dims m' = m_dims m -> In idx (idx_paths (m_dims m')) ->
    connect_value objs (h, PNs p ++ idx) (h', PNs p ++ idx) = Err e -> connect_defect objs sigs e
| cd_only_in : has_in sigs -> ~ has_out sigs -> connect_defect objs sigs EOnlyIn.

Lemma transpose_none f0 rest : transpose f0 rest = None -> exists l, In l rest /\ map fst l <> map fst f0.
Proof.
  intros H.
  destruct (Forall_Exists_dec (fun l : list entry => map fst l = map fst f0)
              (fun l => list_eq_dec (list_eq_dec Z.eq_dec) (map fst l) (map fst f0)) rest) as [F|E].
  - destruct (transpose_some _ _ F) as [rows Hr]. congruence.
  - apply Exists_exists in E. exact E.
Qed.

Lemma rowlike_member sigs p ms h m :
  rowlike p ms (sorted_lists sigs) -> nth_error ms h = Some m -> member_at sigs h p m.
Proof.
  intros Hr Hm. destruct (Hr h m Hm) as (l & Hl & Hin). unfold sorted_lists in Hl.
  apply nth_error_map_inv in Hl. destruct Hl as (x & Hx & ->). exists x. split; [exact Hx|]. apply (proj1 (in_sort _ _)) in Hin. exact Hin.
Qed.

Theorem connect_sigs_err objs sigs e : connect_sigs objs sigs = Err e -> connect_defect objs sigs e.
Proof.
  unfold connect_sigs. fold (sorted_lists sigs).
  destruct (sorted_lists sigs) as [|f0 [|f1 rest]] eqn:Es; try discriminate.
  destruct (conn_loop objs f0 (f1 :: rest) ([], false, false)) as [[[cs ai] ao]|e'] eqn:E.
  - destruct (is_nil cs && ai && negb ao) eqn:Eb; [|discriminate]. intros H; inversion H; subst.
    apply conn_loop_iff in E. destruct E as (rows & Ht & Hf). apply fold_steps_iff in Hf. destruct Hf as [_ Hst].
    inversion Hst; subst. apply andb_prop in Eb. destruct Eb as [Eb Eo]. apply andb_prop in Eb. destruct Eb as [_ Ei].
    simpl in Ei, Eo. apply negb_true_iff in Eo.
    assert (Hrows : rows_of sigs = Some rows) by (unfold rows_of; rewrite Es; exact Ht).
    apply cd_only_in.
    + apply (rows_has_in _ _ Hrows). exact Ei.
    + intros Ho. apply (rows_has_out _ _ Hrows) in Ho. congruence.
  - intros H; inversion H; subst. destruct (conn_loop_err _ _ _ _ _ E) as [[-> Ht]|(p & ms & st0 & Hs & Hr)].
    + destruct (transpose_none _ _ Ht) as (l & Hl & Hne). apply In_nth_error in Hl. destruct Hl as [h Hh].
      assert (E0 : nth_error (sorted_lists sigs) 0 = Some f0) by (rewrite Es; reflexivity).
      assert (Eh : nth_error (sorted_lists sigs) (S h) = Some l) by (rewrite Es; exact Hh).
      unfold sorted_lists in E0, Eh. apply nth_error_map_inv in E0, Eh.
      destruct E0 as (x0 & Hx0 & ->). destruct Eh as (x & Hx & ->). exact (cd_missing objs sigs (S h) 0%nat x x0 Hx Hx0 Hne).
    + rewrite <- Es in Hr. pose proof (rowlike_member sigs p ms) as M. apply step_err in Hs.
      destruct Hs as [h h' m m' H1 H2 K1 K2|h h' m m' H1 H2 K1 K2 K3|h h' m m' H1 H2 K1 K2 K3|h h' m m' H1 H2 K0 K1 K2
                     |h h' m m' H1 H2 K1 K2 K3|h h' m m' idx e0 H1 H2 K1 K2 Kd K3 K4].
      * exact (cd_kind objs sigs h h' p m m' (M h m Hr H1) (M h' m' Hr H2) K1 K2).
      * exact (cd_width objs sigs h h' p m m' (M h m Hr H1) (M h' m' Hr H2) K1 K2 K3).
      * exact (cd_init objs sigs h h' p m m' (M h m Hr H1) (M h' m' Hr H2) K1 K2 K3).
      * apply out_port_iff in K1, K2. cbn [snd] in K1, K2. destruct K1, K2.
        apply (cd_several objs sigs h h' p m m' (M h m Hr H1) (M h' m' Hr H2)); auto.
      * apply in_port_iff in K1. apply out_port_iff in K2. cbn [snd] in K1, K2. destruct K1, K2.
        apply (cd_dims objs sigs h h' p m m' (M h m Hr H1) (M h' m' Hr H2)); auto.
      * apply in_port_iff in K1. apply out_port_iff in K2. cbn [snd] in K1, K2. destruct K1, K2.
        apply (cd_leaf objs sigs h h' p m m' idx _ (M h m Hr H1) (M h' m' Hr H2)); auto.
Qed.

(* on compliant arguments without arrays of interfaces the only per-leaf failures are the two constant diagnostics *)
Lemma connect_value_err_leaf objs ip op li lo e :
  traverse objs ip = Ok li -> is_leaf li = true -> traverse objs op = Ok lo -> is_leaf lo = true ->
  connect_value objs ip op = Err e ->
  exists sh v, li = OConst sh v /\
    ((e = EConstVar /\ forall sh' v', lo <> OConst sh' v') \/ (e = EConstDiff /\ exists sh' v', lo = OConst sh' v' /\ v <> v')).
Proof.
  intros Hi Li Ho Lo. unfold connect_value. rewrite Hi, Ho. destruct li; try discriminate.
  destruct lo; try discriminate.
  - intros H; inversion H; subst. exists sh, v. split; [reflexivity|]. left. split; [reflexivity|]. intros; discriminate.
  - destruct (v =? v0) eqn:E; [discriminate|]. intros H; inversion H; subst. exists sh, v. split; [reflexivity|].
    right. split; [reflexivity|]. exists sh0, v0. split; [reflexivity|]. apply Z.eqb_neq. exact E.
Qed.

(* which diagnostics are possible, and each only for its defect *)
Theorem connect_error_sound objs sigs e :
  check_args objs = Ok sigs -> (forall x, In x sigs -> nodims_sig x = true) ->
  connect objs = Err e ->
  connect_defect objs sigs e /\
  (e = EMissing \/ e = ESigPort \/ e = EWidth \/ e = EInit \/ e = ESeveral \/ e = EAssertDims \/
   e = EConstVar \/ e = EConstDiff \/ e = EOnlyIn).
Proof.
  intros Hca Hnd Hc. unfold connect in Hc. rewrite Hca in Hc. apply connect_sigs_err in Hc. split; [exact Hc|].
  apply check_args_iff in Hca.
  destruct Hc as [| | | | | |h h' p m m' idx e0 M1 M2 P1 I1 P2 O2 Hdm Hidx Hv|]; auto 10.
  destruct (args_traversable objs sigs h' p m' idx Hca Hnd M2 P2 Hidx) as (lo & Ho & Lo).
  assert (Hidx' : In idx (idx_paths (m_dims m))) by (rewrite <- Hdm; exact Hidx).
  destruct (args_traversable objs sigs h p m idx Hca Hnd M1 P1 Hidx') as (li & Hi & Li).
  destruct (connect_value_err_leaf _ _ _ _ _ _ Hi Li Ho Lo Hv) as (sh & v & _ & [[-> _]|[-> _]]); auto 10.
Qed.

(* WiringP.v — lemmas about Model/Wiring.v (signatures, flipping, create/is_compliant, connect, metadata). *)
From Coq Require Import ZArith List Bool Lia Arith.
From V.Model Require Import Bits Wiring.
Import ListNotations.
Open Scope Z_scope.

(* ------------------------------------------------------------------ induction principle (nested inductive) *)
Section member_ind2.
  Variable P : member -> Prop.
  Hypothesis HP : forall f sh i d, P (Port f sh i d).
  Hypothesis HI : forall f w ms d, Forall (fun nm => P (snd nm)) ms -> P (Iface f w ms d).
  Fixpoint member_ind2 (m : member) : P m :=
    match m with
    | Port f sh i d => HP f sh i d
    | Iface f w ms d =>
        HI f w ms d ((fix go (l : members) : Forall (fun nm => P (snd nm)) l :=
                        match l with
                        | [] => Forall_nil _
                        | nm :: r => Forall_cons nm (member_ind2 (snd nm)) (go r)
                        end) ms)
    end.
End member_ind2.

(* ------------------------------------------------------------------ small facts *)
Lemma flip_flow_inv f : flip_flow (flip_flow f) = f.
Proof. destruct f; reflexivity. Qed.

Lemma flip_member_inv m : flip_member (flip_member m) = m.
Proof. destruct m; simpl; rewrite flip_flow_inv; reflexivity. Qed.

Lemma sig_flip_inv x : sig_flip (sig_flip x) = x.
Proof. destruct x; unfold sig_flip; simpl. rewrite negb_involutive. reflexivity. Qed.

Lemma sig_members_flip x :
  sig_members (sig_flip x) = map (fun nm => (fst nm, flip_member (snd nm))) (sig_members x).
Proof.
  destruct x as [w ms]. unfold sig_members, sig_flip; simpl. rewrite map_map. apply map_ext.
  intros [n m]; simpl. destruct w; simpl; [rewrite flip_member_inv|]; reflexivity.
Qed.

Lemma flipm_negb fl m : flipm (negb fl) m = flip_member (flipm fl m).
Proof. destruct fl; simpl; [rewrite flip_member_inv|]; reflexivity. Qed.

Lemma is_in_flip f : is_in (flip_flow f) = negb (is_in f).
Proof. destruct f; reflexivity. Qed.

Lemma sub_flag_negb fl f w : sub_flag (negb fl) f w = negb (sub_flag fl f w).
Proof. unfold sub_flag. destruct fl, f, w; reflexivity. Qed.

Lemma map_flat_map {A B C} (g : B -> C) (h : A -> list B) l :
  map g (flat_map h l) = flat_map (fun x => map g (h x)) l.
Proof. induction l; simpl; [reflexivity|]. rewrite map_app, IHl. reflexivity. Qed.

Lemma flat_map_ext_Forall {A B} (P : A -> Prop) (f g : A -> list B) l :
  Forall P l -> (forall a, P a -> f a = g a) -> flat_map f l = flat_map g l.
Proof. induction 1; intros H1; simpl; [reflexivity|]. rewrite (H1 _ H), IHForall; auto. Qed.

(* ------------------------------------------------------------------ flipping reverses every entry *)
Definition flip_entry (e : entry) : entry := (fst e, flip_member (snd e)).

Lemma flat_m_flip m : forall fl pre n,
  flat_m (negb fl) pre n m = map flip_entry (flat_m fl pre n m).
Proof.
  induction m as [f sh i d | f w ms d IH] using member_ind2; intros fl pre n.
  - simpl. unfold flip_entry; simpl. rewrite flipm_negb. reflexivity.
  - cbn [flat_m map]. unfold flip_entry at 1; cbn [fst snd]. rewrite flipm_negb. f_equal.
    rewrite map_flat_map. rewrite sub_flag_negb.
    eapply flat_map_ext_Forall; [exact IH|]. intros a Ha. apply Ha.
Qed.

Lemma flat_members_flip x : flat_members (sig_flip x) = map flip_entry (flat_members x).
Proof.
  destruct x as [w ms]. unfold flat_members, flat_ms, sig_flip; simpl.
  rewrite map_flat_map. apply flat_map_ext. intros a. apply flat_m_flip.
Qed.

Lemma flat_members_flip_flip x : flat_members (sig_flip (sig_flip x)) = flat_members x.
Proof. rewrite sig_flip_inv. reflexivity. Qed.

(* ------------------------------------------------------------------ effective direction = parity of reversals *)
Lemma iter_flip_odd k f : iter_flip k f = flipif (Nat.odd k) f.
Proof.
  induction k; [reflexivity|]. cbn [iter_flip]. rewrite IHk, Nat.odd_succ, <- Nat.negb_odd.
  destruct (Nat.odd k), f; reflexivity.
Qed.

Lemma m_flow_flipm fl m : m_flow (flipm fl m) = flipif fl (m_flow m).
Proof. destruct fl, m; reflexivity. Qed.

Lemma sub_flag_odd k f w : sub_flag (Nat.odd k) f w = Nat.odd (k + b2n w + b2n (is_in f)).
Proof.
  rewrite !Nat.odd_add. unfold sub_flag. destruct (Nat.odd k), w, f; reflexivity.
Qed.

Definition entry_flow (e : entry) : list Z * flow := (fst e, m_flow (snd e)).

Lemma flat_m_effective m : forall k pre n,
  map entry_flow (flat_m (Nat.odd k) pre n m) = spec_flat_m k pre n m.
Proof.
  induction m as [f sh i d | f w ms d IH] using member_ind2; intros k pre n.
  - simpl. unfold entry_flow; simpl. rewrite m_flow_flipm, iter_flip_odd. reflexivity.
  - cbn [flat_m spec_flat_m map]. unfold entry_flow at 1; cbn [fst snd].
    rewrite m_flow_flipm, iter_flip_odd. f_equal.
    rewrite map_flat_map, sub_flag_odd.
    eapply flat_map_ext_Forall; [exact IH|]. intros a Ha. apply Ha.
Qed.

Definition spec_flat (x : sigt) : list (list Z * flow) :=
  flat_map (fun nm => spec_flat_m (b2n (fst x)) [] (fst nm) (snd nm)) (snd x).

Lemma flat_members_effective x : map entry_flow (flat_members x) = spec_flat x.
Proof.
  destruct x as [w ms]. unfold flat_members, flat_ms, spec_flat; simpl.
  rewrite map_flat_map. apply flat_map_ext. intros a.
  replace w with (Nat.odd (b2n w)) at 1 by (destruct w; reflexivity). apply flat_m_effective.
Qed.

(* flipping once reverses the effective direction of every entry (ports and interface nodes), at any depth *)
Lemma flat_members_flip_flows x :
  map entry_flow (flat_members (sig_flip x)) =
  map (fun pf => (fst pf, flip_flow (snd pf))) (map entry_flow (flat_members x)).
Proof.
  rewrite flat_members_flip, !map_map. apply map_ext. intros [p m]. unfold entry_flow, flip_entry; simpl.
  destruct m; reflexivity.
Qed.

(* ------------------------------------------------------------------ create / is_compliant *)
Lemma path_cmp_refl p : path_cmp p p = Eq.
Proof. induction p; simpl; [reflexivity|]. rewrite Z.compare_refl. exact IHp. Qed.
Lemma path_eqb_refl p : path_eqb p p = true.
Proof. unfold path_eqb. rewrite path_cmp_refl. reflexivity. Qed.
Lemma dims_eqb_refl d : dims_eqb d d = true.
Proof. induction d; simpl; [reflexivity|]. rewrite Nat.eqb_refl. exact IHd. Qed.
Lemma shape_eqb_refl s : shape_eqb s s = true.
Proof. unfold shape_eqb. rewrite Z.eqb_refl, eqb_reflx. reflexivity. Qed.
Lemma flow_eqb_refl f : flow_eqb f f = true.
Proof. destruct f; reflexivity. Qed.
Lemma member_eqb_refl m : member_eqb m m = true.
Proof.
  destruct m; simpl; rewrite ?flow_eqb_refl, ?shape_eqb_refl, ?Z.eqb_refl, ?dims_eqb_refl; reflexivity.
Qed.
Lemma entries_eqb_refl l : entries_eqb l l = true.
Proof. induction l as [|[p m] l IH]; simpl; [reflexivity|]. rewrite path_eqb_refl, member_eqb_refl. exact IH. Qed.
Lemma sig_eqb_refl x : sig_eqb x x = true.
Proof. apply entries_eqb_refl. Qed.

Lemma nodupb_assoc {A} (l : list (Z * A)) n a :
  nodupb (map fst l) = true -> In (n, a) l -> assoc n l = Some a.
Proof.
  induction l as [|[k v] l IH]; simpl; intros Hn Hin; [contradiction|].
  apply andb_prop in Hn. destruct Hn as [Hk Hn].
  destruct Hin as [E|Hin].
  - inversion E; subst. rewrite Z.eqb_refl. reflexivity.
  - destruct (k =? n) eqn:Ek.
    + apply Z.eqb_eq in Ek; subst k. exfalso.
      apply negb_true_iff in Hk. assert (existsb (Z.eqb n) (map fst l) = true); [|congruence].
      apply existsb_exists. exists n. split; [|apply Z.eqb_refl].
      apply in_map_iff. exists (n, a). split; auto.
    + apply IH; auto.
Qed.

Lemma all_res_true {A} (sc : bool) (f : A -> res bool) l :
  (forall a, In a l -> f a = Ok true) -> all_res sc f l = Ok true.
Proof.
  induction l; simpl; intros H; [reflexivity|]. rewrite (H a) by auto. apply IHl. intros; apply H; auto.
Qed.

Lemma check_dims_create (sc : bool) chk f dims : forall p,
  (forall q, chk (f q) = Ok true) -> check_dims sc chk dims (create_dims f dims p) = Ok true.
Proof.
  induction dims as [|d rest IH]; intros p H; simpl; [apply H|].
  rewrite map_length, seq_length, Nat.eqb_refl.
  apply all_res_true. intros a Ha. apply in_map_iff in Ha. destruct Ha as (i & <- & _). apply IH. exact H.
Qed.

(* the view handed out by a FlippedInterface proxy for an interface-valued attribute *)
Definition tog (b : bool) (o : obj) : obj :=
  if b then match o with OIf fl x a => OIf (negb fl) x a | _ => o end else o.

Lemma sub_flag_tog (fl : bool) f w : (if fl then negb (sub_flag false f w) else sub_flag false f w) = sub_flag fl f w.
Proof. destruct fl, f, w; reflexivity. Qed.

Lemma compl_create m : forall fl p, wf_mb m = true -> safe_mb fl m = true ->
  compl_m true fl m (tog (fl && m_is_iface m) (create_m false m p)) = Ok true.
Proof.
  induction m as [f sh i d | f w ms d IH] using member_ind2; intros fl p Hwf Hsafe.
  - simpl in *. rewrite andb_false_r. simpl. rewrite shape_eqb_refl, Hwf. reflexivity.
  - cbn [m_is_iface m_is_port negb]. rewrite andb_true_r.
    cbn [create_m]. set (attrs := map _ ms).
    assert (Ht : tog fl (OIf (sub_flag false f w) (false, ms) attrs) = OIf (sub_flag fl f w) (false, ms) attrs).
    { unfold tog. destruct fl; [|reflexivity]. f_equal. destruct f, w; reflexivity. }
    rewrite Ht. clear Ht. set (g := sub_flag fl f w) in *.
    cbn [compl_m]. fold g. cbn [obj_sig].
    assert (Hs : (if g then sig_flip (false, ms) else (false, ms)) = (g, ms)) by (destruct g; reflexivity).
    rewrite Hs, sig_eqb_refl. cbn [negb fst].
    cbn [wf_mb] in Hwf. apply andb_prop in Hwf. destruct Hwf as [Hnd Hwf].
    cbn [safe_mb] in Hsafe. fold g in Hsafe.
    rewrite forallb_forall in Hwf, Hsafe. rewrite Forall_forall in IH. clear Hs. clearbody g.
    apply all_res_true. intros [n mm] Hin. cbn [fst snd].
    specialize (Hsafe _ Hin). cbn [snd] in Hsafe. apply andb_prop in Hsafe. destruct Hsafe as [Hs1 Hs2].
    specialize (Hwf _ Hin). cbn [snd] in Hwf.
    specialize (IH _ Hin). cbn [snd] in IH.
    unfold obj_get.
    assert (Ha : assoc n attrs = Some (create_dims (create_m false mm) (m_dims mm) (p ++ [PN n]))).
    { apply nodupb_assoc.
      - unfold attrs. rewrite map_map. cbn [fst]. exact Hnd.
      - unfold attrs. apply in_map_iff. exists (n, mm). split; auto. }
    rewrite Ha.
    assert (Hi : is_iface_name n (false, ms) = m_is_iface mm).
    { unfold is_iface_name. cbn [snd]. rewrite (nodupb_assoc ms n mm Hnd Hin). reflexivity. }
    rewrite Hi.
    destruct (g && m_is_iface mm) eqn:Egi.
    + (* proxy hands out a flipped interface: it must not be a list *)
      try rewrite Egi in Hs1. cbn [andb negb] in Hs1. apply negb_true_iff in Hs1.
      destruct (m_dims mm) eqn:Ed; [|discriminate]. cbn [create_dims].
      apply andb_prop in Egi. destruct Egi as [Eg Ei]. subst g.
      destruct mm as [|f' w' ms' d']; [discriminate|].
      specialize (IH true (p ++ [PN n]) Hwf Hs2).
      cbn [m_is_iface m_is_port negb andb] in IH.
      cbn [create_m flipped] in *. cbn [check_dims]. unfold tog in IH. exact IH.
    + apply check_dims_create. intros q.
      specialize (IH g q Hwf Hs2). rewrite Egi in IH. exact IH.
Qed.

Theorem create_compliant x p :
  wf_sig x = true -> safe_sig x = true -> is_compliant x (create x p) = Ok true.
Proof.
  intros Hw Hs. unfold is_compliant, create.
  exact (compl_create (top x) false p Hw Hs).
Qed.

(* ------------------------------------------------------------------ connect: what an assignment can be *)
(* an assignment made by connect: same path on both sides, different roles, and the input is a Signal
   (never a constant) *)
Definition good_asg (objs : list obj) (a : asg) : Prop :=
  snd (fst a) = snd (snd a) /\ exists nm sh i, traverse objs (fst a) = Ok (OSig nm sh i).

Lemma concat_res_Forall {A} (P : A -> Prop) (l : list (res (list A))) r :
  concat_res l = Ok r -> (forall y, In (Ok y) l -> Forall P y) -> Forall P r.
Proof.
  revert r. induction l as [|x l IH]; simpl; intros r H HP.
  - inversion H. constructor.
  - destruct x as [a|e]; [|discriminate]. destruct (concat_res l) as [b|e] eqn:E; [|discriminate].
    inversion H; subst. apply Forall_app. split; [apply HP; auto|]. apply IH; auto.
Qed.

Lemma connect_value_good objs hi ho q l :
  connect_value objs (hi, q) (ho, q) = Ok l -> Forall (good_asg objs) l.
Proof.
  unfold connect_value. destruct (traverse objs (hi, q)) as [iv|] eqn:Ei; [|discriminate].
  destruct (traverse objs (ho, q)) as [ov|] eqn:Eo; [|discriminate].
  destruct iv; try discriminate.
  - intros H. inversion H; subst. constructor; [|constructor]. split; [reflexivity|]. simpl. eauto.
  - destruct ov; try discriminate. destruct (v =? v0); [|discriminate]. intros H; inversion H. constructor.
Qed.

Lemma connect_in_good objs p o i l : connect_in objs p o i = Ok l -> Forall (good_asg objs) l.
Proof.
  unfold connect_in. destruct (dims_eqb _ _); [|discriminate]. intros H.
  eapply concat_res_Forall; [exact H|]. intros y Hy. apply in_map_iff in Hy. destruct Hy as (idx & Hy & _).
  eapply connect_value_good; eauto.
Qed.

Definition st_good (objs : list obj) (st : state) : Prop := Forall (good_asg objs) (fst (fst st)).

Lemma step_good objs p ms st st' : st_good objs st -> step objs p ms st = Ok st' -> st_good objs st'.
Proof.
  unfold step, st_good. intros Hg.
  destruct (nonempty _ && _); [discriminate|]. destruct (nonempty _); [intros H; inversion H; subst; exact Hg|].
  destruct st as [[cs ai] ao]. simpl in Hg.
  destruct (filter is_in_port _ ++ filter is_out_port _) as [|[h0 m0] r]; [intros H; inversion H; exact Hg|].
  destruct (check_wi _ _ _); [discriminate|].
  destruct (filter is_out_port _) as [|o [|o2 r2]]; [intros H; inversion H; exact Hg| |discriminate].
  destruct (concat_res _) as [new|] eqn:E; [|discriminate]. intros H; inversion H; subst. simpl.
  apply Forall_app. split; [exact Hg|].
  eapply concat_res_Forall; [exact E|]. intros y Hy. apply in_map_iff in Hy. destruct Hy as (i & Hy & _).
  eapply connect_in_good; eauto.
Qed.

Lemma conn_loop_good objs f0 : forall rest st st',
  st_good objs st -> conn_loop objs f0 rest st = Ok st' -> st_good objs st'.
Proof.
  induction f0 as [|[p m] t0 IH]; simpl; intros rest st st' Hg H.
  - destruct (forallb _ _); [inversion H; subst; exact Hg|discriminate].
  - destruct (heads p rest) as [[hs tails]|]; [|discriminate].
    destruct (step objs p (m :: hs) st) as [st1|] eqn:E; [|discriminate].
    eapply IH; [|exact H]. eapply step_good; eauto.
Qed.

Theorem connect_assignments_good objs cs : connect objs = Ok cs -> Forall (good_asg objs) cs.
Proof.
  unfold connect. destruct (check_args objs) as [sigs|]; [|discriminate]. unfold connect_sigs.
  destruct (map _ sigs) as [|f0 [|f1 rest]]; try (intros H; inversion H; constructor).
  destruct (conn_loop _ _ _ _) as [[[cs' ai] ao]|] eqn:E; [|discriminate].
  destruct (is_nil cs' && ai && negb ao); [discriminate|]. intros H; inversion H; subst.
  assert (G : st_good objs (cs, ai, ao)); [|exact G].
  eapply conn_loop_good; [|exact E]. constructor.
Qed.

(* every argument was checked against its own signature *)
Lemma check_args_compliant objs sigs :
  check_args objs = Ok sigs ->
  Forall2 (fun o x => obj_sig o = Some x /\ is_compliant x o = Ok true) objs sigs.
Proof.
  revert sigs. induction objs as [|o r IH]; simpl; intros sigs H.
  - inversion H. constructor.
  - destruct (obj_sig o) as [x|] eqn:Es; [|discriminate].
    destruct (is_compliant x o) as [[|]|] eqn:Ec; try discriminate.
    + destruct (check_args r) as [xs|]; [|discriminate]. inversion H; subst. constructor; auto.
    + destruct (is_compliant_reasons x o); discriminate.
Qed.

Theorem connect_ok_compliant objs cs :
  connect objs = Ok cs -> Forall (fun o => exists x, obj_sig o = Some x /\ is_compliant x o = Ok true) objs.
Proof.
  unfold connect. destruct (check_args objs) as [sigs|] eqn:E; [|discriminate]. intros _.
  apply check_args_compliant in E. induction E; constructor; eauto.
Qed.

(* one lock step: with members in handle order, exactly one output port and equal widths/inits, every input
   port member gets (per index) one assignment from that output; nothing else is assigned *)
Lemma step_single_out objs p ms st st' o :
  step objs p ms st = Ok st' ->
  filter is_sig_kind (tag_from 0 ms) = [] ->
  filter is_out_port (tag_from 0 ms) = [o] ->
  exists new, concat_res (map (connect_in objs p o) (filter is_in_port (tag_from 0 ms))) = Ok new /\
              fst (fst st') = fst (fst st) ++ new.
Proof.
  unfold step. intros H Hs Ho. rewrite Hs, Ho in H. cbn [nonempty andb] in H.
  destruct st as [[cs ai] ao].
  destruct (filter is_in_port (tag_from 0 ms) ++ [o]) as [|[h0 m0] r] eqn:El.
  { destruct (filter is_in_port (tag_from 0 ms)); discriminate. }
  destruct (check_wi _ _ _); [discriminate|].
  destruct (concat_res _) as [new|]; [|discriminate]. inversion H; subst. simpl. eauto.
Qed.

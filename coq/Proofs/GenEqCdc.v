(* GenEqCdc.v — the definitions regenerated from amaranth/lib/cdc.py by translator/unit_cdc.py (Gen/CdcGen.v)
   equal the hand-written model (Model/Cdc.v) for all shapes, stage counts, states and events (no guard).
   The generated step functions are what the source says: the for loop over zip((x, *flops), flops) as
   `map .. (combine (x :: flops) flops) ++ skipn ..`, the comprehension's inits as `map .. (seq 0 n)`;
   the bridge to the model's shift_in / repeat is proved here. *)
From Coq Require Import ZArith List Bool Lia.
From V.Model Require Import Bits Cdc.
From V.Gen Require CdcGen.
Import ListNotations.
Open Scope Z_scope.

(* ------------------------------------------------------------------ bridge lemmas *)
Lemma map_fst_combine_shift {A} (l : list A) : forall x,
  map (fun io : A * A => let '(i, o) := io in i) (combine (x :: l) l) = firstn (length l) (x :: l).
Proof.
  induction l as [|a l IH]; intro x; [reflexivity|].
  cbn [combine map length firstn]. f_equal. exact (IH a).
Qed.

Lemma vec_upd_shift {A} (x : A) (l : list A) :
  (let upd := map (fun io : A * A => let '(i, o) := io in i) (combine (x :: l) l) in
   upd ++ skipn (length upd) l) = shift_in x l.
Proof.
  cbv zeta. rewrite map_fst_combine_shift. unfold shift_in.
  rewrite firstn_length. cbn [length]. rewrite Nat.min_l by lia.
  rewrite skipn_all. apply app_nil_r.
Qed.

Lemma map_const_seq {A} (a : A) n : forall s, map (fun _ : nat => a) (seq s n) = repeat a n.
Proof. induction n as [|n IH]; intro s; [reflexivity|]. cbn [seq map repeat]. f_equal. apply IH. Qed.

Lemma fold_left_ext {S E} (f g : S -> E -> S) : (forall s e, f s e = g s e) ->
  forall evs s, fold_left f evs s = fold_left g evs s.
Proof. intros H evs. induction evs as [|e r IH]; intro s; [reflexivity|]. cbn [fold_left]. rewrite H. apply IH. Qed.

Ltac bridge := cbv zeta; repeat rewrite (fun A x l => @vec_upd_shift A x l : _ = shift_in x l);
               repeat rewrite map_const_seq.

(* ------------------------------------------------------------------ constructor checks *)
Lemma gen_check_stages_eq stages : CdcGen.g_check_stages stages = check_stages stages.
Proof. unfold CdcGen.g_check_stages, check_stages. cbn [negb orb]. reflexivity. Qed.

Lemma gen_ff_ctor_check_eq stages : CdcGen.g_ff_ctor_check stages = check_stages stages.
Proof. exact (gen_check_stages_eq stages). Qed.
Lemma gen_af_ctor_check_eq stages : CdcGen.g_af_ctor_check stages = check_stages stages.
Proof. exact (gen_check_stages_eq stages). Qed.
Lemma gen_rs_ctor_check_eq stages : CdcGen.g_rs_ctor_check stages = check_stages stages.
Proof. exact (gen_check_stages_eq stages). Qed.
Lemma gen_ps_ctor_check_eq stages : CdcGen.g_ps_ctor_check stages = check_stages stages.
Proof. exact (gen_check_stages_eq stages). Qed.

(* FFSynchronizer.__init__: without the deprecated reset= the flops' init is the model's ff_ctor_init;
   reset= alone is taken as init; both given -> ValueError (None) *)
Lemma gen_ff_ctor_init_eq init : CdcGen.g_ff_ctor_init None init = Some (ff_ctor_init init).
Proof. destruct init; reflexivity. Qed.
Lemma gen_ff_ctor_init_reset r init :
  CdcGen.g_ff_ctor_init (Some r) init = match init with None => Some (ff_ctor_init (Some r)) | Some _ => None end.
Proof. destruct init; reflexivity. Qed.

Lemma gen_requires_posedge_eq comp : CdcGen.g_requires_posedge comp = requires_posedge comp.
Proof.
  unfold CdcGen.g_requires_posedge, requires_posedge.
  destruct (comp =? 0) eqn:E0; destruct (comp =? 1) eqn:E1; destruct (comp =? 2) eqn:E2; destruct (comp =? 3) eqn:E3;
    try reflexivity;
    repeat match goal with H : (_ =? _) = true |- _ => apply Z.eqb_eq in H end; subst; discriminate.
Qed.

(* ------------------------------------------------------------------ FFSynchronizer *)
Lemma gen_ff_start_eq sh stages init i0 :
  CdcGen.g_ff_start sh stages (ff_ctor_init init) i0 = ff_start sh stages init i0.
Proof. unfold CdcGen.g_ff_start, ff_start, ff_chain. rewrite map_const_seq. reflexivity. Qed.

Lemma gen_ff_step_eq sh s e : CdcGen.g_ff_step sh s e = ff_step sh s e.
Proof.
  unfold CdcGen.g_ff_step, ff_step. destruct s as [i fl]; cbn [ff_in ff_flops].
  destruct e; bridge; reflexivity.
Qed.

Lemma gen_ff_out_as_eq osh sh s : CdcGen.g_ff_out_as osh sh s = ff_out_as osh s.
Proof. reflexivity. Qed.

Lemma gen_ff_run_eq sh stages init i0 evs :
  fold_left (CdcGen.g_ff_step sh) evs (CdcGen.g_ff_start sh stages (ff_ctor_init init) i0) = ff_run sh stages init i0 evs.
Proof. unfold ff_run. rewrite gen_ff_start_eq. apply fold_left_ext. intros; apply gen_ff_step_eq. Qed.

(* the same design under the output domain's reset *)
Lemma gen_ffr_step_eq sh init async rl s e :
  CdcGen.g_ffr_step sh (ff_ctor_init init) async rl s e = ffr_step sh init async rl s e.
Proof.
  unfold CdcGen.g_ffr_step, ffr_step, ffr_process, ff_step, ff_chain.
  destruct s as [[i fl] r]; cbn [fr_ff fr_rst ff_in ff_flops].
  destruct e as [[v| | | |]|b]; bridge; try reflexivity.
  destruct (async && negb r && b && negb rl); reflexivity.
Qed.

(* ------------------------------------------------------------------ AsyncFFSynchronizer / ResetSynchronizer *)
Lemma gen_af_start_eq stages i0 : CdcGen.g_af_start stages i0 = af_start stages i0.
Proof. unfold CdcGen.g_af_start, af_start. rewrite map_const_seq. reflexivity. Qed.

Lemma gen_af_step_eq pos s e : CdcGen.g_af_step pos s e = af_step pos s e.
Proof.
  unfold CdcGen.g_af_step, af_step, af_rst, af_reset_all. destruct s as [i fl]; cbn [af_in af_flops].
  destruct e; bridge; reflexivity.
Qed.

Lemma gen_af_out_eq s : CdcGen.g_af_out s = af_out s.
Proof. reflexivity. Qed.

Lemma gen_af_run_eq pos stages i0 evs :
  fold_left (CdcGen.g_af_step pos) evs (CdcGen.g_af_start stages i0) = af_run pos stages i0 evs.
Proof. unfold af_run. rewrite gen_af_start_eq. apply fold_left_ext. intros; apply gen_af_step_eq. Qed.

Lemma gen_rs_start_eq stages i0 : CdcGen.g_rs_start stages i0 = af_start stages i0.
Proof. unfold CdcGen.g_rs_start, af_start. rewrite map_const_seq. reflexivity. Qed.

Lemma gen_rs_step_eq s e : CdcGen.g_rs_step s e = af_step true s e.
Proof.
  unfold CdcGen.g_rs_step, af_step, af_rst, af_reset_all. destruct s as [i fl]; cbn [af_in af_flops].
  destruct e; bridge; reflexivity.
Qed.

Lemma gen_rs_out_eq s : CdcGen.g_rs_out s = af_out s.
Proof. reflexivity. Qed.

Lemma gen_rs_run_eq stages i0 evs :
  fold_left CdcGen.g_rs_step evs (CdcGen.g_rs_start stages i0) = rs_run stages i0 evs.
Proof. unfold rs_run, af_run. rewrite gen_rs_start_eq. apply fold_left_ext. intros; apply gen_rs_step_eq. Qed.

(* ------------------------------------------------------------------ PulseSynchronizer *)
Lemma gen_ps_start_eq stages i0 : CdcGen.g_ps_start stages i0 = ps_start stages i0.
Proof. unfold CdcGen.g_ps_start, ps_start. rewrite map_const_seq. reflexivity. Qed.

Lemma gen_ps_step_eq s e : CdcGen.g_ps_step s e = ps_step s e.
Proof.
  unfold CdcGen.g_ps_step, ps_step, ps_otog. destruct s as [i t ch r]; cbn [ps_i ps_itog ps_chain ps_r].
  destruct e; bridge; try reflexivity.
  (* nothing is left for the source as it stands; a commuted `^` ends here *)
  all: destruct i, t; reflexivity.
Qed.

Lemma gen_ps_out_eq s : CdcGen.g_ps_out s = ps_out s.
Proof. unfold CdcGen.g_ps_out, ps_out, ps_otog. try reflexivity. all: destruct (last (ps_chain s) false), (ps_r s); reflexivity. Qed.

Lemma gen_ps_run_eq stages i0 evs :
  fold_left CdcGen.g_ps_step evs (CdcGen.g_ps_start stages i0) = ps_run stages i0 evs.
Proof. unfold ps_run, ps_runfrom. rewrite gen_ps_start_eq. apply fold_left_ext. intros; apply gen_ps_step_eq. Qed.

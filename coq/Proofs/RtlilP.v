(* RtlilP.v — the RTLIL checker of Model/Rtlil.v decides the declarative well-formedness predicate:
   every boolean clause is equivalent to its Prop clause, hence wf_doc ex d = true <-> WellFormed ex d.
   Also: the name de-duplication step (add_name / assign_names, with the retry loop of _ir._add_name) always
   terminates and returns pairwise distinct fresh names, for all name lists (names containing `$` included). *)
From Coq Require Import ZArith List Bool String Ascii Lia ZifyBool DecimalString DecimalNat.
From V.Model Require Import Bits Rtlil.
From V.Model Require Shape.
From V.Proofs Require Import BitsP ShapeP.
Import ListNotations.
Open Scope Z_scope.

(* ------------------------------------------------------------------ generic reflection lemmas *)
Section Generic.
  Context {A : Type} (e : A -> A -> bool) (He : forall x y, e x y = true <-> x = y).

  Lemma list_eqb_spec : forall a b, list_eqb e a b = true <-> a = b.
  Proof.
    induction a as [|x a IH]; destruct b as [|y b]; simpl; split; intro H;
      try reflexivity; try discriminate.
    - apply andb_true_iff in H. destruct H as [H1 H2]. apply He in H1. apply IH in H2. subst. reflexivity.
    - inversion H; subst. apply andb_true_iff. split; [apply He | apply IH]; reflexivity.
  Qed.

  Lemma memb_spec : forall x l, memb e x l = true <-> In x l.
  Proof.
    induction l as [|y l IH]; simpl.
    - split; [discriminate | tauto].
    - rewrite orb_true_iff, IH, He. split; intros [H|H]; auto.
  Qed.

  Lemma memb_false : forall x l, memb e x l = false <-> ~ In x l.
  Proof.
    intros x l. rewrite <- memb_spec. destruct (memb e x l); split; intro H; try reflexivity; try discriminate.
    - exfalso. apply H. reflexivity.
  Qed.

  Lemma nodupb_spec : forall l, nodupb e l = true <-> NoDup l.
  Proof.
    induction l as [|x l IH]; simpl.
    - split; [constructor | reflexivity].
    - rewrite andb_true_iff, negb_true_iff, IH, memb_false. split.
      + intros [H1 H2]. constructor; assumption.
      + intro H. inversion H; subst. split; assumption.
  Qed.

  Lemma same_set_spec : forall a b, same_set e a b = true <-> SameSet a b.
  Proof.
    intros a b. unfold same_set, SameSet.
    rewrite !andb_true_iff, Nat.eqb_eq, !forallb_forall. split.
    - intros [[H1 H2] H3]. split; [assumption|]. intro x. split; intro Hx.
      + apply memb_spec. apply H2. assumption.
      + apply memb_spec. apply H3. assumption.
    - intros [H1 H2]. repeat split; try assumption; intros x Hx; apply memb_spec; apply H2; assumption.
  Qed.
End Generic.

Lemma zrange_In : forall n lo i, In i (zrange lo n) <-> lo <= i < lo + Z.of_nat n.
Proof.
  induction n as [|n IH]; intros lo i.
  - simpl. lia.
  - cbn [zrange In]. rewrite IH, Nat2Z.inj_succ. lia.
Qed.

Lemma bit_range_In : forall w i, In i (bit_range w) <-> 0 <= i < w_width w.
Proof. intros w i. unfold bit_range. rewrite zrange_In. lia. Qed.

Lemma pval_eqb_spec : forall a b, pval_eqb a b = true <-> a = b.
Proof.
  destruct a as [x|x|x], b as [y|y|y]; simpl; try (split; intro H; discriminate).
  - rewrite Z.eqb_eq. split; intro H; [subst|inversion H]; reflexivity.
  - rewrite (list_eqb_spec Z.eqb Z.eqb_eq). split; intro H; [subst|inversion H]; reflexivity.
  - rewrite String.eqb_eq. split; intro H; [subst|inversion H]; reflexivity.
Qed.

Lemma param_eqb_spec : forall a b, param_eqb a b = true <-> a = b.
Proof.
  intros [n1 f1 v1] [n2 f2 v2]. unfold param_eqb. simpl.
  rewrite !andb_true_iff, String.eqb_eq, Z.eqb_eq, pval_eqb_spec. split.
  - intros [[H1 H2] H3]. subst. reflexivity.
  - intro H. inversion H. auto.
Qed.

Lemma attr_eqb_spec : forall a b : attr, attr_eqb a b = true <-> a = b.
Proof.
  intros [n1 v1] [n2 v2]. unfold attr_eqb. simpl.
  rewrite andb_true_iff, String.eqb_eq, pval_eqb_spec. split.
  - intros [H1 H2]. subst. reflexivity.
  - intro H. inversion H. auto.
Qed.

Lemma dir_eqb_spec : forall a b, dir_eqb a b = true <-> a = b.
Proof. destruct a, b; simpl; split; intro H; try reflexivity; discriminate. Qed.

Lemma sbit_eqb_spec : forall a b, sbit_eqb a b = true <-> a = b.
Proof.
  destruct a as [x|n i], b as [y|m j]; simpl; try (split; intro H; discriminate).
  - rewrite Z.eqb_eq. split; intro H; [subst|inversion H]; reflexivity.
  - rewrite andb_true_iff, String.eqb_eq, Z.eqb_eq. split.
    + intros [H1 H2]. subst. reflexivity.
    + intro H. inversion H. auto.
Qed.

Lemma smem_spec : forall x l, smem x l = true <-> In x l.
Proof. exact (memb_spec String.eqb String.eqb_eq). Qed.

(* the counting function is the standard one *)
Lemma count_count_occ :
  forall (dec : forall x y : sbit, {x = y} + {x <> y}) b l, count b l = count_occ dec l b.
Proof.
  intros dec b l. unfold count. induction l as [|x l IH]; simpl; [reflexivity|].
  destruct (dec x b) as [E|E].
  - subst. replace (sbit_eqb b b) with true by (symmetry; apply sbit_eqb_spec; reflexivity).
    simpl. rewrite IH. reflexivity.
  - destruct (sbit_eqb b x) eqn:F.
    + apply sbit_eqb_spec in F. congruence.
    + exact IH.
Qed.

(* with unique names the lookup is the declarative "the wire of that name" *)
Lemma find_wire_In : forall ws n w, find_wire ws n = Some w -> In w ws /\ w_name w = n.
Proof.
  induction ws as [|x ws IH]; simpl; intros n w H; [discriminate|].
  destruct (String.eqb (w_name x) n) eqn:E.
  - inversion H; subst. apply String.eqb_eq in E. auto.
  - destruct (IH _ _ H). auto.
Qed.

Lemma In_find_wire : forall ws w, NoDup (map w_name ws) -> In w ws -> find_wire ws (w_name w) = Some w.
Proof.
  induction ws as [|x ws IH]; simpl; intros w Hnd Hin; [contradiction|].
  inversion Hnd as [|? ? Hx Hnd']; subst.
  destruct Hin as [E|Hin].
  - subst. rewrite String.eqb_refl. reflexivity.
  - destruct (String.eqb (w_name x) (w_name w)) eqn:E.
    + apply String.eqb_eq in E. exfalso. apply Hx. rewrite E. apply in_map. assumption.
    + apply IH; assumption.
Qed.

(* ------------------------------------------------------------------ clause by clause *)
Lemma chunk_ok_spec : forall ws c, chunk_ok ws c = true <-> ChunkOk ws c.
Proof.
  intros ws [bits|n|n hi lo]; simpl.
  - rewrite forallb_forall. unfold const_bit_ok. split; intros H b Hb; specialize (H b Hb); lia.
  - destruct (find_wire ws n) as [w|]; split; intro H; try reflexivity; try discriminate.
    + exists w. reflexivity.
    + destruct H as [w H]. discriminate.
  - destruct (find_wire ws n) as [w|]; split; intro H; try discriminate.
    + exists w. split; [reflexivity|]. lia.
    + destruct H as [w' [E H]]. inversion E; subst. lia.
    + destruct H as [w' [E _]]. discriminate.
Qed.

Lemma sig_ok_spec : forall ws s, sig_ok ws s = true <-> SigOk ws s.
Proof.
  intros ws s. unfold sig_ok, SigOk. rewrite forallb_forall.
  split; intros H c Hc; apply chunk_ok_spec; apply H; assumption.
Qed.

Lemma driveable_spec : forall s, driveable s = true <-> Driveable s.
Proof.
  intros s. unfold driveable, Driveable. rewrite forallb_forall.
  split; intros H c Hc; specialize (H c Hc); destruct (is_const_chunk c); simpl in *; congruence.
Qed.

Lemma inout_only_spec : forall ws s, inout_only ws s = true <-> InoutOnly ws s.
Proof.
  intros ws s. unfold inout_only, InoutOnly. rewrite forallb_forall. split; intros H c Hc; specialize (H c Hc).
  - destruct (chunk_wire c) as [n|]; [|discriminate].
    destruct (find_wire ws n) as [w|] eqn:E; [|discriminate].
    exists n, w. auto.
  - destruct H as [n [w [H1 [H2 H3]]]]. rewrite H1, H2. assumption.
Qed.

Lemma port_conn_ok_spec : forall ws s p, port_conn_ok ws s p = true <-> PortConnOk ws s p.
Proof.
  intros ws s p. unfold port_conn_ok, PortConnOk.
  rewrite !andb_true_iff, sig_ok_spec, Z.eqb_eq. split.
  - intros [[[H1 H2] H3] H4]. repeat split; try assumption.
    + intro E. rewrite E in H3. simpl in H3. apply driveable_spec. assumption.
    + intro E. rewrite E in H4. simpl in H4. apply inout_only_spec. assumption.
  - intros [H1 [H2 [H3 H4]]]. repeat split; try assumption.
    + destruct (dir_eqb (pd_dir p) DOut) eqn:E; [|reflexivity].
      apply driveable_spec. apply H3. apply dir_eqb_spec. assumption.
    + destruct (dir_eqb (pd_dir p) DInout) eqn:E; [|reflexivity].
      apply inout_only_spec. apply H4. apply dir_eqb_spec. assumption.
Qed.

Lemma conns_match_spec : forall ws conns ports, conns_match ws conns ports = true <-> ConnsMatch ws conns ports.
Proof.
  intros ws conns ports. unfold conns_match, ConnsMatch.
  rewrite !andb_true_iff, (nodupb_spec String.eqb String.eqb_eq), !forallb_forall. split.
  - intros [[[H1 H2] H3] H4]. split; [assumption|]. split.
    + intro n. split; intro Hn; apply smem_spec; [apply H2 | apply H3]; assumption.
    + intros n s p Hc Hp E. specialize (H4 (n, s) Hc). rewrite forallb_forall in H4.
      specialize (H4 p Hp). simpl in H4. rewrite E, String.eqb_refl in H4.
      apply port_conn_ok_spec. assumption.
  - intros [H1 [H2 H3]]. repeat split; try assumption.
    + intros n Hn. apply smem_spec. apply H2. assumption.
    + intros n Hn. apply smem_spec. apply H2. assumption.
    + intros [n s] Hc. rewrite forallb_forall. intros p Hp. simpl.
      destruct (String.eqb (pd_name p) n) eqn:E; [|reflexivity].
      apply port_conn_ok_spec. apply (H3 n s p); try assumption. apply String.eqb_eq. assumption.
Qed.

Lemma cell_ok_spec : forall ex d m c, cell_ok ex d m c = true <-> CellOk ex d m c.
Proof.
  intros ex d m c. unfold cell_ok, CellOk.
  destruct (cell_ports ex d (mod_name m) c) as [ports|]; split; intro H.
  - exists ports. split; [reflexivity|]. apply conns_match_spec. assumption.
  - destruct H as [ports' [E H]]. inversion E; subst. apply conns_match_spec. assumption.
  - discriminate.
  - destruct H as [ports' [E _]]. discriminate.
Qed.

Lemma mem_ref_ok_spec : forall m c, mem_ref_ok m c = true <-> MemRefOk m c.
Proof.
  intros m c. unfold mem_ref_ok, MemRefOk.
  destruct (smem (c_type c) mem_types); [|split; intro H; [intro; discriminate | reflexivity]].
  destruct (find_param (c_params c) "\MEMID"%string) as [[x|x|n]|] eqn:EP; split; intro H; try discriminate;
    try (destruct (H eq_refl) as [n' [mem [E _]]]; discriminate).
  - intros _. destruct (find_mem (mod_mems m) n) as [mem|] eqn:EM; [|discriminate].
    destruct (param_int (c_params c) "\WIDTH"%string) as [w|] eqn:EW; [|discriminate].
    exists n, mem. apply Z.eqb_eq in H. subst. auto.
  - destruct (H eq_refl) as [n' [mem [E [F G]]]]. inversion E; subst. rewrite F, G. apply Z.eqb_refl.
Qed.

Lemma pair_ok_spec : forall ws lr, pair_ok ws lr = true <-> PairOk ws lr.
Proof.
  intros ws lr. unfold pair_ok, PairOk.
  rewrite !andb_true_iff, !sig_ok_spec, driveable_spec, Z.eqb_eq. tauto.
Qed.

Lemma switch_ok_spec : forall ws sp, switch_ok ws sp = true <-> SwitchOk ws sp.
Proof.
  intros ws sp. unfold switch_ok, SwitchOk.
  rewrite andb_true_iff, sig_ok_spec, forallb_forall. split.
  - intros [H1 H2]. split; [assumption|]. intros pat Hp. specialize (H2 pat Hp).
    apply andb_true_iff in H2. destruct H2 as [H2 H3]. split; [lia|].
    rewrite forallb_forall in H3. intros b Hb. specialize (H3 b Hb). unfold const_bit_ok in H3. lia.
  - intros [H1 H2]. split; [assumption|]. intros pat Hp. destruct (H2 pat Hp) as [H3 H4].
    apply andb_true_iff. split; [lia|]. rewrite forallb_forall. intros b Hb. specialize (H4 b Hb).
    unfold const_bit_ok. lia.
Qed.

Lemma one_driver_spec : forall dr ws,
  one_driver_b dr ws = true <->
  (forall w, In w ws -> is_inout w = false -> forall i, 0 <= i < w_width w -> driver_count dr w i = 1%nat).
Proof.
  intros dr ws. unfold one_driver_b. rewrite forallb_forall. split.
  - intros H w Hw Hio i Hi. specialize (H w Hw). rewrite Hio in H. rewrite forallb_forall in H.
    apply Nat.eqb_eq. apply H. apply bit_range_In. assumption.
  - intros H w Hw. destruct (is_inout w) eqn:E; [reflexivity|]. rewrite forallb_forall.
    intros i Hi. apply Nat.eqb_eq. apply H; try assumption. apply bit_range_In. assumption.
Qed.

Lemma inputs_free_spec : forall dr ws,
  inputs_free_b dr ws = true <->
  (forall w, In w ws -> is_input w = true -> forall i, 0 <= i < w_width w ->
             inside_count dr (BW (w_name w) i) = 0%nat).
Proof.
  intros dr ws. unfold inputs_free_b. rewrite forallb_forall. split.
  - intros H w Hw Hin i Hi. specialize (H w Hw). rewrite Hin in H. rewrite forallb_forall in H.
    apply Nat.eqb_eq. apply H. apply bit_range_In. assumption.
  - intros H w Hw. destruct (is_input w) eqn:E; [|reflexivity]. rewrite forallb_forall.
    intros i Hi. apply Nat.eqb_eq. apply H; try assumption. apply bit_range_In. assumption.
Qed.

Lemma inout_used_spec : forall refs ws,
  inout_used_b refs ws = true <->
  (forall w, In w ws -> is_inout w = true -> forall i, 0 <= i < w_width w -> In (BW (w_name w) i) refs).
Proof.
  intros refs ws. unfold inout_used_b. rewrite forallb_forall. split.
  - intros H w Hw Hio i Hi. specialize (H w Hw). rewrite Hio in H. rewrite forallb_forall in H.
    apply (memb_spec sbit_eqb sbit_eqb_spec). apply H. apply bit_range_In. assumption.
  - intros H w Hw. destruct (is_inout w) eqn:E; [|reflexivity]. rewrite forallb_forall.
    intros i Hi. apply (memb_spec sbit_eqb sbit_eqb_spec). apply H; try assumption. apply bit_range_In. assumption.
Qed.

(* ------------------------------------------------------------------ modules *)
Theorem wf_module_spec : forall ex d m, wf_module ex d m = true <-> WfModule ex d m.
Proof.
  intros ex d m. unfold wf_module, module_checks. cbv zeta. cbn [forallb].
  rewrite !andb_true_iff.
  rewrite (nodupb_spec String.eqb String.eqb_eq), (nodupb_spec Z.eqb Z.eqb_eq).
  rewrite one_driver_spec, inputs_free_spec, !forallb_forall.
  split.
  - intros [H1 [H2 [H3 [H4 [H5 [H6 [H7 [H8 [H9 [H10 [H11 [H12 [H13 _]]]]]]]]]]]]].
    constructor; try assumption.
    + intros w Hw. specialize (H2 w Hw). lia.
    + intros x Hx. specialize (H3 x Hx). lia.
    + intros k Hk. specialize (H5 k Hk). lia.
    + intros lr Hlr. apply pair_ok_spec. apply H6. assumption.
    + intros c Hc. apply cell_ok_spec. apply H7. assumption.
    + intros c Hc. apply mem_ref_ok_spec. apply H8. assumption.
    + intros p Hp lr Hlr. specialize (H9 p Hp). rewrite forallb_forall in H9.
      apply pair_ok_spec. apply H9. assumption.
    + intros p Hp sp Hsp. specialize (H10 p Hp). rewrite forallb_forall in H10.
      apply switch_ok_spec. apply H10. assumption.
    + intro Ht. rewrite Ht in H13. apply inout_used_spec. assumption.
  - intros [W1 W2 W3 W4 W5 W6 W7 W8 W9 W10 W11 W12 W13].
    assert (G13 : (if is_top m then true else inout_used_b (mod_refs m) (mod_wires m)) = true).
    { destruct (is_top m) eqn:Ht; [reflexivity|]. apply inout_used_spec. apply W13. reflexivity. }
    repeat split; try assumption.
    + intros w Hw. specialize (W2 w Hw). lia.
    + intros x Hx. specialize (W3 x Hx). lia.
    + intros k Hk. specialize (W5 k Hk). lia.
    + intros lr Hlr. apply pair_ok_spec. apply W6. assumption.
    + intros c Hc. apply cell_ok_spec. apply W7. assumption.
    + intros c Hc. apply mem_ref_ok_spec. apply W8. assumption.
    + intros p Hp. rewrite forallb_forall. intros lr Hlr. apply pair_ok_spec. apply (W9 p Hp). assumption.
    + intros p Hp. rewrite forallb_forall. intros sp Hsp. apply switch_ok_spec. apply (W10 p Hp). assumption.
Qed.

(* ------------------------------------------------------------------ foreign instances *)
Lemma fport_ok_spec : forall ws c p, fport_ok ws c p = true <-> FportOk ws c p.
Proof.
  intros ws c p. unfold fport_ok, FportOk. destruct (fp_conn p) as [s|].
  - rewrite existsb_exists. split.
    + intros [[n s'] [Hin H]] s0 E. inversion E; subst. simpl in H.
      apply andb_true_iff in H. destruct H as [H1 H2]. apply String.eqb_eq in H1. subst.
      apply (list_eqb_spec sbit_eqb sbit_eqb_spec) in H2. exists s'. auto.
    + intro H. destruct (H s eq_refl) as [s' [Hin E]]. exists (fp_name p, s'). split; [assumption|].
      simpl. rewrite String.eqb_refl. simpl. apply (list_eqb_spec sbit_eqb sbit_eqb_spec). assumption.
  - split; [intros _ s E; discriminate | reflexivity].
Qed.

Lemma optz_eqb_spec : forall o v, optz_eqb o v = true <-> o = Some v.
Proof.
  intros [u|] v; simpl.
  - rewrite Z.eqb_eq. split; intro H; [subst|inversion H]; reflexivity.
  - split; discriminate.
Qed.

Lemma param_num_ok_spec : forall ps nx, param_num_ok ps nx = true <-> ParamNumOk ps nx.
Proof.
  intros ps nx. unfold param_num_ok, ParamNumOk. destruct (xval_num (snd nx)) as [v|].
  - rewrite existsb_exists. split.
    + intros [p [Hp H]] v' E. inversion E; subst. apply andb_true_iff in H. destruct H as [H1 H2].
      apply String.eqb_eq in H1. apply optz_eqb_spec in H2. exists p. auto.
    + intro H. destruct (H v eq_refl) as [p [Hp [H1 H2]]]. exists p. split; [assumption|].
      apply andb_true_iff. split; [apply String.eqb_eq | apply optz_eqb_spec]; assumption.
  - split; [intros _ v E; discriminate | reflexivity].
Qed.

Lemma attr_num_ok_spec : forall ats nx, attr_num_ok ats nx = true <-> AttrNumOk ats nx.
Proof.
  intros ats nx. unfold attr_num_ok, AttrNumOk. destruct (xval_num (snd nx)) as [v|].
  - rewrite existsb_exists. split.
    + intros [p [Hp H]] v' E. inversion E; subst. apply andb_true_iff in H. destruct H as [H1 H2].
      apply String.eqb_eq in H1. apply optz_eqb_spec in H2. exists p. auto.
    + intro H. destruct (H v eq_refl) as [p [Hp [H1 H2]]]. exists p. split; [assumption|].
      apply andb_true_iff. split; [apply String.eqb_eq | apply optz_eqb_spec]; assumption.
  - split; [intros _ v E; discriminate | reflexivity].
Qed.

Lemma cell_is_spec : forall f m c, cell_is f m c = true <-> CellIs f m c.
Proof.
  intros f m c. unfold cell_is, CellIs.
  rewrite !andb_true_iff, !String.eqb_eq, (same_set_spec param_eqb param_eqb_spec),
    (same_set_spec attr_eqb attr_eqb_spec), !forallb_forall.
  split.
  - intros [[[[[[[H1 H2] H3] H4] H5] H6] H7] H8].
    split; [assumption|]. split; [assumption|]. split; [assumption|]. split; [assumption|].
    split; [assumption|]. split; [|split].
    + intros nx Hn. apply param_num_ok_spec. apply H6. assumption.
    + intros nx Hn. apply attr_num_ok_spec. apply H7. assumption.
    + intros p Hp. apply fport_ok_spec. apply H8. assumption.
  - intros [H1 [H2 [H3 [H4 [H5 [H6 [H7 H8]]]]]]].
    split; [split; [split; [split; [split; [split; [split|]|]|]|]|]|]; try assumption.
    + intros nx Hn. apply param_num_ok_spec. apply H6. assumption.
    + intros nx Hn. apply attr_num_ok_spec. apply H7. assumption.
    + intros p Hp. apply fport_ok_spec. apply H8. assumption.
Qed.

Lemma foreign_ok_spec : forall d f, foreign_ok d f = true <-> ForeignOk d f.
Proof.
  intros d f. unfold foreign_ok, ForeignOk. rewrite andb_true_iff, existsb_exists. split.
  - intros [H1 [m [Hm H2]]]. split.
    + destruct (find_module (doc_modules d) (fs_type f)); [discriminate | reflexivity].
    + apply existsb_exists in H2. destruct H2 as [c [Hc H2]]. exists m, c.
      split; [assumption|]. split; [assumption|]. apply cell_is_spec. assumption.
  - intros [H1 [m [c [Hm [Hc H2]]]]]. split.
    + rewrite H1. reflexivity.
    + exists m. split; [assumption|]. apply existsb_exists. exists c. split; [assumption|].
      apply cell_is_spec. assumption.
Qed.

(* ------------------------------------------------------------------ documents *)
Theorem wf_doc_spec : forall ex d, wf_doc ex d = true <-> WellFormed ex d.
Proof.
  intros ex d. unfold wf_doc.
  rewrite !andb_true_iff, (nodupb_spec String.eqb String.eqb_eq), !forallb_forall. split.
  - intros [[H1 H2] H3]. constructor; [assumption| |].
    + intros m Hm. apply wf_module_spec. apply H2. assumption.
    + intros f Hf. apply foreign_ok_spec. apply H3. assumption.
  - intros [W1 W2 W3]. repeat split; [assumption| |].
    + intros m Hm. apply wf_module_spec. apply W2. assumption.
    + intros f Hf. apply foreign_ok_spec. apply W3. assumption.
Qed.

Theorem wf_doc_sound : forall ex d, wf_doc ex d = true -> WellFormed ex d.
Proof. intros ex d. apply wf_doc_spec. Qed.

Theorem wf_doc_complete : forall ex d, WellFormed ex d -> wf_doc ex d = true.
Proof. intros ex d. apply wf_doc_spec. Qed.

(* a rejection is explained: the diagnostics are empty exactly for accepted documents' modules *)
Lemma failing_from_nil : forall bs k, failing_from k bs = [] <-> forallb (fun b => b) bs = true.
Proof.
  induction bs as [|b bs IH]; intro k; simpl.
  - tauto.
  - destruct b; simpl.
    + apply IH.
    + split; discriminate.
Qed.

Lemma NoDup_app_l : forall {A} (a b : list A), NoDup (a ++ b) -> NoDup a.
Proof.
  induction a as [|x a IH]; intros b H; [constructor|].
  simpl in H. inversion H as [|? ? Hx Hr]; subst. constructor.
  - intro Hin. apply Hx. apply in_or_app. left. assumption.
  - apply (IH b). assumption.
Qed.

(* consequences of well-formedness in the declarative vocabulary *)
Lemma wf_wire_lookup : forall ex d m, WfModule ex d m ->
  forall w, In w (mod_wires m) -> find_wire (mod_wires m) (w_name w) = Some w.
Proof.
  intros ex d m W w Hw. apply In_find_wire; [|assumption].
  pose proof (wf_names_unique _ _ _ W) as H. unfold mod_names in H.
  apply NoDup_app_l in H. assumption.
Qed.

(* ------------------------------------------------------------------ _const(): reading back what was written *)
Lemma bits_lsb_length : forall n v, List.length (bits_lsb n v) = n.
Proof. induction n as [|n IH]; intro v; simpl; [reflexivity|]. rewrite IH. reflexivity. Qed.

Lemma bits_lsb_01 : forall n v, forallb is01 (bits_lsb n v) = true.
Proof.
  induction n as [|n IH]; intro v; simpl; [reflexivity|]. rewrite IH, andb_true_r.
  unfold is01. pose proof (Z.mod_pos_bound v 2 ltac:(lia)). lia.
Qed.

Lemma unsigned_of_bits_lsb : forall n v, unsigned_of (bits_lsb n v) = v mod 2 ^ Z.of_nat n.
Proof.
  induction n as [|n IH]; intro v.
  - simpl. rewrite Z.mod_1_r. reflexivity.
  - cbn [bits_lsb unsigned_of]. rewrite IH, Nat2Z.inj_succ, Z.pow_succ_r by lia.
    rewrite Z.rem_mul_r; [reflexivity | lia | apply pow2_pos; lia].
Qed.

Lemma decode_bits_lsb : forall w sg v, 0 <= w ->
  decode_bits sg (bits_lsb (Z.to_nat w) v) = norm (Sh w sg) (v mod 2 ^ w).
Proof.
  intros w sg v Hw. unfold decode_bits. rewrite bits_lsb_length, unsigned_of_bits_lsb, Z2Nat.id by assumption.
  reflexivity.
Qed.

Lemma const_width_ge : forall v, 32 <= const_width v /\ Shape.bits_for v false <= const_width v.
Proof. intro v. unfold const_width. lia. Qed.

(* ALL integers: the constant _const writes (decimal inside [0, 2^31-1), otherwise max(32, bits_for v) binary
   digits, marked signed when v < 0) denotes v again *)
Theorem emit_int_decodes : forall v, decode_param (fst (emit_int v)) (snd (emit_int v)) = Some v.
Proof.
  intro v. unfold emit_int. destruct ((0 <=? v) && (v <? 2 ^ 31 - 1)) eqn:R; [reflexivity|].
  cbn [fst snd decode_param]. rewrite bits_lsb_01. f_equal.
  destruct (const_width_ge v) as [H32 Hbf]. set (w := const_width v) in *.
  rewrite decode_bits_lsb by lia.
  destruct (v <? 0) eqn:N.
  - change (1 =? 1) with true. rewrite norm_signed. fold (mask w v). rewrite sext_mask by lia.
    apply sext_small; [lia|].
    assert (Hneg : v <= 0) by (apply Z.ltb_lt in N; lia).
    destruct (bits_for_signed_fits v false (or_intror Hneg)) as [Hf H1].
    unfold fits, in_range in Hf. simpl in Hf.
    pose proof (pow2_mono (Shape.bits_for v false - 1) (w - 1) ltac:(lia)). lia.
  - change (0 =? 1) with false. rewrite norm_unsigned. fold (mask w v). rewrite mask_idem by lia.
    apply mask_small.
    assert (Hv : 0 < v).
    { apply Z.ltb_ge in N. apply andb_false_iff in R. destruct R as [R|R].
      - apply Z.leb_gt in R. lia.
      - apply Z.ltb_ge in R. lia. }
    pose proof (bits_for_unsigned_fits v Hv) as Hf. unfold fits, in_range in Hf. simpl in Hf.
    pose proof (bits_for_nonneg v false).
    pose proof (pow2_mono (Shape.bits_for v false) w ltac:(lia)). lia.
Qed.

(* Const(v, shape) of any well-formed shape: the written constant has exactly `width` digits and denotes the
   constant's (normalised) value *)
Theorem emit_const_decodes : forall v w sg, wf_shape (Sh w sg) = true ->
  decode_param (fst (emit_xval (XConst v w sg))) (snd (emit_xval (XConst v w sg))) = Some (norm (Sh w sg) v) /\
  (forall bits, snd (emit_xval (XConst v w sg)) = PBits bits -> Z.of_nat (List.length bits) = w).
Proof.
  intros v w sg Hwf. assert (Hw : 0 <= w) by (unfold wf_shape in Hwf; simpl in Hwf; destruct sg; lia).
  cbn [emit_xval fst snd decode_param]. rewrite bits_lsb_01. split.
  - f_equal. rewrite decode_bits_lsb by assumption.
    destruct sg.
    + change (1 =? 1) with true. rewrite !norm_signed. fold (mask w v). apply sext_mask.
      unfold wf_shape in Hwf; simpl in Hwf; lia.
    + change (0 =? 1) with false. rewrite !norm_unsigned. fold (mask w v). apply mask_idem. assumption.
  - intros bits E. inversion E. rewrite bits_lsb_length. lia.
Qed.

Definition xval_wf (x : xval) : bool := match x with XConst _ w sg => wf_shape (Sh w sg) | _ => true end.

Theorem emit_xval_decodes : forall x v, xval_wf x = true -> xval_num x = Some v ->
  decode_param (fst (emit_xval x)) (snd (emit_xval x)) = Some v.
Proof.
  intros [v0|v0 w sg|s0|r0] v Hwf E; simpl in E; inversion E; subst.
  - apply emit_int_decodes.
  - apply emit_const_decodes. assumption.
Qed.

(* hence different integers are never written alike (flag included) *)
Corollary emit_int_inj : forall a b, emit_int a = emit_int b -> a = b.
Proof.
  intros a b E. pose proof (emit_int_decodes a) as Ha. pose proof (emit_int_decodes b) as Hb.
  rewrite E in Ha. rewrite Ha in Hb. inversion Hb. reflexivity.
Qed.

(* the numeric clause of CellIs follows from the textual one for well-formed values: nothing extra is demanded *)
Lemma param_num_from_text : forall ps nx, xval_wf (snd nx) = true -> In (xparam_text nx) ps -> ParamNumOk ps nx.
Proof.
  intros ps nx Hwf Hin v E. exists (xparam_text nx). split; [assumption|]. split; [reflexivity|].
  unfold xparam_text. simpl. apply emit_xval_decodes; assumption.
Qed.

(* ------------------------------------------------------------------ naming (_ir._add_name) *)
Lemma dec_inj : forall k k', dec k = dec k' -> k = k'.
Proof.
  intros k k' E. unfold dec in E.
  assert (H : Some (Nat.to_uint k) = Some (Nat.to_uint k')).
  { rewrite <- (NilEmpty.usu (Nat.to_uint k)), <- (NilEmpty.usu (Nat.to_uint k')), E. reflexivity. }
  inversion H as [H'].
  rewrite <- (DecimalNat.Unsigned.of_to k), <- (DecimalNat.Unsigned.of_to k'), H'. reflexivity.
Qed.

Lemma append_inj_l : forall a x y, (a ++ x)%string = (a ++ y)%string -> x = y.
Proof. induction a as [|c a IH]; simpl; intros x y E; [assumption|]. inversion E. auto. Qed.

Lemma gen_name_inj : forall n i j, gen_name n i = gen_name n j -> i = j.
Proof.
  intros n i j E. unfold gen_name in E. apply append_inj_l in E. apply append_inj_l in E.
  apply dec_inj. assumption.
Qed.

Lemma find_index_some : forall f A n i k, find_index f A n i = Some k -> ~ In (gen_name n k) A /\ (i <= k)%nat.
Proof.
  induction f as [|f IH]; simpl; intros A n i k H; [discriminate|].
  destruct (smem (gen_name n i) A) eqn:E.
  - destruct (IH _ _ _ _ H) as [H1 H2]. split; [assumption | lia].
  - inversion H; subst. split; [|lia]. apply (memb_false String.eqb String.eqb_eq). assumption.
Qed.

Lemma find_index_none : forall f A n i, find_index f A n i = None ->
  forall j, (i <= j < i + f)%nat -> In (gen_name n j) A.
Proof.
  induction f as [|f IH]; simpl; intros A n i H j Hj; [lia|].
  destruct (smem (gen_name n i) A) eqn:E; [|discriminate].
  destruct (Nat.eq_dec j i) as [->|Hne].
  - apply smem_spec. assumption.
  - apply (IH _ _ _ H). lia.
Qed.

Lemma NoDup_gen_names : forall n len i, NoDup (map (gen_name n) (seq i len)).
Proof.
  intros n len. induction len as [|len IH]; intro i; simpl; constructor.
  - intro H. apply in_map_iff in H. destruct H as [j [E Hj]]. apply gen_name_inj in E.
    apply in_seq in Hj. lia.
  - apply IH.
Qed.

(* the while loop terminates within |assigned| + 1 iterations: |assigned| + 1 distinct candidates cannot all
   be members of the set *)
Lemma find_index_total : forall A n i, exists k, find_index (S (List.length A)) A n i = Some k.
Proof.
  intros A n i. destruct (find_index (S (List.length A)) A n i) as [k|] eqn:E; [eauto|].
  exfalso.
  assert (Hincl : incl (map (gen_name n) (seq i (S (List.length A)))) A).
  { intros x Hx. apply in_map_iff in Hx. destruct Hx as [j [<- Hj]]. apply in_seq in Hj.
    apply (find_index_none _ _ _ _ E). lia. }
  pose proof (NoDup_incl_length (NoDup_gen_names n (S (List.length A)) i) Hincl) as H.
  rewrite map_length, seq_length in H. lia.
Qed.

(* _add_name always returns a name that was not in the set, and adds exactly it *)
Lemma add_name_fresh : forall A n,
  exists n', add_name A n = Some (n', n' :: A) /\ ~ In n' A.
Proof.
  intros A n. unfold add_name. destruct (smem n A) eqn:E1.
  - destruct (find_index_total A n (List.length A)) as [k Hk]. rewrite Hk.
    eexists. split; [reflexivity|]. apply (find_index_some _ _ _ _ _ Hk).
  - exists n. split; [reflexivity|]. apply (memb_false String.eqb String.eqb_eq). assumption.
Qed.

(* the name is kept when it is free *)
Lemma add_name_keeps : forall A n, ~ In n A -> add_name A n = Some (n, n :: A).
Proof.
  intros A n H. unfold add_name. apply (memb_false String.eqb String.eqb_eq) in H.
  unfold smem. rewrite H. reflexivity.
Qed.

Lemma assign_names_unique : forall ns A, NoDup A ->
  exists out fin, assign_names A ns = Some (out, fin) /\
  NoDup out /\ (forall x, In x out -> ~ In x A) /\ NoDup fin /\
  List.length out = List.length ns /\ (forall x, In x fin <-> In x out \/ In x A).
Proof.
  induction ns as [|n ns IH]; intros A Hnd; simpl.
  - exists [], A. repeat split; try assumption; try constructor; simpl; tauto.
  - destruct (add_name_fresh A n) as [n' [E1 F1]]. rewrite E1.
    assert (F3 : NoDup (n' :: A)) by (constructor; assumption).
    destruct (IH _ F3) as [out [fin [E2 [G1 [G2 [G3 [G4 G5]]]]]]]. rewrite E2.
    exists (n' :: out), fin. split; [reflexivity|].
    split; [|split; [|split; [|split]]].
    + constructor; [|assumption]. intro Hin. apply (G2 _ Hin). left. reflexivity.
    + intros x [Hx|Hx] HA.
      * subst. contradiction.
      * apply (G2 _ Hx). right. assumption.
    + assumption.
    + simpl. rewrite G4. reflexivity.
    + intro x. rewrite G5. simpl. split; intros [Hx|Hx]; auto.
      * destruct Hx; auto.
      * destruct Hx; auto.
Qed.

(* GenEqNirSafe.v — the translated Netlist.check_comb_cycles (Gen/NirGen.v) raises NO exception other than
   CombinationalCycle on a well-formed netlist: with GenEqNir.gen_check_comb_cycles_eq it then ends exactly like the
   model.  Well-formed = what the emitter guarantees: cell outputs are not the constant nets and are listed once,
   signals hold late / constant / cell-output nets, every late net is connected, every edge stays inside the netlist,
   and every cell's comb_edges_to / width are defined on its own output bits. *)
From Coq Require Import String ZArith List Bool Arith Lia.
From V.Model Require Import Nir.
From V.Proofs Require Import BitsP NirP GenEqNir.
From V.Gen Require NirGen.
Import ListNotations.
Open Scope Z_scope.

Lemma for_loop_ne {A S} (Inv : S -> Prop) (body : A -> S -> G.result (bool * S)) :
  forall it,
  (forall x s, In x it -> Inv s -> body x s <> G.Error /\ (forall b s', body x s = G.Ok (b, s') -> Inv s')) ->
  forall s, Inv s -> G.for_loop it body s <> G.Error /\ (forall s', G.for_loop it body s = G.Ok s' -> Inv s').
Proof.
  induction it as [|x it IH]; intros H s I0.
  - rewrite for_loop_nil. split; [discriminate|]. intros s' E; inversion E; subst; assumption.
  - rewrite for_loop_cons. destruct (H x s (or_introl eq_refl) I0) as [Hne Hpost].
    destruct (body x s) as [[b s1]|p| |] eqn:E; try congruence.
    + specialize (Hpost b s1 eq_refl). destruct b.
      * apply IH; [intros; apply H; [now right|assumption]|assumption].
      * split; [discriminate|]. intros s' E'; inversion E'; subst; assumption.
    + split; discriminate.
    + split; discriminate.
Qed.

Section NoError.
Variable cells : list G.pycell.
Variable conn : list (nat * net).
Variable signals : list (Z * list net).
Hypothesis cells_ok : Forall py_ok cells.
Let g : netlist := Netlist (map alpha cells) conn (map snd signals).
Let pconn : list (net * net) := map (fun p : nat * net => (NL (fst p), snd p)) conn.
Hypothesis Wst : wf_struct g = true.
Hypothesis Cl : closed_nets g.
Hypothesis Hpy : forall c cell b, nth_error cells c = Some cell -> In (NC c b) (outputs (alpha cell) c) ->
  has_edges cell = true /\ edges_defined cell b = true /\ width_defined cell = true.

Definition rel (ck bs : list net) (st : dfs) : Prop :=
  (forall x, In x ck <-> In x (checked st)) /\ (forall x, In x bs <-> In x (busy st)) /\ pre g st.

Lemma call_facts f n ck bs st : rel ck bs st -> In n (all_nets g) ->
  forall ck' bs' t, G.traverse cells pconn signals f n ck bs = G.Ok (ck', bs', t) ->
  exists st', rel ck' bs' st' /\ (forall x, In x (busy st') <-> In x (busy st)) /\
              (forall c, t = Some c -> In (G.Cycle_start c) (busy st)).
Proof.
  intros (Hc & Hb & P) Hn ck' bs' t E.
  destruct (traverse_sim cells conn signals cells_ok f n ck bs st Hc Hb) as [Er|S];
    [fold g in Er; fold pconn in Er; congruence|].
  fold g in S. fold pconn in S. rewrite E in S.
  destruct (traverse g f n st) as [st' c'|p'|] eqn:Em; try contradiction.
  destruct S as (Hc' & Hb' & Hcy).
  pose proof (traverse_safe g Wst Cl f n st Hn P) as Sf. rewrite Em in Sf. destruct Sf as [P' Eb].
  pose proof (traverse_busy g f n st) as Bz. rewrite Em in Bz. destruct Bz as [_ Bz].
  exists st'. split; [split; [|split]; assumption|]. split; [exact Eb|].
  intros c ->. cbn [cyc_of] in Hcy. eapply Bz. symmetry. exact Hcy.
Qed.

Definition good (f : nat) : Prop := forall n ck bs st, rel ck bs st -> In n (all_nets g) ->
  G.traverse cells pconn signals f n ck bs <> G.Error.

Lemma cleanup_ok trav n ck0 bs0 cy ex0 : forall ex ck bs, NoDup ex -> (forall e, In e ex -> In e bs) ->
  G.for_loop ex (G.traverse_body3 trav cells pconn signals n ck0 bs0 cy ex0) (ck, bs) <> G.Error.
Proof.
  induction ex as [|e ex IH]; intros ck bs N H; [rewrite for_loop_nil; discriminate|].
  rewrite for_loop_cons. unfold G.traverse_body3 at 1. unfold G.set_remove, G.set_add.
  assert (nmem e bs = true) as -> by (apply nmem_In; apply H; now left). cbn [G.bind].
  inversion N; subst. apply IH; [assumption|]. intros e' He'. apply remove_net_In.
  split; [apply H; now right|]. intro; subst; contradiction.
Qed.

Lemma k1_ne trav n ck bs cy ex : In n bs -> NoDup ex -> (forall e, In e ex -> In e bs /\ e <> n) ->
  G.traverse_k1 trav cells pconn signals n ck bs cy ex <> G.Error.
Proof.
  intros Hn N H.
  assert (K2 : G.traverse_k2 trav cells pconn signals n ck bs cy ex <> G.Error).
  { unfold G.traverse_k2, G.set_remove, G.set_add. rewrite (proj2 (nmem_In n bs) Hn). cbn [G.bind].
    pose proof (cleanup_ok trav n (ck ++ [n]) (remove_net n bs) cy ex ex (ck ++ [n]) (remove_net n bs) N) as C.
    lapply C; [clear C; intro C|intros e He; apply remove_net_In; apply H; exact He].
    destruct (G.for_loop ex _ _) as [[ck2 bs2]|p| |]; cbn [G.bind]; congruence. }
  unfold G.traverse_k1. destruct cy as [c|]; [|exact K2].
  destruct (net_eqb (G.Cycle_start c) n || nmem (G.Cycle_start c) ex); [discriminate|exact K2].
Qed.

Lemma extras_ok trav n ck0 bs0 cy0 ex0 cell : forall ex bs, (forall e, In e ex -> ~ In e ck0) ->
  G.for_loop ex (G.traverse_body6 trav cells pconn signals n ck0 bs0 cy0 ex0 cell) bs = G.Ok (bs ++ ex).
Proof.
  induction ex as [|e ex IH]; intros bs H.
  - now rewrite for_loop_nil, app_nil_r.
  - rewrite for_loop_cons. unfold G.traverse_body6 at 1. unfold G.set_add.
    assert (nmem e ck0 = false) as -> by (apply nmem_false; apply H; now left). cbn [negb].
    rewrite IH by (intros; apply H; now right). now rewrite <- app_assoc.
Qed.

(* the edge loop: every state it goes through is related to a model state whose busy set is B *)
Lemma edges_ne f n ck0 bs0 cy0 ex0 cell B : good f ->
  forall es ck bs cy, (forall s, In s es -> In s (all_nets g)) ->
  (exists st, rel ck bs st /\ (forall x, In x (busy st) <-> In x B)) ->
  let r := G.for_loop es (G.traverse_body5 (G.traverse cells pconn signals f) cells pconn signals n ck0 bs0 cy0 ex0 cell)
                      (ck, bs, cy) in
  r <> G.Error /\ forall ck2 bs2 cy2, r = G.Ok (ck2, bs2, cy2) ->
                  exists st, rel ck2 bs2 st /\ (forall x, In x (busy st) <-> In x B).
Proof.
  intros Gf es ck bs cy Hes I0 r. subst r.
  pose proof (for_loop_ne
    (fun s : list net * list net * option G.Cycle =>
       let '(ck, bs, _) := s in exists st, rel ck bs st /\ (forall x, In x (busy st) <-> In x B))
    (G.traverse_body5 (G.traverse cells pconn signals f) cells pconn signals n ck0 bs0 cy0 ex0 cell) es) as L.
  lapply L; [clear L; intro L|].
  - destruct (L (ck, bs, cy) I0) as [L1 L2]. split; [exact L1|]. intros ck2 bs2 cy2 E. exact (L2 _ E).
  - intros src [[ck1 bs1] cy1] Hsrc (st1 & R1 & E1). unfold G.traverse_body5.
    pose proof (Gf src ck1 bs1 st1 R1 (Hes src Hsrc)) as Hne.
    pose proof (call_facts f src ck1 bs1 st1 R1 (Hes src Hsrc)) as CF.
    destruct (G.traverse cells pconn signals f src ck1 bs1) as [[[ck' bs'] t]|p| |]; cbn [G.bind]; try congruence.
    + destruct (CF ck' bs' t eq_refl) as (st' & R' & Eb & _).
      assert (exists st, rel ck' bs' st /\ (forall x, In x (busy st) <-> In x B)) as I'
        by (exists st'; split; [exact R'|intro x; rewrite (Eb x); apply E1]).
      destruct t as [c|]; (split; [discriminate|]); intros b s' E; inversion E; subst; exact I'.
    + split; discriminate.
    + split; discriminate.
Qed.

Lemma step f : good f -> good (S f).
Proof.
  intros Gf n ck bs st R Hn. pose proof R as (Hc & Hb & P).
  cbn [G.traverse].
  assert (nmem n ck = nmem n (checked st)) as -> by (apply seteq_nmem; exact Hc).
  assert (nmem n bs = nmem n (busy st)) as -> by (apply seteq_nmem; exact Hb).
  destruct (nmem n (checked st)) eqn:Ck; [discriminate|].
  destruct (nmem n (busy st)) eqn:Bk; [discriminate|].
  apply nmem_false in Ck, Bk. unfold G.set_add.
  pose proof (valid_nets g Wst n Hn) as V.
  destruct (is_const n) eqn:Cn.
  { apply k1_ne; [apply in_or_app; right; now left|constructor|intros e []]. }
  destruct n as [c b|l]; cbn [G.net_is_late].
  - (* cell output *)
    unfold G.net_cell, G.net_bit. rewrite Cn. cbn [G.bind].
    pose proof V as Vn. destruct V as [V|V]; [congruence|].
    apply cell_roots_inv in V as (c2 & cl & Ec & Ho). cbn [Nat.add] in Ho.
    destruct (outputs_cell _ _ _ Ho) as [b2 E2]. inversion E2; subst c2 b2. clear E2.
    cbn [Nir.cells g] in Ec. rewrite nth_error_map in Ec.
    rewrite py_index_nat. destruct (nth_error cells c) as [cell|] eqn:Ecell; [|discriminate].
    cbn [option_map] in Ec. inversion Ec; subst cl. clear Ec. cbn [G.bind].
    assert (py_ok cell) as OKc by (eapply Forall_forall; [exact cells_ok|eapply nth_error_In; exact Ecell]).
    destruct (Hpy c cell b Ecell Ho) as (He & Hd & Hw).
    rewrite gen_comb_edges_is_per_bit_eq, He. cbn [G.bind].
    assert (Ex : extras g (NC c b) =
                 if per_bit (alpha cell) then [] else filter (fun e => negb (net_eqb e (NC c b))) (outputs (alpha cell) c)).
    { unfold extras. rewrite Cn. cbn [Nir.cells g]. rewrite nth_error_map, Ecell. reflexivity. }
    assert (K4 : forall bs1, (forall x, In x bs1 <-> In x (extras g (NC c b) ++ NC c b :: busy st)) ->
                 G.traverse_k4 (G.traverse cells pconn signals f) cells pconn signals (NC c b) ck bs1 None
                               (extras g (NC c b)) cell <> G.Error).
    { intros bs1 Hb1. unfold G.traverse_k4, G.net_bit. rewrite Cn. cbn [G.bind].
      rewrite gen_comb_edges_to_eq by exact OKc. rewrite Hd. cbn [G.bind].
      set (st1 := Dfs (checked st) (extras g (NC c b) ++ NC c b :: busy st)).
      assert (R1 : rel ck bs1 st1).
      { split; [exact Hc|]. split; [exact Hb1|]. destruct P as [Pc Pb]. split; [exact Pc|].
        apply (cc_add g); [exact Vn|exact Pb|intro; tauto]. }
      destruct (edges_ne f (NC c b) ck bs1 None (extras g (NC c b)) cell (busy st1) Gf
                  (comb_edges (alpha cell) b) ck bs1 None) as [L1 L2].
      { intros s Hs. apply (Cl (NC c b) s Hn). unfold edge, succs. rewrite Cn. cbn [Nir.cells g].
        rewrite nth_error_map, Ecell. exact Hs. }
      { exists st1. split; [exact R1|intro; tauto]. }
      destruct (G.for_loop (comb_edges (alpha cell) b) _ _) as [[[ck2 bs2] cy2]|p| |]; cbn [G.bind]; try congruence.
      destruct (L2 ck2 bs2 cy2 eq_refl) as (st2 & (Hc2 & Hb2 & P2) & E2).
      destruct (extras_nodup g Wst (NC c b)) as [Nx Nn].
      apply k1_ne; [apply Hb2, E2; cbn [busy st1]; apply in_or_app; right; now left|exact Nx|].
      intros e He0. split; [apply Hb2, E2; cbn [busy st1]; apply in_or_app; now left|intro; subst; contradiction]. }
    destruct (per_bit (alpha cell)) eqn:Pb; cbn [negb].
    + rewrite Ex in K4. apply K4. intro x. cbn [app In]. rewrite in_app_iff. cbn [In]. rewrite (Hb x). tauto.
    + rewrite gen_output_nets_eq by exact OKc. rewrite Hw. cbn [G.bind].
      rewrite <- Ex.
      rewrite extras_ok.
      * cbn [G.bind]. apply K4. intro x. rewrite !in_app_iff. cbn [In]. rewrite (Hb x). tauto.
      * intros e He0 Hin. apply Hc in Hin. destruct P as [Pc _].
        exact (cc_not_in g Wst (NC c b) (checked st) e Vn Pc Ck He0 Hin).
  - (* late net *)
    pose proof (dict_get_conn cells conn signals l) as DG. fold pconn in DG. fold g in DG. rewrite DG. clear DG.
    assert (exists src, conn_of g l = [src]) as [src El].
    { unfold wf_struct in Wst. apply andb_true_iff in Wst as [_ W4]. rewrite forallb_forall in W4.
      specialize (W4 _ Hn). cbn in W4. unfold conn_of in *. destruct (find _ _) as [p|]; [eauto|discriminate]. }
    rewrite El. cbn [G.bind].
    set (st1 := Dfs (checked st) (NL l :: busy st)).
    assert (R1 : rel ck (bs ++ [NL l]) st1).
    { split; [exact Hc|]. split; [intro x; rewrite in_app_iff; cbn [In busy st1]; rewrite (Hb x); tauto|].
      destruct P as [Pc Pb]. split; [exact Pc|]. intros x y Hx Hy. cbn [busy st1] in *.
      destruct Hx as [<-|Hx]; [destruct Hy|right; eapply Pb; eassumption]. }
    assert (Hsrc : In src (all_nets g)).
    { apply (Cl (NL l) src Hn). unfold edge, succs. cbn [is_const]. rewrite El. now left. }
    pose proof (Gf src ck (bs ++ [NL l]) st1 R1 Hsrc) as Hne.
    pose proof (call_facts f src ck (bs ++ [NL l]) st1 R1 Hsrc) as CF.
    destruct (G.traverse cells pconn signals f src ck (bs ++ [NL l])) as [[[ck' bs'] t]|p| |]; cbn [G.bind]; try congruence.
    destruct (CF ck' bs' t eq_refl) as (st' & (Hc' & Hb' & P') & Eb & _).
    assert (In (NL l) bs') by (apply Hb', Eb; cbn [busy st1]; now left).
    destruct t as [cy|]; (apply k1_ne; [assumption|constructor|intros e []]).
Qed.

Lemma traverse_ne : forall f, good f.
Proof. induction f as [|f IH]; [intros n ck bs st _ _; discriminate|now apply step]. Qed.

(* ---- the root loops: `for net in ...: assert traverse(net) is None` ---- *)
Hypothesis Hwd : forall cell, In cell cells -> width_defined cell = true.
Variable fuel : nat.

Definition inv2 (s : list net * list net) : Prop :=
  let '(ck, bs) := s in exists st, rel ck bs st /\ (forall x, ~ In x (busy st)).

Lemma root_call net ck bs : In net (all_nets g) -> inv2 (ck, bs) ->
  let r := G.bind (G.traverse cells pconn signals fuel net ck bs)
                  (fun '(ck, bs, t) => if negb (G.is_some t) then G.Ok (true, (ck, bs)) else G.Error) in
  r <> G.Error /\ (forall b s', r = G.Ok (b, s') -> inv2 s').
Proof.
  intros Hn (st & R & Eb) r. subst r.
  pose proof (traverse_ne fuel net ck bs st R Hn) as Hne.
  pose proof (call_facts fuel net ck bs st R Hn) as CF.
  destruct (G.traverse cells pconn signals fuel net ck bs) as [[[ck' bs'] t]|p| |]; cbn [G.bind]; try congruence.
  - destruct (CF ck' bs' t eq_refl) as (st' & R' & Eb' & Hcy).
    destruct t as [c|]; cbn [G.is_some negb].
    + exfalso. exact (Eb _ (Hcy c eq_refl)).
    + split; [discriminate|]. intros b s' E. inversion E; subst. exists st'. split; [exact R'|].
      intros x Hx. apply Eb' in Hx. exact (Eb x Hx).
  - split; discriminate.
  - split; discriminate.
Qed.

Lemma roots_ne (B : net -> list net * list net -> G.result (bool * (list net * list net))) :
  (forall net ck bs, B net (ck, bs) =
     G.bind (G.traverse cells pconn signals fuel net ck bs)
            (fun '(ck, bs, t) => if negb (G.is_some t) then G.Ok (true, (ck, bs)) else G.Error)) ->
  forall ns s, (forall n, In n ns -> In n (all_nets g)) -> inv2 s ->
  G.for_loop ns B s <> G.Error /\ (forall s', G.for_loop ns B s = G.Ok s' -> inv2 s').
Proof.
  intros HB ns s Hns I0. apply (for_loop_ne inv2 B ns); [|exact I0].
  intros net [ck bs] Hin I1. rewrite HB. exact (root_call net ck bs (Hns net Hin) I1).
Qed.

Lemma enum_nth {A} : forall (cs : list A) k i c,
  In (i, c) (combine (map Z.of_nat (seq k (length cs))) cs) -> exists j, i = Z.of_nat (k + j) /\ nth_error cs j = Some c.
Proof.
  induction cs as [|c0 cs IH]; intros k i c H; [contradiction|].
  cbn [length seq map combine In] in H. destruct H as [H|H].
  - inversion H; subst. exists 0%nat. rewrite Nat.add_0_r. auto.
  - destruct (IH _ _ _ H) as (j & H1 & H2). exists (S j). split; [rewrite H1; f_equal; lia|exact H2].
Qed.

Theorem check_ne : G.check_comb_cycles cells pconn signals fuel <> G.Error.
Proof.
  unfold G.check_comb_cycles.
  assert (I0 : inv2 ([], [])).
  { exists (Dfs [] []). split; [|intros x []]. split; [intro; tauto|]. split; [intro; tauto|].
    split; intros x y []. }
  match goal with |- context [G.for_loop (G.py_enumerate cells) ?Bo _] =>
    pose proof (for_loop_ne inv2 Bo (G.py_enumerate cells)) as L1 end.
  lapply L1; [clear L1; intro L1|].
  2:{ intros [i c] [ck bs] Hin I1. unfold G.py_enumerate in Hin. destruct (enum_nth _ _ _ _ Hin) as (j & -> & Hj).
      cbn [Nat.add] in *. unfold G.check_comb_cycles_body1.
      assert (py_ok c) as OKc by (eapply Forall_forall; [exact cells_ok|eapply nth_error_In; exact Hj]).
      rewrite gen_output_nets_eq by exact OKc. rewrite (Hwd c (nth_error_In _ _ Hj)). cbn [G.bind].
      match goal with |- context [G.for_loop ?ns ?B _] => pose proof (roots_ne B ltac:(intros; reflexivity) ns (ck, bs)) as R end.
      lapply R; [clear R; intro R|].
      - destruct (R I1) as [R1 R2].
        destruct (G.for_loop _ _ (ck, bs)) as [[ck1 bs1]|p| |]; cbn [G.bind]; try congruence.
        + split; [discriminate|]. intros b s' E. inversion E; subst. exact (R2 _ eq_refl).
        + split; discriminate.
        + split; discriminate.
      - intros n Hn0. right. right. unfold roots. apply in_or_app. left.
        eapply (cell_roots_nth _ 0); [cbn [Nir.cells g]; rewrite nth_error_map, Hj; reflexivity|exact Hn0]. }
  destruct (L1 ([], []) I0) as [L1a L1b].
  destruct (G.for_loop (G.py_enumerate cells) _ _) as [[ck1 bs1]|p| |]; cbn [G.bind]; try congruence; try discriminate.
  specialize (L1b _ eq_refl).
  match goal with |- context [G.for_loop (G.dict_values signals) ?Bo _] =>
    pose proof (for_loop_ne inv2 Bo (G.dict_values signals)) as L2 end.
  lapply L2; [clear L2; intro L2|].
  2:{ intros v [ck bs] Hin I1. unfold G.check_comb_cycles_body3.
      match goal with |- context [G.for_loop ?ns ?B _] => pose proof (roots_ne B ltac:(intros; reflexivity) ns (ck, bs)) as R end.
      lapply R; [clear R; intro R|].
      - destruct (R I1) as [R1 R2].
        destruct (G.for_loop _ _ (ck, bs)) as [[ck2 bs2]|p| |]; cbn [G.bind]; try congruence.
        + split; [discriminate|]. intros b s' E. inversion E; subst. exact (R2 _ eq_refl).
        + split; discriminate.
        + split; discriminate.
      - intros n Hn0. right. right. unfold roots. apply in_or_app. right. cbn [Nir.sigs g].
        apply in_concat. exists v. split; [exact Hin|exact Hn0]. }
  destruct (L2 (ck1, bs1) L1b) as [L2a _].
  destruct (G.for_loop (G.dict_values signals) _ _) as [[ck2 bs2]|p| |]; cbn [G.bind]; congruence || discriminate.
Qed.
End NoError.

(* what must be defined on a Python cell for its own output bits *)
Definition cell_defined (c : nat) (cell : G.pycell) : bool :=
  width_defined cell &&
  forallb (fun n => match n with NC _ b => has_edges cell && edges_defined cell b | NL _ => true end)
          (outputs (alpha cell) c).
Definition cells_defined (cells : list G.pycell) : bool :=
  forallb (fun ic => cell_defined (fst ic) (snd ic)) (combine (seq 0 (length cells)) cells).

Lemma combine_seq_nth {A} : forall (cs : list A) k j c, nth_error cs j = Some c -> In ((k + j)%nat, c) (combine (seq k (length cs)) cs).
Proof.
  induction cs as [|c0 cs IH]; intros k j c H; [destruct j; discriminate|]. destruct j as [|j]; cbn in *.
  - inversion H; subst. left. now rewrite Nat.add_0_r.
  - right. replace (k + S j)%nat with (S k + j)%nat by lia. now apply IH.
Qed.

(* Netlist.check_comb_cycles as regenerated from the source, on a WELL-FORMED Python netlist: it ends exactly like the
   model's check_cycles — returns, or raises CombinationalCycle with the model's path; no other exception *)
Theorem gen_check_comb_cycles_wf cells conn signals : Forall py_ok cells ->
  let g := Netlist (map alpha cells) conn (map snd signals) in
  wf_struct g = true -> wf_netlist g = true -> cells_defined cells = true ->
  let r := G.check_comb_cycles cells (map (fun p => (NL (fst p), snd p)) conn) signals (S (length (all_nets g))) in
  r = result_of_verdict (check_cycles g) /\ r <> G.Error /\ r <> G.Fuel.
Proof.
  intros OK g Ws Wn Cd r.
  assert (Hcell : forall c cell, nth_error cells c = Some cell -> cell_defined c cell = true).
  { intros c cell H. unfold cells_defined in Cd. rewrite forallb_forall in Cd.
    exact (Cd (c, cell) (combine_seq_nth cells 0 c cell H)). }
  assert (NE : r <> G.Error).
  { apply (check_ne cells conn signals OK Ws (wf_netlist_closed g Wn)).
    - intros c cell b H Ho. specialize (Hcell c cell H). unfold cell_defined in Hcell.
      apply andb_true_iff in Hcell as [Hw Hf]. rewrite forallb_forall in Hf. specialize (Hf _ Ho). cbn in Hf.
      apply andb_true_iff in Hf as [H1 H2]. auto.
    - intros cell Hin. apply In_nth_error in Hin as [c Hc]. specialize (Hcell c cell Hc).
      unfold cell_defined in Hcell. now apply andb_true_iff in Hcell as [Hw _]. }
  destruct (gen_check_comb_cycles_eq cells conn signals OK) as [E|E]; [contradiction|].
  fold g in E. fold r in E. split; [exact E|]. split; [exact NE|].
  rewrite E. pose proof (dfs_fuel g Wn) as F. destruct (check_cycles g); cbn; congruence || discriminate.
Qed.

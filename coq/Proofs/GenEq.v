(* GenEq.v — the definitions regenerated from /repo by the translator (coq/Gen/*.v) are equal to
   the hand models.  A change in the translated source that is not semantics-preserving breaks
   one of these lemmas. *)
From Coq Require Import ZArith List Bool Lia ZifyBool String.
From V.Model Require Import Bits Shape.
From V.Proofs Require Import BitsP.
From V.Gen Require Utils ShapeGen.
Import ListNotations.
Open Scope Z_scope.

Ltac case_ifs :=
  repeat match goal with
  | |- context [if ?b then _ else _] => destruct b eqn:?
  end.

Ltac gen_eq := intros; cbv beta delta [
    Utils.ceil_log2 Utils.exact_log2 Utils.bits_for Shape.ceil_log2 Shape.exact_log2 Shape.bits_for
    ShapeGen.cast_range Shape.cast_range ShapeGen.enum_step Shape.enum_step
  ] zeta; case_ifs; try reflexivity; try discriminate; try lia;
  try (f_equal; first [lia | f_equal; lia]).

Lemma ceil_log2_eq n : Utils.ceil_log2 n = Shape.ceil_log2 n.
Proof. gen_eq. Qed.

Lemma exact_log2_eq n : Utils.exact_log2 n = Shape.exact_log2 n.
Proof. gen_eq. Qed.

Lemma bits_for_eq n r : Utils.bits_for n r = Some (Shape.bits_for n r).
Proof.
  unfold Utils.bits_for, Shape.bits_for. cbv zeta.
  destruct (0 <? n) eqn:E; rewrite ceil_log2_eq; unfold Shape.ceil_log2.
  - replace (n + 1 <? 0) with false by lia. replace (n + 1 =? 0) with false by lia.
    replace (n + 1 - 1) with n by lia. destruct r; simpl; repeat f_equal; lia.
  - replace (- n <? 0) with false by lia. replace (- n =? 0) with (n =? 0) by lia.
    destruct (n =? 0); reflexivity.
Qed.

Lemma unify_eq l : ShapeGen.unify l = Some (Shape.unify l).
Proof.
  unfold ShapeGen.unify, Shape.unify. cbv zeta.
  assert (H : forall l hs sw uw,
    fold_left (fun '(has_signed, signed_width, unsigned_width) shape =>
      if Bits.sgn shape then (true, Z.max signed_width (Bits.width shape), unsigned_width)
      else (has_signed, signed_width, Z.max unsigned_width (Bits.width shape))) l (hs, sw, uw)
    = (let '(uw', sw', hs') := fold_left unify_acc l (uw, sw, hs) in (hs', sw', uw'))).
  { clear l. induction l as [|s l IH]; intros hs sw uw; simpl; [reflexivity|].
    destruct (Bits.sgn s); apply IH. }
  rewrite H. destruct (fold_left unify_acc l (0, 0, false)) as [[uw sw] hs].
  destruct hs; reflexivity.
Qed.

Lemma cast_range_eq a b st : ShapeGen.cast_range a b st = Some (Shape.cast_range a b st).
Proof.
  unfold ShapeGen.cast_range, Shape.cast_range. cbv zeta. rewrite !bits_for_eq.
  destruct (range_len a b st =? 0); [reflexivity|].
  set (last := range_nth a st (range_len a b st - 1)).
  replace (range_nth a st 0) with a by (unfold range_nth; lia).
  destruct ((a =? last) && (last =? 0)) eqn:E1, ((a =? 0) && (last =? 0)) eqn:E2; try reflexivity; lia.
Qed.

Lemma enum_step_eq acc m : ShapeGen.enum_step (Bits.width acc) (Bits.sgn acc) m = Some (Shape.enum_step acc m).
Proof.
  unfold ShapeGen.enum_step, Shape.enum_step. cbv zeta.
  destruct (Bits.sgn acc), (Bits.sgn m); simpl; reflexivity.
Qed.

Lemma land1_odd x : negb (Z.land x 1 =? 0) = Z.odd x.
Proof.
  change 1 with (Z.ones 1). rewrite Z.land_ones by lia. rewrite <- Z.bit0_odd, Z.bit0_eqb.
  change (2 ^ 1) with 2. pose proof (Z.mod_pos_bound x 2 ltac:(lia)). lia.
Qed.

Lemma const_wrap_eq v s : ShapeGen.const_wrap v s = Some (Shape.const_norm s v).
Proof.
  unfold ShapeGen.const_wrap, Shape.const_norm. cbv zeta. rewrite land1_odd.
  destruct (Bits.sgn s && Z.odd (Z.shiftr v (Bits.width s - 1))); reflexivity.
Qed.

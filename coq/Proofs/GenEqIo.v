(* GenEqIo.v — the definitions regenerated from amaranth/lib/io.py (Gen/IoGen.v, translator/unit_io.py) equal the
   hand-written model Model/Io.v on all inputs. *)
From Coq Require Import ZArith List Bool Lia.
From V.Model Require Import Bits Io.
From V.Gen Require Import IoGen.
Import ListNotations.
Open Scope Z_scope.

Lemma zlen_eqb {A B} (a : list A) (b : list B) : Z.eqb (zlen a) (zlen b) = Nat.eqb (length a) (length b).
Proof.
  unfold zlen. destruct (Nat.eqb_spec (length a) (length b)) as [E|E].
  - rewrite E. apply Z.eqb_refl.
  - apply Z.eqb_neq. lia.
Qed.

Lemma zlen_eqb_nat {A} (a : list A) (w : nat) : Z.eqb (zlen a) (Z.of_nat w) = Nat.eqb (length a) w.
Proof.
  unfold zlen. destruct (Nat.eqb_spec (length a) w) as [E|E].
  - rewrite E. apply Z.eqb_refl.
  - apply Z.eqb_neq. lia.
Qed.

Lemma to_nat_zlen {A} (a : list A) : Z.to_nat (zlen a) = length a.
Proof. unfold zlen. apply Nat2Z.id. Qed.

Lemma bind_ok {A} (r : res A) : bind r (fun x => Ok x) = r.
Proof. destruct r; reflexivity. Qed.

(* ------------------------------------------------------------------ Direction *)
Lemma gen_dir_and_eq a b : g_dir_and a b = dir_and a b.
Proof. destruct a, b; reflexivity. Qed.

(* ------------------------------------------------------------------ constructors *)
Lemma gen_single_dflt_direction_eq : g_single_dflt_direction = norm_dir None.
Proof. reflexivity. Qed.
Lemma gen_diff_dflt_direction_eq : g_diff_dflt_direction = norm_dir None.
Proof. reflexivity. Qed.

Lemma gen_single_init_eq io inv d :
  g_single_init io inv d = mk_single io (norm_inv (length io) inv) d.
Proof.
  unfold g_single_init, mk_single. destruct inv as [|b|l]; cbn [norm_inv].
  - rewrite to_nat_zlen, repeat_length, Nat.eqb_refl. reflexivity.
  - rewrite to_nat_zlen, repeat_length, Nat.eqb_refl. reflexivity.
  - rewrite zlen_eqb. destruct (Nat.eqb (length l) (length io)); reflexivity.
Qed.

Lemma gen_diff_init_eq p n inv d :
  g_diff_init p n inv d = mk_diff p n (norm_inv (length p) inv) d.
Proof.
  unfold g_diff_init, mk_diff. rewrite zlen_eqb.
  destruct (Nat.eqb (length p) (length n)); cbn [negb]; [|reflexivity].
  destruct inv as [|b|l]; cbn [norm_inv].
  - rewrite to_nat_zlen, repeat_length, Nat.eqb_refl. reflexivity.
  - rewrite to_nat_zlen, repeat_length, Nat.eqb_refl. reflexivity.
  - rewrite zlen_eqb. destruct (Nat.eqb (length l) (length p)); reflexivity.
Qed.

(* width: the source checks `isinstance(width, int) and width >= 0` (TypeError otherwise), the model takes a nat *)
Lemma gen_sim_init_eq b d (w : nat) inv :
  g_sim_init b d (Z.of_nat w) inv = mk_sim b d w (norm_inv w inv).
Proof.
  unfold g_sim_init, mk_sim. rewrite Nat2Z.id. destruct inv as [|x|l]; cbn [norm_inv].
  - rewrite repeat_length, Nat.eqb_refl. reflexivity.
  - rewrite repeat_length, Nat.eqb_refl. reflexivity.
  - rewrite zlen_eqb_nat. destruct (Nat.eqb (length l) w); reflexivity.
Qed.

(* ------------------------------------------------------------------ __len__ *)
Lemma gen_port_len_eq p : g_port_len p = Ok (plen p).
Proof.
  unfold g_port_len, g_single_len, g_diff_len, g_sim_len, plen.
  destruct (p_kind p); try reflexivity. destruct (p_dir p); reflexivity.
Qed.

(* ------------------------------------------------------------------ __invert__ *)
Lemma gen_port_invert_eq p : g_port_invert p = port_invert p.
Proof.
  unfold g_port_invert, port_invert, g_single_invert, g_diff_invert, g_sim_invert.
  destruct (p_kind p).
  - reflexivity.
  - rewrite gen_single_init_eq. reflexivity.
  - rewrite gen_diff_init_eq. reflexivity.
Qed.

(* ------------------------------------------------------------------ __getitem__ *)
Lemma bind_ext {A B} (r : res A) (f g : A -> res B) : (forall x, f x = g x) -> bind r f = bind r g.
Proof. intros H. destruct r; cbn; auto. Qed.

Lemma gen_port_index_eq p i : g_port_index p i = port_index p i.
Proof.
  unfold g_port_index, port_index, g_single_getitem_int, g_diff_getitem_int, g_sim_getitem_int.
  destruct (p_kind p).
  - reflexivity.
  - apply bind_ext; intros r. apply bind_ext; intros b. rewrite gen_single_init_eq. reflexivity.
  - apply bind_ext; intros r. apply bind_ext; intros nr. apply bind_ext; intros b.
    rewrite gen_diff_init_eq. reflexivity.
Qed.

Lemma gen_port_slice_eq p k : g_port_slice p k = port_slice p k.
Proof.
  unfold g_port_slice, port_slice, g_single_getitem_slice, g_diff_getitem_slice, g_sim_getitem_slice.
  destruct (p_kind p).
  - reflexivity.
  - apply bind_ext; intros r. apply bind_ext; intros b. rewrite gen_single_init_eq. reflexivity.
  - apply bind_ext; intros r. apply bind_ext; intros nr. apply bind_ext; intros b.
    rewrite gen_diff_init_eq. reflexivity.
Qed.

(* ------------------------------------------------------------------ __add__ *)
Lemma gen_port_add_eq p q : g_port_add p q = port_add p q.
Proof.
  unfold g_port_add, port_add, g_single_add, g_diff_add, g_sim_add.
  destruct (p_kind p), (p_kind q); cbn [kind_eqb negb]; try reflexivity;
    rewrite gen_dir_and_eq; apply bind_ext; intros d.
  - reflexivity.
  - rewrite gen_single_init_eq. reflexivity.
  - rewrite gen_diff_init_eq. reflexivity.
Qed.

(* whole port expressions: the evaluator that uses the regenerated operations *)
Fixpoint g_peval (env : list port) (e : pexpr) : res port :=
  match e with
  | PBase b => match nth_error env b with Some p => Ok p | None => Err EType end
  | PIdx e i => bind (g_peval env e) (fun p => g_port_index p i)
  | PSlice e k => bind (g_peval env e) (fun p => g_port_slice p k)
  | PAdd a b => bind (g_peval env a) (fun p => bind (g_peval env b) (fun q => g_port_add p q))
  | PInv e => bind (g_peval env e) g_port_invert
  end.

Lemma gen_peval_eq env e : g_peval env e = peval env e.
Proof.
  induction e as [b|e IH i|e IH k|a IHa b IHb|e IH]; cbn [g_peval peval].
  - reflexivity.
  - rewrite IH. apply bind_ext; intros p. apply gen_port_index_eq.
  - rewrite IH. apply bind_ext; intros p. apply gen_port_slice_eq.
  - rewrite IHa, IHb. apply bind_ext; intros p. apply bind_ext; intros q. apply gen_port_add_eq.
  - rewrite IH. apply bind_ext; intros p. apply gen_port_invert_eq.
Qed.

(* ------------------------------------------------------------------ Buffer.__init__ / FFBuffer.__init__ *)
Lemma gen_buffer_init_eq bd p : g_buffer_init bd p = buffer_check bd (p_dir p).
Proof. unfold g_buffer_init, buffer_check. destruct (p_dir p), bd; reflexivity. Qed.

Lemma gen_ffbuffer_init_eq bd p idom odom :
  g_ffbuffer_init bd p idom odom = ffbuffer_init bd (p_dir p) idom odom.
Proof.
  unfold g_ffbuffer_init, ffbuffer_init, ff_domains, buffer_check.
  destruct (p_dir p), bd, idom as [[]|], odom as [[]|]; reflexivity.
Qed.

(* the accept/reject decision alone, as used by the hand-written ffbuffer_check *)
Lemma gen_ffbuffer_init_check bd p idom odom :
  match g_ffbuffer_init bd p idom odom with Ok _ => Ok tt | Err e => Err e end
  = ffbuffer_check bd (p_dir p) (match idom with Some _ => true | None => false end)
                                (match odom with Some _ => true | None => false end).
Proof.
  unfold g_ffbuffer_init, ffbuffer_check, buffer_check.
  destruct (p_dir p), bd, idom as [[]|], odom as [[]|]; reflexivity.
Qed.

(* ------------------------------------------------------------------ Buffer.elaborate: the inversion constant *)
Lemma gen_buffer_invert_from inv : forall idx acc,
  fold_left Z.add (map (fun '(idx, bit) => Z.shiftl (Z.b2z bit) idx) (g_enumerate idx inv)) acc
  = acc + inv_mask_from idx inv.
Proof.
  induction inv as [|b r IH]; intros idx acc; cbn [g_enumerate map fold_left inv_mask_from].
  - lia.
  - rewrite IH. lia.
Qed.

Lemma gen_buffer_invert_eq p : g_buffer_invert p = inv_mask (p_inv p).
Proof. unfold g_buffer_invert, inv_mask. rewrite gen_buffer_invert_from. lia. Qed.

(* GenEqIo.v — the definitions regenerated from amaranth/lib/io.py (Gen/IoGen.v, translator/unit_io.py) equal the
   hand-written model Model/Io.v on all inputs. *)
From Coq Require Import ZArith List Bool Lia.
From V.Model Require Import Bits Io.
From V.Gen Require Import IoGen.
Import ListNotations.
Open Scope Z_scope.

Lemma zlen_eqb {A B} (a : list A) (b : list B) : Z.eqb (zlen a) (zlen b) = Nat.eqb (length a) (length b).
Proof.
  unfold zlen. destruct (Nat.eqb_spec (length a) (length b)) as [E|E].
  - rewrite E. apply Z.eqb_refl.
  - apply Z.eqb_neq. lia.
Qed.

Lemma zlen_eqb_nat {A} (a : list A) (w : nat) : Z.eqb (zlen a) (Z.of_nat w) = Nat.eqb (length a) w.
Proof.
  unfold zlen. destruct (Nat.eqb_spec (length a) w) as [E|E].
  - rewrite E. apply Z.eqb_refl.
  - apply Z.eqb_neq. lia.
Qed.

Lemma to_nat_zlen {A} (a : list A) : Z.to_nat (zlen a) = length a.
Proof. unfold zlen. apply Nat2Z.id. Qed.

Lemma bind_ok {A} (r : res A) : bind r (fun x => Ok x) = r.
Proof. destruct r; reflexivity. Qed.

(* ------------------------------------------------------------------ Direction *)
Lemma gen_dir_and_eq a b : g_dir_and a b = dir_and a b.
Proof. destruct a, b; reflexivity. Qed.

(* ------------------------------------------------------------------ constructors *)
Lemma gen_single_dflt_direction_eq : g_single_dflt_direction = norm_dir None.
Proof. reflexivity. Qed.
Lemma gen_diff_dflt_direction_eq : g_diff_dflt_direction = norm_dir None.
Proof. reflexivity. Qed.

Lemma gen_single_init_eq io inv d :
  g_single_init io inv d = mk_single io (norm_inv (length io) inv) d.
Proof.
  unfold g_single_init, mk_single. destruct inv as [|b|l]; cbn [norm_inv].
  - rewrite to_nat_zlen, repeat_length, Nat.eqb_refl. reflexivity.
  - rewrite to_nat_zlen, repeat_length, Nat.eqb_refl. reflexivity.
  - rewrite zlen_eqb. destruct (Nat.eqb (length l) (length io)); reflexivity.
Qed.

Lemma gen_diff_init_eq p n inv d :
  g_diff_init p n inv d = mk_diff p n (norm_inv (length p) inv) d.
Proof.
  unfold g_diff_init, mk_diff. rewrite zlen_eqb.
  destruct (Nat.eqb (length p) (length n)); cbn [negb]; [|reflexivity].
  destruct inv as [|b|l]; cbn [norm_inv].
  - rewrite to_nat_zlen, repeat_length, Nat.eqb_refl. reflexivity.
  - rewrite to_nat_zlen, repeat_length, Nat.eqb_refl. reflexivity.
  - rewrite zlen_eqb. destruct (Nat.eqb (length l) (length p)); reflexivity.
Qed.

(* width: the source checks `isinstance(width, int) and width >= 0` (TypeError otherwise), the model takes a nat *)
Lemma gen_sim_init_eq b d (w : nat) inv :
  g_sim_init b d (Z.of_nat w) inv = mk_sim b d w (norm_inv w inv).
Proof.
  unfold g_sim_init, mk_sim. rewrite Nat2Z.id. destruct inv as [|x|l]; cbn [norm_inv].
  - rewrite repeat_length, Nat.eqb_refl. reflexivity.
  - rewrite repeat_length, Nat.eqb_refl. reflexivity.
  - rewrite zlen_eqb_nat. destruct (Nat.eqb (length l) w); reflexivity.
Qed.

(* ------------------------------------------------------------------ __len__ *)
Lemma gen_port_len_eq p : g_port_len p = Ok (plen p).
Proof.
  unfold g_port_len, g_single_len, g_diff_len, g_sim_len, plen.
  destruct (p_kind p); try reflexivity. destruct (p_dir p); reflexivity.
Qed.

(* ------------------------------------------------------------------ __invert__ *)
Lemma gen_port_invert_eq p : g_port_invert p = port_invert p.
Proof.
  unfold g_port_invert, port_invert, g_single_invert, g_diff_invert, g_sim_invert.
  destruct (p_kind p).
  - reflexivity.
  - rewrite gen_single_init_eq. reflexivity.
  - rewrite gen_diff_init_eq. reflexivity.
Qed.

(* ------------------------------------------------------------------ __getitem__ *)
Lemma bind_ext {A B} (r : res A) (f g : A -> res B) : (forall x, f x = g x) -> bind r f = bind r g.
Proof. intros H. destruct r; cbn; auto. Qed.

Lemma gen_port_index_eq p i : g_port_index p i = port_index p i.
Proof.
  unfold g_port_index, port_index, g_single_getitem_int, g_diff_getitem_int, g_sim_getitem_int.
  destruct (p_kind p).
  - reflexivity.
  - apply bind_ext; intros r. apply bind_ext; intros b. rewrite gen_single_init_eq. reflexivity.
  - apply bind_ext; intros r. apply bind_ext; intros nr. apply bind_ext; intros b.
    rewrite gen_diff_init_eq. reflexivity.
Qed.

Lemma gen_port_slice_eq p k : g_port_slice p k = port_slice p k.
Proof.
  unfold g_port_slice, port_slice, g_single_getitem_slice, g_diff_getitem_slice, g_sim_getitem_slice.
  destruct (p_kind p).
  - reflexivity.
  - apply bind_ext; intros r. apply bind_ext; intros b. rewrite gen_single_init_eq. reflexivity.
  - apply bind_ext; intros r. apply bind_ext; intros nr. apply bind_ext; intros b.
    rewrite gen_diff_init_eq. reflexivity.
Qed.

(* ------------------------------------------------------------------ __add__ *)
Lemma gen_port_add_eq p q : g_port_add p q = port_add p q.
Proof.
  unfold g_port_add, port_add, g_single_add, g_diff_add, g_sim_add.
  destruct (p_kind p), (p_kind q); cbn [kind_eqb negb]; try reflexivity;
    rewrite gen_dir_and_eq; apply bind_ext; intros d.
  - reflexivity.
  - rewrite gen_single_init_eq. reflexivity.
  - rewrite gen_diff_init_eq. reflexivity.
Qed.

(* whole port expressions: the evaluator that uses the regenerated operations *)
Fixpoint g_peval (env : list port) (e : pexpr) : res port :=
  match e with
  | PBase b => match nth_error env b with Some p => Ok p | None => Err EType end
  | PIdx e i => bind (g_peval env e) (fun p => g_port_index p i)
  | PSlice e k => bind (g_peval env e) (fun p => g_port_slice p k)
  | PAdd a b => bind (g_peval env a) (fun p => bind (g_peval env b) (fun q => g_port_add p q))
  | PInv e => bind (g_peval env e) g_port_invert
  end.

Lemma gen_peval_eq env e : g_peval env e = peval env e.
Proof.
  induction e as [b|e IH i|e IH k|a IHa b IHb|e IH]; cbn [g_peval peval].
  - reflexivity.
  - rewrite IH. apply bind_ext; intros p. apply gen_port_index_eq.
  - rewrite IH. apply bind_ext; intros p. apply gen_port_slice_eq.
  - rewrite IHa, IHb. apply bind_ext; intros p. apply bind_ext; intros q. apply gen_port_add_eq.
  - rewrite IH. apply bind_ext; intros p. apply gen_port_invert_eq.
Qed.

(* ------------------------------------------------------------------ Buffer.__init__ / FFBuffer.__init__ *)
Lemma gen_buffer_init_eq bd p : g_buffer_init bd p = buffer_check bd (p_dir p).
Proof. unfold g_buffer_init, buffer_check. destruct (p_dir p), bd; reflexivity. Qed.

Lemma gen_ffbuffer_init_eq bd p idom odom :
  g_ffbuffer_init bd p idom odom = ffbuffer_init bd (p_dir p) idom odom.
Proof.
  unfold g_ffbuffer_init, ffbuffer_init, ff_domains, buffer_check.
  destruct (p_dir p), bd, idom as [[]|], odom as [[]|]; reflexivity.
Qed.

(* the accept/reject decision alone, as used by the hand-written ffbuffer_check *)
Lemma gen_ffbuffer_init_check bd p idom odom :
  match g_ffbuffer_init bd p idom odom with Ok _ => Ok tt | Err e => Err e end
  = ffbuffer_check bd (p_dir p) (match idom with Some _ => true | None => false end)
                                (match odom with Some _ => true | None => false end).
Proof.
  unfold g_ffbuffer_init, ffbuffer_check, buffer_check.
  destruct (p_dir p), bd, idom as [[]|], odom as [[]|]; reflexivity.
Qed.

(* ------------------------------------------------------------------ Buffer.elaborate: the inversion constant *)
Lemma gen_buffer_invert_from inv : forall idx acc,
  fold_left Z.add (map (fun '(idx, bit) => Z.shiftl (Z.b2z bit) idx) (g_enumerate idx inv)) acc
  = acc + inv_mask_from idx inv.
Proof.
  induction inv as [|b r IH]; intros idx acc; cbn [g_enumerate map fold_left inv_mask_from].
  - lia.
  - rewrite IH. lia.
Qed.

Lemma gen_buffer_invert_eq p : g_buffer_invert p = inv_mask (p_inv p).
Proof. unfold g_buffer_invert, inv_mask. rewrite gen_buffer_invert_from. lia. Qed.

(* ------------------------------------------------------------------ Buffer.elaborate (symbolic execution) *)
(* Reading of the generated description against the model's cells: a cell's direction is which of o / i it connects
   (oe must accompany o); the inversion between buffer member o and a cell's o is read off the comb statements
   (GFresh n driven by GXor GO c with c the inversion constant: p_inv; GO itself: none; GNot: complemented);
   member i is bit k of cell 0, inverted by p_inv when cell 0's i is a GFresh driven through GSelfI = GXor _ c. *)
Fixpoint gconn_eqb (a b : gconn) : bool :=
  match a, b with
  | GO, GO | GOE, GOE | GSelfI, GSelfI => true
  | GFresh n, GFresh m => Nat.eqb n m
  | GXor x c, GXor y d => gconn_eqb x y && Z.eqb c d
  | GNot x, GNot y => gconn_eqb x y
  | _, _ => false
  end.
Fixpoint g_lookup (comb : list (gconn * gconn)) (t : gconn) : option gconn :=
  match comb with [] => None | (x, e) :: r => if gconn_eqb x t then Some e else g_lookup r t end.
Definition g_no_inv (p : port) : list bool := repeat false (length (p_inv p)).
Fixpoint g_oinv (p : port) (comb : list (gconn * gconn)) (c : gconn) : list bool :=
  match c with
  | GO => g_no_inv p
  | GFresh n => match g_lookup comb (GFresh n) with
                | Some (GXor GO m) => if Z.eqb m (inv_mask (p_inv p)) then p_inv p else []
                | _ => [] end
  | GNot c' => map negb (g_oinv p comb c')
  | _ => []
  end.
Definition g_iinv (p : port) (comb : list (gconn * gconn)) (c : gconn) : list bool :=
  match c with
  | GSelfI => g_no_inv p
  | GFresh n => match g_lookup comb GSelfI with
                | Some (GXor (GFresh n') m) =>
                    if Nat.eqb n n' && Z.eqb m (inv_mask (p_inv p)) then p_inv p else []
                | _ => [] end
  | _ => []
  end.
Definition g_cell_of (p : port) (comb : list (gconn * gconn)) (c : gcell) : cell :=
  match gc_o c, gc_oe c, gc_i c with
  | None, None, Some _ => Cell (gc_port c) DIn []
  | Some x, Some GOE, None => Cell (gc_port c) DOut (obits_from 0 (g_oinv p comb x))
  | Some x, Some GOE, Some _ => Cell (gc_port c) DBidir (obits_from 0 (g_oinv p comb x))
  | _, _, _ => Cell [] DIn []
  end.
Definition g_cells_of (p : port) (e : gelab) : list cell * list ibit :=
  (map (g_cell_of p (ge_comb e)) (ge_cells e),
   match ge_cells e with
   | c0 :: _ => match gc_i c0 with Some x => ibits_from 0 (g_iinv p (ge_comb e) x) | None => [] end
   | [] => []
   end).

Lemma g_inv_from_nonneg inv : forall idx, 0 <= idx -> 0 <= inv_mask_from idx inv.
Proof.
  induction inv as [|b r IH]; intros idx Hi; cbn [inv_mask_from]; [lia|].
  specialize (IH (idx + 1) ltac:(lia)).
  assert (0 <= Z.shiftl (Z.b2z b) idx) by (apply Z.shiftl_nonneg; destruct b; cbn; lia). lia.
Qed.

Lemma g_inv_from_zero inv : forall idx, 0 <= idx -> inv_mask_from idx inv = 0 -> inv = repeat false (length inv).
Proof.
  induction inv as [|b r IH]; intros idx Hi H; cbn [inv_mask_from] in H; [reflexivity|].
  pose proof (g_inv_from_nonneg r (idx + 1) ltac:(lia)) as Hr.
  destruct b; cbn [Z.b2z] in H.
  - exfalso. rewrite Z.shiftl_1_l in H. assert (0 < 2 ^ idx) by (apply Z.pow_pos_nonneg; lia). lia.
  - rewrite Z.shiftl_0_l in H. cbn [length repeat]. f_equal. apply (IH (idx + 1)); lia.
Qed.

Lemma neg_obits_from inv : forall k, obits_from k (map negb inv) = neg_obits (obits_from k inv).
Proof. induction inv as [|b r IH]; intros k; cbn; [reflexivity|]. rewrite IH. reflexivity. Qed.

Lemma gen_buffer_cells_eq bd p o oe st : g_cells_of p (g_buffer_elab bd p o oe st) = buffer_cells bd p.
Proof.
  unfold g_buffer_elab, buffer_cells, g_cells_of, g_truthy. rewrite gen_buffer_invert_eq. cbv zeta.
  destruct (Z.eqb (inv_mask (p_inv p)) 0) eqn:E.
  - apply Z.eqb_eq in E. pose proof (g_inv_from_zero (p_inv p) 0 ltac:(lia) E) as R.
    destruct bd, (p_kind p); cbn [negb ge_cells ge_comb map g_cell_of gc_o gc_oe gc_i gc_port g_oinv g_iinv];
      unfold g_no_inv; rewrite ?neg_obits_from, <- ?R; reflexivity.
  - destruct bd, (p_kind p);
      cbn [negb ge_cells ge_comb map g_cell_of gc_o gc_oe gc_i gc_port g_oinv g_iinv g_lookup gconn_eqb Nat.eqb andb];
      rewrite ?Z.eqb_refl, ?neg_obits_from; reflexivity.
Qed.

(* the loop-back loop of a Bidir buffer on a SimulationPort *)
Lemma g_loop_eq (fi fo foe : bstate) w :
  g_cat (map (fun '((oe_bit, o_bit, i_bit) : bool * bool * bool) => if oe_bit then o_bit else i_bit)
             (g_zip3 (map foe w) (map fo w) (map fi w)))
  = loopback (PS fi fo foe) w.
Proof.
  induction w as [|r rs IH]; cbn [g_zip3 map g_cat loopback s_i s_o s_oe]; [reflexivity|]. rewrite IH. reflexivity.
Qed.

Lemma gen_buffer_comb_eq bd p o oe st :
  p_kind p = KSim -> ge_sem (g_buffer_elab bd p o oe st) = Some (buffer_comb bd p o oe st).
Proof.
  intros K. unfold g_buffer_elab, buffer_comb, g_truthy, plen. rewrite gen_buffer_invert_eq, K. cbv zeta.
  destruct st as [fi fo foe]. cbn [s_i s_o s_oe].
  destruct bd; destruct (Z.eqb (inv_mask (p_inv p)) 0); cbn [negb ge_sem];
    rewrite ?g_loop_eq, ?to_nat_zlen; reflexivity.
Qed.

(* ------------------------------------------------------------------ FFBuffer.elaborate (symbolic execution) *)
(* the inner Buffer is the regenerated g_buffer_elab; guard: ff_edge models FFBuffer on a SimulationPort only (for
   real ports the inner buffer's i comes from a cell) *)
Lemma gen_ff_edge_eq bd p ei eo o oe st s :
  p_kind p = KSim ->
  g_ff_edge bd p ei eo o oe st s = (ff_edge bd p ei eo o oe st s, if dir_eqb bd DOut then 0 else f_i s).
Proof.
  intros K. unfold g_ff_edge, ff_edge, ff_comb.
  destruct bd; cbn [dir_eqb negb]; rewrite ?(gen_buffer_comb_eq _ _ _ _ _ K), ?andb_true_r, ?andb_false_r;
    reflexivity.
Qed.

(* register stages per path: how many registered statements target o_ff (o path) / i_ff (i path) and their domain *)
Definition gffreg_eqb (a b : gffreg) : bool :=
  match a, b with Gf_i, Gf_i | Gf_o, Gf_o | Gf_oe, Gf_oe => true | _, _ => false end.
Definition g_stages (reg : gffreg) (l : list (option dom * gffreg * gconn)) : nat * option dom :=
  let hits := filter (fun x => gffreg_eqb (snd (fst x)) reg) l in
  (length hits, match hits with x :: _ => fst (fst x) | [] => None end).
Definition g_regs_of (l : list (option dom * gffreg * gconn)) : (nat * option dom) * (nat * option dom) :=
  (g_stages Gf_o l, g_stages Gf_i l).

(* r is what FFBuffer.__init__ stored (ff_domains, see gen_ffbuffer_init_eq); oe_ff has the same stage as o_ff *)
Lemma gen_ff_regs_eq bd idom odom r :
  ff_domains bd idom odom = Ok r ->
  g_regs_of (g_ff_sync bd r) = ff_regs r /\ g_stages Gf_oe (g_ff_sync bd r) = g_stages Gf_o (g_ff_sync bd r).
Proof.
  intros H. destruct bd, idom as [[]|], odom as [[]|]; cbn in H; try discriminate;
    inversion H; subst; split; reflexivity.
Qed.

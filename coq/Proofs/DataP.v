(* DataP.v — proofs about Model/Data.v (lib.data layouts, constants, views; lib.enum). *)
From Coq Require Import ZArith List Bool Lia ZifyBool.
From V.Model Require Import Bits Shape Data.
From V.Proofs Require Import BitsP.
Import ListNotations.
Open Scope Z_scope.

(* ================================================================== bit-slice primitives *)
Lemma ones_eq w : 0 <= w -> ones w = 2 ^ w - 1.
Proof. intros; unfold ones. rewrite Z.shiftl_1_l. reflexivity. Qed.

Lemma ones_Zones w : 0 <= w -> ones w = Z.ones w.
Proof. intros; rewrite ones_eq by auto. rewrite Z.ones_equiv. lia. Qed.

Lemma testbit_ones w i : 0 <= w -> 0 <= i -> Z.testbit (ones w) i = (i <? w).
Proof. intros. rewrite ones_Zones by auto. apply Z.testbit_ones_nonneg; auto. Qed.

Lemma slice_eq off w v : 0 <= off -> 0 <= w -> slice off w v = (v / 2 ^ off) mod 2 ^ w.
Proof.
  intros. unfold slice. rewrite ones_Zones by auto. rewrite Z.land_ones by auto.
  rewrite Z.shiftr_div_pow2 by auto. reflexivity.
Qed.

Lemma slice_mask off w v : 0 <= off -> 0 <= w -> slice off w v = mask w (v / 2 ^ off).
Proof. intros; rewrite slice_eq by auto; reflexivity. Qed.

Lemma slice_range off w v : 0 <= off -> 0 <= w -> 0 <= slice off w v < 2 ^ w.
Proof. intros. rewrite slice_eq by auto. apply Z.mod_pos_bound. apply pow2_pos; auto. Qed.

Lemma testbit_slice off w v i : 0 <= off -> 0 <= w -> 0 <= i ->
  Z.testbit (slice off w v) i = (i <? w) && Z.testbit v (i + off).
Proof.
  intros. unfold slice. rewrite Z.land_spec, testbit_ones, Z.shiftr_spec by auto. apply andb_comm.
Qed.

Lemma testbit_upd off w cur x i : 0 <= off -> 0 <= w -> 0 <= i ->
  Z.testbit (upd off w cur x) i =
  if (off <=? i) && (i <? off + w) then Z.testbit x (i - off) else Z.testbit cur i.
Proof.
  intros Ho Hw Hi. unfold upd.
  rewrite Z.lor_spec, !Z.land_spec, Z.lnot_spec, !Z.shiftl_spec by auto.
  destruct (off <=? i) eqn:E1.
  - rewrite testbit_ones by lia.
    destruct (i - off <? w) eqn:E2.
    + replace (i <? off + w) with true by lia. simpl. rewrite andb_false_r, andb_true_r. reflexivity.
    + replace (i <? off + w) with false by lia. simpl. rewrite andb_false_r, andb_true_r, orb_false_r. reflexivity.
  - rewrite (Z.testbit_neg_r (ones w)) by lia. simpl. rewrite andb_false_r, andb_true_r, orb_false_r. reflexivity.
Qed.

(* 0 <= a < 2^n, bitwise *)
Lemma range_of_bits n a : 0 <= n -> (forall i, n <= i -> Z.testbit a i = false) -> 0 <= a < 2 ^ n.
Proof.
  intros Hn Hb. assert (a = mask n a) as ->; [|apply mask_range; auto].
  apply Z.bits_inj'; intros i Hi. rewrite testbit_mask by auto.
  destruct (i <? n) eqn:E; simpl; auto. apply Hb; lia.
Qed.

Lemma bits_of_range n a i : 0 <= n -> 0 <= a < 2 ^ n -> n <= i -> Z.testbit a i = false.
Proof.
  intros Hn Ha Hi. rewrite <- (mask_small n a Ha). rewrite testbit_mask by auto.
  replace (i <? n) with false by lia. reflexivity.
Qed.

Lemma upd_range n off w cur x : 0 <= off -> 0 <= w -> off + w <= n ->
  0 <= cur < 2 ^ n -> 0 <= upd off w cur x < 2 ^ n.
Proof.
  intros Ho Hw Hn Hc. apply range_of_bits; [lia|]. intros i Hi.
  rewrite testbit_upd by lia. replace (i <? off + w) with false by lia. rewrite andb_false_r.
  apply (bits_of_range n); auto; lia.
Qed.

Lemma slice_upd_same off w cur x : 0 <= off -> 0 <= w -> slice off w (upd off w cur x) = mask w x.
Proof.
  intros. apply Z.bits_inj'; intros i Hi.
  rewrite testbit_slice, testbit_upd, testbit_mask by lia.
  destruct (i <? w) eqn:E; simpl; auto.
  replace (off <=? i + off) with true by lia. replace (i + off <? off + w) with true by lia. simpl.
  f_equal. lia.
Qed.

Lemma slice_upd_other off w off2 w2 cur x : 0 <= off -> 0 <= w -> 0 <= off2 -> 0 <= w2 ->
  off2 + w2 <= off \/ off + w <= off2 ->
  slice off2 w2 (upd off w cur x) = slice off2 w2 cur.
Proof.
  intros Ho Hw Ho2 Hw2 Hd. apply Z.bits_inj'; intros i Hi.
  rewrite !testbit_slice, testbit_upd by lia.
  destruct (i <? w2) eqn:E; simpl; auto.
  replace ((off <=? i + off2) && (i + off2 <? off + w)) with false by lia. reflexivity.
Qed.

Lemma upd_width0 off cur x : 0 <= off -> upd off 0 cur x = cur.
Proof.
  intros. apply Z.bits_inj'; intros i Hi. rewrite testbit_upd by lia.
  replace ((off <=? i) && (i <? off + 0)) with false by lia. reflexivity.
Qed.

(* a slice of a slice is the slice at the summed offset *)
Lemma slice_slice off1 w1 off2 w2 v : 0 <= off1 -> 0 <= w1 -> 0 <= off2 -> 0 <= w2 -> off2 + w2 <= w1 ->
  slice off2 w2 (slice off1 w1 v) = slice (off1 + off2) w2 v.
Proof.
  intros. apply Z.bits_inj'; intros i Hi. rewrite !testbit_slice by lia.
  destruct (i <? w2) eqn:E; simpl; auto.
  replace (i + off2 <? w1) with true by lia. simpl. f_equal. lia.
Qed.

(* writing through a slice of a slice is writing at the summed offset *)
Lemma upd_upd_nested off1 w1 off2 w2 cur x : 0 <= off1 -> 0 <= w1 -> 0 <= off2 -> 0 <= w2 -> off2 + w2 <= w1 ->
  upd off1 w1 cur (upd off2 w2 (slice off1 w1 cur) x) = upd (off1 + off2) w2 cur x.
Proof.
  intros. apply Z.bits_inj'; intros i Hi.
  rewrite (testbit_upd (off1 + off2)) by lia. rewrite (testbit_upd off1) by lia.
  destruct (off1 <=? i) eqn:A1; destruct (i <? off1 + w1) eqn:A2; simpl.
  - rewrite testbit_upd by lia. rewrite testbit_slice by lia.
    replace (i - off1 <? w1) with true by lia. simpl.
    destruct (off2 <=? i - off1) eqn:B1; destruct (i - off1 <? off2 + w2) eqn:B2;
    destruct (off1 + off2 <=? i) eqn:C1; destruct (i <? off1 + off2 + w2) eqn:C2; simpl; try lia;
    f_equal; lia.
  - destruct (off1 + off2 <=? i) eqn:C1; destruct (i <? off1 + off2 + w2) eqn:C2; simpl; try lia; reflexivity.
  - destruct (off1 + off2 <=? i) eqn:C1; destruct (i <? off1 + off2 + w2) eqn:C2; simpl; try lia; reflexivity.
  - destruct (off1 + off2 <=? i) eqn:C1; destruct (i <? off1 + off2 + w2) eqn:C2; simpl; try lia; reflexivity.
Qed.

Lemma norm_of_mask s v : wf_shape s = true -> norm s (mask (width s) v) = norm s v.
Proof.
  unfold wf_shape, norm. destruct (sgn s); intros.
  - apply sext_mask; lia.
  - apply mask_idem; lia.
Qed.

Lemma mask_of_norm s v : wf_shape s = true -> mask (width s) (norm s v) = mask (width s) v.
Proof.
  unfold wf_shape, norm. destruct (sgn s); intros.
  - apply mask_sext; lia.
  - apply mask_idem; lia.
Qed.

(* ================================================================== induction principle for the nested type *)
Lemma layout_ind' (P : layout -> Prop)
  (HL : forall s, P (Leaf s)) (HE : forall s vw ms, P (ELeaf s vw ms))
  (HS : forall fs, Forall (fun kf => P (snd kf)) fs -> P (Struct fs))
  (HU : forall fs, Forall (fun kf => P (snd kf)) fs -> P (Union fs))
  (HA : forall e n, P e -> P (Array e n))
  (HF : forall sz fs, Forall (fun kf => P (snd (snd kf))) fs -> P (Flex sz fs)) : forall l, P l.
Proof.
  fix IH 1. intros [s|s vw ms|fs|fs|e n|sz fs].
  - apply HL.
  - apply HE.
  - apply HS. induction fs as [|kf r IHr]; constructor; [apply IH | exact IHr].
  - apply HU. induction fs as [|kf r IHr]; constructor; [apply IH | exact IHr].
  - apply HA. apply IH.
  - apply HF. induction fs as [|kf r IHr]; constructor; [apply IH | exact IHr].
Qed.

(* ================================================================== lists: max, sums, assoc *)
Lemma fold_max_ge r : forall x, x <= fold_left Z.max r x.
Proof. induction r as [|y r IH]; intros x; simpl; [lia|]. specialize (IH (Z.max x y)). lia. Qed.

Lemma fold_max_in_ge r : forall x y, In y r -> y <= fold_left Z.max r x.
Proof.
  induction r as [|z r IH]; intros x y Hin; simpl in *; [tauto|]. destruct Hin as [->|Hin].
  - pose proof (fold_max_ge r (Z.max x y)). lia.
  - apply IH; auto.
Qed.

Lemma fold_max_is r : forall x, fold_left Z.max r x = x \/ In (fold_left Z.max r x) r.
Proof.
  induction r as [|z r IH]; intros x; simpl; [auto|].
  destruct (IH (Z.max x z)) as [H|H]; [|auto].
  rewrite H. destruct (Z.max_spec x z) as [[_ ->]|[_ ->]]; auto.
Qed.

Lemma max_default0_ge l x : In x l -> x <= max_default0 l.
Proof.
  destruct l as [|y r]; simpl; [tauto|]. intros [->|Hin]; [apply fold_max_ge|apply fold_max_in_ge; auto].
Qed.

Lemma max_default0_in l : l <> [] -> In (max_default0 l) l.
Proof.
  destruct l as [|y r]; [congruence|]. intros _. simpl. destruct (fold_max_is r y) as [->|H]; auto.
Qed.

Definition zsum (l : list Z) : Z := fold_right Z.add 0 l.

Lemma struct_ends_last ws : forall off, Forall (fun w => 0 <= w) ws -> ws <> [] ->
  max_default0 (struct_ends off ws) = off + zsum ws.
Proof.
  induction ws as [|w r IH]; intros off Hnn Hne; [congruence|].
  inversion Hnn as [|? ? Hw Hr]; subst.
  destruct r as [|w2 r2].
  - simpl. lia.
  - specialize (IH (off + w) Hr ltac:(congruence)).
    change (struct_ends off (w :: w2 :: r2)) with ((off + w) :: struct_ends (off + w) (w2 :: r2)).
    assert (Hge : forall y, In y (struct_ends (off + w) (w2 :: r2)) -> y <= max_default0 (struct_ends (off + w) (w2 :: r2)))
      by (intros; apply max_default0_ge; auto).
    remember (struct_ends (off + w) (w2 :: r2)) as E eqn:HE.
    destruct E as [|e1 E']; [simpl in HE; discriminate|].
    simpl in IH |- *.
    assert (off + w <= e1) by (simpl in HE; inversion HE; inversion Hr; subst; lia).
    rewrite Z.max_r by lia. rewrite IH. simpl. lia.
Qed.

Lemma assoc_in {A} k (l : list (Z * A)) a : assoc k l = Some a -> In (k, a) l.
Proof.
  induction l as [|[k' a'] r IH]; simpl; [discriminate|].
  destruct (k =? k') eqn:E; intros H.
  - inversion H; subst. left. f_equal. lia.
  - right; auto.
Qed.

Lemma memz_in v l : memz v l = true <-> In v l.
Proof.
  induction l as [|x r IH]; simpl; [split; [discriminate|tauto]|].
  rewrite orb_true_iff, IH. split; intros [H|H]; auto; left; lia.
Qed.

Lemma nodupz_NoDup l : nodupz l = true -> NoDup l.
Proof.
  induction l as [|x r IH]; simpl; [constructor|]. rewrite andb_true_iff, negb_true_iff.
  intros [Hm Hr]. constructor; auto. intros Hin. apply memz_in in Hin. congruence.
Qed.

Lemma in_assoc_nodup {A} k (a : A) l : NoDup (map fst l) -> In (k, a) l -> assoc k l = Some a.
Proof.
  induction l as [|[k' a'] r IH]; simpl; [tauto|]. intros Hnd Hin. inversion Hnd as [|? ? Hni Hr]; subst.
  destruct Hin as [Heq|Hin].
  - inversion Heq; subst. rewrite Z.eqb_refl. reflexivity.
  - destruct (k =? k') eqn:E.
    + exfalso. apply Hni. assert (k = k') by lia. subst. apply (in_map fst) in Hin. exact Hin.
    + apply IH; auto.
Qed.

(* ================================================================== sizes and placement *)
Definition sizes (fs : list (Z * layout)) : list Z := map (fun kf => layout_size (snd kf)) fs.

Lemma layout_size_struct fs : layout_size (Struct fs) = max_default0 (struct_ends 0 (sizes fs)).
Proof. reflexivity. Qed.
Lemma layout_size_union fs : layout_size (Union fs) = max_default0 (sizes fs).
Proof. reflexivity. Qed.

Lemma wf_struct_inv fs : wf_layout (Struct fs) = true ->
  NoDup (map fst fs) /\ Forall (fun kf => wf_layout (snd kf) = true) fs.
Proof.
  simpl. rewrite andb_true_iff. intros [H1 H2]. split; [apply nodupz_NoDup; auto|].
  apply Forall_forall. intros x Hx. rewrite forallb_forall in H2. apply H2; auto.
Qed.
Lemma wf_union_inv fs : wf_layout (Union fs) = true ->
  NoDup (map fst fs) /\ Forall (fun kf => wf_layout (snd kf) = true) fs.
Proof. exact (wf_struct_inv fs). Qed.
Lemma wf_flex_inv sz fs : wf_layout (Flex sz fs) = true ->
  0 <= sz /\ NoDup (map fst fs) /\
  Forall (fun kf => 0 <= fst (snd kf) /\ fst (snd kf) + layout_size (snd (snd kf)) <= sz /\
                    wf_layout (snd (snd kf)) = true) fs.
Proof.
  simpl. rewrite !andb_true_iff. intros [[H0 H1] H2]. split; [lia|]. split; [apply nodupz_NoDup; auto|].
  apply Forall_forall. intros x Hx. rewrite forallb_forall in H2. specialize (H2 x Hx).
  rewrite !andb_true_iff in H2. destruct H2 as [[A B] C]. repeat split; auto; lia.
Qed.

Lemma struct_ends_first_nonneg ws off : Forall (fun w => 0 <= w) ws -> 0 <= off -> 0 <= max_default0 (struct_ends off ws).
Proof.
  intros Hnn Ho. destruct ws as [|w r]; simpl; [lia|]. inversion Hnn; subst.
  pose proof (fold_max_ge (struct_ends (off + w) r) (off + w)). lia.
Qed.

Lemma layout_size_nonneg l : wf_layout l = true -> 0 <= layout_size l.
Proof.
  induction l as [s|s vw ms|fs IH|fs IH|e n IH|sz fs IH] using layout_ind'; intros Hwf.
  - simpl in *. unfold wf_shape in Hwf. destruct (sgn s); lia.
  - simpl in *. unfold wf_shape in Hwf. destruct (sgn s); lia.
  - rewrite layout_size_struct. apply wf_struct_inv in Hwf. destruct Hwf as [_ Hall].
    apply struct_ends_first_nonneg; [|lia]. unfold sizes. apply Forall_forall. intros w Hw.
    apply in_map_iff in Hw. destruct Hw as (kf & <- & Hin).
    rewrite Forall_forall in IH, Hall. apply IH; auto.
  - rewrite layout_size_union. apply wf_union_inv in Hwf. destruct Hwf as [_ Hall].
    destruct fs as [|kf r]; [simpl; lia|].
    assert (0 <= layout_size (snd kf)).
    { inversion IH; inversion Hall; subst; auto. }
    pose proof (max_default0_ge (sizes (kf :: r)) (layout_size (snd kf)) ltac:(left; reflexivity)). lia.
  - simpl in *. specialize (IH Hwf). nia.
  - apply wf_flex_inv in Hwf. simpl. tauto.
Qed.

Lemma sizes_nonneg fs : Forall (fun kf => wf_layout (snd kf) = true) fs -> Forall (fun w => 0 <= w) (sizes fs).
Proof.
  intros H. unfold sizes. apply Forall_forall. intros w Hw. apply in_map_iff in Hw.
  destruct Hw as (kf & <- & Hin). rewrite Forall_forall in H. apply layout_size_nonneg; auto.
Qed.

Lemma zsum_nonneg l : Forall (fun w => 0 <= w) l -> 0 <= zsum l.
Proof. induction 1; simpl; lia. Qed.

(* size of a struct = sum of the member sizes *)
Lemma struct_size_sum fs : wf_layout (Struct fs) = true -> layout_size (Struct fs) = zsum (sizes fs).
Proof.
  intros Hwf. apply wf_struct_inv in Hwf. destruct Hwf as [_ Hall]. rewrite layout_size_struct.
  destruct fs as [|kf r]; [reflexivity|].
  rewrite struct_ends_last; [lia|apply sizes_nonneg; auto|simpl; congruence].
Qed.

Lemma struct_fields_nth fs : forall off i k f, nth_error fs i = Some (k, f) ->
  nth_error (struct_fields off fs) i = Some (k, (off + zsum (sizes (firstn i fs)), f)).
Proof.
  induction fs as [|[k0 f0] r IH]; intros off i k f Hn; [destruct i; discriminate|].
  destruct i as [|i]; simpl in *.
  - inversion Hn; subst. f_equal. f_equal. f_equal. lia.
  - rewrite (IH _ _ _ _ Hn). f_equal. f_equal. f_equal. lia.
Qed.

Lemma struct_fields_keys fs : forall off, map fst (struct_fields off fs) = map fst fs.
Proof. induction fs as [|[k f] r IH]; intros; simpl; [reflexivity|]. rewrite IH. reflexivity. Qed.

Lemma struct_fields_in fs : forall off k o f, In (k, (o, f)) (struct_fields off fs) ->
  exists i, nth_error fs i = Some (k, f) /\ o = off + zsum (sizes (firstn i fs)) /\
            In (o + layout_size f) (struct_ends off (sizes fs)).
Proof.
  induction fs as [|[k0 f0] r IH]; intros off k o f Hin; simpl in *; [tauto|].
  destruct Hin as [Heq|Hin].
  - inversion Heq; subst. exists O. unfold sizes, zsum. simpl. split; auto. split; [lia|left; reflexivity].
  - destruct (IH _ _ _ _ Hin) as (i & Hn & Ho & He). exists (S i). unfold sizes, zsum in *. simpl. split; auto. split; [lia|right; exact He].
Qed.

Lemma array_fields_in e : forall n idx off k o f, In (k, (o, f)) (array_fields e idx off n) ->
  f = e /\ idx <= k < idx + Z.of_nat n /\ o = off + (k - idx) * layout_size e.
Proof.
  induction n as [|n IH]; intros idx off k o f Hin; simpl in Hin; [tauto|].
  destruct Hin as [Heq|Hin].
  - inversion Heq; subst. split; auto. split; [lia|lia].
  - destruct (IH _ _ _ _ _ Hin) as (-> & Hk & Ho). split; auto. split; [lia|]. rewrite Ho. lia.
Qed.

Lemma array_fields_nth e : forall n idx off i, (i < n)%nat ->
  nth_error (array_fields e idx off n) i = Some (idx + Z.of_nat i, (off + Z.of_nat i * layout_size e, e)).
Proof.
  induction n as [|n IH]; intros idx off i Hi; [lia|]. destruct i as [|i]; cbn [array_fields nth_error].
  - f_equal. f_equal; [lia|]. f_equal. lia.
  - rewrite IH by lia. f_equal. f_equal; [lia|]. f_equal. lia.
Qed.

(* every field lies inside its layout, and sub-layouts are well-formed *)
Lemma field_of_within l k off sub : wf_layout l = true -> field_of l k = Some (off, sub) ->
  0 <= off /\ off + layout_size sub <= layout_size l /\ wf_layout sub = true.
Proof.
  intros Hwf Hf. destruct l as [s|s vw ms|fs|fs|e n|sz fs]; simpl in Hf; try discriminate.
  - (* struct *)
    pose proof (wf_struct_inv fs Hwf) as [Hnd Hall].
    apply assoc_in in Hf. apply struct_fields_in in Hf. destruct Hf as (i & Hn & Ho & He).
    pose proof (sizes_nonneg fs Hall) as Hnn.
    split.
    + rewrite Ho. assert (0 <= zsum (sizes (firstn i fs))); [|lia].
      apply zsum_nonneg. apply sizes_nonneg. apply Forall_forall. intros x Hx.
      rewrite Forall_forall in Hall. apply Hall. eapply (In_nth_error) in Hx. destruct Hx as [j Hj].
      apply nth_error_In with j. rewrite <- Hj. symmetry.
      clear -Hj. revert i Hj. revert fs. induction j; intros fs i Hj; destruct i, fs; simpl in *; try discriminate; auto.
    + split.
      * rewrite layout_size_struct. apply max_default0_ge. exact He.
      * apply nth_error_In in Hn. rewrite Forall_forall in Hall. apply (Hall _ Hn).
  - (* union *)
    pose proof (wf_union_inv fs Hwf) as [Hnd Hall].
    apply assoc_in in Hf. apply in_map_iff in Hf. destruct Hf as ([k' f'] & Heq & Hin). simpl in Heq.
    inversion Heq; subst. split; [lia|]. split.
    + rewrite layout_size_union. simpl. apply max_default0_ge. unfold sizes.
      apply in_map_iff. exists (k, sub). auto.
    + rewrite Forall_forall in Hall. apply (Hall _ Hin).
  - (* array *)
    simpl in Hwf. pose proof (layout_size_nonneg e Hwf) as Hw.
    destruct ((- Z.of_nat n <=? k) && (k <? Z.of_nat n)) eqn:E; [|discriminate].
    inversion Hf; subst. simpl. split; [|split; auto]; destruct (k <? 0) eqn:E2; nia.
  - (* flex *)
    pose proof (wf_flex_inv sz fs Hwf) as (Hsz & Hnd & Hall).
    apply assoc_in in Hf. rewrite Forall_forall in Hall. specialize (Hall _ Hf). simpl in *. tauto.
Qed.

(* ================================================================== placement theorems *)
Lemma struct_fields_contiguous fs i k f : wf_layout (Struct fs) = true -> nth_error fs i = Some (k, f) ->
  nth_error (fields_of (Struct fs)) i = Some (k, (zsum (sizes (firstn i fs)), f)) /\
  field_of (Struct fs) k = Some (zsum (sizes (firstn i fs)), f).
Proof.
  intros Hwf Hn. pose proof (wf_struct_inv fs Hwf) as [Hnd _].
  pose proof (struct_fields_nth fs 0 i k f Hn) as H. simpl in H. split; [exact H|].
  simpl. apply in_assoc_nodup; [rewrite struct_fields_keys; auto|]. apply nth_error_In in H. exact H.
Qed.

Lemma union_field fs k off sub : field_of (Union fs) k = Some (off, sub) -> off = 0 /\ In (k, sub) fs.
Proof.
  simpl. intros H. apply assoc_in in H. apply in_map_iff in H. destruct H as ([k' f'] & Heq & Hin).
  simpl in Heq. inversion Heq; subst. auto.
Qed.

Lemma union_field_in fs k f : wf_layout (Union fs) = true -> In (k, f) fs -> field_of (Union fs) k = Some (0, f).
Proof.
  intros Hwf Hin. pose proof (wf_union_inv fs Hwf) as [Hnd _]. simpl. apply in_assoc_nodup.
  - rewrite map_map. simpl. exact Hnd.
  - apply in_map_iff. exists (k, f). auto.
Qed.

Lemma union_size_max fs :
  (forall k f, In (k, f) fs -> layout_size f <= layout_size (Union fs)) /\
  (fs <> [] -> exists k f, In (k, f) fs /\ layout_size f = layout_size (Union fs)) /\
  (fs = [] -> layout_size (Union fs) = 0).
Proof.
  rewrite layout_size_union. split; [|split].
  - intros k f Hin. apply max_default0_ge. unfold sizes. apply in_map_iff. exists (k, f). auto.
  - intros Hne. assert (sizes fs <> []) as Hs by (destruct fs; simpl; congruence).
    pose proof (max_default0_in _ Hs) as Hin. unfold sizes in Hin at 2. apply in_map_iff in Hin.
    destruct Hin as ([k f] & Heq & Hin). exists k, f. auto.
  - intros ->. reflexivity.
Qed.

Lemma array_elem_offset e n i : 0 <= i < Z.of_nat n ->
  field_of (Array e n) i = Some (i * layout_size e, e) /\
  field_of (Array e n) (i - Z.of_nat n) = Some (i * layout_size e, e) /\
  nth_error (fields_of (Array e n)) (Z.to_nat i) = Some (i, (i * layout_size e, e)) /\
  layout_size (Array e n) = layout_size e * Z.of_nat n.
Proof.
  intros Hi. simpl. repeat split.
  - replace ((- Z.of_nat n <=? i) && (i <? Z.of_nat n)) with true by lia.
    replace (i <? 0) with false by lia. reflexivity.
  - replace ((- Z.of_nat n <=? i - Z.of_nat n) && (i - Z.of_nat n <? Z.of_nat n)) with true by lia.
    replace (i - Z.of_nat n <? 0) with true by lia. f_equal. f_equal. f_equal. lia.
  - rewrite array_fields_nth by lia. rewrite Z2Nat.id by lia. f_equal.
Qed.

(* ================================================================== Layout.const *)
Definition field_disj (l : layout) (o w k' : Z) : Prop :=
  exists o' s', field_of l k' = Some (o', s') /\ (o + w <= o' \/ o' + layout_size s' <= o).

Lemma keys_disjoint_cons l k r : keys_disjoint l (k :: r) = true ->
  exists o s, field_of l k = Some (o, s) /\ (forall k', In k' r -> field_disj l o (layout_size s) k') /\
              keys_disjoint l r = true.
Proof.
  simpl. destruct (field_of l k) as [[o s]|]; [|discriminate]. rewrite andb_true_iff. intros [H1 H2].
  exists o, s. split; auto. split; auto. intros k' Hin. rewrite forallb_forall in H1. specialize (H1 _ Hin).
  unfold field_disj. destruct (field_of l k') as [[o' s']|]; [|discriminate]. exists o', s'. split; auto.
  unfold disjb in H1. lia.
Qed.

Section Fold.
  Variable rec : layout -> init -> resz.

  Lemma const_fold_preserves l : wf_layout l = true -> forall kvs cur v o w, 0 <= o -> 0 <= w ->
    (forall k', In k' (map fst kvs) -> field_disj l o w k') ->
    const_fold rec l kvs cur = Okz v -> slice o w v = slice o w cur.
  Proof.
    intros Hwf. induction kvs as [|[k x] r IH]; intros cur v o w Ho Hw Hd Hf; simpl in Hf.
    - inversion Hf; subst; reflexivity.
    - destruct (Hd k ltac:(left; reflexivity)) as (o' & s' & Hfo & Hdisj). rewrite Hfo in Hf.
      destruct (field_init rec s' x) as [fv|c] eqn:Hfi; [|discriminate].
      destruct (field_of_within l k o' s' Hwf Hfo) as (Ho' & _ & Hws).
      pose proof (layout_size_nonneg s' Hws) as Hs'.
      rewrite (IH _ _ o w Ho Hw (fun k' Hin => Hd k' (or_intror Hin)) Hf).
      apply slice_upd_other; auto; lia.
  Qed.

  Lemma const_fold_field l : wf_layout l = true -> forall kvs cur v,
    keys_disjoint l (map fst kvs) = true -> const_fold rec l kvs cur = Okz v ->
    forall k x, In (k, x) kvs ->
    exists off sub fv, field_of l k = Some (off, sub) /\ field_init rec sub x = Okz fv /\
                       slice off (layout_size sub) v = mask (layout_size sub) fv.
  Proof.
    intros Hwf. induction kvs as [|[k0 x0] r IH]; intros cur v Hkd Hf k x Hin; [destruct Hin|].
    simpl map in Hkd. apply keys_disjoint_cons in Hkd. destruct Hkd as (o & s & Hfo & Hdis & Hkd).
    simpl in Hf. rewrite Hfo in Hf. destruct (field_init rec s x0) as [fv|c] eqn:Hfi; [|discriminate].
    destruct Hin as [Heq|Hin].
    - inversion Heq; subst. exists o, s, fv. split; auto. split; auto.
      destruct (field_of_within l k o s Hwf Hfo) as (Ho & _ & Hws).
      pose proof (layout_size_nonneg s Hws) as Hs.
      rewrite (const_fold_preserves l Hwf r _ v o (layout_size s) Ho Hs Hdis Hf).
      apply slice_upd_same; auto.
    - apply (IH _ v Hkd Hf k x Hin).
  Qed.

  Lemma const_fold_range l : wf_layout l = true -> forall kvs cur v,
    0 <= cur < 2 ^ layout_size l -> const_fold rec l kvs cur = Okz v -> 0 <= v < 2 ^ layout_size l.
  Proof.
    intros Hwf. induction kvs as [|[k x] r IH]; intros cur v Hc Hf; simpl in Hf.
    - inversion Hf; subst; auto.
    - destruct (field_of l k) as [[o s]|] eqn:Hfo; [|discriminate].
      destruct (field_init rec s x) as [fv|c]; [|discriminate].
      destruct (field_of_within l k o s Hwf Hfo) as (Ho & Hin & Hws).
      pose proof (layout_size_nonneg s Hws) as Hs.
      eapply IH; [|exact Hf]. apply upd_range; auto.
  Qed.
End Fold.

Lemma layout_const_map l kvs : layout_const l (IMap kvs) =
  if negb (is_layout l) then Errz 4
  else if is_union l && (1 <? Z.of_nat (length kvs)) then Errz 3
  else const_fold layout_const l kvs 0.
Proof. reflexivity. Qed.

Lemma layout_const_range l i v : wf_layout l = true -> layout_const l i = Okz v -> 0 <= v < 2 ^ layout_size l.
Proof.
  intros Hwf H. destruct i as [x|kvs]; [discriminate|]. rewrite layout_const_map in H.
  destruct (negb (is_layout l)); [discriminate|].
  destruct (is_union l && (1 <? Z.of_nat (length kvs))); [discriminate|].
  apply (const_fold_range layout_const l Hwf kvs 0 v); auto.
  pose proof (pow2_pos (layout_size l) (layout_size_nonneg l Hwf)). lia.
Qed.

Lemma const_getitem_field l raw k off sub : is_layout l = true -> field_of l k = Some (off, sub) ->
  const_getitem l raw k = const_field sub (slice off (layout_size sub) raw).
Proof. intros Hl Hf. unfold const_getitem. rewrite Hl, Hf. reflexivity. Qed.

(* one level: reading back a field of the constant built from an initialiser *)
Lemma const_field_roundtrip l kvs v k x : wf_layout l = true ->
  layout_const l (IMap kvs) = Okz v -> keys_disjoint l (map fst kvs) = true -> In (k, x) kvs ->
  exists off sub fv, field_of l k = Some (off, sub) /\ field_init layout_const sub x = Okz fv /\
                     const_getitem l v k = const_field sub (mask (layout_size sub) fv).
Proof.
  intros Hwf Hc Hkd Hin. rewrite layout_const_map in Hc.
  destruct (is_layout l) eqn:Hl; [|discriminate]. simpl in Hc.
  destruct (is_union l && (1 <? Z.of_nat (length kvs))); [discriminate|].
  destruct (const_fold_field layout_const l Hwf kvs 0 v Hkd Hc k x Hin) as (off & sub & fv & Hfo & Hfi & Hs).
  exists off, sub, fv. split; auto. split; auto. rewrite (const_getitem_field l v k off sub Hl Hfo). rewrite Hs. reflexivity.
Qed.

Lemma const_field_leaf s fv : wf_shape s = true -> const_field (Leaf s) (mask (width s) (norm s fv)) = Ok (Leaf s) (norm s fv).
Proof. intros Hs. simpl. rewrite norm_of_mask by auto. rewrite norm_idem by auto. reflexivity. Qed.

(* plain-shape fields: the value read back is the initialiser normalised to the field's shape *)
Lemma const_field_roundtrip_leaf l kvs v k xv off s : wf_layout l = true ->
  layout_const l (IMap kvs) = Okz v -> keys_disjoint l (map fst kvs) = true -> In (k, IVal xv) kvs ->
  field_of l k = Some (off, Leaf s) ->
  const_getitem l v k = Ok (Leaf s) (norm s xv).
Proof.
  intros Hwf Hc Hkd Hin Hfo.
  destruct (const_field_roundtrip l kvs v k (IVal xv) Hwf Hc Hkd Hin) as (off' & sub & fv & Hfo' & Hfi & Hg).
  rewrite Hfo in Hfo'. inversion Hfo'; subst. simpl in Hfi. inversion Hfi; subst.
  rewrite Hg. destruct (field_of_within l k off' (Leaf s) Hwf Hfo) as (_ & _ & Hws).
  apply (const_field_leaf s xv Hws).
Qed.

Lemma field_init_layout sub x : is_layout sub = true -> field_init layout_const sub x = layout_const sub x.
Proof. destruct sub; simpl; try discriminate; reflexivity. Qed.

Lemma const_field_layout sub fv : is_layout sub = true -> 0 <= fv < 2 ^ layout_size sub ->
  const_field sub (mask (layout_size sub) fv) = Ok sub fv.
Proof.
  intros Hl Hr. rewrite mask_small by auto.
  assert (from_bits sub fv = Ok sub fv) as Hfb.
  { unfold from_bits. replace ((0 <=? fv) && (fv <? 2 ^ layout_size sub)) with true by lia. reflexivity. }
  destruct sub; simpl in Hl; try discriminate; cbn [const_field]; rewrite mask_small by auto; exact Hfb.
Qed.

(* nested-layout fields: the value read back is the constant of the nested initialiser *)
Lemma const_field_roundtrip_nested l kvs v k x off sub : wf_layout l = true ->
  layout_const l (IMap kvs) = Okz v -> keys_disjoint l (map fst kvs) = true -> In (k, x) kvs ->
  field_of l k = Some (off, sub) -> is_layout sub = true ->
  exists fv, layout_const sub x = Okz fv /\ const_getitem l v k = Ok sub fv.
Proof.
  intros Hwf Hc Hkd Hin Hfo Hl.
  destruct (const_field_roundtrip l kvs v k x Hwf Hc Hkd Hin) as (off' & sub' & fv & Hfo' & Hfi & Hg).
  rewrite Hfo in Hfo'. inversion Hfo'; subst. rewrite field_init_layout in Hfi by auto.
  exists fv. split; auto. rewrite Hg. apply const_field_layout; auto.
  destruct (field_of_within l k off' sub' Hwf Hfo) as (_ & _ & Hws).
  apply (layout_const_range sub' x fv Hws Hfi).
Qed.

(* enumeration fields: the member is read back, for every member that fits the shape (negative ones included) *)
Lemma const_field_enum s vw ms m : wf_shape s = true -> in_range s m -> memz m ms = true ->
  const_field (ELeaf s vw ms) (mask (width s) (norm s m)) = Ok (ELeaf s vw ms) m.
Proof.
  intros Hs Hm Hmem. cbn [const_field]. rewrite norm_of_mask by auto. rewrite norm_idem by auto.
  rewrite (norm_id s m Hs Hm). rewrite Hmem. reflexivity.
Qed.

Lemma const_field_roundtrip_enum l kvs v k m off s vw ms : wf_layout l = true ->
  layout_const l (IMap kvs) = Okz v -> keys_disjoint l (map fst kvs) = true -> In (k, IVal m) kvs ->
  field_of l k = Some (off, ELeaf s vw ms) -> in_range s m ->
  const_getitem l v k = Ok (ELeaf s vw ms) m.
Proof.
  intros Hwf Hc Hkd Hin Hfo Hm.
  destruct (const_field_roundtrip l kvs v k (IVal m) Hwf Hc Hkd Hin) as (off' & sub & fv & Hfo' & Hfi & Hg).
  rewrite Hfo in Hfo'. inversion Hfo'; subst. simpl in Hfi.
  destruct (memz m ms) eqn:Hmem; [|discriminate]. inversion Hfi; subst.
  rewrite Hg. destruct (field_of_within l k off' _ Hwf Hfo) as (_ & _ & Hws). simpl in Hws.
  simpl layout_size. apply const_field_enum; auto.
Qed.

(* ================================================================== nested paths *)
Lemma field_of_some_layout l k r : field_of l k = Some r -> is_layout l = true.
Proof. destruct l; simpl; try discriminate; auto. Qed.

Lemma init_ok_map l kvs : init_ok l (IMap kvs) =
  is_layout l && keys_disjoint l (map fst kvs) &&
  forallb (fun kx => match field_of l (fst kx) with Some (_, sub) => init_ok sub (snd kx) | None => false end) kvs.
Proof. reflexivity. Qed.

Lemma const_path_cons l raw k r : const_path l raw (k :: r) =
  match const_getitem l raw k with
  | Ok sub v => match r with [] => Ok sub v | _ => const_path sub v r end
  | e => e
  end.
Proof. reflexivity. Qed.

Lemma const_path_single l raw k : const_path l raw [k] = const_getitem l raw k.
Proof. rewrite const_path_cons. destruct (const_getitem l raw k); reflexivity. Qed.

Lemma const_path_roundtrip : forall p l i v x, wf_layout l = true -> init_ok l i = true ->
  layout_const l i = Okz v -> p <> [] -> init_at i p = Some x ->
  exists c sub fv, path_chain l p = Some (c, sub) /\ field_init layout_const sub x = Okz fv /\
                   const_path l v p = const_field sub (mask (layout_size sub) fv).
Proof.
  induction p as [|k r IH]; intros l i v x Hwf Hok Hc Hne Hat; [congruence|].
  destruct i as [xv|kvs]; [discriminate|]. simpl in Hat.
  destruct (assoc k kvs) as [xk|] eqn:Ha; [|discriminate]. apply assoc_in in Ha.
  rewrite init_ok_map in Hok. rewrite !andb_true_iff in Hok. destruct Hok as [[Hl Hkd] Hall].
  destruct (const_field_roundtrip l kvs v k xk Hwf Hc Hkd Ha) as (off & sub & fv & Hfo & Hfi & Hg).
  destruct r as [|k2 r2].
  - simpl in Hat. inversion Hat; subst x. exists [(off, layout_size sub)], sub, fv.
    simpl. rewrite Hfo. split; auto. split; auto. fold (const_path l v [k]). rewrite const_path_single. exact Hg.
  - destruct xk as [xv|kvs2]; [simpl in Hat; discriminate|].
    rewrite forallb_forall in Hall. specialize (Hall _ Ha). cbn [fst snd] in Hall. rewrite Hfo in Hall.
    assert (is_layout sub = true) as Hls.
    { rewrite init_ok_map in Hall. rewrite !andb_true_iff in Hall. tauto. }
    rewrite field_init_layout in Hfi by auto.
    destruct (field_of_within l k off sub Hwf Hfo) as (_ & _ & Hws).
    pose proof (layout_const_range sub _ fv Hws Hfi) as Hr.
    rewrite const_field_layout in Hg by auto.
    destruct (IH sub (IMap kvs2) fv x Hws Hall Hfi ltac:(congruence) Hat) as (c & t & fv' & Hpc & Hfi' & Hcp).
    exists ((off, layout_size sub) :: c), t, fv'. split; [|split; auto].
    + change (path_chain l (k :: k2 :: r2)) with
        (match field_of l k with
         | Some (off, sub) => match path_chain sub (k2 :: r2) with Some (c, t) => Some ((off, layout_size sub) :: c, t) | None => None end
         | None => None end).
      rewrite Hfo, Hpc. reflexivity.
    + rewrite const_path_cons, Hg. exact Hcp.
Qed.

Lemma path_chain_cons l k r : path_chain l (k :: r) =
  match field_of l k with
  | Some (off, sub) => match path_chain sub r with Some (c, t) => Some ((off, layout_size sub) :: c, t) | None => None end
  | None => None
  end.
Proof. reflexivity. Qed.

Lemma chain_off_cons o w c : chain_off ((o, w) :: c) = o + chain_off c.
Proof. reflexivity. Qed.

Lemma path_chain_within : forall p l c t, wf_layout l = true -> path_chain l p = Some (c, t) ->
  0 <= chain_off c /\ chain_off c + layout_size t <= layout_size l /\ wf_layout t = true.
Proof.
  induction p as [|k r IH]; intros l c t Hwf Hpc.
  - simpl in Hpc. inversion Hpc; subst. unfold chain_off; simpl. split; [lia|]. split; [lia|auto].
  - rewrite path_chain_cons in Hpc. destruct (field_of l k) as [[off sub]|] eqn:Hfo; [|discriminate].
    destruct (path_chain sub r) as [[c' t']|] eqn:Hpc'; [|discriminate]. inversion Hpc; subst.
    destruct (field_of_within l k off sub Hwf Hfo) as (Ho & Hin & Hws).
    destruct (IH sub c' t Hws Hpc') as (H1 & H2 & H3). rewrite chain_off_cons. split; [lia|]. split; [lia|auto].
Qed.

(* ================================================================== views *)
Lemma view_field_const sub bits : wf_layout sub = true -> 0 <= bits < 2 ^ layout_size sub ->
  view_ok_field sub bits = true -> view_field sub bits = const_field sub bits.
Proof.
  intros Hwf Hb Hok.
  destruct sub as [s|s vw ms|fs|fs|e n|sz fs]; try (cbn [const_field view_field]; rewrite mask_small by auto; reflexivity).
  - simpl in *. unfold norm. destruct (sgn s); [reflexivity|]. rewrite mask_small by auto. reflexivity.
  - simpl in Hb, Hok. cbn [view_field const_field].
    assert ((if sgn s then sext (width s) bits else bits) = norm s bits) as ->.
    { unfold norm. destruct (sgn s); [reflexivity|]. rewrite mask_small by auto. reflexivity. }
    destruct vw; [reflexivity|]. simpl in Hok. rewrite Hok. reflexivity.
Qed.

Lemma view_getitem_field l tv k off sub : field_of l k = Some (off, sub) ->
  view_getitem l tv k = view_field sub (slice off (layout_size sub) tv).
Proof. intros Hf. unfold view_getitem. rewrite (field_of_some_layout l k _ Hf), Hf. reflexivity. Qed.

Lemma view_matches_const l tv k : wf_layout l = true ->
  (forall off sub, field_of l k = Some (off, sub) -> view_ok_field sub (slice off (layout_size sub) tv) = true) ->
  view_getitem l tv k = const_getitem l tv k.
Proof.
  intros Hwf Hok. destruct (field_of l k) as [[off sub]|] eqn:Hfo.
  - rewrite (view_getitem_field l tv k off sub Hfo).
    rewrite (const_getitem_field l tv k off sub (field_of_some_layout l k _ Hfo) Hfo).
    destruct (field_of_within l k off sub Hwf Hfo) as (Ho & _ & Hws).
    apply view_field_const; auto. apply slice_range; auto. apply layout_size_nonneg; auto.
  - unfold view_getitem, const_getitem. rewrite Hfo. reflexivity.
Qed.

(* a plain-shape field of a view: the bit slice of the underlying value, reinterpreted in the field's shape *)
Lemma view_leaf_spec l tv k off s : wf_layout l = true -> field_of l k = Some (off, Leaf s) ->
  view_getitem l tv k = Ok (Leaf s) (norm s ((tv / 2 ^ off) mod 2 ^ width s)) /\
  const_getitem l tv k = Ok (Leaf s) (norm s ((tv / 2 ^ off) mod 2 ^ width s)) /\
  (forall i, 0 <= i < width s ->
     Z.testbit (norm s ((tv / 2 ^ off) mod 2 ^ width s)) i = Z.testbit tv (off + i)).
Proof.
  intros Hwf Hfo. destruct (field_of_within l k off _ Hwf Hfo) as (Ho & _ & Hws).
  pose proof (layout_size_nonneg _ Hws) as Hw. simpl in Hw, Hws.
  assert (const_getitem l tv k = Ok (Leaf s) (norm s ((tv / 2 ^ off) mod 2 ^ width s))) as Hc.
  { rewrite (const_getitem_field l tv k off _ (field_of_some_layout l k _ Hfo) Hfo). simpl.
    rewrite slice_eq by auto. reflexivity. }
  split; [|split; auto].
  - rewrite view_matches_const; auto. intros off' sub' Hfo'. rewrite Hfo in Hfo'. inversion Hfo'; subst. reflexivity.
  - intros i Hi. rewrite testbit_norm by (auto; lia).
    fold (mask (width s) (tv / 2 ^ off)).
    destruct (sgn s).
    + replace (i <? width s) with true by lia. rewrite testbit_mask by auto.
      replace (i <? width s) with true by lia. simpl. rewrite testbit_div_pow2 by lia. f_equal. lia.
    + replace (i <? width s) with true by lia. simpl. rewrite testbit_mask by auto.
      replace (i <? width s) with true by lia. simpl. rewrite testbit_div_pow2 by lia. f_equal. lia.
Qed.

(* an enumeration field (view class) of a view, signed shapes included: the member whose value is the bit slice
   reinterpreted in the enumeration's shape — the same answer as the constant's field *)
Lemma view_enum_spec l tv k off s ms : wf_layout l = true -> field_of l k = Some (off, ELeaf s true ms) ->
  let v := norm s ((tv / 2 ^ off) mod 2 ^ width s) in
  view_getitem l tv k = const_getitem l tv k /\
  view_getitem l tv k = (if memz v ms then Ok (ELeaf s true ms) v else Err 3).
Proof.
  intros Hwf Hfo v. destruct (field_of_within l k off _ Hwf Hfo) as (Ho & _ & Hws).
  pose proof (layout_size_nonneg _ Hws) as Hw. simpl in Hw, Hws.
  assert (view_getitem l tv k = const_getitem l tv k) as Hvc.
  { apply view_matches_const; auto. intros off' sub' Hfo'. rewrite Hfo in Hfo'. inversion Hfo'; subst. reflexivity. }
  split; [exact Hvc|]. rewrite Hvc.
  rewrite (const_getitem_field l tv k off _ (field_of_some_layout l k _ Hfo) Hfo). cbn [const_field layout_size].
  rewrite slice_eq by auto. reflexivity.
Qed.

(* dynamic index within range = static index *)
Lemma view_dyn_matches e n tv idx : 0 <= idx < Z.of_nat n -> 0 < layout_size e ->
  view_getitem_dyn (Array e n) tv idx = view_getitem (Array e n) tv idx.
Proof.
  intros Hi Hw. destruct (array_elem_offset e n idx Hi) as (Hfo & _).
  rewrite (view_getitem_field _ tv idx _ _ Hfo). unfold view_getitem_dyn.
  replace (layout_size e <=? 0) with false by lia. reflexivity.
Qed.

Lemma view_path_cons l tv k r : view_path l tv (k :: r) =
  match view_getitem l tv k with
  | Ok sub v => match r with [] => Ok sub v | _ => view_path sub v r end
  | e => e
  end.
Proof. reflexivity. Qed.

Lemma view_field_layout sub bits : is_layout sub = true -> 0 <= bits < 2 ^ layout_size sub ->
  view_field sub bits = Ok sub bits.
Proof.
  intros Hl Hb. assert (from_bits sub bits = Ok sub bits) as H.
  { unfold from_bits. replace ((0 <=? bits) && (bits <? 2 ^ layout_size sub)) with true by lia. reflexivity. }
  destruct sub; simpl in Hl; try discriminate; exact H.
Qed.

(* nested view access = one slice at the summed offset *)
Lemma view_path_offset : forall p l tv c t, wf_layout l = true -> path_chain l p = Some (c, t) -> p <> [] ->
  view_path l tv p = view_field t (slice (chain_off c) (layout_size t) tv).
Proof.
  induction p as [|k r IH]; intros l tv c t Hwf Hpc Hne; [congruence|].
  rewrite path_chain_cons in Hpc. destruct (field_of l k) as [[off sub]|] eqn:Hfo; [|discriminate].
  destruct (path_chain sub r) as [[c' t']|] eqn:Hpc'; [|discriminate]. inversion Hpc; subst.
  destruct (field_of_within l k off sub Hwf Hfo) as (Ho & Hin & Hws).
  pose proof (layout_size_nonneg sub Hws) as Hsw.
  rewrite view_path_cons, (view_getitem_field l tv k off sub Hfo). rewrite chain_off_cons.
  destruct r as [|k2 r2].
  - simpl in Hpc'. inversion Hpc'; subst. unfold chain_off; simpl. rewrite Z.add_0_r.
    destruct (view_field t (slice off (layout_size t) tv)); reflexivity.
  - assert (is_layout sub = true) as Hl.
    { rewrite path_chain_cons in Hpc'. destruct (field_of sub k2) eqn:E; [|discriminate].
      apply (field_of_some_layout sub k2 _ E). }
    rewrite view_field_layout by (auto; apply slice_range; auto).
    rewrite (IH sub _ c' t Hws Hpc' ltac:(congruence)).
    destruct (path_chain_within _ sub c' t Hws Hpc') as (H1 & H2 & H3).
    rewrite slice_slice; auto. apply layout_size_nonneg; auto.
Qed.

Lemma const_path_offset : forall p l raw c t, wf_layout l = true -> path_chain l p = Some (c, t) -> p <> [] ->
  const_path l raw p = const_field t (slice (chain_off c) (layout_size t) raw).
Proof.
  induction p as [|k r IH]; intros l raw c t Hwf Hpc Hne; [congruence|].
  rewrite path_chain_cons in Hpc. destruct (field_of l k) as [[off sub]|] eqn:Hfo; [|discriminate].
  destruct (path_chain sub r) as [[c' t']|] eqn:Hpc'; [|discriminate]. inversion Hpc; subst.
  destruct (field_of_within l k off sub Hwf Hfo) as (Ho & Hin & Hws).
  pose proof (layout_size_nonneg sub Hws) as Hsw.
  rewrite const_path_cons, (const_getitem_field l raw k off sub (field_of_some_layout l k _ Hfo) Hfo).
  rewrite chain_off_cons.
  destruct r as [|k2 r2].
  - simpl in Hpc'. inversion Hpc'; subst. unfold chain_off; simpl. rewrite Z.add_0_r.
    destruct (const_field t (slice off (layout_size t) raw)); reflexivity.
  - assert (is_layout sub = true) as Hl.
    { rewrite path_chain_cons in Hpc'. destruct (field_of sub k2) eqn:E; [|discriminate].
      apply (field_of_some_layout sub k2 _ E). }
    pose proof (slice_range off (layout_size sub) raw Ho Hsw) as Hr.
    rewrite <- (mask_small _ _ Hr) at 1. rewrite const_field_layout by auto.
    rewrite (IH sub _ c' t Hws Hpc' ltac:(congruence)).
    destruct (path_chain_within _ sub c' t Hws Hpc') as (H1 & H2 & H3).
    rewrite slice_slice; auto. apply layout_size_nonneg; auto.
Qed.

(* ================================================================== assignment through a view *)
Fixpoint nested_ok (c : list (Z * Z)) (n : Z) : Prop :=
  match c with
  | [] => True
  | (o, w) :: r => 0 <= o /\ 0 <= w /\ o + w <= n /\ nested_ok r w
  end.
Fixpoint last_w (c : list (Z * Z)) (w0 : Z) : Z :=
  match c with [] => w0 | (_, w) :: r => last_w r w end.

Lemma path_chain_nested : forall p l c t, wf_layout l = true -> path_chain l p = Some (c, t) ->
  nested_ok c (layout_size l) /\ last_w c (layout_size l) = layout_size t.
Proof.
  induction p as [|k r IH]; intros l c t Hwf Hpc.
  - simpl in Hpc. inversion Hpc; subst. simpl. auto.
  - rewrite path_chain_cons in Hpc. destruct (field_of l k) as [[off sub]|] eqn:Hfo; [|discriminate].
    destruct (path_chain sub r) as [[c' t']|] eqn:Hpc'; [|discriminate]. inversion Hpc; subst.
    destruct (field_of_within l k off sub Hwf Hfo) as (Ho & Hin & Hws).
    destruct (IH sub c' t Hws Hpc') as [H1 H2]. simpl. pose proof (layout_size_nonneg sub Hws). tauto.
Qed.

Lemma land_ones_small n a : 0 <= n -> 0 <= a < 2 ^ n -> Z.land a (ones n) = a.
Proof. intros. unfold ones. rewrite mask_land by auto. apply mask_small; auto. Qed.

Lemma assign_chain_base n cur start x len : 0 <= start -> 0 <= len -> start + len <= n -> 0 <= cur < 2 ^ n ->
  assign_chain [] n cur start x len = upd start len cur x.
Proof.
  intros Hs Hl Hn Hc. simpl. replace (n <? start + len) with false by lia.
  destruct (n <=? start) eqn:E.
  - assert (len = 0) by lia. subst. rewrite upd_width0 by auto. reflexivity.
  - assert (Z.shiftl 1 (start + len) - Z.shiftl 1 start = Z.shiftl (ones len) start) as ->.
    { unfold ones. rewrite !Z.shiftl_mul_pow2 by lia. rewrite Z.pow_add_r by lia. ring. }
    fold (upd start len cur x). apply land_ones_small; [lia|]. apply upd_range; auto.
Qed.

Lemma assign_chain_rev : forall c w0 tl n cur start x len, nested_ok c w0 -> 0 < len -> 0 <= start ->
  start + len <= last_w c w0 ->
  assign_chain (rev c ++ tl) n cur start x len = assign_chain tl n cur (start + chain_off c) x len /\
  start + chain_off c + len <= w0.
Proof.
  induction c as [|[o w] r IH]; intros w0 tl n cur start x len Hok Hlen Hs Hb.
  - simpl in *. unfold chain_off; simpl. rewrite Z.add_0_r. split; [reflexivity|lia].
  - simpl in Hok, Hb. destruct Hok as (Ho & Hw & Hin & Hok).
    simpl rev. rewrite <- app_assoc. simpl app.
    destruct (IH w ((o, w) :: tl) n cur start x len Hok Hlen Hs Hb) as [Heq Hbd].
    rewrite Heq. rewrite chain_off_cons. split; [|lia].
    cbn [assign_chain]. replace (w <=? start + chain_off r) with false by lia.
    replace (w <? start + chain_off r + len) with false by lia. f_equal. lia.
Qed.

Lemma assign_chain_len0 : forall ch n cur start x, 0 <= n -> 0 <= cur < 2 ^ n -> 0 <= start ->
  Forall (fun ow => 0 <= fst ow) ch -> assign_chain ch n cur start x 0 = cur.
Proof.
  induction ch as [|[o w] r IH]; intros n cur start x Hn Hc Hs Hall.
  - simpl. destruct (n <=? start) eqn:E; [reflexivity|].
    replace (n <? start + 0) with false by lia. rewrite Z.add_0_r, Z.sub_diag.
    rewrite Z.land_0_r, Z.lor_0_r. replace (Z.lnot 0) with (-1) by reflexivity. rewrite Z.land_m1_r.
    apply land_ones_small; auto.
  - inversion Hall; subst. cbn [assign_chain]. destruct (w <=? start) eqn:E; [reflexivity|].
    replace (w <? start + 0) with false by lia. apply IH; auto. simpl in *; lia.
Qed.

Lemma nested_ok_offsets : forall c n, nested_ok c n -> Forall (fun ow => 0 <= fst ow) c.
Proof. induction c as [|[o w] r IH]; intros n H; constructor; simpl in *; [tauto|]. apply (IH w); tauto. Qed.

Lemma view_assign_upd l tv p x c t : wf_layout l = true -> 0 <= tv < 2 ^ layout_size l ->
  path_chain l p = Some (c, t) -> p <> [] ->
  view_assign l tv p x = Okz (upd (chain_off c) (layout_size t) tv x).
Proof.
  intros Hwf Htv Hpc Hne. unfold view_assign. rewrite Hpc.
  destruct (path_chain_nested p l c t Hwf Hpc) as [Hok Hlast].
  destruct (path_chain_within p l c t Hwf Hpc) as (Hc0 & Hc1 & Hwt).
  pose proof (layout_size_nonneg t Hwt) as Hw. pose proof (layout_size_nonneg l Hwf) as Hn.
  destruct c as [|ow c'] eqn:Ec.
  { destruct p; [congruence|]. rewrite path_chain_cons in Hpc. destruct (field_of l z) as [[? ?]|]; [|discriminate].
    destruct (path_chain l0 p) as [[? ?]|]; discriminate. }
  rewrite <- Ec in *. f_equal.
  destruct (Z.eq_dec (layout_size t) 0) as [E0|E0].
  - rewrite E0. rewrite upd_width0 by auto. apply assign_chain_len0; [lia|auto|lia|].
    apply Forall_rev. apply (nested_ok_offsets c _ Hok).
  - destruct (assign_chain_rev c (layout_size l) [] (layout_size l) tv 0 x (layout_size t) Hok ltac:(lia) ltac:(lia) ltac:(lia))
      as [Heq Hbd].
    rewrite app_nil_r in Heq. rewrite Heq. simpl (0 + chain_off c). apply assign_chain_base; auto; lia.
Qed.

(* assigning through a (nested) view field changes exactly that field's bits, and the field reads back
   the assigned value normalised to its shape *)
Lemma view_assign_only_field l tv p x c t : wf_layout l = true -> 0 <= tv < 2 ^ layout_size l ->
  path_chain l p = Some (c, t) -> p <> [] ->
  let off := chain_off c in let w := layout_size t in
  exists tv', view_assign l tv p x = Okz tv' /\ 0 <= tv' < 2 ^ layout_size l /\
    (forall i, 0 <= i -> Z.testbit tv' i =
        if (off <=? i) && (i <? off + w) then Z.testbit x (i - off) else Z.testbit tv i) /\
    (forall o2 w2, 0 <= o2 -> 0 <= w2 -> o2 + w2 <= off \/ off + w <= o2 -> slice o2 w2 tv' = slice o2 w2 tv) /\
    view_path l tv' p = view_field t (mask w x) /\
    (forall s, t = Leaf s -> view_path l tv' p = Ok (Leaf s) (norm s x)).
Proof.
  intros Hwf Htv Hpc Hne off w.
  destruct (path_chain_within p l c t Hwf Hpc) as (Hc0 & Hc1 & Hwt).
  pose proof (layout_size_nonneg t Hwt) as Hw.
  exists (upd off w tv x). split; [apply view_assign_upd; auto|].
  split; [apply upd_range; auto|]. split; [intros; apply testbit_upd; auto|].
  split; [intros; apply slice_upd_other; auto|].
  assert (view_path l (upd off w tv x) p = view_field t (mask w x)) as Hv.
  { rewrite (view_path_offset p l _ c t Hwf Hpc Hne). fold off w. rewrite slice_upd_same by auto. reflexivity. }
  split; [exact Hv|]. intros s ->. rewrite Hv. simpl in *. unfold w, norm. simpl.
  unfold wf_shape in Hwt. destruct (sgn s); [rewrite sext_mask by lia|]; reflexivity.
Qed.

(* ================================================================== shaped enumerations *)
Lemma enum_from_bits_const s ms raw m : wf_shape s = true -> (forall x, In x ms -> in_range s x) ->
  enum_from_bits ms raw = Okz m -> m = raw /\ enum_const s ms m = Okz raw.
Proof.
  intros Hs Hr. unfold enum_from_bits, enum_const. destruct (memz raw ms) eqn:E; [|discriminate].
  intros H; inversion H; subst. split; auto. rewrite E. rewrite norm_id; auto. apply Hr. apply memz_in; auto.
Qed.

Lemma enum_const_from_bits s ms m : wf_shape s = true -> In m ms -> in_range s m ->
  enum_const s ms m = Okz m /\ enum_from_bits ms m = Okz m.
Proof.
  intros Hs Hin Hr. apply memz_in in Hin. unfold enum_const, enum_from_bits. rewrite Hin. rewrite norm_id; auto.
Qed.

(* data.Const.__getitem__ hands from_bits the field's bit pattern read in the enumeration's shape *)
Lemma enum_pattern_roundtrip s ms m v : wf_shape s = true -> In m ms -> in_range s m ->
  enum_const s ms m = Okz v -> enum_from_bits ms (norm s (mask (width s) v)) = Okz m.
Proof.
  intros Hs Hin Hr. apply memz_in in Hin. unfold enum_const, enum_from_bits. rewrite Hin.
  intros H; inversion H; subst. rewrite norm_of_mask by auto. rewrite norm_idem by auto.
  rewrite (norm_id s m Hs Hr). rewrite Hin. reflexivity.
Qed.

(* ================================================================== flags *)
Lemma filter_implied {A} (f g : A -> bool) l : (forall x, g x = true -> f x = true) -> filter f (filter g l) = filter g l.
Proof.
  intros H. induction l as [|x r IH]; simpl; [reflexivity|]. destruct (g x) eqn:E; simpl; [|exact IH].
  rewrite (H x E). rewrite IH. reflexivity.
Qed.

Lemma am_singles_eq E : am_singles E = py_singles E.
Proof.
  unfold am_singles, py_singles. rewrite filter_implied; [reflexivity|].
  intros x. unfold is_single_bit. destruct (x =? 0); [discriminate|auto].
Qed.

Lemma bop_range w o x y : 0 <= w -> 0 <= x < 2 ^ w -> 0 <= y < 2 ^ w -> 0 <= bop_z o x y < 2 ^ w.
Proof.
  intros Hw Hx Hy. apply range_of_bits; auto. intros i Hi.
  pose proof (bits_of_range w x i Hw Hx Hi) as Bx. pose proof (bits_of_range w y i Hw Hy Hi) as By.
  destruct o; simpl; [rewrite Z.land_spec|rewrite Z.lor_spec|rewrite Z.lxor_spec]; rewrite Bx, By; reflexivity.
Qed.

Lemma flag_bop_match E o x y : 0 <= fwidth E -> 0 <= x < 2 ^ fwidth E -> 0 <= y < 2 ^ fwidth E ->
  fv_bop E o x y = py_flag_bop E o x y /\ 0 <= fv_bop_raw E o x y < 2 ^ fwidth E.
Proof.
  intros Hw Hx Hy. unfold fv_bop, py_flag_bop, fv_bop_raw. pose proof (bop_range _ o x y Hw Hx Hy) as Hr.
  rewrite mask_small by auto. auto.
Qed.

Lemma bits_for_bound n w : 0 <= n -> bits_for n false <= w -> n < 2 ^ w.
Proof.
  intros Hn Hb. unfold bits_for in Hb. destruct (0 <? n) eqn:E.
  - pose proof (bit_length_upper n Hn). pose proof (bit_length_nonneg n).
    pose proof (pow2_mono (bit_length n) w ltac:(lia)). lia.
  - assert (n = 0) by lia. subst. simpl in Hb. pose proof (pow2_pos w ltac:(lia)). lia.
Qed.

Lemma flag_not_match_strict E x : (fbound E = STRICT \/ fbound E = CONFORM) -> 0 <= fwidth E ->
  0 <= py_singles E -> bits_for (py_singles E) false <= fwidth E ->
  fv_not E x = Some (py_flag_not E x).
Proof.
  intros Hb Hw Hs0 Hsb. pose proof (bits_for_bound _ _ Hs0 Hsb) as Hs.
  unfold fv_not, fv_not_raw, py_flag_not. rewrite am_singles_eq.
  assert (Z.land (mask (fwidth E) (Z.lnot x)) (py_singles E) = Z.land (py_singles E) (Z.lnot x)) as Heq.
  { apply Z.bits_inj'; intros i Hi. rewrite !Z.land_spec, testbit_mask by auto.
    destruct (i <? fwidth E) eqn:Ei; simpl; [apply andb_comm|].
    rewrite (bits_of_range (fwidth E) (py_singles E) i) by (auto; lia). reflexivity. }
  destruct Hb as [-> | ->]; replace (fwidth E <? bits_for (py_singles E) false) with false by lia;
    rewrite Heq; reflexivity.
Qed.

Lemma lor_list_nonneg_aux l : forall a, 0 <= a -> Forall (fun m => 0 <= m) l -> 0 <= fold_left Z.lor l a.
Proof.
  induction l as [|m r IH]; intros a Ha Hall; simpl; [auto|]. inversion Hall; subst. apply IH; auto.
  apply Z.lor_nonneg; auto.
Qed.

(* EJECT / KEEP: ~ agrees when the shape spans exactly the members' bits and every bit is a flag *)
Lemma flag_not_match_keep E x : (fbound E = EJECT \/ fbound E = KEEP) -> 0 <= fwidth E ->
  Forall (fun m => 0 <= m) (fmembers E) -> flag_mask E = 2 ^ fwidth E - 1 ->
  0 <= x < 2 ^ fwidth E ->
  fv_not E x = Some (py_flag_not E x) /\ py_flag_not E x = FMem (2 ^ fwidth E - 1 - x).
Proof.
  intros Hb Hw Hnn Hfm Hx. set (w := fwidth E) in *.
  pose proof (pow2_pos w Hw) as Hp.
  assert (bit_length (2 ^ w - 1) = w) as Hbl.
  { destruct (Z.eq_dec w 0) as [->|Hw0]; [reflexivity|].
    apply Z.le_antisymm.
    - apply bit_length_min; lia.
    - pose proof (bit_length_upper (2 ^ w - 1) ltac:(lia)). pose proof (bit_length_nonneg (2 ^ w - 1)).
      destruct (Z_lt_le_dec (bit_length (2 ^ w - 1)) w); [|lia].
      pose proof (pow2_mono (bit_length (2 ^ w - 1)) (w - 1) ltac:(lia)).
      pose proof (pow2_split w ltac:(lia)). pose proof (pow2_pos (w - 1) ltac:(lia)). lia. }
  assert (all_bits E = 2 ^ w - 1) as Hab by (unfold all_bits; rewrite Hfm, Hbl; reflexivity).
  set (r := 2 ^ w - 1 - x).
  assert (mask w (Z.lnot x) = r) as Hm.
  { unfold mask, Z.lnot, r. replace (Z.pred (- x)) with (2 ^ w - 1 - x + (-1) * 2 ^ w) by lia.
    rewrite Z.mod_add by lia. apply Z.mod_small. lia. }
  (* cls(r) for 0 <= r <= all_bits *)
  assert (Hnew : forall v, 0 <= v <= 2 ^ w - 1 -> py_flag_new E v = FMem v).
  { intros v Hv. unfold py_flag_new. destruct (memz v (fmembers E)); [reflexivity|].
    rewrite Hab, Hfm. rewrite Z.lxor_nilpotent, Z.land_0_r.
    replace (negb ((Z.lnot (2 ^ w - 1) <=? v) && (v <=? 2 ^ w - 1)) || negb (0 =? 0)) with false
      by (unfold Z.lnot; lia).
    replace (v <? 0) with false by lia.
    assert (Z.land v (Z.lnot (2 ^ w - 1)) = 0) as ->.
    { apply Z.bits_inj'; intros i Hi. rewrite Z.land_spec, Z.lnot_spec, Z.bits_0 by auto.
      replace (2 ^ w - 1) with (Z.ones w) by (rewrite Z.ones_equiv; lia).
      rewrite Z.testbit_ones_nonneg by auto. destruct (i <? w) eqn:Ei; simpl; [apply andb_false_r|].
      rewrite (bits_of_range w v i) by (auto; lia). reflexivity. }
    simpl (negb (0 =? 0)). cbv iota beta.
    destruct Hb as [-> | ->]; simpl; rewrite ?andb_false_r;
      repeat match goal with |- context [if ?c then _ else _] => destruct c end; reflexivity. }
  assert (Hneg : py_flag_new E (Z.lnot x) = FMem r).
  { unfold py_flag_new.
    assert (memz (Z.lnot x) (fmembers E) = false) as ->.
    { destruct (memz (Z.lnot x) (fmembers E)) eqn:Em; [|reflexivity]. apply memz_in in Em.
      rewrite Forall_forall in Hnn. specialize (Hnn _ Em). unfold Z.lnot in Hnn. lia. }
    rewrite Hab, Hfm. rewrite Z.lxor_nilpotent, Z.land_0_r.
    replace (negb ((Z.lnot (2 ^ w - 1) <=? Z.lnot x) && (Z.lnot x <=? 2 ^ w - 1)) || negb (0 =? 0)) with false
      by (unfold Z.lnot; lia).
    replace (Z.lnot x <? 0) with true by (unfold Z.lnot; lia).
    replace (2 ^ w - 1 + 1 + Z.lnot x) with r by (unfold r, Z.lnot; lia).
    assert (Z.land r (Z.lnot (2 ^ w - 1)) = 0) as ->.
    { apply Z.bits_inj'; intros i Hi. rewrite Z.land_spec, Z.lnot_spec, Z.bits_0 by auto.
      replace (2 ^ w - 1) with (Z.ones w) by (rewrite Z.ones_equiv; lia).
      rewrite Z.testbit_ones_nonneg by auto. destruct (i <? w) eqn:Ei; simpl; [apply andb_false_r|].
      rewrite (bits_of_range w r i) by (auto; unfold r; lia). reflexivity. }
    simpl (negb (0 =? 0)). cbv iota beta.
    destruct Hb as [-> | ->]; simpl; rewrite ?andb_false_r;
      repeat match goal with |- context [if ?c then _ else _] => destruct c end; reflexivity. }
  assert (py_flag_not E x = FMem r) as Hpy.
  { unfold py_flag_not. destruct Hb as [-> | ->]; exact Hneg. }
  split; [|exact Hpy]. rewrite Hpy. unfold fv_not, fv_not_raw. fold w.
  destruct Hb as [Hb | Hb]; rewrite Hb; rewrite Hm; rewrite Hnew by (unfold r; lia); reflexivity.
Qed.

(* from_bits never alters an accepted non-negative bit pattern (CONFORM discards unknown bits by design) *)
Lemma flag_from_bits_value E raw m : 0 <= raw -> fbound E <> CONFORM ->
  flag_from_bits E raw = FMem m -> m = raw.
Proof.
  intros Hr Hb. unfold flag_from_bits, py_flag_new. cbv zeta.
  replace (raw <? 0) with false by lia.
  destruct (memz raw (fmembers E)); [intros H; inversion H; auto|].
  destruct (fbound E) eqn:EB; try congruence; rewrite ?andb_false_r;
  repeat match goal with
         | |- context [if ?c then _ else _] => destruct c eqn:?
         end; intros H; try discriminate; try (inversion H; subst; reflexivity); exfalso; lia.
Qed.

(* ================================================================== Layout.const with every initialiser kind *)
Section GFoldP.
  Context {I : Type}.
  Variable fi : layout -> I -> resz.

  Lemma gfold_preserves l : wf_layout l = true -> forall kvs cur v o w, 0 <= o -> 0 <= w ->
    (forall k', In k' (map fst kvs) -> field_disj l o w k') ->
    gfold fi l kvs cur = Okz v -> slice o w v = slice o w cur.
  Proof.
    intros Hwf. induction kvs as [|[k x] r IH]; intros cur v o w Ho Hw Hd Hf; simpl in Hf.
    - inversion Hf; subst; reflexivity.
    - destruct (Hd k ltac:(left; reflexivity)) as (o' & s' & Hfo & Hdisj). rewrite Hfo in Hf.
      destruct (fi s' x) as [fv|c] eqn:Hfi; [|discriminate].
      destruct (field_of_within l k o' s' Hwf Hfo) as (Ho' & _ & Hws).
      pose proof (layout_size_nonneg s' Hws) as Hs'.
      rewrite (IH _ _ o w Ho Hw (fun k' Hin => Hd k' (or_intror Hin)) Hf).
      apply slice_upd_other; auto; lia.
  Qed.

  Lemma gfold_field l : wf_layout l = true -> forall kvs cur v,
    keys_disjoint l (map fst kvs) = true -> gfold fi l kvs cur = Okz v ->
    forall k x, In (k, x) kvs ->
    exists off sub fv, field_of l k = Some (off, sub) /\ fi sub x = Okz fv /\
                       slice off (layout_size sub) v = mask (layout_size sub) fv.
  Proof.
    intros Hwf. induction kvs as [|[k0 x0] r IH]; intros cur v Hkd Hf k x Hin; [destruct Hin|].
    simpl map in Hkd. apply keys_disjoint_cons in Hkd. destruct Hkd as (o & s & Hfo & Hdis & Hkd).
    simpl in Hf. rewrite Hfo in Hf. destruct (fi s x0) as [fv|c] eqn:Hfi; [|discriminate].
    destruct Hin as [Heq|Hin].
    - inversion Heq; subst. exists o, s, fv. split; auto. split; auto.
      destruct (field_of_within l k o s Hwf Hfo) as (Ho & _ & Hws).
      pose proof (layout_size_nonneg s Hws) as Hs.
      rewrite (gfold_preserves l Hwf r _ v o (layout_size s) Ho Hs Hdis Hf).
      apply slice_upd_same; auto.
    - apply (IH _ v Hkd Hf k x Hin).
  Qed.

  Lemma gfold_range l : wf_layout l = true -> forall kvs cur v,
    0 <= cur < 2 ^ layout_size l -> gfold fi l kvs cur = Okz v -> 0 <= v < 2 ^ layout_size l.
  Proof.
    intros Hwf. induction kvs as [|[k x] r IH]; intros cur v Hc Hf; simpl in Hf.
    - inversion Hf; subst; auto.
    - destruct (field_of l k) as [[o s]|] eqn:Hfo; [|discriminate].
      destruct (fi s x) as [fv|c]; [|discriminate].
      destruct (field_of_within l k o s Hwf Hfo) as (Ho & Hin & Hws).
      pose proof (layout_size_nonneg s Hws) as Hs.
      eapply IH; [|exact Hf]. apply upd_range; auto.
  Qed.

  Lemma gfold_app l : forall a b cur, gfold fi l (a ++ b) cur =
    match gfold fi l a cur with Okz v => gfold fi l b v | e => e end.
  Proof.
    induction a as [|[k x] r IH]; intros b cur; simpl; [reflexivity|].
    destruct (field_of l k) as [[o s]|]; [|reflexivity]. destruct (fi s x); [apply IH|reflexivity].
  Qed.

  (* whatever overlaps: the initialiser written last fully determines its field's bits *)
  Lemma gfold_last l kvs k x cur v : wf_layout l = true -> gfold fi l (kvs ++ [(k, x)]) cur = Okz v ->
    exists off sub fv, field_of l k = Some (off, sub) /\ fi sub x = Okz fv /\
                       slice off (layout_size sub) v = mask (layout_size sub) fv.
  Proof.
    intros Hwf H. rewrite gfold_app in H. destruct (gfold fi l kvs cur) as [v0|]; [|discriminate].
    simpl in H. destruct (field_of l k) as [[o s]|] eqn:Hfo; [|discriminate].
    destruct (fi s x) as [fv|] eqn:Hfi; [|discriminate]. inversion H; subst.
    exists o, s, fv. split; auto. split; auto.
    destruct (field_of_within l k o s Hwf Hfo) as (Ho & _ & Hws).
    apply slice_upd_same; auto. apply layout_size_nonneg; auto.
  Qed.
End GFoldP.

Lemma const_fold_gfold rec l : forall kvs cur, const_fold rec l kvs cur = gfold (field_init rec) l kvs cur.
Proof.
  induction kvs as [|[k x] r IH]; intros cur; simpl; [reflexivity|].
  destruct (field_of l k) as [[o s]|]; [|reflexivity]. destruct (field_init rec s x); [apply IH|reflexivity].
Qed.

Lemma xlayout_const_map l kvs : xlayout_const l (XMap kvs) =
  if negb (is_layout l) then Errz 4
  else if is_union l && (1 <? Z.of_nat (length kvs)) then Errz 3
  else gfold (xfield_init xlayout_const) l kvs 0.
Proof. reflexivity. Qed.

Lemma xlayout_const_fold l kvs v : xlayout_const l (XMap kvs) = Okz v ->
  is_layout l = true /\ gfold (xfield_init xlayout_const) l kvs 0 = Okz v.
Proof.
  rewrite xlayout_const_map. destruct (is_layout l); simpl; [|discriminate].
  destruct (is_union l && (1 <? Z.of_nat (length kvs))); [discriminate|auto].
Qed.

Lemma xlayout_const_range l i v : wf_layout l = true -> xlayout_const l i = Okz v -> 0 <= v < 2 ^ layout_size l.
Proof.
  intros Hwf H. destruct i as [x|kvs|x c|l' r]; try discriminate.
  apply xlayout_const_fold in H. destruct H as [_ H].
  apply (gfold_range (xfield_init xlayout_const) l Hwf kvs 0 v); auto.
  pose proof (pow2_pos (layout_size l) (layout_size_nonneg l Hwf)). lia.
Qed.

Lemma layout_eqb_size a b : layout_eqb a b = true -> layout_size a = layout_size b.
Proof. unfold layout_eqb. rewrite !andb_true_iff. intros [[[H _] _] _]. lia. Qed.

(* one level, any initialiser kind *)
Lemma xconst_field_roundtrip l kvs v k x : wf_layout l = true ->
  xlayout_const l (XMap kvs) = Okz v -> keys_disjoint l (map fst kvs) = true -> In (k, x) kvs ->
  exists off sub fv, field_of l k = Some (off, sub) /\ xfield_init xlayout_const sub x = Okz fv /\
                     const_getitem l v k = const_field sub (mask (layout_size sub) fv).
Proof.
  intros Hwf Hc Hkd Hin. apply xlayout_const_fold in Hc. destruct Hc as [Hl Hc].
  destruct (gfold_field (xfield_init xlayout_const) l Hwf kvs 0 v Hkd Hc k x Hin) as (off & sub & fv & Hfo & Hfi & Hs).
  exists off, sub, fv. split; auto. split; auto. rewrite (const_getitem_field l v k off sub Hl Hfo). rewrite Hs. reflexivity.
Qed.

(* the same for the initialiser that comes last, with arbitrary overlaps (flexible layouts) *)
Lemma xconst_last_wins l kvs k x v : wf_layout l = true -> xlayout_const l (XMap (kvs ++ [(k, x)])) = Okz v ->
  exists off sub fv, field_of l k = Some (off, sub) /\ xfield_init xlayout_const sub x = Okz fv /\
                     const_getitem l v k = const_field sub (mask (layout_size sub) fv).
Proof.
  intros Hwf Hc. apply xlayout_const_fold in Hc. destruct Hc as [Hl Hc].
  destruct (gfold_last (xfield_init xlayout_const) l kvs k x 0 v Hwf Hc) as (off & sub & fv & Hfo & Hfi & Hs).
  exists off, sub, fv. split; auto. split; auto. rewrite (const_getitem_field l v k off sub Hl Hfo). rewrite Hs. reflexivity.
Qed.

(* what each initialiser kind reads back as, given the inserted integer fv of xfield_init *)
Lemma xfield_readback sub x fv : wf_layout sub = true -> xfield_init xlayout_const sub x = Okz fv ->
  (forall s, sub = Leaf s ->
     (forall xv, x = XVal xv -> const_field sub (mask (layout_size sub) fv) = Ok sub (norm s xv)) /\
     (forall cv c, x = XConst cv c -> const_field sub (mask (layout_size sub) fv) = Ok sub (norm s (norm c cv)))) /\
  (is_layout sub = true ->
     (forall kvs, x = XMap kvs -> xlayout_const sub x = Okz fv /\ const_field sub (mask (layout_size sub) fv) = Ok sub fv) /\
     (forall l' raw, x = XDConst l' raw -> 0 <= raw < 2 ^ layout_size l' ->
        fv = raw /\ layout_eqb sub l' = true /\ const_field sub (mask (layout_size sub) fv) = Ok sub raw)) /\
  (forall s vw ms m, sub = ELeaf s vw ms -> x = XVal m -> in_range s m ->
     const_field sub (mask (layout_size sub) fv) = Ok sub m).
Proof.
  intros Hwf Hfi. split; [|split].
  - intros s ->. simpl in Hwf. split.
    + intros xv ->. simpl in Hfi. inversion Hfi; subst. apply const_field_leaf; auto.
    + intros cv c ->. simpl in Hfi. inversion Hfi; subst. simpl. rewrite norm_of_mask by auto. reflexivity.
  - intros Hl. split.
    + intros kvs ->. assert (xlayout_const sub (XMap kvs) = Okz fv) as Hx.
      { destruct sub; simpl in Hl; try discriminate; exact Hfi. }
      split; auto. apply const_field_layout; auto. apply (xlayout_const_range sub _ fv Hwf Hx).
    + intros l' raw -> Hr.
      assert (layout_eqb sub l' = true /\ fv = raw) as [He ->].
      { destruct sub as [s|s vw ms|fs|fs|e n|sz fs]; simpl in Hl; try discriminate; cbn [xfield_init] in Hfi;
        destruct (layout_eqb _ l'); inversion Hfi; auto. }
      split; auto. split; auto. apply const_field_layout; auto. rewrite (layout_eqb_size _ _ He). exact Hr.
  - intros s vw ms m -> -> Hm. simpl in Hfi, Hwf. destruct (memz m ms) eqn:Hmem; [|discriminate].
    inversion Hfi; subst. simpl layout_size. apply const_field_enum; auto.
Qed.

(* the read-back clauses for every initialiser kind, from the facts delivered by the fold lemmas *)
Definition xreadback (l : layout) (v k : Z) (sub : layout) (x : xinit) : Prop :=
  (forall s xv, sub = Leaf s -> x = XVal xv -> const_getitem l v k = Ok sub (norm s xv)) /\
  (forall s cv c, sub = Leaf s -> x = XConst cv c -> const_getitem l v k = Ok sub (norm s (norm c cv))) /\
  (forall kvs', is_layout sub = true -> x = XMap kvs' ->
     exists fv, xlayout_const sub x = Okz fv /\ const_getitem l v k = Ok sub fv) /\
  (forall l' raw, is_layout sub = true -> x = XDConst l' raw -> 0 <= raw < 2 ^ layout_size l' ->
     layout_eqb sub l' = true /\ const_getitem l v k = Ok sub raw) /\
  (forall s vw ms m, sub = ELeaf s vw ms -> x = XVal m -> in_range s m ->
     const_getitem l v k = Ok sub m).

Lemma xreadback_pack l v k off sub fv x : wf_layout l = true -> field_of l k = Some (off, sub) ->
  xfield_init xlayout_const sub x = Okz fv ->
  const_getitem l v k = const_field sub (mask (layout_size sub) fv) -> xreadback l v k sub x.
Proof.
  intros Hwf Hfo Hfi Hg. destruct (field_of_within l k off sub Hwf Hfo) as (_ & _ & Hws).
  destruct (xfield_readback sub x fv Hws Hfi) as (HL & HN & HE). unfold xreadback. rewrite Hg.
  split; [|split; [|split; [|split]]].
  - intros s xv Hs Hx. apply (proj1 (HL s Hs) xv Hx).
  - intros s cv c Hs Hx. apply (proj2 (HL s Hs) cv c Hx).
  - intros kvs' Hl Hx. exists fv. apply (proj1 (HN Hl) kvs' Hx).
  - intros l' raw Hl Hx Hr. destruct (proj2 (HN Hl) l' raw Hx Hr) as (_ & He & Hc). auto.
  - intros s vw ms m Hs Hx Hm. apply (HE s vw ms m Hs Hx Hm).
Qed.

(* a lib.data.Const of the same union layout is accepted by a union-shaped field (UnionLayout.const no longer
   takes len() of it) and passes through unchanged; one of a layout that compares different is a ValueError *)
Lemma shape_eqb_refl s : shape_eqb s s = true.
Proof. unfold shape_eqb. rewrite Z.eqb_refl. destruct (sgn s); reflexivity. Qed.

Lemma layout_eqb_union_refl fs : wf_layout (Union fs) = true -> layout_eqb (Union fs) (Union fs) = true.
Proof.
  intros Hwf. pose proof (wf_union_inv fs Hwf) as [Hnd _]. unfold layout_eqb.
  rewrite Z.eqb_refl, Nat.eqb_refl. cbn [is_array Bool.eqb orb andb]. rewrite andb_true_r.
  apply forallb_forall. intros [k [o f]] Hin. cbn [fst snd].
  rewrite (in_assoc_nodup k (o, f) (fields_of (Union fs))); auto.
  - unfold field_eqb. cbn [fst snd]. rewrite Z.eqb_refl, shape_eqb_refl. reflexivity.
  - simpl. rewrite map_map. simpl. exact Hnd.
Qed.

Lemma union_const_passthrough rec fs l' raw : wf_layout (Union fs) = true ->
  xfield_init rec (Union fs) (XDConst (Union fs) raw) = Okz raw /\
  (layout_eqb (Union fs) l' = false -> xfield_init rec (Union fs) (XDConst l' raw) = Errz 3).
Proof.
  intros Hwf. cbn [xfield_init]. rewrite (layout_eqb_union_refl fs Hwf). split; [reflexivity|].
  intros ->. reflexivity.
Qed.

(* ================================================================== designs assigning through views *)
Definition sasg_ok (l : layout) (a : sasg) : Prop :=
  sa_ix a = None /\ sa_path a <> [] /\ exists c t, path_chain l (sa_path a) = Some (c, t).

Lemma asg_apply_static l env cur a c t : wf_layout l = true -> 0 <= cur < 2 ^ layout_size l ->
  sa_ix a = None -> sa_path a <> [] -> path_chain l (sa_path a) = Some (c, t) ->
  asg_apply l env cur a = upd (chain_off c) (layout_size t) cur (nth (sa_in a) env 0).
Proof.
  intros Hwf Hc Hix Hne Hpc. unfold asg_apply. rewrite Hix.
  rewrite (view_assign_upd l cur (sa_path a) _ c t Hwf Hc Hpc Hne). reflexivity.
Qed.

(* bits outside every assigned field keep the value they had (their own driver / init); the value stays in range *)
Lemma asgs_apply_outside l env : wf_layout l = true -> forall asgs cur, 0 <= cur < 2 ^ layout_size l ->
  (forall a, In a asgs -> sasg_ok l a) ->
  0 <= asgs_apply l env cur asgs < 2 ^ layout_size l /\
  forall i, 0 <= i ->
    (forall a c t, In a asgs -> path_chain l (sa_path a) = Some (c, t) ->
                   ~ (chain_off c <= i < chain_off c + layout_size t)) ->
    Z.testbit (asgs_apply l env cur asgs) i = Z.testbit cur i.
Proof.
  intros Hwf. induction asgs as [|a r IH]; intros cur Hc Hok.
  - simpl. split; auto.
  - destruct (Hok a (or_introl eq_refl)) as (Hix & Hne & c & t & Hpc).
    destruct (path_chain_within _ l c t Hwf Hpc) as (H0 & H1 & Hwt).
    pose proof (layout_size_nonneg t Hwt) as Hw.
    unfold asgs_apply. cbn [fold_left]. fold (asgs_apply l env (asg_apply l env cur a) r).
    rewrite (asg_apply_static l env cur a c t Hwf Hc Hix Hne Hpc).
    assert (Hr : 0 <= upd (chain_off c) (layout_size t) cur (nth (sa_in a) env 0) < 2 ^ layout_size l)
      by (apply upd_range; auto).
    destruct (IH _ Hr (fun a' Hin => Hok a' (or_intror Hin))) as [IHr IHb]. split; auto.
    intros i Hi Hout. rewrite IHb; auto.
    + rewrite testbit_upd by auto. specialize (Hout a c t (or_introl eq_refl) Hpc).
      replace ((chain_off c <=? i) && (i <? chain_off c + layout_size t)) with false by lia. reflexivity.
    + intros a' c' t' Hin. apply Hout. right; auto.
Qed.

(* the statement that comes last determines its field: it reads back the assigned value in the field's shape *)
Lemma asgs_apply_last l env asgs a cur c t : wf_layout l = true -> 0 <= cur < 2 ^ layout_size l ->
  (forall a', In a' asgs -> sasg_ok l a') -> sa_ix a = None -> sa_path a <> [] ->
  path_chain l (sa_path a) = Some (c, t) ->
  let r := asgs_apply l env cur (asgs ++ [a]) in
  view_path l r (sa_path a) = view_field t (mask (layout_size t) (nth (sa_in a) env 0)) /\
  (forall s, t = Leaf s -> view_path l r (sa_path a) = Ok (Leaf s) (norm s (nth (sa_in a) env 0))).
Proof.
  intros Hwf Hc Hok Hix Hne Hpc r. unfold r, asgs_apply. rewrite fold_left_app. cbn [fold_left].
  fold (asgs_apply l env cur asgs).
  destruct (asgs_apply_outside l env Hwf asgs cur Hc Hok) as [Hr _].
  unfold asg_apply. rewrite Hix.
  destruct (view_assign_only_field l (asgs_apply l env cur asgs) (sa_path a) (nth (sa_in a) env 0) c t Hwf Hr Hpc Hne)
    as (tv' & Hva & _ & _ & _ & Hv & Hl).
  rewrite Hva. split; auto.
Qed.

(* ================================================================== ~ under EJECT / KEEP, exactly *)
Lemma bit_length_opp n : bit_length (- n) = bit_length n.
Proof. unfold bit_length. rewrite Z.abs_opp. destruct (n =? 0) eqn:E; [replace (- n =? 0) with true by lia|replace (- n =? 0) with false by lia]; reflexivity. Qed.

Lemma flag_mask_nonneg E : Forall (fun m => 0 <= m) (fmembers E) -> 0 <= flag_mask E.
Proof. intros. unfold flag_mask, lor_list. apply lor_list_nonneg_aux; auto; lia. Qed.

Section FlagFacts.
  Variable E : flagcls.
  Hypothesis Hnn : Forall (fun m => 0 <= m) (fmembers E).
  Let fm := flag_mask E.
  Let k := bit_length fm.
  Let ab := all_bits E.
  Let h := Z.lxor ab fm.

  Lemma ff_k : 0 <= k. Proof. apply bit_length_nonneg. Qed.
  Lemma ff_ab : ab = 2 ^ k - 1. Proof. reflexivity. Qed.
  Lemma ff_fm : 0 <= fm <= ab.
  Proof. pose proof (flag_mask_nonneg E Hnn). pose proof (bit_length_upper fm H). fold k in H0. rewrite ff_ab. unfold fm. lia. Qed.
  Lemma ff_pow : 0 < 2 ^ k. Proof. apply pow2_pos. apply ff_k. Qed.

  Lemma ff_ab_bits i : 0 <= i -> Z.testbit ab i = (i <? k).
  Proof.
    intros. rewrite ff_ab. replace (2 ^ k - 1) with (Z.ones k) by (rewrite Z.ones_equiv; lia).
    apply Z.testbit_ones_nonneg; auto. apply ff_k.
  Qed.

  Lemma ff_h : 0 <= h < 2 ^ k.
  Proof.
    apply range_of_bits; [apply ff_k|]. intros i Hi. unfold h. rewrite Z.lxor_spec, ff_ab_bits by (pose proof ff_k; lia).
    replace (i <? k) with false by lia. pose proof ff_fm. pose proof ff_pow.
    rewrite (bits_of_range k fm i); auto; [apply ff_k|rewrite ff_ab in H; lia].
  Qed.

  Lemma land_low_eq a b m : 0 <= m < 2 ^ k -> a mod 2 ^ k = b mod 2 ^ k -> Z.land a m = Z.land b m.
  Proof.
    intros Hm Hab. pose proof ff_k. apply Z.bits_inj'; intros i Hi. rewrite !Z.land_spec.
    destruct (Z_lt_le_dec i k).
    - rewrite <- (Z.mod_pow2_bits_low a k i), <- (Z.mod_pow2_bits_low b k i) by lia. rewrite Hab. reflexivity.
    - rewrite (bits_of_range k m i) by (auto; lia). rewrite !andb_false_r. reflexivity.
  Qed.

  Lemma ff_unknown0 v : 0 <= v <= ab -> Z.land v h = 0 -> Z.land v (Z.lnot fm) = 0.
  Proof.
    intros Hv Hh. pose proof ff_k. pose proof ff_pow. apply Z.bits_inj'; intros i Hi.
    rewrite Z.land_spec, Z.lnot_spec, Z.bits_0 by auto.
    destruct (Z_lt_le_dec i k).
    - assert (Z.testbit (Z.land v h) i = false) as Hb by (rewrite Hh; apply Z.bits_0).
      rewrite Z.land_spec in Hb. unfold h in Hb. rewrite Z.lxor_spec, ff_ab_bits in Hb by auto.
      replace (i <? k) with true in Hb by lia. simpl in Hb. exact Hb.
    - rewrite (bits_of_range k v i) by (auto; rewrite ff_ab in Hv; lia). reflexivity.
  Qed.

  (* cls(v) under EJECT / KEEP, in closed form *)
  Lemma new_ek v : fbound E = EJECT \/ fbound E = KEEP ->
    py_flag_new E v =
    if memz v (fmembers E) then FMem v
    else if flag_bad E v then
           match fbound E with
           | EJECT => FInt v
           | _ => let v1 := if v <? 0 then Z.max (ab + 1) (2 ^ bit_length v) + v else v in
                  FMem (if v1 <? 0 then ab + 1 + v1 else v1)
           end
         else let v2 := if v <? 0 then ab + 1 + v else v in
              if (match fbound E with EJECT => true | _ => false end) && negb (Z.land v2 (Z.lnot fm) =? 0)
              then FErr else FMem v2.
  Proof.
    intros Hb. unfold py_flag_new, flag_bad. fold fm ab. cbv zeta.
    destruct (memz v (fmembers E)); [reflexivity|].
    destruct (negb ((Z.lnot ab <=? v) && (v <=? ab)) || negb (Z.land v (Z.lxor ab fm) =? 0)) eqn:Ebad.
    - destruct Hb as [-> | ->]; [reflexivity|]. simpl.
      rewrite ?andb_false_r, ?andb_true_r.
      repeat match goal with |- context [if ?c then _ else _] => destruct c eqn:? end; reflexivity.
    - destruct Hb as [-> | ->]; simpl; rewrite ?andb_false_r, ?andb_true_r;
      repeat match goal with |- context [if ?c then _ else _] => destruct c eqn:? end;
      try reflexivity; try discriminate; exfalso; lia.
  Qed.
End FlagFacts.

Section Invert.
  Variable E : flagcls.
  Hypothesis Hnn : Forall (fun m => 0 <= m) (fmembers E).
  Hypothesis Hw : 0 <= fwidth E.
  Let w := fwidth E.
  Let fm := flag_mask E.
  Let k := bit_length fm.
  Let ab := all_bits E.
  Let h := Z.lxor ab fm.

  Lemma neg_not_member v : v < 0 -> memz v (fmembers E) = false.
  Proof.
    intros Hv. destruct (memz v (fmembers E)) eqn:Em; [|reflexivity]. apply memz_in in Em.
    rewrite Forall_forall in Hnn. specialize (Hnn _ Em). lia.
  Qed.

  Lemma fv_not_raw_ek x : fbound E = EJECT \/ fbound E = KEEP -> 0 <= x < 2 ^ w ->
    fv_not E x = Some (py_flag_new E (2 ^ w - 1 - x)).
  Proof.
    intros Hb Hx. unfold fv_not, fv_not_raw. fold w.
    assert (mask w (Z.lnot x) = 2 ^ w - 1 - x) as Hm.
    { unfold mask, Z.lnot. replace (Z.pred (- x)) with (2 ^ w - 1 - x + (-1) * 2 ^ w) by lia.
      rewrite Z.mod_add by lia. apply Z.mod_small. lia. }
    destruct Hb as [Hb | Hb]; rewrite Hb, Hm; reflexivity.
  Qed.

  Lemma py_not_ek x : fbound E = EJECT \/ fbound E = KEEP -> py_flag_not E x = py_flag_new E (Z.lnot x).
  Proof. intros [Hb | Hb]; unfold py_flag_not; rewrite Hb; reflexivity. Qed.

  (* cls(r) for r >= 0 under KEEP *)
  Lemma new_keep_nonneg r : fbound E = KEEP -> 0 <= r -> py_flag_new E r = FMem r.
  Proof.
    intros Hb Hr. rewrite (new_ek E r (or_intror Hb)). rewrite Hb. cbv zeta.
    replace (r <? 0) with false by lia. simpl andb.
    destruct (memz r (fmembers E)); [reflexivity|]. destruct (flag_bad E r); [|reflexivity].
    replace (r <? 0) with false by lia. reflexivity.
  Qed.

  (* Python's ~F(0) under KEEP is always the member with every bit up to all_bits *)
  Lemma py_not_keep_0 : fbound E = KEEP -> py_flag_not E 0 = FMem ab.
  Proof.
    intros Hb. rewrite (py_not_ek 0 (or_intror Hb)). change (Z.lnot 0) with (-1).
    rewrite (new_ek E (-1) (or_intror Hb)). rewrite (neg_not_member (-1)) by lia. rewrite Hb. cbv zeta.
    fold ab. pose proof (ff_pow E) as Hp. pose proof (ff_ab E) as Hab. fold ab in Hab. fold fm k in Hp, Hab.
    change (-1 <? 0) with true. cbv iota.
    destruct (flag_bad E (-1)) eqn:Ebad.
    - change (bit_length (-1)) with 1. change (2 ^ 1) with 2.
      assert (2 <= ab + 1) as H2.
      { unfold flag_bad in Ebad. fold ab fm in Ebad. rewrite Z.land_m1_l in Ebad.
        replace ((Z.lnot ab <=? -1) && (-1 <=? ab)) with true in Ebad by (unfold Z.lnot; lia). simpl in Ebad.
        destruct (Z.eq_dec k 0) as [E0|E0]; [|pose proof (pow2_mono 1 k ltac:(pose proof (ff_k E); fold fm k in H; lia)); change (2 ^ 1) with 2 in *; lia].
        exfalso. pose proof (ff_h E Hnn) as Hh. fold fm k ab in Hh. rewrite E0 in Hh. simpl in Hh.
        assert (Z.lxor ab fm = 0) by lia. rewrite H in Ebad. discriminate. }
      rewrite Z.max_l by lia. replace (ab + 1 + -1 <? 0) with false by lia. f_equal. lia.
    - simpl andb. cbv iota. f_equal. lia.
  Qed.

  (* KEEP: ~view agrees with Python for every value iff the shape is exactly as wide as the members' bits *)
  Lemma flag_not_keep_iff : fbound E = KEEP ->
    (ab + 1 = 2 ^ w -> forall x, 0 <= x < 2 ^ w ->
        fv_not E x = Some (py_flag_not E x) /\ py_flag_not E x = FMem (2 ^ w - 1 - x)) /\
    (ab + 1 <> 2 ^ w -> fv_not E 0 = Some (FMem (2 ^ w - 1)) /\ py_flag_not E 0 = FMem ab /\
                        fv_not E 0 <> Some (py_flag_not E 0)).
  Proof.
    intros Hb. pose proof (pow2_pos w Hw) as Hpw. split.
    - intros Hab x Hx. rewrite (fv_not_raw_ek x (or_intror Hb) Hx). rewrite new_keep_nonneg by (auto; lia).
      enough (py_flag_not E x = FMem (2 ^ w - 1 - x)) as -> by auto.
      rewrite (py_not_ek x (or_intror Hb)). set (v := Z.lnot x). assert (v = - x - 1) as Hv by (unfold v, Z.lnot; lia).
      rewrite (new_ek E v (or_intror Hb)). rewrite (neg_not_member v) by lia. rewrite Hb. cbv zeta. fold ab.
      replace (v <? 0) with true by lia. simpl andb. cbv iota.
      pose proof (ff_ab E) as Hk. fold ab fm k in Hk. pose proof (ff_k E) as Hk0. fold fm k in Hk0.
      destruct (flag_bad E v) eqn:Ebad.
      + (* a hole bit is set in ~x: then x + 1 < 2^k *)
        assert (x + 1 < 2 ^ k) as Hlt.
        { destruct (Z_lt_le_dec (x + 1) (2 ^ k)); auto. exfalso.
          assert (v = - 2 ^ k) by lia. unfold flag_bad in Ebad. fold ab fm in Ebad.
          replace ((Z.lnot ab <=? v) && (v <=? ab)) with true in Ebad by (unfold Z.lnot; lia). simpl in Ebad.
          rewrite (land_low_eq E v 0 (Z.lxor ab fm)) in Ebad.
          - rewrite Z.land_0_l in Ebad. discriminate.
          - apply (ff_h E Hnn).
          - fold fm k. rewrite H. replace (- 2 ^ k) with (0 + (-1) * 2 ^ k) by lia. rewrite Z.mod_add by lia. reflexivity. }
        assert (bit_length v <= k) as Hbl.
        { replace v with (- (x + 1)) by lia. rewrite bit_length_opp. apply bit_length_min; lia. }
        pose proof (pow2_mono (bit_length v) k ltac:(pose proof (bit_length_nonneg v); lia)).
        rewrite Z.max_l by lia. replace (ab + 1 + v <? 0) with false by lia. f_equal. lia.
      + f_equal. lia.
    - intros Hab. rewrite (fv_not_raw_ek 0 (or_intror Hb)) by lia. rewrite new_keep_nonneg by (auto; lia).
      rewrite (py_not_keep_0 Hb). replace (2 ^ w - 1 - 0) with (2 ^ w - 1) by lia.
      split; [reflexivity|]. split; [reflexivity|]. intros H; inversion H. lia.
  Qed.

  (* cls(r) for r >= 0 under EJECT is the member or the ejected int with the same value *)
  Lemma new_eject_nonneg r : fbound E = EJECT -> 0 <= r ->
    (py_flag_new E r = FMem r \/ py_flag_new E r = FInt r) /\
    (r <= ab -> Z.land r h = 0 -> py_flag_new E r = FMem r).
  Proof.
    intros Hb Hr. rewrite (new_ek E r (or_introl Hb)). rewrite Hb. cbv zeta.
    replace (r <? 0) with false by lia. fold ab fm.
    destruct (memz r (fmembers E)); [auto|].
    destruct (flag_bad E r) eqn:Ebad.
    - split; [auto|]. intros Hle Hh. exfalso. unfold flag_bad in Ebad. fold ab fm h in Ebad. rewrite Hh in Ebad.
      replace ((Z.lnot ab <=? r) && (r <=? ab)) with true in Ebad by (unfold Z.lnot; lia). discriminate.
    - assert (Z.land r (Z.lnot fm) = 0) as ->.
      { unfold flag_bad in Ebad. fold ab fm h in Ebad. apply (ff_unknown0 E); fold ab fm h; [|lia]. unfold Z.lnot in Ebad. lia. }
      simpl. auto.
  Qed.

  (* EJECT: for every value, ~view agrees with Python iff the shape is exactly as wide as the members' bits and
     ~x sets no bit that is not a flag *)
  Lemma flag_not_eject_iff x : fbound E = EJECT -> 0 <= x < 2 ^ w ->
    (fv_not E x = Some (py_flag_not E x) <-> (ab + 1 = 2 ^ w /\ Z.land (Z.lnot x) h = 0)).
  Proof.
    intros Hb Hx. pose proof (pow2_pos w Hw) as Hpw.
    rewrite (fv_not_raw_ek x (or_introl Hb) Hx). rewrite (py_not_ek x (or_introl Hb)).
    set (v := Z.lnot x). assert (v = - x - 1) as Hv by (unfold v, Z.lnot; lia).
    set (r := 2 ^ w - 1 - x). assert (0 <= r) as Hr by (unfold r; lia).
    pose proof (ff_ab E) as Hk. fold ab fm k in Hk. pose proof (ff_k E) as Hk0. fold fm k in Hk0.
    pose proof (ff_pow E) as Hpk. fold fm k in Hpk.
    assert (Hpy : py_flag_new E v = if flag_bad E v then FInt v else FMem (ab - x)).
    { rewrite (new_ek E v (or_introl Hb)). rewrite (neg_not_member v) by lia. rewrite Hb. cbv zeta. fold ab fm.
      replace (v <? 0) with true by lia. destruct (flag_bad E v) eqn:Ebad; [reflexivity|].
      unfold flag_bad in Ebad. fold ab fm h in Ebad.
      assert (Z.land (ab + 1 + v) (Z.lnot fm) = 0) as ->.
      { apply (ff_unknown0 E); fold ab fm h; [unfold Z.lnot in Ebad; lia|].
        rewrite (land_low_eq E (ab + 1 + v) v h); [lia|apply (ff_h E Hnn)|].
        fold fm k. replace (ab + 1 + v) with (v + 1 * 2 ^ k) by lia. apply Z.mod_add. lia. }
      simpl. f_equal. lia. }
    rewrite Hpy. destruct (new_eject_nonneg r Hb Hr) as [Hor Hok]. split.
    - intros H. inversion H as [H1]. destruct (flag_bad E v) eqn:Ebad.
      + exfalso. destruct Hor as [Ho | Ho]; rewrite Ho in H1; inversion H1. lia.
      + unfold flag_bad in Ebad. fold ab fm h in Ebad.
        destruct Hor as [Ho | Ho]; rewrite Ho in H1; inversion H1. unfold r in *. split; [lia|]. lia.
    - intros [Hab Hh]. assert (flag_bad E v = false) as ->.
      { unfold flag_bad. fold ab fm h. rewrite Hh. replace ((Z.lnot ab <=? v) && (v <=? ab)) with true by (unfold Z.lnot; lia). reflexivity. }
      f_equal. replace (ab - x) with r by (unfold r; lia). apply Hok; [unfold r; lia|].
      rewrite (land_low_eq E r v h); [exact Hh|apply (ff_h E Hnn)|].
      fold fm k. replace r with (v + 1 * 2 ^ k) by (unfold r; lia). apply Z.mod_add. lia.
  Qed.
End Invert.

(* STRICT / CONFORM: when the single-bit flags do not fit the shape the operator is refused (TypeError) *)
Lemma flag_not_strict_refused E x : (fbound E = STRICT \/ fbound E = CONFORM) ->
  fwidth E < bits_for (py_singles E) false -> fv_not E x = None.
Proof.
  intros Hb Hlt. unfold fv_not, fv_not_raw. rewrite am_singles_eq.
  destruct Hb as [-> | ->]; replace (fwidth E <? bits_for (py_singles E) false) with true by lia; reflexivity.
Qed.

(* a shaped Flag class as an enumeration leaf: its member list is exactly the accepted, unchanged bit patterns *)
Lemma flag_values_spec E v : 0 <= fwidth E -> 0 <= v < 2 ^ fwidth E ->
  (memz v (flag_values E) = true <-> flag_from_bits E v = FMem v).
Proof.
  intros Hw Hv. rewrite memz_in. unfold flag_values, flag_from_bits. rewrite filter_In. split.
  - intros [_ H]. destruct (py_flag_new E v) as [m| |]; try discriminate. f_equal. lia.
  - intros H. split.
    + apply in_map_iff. exists (Z.to_nat v). split; [lia|]. apply in_seq. lia.
    + rewrite H. apply Z.eqb_refl.
Qed.

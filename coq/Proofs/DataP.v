(* DataP.v — proofs about Model/Data.v (lib.data layouts, constants, views; lib.enum). *)
From Coq Require Import ZArith List Bool Lia ZifyBool.
From V.Model Require Import Bits Shape Data.
From V.Proofs Require Import BitsP.
Import ListNotations.
Open Scope Z_scope.

(* ================================================================== bit-slice primitives *)
Lemma ones_eq w : 0 <= w -> ones w = 2 ^ w - 1.
Proof. intros; unfold ones. rewrite Z.shiftl_1_l. reflexivity. Qed.

Lemma ones_Zones w : 0 <= w -> ones w = Z.ones w.
Proof. intros; rewrite ones_eq by auto. rewrite Z.ones_equiv. lia. Qed.

Lemma testbit_ones w i : 0 <= w -> 0 <= i -> Z.testbit (ones w) i = (i <? w).
Proof. intros. rewrite ones_Zones by auto. apply Z.testbit_ones_nonneg; auto. Qed.

Lemma slice_eq off w v : 0 <= off -> 0 <= w -> slice off w v = (v / 2 ^ off) mod 2 ^ w.
Proof.
  intros. unfold slice. rewrite ones_Zones by auto. rewrite Z.land_ones by auto.
  rewrite Z.shiftr_div_pow2 by auto. reflexivity.
Qed.

Lemma slice_mask off w v : 0 <= off -> 0 <= w -> slice off w v = mask w (v / 2 ^ off).
Proof. intros; rewrite slice_eq by auto; reflexivity. Qed.

Lemma slice_range off w v : 0 <= off -> 0 <= w -> 0 <= slice off w v < 2 ^ w.
Proof. intros. rewrite slice_eq by auto. apply Z.mod_pos_bound. apply pow2_pos; auto. Qed.

Lemma testbit_slice off w v i : 0 <= off -> 0 <= w -> 0 <= i ->
  Z.testbit (slice off w v) i = (i <? w) && Z.testbit v (i + off).
Proof.
  intros. unfold slice. rewrite Z.land_spec, testbit_ones, Z.shiftr_spec by auto. apply andb_comm.
Qed.

Lemma testbit_upd off w cur x i : 0 <= off -> 0 <= w -> 0 <= i ->
  Z.testbit (upd off w cur x) i =
  if (off <=? i) && (i <? off + w) then Z.testbit x (i - off) else Z.testbit cur i.
Proof.
  intros Ho Hw Hi. unfold upd.
  rewrite Z.lor_spec, !Z.land_spec, Z.lnot_spec, !Z.shiftl_spec by auto.
  destruct (off <=? i) eqn:E1.
  - rewrite testbit_ones by lia.
    destruct (i - off <? w) eqn:E2.
    + replace (i <? off + w) with true by lia. simpl. rewrite andb_false_r, andb_true_r. reflexivity.
    + replace (i <? off + w) with false by lia. simpl. rewrite andb_false_r, andb_true_r, orb_false_r. reflexivity.
  - rewrite (Z.testbit_neg_r (ones w)) by lia. simpl. rewrite andb_false_r, andb_true_r, orb_false_r. reflexivity.
Qed.

(* 0 <= a < 2^n, bitwise *)
Lemma range_of_bits n a : 0 <= n -> (forall i, n <= i -> Z.testbit a i = false) -> 0 <= a < 2 ^ n.
Proof.
  intros Hn Hb. assert (a = mask n a) as ->; [|apply mask_range; auto].
  apply Z.bits_inj'; intros i Hi. rewrite testbit_mask by auto.
  destruct (i <? n) eqn:E; simpl; auto. apply Hb; lia.
Qed.

Lemma bits_of_range n a i : 0 <= n -> 0 <= a < 2 ^ n -> n <= i -> Z.testbit a i = false.
Proof.
  intros Hn Ha Hi. rewrite <- (mask_small n a Ha). rewrite testbit_mask by auto.
  replace (i <? n) with false by lia. reflexivity.
Qed.

Lemma upd_range n off w cur x : 0 <= off -> 0 <= w -> off + w <= n ->
  0 <= cur < 2 ^ n -> 0 <= upd off w cur x < 2 ^ n.
Proof.
  intros Ho Hw Hn Hc. apply range_of_bits; [lia|]. intros i Hi.
  rewrite testbit_upd by lia. replace (i <? off + w) with false by lia. rewrite andb_false_r.
  apply (bits_of_range n); auto; lia.
Qed.

Lemma slice_upd_same off w cur x : 0 <= off -> 0 <= w -> slice off w (upd off w cur x) = mask w x.
Proof.
  intros. apply Z.bits_inj'; intros i Hi.
  rewrite testbit_slice, testbit_upd, testbit_mask by lia.
  destruct (i <? w) eqn:E; simpl; auto.
  replace (off <=? i + off) with true by lia. replace (i + off <? off + w) with true by lia. simpl.
  f_equal. lia.
Qed.

Lemma slice_upd_other off w off2 w2 cur x : 0 <= off -> 0 <= w -> 0 <= off2 -> 0 <= w2 ->
  off2 + w2 <= off \/ off + w <= off2 ->
  slice off2 w2 (upd off w cur x) = slice off2 w2 cur.
Proof.
  intros Ho Hw Ho2 Hw2 Hd. apply Z.bits_inj'; intros i Hi.
  rewrite !testbit_slice, testbit_upd by lia.
  destruct (i <? w2) eqn:E; simpl; auto.
  replace ((off <=? i + off2) && (i + off2 <? off + w)) with false by lia. reflexivity.
Qed.

Lemma upd_width0 off cur x : 0 <= off -> upd off 0 cur x = cur.
Proof.
  intros. apply Z.bits_inj'; intros i Hi. rewrite testbit_upd by lia.
  replace ((off <=? i) && (i <? off + 0)) with false by lia. reflexivity.
Qed.

(* a slice of a slice is the slice at the summed offset *)
Lemma slice_slice off1 w1 off2 w2 v : 0 <= off1 -> 0 <= w1 -> 0 <= off2 -> 0 <= w2 -> off2 + w2 <= w1 ->
  slice off2 w2 (slice off1 w1 v) = slice (off1 + off2) w2 v.
Proof.
  intros. apply Z.bits_inj'; intros i Hi. rewrite !testbit_slice by lia.
  destruct (i <? w2) eqn:E; simpl; auto.
  replace (i + off2 <? w1) with true by lia. simpl. f_equal. lia.
Qed.

(* writing through a slice of a slice is writing at the summed offset *)
Lemma upd_upd_nested off1 w1 off2 w2 cur x : 0 <= off1 -> 0 <= w1 -> 0 <= off2 -> 0 <= w2 -> off2 + w2 <= w1 ->
  upd off1 w1 cur (upd off2 w2 (slice off1 w1 cur) x) = upd (off1 + off2) w2 cur x.
Proof.
  intros. apply Z.bits_inj'; intros i Hi.
  rewrite (testbit_upd (off1 + off2)) by lia. rewrite (testbit_upd off1) by lia.
  destruct (off1 <=? i) eqn:A1; destruct (i <? off1 + w1) eqn:A2; simpl.
  - rewrite testbit_upd by lia. rewrite testbit_slice by lia.
    replace (i - off1 <? w1) with true by lia. simpl.
    destruct (off2 <=? i - off1) eqn:B1; destruct (i - off1 <? off2 + w2) eqn:B2;
    destruct (off1 + off2 <=? i) eqn:C1; destruct (i <? off1 + off2 + w2) eqn:C2; simpl; try lia;
    f_equal; lia.
  - destruct (off1 + off2 <=? i) eqn:C1; destruct (i <? off1 + off2 + w2) eqn:C2; simpl; try lia; reflexivity.
  - destruct (off1 + off2 <=? i) eqn:C1; destruct (i <? off1 + off2 + w2) eqn:C2; simpl; try lia; reflexivity.
  - destruct (off1 + off2 <=? i) eqn:C1; destruct (i <? off1 + off2 + w2) eqn:C2; simpl; try lia; reflexivity.
Qed.

Lemma norm_of_mask s v : wf_shape s = true -> norm s (mask (width s) v) = norm s v.
Proof.
  unfold wf_shape, norm. destruct (sgn s); intros.
  - apply sext_mask; lia.
  - apply mask_idem; lia.
Qed.

Lemma mask_of_norm s v : wf_shape s = true -> mask (width s) (norm s v) = mask (width s) v.
Proof.
  unfold wf_shape, norm. destruct (sgn s); intros.
  - apply mask_sext; lia.
  - apply mask_idem; lia.
Qed.

(* AsyncFifoP.v — proofs about Model/AsyncFifo.v (C13). *)
From Coq Require Import ZArith List Bool Lia ZifyBool.
From V.Model Require Import Bits AsyncFifo.
From V.Proofs Require Import BitsP.
Import ListNotations.
Open Scope Z_scope.

(* ================================================================= bit-level helpers *)
Lemma small_bits w x i : 0 <= w -> 0 <= x < 2 ^ w -> w <= i -> Z.testbit x i = false.
Proof.
  intros Hw Hx Hi. rewrite <- (mask_small w x Hx). rewrite testbit_mask by lia.
  destruct (i <? w) eqn:E; [lia|reflexivity].
Qed.

Lemma bits_small w x : 0 <= w -> 0 <= x -> (forall i, w <= i -> Z.testbit x i = false) -> x < 2 ^ w.
Proof.
  intros Hw Hx H.
  assert (E : x = mask w x).
  { apply Z.bits_inj'. intros i Hi. rewrite testbit_mask by lia.
    destruct (i <? w) eqn:E; [reflexivity|]. rewrite H by lia. reflexivity. }
  rewrite E. apply mask_range; lia.
Qed.

Lemma b2z_xor a b : Z.lxor (Z.b2z a) (Z.b2z b) = Z.b2z (xorb a b).
Proof. destruct a, b; reflexivity. Qed.

Lemma mod_pow2_succ x j : 0 <= j ->
  x mod 2 ^ (j + 1) = Z.b2z (Z.testbit x j) * 2 ^ j + x mod 2 ^ j.
Proof.
  intros Hj. rewrite Z.pow_add_r by lia. change (2 ^ 1) with 2.
  rewrite Z.rem_mul_r by (try apply Z.pow_nonzero; lia).
  rewrite Z.testbit_spec' by lia. lia.
Qed.

(* ================================================================= Gray code *)
Lemma gray_enc_bits x i : 0 <= i ->
  Z.testbit (gray_enc x) i = xorb (Z.testbit x i) (Z.testbit x (i + 1)).
Proof. intros Hi. unfold gray_enc. rewrite Z.lxor_spec, Z.shiftr_spec by lia. reflexivity. Qed.

Lemma gray_enc_nonneg x : 0 <= x -> 0 <= gray_enc x.
Proof. intros H. unfold gray_enc. apply Z.lxor_nonneg. split; intros _; [apply Z.shiftr_nonneg|]; lia. Qed.

Lemma gray_enc_range w x : 0 <= w -> 0 <= x < 2 ^ w -> 0 <= gray_enc x < 2 ^ w.
Proof.
  intros Hw Hx. split; [apply gray_enc_nonneg; lia|].
  apply bits_small; [lia|apply gray_enc_nonneg; lia|].
  intros i Hi. rewrite gray_enc_bits by lia.
  rewrite (small_bits w x i), (small_bits w x (i + 1)) by lia. reflexivity.
Qed.

Lemma gray_enc_0 : gray_enc 0 = 0.
Proof. reflexivity. Qed.

(* linearity over xor *)
Lemma gray_enc_xor a b : gray_enc (Z.lxor a b) = Z.lxor (gray_enc a) (gray_enc b).
Proof.
  apply Z.bits_inj'. intros i Hi.
  rewrite Z.lxor_spec, !gray_enc_bits, !Z.lxor_spec by lia.
  destruct (Z.testbit a i), (Z.testbit b i), (Z.testbit a (i + 1)), (Z.testbit b (i + 1)); reflexivity.
Qed.

Lemma gray_dec_loop_enc k x : 0 <= x ->
  gray_dec_loop k (gray_enc x) (Z.b2z (Z.testbit x (Z.of_nat k))) = x mod 2 ^ Z.of_nat k.
Proof.
  intros Hx. induction k as [|j IH].
  - cbn [gray_dec_loop]. change (2 ^ Z.of_nat 0) with 1. rewrite Z.mod_1_r. reflexivity.
  - cbn [gray_dec_loop]. unfold zbit. rewrite gray_enc_bits by lia.
    rewrite b2z_xor.
    replace (Z.of_nat (S j)) with (Z.of_nat j + 1) by lia.
    replace (xorb (Z.testbit x (Z.of_nat j + 1))
                  (xorb (Z.testbit x (Z.of_nat j)) (Z.testbit x (Z.of_nat j + 1))))
      with (Z.testbit x (Z.of_nat j))
      by (destruct (Z.testbit x (Z.of_nat j)), (Z.testbit x (Z.of_nat j + 1)); reflexivity).
    rewrite IH. rewrite (mod_pow2_succ x (Z.of_nat j)) by lia. reflexivity.
Qed.

(* decode (encode x) = x, every width *)
Lemma gray_dec_enc w x : 0 <= w -> 0 <= x < 2 ^ w -> gray_dec w (gray_enc x) = x.
Proof.
  intros Hw Hx. unfold gray_dec.
  pose proof (gray_dec_loop_enc (Z.to_nat w) x (proj1 Hx)) as H.
  rewrite Z2Nat.id in H by lia.
  rewrite (small_bits w x w) in H by lia. cbn [Z.b2z] in H. rewrite H.
  apply Z.mod_small; lia.
Qed.

Lemma gray_enc_inj w a b : 0 <= w -> 0 <= a < 2 ^ w -> 0 <= b < 2 ^ w ->
  gray_enc a = gray_enc b -> a = b.
Proof.
  intros Hw Ha Hb E. rewrite <- (gray_dec_enc w a), <- (gray_dec_enc w b) by assumption. rewrite E. reflexivity.
Qed.

Lemma gray_enc_eqb w a b : 0 <= w -> 0 <= a < 2 ^ w -> 0 <= b < 2 ^ w ->
  (gray_enc a =? gray_enc b) = (a =? b).
Proof.
  intros Hw Ha Hb. destruct (Z.eqb_spec a b) as [->|N].
  - apply Z.eqb_refl.
  - apply Z.eqb_neq. intros E. apply N. eapply gray_enc_inj; eauto.
Qed.

(* ----------------------------------------------------------------- powers of two, bitwise *)
Lemma pow2_bit n i : 0 <= n -> 0 <= i -> Z.testbit (2 ^ n) i = (i =? n).
Proof. intros Hn Hi. rewrite Z.pow2_bits_eqb by lia. rewrite Z.eqb_sym. reflexivity. Qed.

(* the pattern 2^n + 2^(n-1) *)
Lemma top2_bit n i : 1 <= n -> 0 <= i ->
  Z.testbit (2 ^ n + 2 ^ (n - 1)) i = (i =? n) || (i =? n - 1).
Proof.
  intros Hn Hi.
  assert (E : 2 ^ n + 2 ^ (n - 1) = Z.lor (2 ^ (n - 1)) (Z.shiftl 1 n)).
  { rewrite lor_shiftl_add; [lia|lia|]. split; [apply Z.lt_le_incl, pow2_pos; lia|apply pow2_mono_lt; lia]. }
  rewrite E, Z.lor_spec, Z.shiftl_1_l, !pow2_bit by lia. apply orb_comm.
Qed.

Lemma gray_enc_pow2 n : 1 <= n -> gray_enc (2 ^ n) = 2 ^ n + 2 ^ (n - 1).
Proof.
  intros Hn. apply Z.bits_inj'. intros i Hi.
  rewrite gray_enc_bits, top2_bit, !pow2_bit by lia.
  destruct (Z.eqb_spec i n), (Z.eqb_spec (i + 1) n), (Z.eqb_spec i (n - 1)); try lia; reflexivity.
Qed.

(* flipping the top bit of an (n+1)-bit value = adding 2^n modulo 2^(n+1) *)
Lemma lxor_top_low n a : 0 <= n -> 0 <= a < 2 ^ n -> Z.lxor a (2 ^ n) = a + 2 ^ n.
Proof.
  intros Hn Ha.
  replace (a + 2 ^ n) with (a + 1 * 2 ^ n) by lia.
  rewrite <- (lor_shiftl_add a 1 n) by lia.
  apply Z.bits_inj'. intros i Hi.
  rewrite Z.lxor_spec, Z.lor_spec, Z.shiftl_1_l, pow2_bit by lia.
  destruct (Z.eqb_spec i n) as [->|N].
  - rewrite (small_bits n a n) by lia. reflexivity.
  - destruct (Z.testbit a i); reflexivity.
Qed.

Lemma lxor_top n a : 0 <= n -> 0 <= a < 2 ^ (n + 1) -> Z.lxor a (2 ^ n) = (a + 2 ^ n) mod 2 ^ (n + 1).
Proof.
  intros Hn Ha. assert (E2 : 2 ^ (n + 1) = 2 * 2 ^ n) by (rewrite Z.pow_add_r by lia; change (2 ^ 1) with 2; lia).
  pose proof (pow2_pos n Hn) as Hp.
  destruct (Z.lt_ge_cases a (2 ^ n)) as [L|G].
  - rewrite lxor_top_low by lia. symmetry. apply Z.mod_small. lia.
  - set (a' := a - 2 ^ n). assert (Ha' : 0 <= a' < 2 ^ n) by (unfold a'; lia).
    replace a with (a' + 2 ^ n) by (unfold a'; lia).
    rewrite <- (lxor_top_low n a') at 1 by lia.
    rewrite Z.lxor_assoc, Z.lxor_nilpotent, Z.lxor_0_r.
    replace (a' + 2 ^ n + 2 ^ n) with (a' + 1 * 2 ^ (n + 1)) by lia.
    rewrite Z.mod_add by lia. symmetry. apply Z.mod_small. lia.
Qed.

(* the elaborated full test on two (n+1)-bit words says: they differ exactly in the two top bits *)
Lemma gray_full_lxor n p c : 1 <= n -> 0 <= p < 2 ^ (n + 1) -> 0 <= c < 2 ^ (n + 1) ->
  gray_full n p c = true <-> Z.lxor p c = 2 ^ n + 2 ^ (n - 1).
Proof.
  intros Hn Hp Hc. unfold gray_full. split.
  - intros H. apply andb_prop in H. destruct H as [H H3]. apply andb_prop in H. destruct H as [H1 H2].
    apply Z.eqb_eq in H3.
    apply Z.bits_inj'. intros i Hi. rewrite Z.lxor_spec, top2_bit by lia.
    destruct (Z.eqb_spec i n) as [->|N1].
    { destruct (Z.testbit p n), (Z.testbit c n); cbn in H1; try discriminate; reflexivity. }
    destruct (Z.eqb_spec i (n - 1)) as [->|N2].
    { destruct (Z.testbit p (n - 1)), (Z.testbit c (n - 1)); cbn in H2; try discriminate; reflexivity. }
    cbn [orb]. destruct (Z.lt_ge_cases i (n - 1)) as [L|G].
    + assert (E : Z.testbit (mask (n - 1) p) i = Z.testbit (mask (n - 1) c) i) by (unfold mask; rewrite H3; reflexivity).
      rewrite !testbit_mask in E by lia.
      replace (i <? n - 1) with true in E by lia. cbn [andb] in E. rewrite E. apply xorb_nilpotent.
    + rewrite (small_bits (n + 1) p i), (small_bits (n + 1) c i) by lia. reflexivity.
  - intros H.
    assert (B : forall i, 0 <= i -> xorb (Z.testbit p i) (Z.testbit c i) = (i =? n) || (i =? n - 1)).
    { intros i Hi. rewrite <- Z.lxor_spec, H. apply top2_bit; lia. }
    rewrite !andb_true_iff. repeat split.
    + specialize (B n ltac:(lia)). rewrite Z.eqb_refl in B. cbn [orb] in B.
      destruct (Z.testbit p n), (Z.testbit c n); cbn in *; congruence.
    + specialize (B (n - 1) ltac:(lia)). rewrite Z.eqb_refl, orb_true_r in B.
      destruct (Z.testbit p (n - 1)), (Z.testbit c (n - 1)); cbn in *; congruence.
    + apply Z.eqb_eq. change (mask (n - 1) p = mask (n - 1) c).
      apply Z.bits_inj'. intros i Hi. rewrite !testbit_mask by lia.
      destruct (i <? n - 1) eqn:E; [|reflexivity]. cbn [andb].
      specialize (B i Hi).
      replace (i =? n) with false in B by lia. replace (i =? n - 1) with false in B by lia. cbn [orb] in B.
      destruct (Z.testbit p i), (Z.testbit c i); cbn in *; congruence.
Qed.

(* full test on Gray pointers <-> binary pointers are exactly 2^n apart (mod 2^(n+1)) *)
Lemma full_cond_iff n a b : 1 <= n -> 0 <= a < 2 ^ (n + 1) -> 0 <= b < 2 ^ (n + 1) ->
  gray_full n (gray_enc a) (gray_enc b) = true <-> (a - b) mod 2 ^ (n + 1) = 2 ^ n.
Proof.
  intros Hn Ha Hb.
  assert (E2 : 2 ^ (n + 1) = 2 * 2 ^ n) by (rewrite Z.pow_add_r by lia; change (2 ^ 1) with 2; lia).
  pose proof (pow2_pos n ltac:(lia)) as Hp.
  rewrite gray_full_lxor by (try apply gray_enc_range; lia).
  rewrite <- gray_enc_xor, <- gray_enc_pow2 by lia.
  assert (Hx : 0 <= Z.lxor a b < 2 ^ (n + 1)).
  { split; [apply Z.lxor_nonneg; lia|]. apply bits_small; [lia|apply Z.lxor_nonneg; lia|].
    intros i Hi. rewrite Z.lxor_spec, (small_bits (n + 1) a i), (small_bits (n + 1) b i) by lia. reflexivity. }
  split.
  - intros H. apply (gray_enc_inj (n + 1)) in H; [|lia|lia|lia].
    assert (Eb : a = Z.lxor b (2 ^ n)).
    { rewrite <- H. rewrite (Z.lxor_comm a b), <- Z.lxor_assoc, Z.lxor_nilpotent, Z.lxor_0_l. reflexivity. }
    rewrite lxor_top in Eb by lia. rewrite Eb.
    rewrite Zminus_mod_idemp_l. replace (b + 2 ^ n - b) with (2 ^ n) by lia. apply Z.mod_small. lia.
  - intros H. f_equal.
    assert (Ea : a = (b + 2 ^ n) mod 2 ^ (n + 1)).
    { assert (D : (a - b) mod 2 ^ (n + 1) = (a - b) \/ (a - b) mod 2 ^ (n + 1) = a - b + 2 ^ (n + 1)).
      { destruct (Z.lt_ge_cases (a - b) 0).
        - right. replace (a - b) with ((a - b + 2 ^ (n + 1)) + (-1) * 2 ^ (n + 1)) at 1 by lia.
          rewrite Z.mod_add by lia. apply Z.mod_small. lia.
        - left. apply Z.mod_small. lia. }
      destruct D as [D|D]; rewrite D in H.
      - replace (b + 2 ^ n) with a by lia. symmetry. apply Z.mod_small. lia.
      - replace (b + 2 ^ n) with (a + 1 * 2 ^ (n + 1)) by lia. rewrite Z.mod_add by lia.
        symmetry. apply Z.mod_small. lia. }
    rewrite <- lxor_top in Ea by lia. rewrite Ea.
    rewrite (Z.lxor_comm b (2 ^ n)), Z.lxor_assoc, Z.lxor_nilpotent, Z.lxor_0_r. reflexivity.
Qed.

Lemma empty_cond_iff w a b : 0 <= w -> 0 <= a < 2 ^ w -> 0 <= b < 2 ^ w ->
  (gray_enc a =? gray_enc b) = true <-> a = b.
Proof. intros Hw Ha Hb. rewrite (gray_enc_eqb w) by assumption. apply Z.eqb_eq. Qed.

(* ----------------------------------------------------------------- consecutive codes differ in exactly one bit *)
Lemma succ_xor_bits (k : nat) : forall x, 0 <= x < 2 ^ Z.of_nat k ->
  exists t, 0 <= t /\ forall i, 0 <= i -> Z.testbit (Z.lxor x (x + 1)) i = (i <=? t).
Proof.
  induction k as [|k IH]; intros x Hx.
  - change (2 ^ Z.of_nat 0) with 1 in Hx. assert (x = 0) by lia. subst x. exists 0. split; [lia|].
    intros i Hi. change (Z.lxor 0 (0 + 1)) with (2 ^ 0). rewrite pow2_bit by lia.
    destruct (Z.eqb_spec i 0), (Z.leb_spec i 0); try lia; reflexivity.
  - replace (Z.of_nat (S k)) with (Z.of_nat k + 1) in Hx by lia.
    rewrite Z.pow_add_r in Hx by lia. change (2 ^ 1) with 2 in Hx.
    pose proof (Z.div2_odd x) as D. set (y := Z.div2 x) in *.
    assert (Hy : 0 <= y < 2 ^ Z.of_nat k) by (destruct (Z.odd x); cbn [Z.b2z] in D; lia).
    destruct (Z.odd x); cbn [Z.b2z] in D.
    + (* x = 2y+1, x+1 = 2(y+1) *)
      destruct (IH y Hy) as (t & Ht & B). exists (t + 1). split; [lia|].
      intros i Hi. rewrite Z.lxor_spec.
      destruct (Z.eq_dec i 0) as [->|N].
      * replace x with (2 * y + Z.b2z true) by (cbn [Z.b2z]; lia).
        replace (2 * y + Z.b2z true + 1) with (2 * (y + 1) + Z.b2z false) by (cbn [Z.b2z]; lia).
        rewrite !Z.testbit_0_r. destruct (Z.leb_spec 0 (t + 1)); [reflexivity|lia].
      * replace i with (Z.succ (i - 1)) by lia.
        replace x with (2 * y + Z.b2z true) by (cbn [Z.b2z]; lia).
        replace (2 * y + Z.b2z true + 1) with (2 * (y + 1) + Z.b2z false) by (cbn [Z.b2z]; lia).
        rewrite !Z.testbit_succ_r by lia. rewrite <- Z.lxor_spec, B by lia.
        destruct (Z.leb_spec (i - 1) t), (Z.leb_spec (Z.succ (i - 1)) (t + 1)); try lia; reflexivity.
    + (* x = 2y, x+1 = 2y+1 *)
      exists 0. split; [lia|]. intros i Hi. rewrite Z.lxor_spec.
      destruct (Z.eq_dec i 0) as [->|N].
      * replace x with (2 * y + Z.b2z false) by (cbn [Z.b2z]; lia).
        replace (2 * y + Z.b2z false + 1) with (2 * y + Z.b2z true) by (cbn [Z.b2z]; lia).
        rewrite !Z.testbit_0_r. reflexivity.
      * replace i with (Z.succ (i - 1)) by lia.
        replace x with (2 * y + Z.b2z false) by (cbn [Z.b2z]; lia).
        replace (2 * y + Z.b2z false + 1) with (2 * y + Z.b2z true) by (cbn [Z.b2z]; lia).
        rewrite !Z.testbit_succ_r by lia. rewrite xorb_nilpotent.
        destruct (Z.leb_spec (Z.succ (i - 1)) 0); [lia|reflexivity].
Qed.

Lemma gray_succ_nowrap w x : 0 <= w -> 0 <= x -> x + 1 < 2 ^ w ->
  exists k, 0 <= k < w /\ Z.lxor (gray_enc x) (gray_enc (x + 1)) = 2 ^ k.
Proof.
  intros Hw Hx Hx1.
  destruct (succ_xor_bits (Z.to_nat w) x) as (t & Ht & B); [rewrite Z2Nat.id; lia|].
  exists t.
  assert (Hlt : t < w).
  { destruct (Z.lt_ge_cases t w) as [L|G]; [exact L|exfalso].
    pose proof (B t Ht) as Bt. rewrite Z.lxor_spec in Bt.
    rewrite (small_bits w x t), (small_bits w (x + 1) t) in Bt by lia.
    destruct (Z.leb_spec t t); [discriminate|lia]. }
  split; [lia|].
  rewrite <- gray_enc_xor. apply Z.bits_inj'. intros i Hi.
  rewrite gray_enc_bits, !B, pow2_bit by lia.
  destruct (Z.leb_spec i t), (Z.leb_spec (i + 1) t), (Z.eqb_spec i t); try lia; reflexivity.
Qed.

Lemma gray_succ_one_bit w x : 1 <= w -> 0 <= x < 2 ^ w ->
  exists k, 0 <= k < w /\ Z.lxor (gray_enc x) (gray_enc ((x + 1) mod 2 ^ w)) = 2 ^ k.
Proof.
  intros Hw Hx. destruct (Z.lt_ge_cases (x + 1) (2 ^ w)) as [L|G].
  - rewrite Z.mod_small by lia. apply gray_succ_nowrap; lia.
  - assert (E : x + 1 = 2 ^ w) by lia. rewrite E, Z.mod_same by lia.
    rewrite gray_enc_0, Z.lxor_0_r. exists (w - 1). split; [lia|].
    replace x with (Z.ones w) by (rewrite Z.ones_equiv; lia).
    apply Z.bits_inj'. intros i Hi.
    rewrite gray_enc_bits, !Z.testbit_ones_nonneg, pow2_bit by lia.
    destruct (Z.ltb_spec i w), (Z.ltb_spec (i + 1) w), (Z.eqb_spec i (w - 1)); try lia; reflexivity.
Qed.

(* ================================================================= lists *)
Lemma upd_nth_length k v l : length (upd_nth k v l) = length l.
Proof. revert k; induction l as [|x t IH]; intros [|k]; cbn; auto. Qed.

Lemma upd_nth_same k v l : (k < length l)%nat -> nth k (upd_nth k v l) 0 = v.
Proof. revert k; induction l as [|x t IH]; intros [|k] H; cbn in *; try lia; auto. apply IH; lia. Qed.

Lemma upd_nth_other k j v l : j <> k -> nth j (upd_nth k v l) 0 = nth j l 0.
Proof. revert k j; induction l as [|x t IH]; intros [|k] [|j] H; cbn; auto; try congruence. Qed.

Lemma firstn_snoc (l : list Z) k : (k < length l)%nat -> firstn (S k) l = firstn k l ++ [nth k l 0].
Proof. revert k; induction l as [|x t IH]; intros [|k] H; cbn in *; try lia; auto. f_equal. apply IH. lia. Qed.

Lemma firstn_app_le (l : list Z) d k : (k <= length l)%nat -> firstn k (l ++ [d]) = firstn k l.
Proof.
  intros H. rewrite firstn_app. replace (k - length l)%nat with 0%nat by lia. cbn. apply app_nil_r.
Qed.

Lemma length_snoc (l : list Z) d : Z.of_nat (length (l ++ [d])) = Z.of_nat (length l) + 1.
Proof. rewrite app_length. cbn. lia. Qed.

(* ================================================================= modular helpers *)
Lemma pow2_succ n : 0 <= n -> 2 ^ (n + 1) = 2 * 2 ^ n.
Proof. intros. rewrite Z.pow_add_r by lia. change (2 ^ 1) with 2. lia. Qed.

Lemma mod_mod_half n a : 0 <= n -> (a mod 2 ^ (n + 1)) mod 2 ^ n = a mod 2 ^ n.
Proof. intros. apply (mask_mask_le n (n + 1) a). lia. Qed.

Lemma mod_diff_small K a b : 0 < K -> 0 <= a - b < K -> (a mod K - b mod K) mod K = a - b.
Proof. intros HK H. rewrite <- Zminus_mod. apply Z.mod_small. lia. Qed.

Lemma mod_inj_small K a b : 0 < K -> 0 <= a - b < K -> a mod K = b mod K -> a = b.
Proof.
  intros HK H E. pose proof (mod_diff_small K a b HK H) as D. rewrite E, Z.sub_diag, Z.mod_0_l in D by lia. lia.
Qed.

Lemma mod_succ_b K a (b : bool) : 0 < K -> (a mod K + Z.b2z b) mod K = (a + Z.b2z b) mod K.
Proof. intros. apply Zplus_mod_idemp_l. Qed.

Lemma alvl_bits_eq n : 0 <= n -> alvl_bits n = n + 1.
Proof.
  intros Hn. unfold alvl_bits, bit_length. pose proof (pow2_pos n Hn).
  destruct (Z.eqb_spec (2 ^ n) 0); [lia|]. rewrite Z.abs_eq by lia. rewrite Z.log2_pow2 by lia. reflexivity.
Qed.

(* ================================================================= ghost state and invariant *)
(* Unbounded counters for the pointer values held in the synchroniser stages.  The number of accepted writes
   and reads are the lengths of the monitor's logs. *)
Record ghost := mkG { gP0 : Z; gP1 : Z; gC0 : Z; gC1 : Z; gCB : Z }.
Definition ghost0 : ghost := mkG 0 0 0 0 0.
Definition Wc (m : mon) : Z := Z.of_nat (length (wlog m)).
Definition Rc (m : mon) : Z := Z.of_nat (length (rlog m)).

(* m = the monitor BEFORE the event *)
Definition gstep (m : mon) (g : ghost) (e : ev) : ghost :=
  mkG (if has_r e then Wc m else gP0 g)
      (if has_r e then gP0 g else gP1 g)
      (if has_w e then Rc m else gC0 g)
      (if has_w e then gC0 g else gC1 g)
      (if has_w e then gC1 g else gCB g).

Definition mem_ok (N : Z) (mm wl : list Z) (R W : Z) : Prop :=
  length mm = Z.to_nat N /\
  forall k, R <= k < W -> nth (Z.to_nat (k mod N)) mm 0 = nth (Z.to_nat k) wl 0.

Lemma mem_ok_write N mm wl R d :
  0 < N -> 0 <= R -> Z.of_nat (length wl) - R < N ->
  mem_ok N mm wl R (Z.of_nat (length wl)) ->
  mem_ok N (upd_nth (Z.to_nat (Z.of_nat (length wl) mod N)) d mm) (wl ++ [d]) R (Z.of_nat (length wl) + 1).
Proof.
  intros HN HR Hroom [Hlen Hm]. set (W := Z.of_nat (length wl)) in *.
  split; [rewrite upd_nth_length; exact Hlen|].
  intros k Hk. destruct (Z.eq_dec k W) as [->|Nk].
  - rewrite upd_nth_same.
    + unfold W. rewrite Nat2Z.id. rewrite app_nth2 by lia. rewrite Nat.sub_diag. reflexivity.
    + rewrite Hlen. apply Z2Nat.inj_lt; try lia; apply Z.mod_pos_bound; lia.
  - rewrite upd_nth_other.
    + rewrite Hm by lia. rewrite app_nth1; [reflexivity|]. apply Nat2Z.inj_lt. rewrite Z2Nat.id by lia. fold W. lia.
    + intros E. apply Z2Nat.inj in E; try (apply Z.mod_pos_bound; lia).
      assert (W = k); [|lia]. apply (mod_inj_small N); [lia|lia|]. symmetry. exact E.
Qed.

Lemma mem_ok_shrink N mm wl R R' W : R <= R' -> mem_ok N mm wl R W -> mem_ok N mm wl R' W.
Proof. intros H [Hl Hm]. split; [exact Hl|]. intros k Hk. apply Hm. lia. Qed.

Record Inv (n : Z) (st : afifo) (m : mon) (g : ghost) : Prop := mkInv {
  iv_pwb : pwb st = Wc m mod 2 ^ (n + 1);
  iv_pwg : pwg st = gray_enc (Wc m mod 2 ^ (n + 1));
  iv_crb : crb st = Rc m mod 2 ^ (n + 1);
  iv_crg : crg st = gray_enc (Rc m mod 2 ^ (n + 1));
  iv_ps0 : ps0 st = gray_enc (gP0 g mod 2 ^ (n + 1));
  iv_ps1 : ps1 st = gray_enc (gP1 g mod 2 ^ (n + 1));
  iv_cs0 : cs0 st = gray_enc (gC0 g mod 2 ^ (n + 1));
  iv_cs1 : cs1 st = gray_enc (gC1 g mod 2 ^ (n + 1));
  iv_cwb : cwb st = gCB g mod 2 ^ (n + 1);
  (* each side only ever sees an older-or-equal value of the other side's pointer; at most 2^n entries held *)
  iv_ord : 0 <= gCB g <= gC1 g /\ gC1 g <= gC0 g <= Rc m /\ Rc m <= gP1 g <= gP0 g /\
           gP0 g <= Wc m <= gCB g + 2 ^ n;
  iv_mem : mem_ok (2 ^ n) (mem st) (wlog m) (Rc m) (Wc m);
  iv_rdat : Rc m < gP1 g -> rdat st = nth (Z.to_nat (Rc m)) (wlog m) 0;
  iv_rlog : rlog m = firstn (length (rlog m)) (wlog m);
  iv_wlvl : 0 <= wlvl st <= 2 ^ n;
  iv_af : (af1 st = true -> gP1 g = Rc m) /\ (af0 st = true -> af1 st = true /\ gP0 g = Rc m)
}.

Lemma Inv_init n : 0 <= n -> Inv n (astate0 n) mon0 ghost0.
Proof.
  intros Hn. pose proof (pow2_pos n Hn). pose proof (pow2_pos (n + 1) ltac:(lia)).
  constructor; cbn; try (rewrite Z.mod_0_l by lia); try reflexivity; try lia.
  all: try (split; [apply repeat_length|intros k Hk; lia]).
  all: try (split; [reflexivity|intros _; split; reflexivity]).
Qed.

Ltac dinv I := destruct I as [Hpwb Hpwg Hcrb Hcrg Hps0 Hps1 Hcs0 Hcs1 Hcwb Hord Hmem Hrdat Hrlog Hwlvl Haf].

(* the two ready flags in terms of the ghost counters *)
Lemma wrdy_ghost n st m g : 1 <= n -> Inv n st m g ->
  o_wrdy n st = negb (Wc m - gC1 g =? 2 ^ n).
Proof.
  intros Hn I. dinv I. unfold o_wrdy. f_equal.
  pose proof (pow2_pos n ltac:(lia)) as Hp. pose proof (pow2_succ n ltac:(lia)) as E2.
  rewrite Hpwg, Hcs1.
  apply eq_true_iff_eq. rewrite full_cond_iff by (try apply Z.mod_pos_bound; lia).
  rewrite mod_diff_small by lia. rewrite Z.eqb_eq. reflexivity.
Qed.

Lemma rrdy_ghost n st m g : 1 <= n -> Inv n st m g ->
  o_rrdy st = negb ((Rc m =? gP1 g) || af1 st).
Proof.
  intros Hn I. dinv I. unfold o_rrdy. f_equal. f_equal.
  pose proof (pow2_pos n ltac:(lia)) as Hp. pose proof (pow2_succ n ltac:(lia)) as E2.
  rewrite Hcrg, Hps1.
  rewrite (gray_enc_eqb (n + 1)) by (try apply Z.mod_pos_bound; lia).
  destruct (Z.eqb_spec (Rc m) (gP1 g)) as [->|Ne]; [apply Z.eqb_refl|].
  apply Z.eqb_neq. intros E. apply Ne. symmetry. apply (mod_inj_small (2 ^ (n + 1))); [lia|lia|]. symmetry; exact E.
Qed.

Lemma rlevel_ghost n st m g : 1 <= n -> Inv n st m g -> o_rlevel n st = gP1 g - Rc m.
Proof.
  intros Hn I. dinv I. unfold o_rlevel. rewrite alvl_bits_eq by lia.
  pose proof (pow2_pos n ltac:(lia)) as Hp. pose proof (pow2_succ n ltac:(lia)) as E2.
  rewrite Hps1, Hcrb, gray_dec_enc by (try apply Z.mod_pos_bound; lia).
  apply mod_diff_small; lia.
Qed.

Ltac fsimp := cbn [pwb pwg crb crg ps0 ps1 cs0 cs1 cwb wlvl mem rdat af0 af1 rrst wlog rlog
                   gP0 gP1 gC0 gC1 gCB has_w has_r andb orb negb Z.b2z fst snd o_rdata].

Lemma Wc_if (ww : bool) m d rl :
  Wc (mkMon (if ww then wlog m ++ [d] else wlog m) rl) = Wc m + Z.b2z ww.
Proof. unfold Wc; cbn [wlog]. destruct ww; rewrite ?length_snoc; cbn [Z.b2z]; lia. Qed.

Lemma Rc_if (rr : bool) m d wl :
  Rc (mkMon wl (if rr then rlog m ++ [d] else rlog m)) = Rc m + Z.b2z rr.
Proof. unfold Rc; cbn [rlog]. destruct rr; rewrite ?length_snoc; cbn [Z.b2z]; lia. Qed.

Lemma nth_snoc_if (ww : bool) (wl : list Z) d k : 0 <= k < Z.of_nat (length wl) ->
  nth (Z.to_nat k) (if ww then wl ++ [d] else wl) 0 = nth (Z.to_nat k) wl 0.
Proof. intros H. destruct ww; [|reflexivity]. apply app_nth1. lia. Qed.

Lemma firstn_snoc_if (ww : bool) (wl : list Z) d k : (k <= length wl)%nat ->
  firstn k (if ww then wl ++ [d] else wl) = firstn k wl.
Proof. intros H. destruct ww; [|reflexivity]. apply firstn_app_le; lia. Qed.

Lemma Inv_step n width st m g e i : 1 <= n -> Inv n st m g -> i_rst i = false ->
  Inv n (async_step n width st e i)
        (mon_step width (o_wrdy n st) (o_rrdy st) (o_rdata st) m e i)
        (gstep m g e).
Proof.
  intros Hn I Hrst.
  pose proof (wrdy_ghost n st m g Hn I) as Hw. pose proof (rrdy_ghost n st m g Hn I) as Hr.
  dinv I.
  pose proof (pow2_pos n ltac:(lia)) as Hp. pose proof (pow2_succ n ltac:(lia)) as E2.
  assert (HM : 0 < 2 ^ (n + 1)) by lia.
  unfold async_step, mon_step, gstep. rewrite Hrst. cbn [a_pre]. rewrite Hw, Hr.
  set (dw := negb (Wc m - gC1 g =? 2 ^ n) && i_wen i).
  set (dr := negb ((Rc m =? gP1 g) || af1 st) && i_ren i).
  assert (Hdw : dw = true -> Wc m - gC1 g < 2 ^ n) by (unfold dw; lia).
  assert (Hdr : dr = true -> Rc m < gP1 g /\ af1 st = false).
  { unfold dr. destruct (af1 st); [rewrite orb_true_r; cbn; discriminate|]. lia. }
  clearbody dw dr.
  rewrite alvl_bits_eq by lia.
  rewrite Hpwb, Hpwg, Hcrb, Hcrg, Hps0, Hps1, Hcs0, Hcs1, Hcwb.
  rewrite !gray_dec_enc by (try apply Z.mod_pos_bound; lia).
  rewrite !mod_succ_b by lia. rewrite !mod_mod_half by lia.
  assert (HWR : Wc m = Z.of_nat (length (wlog m)) /\ Rc m = Z.of_nat (length (rlog m))) by (split; reflexivity).
  destruct HWR as [HWc HRc].
  constructor; fsimp; rewrite ?Wc_if, ?Rc_if.
  - destruct e, dw; fsimp; rewrite ?Z.add_0_r; reflexivity.
  - destruct e, dw; fsimp; rewrite ?Z.add_0_r; reflexivity.
  - destruct e, dr, (af1 st) eqn:A; fsimp; rewrite ?Z.add_0_r; try reflexivity;
      try (destruct (Hdr eq_refl); congruence); f_equal; lia.
  - destruct e, dr, (af1 st) eqn:A; fsimp; rewrite ?Z.add_0_r; try reflexivity;
      try (destruct (Hdr eq_refl); congruence); f_equal; f_equal; lia.
  - destruct e; reflexivity.
  - destruct e; reflexivity.
  - destruct e; reflexivity.
  - destruct e; reflexivity.
  - destruct e; reflexivity.
  - destruct e, dw, dr; fsimp; try specialize (Hdw eq_refl); try specialize (Hdr eq_refl); lia.
  - (* memory *)
    apply (mem_ok_shrink _ _ _ (Rc m)); [destruct (has_r e && dr); cbn [Z.b2z]; lia|].
    destruct (has_w e && dw) eqn:WW; cbn [Z.b2z]; [|rewrite Z.add_0_r; exact Hmem].
    apply andb_prop in WW. destruct WW as [_ WW]. specialize (Hdw WW).
    rewrite HWc. apply mem_ok_write; try lia. rewrite <- HWc. exact Hmem.
  - (* read data register *)
    intros Hlt. rewrite nth_snoc_if.
    + destruct (has_r e) eqn:HR; fsimp.
      * destruct Hmem as [_ Hm]. rewrite andb_true_l in *. cbn [andb] in Hlt.
        apply Hm. destruct dr; cbn [Z.b2z] in *; lia.
      * cbn [andb Z.b2z] in *. rewrite Z.add_0_r in *. apply Hrdat. lia.
    + rewrite <- HWc. destruct (has_r e), dr; cbn [andb Z.b2z] in *; lia.
  - (* read log is a prefix of the write log *)
    destruct (has_r e && dr) eqn:RR.
    + apply andb_prop in RR. destruct RR as [_ RR]. destruct (Hdr RR) as [Hlt _].
      rewrite app_length. cbn [length]. rewrite Nat.add_1_r.
      rewrite firstn_snoc by (destruct (has_w e && dw); rewrite ?app_length; lia).
      rewrite firstn_snoc_if by lia. rewrite <- Hrlog. f_equal. f_equal.
      unfold o_rdata. rewrite Hrdat by lia. rewrite HRc, Nat2Z.id.
      rewrite <- (Nat2Z.id (length (rlog m))) at 2. rewrite nth_snoc_if; [rewrite Nat2Z.id; reflexivity|lia].
    + rewrite firstn_snoc_if by lia. exact Hrlog.
  - destruct (has_w e); [|exact Hwlvl]. rewrite mod_diff_small by lia. lia.
  - destruct Haf as [Ha1 Ha0].
    destruct e, dr, (af1 st) eqn:A, (af0 st) eqn:A0; fsimp;
      try (destruct (Hdr eq_refl); congruence);
      (split; [intros X|intros X; split]); try discriminate; try reflexivity;
      try (destruct (Ha0 eq_refl); try congruence); try specialize (Ha1 eq_refl); try lia.
Qed.

(* ================================================================= runs *)
(* run carrying the ghost counters *)
Definition grun_step (n width : Z) (s : afifo * mon * ghost) (x : ev * ain) : afifo * mon * ghost :=
  (arun_step n width (fst s) x, gstep (snd (fst s)) (snd s) (fst x)).
Definition grun (n width : Z) (tr : list (ev * ain)) (s : afifo * mon * ghost) : afifo * mon * ghost :=
  fold_left (grun_step n width) tr s.

Lemma grun_fst n width tr : forall s, fst (grun n width tr s) = arun n width tr (fst s).
Proof. induction tr as [|x r IH]; intros s; [reflexivity|]. cbn [grun arun fold_left]. apply IH. Qed.

Definition InvS (n : Z) (s : afifo * mon * ghost) : Prop := Inv n (fst (fst s)) (snd (fst s)) (snd s).

Lemma InvS_step n width s x : 1 <= n -> i_rst (snd x) = false -> InvS n s -> InvS n (grun_step n width s x).
Proof.
  intros Hn Hr I. destruct s as [[st m] g]. destruct x as [e i]. unfold InvS, grun_step, arun_step in *.
  cbn [fst snd] in *. rewrite Hr. cbn [a_pre]. apply Inv_step; assumption.
Qed.

Lemma InvS_run n width tr : 1 <= n -> no_rst tr -> forall s, InvS n s -> InvS n (grun n width tr s).
Proof.
  intros Hn H. induction H as [|x r Hx Hr IH]; intros s I; [exact I|].
  cbn [grun fold_left]. apply IH. apply InvS_step; assumption.
Qed.

Lemma Inv_reach n width tr : 1 <= n -> no_rst tr ->
  exists g, Inv n (fst (arun n width tr (astate0 n, mon0))) (snd (arun n width tr (astate0 n, mon0))) g.
Proof.
  intros Hn H. pose proof (InvS_run n width tr Hn H (astate0 n, mon0, ghost0) (Inv_init n ltac:(lia))) as I.
  unfold InvS in I. rewrite grun_fst in I. eexists. exact I.
Qed.

(* ================================================================= consequences of the invariant *)
Lemma Inv_held n st m g : Inv n st m g -> held m = Wc m - Rc m.
Proof. reflexivity. Qed.

Lemma Inv_order n st m g : Inv n st m g -> rlog m = firstn (length (rlog m)) (wlog m).
Proof. intros I. apply (iv_rlog _ _ _ _ I). Qed.

Lemma Inv_no_overflow n st m g : 1 <= n -> Inv n st m g ->
  0 <= held m <= 2 ^ n /\ (held m = 2 ^ n -> o_wrdy n st = false).
Proof.
  intros Hn I. rewrite (wrdy_ghost n st m g Hn I). dinv I. unfold held. fold (Wc m) (Rc m).
  split; [lia|]. intros H. replace (Wc m - gC1 g) with (2 ^ n) by lia. rewrite Z.eqb_refl. reflexivity.
Qed.

Lemma Inv_rdy_data n st m g : 1 <= n -> Inv n st m g -> o_rrdy st = true ->
  0 < held m /\ o_rdata st = nth (length (rlog m)) (wlog m) 0.
Proof.
  intros Hn I. rewrite (rrdy_ghost n st m g Hn I). dinv I. unfold held. fold (Wc m) (Rc m). intros H.
  assert (Hlt : Rc m < gP1 g) by lia. split; [lia|].
  unfold o_rdata. rewrite Hrdat by exact Hlt. unfold Rc. rewrite Nat2Z.id. reflexivity.
Qed.

Lemma Inv_levels n st m g : 1 <= n -> Inv n st m g ->
  0 <= o_wlevel st <= 2 ^ n /\ 0 <= o_rlevel n st <= 2 ^ n /\ o_rlevel n st <= held m.
Proof.
  intros Hn I. rewrite (rlevel_ghost n st m g Hn I). dinv I. unfold held, o_wlevel. fold (Wc m) (Rc m). lia.
Qed.

(* ================================================================= draining *)
(* how far the last write has travelled through the produce synchroniser *)
Definition vis (g : ghost) (m : mon) : Z :=
  if gP1 g =? Wc m then 2 else if gP0 g =? Wc m then 1 else 0.
Definition phi (g : ghost) (m : mon) : Z := held m + (2 - vis g m).

Lemma drain_step n width st m g e i : 1 <= n -> Inv n st m g -> i_wen i = false ->
  let m' := mon_step width (o_wrdy n st) (o_rrdy st) (o_rdata st) m e i in
  let g' := gstep m g e in
  wlog m' = wlog m /\
  vis g' m' >= Z.min 2 (vis g m + Z.b2z (has_r e)) /\
  phi g' m' <= phi g m /\
  (i_ren i = true -> phi g' m' <= Z.max 0 (phi g m - Z.b2z (has_r e))).
Proof.
  intros Hn I Hwen. cbv zeta.
  pose proof (rrdy_ghost n st m g Hn I) as Hr. dinv I.
  unfold mon_step. rewrite Hwen, Hr, !andb_false_r. cbn [wlog].
  split; [reflexivity|].
  unfold phi, held, vis, gstep, Wc, Rc in *. cbn [wlog rlog gP0 gP1].
  set (W := Z.of_nat (length (wlog m))) in *. set (R := Z.of_nat (length (rlog m))) in *.
  set (dr := negb ((R =? gP1 g) || af1 st) && i_ren i).
  assert (Hdr : dr = true -> R < gP1 g) by (unfold dr; lia).
  assert (Hdr2 : i_ren i = true -> R < gP1 g -> dr = true).
  { unfold dr. intros -> Hlt. destruct Haf as [Ha1 _]. destruct (af1 st); [specialize (Ha1 eq_refl); lia|]. lia. }
  clearbody dr.
  assert (HR : Z.of_nat (length (if has_r e && dr then rlog m ++ [o_rdata st] else rlog m)) = R + Z.b2z (has_r e && dr)).
  { destruct (has_r e && dr); rewrite ?length_snoc; unfold R; cbn [Z.b2z]; lia. }
  rewrite HR. clear HR.
  destruct e; cbn [has_r has_w andb Z.b2z];
    destruct (Z.eqb_spec (gP1 g) W), (Z.eqb_spec (gP0 g) W), (Z.eqb_spec W W);
    destruct dr; cbn [Z.b2z]; try specialize (Hdr eq_refl);
    (split; [|split; [|intros Hren; specialize (Hdr2 Hren)]]); lia.
Qed.

Lemma r_edges_cons x tr : r_edges (x :: tr) = Z.b2z (has_r (fst x)) + r_edges tr.
Proof. unfold r_edges. cbn [filter]. destruct (has_r (fst x)); cbn [length Z.b2z]; lia. Qed.

Lemma r_edges_nonneg tr : 0 <= r_edges tr.
Proof. unfold r_edges. lia. Qed.

Lemma drain_run n width tr : 1 <= n -> no_rst tr -> no_write tr -> forall s, InvS n s ->
  let s' := grun n width tr s in
  InvS n s' /\
  wlog (snd (fst s')) = wlog (snd (fst s)) /\
  vis (snd s') (snd (fst s')) >= Z.min 2 (vis (snd s) (snd (fst s)) + r_edges tr) /\
  (all_ren tr -> phi (snd s') (snd (fst s')) <= Z.max 0 (phi (snd s) (snd (fst s)) - r_edges tr)).
Proof.
  intros Hn Hr Hw. cbv zeta. induction tr as [|x r IH]; intros s I.
  - cbn [grun fold_left]. change (r_edges []) with 0.
    split; [exact I|]. split; [reflexivity|]. split; [lia|]. intros _. lia.
  - inversion Hr as [|? ? Hrx Hrr]; subst. inversion Hw as [|? ? Hwx Hwr]; subst.
    cbn [grun fold_left]. fold (grun n width r (grun_step n width s x)).
    pose proof (InvS_step n width s x Hn Hrx I) as I1.
    destruct (IH Hrr Hwr _ I1) as (J1 & J2 & J3 & J4).
    destruct s as [[st m] g]. destruct x as [e i]. unfold InvS in I. cbn [fst snd] in *.
    pose proof (drain_step n width st m g e i Hn I Hwx) as D. cbv zeta in D.
    destruct D as (D1 & D2 & D3 & D4).
    unfold grun_step, arun_step in J1, J2, J3, J4 |- *. cbn [fst snd] in J1, J2, J3, J4 |- *.
    rewrite Hrx in J1, J2, J3, J4 |- *. cbn [a_pre] in J1, J2, J3, J4 |- *.
    rewrite r_edges_cons. cbn [fst]. pose proof (r_edges_nonneg r).
    split; [exact J1|]. split; [rewrite J2; exact D1|]. split; [lia|].
    intros Ha. inversion Ha as [|? ? Hax Har]; subst. cbn [snd] in Hax. specialize (J4 Har). specialize (D4 Hax). lia.
Qed.

Lemma firstn_full (l : list Z) : firstn (length l) l = l.
Proof. apply firstn_all. Qed.

Lemma drain_final n width tr s : 1 <= n -> no_rst tr -> no_write tr -> InvS n s ->
  let s' := grun n width tr s in
  wlog (snd (fst s')) = wlog (snd (fst s)) /\
  (2 <= r_edges tr ->
     o_rlevel n (fst (fst s')) = held (snd (fst s')) /\ o_rrdy (fst (fst s')) = (0 <? held (snd (fst s')))) /\
  (all_ren tr -> held (snd (fst s)) + 2 <= r_edges tr -> rlog (snd (fst s')) = wlog (snd (fst s))).
Proof.
  intros Hn Hr Hw I. cbv zeta.
  destruct (drain_run n width tr Hn Hr Hw s I) as (J1 & J2 & J3 & J4). cbv zeta in *.
  set (s' := grun n width tr s) in *. destruct s' as [[st' m'] g']. destruct s as [[st m] g].
  unfold InvS in *. cbn [fst snd] in *.
  split; [exact J2|]. split.
  - intros H2. rewrite (rlevel_ghost n st' m' g' Hn J1), (rrdy_ghost n st' m' g' Hn J1).
    assert (V : vis g' m' = 2) by (unfold vis in *; destruct (gP1 g' =? Wc m'), (gP0 g' =? Wc m'), (gP1 g =? Wc m), (gP0 g =? Wc m); lia).
    assert (E : gP1 g' = Wc m') by (unfold vis in V; destruct (Z.eqb_spec (gP1 g') (Wc m')); [assumption|destruct (gP0 g' =? Wc m'); lia]).
    dinv J1. unfold held. fold (Wc m') (Rc m'). split; [lia|].
    destruct Haf as [Ha1 _]. destruct (af1 st'); [specialize (Ha1 eq_refl)|]; lia.
  - intros Ha Hh. specialize (J4 Ha).
    assert (P0 : phi g m <= held m + 2) by (unfold phi, vis; destruct (gP1 g =? Wc m), (gP0 g =? Wc m); lia).
    assert (P1 : held m' <= phi g' m') by (unfold phi, vis; destruct (gP1 g' =? Wc m'), (gP0 g' =? Wc m'); lia).
    pose proof (Inv_no_overflow n st' m' g' Hn J1) as [Hb _].
    assert (Z0 : held m' = 0) by lia.
    pose proof (Inv_order n st' m' g' J1) as Ho. rewrite Ho.
    replace (length (rlog m')) with (length (wlog m')) by (unfold held in Z0; lia).
    rewrite firstn_full. exact J2.
Qed.

(* ================================================================= AsyncFIFOBuffered *)
(* neither reset asserted *)
Definition no_rsts (tr : list (ev * ain)) : Prop :=
  Forall (fun x => i_rst (snd x) = false /\ i_rrst (snd x) = false) tr.

Lemma no_rsts_of tr : no_rst tr -> no_rrst tr -> no_rsts tr.
Proof.
  intros H1. induction H1 as [|x r Hx Hr IH]; intros H2; [constructor|].
  inversion H2; subst. constructor; [split; assumption|apply IH; assumption].
Qed.

Lemma blvl_bits_eq n : 1 <= n -> blvl_bits n = n + 1.
Proof.
  intros Hn. unfold blvl_bits, bit_length. pose proof (pow2_pos n ltac:(lia)).
  destruct (Z.eqb_spec (2 ^ n + 1) 0); [lia|]. rewrite Z.abs_eq by lia.
  pose proof (pow2_succ n ltac:(lia)) as E2.
  assert (2 ^ 1 <= 2 ^ n) by (apply pow2_mono; lia). change (2 ^ 1) with 2 in *.
  rewrite (Z.log2_unique (2 ^ n + 1) n); [reflexivity|lia|].
  replace (Z.succ n) with (n + 1) by lia. lia.
Qed.

(* mB = the monitor of the buffered FIFO's interface; mI = the monitor of the inner FIFO *)
Definition BInv (n : Z) (st : bfifo) (mB : mon) : Prop :=
  exists mI g,
    Inv n (inner st) mI g /\ wlog mI = wlog mB /\
    rlog mI = rlog mB ++ (if b_rdy st then [b_data st] else []) /\
    0 <= b_lvl st <= 2 ^ n + 1.

Lemma BInv_init n : 0 <= n -> BInv n (bstate0 n) mon0.
Proof.
  intros Hn. exists mon0, ghost0. split; [apply Inv_init; lia|]. cbn. pose proof (pow2_pos n Hn).
  split; [reflexivity|]. split; [reflexivity|]. lia.
Qed.

Lemma BInv_step n width st mB e i : 1 <= n -> BInv n st mB -> i_rst i = false -> i_rrst i = false ->
  BInv n (buf_step n width st e i) (mon_step width (o_wrdy n (inner st)) (b_rdy st) (b_data st) mB e i).
Proof.
  intros Hn (mI & g & I & Hw & Hr & Hl) Hrst Hrrst.
  exists (mon_step width (o_wrdy n (inner st)) (o_rrdy (inner st)) (o_rdata (inner st)) mI e (b_inner_in st i)),
         (gstep mI g e).
  pose proof (Inv_levels n _ _ _ Hn I) as (_ & Hrl & _).
  pose proof (pow2_pos n ltac:(lia)) as Hp. pose proof (pow2_succ n ltac:(lia)) as E2.
  split; [|split; [|split]].
  - unfold buf_step. cbn [inner]. apply Inv_step; [assumption|assumption|exact Hrst].
  - unfold mon_step, b_inner_in. cbn [wlog i_wen i_wdata]. rewrite Hw. reflexivity.
  - unfold mon_step, buf_step, b_inner_in, b_inner_ren. rewrite Hrst, Hrrst, !andb_false_r. cbn [a_pre rlog i_ren b_rdy b_data].
    rewrite Hr.
    destruct e, (b_rdy st), (i_ren i), (o_rrdy (inner st)); cbn [has_r andb orb negb];
      rewrite ?app_nil_r, <- ?app_assoc; reflexivity.
  - unfold buf_step. cbn [b_lvl]. rewrite Hrrst, andb_false_r. destruct (has_r e); [|exact Hl].
    rewrite Hrst. cbn [a_pre]. rewrite blvl_bits_eq by lia.
    assert (2 ^ 1 <= 2 ^ n) by (apply pow2_mono; lia). change (2 ^ 1) with 2 in *.
    rewrite Z.mod_small; destruct (b_rcb st i); cbn [Z.b2z]; lia.
Qed.

Lemma BInv_run n width tr : 1 <= n -> no_rsts tr -> forall sm, BInv n (fst sm) (snd sm) ->
  BInv n (fst (brun n width tr sm)) (snd (brun n width tr sm)).
Proof.
  intros Hn H. induction H as [|x r [Hx Hx2] Hr IH]; intros sm I; [exact I|].
  cbn [brun fold_left]. apply IH. unfold brun_step. cbn [fst snd]. rewrite Hx. cbn [a_pre].
  apply BInv_step; assumption.
Qed.

Lemma BInv_reach n width tr : 1 <= n -> no_rst tr -> no_rrst tr ->
  BInv n (fst (brun n width tr (bstate0 n, mon0))) (snd (brun n width tr (bstate0 n, mon0))).
Proof. intros Hn H H2. apply BInv_run; [assumption|apply no_rsts_of; assumption|]. apply BInv_init. lia. Qed.

Lemma app_if_length (l : list Z) (b : bool) d :
  Z.of_nat (length (l ++ (if b then [d] else []))) = Z.of_nat (length l) + Z.b2z b.
Proof. rewrite app_length. destruct b; cbn [length Z.b2z]; lia. Qed.

Lemma prefix_of_prefix (a c w : list Z) :
  a ++ c = firstn (length (a ++ c)) w -> a = firstn (length a) w.
Proof.
  intros H. assert (E : a = firstn (length a) (a ++ c)).
  { rewrite firstn_app, Nat.sub_diag, firstn_all. cbn. symmetry; apply app_nil_r. }
  rewrite E at 1. rewrite H. rewrite firstn_firstn. f_equal. rewrite app_length. lia.
Qed.

Lemma BInv_order n st mB : BInv n st mB -> rlog mB = firstn (length (rlog mB)) (wlog mB).
Proof.
  intros (mI & g & I & Hw & Hr & _). pose proof (Inv_order n _ _ _ I) as Ho. rewrite Hw, Hr in Ho.
  eapply prefix_of_prefix. exact Ho.
Qed.

Lemma BInv_no_overflow n st mB : 1 <= n -> BInv n st mB ->
  0 <= held mB <= 2 ^ n + 1 /\ (held mB = 2 ^ n + 1 -> bo_wrdy n st = false).
Proof.
  intros Hn (mI & g & I & Hw & Hr & _). destruct (Inv_no_overflow n _ _ _ Hn I) as [Hb Hf].
  assert (E : held mI = held mB - Z.b2z (b_rdy st)).
  { unfold held. rewrite Hw, Hr, app_if_length. lia. }
  unfold bo_wrdy. destruct (b_rdy st); cbn [Z.b2z] in E.
  - split; [|intros H; apply Hf]; lia.
  - split; [|intros H]; lia.
Qed.

Lemma BInv_rdy_data n st mB : 1 <= n -> BInv n st mB -> bo_rrdy st = true ->
  0 < held mB /\ bo_rdata st = nth (length (rlog mB)) (wlog mB) 0.
Proof.
  intros Hn (mI & g & I & Hw & Hr & _) H. unfold bo_rrdy in H. rewrite H in Hr. unfold bo_rdata.
  destruct (Inv_no_overflow n _ _ _ Hn I) as [Hb _].
  assert (E : held mI = held mB - 1).
  { unfold held. rewrite Hw, Hr, app_length. cbn [length]. lia. }
  split; [lia|].
  pose proof (Inv_order n _ _ _ I) as Ho. rewrite Hw, Hr in Ho.
  assert (L : (length (rlog mB) < length (wlog mB))%nat) by (unfold held in *; rewrite Hw in *; lia).
  assert (N1 : nth (length (rlog mB)) (rlog mB ++ [b_data st]) 0 = b_data st).
  { rewrite app_nth2 by lia. rewrite Nat.sub_diag. reflexivity. }
  rewrite <- N1. rewrite Ho. rewrite app_length. cbn [length]. rewrite Nat.add_1_r.
  rewrite firstn_snoc by exact L. rewrite app_nth2; rewrite firstn_length_le by lia; [|lia].
  rewrite Nat.sub_diag. reflexivity.
Qed.

Lemma BInv_levels n st mB : 1 <= n -> BInv n st mB ->
  0 <= bo_wlevel n st <= 2 ^ n + 1 /\ 0 <= bo_rlevel st <= 2 ^ n + 1.
Proof.
  intros Hn (mI & g & I & Hw & Hr & Hl). destruct (Inv_levels n _ _ _ Hn I) as (Hwl & _ & _).
  pose proof (pow2_pos n ltac:(lia)) as Hp. pose proof (pow2_succ n ltac:(lia)) as E2.
  assert (2 ^ 1 <= 2 ^ n) by (apply pow2_mono; lia). change (2 ^ 1) with 2 in *.
  unfold bo_wlevel, bo_rlevel. rewrite blvl_bits_eq by lia. split; [|exact Hl].
  rewrite Z.mod_small; destruct (cb3 st); cbn [Z.b2z]; lia.
Qed.

(* ================================================================= constructors / elaboration *)
Lemma aceil_log2_ge1 d : 2 <= d -> 1 <= aceil_log2 d.
Proof.
  intros H. unfold aceil_log2. destruct (Z.eqb_spec d 0); [lia|].
  pose proof (bit_length_spec (d - 1) ltac:(lia)) as [_ Hu].
  destruct (Z.le_gt_cases 1 (bit_length (d - 1))); [assumption|].
  pose proof (bit_length_nonneg (d - 1)). assert (bit_length (d - 1) = 0) as E by lia. rewrite E in Hu. cbn in Hu. lia.
Qed.

Lemma aceil_log2_nonneg d : 0 <= aceil_log2 d.
Proof. unfold aceil_log2. destruct (d =? 0); [lia|apply bit_length_nonneg]. Qed.

Lemma aceil_log2_upper d : 0 < d -> d <= 2 ^ aceil_log2 d.
Proof.
  intros H. unfold aceil_log2. destruct (Z.eqb_spec d 0); [lia|].
  pose proof (bit_length_upper (d - 1) ltac:(lia)). lia.
Qed.

Lemma aceil_log2_pow2 b : 0 <= b -> aceil_log2 (2 ^ b) = b.
Proof.
  intros Hb. unfold aceil_log2. pose proof (pow2_pos b Hb). destruct (Z.eqb_spec (2 ^ b) 0); [lia|].
  destruct (Z.eq_dec b 0) as [->|Nb]; [reflexivity|].
  unfold bit_length. destruct (Z.eqb_spec (2 ^ b - 1) 0) as [E|E].
  - assert (2 ^ 1 <= 2 ^ b) by (apply pow2_mono; lia). change (2 ^ 1) with 2 in *. lia.
  - assert (2 ^ 1 <= 2 ^ b) by (apply pow2_mono; lia). change (2 ^ 1) with 2 in *.
    rewrite Z.abs_eq by lia. rewrite (Z.log2_unique (2 ^ b - 1) (b - 1)); [lia|lia|].
    replace (Z.succ (b - 1)) with b by lia. rewrite (pow2_split b) by lia. lia.
Qed.

Lemma async_elab_iff d' : 0 <= d' -> async_elab_ok d' = true <-> (d' = 0 \/ 1 <= aceil_log2 d').
Proof.
  intros H. unfold async_elab_ok, index_ok. pose proof (aceil_log2_nonneg d'). lia.
Qed.

(* every constructible depth except 1 elaborates *)
Lemma async_depths_elaborate depth exact d' : 0 <= depth -> depth <> 1 ->
  async_ctor depth exact = Some d' -> async_elab_ok d' = true.
Proof.
  intros H0 H1. unfold async_ctor. destruct (Z.eqb_spec depth 0); [intros [= <-]; reflexivity|].
  destruct (Z.ltb_spec depth 0); [lia|].
  pose proof (aceil_log2_ge1 depth ltac:(lia)) as Hb.
  destruct (exact && negb (depth =? 2 ^ aceil_log2 depth)); [discriminate|]. intros [= <-].
  pose proof (pow2_pos (aceil_log2 depth) ltac:(lia)).
  apply async_elab_iff; [lia|]. right. rewrite aceil_log2_pow2 by lia. exact Hb.
Qed.

Lemma async_buf_depths_elaborate depth exact d' : 0 <= depth -> depth <> 1 -> depth <> 2 ->
  async_buf_ctor depth exact = Some d' -> async_buf_elab_ok d' = true.
Proof.
  intros H0 H1 H2. unfold async_buf_ctor. destruct (Z.eqb_spec depth 0); [intros [= <-]; reflexivity|].
  rewrite Z.max_r by lia.
  pose proof (aceil_log2_ge1 (depth - 1) ltac:(lia)) as Hb.
  destruct (exact && negb (depth =? 2 ^ aceil_log2 (depth - 1) + 1)); [discriminate|]. intros [= <-].
  pose proof (pow2_pos (aceil_log2 (depth - 1)) ltac:(lia)) as Hp.
  unfold async_buf_elab_ok. replace (2 ^ aceil_log2 (depth - 1) + 1 - 1) with (2 ^ aceil_log2 (depth - 1)) by lia.
  destruct (Z.eqb_spec (2 ^ aceil_log2 (depth - 1) + 1) 0); [lia|]. cbn [orb].
  pose proof (async_depths_elaborate (2 ^ aceil_log2 (depth - 1)) false) as A.
  assert (2 ^ 1 <= 2 ^ aceil_log2 (depth - 1)) by (apply pow2_mono; lia). change (2 ^ 1) with 2 in *.
  destruct (async_ctor (2 ^ aceil_log2 (depth - 1)) false) as [d|] eqn:C.
  - apply (A d); [lia|lia|reflexivity].
  - unfold async_ctor in C. destruct (2 ^ aceil_log2 (depth - 1) =? 0); [discriminate|].
    destruct (Z.ltb_spec (2 ^ aceil_log2 (depth - 1)) 0); [lia|]. cbn [andb] in C. discriminate.
Qed.

(* the constructed depth of an elaborating FIFO is 2^n (resp. 2^n + 1) with n >= 1, the parameter of the model *)
Lemma async_ctor_shape depth exact d' : 0 <= depth -> async_ctor depth exact = Some d' -> d' <> 0 ->
  d' = 2 ^ aceil_log2 d' /\ depth <= d' /\ (exact = true -> d' = depth).
Proof.
  intros H0. unfold async_ctor. destruct (Z.eqb_spec depth 0); [intros [= <-]; lia|].
  destruct (Z.ltb_spec depth 0); [lia|].
  pose proof (aceil_log2_nonneg depth) as Hb. pose proof (aceil_log2_upper depth ltac:(lia)).
  destruct exact; cbn [andb]; [destruct (Z.eqb_spec depth (2 ^ aceil_log2 depth)); cbn [negb]; [|discriminate]|];
    intros [= <-] _; rewrite aceil_log2_pow2 by lia; repeat split; try lia; intros; lia.
Qed.

(* ================================================================= draining the buffered FIFO *)
Definition BInvX (n : Z) (st : bfifo) (mB mI : mon) (g : ghost) : Prop :=
  Inv n (inner st) mI g /\ wlog mI = wlog mB /\
  rlog mI = rlog mB ++ (if b_rdy st then [b_data st] else []) /\
  0 <= b_lvl st <= 2 ^ n + 1.

(* the monitor of the inner FIFO and the ghost counters, advanced along a step of the buffered FIFO *)
Definition binner_mon (n width : Z) (st : bfifo) (mI : mon) (e : ev) (i : ain) : mon :=
  mon_step width (o_wrdy n (inner st)) (o_rrdy (inner st)) (o_rdata (inner st)) mI e (b_inner_in st i).

Lemma BInvX_step n width st mB mI g e i : 1 <= n -> BInvX n st mB mI g -> i_rst i = false -> i_rrst i = false ->
  BInvX n (buf_step n width st e i) (mon_step width (o_wrdy n (inner st)) (b_rdy st) (b_data st) mB e i)
        (binner_mon n width st mI e i) (gstep mI g e).
Proof.
  intros Hn (I & Hw & Hr & Hl) Hrst Hrrst. unfold binner_mon.
  pose proof (Inv_levels n _ _ _ Hn I) as (_ & Hrl & _).
  pose proof (pow2_pos n ltac:(lia)) as Hp. pose proof (pow2_succ n ltac:(lia)) as E2.
  split; [|split; [|split]].
  - unfold buf_step. cbn [inner]. apply Inv_step; [assumption|assumption|exact Hrst].
  - unfold mon_step, b_inner_in. cbn [wlog i_wen i_wdata]. rewrite Hw. reflexivity.
  - unfold mon_step, buf_step, b_inner_in, b_inner_ren. rewrite Hrst, Hrrst, !andb_false_r. cbn [a_pre rlog i_ren b_rdy b_data].
    rewrite Hr.
    destruct e, (b_rdy st), (i_ren i), (o_rrdy (inner st)); cbn [has_r andb orb negb];
      rewrite ?app_nil_r, <- ?app_assoc; reflexivity.
  - unfold buf_step. cbn [b_lvl]. rewrite Hrrst, andb_false_r. destruct (has_r e); [|exact Hl].
    rewrite Hrst. cbn [a_pre]. rewrite blvl_bits_eq by lia.
    assert (2 ^ 1 <= 2 ^ n) by (apply pow2_mono; lia). change (2 ^ 1) with 2 in *.
    rewrite Z.mod_small; destruct (b_rcb st i); cbn [Z.b2z]; lia.
Qed.

Lemma phi_bounds n st m g : 1 <= n -> Inv n st m g -> 0 <= held m <= phi g m /\ phi g m <= held m + 2.
Proof.
  intros Hn I. destruct (Inv_no_overflow n st m g Hn I) as [Hb _].
  unfold phi, vis. destruct (gP1 g =? Wc m), (gP0 g =? Wc m); lia.
Qed.

Lemma phi0_not_rdy n st m g : 1 <= n -> Inv n st m g -> phi g m = 0 -> o_rrdy st = false.
Proof.
  intros Hn I H. destruct (phi_bounds n st m g Hn I) as [Hb _].
  rewrite (rrdy_ghost n st m g Hn I). dinv I. unfold held in Hb. fold (Wc m) (Rc m) in Hb. lia.
Qed.

Definition psi (g : ghost) (mI : mon) (b : bool) : Z :=
  if (phi g mI =? 0) && negb b then 0 else phi g mI + 1.

Lemma bdrain_step n width st mB mI g e i : 1 <= n -> BInvX n st mB mI g ->
  i_rst i = false -> i_rrst i = false -> i_wen i = false -> i_ren i = true ->
  let st' := buf_step n width st e i in
  let mB' := mon_step width (o_wrdy n (inner st)) (b_rdy st) (b_data st) mB e i in
  wlog mB' = wlog mB /\
  psi (gstep mI g e) (binner_mon n width st mI e i) (b_rdy st') <= Z.max 0 (psi g mI (b_rdy st) - Z.b2z (has_r e)).
Proof.
  intros Hn X Hrst Hrrst Hwen Hren. cbv zeta.
  pose proof (BInvX_step n width st mB mI g e i Hn X Hrst Hrrst) as (I' & _).
  destruct X as (I & Hw & Hr & Hl).
  pose proof (drain_step n width (inner st) mI g e (b_inner_in st i) Hn I Hwen) as D. cbv zeta in D.
  destruct D as (_ & _ & D3 & D4).
  assert (Hiren : i_ren (b_inner_in st i) = true) by (unfold b_inner_in, b_inner_ren; cbn [i_ren]; rewrite Hren; reflexivity).
  specialize (D4 Hiren). fold (binner_mon n width st mI e i) in D3, D4.
  split; [unfold mon_step; rewrite Hwen, !andb_false_r; reflexivity|].
  unfold buf_step in I' |- *. cbn [inner b_rdy] in I' |- *.
  destruct (phi_bounds n _ _ _ Hn I) as [P1 _]. destruct (phi_bounds n _ _ _ Hn I') as [P1' _].
  pose proof (phi0_not_rdy n _ _ _ Hn I) as Z0.
  unfold b_inner_ren. rewrite Hren, Hrst, Hrrst, ?andb_false_r. cbn [orb a_pre]. rewrite andb_true_r.
  unfold psi.
  set (p := phi g mI) in *. set (p' := phi (gstep mI g e) (binner_mon n width st mI e i)) in *.
  destruct (has_r e); cbn [Z.b2z] in *.
  - destruct (Z.eqb_spec p 0) as [E0|N0].
    + rewrite (Z0 E0). destruct (Z.eqb_spec p' 0); cbn [andb negb]; destruct (b_rdy st); cbn [andb negb]; lia.
    + destruct (Z.eqb_spec p' 0); cbn [andb negb]; destruct (o_rrdy (inner st)), (b_rdy st); cbn [andb negb]; lia.
  - destruct (Z.eqb_spec p 0), (Z.eqb_spec p' 0); cbn [andb negb]; destruct (b_rdy st); cbn [andb negb]; lia.
Qed.

(* run of the buffered FIFO carrying the inner monitor and the ghost counters *)
Definition bgrun_step (n width : Z) (s : bfifo * mon * (mon * ghost)) (x : ev * ain) : bfifo * mon * (mon * ghost) :=
  (brun_step n width (fst s) x,
   (binner_mon n width (fst (fst s)) (fst (snd s)) (fst x) (snd x), gstep (fst (snd s)) (snd (snd s)) (fst x))).
Definition bgrun (n width : Z) (tr : list (ev * ain)) (s : bfifo * mon * (mon * ghost)) :=
  fold_left (bgrun_step n width) tr s.

Lemma bgrun_fst n width tr : forall s, fst (bgrun n width tr s) = brun n width tr (fst s).
Proof. induction tr as [|x r IH]; intros s; [reflexivity|]. cbn [bgrun brun fold_left]. apply IH. Qed.

Definition BInvS (n : Z) (s : bfifo * mon * (mon * ghost)) : Prop :=
  BInvX n (fst (fst s)) (snd (fst s)) (fst (snd s)) (snd (snd s)).

Lemma bdrain_run n width tr : 1 <= n -> no_rsts tr -> no_write tr -> all_ren tr -> forall s, BInvS n s ->
  let s' := bgrun n width tr s in
  BInvS n s' /\
  wlog (snd (fst s')) = wlog (snd (fst s)) /\
  psi (snd (snd s')) (fst (snd s')) (b_rdy (fst (fst s'))) <=
    Z.max 0 (psi (snd (snd s)) (fst (snd s)) (b_rdy (fst (fst s))) - r_edges tr).
Proof.
  intros Hn Hr Hw Ha. cbv zeta. induction tr as [|x r IH]; intros s I.
  - cbn [bgrun fold_left]. change (r_edges []) with 0. split; [exact I|]. split; [reflexivity|].
    destruct s as [[st mB] [mI g]]. unfold BInvS in I. cbn [fst snd] in *.
    destruct I as (I & _). destruct (phi_bounds n _ _ _ Hn I). unfold psi.
    destruct ((phi g mI =? 0) && negb (b_rdy st)); lia.
  - inversion Hr as [|? ? Hrx Hrr]; subst. destruct Hrx as [Hrx Hrx2]. inversion Hw as [|? ? Hwx Hwr]; subst.
    inversion Ha as [|? ? Hax Har]; subst.
    cbn [bgrun fold_left]. fold (bgrun n width r (bgrun_step n width s x)).
    destruct s as [[st mB] [mI g]]. destruct x as [e i]. unfold BInvS in I. cbn [fst snd] in *.
    pose proof (BInvX_step n width st mB mI g e i Hn I Hrx Hrx2) as I1.
    pose proof (bdrain_step n width st mB mI g e i Hn I Hrx Hrx2 Hwx Hax) as D. cbv zeta in D. destruct D as (D1 & D2).
    assert (E : bgrun_step n width (st, mB, (mI, g)) (e, i) =
                (buf_step n width st e i, mon_step width (o_wrdy n (inner st)) (b_rdy st) (b_data st) mB e i,
                 (binner_mon n width st mI e i, gstep mI g e))).
    { unfold bgrun_step, brun_step. cbn [fst snd]. rewrite Hrx. reflexivity. }
    rewrite E.
    match goal with |- context [bgrun n width r ?s1] =>
      assert (I1' : BInvS n s1) by exact I1; destruct (IH Hrr Hwr Har s1 I1') as (J1 & J2 & J3) end.
    cbn [fst snd] in J2, J3.
    rewrite r_edges_cons. cbn [fst]. pose proof (r_edges_nonneg r).
    split; [exact J1|]. split; [rewrite J2; exact D1|]. lia.
Qed.

Lemma bdrain_final n width tr1 tr2 : 1 <= n -> no_rst tr1 -> no_rrst tr1 -> no_rst tr2 -> no_rrst tr2 ->
  no_write tr2 -> all_ren tr2 ->
  let sm1 := breach n width tr1 in
  let sm2 := brun n width tr2 sm1 in
  held (snd sm1) + 3 <= r_edges tr2 ->
  wlog (snd sm2) = wlog (snd sm1) /\ rlog (snd sm2) = wlog (snd sm1).
Proof.
  intros Hn H1 H1r H2 H2r Hw Ha. cbv zeta. intros Hh.
  assert (I1 : BInvS n (bgrun n width tr1 (bstate0 n, mon0, (mon0, ghost0)))).
  { clear Hh. assert (G : forall tr, no_rsts tr -> forall s, BInvS n s -> BInvS n (bgrun n width tr s)).
    { intros tr H. induction H as [|x r [Hx Hx2] Hr IH]; intros s I; [exact I|].
      cbn [bgrun fold_left]. apply IH. destruct s as [[st mB] [mI g]]. destruct x as [e i].
      unfold BInvS, bgrun_step, brun_step in *. cbn [fst snd] in *. rewrite Hx. cbn [a_pre].
      apply BInvX_step; assumption. }
    apply G; [apply no_rsts_of; assumption|]. unfold BInvS. cbn [fst snd]. split; [apply Inv_init; lia|].
    cbn. pose proof (pow2_pos n ltac:(lia)). repeat split; lia. }
  destruct (bdrain_run n width tr2 Hn (no_rsts_of _ H2 H2r) Hw Ha _ I1) as (J1 & J2 & J3).
  set (s1 := bgrun n width tr1 (bstate0 n, mon0, (mon0, ghost0))) in *.
  assert (F1 : fst s1 = breach n width tr1) by (unfold s1, breach; rewrite bgrun_fst; reflexivity).
  set (s2 := bgrun n width tr2 s1) in *.
  assert (F2 : fst s2 = brun n width tr2 (breach n width tr1)) by (unfold s2; rewrite bgrun_fst, F1; reflexivity).
  rewrite <- F2. rewrite <- F1 in Hh |- *. clear F1 F2.
  destruct s1 as [[st1 mB1] [mI1 g1]]. destruct s2 as [[st2 mB2] [mI2 g2]].
  unfold BInvS in *. cbn [fst snd] in *.
  split; [exact J2|].
  destruct I1 as (I1 & W1 & R1 & _). destruct J1 as (I2 & W2 & R2 & _).
  destruct (phi_bounds n _ _ _ Hn I1) as [A1 A2]. destruct (phi_bounds n _ _ _ Hn I2) as [B1 B2].
  assert (HB : held mI1 = held mB1 - Z.b2z (b_rdy st1)).
  { unfold held. rewrite W1, R1, app_if_length. lia. }
  assert (P0 : psi g1 mI1 (b_rdy st1) <= held mB1 + 3).
  { unfold psi. destruct (Z.eqb_spec (phi g1 mI1) 0); destruct (b_rdy st1); cbn [andb negb Z.b2z] in *; lia. }
  assert (PZ : psi g2 mI2 (b_rdy st2) <= 0) by lia.
  unfold psi in PZ.
  destruct (Z.eqb_spec (phi g2 mI2) 0) as [E0|N0]; [|cbn [andb] in PZ; lia].
  destruct (b_rdy st2); cbn [andb negb] in PZ; [lia|].
  rewrite app_nil_r in R2.
  assert (H0 : held mI2 = 0) by lia.
  pose proof (Inv_order n _ _ _ I2) as Ho. rewrite <- R2, Ho.
  replace (length (rlog mI2)) with (length (wlog mI2)) by (unfold held in H0; lia).
  rewrite firstn_all. rewrite W2. exact J2.
Qed.

(* ----------------------------------------------------------------- visibility at the buffered output, any r_en *)
Definition lam (g : ghost) (mI mB : mon) (b : bool) : Z :=
  if vis g mI <? 2 then vis g mI else if Bool.eqb b (0 <? held mB) then 3 else 2.

Lemma vis_le2 g m : 0 <= vis g m <= 2.
Proof. unfold vis. destruct (gP1 g =? Wc m), (gP0 g =? Wc m); lia. Qed.

Lemma vis2_rdy n st m g : 1 <= n -> Inv n st m g -> vis g m = 2 -> o_rrdy st = (0 <? held m).
Proof.
  intros Hn I V. rewrite (rrdy_ghost n st m g Hn I).
  assert (E : gP1 g = Wc m) by (unfold vis in V; destruct (Z.eqb_spec (gP1 g) (Wc m)); [assumption|destruct (gP0 g =? Wc m); lia]).
  dinv I. unfold held. fold (Wc m) (Rc m). destruct Haf as [Ha1 _].
  destruct (af1 st); [specialize (Ha1 eq_refl)|]; lia.
Qed.

Lemma held_binv n st mB mI g : BInvX n st mB mI g -> held mB = held mI + Z.b2z (b_rdy st).
Proof. intros (_ & W1 & R1 & _). unfold held. rewrite W1, R1, app_if_length. lia. Qed.

Lemma bvis_step n width st mB mI g e i : 1 <= n -> BInvX n st mB mI g -> i_rst i = false -> i_rrst i = false ->
  i_wen i = false ->
  let st' := buf_step n width st e i in
  let mB' := mon_step width (o_wrdy n (inner st)) (b_rdy st) (b_data st) mB e i in
  lam (gstep mI g e) (binner_mon n width st mI e i) mB' (b_rdy st') >=
    Z.min 3 (lam g mI mB (b_rdy st) + Z.b2z (has_r e)).
Proof.
  intros Hn X Hrst Hrrst Hwen. cbv zeta.
  pose proof (BInvX_step n width st mB mI g e i Hn X Hrst Hrrst) as X'.
  pose proof (held_binv _ _ _ _ _ X) as HB. pose proof (held_binv _ _ _ _ _ X') as HB'.
  destruct X as (I & Hw & Hr & Hl). destruct X' as (I' & _).
  pose proof (drain_step n width (inner st) mI g e (b_inner_in st i) Hn I Hwen) as D. cbv zeta in D.
  destruct D as (_ & D2 & _ & _). fold (binner_mon n width st mI e i) in D2.
  pose proof (vis_le2 g mI) as V1. pose proof (vis_le2 (gstep mI g e) (binner_mon n width st mI e i)) as V2.
  pose proof (vis2_rdy n _ _ _ Hn I) as Z2.
  destruct (phi_bounds n _ _ _ Hn I) as [[Hh0 _] _].
  (* held of the buffered monitor after the step *)
  assert (HM : held (mon_step width (o_wrdy n (inner st)) (b_rdy st) (b_data st) mB e i) =
               held mB - Z.b2z (has_r e && (b_rdy st && i_ren i))).
  { unfold mon_step, held. rewrite Hwen, !andb_false_r. cbn [wlog rlog].
    destruct (has_r e && (b_rdy st && i_ren i)); rewrite ?length_snoc; cbn [Z.b2z]; lia. }
  unfold buf_step in HB' |- *. cbn [b_rdy inner] in HB' |- *. rewrite Hrst, Hrrst, ?andb_false_r in HB' |- *. cbn [a_pre] in HB' |- *.
  unfold b_inner_ren in HB' |- *.
  unfold lam. rewrite HM. clear HM.
  set (v := vis g mI) in *. set (v' := vis (gstep mI g e) (binner_mon n width st mI e i)) in *.
  destruct (Z.ltb_spec v 2) as [L|G].
  - destruct (Z.ltb_spec v' 2); [lia|]. destruct (Bool.eqb _ _); destruct (has_r e); cbn [Z.b2z] in *; lia.
  - assert (v = 2) as Ev by lia. specialize (Z2 Ev).
    destruct (Z.ltb_spec v' 2) as [L'|G']; [destruct (has_r e); cbn [Z.b2z] in *; lia|].
    destruct (has_r e); cbn [andb Z.b2z] in *.
    + rewrite Z2. destruct (b_rdy st), (i_ren i); cbn [andb orb negb Z.b2z Bool.eqb] in *;
        destruct (Z.ltb_spec 0 (held mI)); cbn [Bool.eqb];
        repeat match goal with |- context [0 <? ?x] => destruct (Z.ltb_spec 0 x) end; cbn [Bool.eqb]; lia.
    + rewrite Z.sub_0_r, Z.add_0_r. destruct (Bool.eqb (b_rdy st) (0 <? held mB)); lia.
Qed.

Lemma bvis_run n width tr : 1 <= n -> no_rsts tr -> no_write tr -> forall s, BInvS n s ->
  let s' := bgrun n width tr s in
  BInvS n s' /\
  lam (snd (snd s')) (fst (snd s')) (snd (fst s')) (b_rdy (fst (fst s'))) >=
    Z.min 3 (lam (snd (snd s)) (fst (snd s)) (snd (fst s)) (b_rdy (fst (fst s))) + r_edges tr).
Proof.
  intros Hn Hr Hw. cbv zeta. induction tr as [|x r IH]; intros s I.
  - cbn [bgrun fold_left]. change (r_edges []) with 0. split; [exact I|].
    destruct s as [[st mB] [mI g]]. cbn [fst snd]. pose proof (vis_le2 g mI). unfold lam.
    destruct (vis g mI <? 2), (Bool.eqb (b_rdy st) (0 <? held mB)); lia.
  - inversion Hr as [|? ? Hrx Hrr]; subst. destruct Hrx as [Hrx Hrx2]. inversion Hw as [|? ? Hwx Hwr]; subst.
    cbn [bgrun fold_left]. fold (bgrun n width r (bgrun_step n width s x)).
    destruct s as [[st mB] [mI g]]. destruct x as [e i]. unfold BInvS in I. cbn [fst snd] in *.
    pose proof (BInvX_step n width st mB mI g e i Hn I Hrx Hrx2) as I1.
    pose proof (bvis_step n width st mB mI g e i Hn I Hrx Hrx2 Hwx) as D. cbv zeta in D.
    assert (E : bgrun_step n width (st, mB, (mI, g)) (e, i) =
                (buf_step n width st e i, mon_step width (o_wrdy n (inner st)) (b_rdy st) (b_data st) mB e i,
                 (binner_mon n width st mI e i, gstep mI g e))).
    { unfold bgrun_step, brun_step. cbn [fst snd]. rewrite Hrx. reflexivity. }
    rewrite E.
    match goal with |- context [bgrun n width r ?s1] =>
      assert (I1' : BInvS n s1) by exact I1; destruct (IH Hrr Hwr s1 I1') as (J1 & J2) end.
    cbn [fst snd] in J2.
    rewrite r_edges_cons. cbn [fst]. pose proof (r_edges_nonneg r).
    split; [exact J1|]. lia.
Qed.

Lemma BInvS_reach n width tr : 1 <= n -> no_rst tr -> no_rrst tr ->
  BInvS n (bgrun n width tr (bstate0 n, mon0, (mon0, ghost0))).
Proof.
  intros Hn H1 H1r.
  assert (G : forall tr, no_rsts tr -> forall s, BInvS n s -> BInvS n (bgrun n width tr s)).
  { intros tr0 H. induction H as [|x r [Hx Hx2] Hr IH]; intros s I; [exact I|].
    cbn [bgrun fold_left]. apply IH. destruct s as [[st mB] [mI g]]. destruct x as [e i].
    unfold BInvS, bgrun_step, brun_step in *. cbn [fst snd] in *. rewrite Hx. cbn [a_pre].
    apply BInvX_step; assumption. }
  apply G; [apply no_rsts_of; assumption|]. unfold BInvS. cbn [fst snd]. split; [apply Inv_init; lia|].
  cbn. pose proof (pow2_pos n ltac:(lia)). repeat split; lia.
Qed.

Lemma bvis_final n width tr1 tr2 : 1 <= n -> no_rst tr1 -> no_rrst tr1 -> no_rst tr2 -> no_rrst tr2 -> no_write tr2 ->
  let sm1 := breach n width tr1 in
  let sm2 := brun n width tr2 sm1 in
  3 <= r_edges tr2 ->
  wlog (snd sm2) = wlog (snd sm1) /\ bo_rrdy (fst sm2) = (0 <? held (snd sm2)).
Proof.
  intros Hn H1 H1r H2 H2r Hw. cbv zeta. intros H3.
  pose proof (BInvS_reach n width tr1 Hn H1 H1r) as I1.
  destruct (bvis_run n width tr2 Hn (no_rsts_of _ H2 H2r) Hw _ I1) as (J1 & J2).
  set (s1 := bgrun n width tr1 (bstate0 n, mon0, (mon0, ghost0))) in *.
  assert (F1 : fst s1 = breach n width tr1) by (unfold s1, breach; rewrite bgrun_fst; reflexivity).
  set (s2 := bgrun n width tr2 s1) in *.
  assert (F2 : fst s2 = brun n width tr2 (breach n width tr1)) by (unfold s2; rewrite bgrun_fst, F1; reflexivity).
  rewrite <- F2. rewrite <- F1. clear F1 F2.
  (* the write log does not change without w_en *)
  assert (WL : forall tr, no_write tr -> forall sm, wlog (snd (brun n width tr sm)) = wlog (snd sm)).
  { intros tr0 H. induction H as [|x r Hx Hr IH]; intros sm; [reflexivity|].
    cbn [brun fold_left]. fold (brun n width r (brun_step n width sm x)). rewrite IH.
    unfold brun_step, mon_step. cbn [snd wlog]. rewrite Hx, !andb_false_r. reflexivity. }
  split.
  - unfold s2. rewrite bgrun_fst. apply WL. exact Hw.
  - destruct s1 as [[st1 mB1] [mI1 g1]]. destruct s2 as [[st2 mB2] [mI2 g2]]. cbn [fst snd] in *.
    pose proof (vis_le2 g1 mI1). unfold lam in J2.
    unfold bo_rrdy.
    destruct (vis g2 mI2 <? 2) eqn:V2; [pose proof (vis_le2 g2 mI2); destruct (vis g1 mI1 <? 2), (Bool.eqb (b_rdy st1) (0 <? held mB1)); lia|].
    destruct (Bool.eqb (b_rdy st2) (0 <? held mB2)) eqn:EQ; [apply Bool.eqb_prop; exact EQ|].
    destruct (vis g1 mI1 <? 2), (Bool.eqb (b_rdy st1) (0 <? held mB1)); lia.
Qed.

(* ================================================================= write-domain reset *)
(* progress of a reset episode: RSz k st says that the first k flushing steps have been done
   (1: write-side registers and reset flops, 2: produce stage 0, 3: produce stage 1, 4: consume_r_*,
    5: consume stage 0, 6: consume stage 1) *)
Definition RSz (k : Z) (st : afifo) : Prop :=
  (1 <= k -> pwb st = 0 /\ pwg st = 0 /\ cwb st = 0 /\ wlvl st = 0 /\ af0 st = true /\ af1 st = true) /\
  (2 <= k -> ps0 st = 0) /\ (3 <= k -> ps1 st = 0) /\ (4 <= k -> crg st = 0 /\ crb st = 0) /\
  (5 <= k -> cs0 st = 0) /\ (6 <= k -> cs1 st = 0).

Lemma RSz_weaken k k' st : k' <= k -> RSz k st -> RSz k' st.
Proof. intros H (A & B & C & D & E & F). repeat split; intros; try apply A; try apply B; try apply C; try apply D; try apply E; try apply F; lia. Qed.

Lemma gray_dec_0 w : 0 <= w -> gray_dec w 0 = 0.
Proof. intros H. rewrite <- gray_enc_0 at 1. apply gray_dec_enc; [assumption|]. pose proof (pow2_pos w H). lia. Qed.

Definition rdelta (k : Z) (e : ev) : Z :=
  if (has_w e && ((k =? 0) || (k =? 4) || (k =? 5))) || (has_r e && ((k =? 1) || (k =? 2) || (k =? 3))) then 1 else 0.

Lemma RSz_step n width st e i k : 0 <= n -> 0 <= k <= 6 -> i_rst i = true -> RSz k st ->
  RSz (k + rdelta k e) (async_step n width st e i).
Proof.
  intros Hn Hk Hrst (A & B & C & D & E & F).
  pose proof (gray_dec_0 (n + 1) ltac:(lia)) as G0.
  assert (K : k = 0 \/ k = 1 \/ k = 2 \/ k = 3 \/ k = 4 \/ k = 5 \/ k = 6) by lia.
  unfold async_step. rewrite Hrst. cbn [a_pre pwb pwg crb crg ps0 ps1 cs0 cs1 cwb wlvl mem rdat af0 af1 rrst].
  destruct K as [-> | [-> | [-> | [-> | [-> | [-> | ->]]]]]]; destruct e;
    match goal with |- RSz ?kk _ => let v := eval vm_compute in kk in change kk with v end;
    unfold RSz; cbn [has_w has_r pwb pwg crb crg ps0 ps1 cs0 cs1 cwb wlvl mem rdat af0 af1 rrst];
    repeat match goal with
           | H : ?a <= ?b -> _ |- _ => first [ specialize (H ltac:(lia)) | clear H ]
           end;
    repeat match goal with H : _ /\ _ |- _ => destruct H end;
    repeat split; intros; try lia; try reflexivity; try assumption; try congruence;
    try (match goal with H : ps1 st = 0 |- _ => rewrite H end; exact G0).
Qed.

Lemma asteps_cons n width x tr st :
  asteps n width (x :: tr) st = asteps n width tr (async_step n width st (fst x) (snd x)).
Proof. reflexivity. Qed.

Lemma w_edges_cons x tr : w_edges (x :: tr) = Z.b2z (has_w (fst x)) + w_edges tr.
Proof. unfold w_edges. cbn [filter]. destruct (has_w (fst x)); cbn [length Z.b2z]; lia. Qed.
Lemma w_edges_nonneg tr : 0 <= w_edges tr.
Proof. unfold w_edges. lia. Qed.

Lemma rdelta_range k e : 0 <= rdelta k e <= 1.
Proof. unfold rdelta. destruct (_ || _); lia. Qed.

Lemma RSz_run_mono n width tr : 0 <= n -> all_rst tr -> forall st k, 0 <= k <= 6 -> RSz k st ->
  RSz k (asteps n width tr st).
Proof.
  intros Hn H. induction H as [|x r Hx Hr IH]; intros st k Hk R; [exact R|].
  rewrite asteps_cons. apply IH; [assumption|].
  apply (RSz_weaken (k + rdelta k (fst x))); [pose proof (rdelta_range k (fst x)); lia|].
  apply RSz_step; assumption.
Qed.

(* phase 1: one write edge *)
Lemma RSz_run_w0 n width tr : 0 <= n -> all_rst tr -> forall st, 1 <= w_edges tr -> RSz 1 (asteps n width tr st).
Proof.
  intros Hn H. induction H as [|x r Hx Hr IH]; intros st Hw; [change (w_edges []) with 0 in Hw; lia|].
  rewrite asteps_cons. rewrite w_edges_cons in Hw.
  destruct (has_w (fst x)) eqn:HW; cbn [Z.b2z] in Hw.
  - apply RSz_run_mono; [assumption|assumption|lia|].
    assert (R0 : RSz 0 st) by (repeat split; intros; lia).
    pose proof (RSz_step n width st (fst x) (snd x) 0 Hn ltac:(lia) Hx R0) as S.
    unfold rdelta in S. rewrite HW in S. cbn in S. exact S.
  - apply IH. lia.
Qed.

(* phase 2: three read edges take stage 1 to stage 4 *)
Lemma RSz_run_r n width tr : 0 <= n -> all_rst tr -> forall st k, 1 <= k <= 4 -> RSz k st ->
  4 - k <= r_edges tr -> RSz 4 (asteps n width tr st).
Proof.
  intros Hn H. induction H as [|x r Hx Hr IH]; intros st k Hk R Hc.
  - change (r_edges []) with 0 in Hc. assert (k = 4) by lia. subst. exact R.
  - rewrite asteps_cons. rewrite r_edges_cons in Hc.
    pose proof (RSz_step n width st (fst x) (snd x) k Hn ltac:(lia) Hx R) as S.
    destruct (Z.eq_dec k 4) as [->|Nk].
    + apply RSz_run_mono; [assumption|assumption|lia|].
      apply (RSz_weaken (4 + rdelta 4 (fst x))); [pose proof (rdelta_range 4 (fst x)); lia|exact S].
    + destruct (has_r (fst x)) eqn:HR; cbn [Z.b2z] in Hc.
      * assert (D : rdelta k (fst x) = 1).
        { unfold rdelta. rewrite HR. assert (K : k = 1 \/ k = 2 \/ k = 3) by lia.
          destruct K as [-> | [-> | ->]]; cbn; rewrite ?orb_true_r; reflexivity. }
        rewrite D in S. apply (IH _ (k + 1)); [lia|exact S|lia].
      * apply (IH _ k); [lia| |lia].
        apply (RSz_weaken (k + rdelta k (fst x))); [pose proof (rdelta_range k (fst x)); lia|exact S].
Qed.

(* phase 3: two write edges take stage 4 to stage 6 *)
Lemma RSz_run_w4 n width tr : 0 <= n -> all_rst tr -> forall st k, 4 <= k <= 6 -> RSz k st ->
  6 - k <= w_edges tr -> RSz 6 (asteps n width tr st).
Proof.
  intros Hn H. induction H as [|x r Hx Hr IH]; intros st k Hk R Hc.
  - change (w_edges []) with 0 in Hc. assert (k = 6) by lia. subst. exact R.
  - rewrite asteps_cons. rewrite w_edges_cons in Hc.
    pose proof (RSz_step n width st (fst x) (snd x) k Hn ltac:(lia) Hx R) as S.
    destruct (Z.eq_dec k 6) as [->|Nk].
    + apply RSz_run_mono; [assumption|assumption|lia|].
      apply (RSz_weaken (6 + rdelta 6 (fst x))); [pose proof (rdelta_range 6 (fst x)); lia|exact S].
    + destruct (has_w (fst x)) eqn:HW; cbn [Z.b2z] in Hc.
      * assert (D : rdelta k (fst x) = 1).
        { unfold rdelta. rewrite HW. assert (K : k = 4 \/ k = 5) by lia.
          destruct K as [-> | ->]; cbn; reflexivity. }
        rewrite D in S. apply (IH _ (k + 1)); [lia|exact S|lia].
      * apply (IH _ k); [lia| |lia].
        apply (RSz_weaken (k + rdelta k (fst x))); [pose proof (rdelta_range k (fst x)); lia|exact S].
Qed.

Lemma asteps_app n width t1 t2 st : asteps n width (t1 ++ t2) st = asteps n width t2 (asteps n width t1 st).
Proof. unfold asteps. apply fold_left_app. Qed.

Lemma all_rst_app t1 t2 : all_rst (t1 ++ t2) -> all_rst t1 /\ all_rst t2.
Proof. unfold all_rst. apply Forall_app. Qed.

Lemma asteps_mem_len n width tr : forall st, length (mem (asteps n width tr st)) = length (mem st).
Proof.
  induction tr as [|x r IH]; intros st; [reflexivity|]. rewrite asteps_cons, IH.
  unfold async_step. cbn [mem]. destruct (_ && _); [rewrite upd_nth_length|]; destruct (i_rst (snd x)); reflexivity.
Qed.

Lemma arun_fst n width tr : forall sm, fst (arun n width tr sm) = asteps n width tr (fst sm).
Proof. induction tr as [|x r IH]; intros sm; [reflexivity|]. cbn [arun fold_left]. rewrite asteps_cons. apply IH. Qed.

(* a flushed state is a fresh FIFO: the invariant holds with empty logs and zero counters *)
Lemma flushed_Inv n st : 0 <= n -> RSz 6 st -> length (mem st) = Z.to_nat (2 ^ n) -> Inv n st mon0 ghost0.
Proof.
  intros Hn (A & B & C & D & E & F) Hl.
  destruct (A ltac:(lia)) as (A1 & A2 & A3 & A4 & A5 & A6). destruct (D ltac:(lia)) as [D1 D2].
  specialize (B ltac:(lia)). specialize (C ltac:(lia)). specialize (E ltac:(lia)). specialize (F ltac:(lia)).
  pose proof (pow2_pos n Hn). pose proof (pow2_pos (n + 1) ltac:(lia)).
  constructor; cbn [Wc Rc wlog rlog mon0 ghost0 gP0 gP1 gC0 gC1 gCB length Z.of_nat];
    unfold Wc, Rc; cbn [wlog rlog mon0 length Z.of_nat]; rewrite ?Z.mod_0_l by lia; rewrite ?gray_enc_0;
    try assumption; try lia; try reflexivity.
  all: try (split; [exact Hl|intros k Hk; lia]).
  all: try (split; intros _; [reflexivity|split; [assumption|reflexivity]]).
Qed.

Lemma reset_flushes n width tr st : 0 <= n -> suff_reset tr -> RSz 6 (asteps n width tr st).
Proof.
  intros Hn (Hall & t1 & t2 & t3 & -> & H1 & H2 & H3).
  apply all_rst_app in Hall. destruct Hall as [Ha1 Ha23]. apply all_rst_app in Ha23. destruct Ha23 as [Ha2 Ha3].
  rewrite !asteps_app.
  apply (RSz_run_w4 n width t3 Hn Ha3 _ 4); [lia| |lia].
  apply (RSz_run_r n width t2 Hn Ha2 _ 1); [lia| |lia].
  apply RSz_run_w0; assumption.
Qed.

(* after a sufficient reset episode, from ANY state, the FIFO is a fresh FIFO *)
Lemma reset_recovers n width tr st m : 1 <= n -> length (mem st) = Z.to_nat (2 ^ n) -> suff_reset tr ->
  Inv n (fst (arun n width tr (st, m))) mon0 ghost0.
Proof.
  intros Hn Hl Hs. rewrite arun_fst. cbn [fst].
  apply flushed_Inv; [lia|apply reset_flushes; [lia|assumption]|]. rewrite asteps_mem_len. exact Hl.
Qed.

(* memory length is an invariant of every run from power-on, resets included *)
Lemma areach_mem_len n width tr : 0 <= n -> length (mem (fst (areach n width tr))) = Z.to_nat (2 ^ n).
Proof. intros Hn. unfold areach. rewrite arun_fst, asteps_mem_len. cbn [fst astate0 mem]. apply repeat_length. Qed.

(* all safety properties of a reset-free continuation after a sufficient reset, with a fresh monitor *)
Lemma safe_after_reset n width tr0 trr tr : 1 <= n -> suff_reset trr -> no_rst tr ->
  let st1 := fst (arun n width trr (areach n width tr0)) in
  let sm2 := arun n width tr (st1, mon0) in
  exists g, Inv n (fst sm2) (snd sm2) g.
Proof.
  intros Hn Hs Hr. cbv zeta.
  assert (I1 : Inv n (fst (arun n width trr (areach n width tr0))) mon0 ghost0).
  { destruct (areach n width tr0) as [st m] eqn:E.
    apply reset_recovers; [assumption| |assumption].
    pose proof (areach_mem_len n width tr0 ltac:(lia)) as L. rewrite E in L. exact L. }
  pose proof (InvS_run n width tr Hn Hr (fst (arun n width trr (areach n width tr0)), mon0, ghost0) I1) as I.
  unfold InvS in I. rewrite grun_fst in I. cbn [fst] in I. eexists. exact I.
Qed.

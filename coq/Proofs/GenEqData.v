(* GenEqData.v — the definitions regenerated from /repo/amaranth/lib/data.py and lib/enum.py by
   translator/unit_data.py (coq/Gen/DataGen.v) are equal to the hand model Model/Data.v on all inputs.
   `W` (= Shape.cast(_).width, the recursion through as_shape()) is instantiated with Data.layout_size;
   gen_Shape_cast_width_eq / gen_width_unique show that layout_size is the unique solution of the generated
   recursion equations.  The conversions that leave data.py are instantiated with the model's
   field_init / const_field / view_field.  Guards: wf_layout (what the constructors accept). *)
From Coq Require Import ZArith List Bool Lia ZifyBool.
From V.Model Require Import Bits Shape Ast Denote Data.
From V.Proofs Require Import BitsP ShapeP DataP.
From V.Gen Require DataGen.
Import ListNotations.
Open Scope Z_scope.

Module G := DataGen.
Notation LS := layout_size.

(* ------------------------------------------------------------------ result conversions *)
Definition of_opt {A} (c : Z) (o : option A) : G.exc A :=
  match o with Some a => G.Ret a | None => G.Raise c end.
Definition of_res (r : res) : G.exc (layout * Z) :=
  match r with Ok l v => G.Ret (l, v) | Err c => G.Raise c end.
Definition of_resz (r : resz) : G.exc Z :=
  match r with Okz v => G.Ret v | Errz c => G.Raise c end.
Definition bits_of (r : G.exc (layout * Z)) : resz :=
  match r with G.Ret (_, v) => Okz v | G.Raise c => Errz c end.
(* the parameters CV / CF / VF of the generated functions, from the model *)
Definition cv (rec : layout -> init -> resz) : layout -> init -> G.exc Z :=
  fun sub x => of_resz (field_init rec sub x).
Definition cf : layout -> Z -> G.exc (layout * Z) := fun sub bits => of_res (const_field sub bits).
Definition vf : layout -> Z -> G.exc (layout * Z) := fun sub bits => of_res (view_field sub bits).

(* ------------------------------------------------------------------ Field *)
Lemma gen_Field_new_eq f off : G.Field_new f off = (off, f).
Proof. reflexivity. Qed.
Lemma gen_Field_shape_eq off f : G.Field_shape (off, f) = f.
Proof. reflexivity. Qed.
Lemma gen_Field_offset_eq off (f : layout) : G.Field_offset (off, f) = off.
Proof. reflexivity. Qed.
Lemma gen_Field_width_eq W off f : G.Field_width W (off, f) = W f.
Proof. reflexivity. Qed.

(* ------------------------------------------------------------------ StructLayout *)
Lemma gen_StructLayout_new_eq fs : G.StructLayout_new LS fs = struct_fields 0 fs.
Proof.
  unfold G.StructLayout_new. cbv zeta.
  match goal with |- context [fold_left ?F fs (0, ?n)] =>
    enough (H : forall off acc, snd (fold_left F fs (off, acc)) = acc ++ struct_fields off fs)
      by exact (H 0 []) end.
  induction fs as [|[k f] r IH]; intros off acc; simpl.
  - rewrite app_nil_r. reflexivity.
  - rewrite IH. unfold G.dict_set. rewrite <- app_assoc. reflexivity.
Qed.

Lemma struct_ends_fields fs : forall off,
  map (fun fd : G.field => G.Field_offset fd + G.Field_width LS fd) (map snd (struct_fields off fs))
  = struct_ends off (sizes fs).
Proof.
  induction fs as [|[k f] r IH]; intros off; simpl; [reflexivity|]. rewrite IH. reflexivity.
Qed.

Lemma gen_StructLayout_size_eq fs : G.StructLayout_size LS (G.StructLayout_new LS fs) = LS (Struct fs).
Proof.
  rewrite gen_StructLayout_new_eq, layout_size_struct. unfold G.StructLayout_size. cbv zeta.
  f_equal. apply struct_ends_fields.
Qed.

Lemma gen_StructLayout_iter_eq fs : G.StructLayout_iter (G.StructLayout_new LS fs) = fields_of (Struct fs).
Proof. rewrite gen_StructLayout_new_eq. reflexivity. Qed.

Lemma gen_StructLayout_getitem_eq fs k :
  G.StructLayout_getitem (G.StructLayout_new LS fs) k = of_opt 1 (field_of (Struct fs) k).
Proof. rewrite gen_StructLayout_new_eq. reflexivity. Qed.

(* ------------------------------------------------------------------ UnionLayout *)
Lemma gen_UnionLayout_new_eq fs : G.UnionLayout_new fs = map (fun kf => (fst kf, (0, snd kf))) fs.
Proof.
  unfold G.UnionLayout_new. cbv zeta.
  match goal with |- context [fold_left ?F fs ?n] =>
    enough (H : forall acc, fold_left F fs acc = acc ++ map (fun kf => (fst kf, (0, snd kf))) fs)
      by exact (H []) end.
  induction fs as [|[k f] r IH]; intros acc; simpl.
  - rewrite app_nil_r. reflexivity.
  - rewrite IH. unfold G.dict_set. rewrite <- app_assoc. reflexivity.
Qed.

Lemma gen_UnionLayout_size_eq fs : G.UnionLayout_size LS (G.UnionLayout_new fs) = LS (Union fs).
Proof.
  rewrite gen_UnionLayout_new_eq, layout_size_union. unfold G.UnionLayout_size, sizes. cbv zeta.
  f_equal. rewrite !map_map. reflexivity.
Qed.

Lemma gen_UnionLayout_iter_eq fs : G.UnionLayout_iter (G.UnionLayout_new fs) = fields_of (Union fs).
Proof. rewrite gen_UnionLayout_new_eq. reflexivity. Qed.

Lemma gen_UnionLayout_getitem_eq fs k :
  G.UnionLayout_getitem (G.UnionLayout_new fs) k = of_opt 1 (field_of (Union fs) k).
Proof. rewrite gen_UnionLayout_new_eq. reflexivity. Qed.

(* ------------------------------------------------------------------ ArrayLayout *)
Lemma gen_ArrayLayout_new_eq e n : G.ArrayLayout_new e n = (e, n).
Proof. reflexivity. Qed.

Lemma gen_ArrayLayout_iter_eq e n : G.ArrayLayout_iter LS (e, Z.of_nat n) = fields_of (Array e n).
Proof.
  unfold G.ArrayLayout_iter, G.py_range. cbv beta iota zeta. rewrite Nat2Z.id. simpl fields_of.
  match goal with |- context [fold_left ?F _ (?n0, 0)] =>
    enough (H : forall start off acc, fst (fold_left F (map Z.of_nat (seq start n)) (acc, off))
                                      = acc ++ array_fields e (Z.of_nat start) off n)
      by exact (H 0%nat 0 []) end.
  induction n as [|n IH]; intros start off acc.
  - simpl. rewrite app_nil_r. reflexivity.
  - cbn [seq map fold_left array_fields]. rewrite IH. rewrite <- app_assoc.
    replace (Z.of_nat (S start)) with (Z.of_nat start + 1) by lia. reflexivity.
Qed.

Lemma gen_ArrayLayout_getitem_eq e n k :
  G.ArrayLayout_getitem LS (e, Z.of_nat n) k = of_opt 1 (field_of (Array e n) k).
Proof.
  unfold G.ArrayLayout_getitem, G.py_in_range, field_of, G.Field_new. cbv zeta.
  destruct ((- Z.of_nat n <=? k) && (k <? Z.of_nat n)); simpl; [|reflexivity].
  destruct (k <? 0); reflexivity.
Qed.

Lemma gen_ArrayLayout_size_eq e n : G.ArrayLayout_size LS (e, Z.of_nat n) = LS (Array e n).
Proof. reflexivity. Qed.

(* ------------------------------------------------------------------ FlexibleLayout *)
(* the constructor accepts exactly what wf_layout describes and stores its arguments *)
Lemma gen_FlexibleLayout_new_eq sz fs : wf_layout (Flex sz fs) = true ->
  G.FlexibleLayout_new LS sz fs = G.Ret (sz, fs).
Proof.
  intros Hwf. destruct (wf_flex_inv sz fs Hwf) as (_ & _ & Hall).
  unfold G.FlexibleLayout_new. cbv zeta.
  match goal with |- ?L fs ?n = _ =>
    enough (H : forall acc, L fs acc = G.Ret (sz, acc ++ fs)) by exact (H []) end.
  clear Hwf. induction Hall as [|[k [o f]] r Hh Ht IH]; intros acc.
  - rewrite app_nil_r. reflexivity.
  - cbn [fst snd] in Hh. cbn [G.Field_offset G.Field_width G.Field_shape fst snd].
    replace (sz <? o + LS f) with false by lia.
    rewrite IH. unfold G.dict_set. rewrite <- app_assoc. reflexivity.
Qed.

(* a field rejected: the first field (in dict order) that does not fit gives ValueError *)
Lemma gen_FlexibleLayout_new_rejects sz k o f r : sz < o + LS f ->
  G.FlexibleLayout_new LS sz ((k, (o, f)) :: r) = G.Raise 3.
Proof.
  intros H. unfold G.FlexibleLayout_new. cbv zeta. cbn [G.Field_offset G.Field_width G.Field_shape fst snd].
  replace (sz <? o + LS f) with true by lia. reflexivity.
Qed.

(* ------------------------------------------------------------------ virtual calls *)
Lemma gen_Layout_iter_eq l : G.Layout_iter LS l = fields_of l.
Proof.
  destruct l as [s|s vw ms|fs|fs|e n|sz fs]; try reflexivity; unfold G.Layout_iter.
  - apply gen_StructLayout_iter_eq.
  - apply gen_UnionLayout_iter_eq.
  - rewrite gen_ArrayLayout_new_eq. apply gen_ArrayLayout_iter_eq.
Qed.

Lemma gen_Layout_getitem_eq l k : is_layout l = true -> G.Layout_getitem LS l k = of_opt 1 (field_of l k).
Proof.
  destruct l as [s|s vw ms|fs|fs|e n|sz fs]; try discriminate; intros _; unfold G.Layout_getitem.
  - apply gen_StructLayout_getitem_eq.
  - apply gen_UnionLayout_getitem_eq.
  - rewrite gen_ArrayLayout_new_eq. apply gen_ArrayLayout_getitem_eq.
  - reflexivity.
Qed.

Lemma gen_Layout_getitem_nonlayout l k : is_layout l = false -> G.Layout_getitem LS l k = G.Raise 4.
Proof. destruct l; try discriminate; reflexivity. Qed.

Lemma gen_Layout_size_eq l : is_layout l = true -> G.Layout_size LS l = LS l.
Proof.
  destruct l as [s|s vw ms|fs|fs|e n|sz fs]; try discriminate; intros _; unfold G.Layout_size.
  - apply gen_StructLayout_size_eq.
  - apply gen_UnionLayout_size_eq.
  - rewrite gen_ArrayLayout_new_eq. apply gen_ArrayLayout_size_eq.
  - reflexivity.
Qed.

(* Layout.as_shape() = unsigned(size) *)
Lemma gen_Layout_as_shape_eq l : is_layout l = true -> G.Layout_as_shape LS l = Sh (LS l) false.
Proof. intros H. unfold G.Layout_as_shape. rewrite gen_Layout_size_eq by auto. reflexivity. Qed.

(* layout_size satisfies the recursion `Shape.cast(obj).width` of the source ... *)
Lemma gen_Shape_cast_width_eq l : G.Shape_cast_width LS l = LS l.
Proof.
  destruct l as [s|s vw ms|fs|fs|e n|sz fs]; try reflexivity; unfold G.Shape_cast_width;
    rewrite gen_Layout_as_shape_eq by reflexivity; reflexivity.
Qed.

(* ... and is its only solution (the recursion descends into sub-layouts only) *)
Lemma struct_new_ext W fs : Forall (fun kf => W (snd kf) = LS (snd kf)) fs ->
  G.StructLayout_new W fs = G.StructLayout_new LS fs.
Proof.
  intros Hall. unfold G.StructLayout_new. cbv zeta.
  match goal with |- (let '(_, _) := fold_left ?F fs _ in _) = (let '(_, _) := fold_left ?F' fs _ in _) =>
    enough (H : forall off (acc : list (Z * G.field)), fold_left F fs (off, acc) = fold_left F' fs (off, acc))
      by (rewrite H; reflexivity) end.
  induction Hall as [|[k f] r Hh Ht IH]; intros off acc; simpl; [reflexivity|].
  cbn [snd] in Hh. rewrite Hh. apply IH.
Qed.

Lemma struct_fields_shapes fs : forall off,
  map (fun kf => snd (snd kf)) (struct_fields off fs) = map snd fs.
Proof. induction fs as [|[k f] r IH]; intros off; simpl; [reflexivity|]. rewrite IH. reflexivity. Qed.

Lemma gen_width_unique W : (forall l, W l = G.Shape_cast_width W l) -> forall l, W l = LS l.
Proof.
  intros HW. induction l as [s|s vw ms|fs IH|fs IH|e n IH|sz fs IH] using layout_ind'; rewrite HW.
  - reflexivity.
  - reflexivity.
  - unfold G.Shape_cast_width, G.Layout_as_shape, G.Layout_size. cbn [width].
    rewrite (struct_new_ext W fs IH), <- gen_StructLayout_size_eq, gen_StructLayout_new_eq.
    unfold G.StructLayout_size. cbv zeta. f_equal.
    assert (Hs : Forall (fun kf : Z * G.field => W (snd (snd kf)) = LS (snd (snd kf))) (struct_fields 0 fs)).
    { apply Forall_forall. intros [k [o f]] Hin. cbn [snd].
      assert (In f (map snd fs)) as Hf.
      { rewrite <- (struct_fields_shapes fs 0). apply (in_map (fun kf => snd (snd kf)) _ _ Hin). }
      apply in_map_iff in Hf. destruct Hf as ([k' f'] & Heq & Hin'). cbn [snd] in Heq. subst f'.
      rewrite Forall_forall in IH. apply (IH _ Hin'). }
    induction Hs as [|[k [o f]] r Hh Ht IHs]; [reflexivity|]. cbn [map]. f_equal; [|exact IHs].
    cbn [snd] in Hh. unfold G.Field_width, G.Field_shape. cbn [snd]. rewrite Hh. reflexivity.
  - unfold G.Shape_cast_width, G.Layout_as_shape, G.Layout_size. cbn [width].
    rewrite <- gen_UnionLayout_size_eq, gen_UnionLayout_new_eq.
    unfold G.UnionLayout_size. cbv zeta. f_equal. rewrite !map_map.
    induction IH as [|[k f] r Hh Ht IHs]; [reflexivity|]. cbn [map]. f_equal; [|exact IHs].
    cbn [snd fst] in *. unfold G.Field_width, G.Field_shape. cbn [snd]. exact Hh.
  - unfold G.Shape_cast_width, G.Layout_as_shape, G.Layout_size, G.ArrayLayout_size, G.ArrayLayout_new,
      G.ArrayLayout_length. cbv zeta. cbn [width LS]. rewrite IH. reflexivity.
  - reflexivity.
Qed.

(* ------------------------------------------------------------------ Const(layout, target), from_bits, as_bits *)
Lemma gen_Const_new_eq l raw : is_layout l = true -> G.Const_new LS l raw = of_res (from_bits l raw).
Proof.
  intros Hl. unfold G.Const_new, from_bits, G.py_in_range. cbv zeta.
  rewrite gen_Layout_size_eq by auto. rewrite Z.shiftl_1_l.
  destruct ((0 <=? raw) && (raw <? 2 ^ LS l)); reflexivity.
Qed.

Lemma gen_Layout_from_bits_eq l raw : is_layout l = true ->
  G.Layout_from_bits LS l raw = of_res (from_bits l raw).
Proof. apply gen_Const_new_eq. Qed.

Lemma gen_Const_as_bits_eq l raw : Okz (G.Const_as_bits (l, raw)) = as_bits (Ok l raw).
Proof. reflexivity. Qed.

(* ------------------------------------------------------------------ Layout.const *)
(* the loop of Layout.const followed by Const(self, int_value), for any treatment `rec` of nested initialisers *)
Lemma gen_Layout_const_eq rec l kvs : wf_layout l = true -> is_layout l = true ->
  bits_of (G.Layout_const LS (cv rec) l (IMap kvs)) = const_fold rec l kvs 0.
Proof.
  intros Hwf Hl. unfold G.Layout_const. cbv zeta.
  pose proof (layout_size_nonneg l Hwf) as Hsz. pose proof (pow2_pos (LS l) Hsz) as Hp.
  match goal with |- bits_of (?F kvs 0) = _ =>
    enough (H : forall kvs cur, 0 <= cur < 2 ^ LS l -> bits_of (F kvs cur) = const_fold rec l kvs cur)
      by (apply H; lia) end.
  clear kvs. induction kvs as [|[k x] r IH]; intros cur Hcur.
  - cbn [const_fold]. rewrite gen_Const_new_eq by auto. unfold from_bits.
    replace ((0 <=? cur) && (cur <? 2 ^ LS l)) with true by lia. reflexivity.
  - cbn [const_fold]. rewrite gen_Layout_getitem_eq by auto.
    destruct (field_of l k) as [[off sub]|] eqn:Hf; cbn [of_opt].
    + unfold cv at 1. cbn [G.Field_shape G.Field_offset fst snd].
      destruct (field_init rec sub x) as [v|c]; cbn [of_resz]; [|reflexivity].
      destruct (field_of_within l k off sub Hwf Hf) as (Ho & Hin & Hws).
      pose proof (layout_size_nonneg sub Hws) as Hs.
      rewrite IH; [reflexivity|]. apply (upd_range (LS l) off (LS sub) cur v); auto.
    + reflexivity.
Qed.

(* the class decides which `const` runs; one unfolding of the model's layout_const, for any `rec`.
   UnionLayout.const's guard `init is not None and not isinstance(init, Const) and len(init) > 1` is translated with
   `isinstance(init, Const)` = False (an `init` is an int or a mapping, never a lib.data.Const; the lib.data.Const
   initialiser is the XDConst constructor of Data.xinit, see DataP.union_const_passthrough), folded structurally by
   the translator; a guard without that conjunct is refused by the unit ("expected tests not found"). *)
Definition layout_const_step (rec : layout -> init -> resz) (l : layout) (i : init) : resz :=
  match i with
  | IVal _ => Errz 4
  | IMap kvs =>
      if negb (is_layout l) then Errz 4
      else if is_union l && (1 <? Z.of_nat (length kvs)) then Errz 3
      else const_fold rec l kvs 0
  end.

Lemma gen_Layout_const_virtual_step rec l i : wf_layout l = true ->
  bits_of (G.Layout_const_virtual LS (cv rec) l i) = layout_const_step rec l i.
Proof.
  intros Hwf. destruct i as [v|kvs].
  - destruct l; reflexivity.
  - destruct l as [s|s vw ms|fs|fs|e n|sz fs]; try reflexivity;
      unfold G.Layout_const_virtual, layout_const_step; cbn [is_layout is_union negb andb];
      try (apply gen_Layout_const_eq; auto).
    unfold G.UnionLayout_const, G.init_len.
    destruct (1 <? Z.of_nat (length kvs)); [reflexivity|]. apply gen_Layout_const_eq; auto.
Qed.

(* with the model itself for nested initialisers (hdl.Const(value, sub_layout) = sub_layout.const(value)):
   the model's layout_const satisfies the recursion of the source *)
Lemma gen_Layout_const_virtual_eq l i : wf_layout l = true ->
  bits_of (G.Layout_const_virtual LS (cv layout_const) l i) = layout_const l i.
Proof.
  intros Hwf. rewrite gen_Layout_const_virtual_step by auto. destruct i; reflexivity.
Qed.

(* ------------------------------------------------------------------ Const.__getitem__ *)
Lemma gen_Const_getitem_eq l raw k : G.Const_getitem LS cf (l, raw) k = of_res (const_getitem l raw k).
Proof.
  unfold G.Const_getitem, const_getitem. cbv zeta.
  destruct l as [s|s vw ms|fs|fs|e n|sz fs]; cbn [is_layout negb];
    try (rewrite gen_Layout_getitem_nonlayout by reflexivity; reflexivity);
    try (rewrite gen_Layout_getitem_eq by reflexivity;
         match goal with |- context [field_of ?l k] => destruct (field_of l k) as [[off sub]|] end;
         reflexivity).
  (* array: the index arithmetic is repeated in Const.__getitem__ *)
  unfold G.ArrayLayout_new, G.ArrayLayout_length, G.ArrayLayout_elem_shape, G.py_in_range, field_of.
  cbv zeta. destruct ((- Z.of_nat n <=? k) && (k <? Z.of_nat n)); cbn [negb is_array]; [|reflexivity].
  destruct (k <? 0); reflexivity.
Qed.

(* ------------------------------------------------------------------ View.__getitem__ *)
Lemma vslice_field tv off w : G.py_vslice tv off (off + w) = slice off w tv.
Proof. unfold G.py_vslice. f_equal. lia. Qed.
Lemma vslice_elem tv k w : G.py_vslice tv (k * w) ((k + 1) * w) = slice (k * w) w tv.
Proof. unfold G.py_vslice. f_equal. lia. Qed.

Lemma gen_View_getitem_eq l tv k : G.View_getitem LS vf (l, tv) k = of_res (view_getitem l tv k).
Proof.
  unfold G.View_getitem, view_getitem. cbv zeta.
  destruct l as [s|s vw ms|fs|fs|e n|sz fs]; cbn [is_layout negb];
    try (rewrite gen_Layout_getitem_nonlayout by reflexivity; reflexivity);
    try (rewrite gen_Layout_getitem_eq by reflexivity;
         match goal with |- context [field_of ?l k] => destruct (field_of l k) as [[off sub]|] end;
         cbn [of_opt G.Field_offset G.Field_width G.Field_shape fst snd];
         [rewrite vslice_field|]; reflexivity).
  unfold G.ArrayLayout_new, G.ArrayLayout_length, G.ArrayLayout_elem_shape, G.py_in_range, field_of.
  cbv zeta. destruct ((- Z.of_nat n <=? k) && (k <? Z.of_nat n)); cbn [negb is_array]; [|reflexivity].
  destruct (k <? 0); rewrite vslice_elem; reflexivity.
Qed.

(* key a Value whose current value is idx *)
Lemma gen_View_getitem_dyn_eq l tv idx :
  G.View_getitem_dyn LS vf (l, tv) idx = of_res (view_getitem_dyn l tv idx).
Proof.
  unfold G.View_getitem_dyn, view_getitem_dyn. cbv zeta.
  destruct l as [s|s vw ms|fs|fs|e n|sz fs]; try reflexivity.
  unfold G.ArrayLayout_new, G.ArrayLayout_elem_shape, G.py_word_select. cbv zeta.
  destruct (LS e <=? 0); reflexivity.
Qed.

(* ------------------------------------------------------------------ FlagView (lib/enum.py) *)
(* A FlagView is (enum class, target expression); the target of a view of class E has shape unsigned(fwidth E).
   The generated functions build Ast expressions; their shape (EnumView.__init__ check) and denotation are the
   model's fv_not_raw / fv_bop_raw. *)
Lemma single_bit_pos v : is_single_bit v = true -> 0 < v.
Proof.
  unfold is_single_bit. destruct (v =? 0) eqn:E0; [discriminate|]. intros H.
  destruct (Z.ltb_spec v 0) as [Hneg|]; [|lia].
  assert (Z.land v (v - 1) < 0) by (apply Z.land_neg; lia). lia.
Qed.

Lemma lor_list_filter (f : Z -> bool) l : forall a,
  fold_left (fun sm flag => if f flag then Z.lor sm flag else sm) l a = fold_left Z.lor (filter f l) a.
Proof. induction l as [|x r IH]; intros a; simpl; [reflexivity|]. destruct (f x); simpl; apply IH. Qed.

Lemma am_singles_nonneg E : 0 <= am_singles E.
Proof.
  unfold am_singles, lor_list. apply lor_list_nonneg_aux; [lia|].
  apply Forall_forall. intros v Hv. apply filter_In in Hv. destruct Hv as [Hv _].
  apply filter_In in Hv. destruct Hv as [_ Hv]. apply single_bit_pos in Hv. lia.
Qed.

Lemma unify2_unsigned a b : 0 <= a -> 0 <= b -> unify2 (Sh a false) (Sh b false) = Sh (Z.max a b) false.
Proof. intros. unfold unify2, unify. simpl. f_equal. lia. Qed.

Lemma gen_EnumView_new_eq E e :
  G.EnumView_new E e = if shape_eqb (shape_of e) (Sh (fwidth E) false) then G.Ret (E, e) else G.Raise 4.
Proof. unfold G.EnumView_new. cbv zeta. destruct (shape_eqb _ _); reflexivity. Qed.

Lemma shape_eqb_refl s : shape_eqb s s = true.
Proof. unfold shape_eqb. rewrite Z.eqb_refl, eqb_reflx. reflexivity. Qed.

(* ~view : TypeError exactly when the model says None; otherwise a view of the same class whose target has the
   enum's shape and denotes the model's raw value *)
Lemma gen_FlagView_invert_eq E t en : 0 <= fwidth E -> shape_of t = Sh (fwidth E) false ->
  0 <= denote en t < 2 ^ fwidth E ->
  match G.FlagView_invert (E, t), fv_not_raw E (denote en t) with
  | G.Ret (E', e), Some v => E' = E /\ shape_of e = Sh (fwidth E) false /\ denote en e = v
  | G.Raise c, None => c = 4
  | _, _ => False
  end.
Proof.
  intros Hw Hs Hx. set (x := denote en t) in *. set (w := fwidth E) in *.
  pose proof (pow2_pos w Hw) as Hp.
  assert (Hnot : 2 ^ w - 1 - x = mask w (Z.lnot x)).
  { unfold mask, Z.lnot. apply Z.mod_unique with (q := -1); [lia|]. unfold Z.pred. lia. }
  unfold G.FlagView_invert, fv_not_raw. cbv zeta. cbn [G.EnumView_shape G.EnumView_as_value].
  destruct (fbound E) eqn:Hb.
  3,4: rewrite gen_EnumView_new_eq; cbn [shape_of op1_shape]; rewrite !Hs; cbn [width sgn];
       fold w; rewrite shape_eqb_refl; cbv beta iota; cbn [shape_of op1_shape denote den_op1]; rewrite !Hs;
       cbn [width sgn]; fold x; repeat split; exact Hnot.
  all: rewrite lor_list_filter;
       change (fold_left Z.lor (filter (fun v => Z.land v (v - 1) =? 0) (filter is_single_bit (fmembers E))) 0)
         with (am_singles E);
       pose proof (am_singles_nonneg E) as Hsm; set (sm := am_singles E) in *;
       pose proof (bits_for_nonneg sm false) as Hb0;
       rewrite gen_EnumView_new_eq; cbn [shape_of op1_shape op2_shape denote den_op1 den_op2];
       rewrite !Hs; cbn [width sgn]; fold w; fold x;
       unfold const_shape; replace (sm <? 0) with false by lia;
       rewrite unify2_unsigned by auto; unfold shape_eqb; cbn [width sgn];
       destruct (w <? bits_for sm false) eqn:Hlt;
       [ replace (Z.max w (bits_for sm false) =? w) with false by lia; reflexivity
       | replace (Z.max w (bits_for sm false) =? w) with true by lia; cbn [andb Bool.eqb]; cbv beta iota;
         cbn [shape_of op1_shape op2_shape denote den_op1 den_op2]; rewrite !Hs; cbn [width sgn]; fold x;
         replace (sm <? 0) with false by lia; rewrite unify2_unsigned by auto;
         repeat split; [f_equal; lia|];
         rewrite Hnot; f_equal;
         apply norm_id; [unfold wf_shape; cbn [sgn width]; lia|];
         unfold in_range; cbn [sgn width]; split; [lia|];
         apply bits_for_bound; auto; lia ].
Qed.

(* view & view, view | view, view ^ view on two views of the same class *)
Lemma gen_FlagView_bitop_eq E a b o en : 0 <= fwidth E ->
  shape_of a = Sh (fwidth E) false -> shape_of b = Sh (fwidth E) false ->
  0 <= denote en a < 2 ^ fwidth E -> 0 <= denote en b < 2 ^ fwidth E ->
  let o2 := match o with BAnd => OAnd | BOr => OOr | BXor => OXor end in
  G.FlagView_bitop (E, a) (E, b) o2 = G.Ret (E, EOp2 o2 a b) /\
  shape_of (EOp2 o2 a b) = Sh (fwidth E) false /\
  denote en (EOp2 o2 a b) = fv_bop_raw E o (denote en a) (denote en b).
Proof.
  intros Hw Ha Hb Hx Hy o2.
  assert (Hsh : shape_of (EOp2 o2 a b) = Sh (fwidth E) false).
  { cbn [shape_of]. rewrite Ha, Hb. destruct o; cbn [o2 op2_shape]; rewrite unify2_unsigned by auto;
      f_equal; lia. }
  split; [|split; [exact Hsh|]].
  - unfold G.FlagView_bitop. cbv zeta. cbn [G.EnumView_shape G.EnumView_as_value].
    rewrite gen_EnumView_new_eq, Hsh, shape_eqb_refl. reflexivity.
  - unfold fv_bop_raw. rewrite mask_small by (apply bop_range; auto). destruct o; reflexivity.
Qed.

Lemma gen_FlagView_and_eq s o : G.FlagView_and s o = G.FlagView_bitop s o OAnd.
Proof. destruct s; reflexivity. Qed.
Lemma gen_FlagView_or_eq s o : G.FlagView_or s o = G.FlagView_bitop s o OOr.
Proof. destruct s; reflexivity. Qed.
Lemma gen_FlagView_xor_eq s o : G.FlagView_xor s o = G.FlagView_bitop s o OXor.
Proof. destruct s; reflexivity. Qed.

(* RtlilSemP.v — C04 layer A: the RTLIL cells emitted for every Amaranth operator compute the Python-integer
   specification (Model/Denote.v) for all widths and values; part-select; processes; flip-flops. *)
From Coq Require Import ZArith List Bool Lia ZifyBool.
From V.Model Require Import Bits Shape Ast Denote PyRTL PyEval Stmt Process RtlilSem.
From V.Proofs Require Import BitsP ExprP.
Import ListNotations.
Open Scope Z_scope.

(* ====================================================================== *)
(* integers denoted by bit vectors, extension, truncation                  *)
(* ====================================================================== *)

Lemma ival_unsigned w v : ival false w v = mask w v.
Proof. reflexivity. Qed.

Lemma ival_signed w v : 0 < w -> ival true w v = sext w v.
Proof. intros H. unfold ival. simpl. destruct (0 <? w) eqn:E; [reflexivity|lia]. Qed.

Lemma ival_w0 sg v : ival sg 0 v = 0.
Proof. unfold ival. rewrite andb_false_r. unfold mask. simpl. apply Z.mod_1_r. Qed.

(* the integer is congruent to the bit pattern modulo 2^w *)
Lemma mask_ival sg w v : 0 <= w -> mask w (ival sg w v) = mask w v.
Proof.
  intros Hw. unfold ival. destruct (sg && (0 <? w)) eqn:E.
  - apply mask_sext. lia.
  - apply mask_idem; auto.
Qed.

Lemma ival_range sg w v : 0 <= w -> (sg = true -> 0 < w) -> in_range (Sh w sg) (ival sg w v).
Proof.
  intros Hw Hs. unfold in_range; simpl. destruct sg.
  - rewrite ival_signed by auto. apply sext_range. specialize (Hs eq_refl). lia.
  - rewrite ival_unsigned. apply mask_range; auto.
Qed.

Lemma ival_mask sg w v : 0 <= w -> ival sg w (mask w v) = ival sg w v.
Proof.
  intros Hw. unfold ival. destruct (sg && (0 <? w)) eqn:E.
  - apply sext_mask. lia.
  - apply mask_idem; auto.
Qed.

(* congruent patterns denote the same integer *)
Lemma ival_cong sg w x y : 0 <= w -> mask w x = mask w y -> ival sg w x = ival sg w y.
Proof. intros Hw H. rewrite <- (ival_mask sg w x), <- (ival_mask sg w y) by auto. now rewrite H. Qed.

(* an integer in the range of (w, sg) is recovered from its pattern *)
Lemma ival_of_in_range sg w x : 0 <= w -> (sg = true -> 0 < w) -> in_range (Sh w sg) x -> ival sg w (mask w x) = x.
Proof.
  intros Hw Hs Hr. rewrite ival_mask by auto. unfold in_range in Hr; simpl in Hr. destruct sg.
  - rewrite ival_signed by auto. apply sext_small; [specialize (Hs eq_refl); lia|exact Hr].
  - rewrite ival_unsigned. apply mask_small; exact Hr.
Qed.

Lemma in_range_mono sg w w' x : 0 <= w <= w' -> (sg = true -> 0 < w) -> in_range (Sh w sg) x -> in_range (Sh w' sg) x.
Proof.
  intros Hw Hs Hr. unfold in_range in *; simpl in *. destruct sg.
  - specialize (Hs eq_refl). pose proof (pow2_mono (w - 1) (w' - 1) ltac:(lia)). lia.
  - pose proof (pow2_mono w w' ltac:(lia)). lia.
Qed.

(* EXTENSION preserves the value: zero extension of an unsigned, sign extension of a signed operand *)
Theorem ext_preserves_value sg w v to : 0 <= w <= to -> ival sg to (ext sg w v to) = ival sg w v.
Proof.
  intros Hw. unfold ext.
  destruct (Z.eq_dec w 0) as [->|Hnz].
  - rewrite ival_w0. unfold mask. rewrite Z.mod_0_l by (pose proof (pow2_pos to ltac:(lia)); lia).
    unfold ival. destruct (sg && (0 <? to)) eqn:E.
    + assert (1 <= to) by lia. unfold sext. rewrite Z.mod_0_l by (pose proof (pow2_pos to ltac:(lia)); lia).
      pose proof (pow2_pos (to - 1) ltac:(lia)). destruct (2 ^ (to - 1) <=? 0) eqn:E2; lia.
    + unfold mask. apply Z.mod_0_l. pose proof (pow2_pos to ltac:(lia)); lia.
  - apply ival_of_in_range; [lia| |].
    + intros ->. lia.
    + apply (in_range_mono sg w to); [lia|intros; lia|]. apply ival_range; [lia|intros; lia].
Qed.

(* TRUNCATION is reduction modulo 2^to *)
Theorem ext_truncates sg w v to : 0 <= to <= w -> ext sg w v to = mask to v.
Proof.
  intros Hw. unfold ext. rewrite <- (mask_mask_le to w (ival sg w v)) by lia.
  rewrite mask_ival by lia. apply mask_mask_le; lia.
Qed.

Lemma ext_range sg w v to : 0 <= to -> 0 <= ext sg w v to < 2 ^ to.
Proof. intros. apply mask_range; auto. Qed.

Lemma ext_same sg w v : 0 <= w -> ext sg w v w = mask w v.
Proof. intros. apply ext_truncates; lia. Qed.

(* modular arithmetic helpers *)
Lemma mask_add_l w x y : 0 <= w -> mask w (mask w x + y) = mask w (x + y).
Proof. intros. unfold mask. apply Zplus_mod_idemp_l. Qed.
Lemma mask_add_r w x y : 0 <= w -> mask w (x + mask w y) = mask w (x + y).
Proof. intros. unfold mask. apply Zplus_mod_idemp_r. Qed.
Lemma mask_opp w x : 0 <= w -> mask w (- mask w x) = mask w (- x).
Proof.
  intros. unfold mask. pose proof (pow2_pos w H).
  rewrite <- (Z.sub_0_l (x mod 2 ^ w)), <- (Z.sub_0_l x). rewrite Zminus_mod_idemp_r. reflexivity.
Qed.
Lemma mask_mul_l w x y : 0 <= w -> mask w (mask w x * y) = mask w (x * y).
Proof. intros. unfold mask. apply Zmult_mod_idemp_l. Qed.
Lemma mask_mul_r w x y : 0 <= w -> mask w (x * mask w y) = mask w (x * y).
Proof. intros. unfold mask. apply Zmult_mod_idemp_r. Qed.

Lemma mask_eq_add w x x' y y' : 0 <= w -> mask w x = mask w x' -> mask w y = mask w y' ->
  mask w (x + y) = mask w (x' + y').
Proof. intros Hw Hx Hy. rewrite <- mask_add_l, <- mask_add_r, Hx, Hy, mask_add_l, mask_add_r by auto. reflexivity. Qed.
Lemma mask_eq_sub w x x' y y' : 0 <= w -> mask w x = mask w x' -> mask w y = mask w y' ->
  mask w (x - y) = mask w (x' - y').
Proof.
  intros Hw Hx Hy. unfold Z.sub. apply mask_eq_add; auto.
  rewrite <- mask_opp, Hy, mask_opp by auto. reflexivity.
Qed.
Lemma mask_eq_mul w x x' y y' : 0 <= w -> mask w x = mask w x' -> mask w y = mask w y' ->
  mask w (x * y) = mask w (x' * y').
Proof. intros Hw Hx Hy. rewrite <- mask_mul_l, <- mask_mul_r, Hx, Hy, mask_mul_l, mask_mul_r by auto. reflexivity. Qed.

Lemma mask_land w x y : 0 <= w -> mask w (Z.land x y) = Z.land (mask w x) (mask w y).
Proof.
  intros. apply Z.bits_inj'. intros i Hi. rewrite Z.land_spec, !testbit_mask, Z.land_spec by auto.
  destruct (i <? w); simpl; auto.
Qed.
Lemma mask_lor w x y : 0 <= w -> mask w (Z.lor x y) = Z.lor (mask w x) (mask w y).
Proof.
  intros. apply Z.bits_inj'. intros i Hi. rewrite Z.lor_spec, !testbit_mask, Z.lor_spec by auto.
  destruct (i <? w); simpl; auto.
Qed.
Lemma mask_lxor w x y : 0 <= w -> mask w (Z.lxor x y) = Z.lxor (mask w x) (mask w y).
Proof.
  intros. apply Z.bits_inj'. intros i Hi. rewrite Z.lxor_spec, !testbit_mask, Z.lxor_spec by auto.
  destruct (i <? w); simpl; auto.
Qed.

(* ====================================================================== *)
(* net lists                                                               *)
(* ====================================================================== *)

Lemma nlen_nonneg l : 0 <= nlen l.
Proof. unfold nlen. lia. Qed.

Lemma nlen_cons n l : nlen (n :: l) = 1 + nlen l.
Proof. unfold nlen. simpl length. lia. Qed.

Lemma nlen_app a b : nlen (a ++ b) = nlen a + nlen b.
Proof. unfold nlen. rewrite app_length. lia. Qed.

Lemma b2z_range01 b : 0 <= b2z b <= 1.
Proof. destruct b; simpl; lia. Qed.

Lemma nval_range rho l : 0 <= nval rho l < 2 ^ nlen l.
Proof.
  induction l as [|n l IH]; simpl.
  - unfold nlen; simpl. lia.
  - rewrite nlen_cons. pose proof (nlen_nonneg l). rewrite Z.pow_add_r by lia. change (2 ^ 1) with 2.
    pose proof (b2z_range01 (net_val rho n)). lia.
Qed.

Lemma mask_nval rho l : mask (nlen l) (nval rho l) = nval rho l.
Proof. apply mask_small, nval_range. Qed.

Lemma nval_app rho a b : nval rho (a ++ b) = nval rho a + 2 ^ nlen a * nval rho b.
Proof.
  induction a as [|n a IH]; simpl.
  - unfold nlen; simpl. lia.
  - rewrite IH, nlen_cons. pose proof (nlen_nonneg a). rewrite Z.pow_add_r by lia. change (2 ^ 1) with 2. ring.
Qed.

Lemma nval_single rho n : nval rho [n] = b2z (net_val rho n).
Proof. simpl. lia. Qed.

(* the most significant net of a non-empty list decides the sign *)
Lemma nval_last rho l n : nval rho (l ++ [n]) = nval rho l + 2 ^ nlen l * b2z (net_val rho n).
Proof. rewrite nval_app, nval_single. reflexivity. Qed.

Lemma sval_unsigned rho l : sval rho false l = nval rho l.
Proof. unfold sval. rewrite ival_unsigned. apply mask_nval. Qed.

Lemma mask_sval rho sg l : mask (nlen l) (sval rho sg l) = nval rho l.
Proof. unfold sval. rewrite mask_ival by apply nlen_nonneg. apply mask_nval. Qed.

Lemma mask_sval_le rho sg l w : 0 <= w <= nlen l -> mask w (sval rho sg l) = mask w (nval rho l).
Proof. intros H. rewrite <- (mask_mask_le w (nlen l)) by lia. rewrite mask_sval. reflexivity. Qed.

Lemma sval_nil rho sg : sval rho sg [] = 0.
Proof. unfold sval. change (nlen []) with 0. apply ival_w0. Qed.

(* signed reading of l ++ [n] *)
Lemma sval_signed_last rho l n :
  sval rho true (l ++ [n]) = nval rho l - 2 ^ nlen l * b2z (net_val rho n).
Proof.
  unfold sval. rewrite nlen_app. change (nlen [n]) with 1. pose proof (nlen_nonneg l) as Hl.
  rewrite ival_signed by lia. rewrite nval_last. pose proof (nval_range rho l) as Hr.
  pose proof (pow2_pos (nlen l) Hl) as Hp.
  assert (Hp2 : 2 ^ (nlen l + 1) = 2 * 2 ^ nlen l) by (rewrite Z.pow_add_r by lia; change (2 ^ 1) with 2; ring).
  destruct (net_val rho n); simpl b2z.
  - rewrite <- (sext_add_mul (nlen l + 1) _ (-1)) by lia.
    rewrite sext_small; [lia|lia|]. replace (nlen l + 1 - 1) with (nlen l) by lia. lia.
  - rewrite sext_small; [lia|lia|]. replace (nlen l + 1 - 1) with (nlen l) by lia. lia.
Qed.

Lemma sval_zero_iff rho sg l : (sval rho sg l =? 0) = (nval rho l =? 0).
Proof.
  unfold sval. pose proof (nlen_nonneg l). pose proof (nval_range rho l).
  unfold ival. destruct (sg && (0 <? nlen l)) eqn:E.
  - rewrite sext_zero_iff by lia. rewrite mask_nval. reflexivity.
  - rewrite mask_nval. reflexivity.
Qed.

(* two readings of equally long lists agree iff the patterns agree *)
Lemma sval_inj rho sg a b : nlen a = nlen b -> (sval rho sg a =? sval rho sg b) = (nval rho a =? nval rho b).
Proof.
  intros Hl. destruct (nval rho a =? nval rho b) eqn:E.
  - apply Z.eqb_eq in E. unfold sval. rewrite Hl, E. apply Z.eqb_refl.
  - apply Z.eqb_neq in E. apply Z.eqb_neq. intros H. apply E.
    rewrite <- (mask_sval rho sg a), <- (mask_sval rho sg b), Hl, H. reflexivity.
Qed.

(* ---------- NetlistEmitter.extend ---------- *)
Lemma extend_by_len l sg k : nlen (extend_by l sg k) = nlen l + Z.of_nat k.
Proof.
  revert l. induction k as [|k IH]; intros l; simpl.
  - lia.
  - rewrite IH, nlen_app. change (nlen [_]) with 1. lia.
Qed.

Lemma extend_len l sg w : nlen (extend l sg w) = Z.max (nlen l) w.
Proof. unfold extend. rewrite extend_by_len. pose proof (nlen_nonneg l). lia. Qed.

Lemma last_app_single {A} (l : list A) (x d : A) : last (l ++ [x]) d = x.
Proof. induction l as [|a l IH]; simpl; auto. destruct (l ++ [x]) eqn:E; [destruct l; discriminate|exact IH]. Qed.

Lemma nonempty_snoc {A} (l : list A) : l <> [] -> exists l' x, l = l' ++ [x].
Proof. intros H. destruct (exists_last H) as [l' [x ->]]. eauto. Qed.

(* one more copy of the sign / one more zero keeps the value *)
Lemma sval_snoc_sign rho l : l <> [] -> sval rho true (l ++ [last l (NC false)]) = sval rho true l.
Proof.
  intros Hne. destruct (nonempty_snoc l Hne) as [l' [x ->]]. rewrite last_app_single.
  rewrite (sval_signed_last rho (l' ++ [x]) x), (sval_signed_last rho l' x).
  rewrite nval_last, nlen_app. change (nlen [x]) with 1. pose proof (nlen_nonneg l').
  rewrite Z.pow_add_r by lia. change (2 ^ 1) with 2. ring.
Qed.

Lemma sval_snoc_zero_u rho l : sval rho false (l ++ [NC false]) = sval rho false l.
Proof. rewrite !sval_unsigned, nval_last. simpl. lia. Qed.

Lemma sval_snoc_zero_s rho l : sval rho true (l ++ [NC false]) = sval rho false l.
Proof. rewrite sval_signed_last, sval_unsigned. simpl. lia. Qed.

Lemma extend_by_sval_signed rho l k : l <> [] -> sval rho true (extend_by l true k) = sval rho true l.
Proof.
  revert l. induction k as [|k IH]; intros l Hne; simpl; auto.
  rewrite IH by (destruct l; discriminate). apply sval_snoc_sign; auto.
Qed.

Lemma extend_by_sval_unsigned rho l k : sval rho false (extend_by l false k) = sval rho false l.
Proof. revert l. induction k as [|k IH]; intros l; simpl; auto. rewrite IH. apply sval_snoc_zero_u. Qed.

(* a zero-extended operand read as signed (at least one zero was appended) *)
Lemma extend_by_sval_mixed rho l k : (0 < k)%nat -> sval rho true (extend_by l false k) = sval rho false l.
Proof.
  revert l. induction k as [|k IH]; intros l Hk; [lia|]. simpl.
  destruct k as [|k'].
  - simpl. apply sval_snoc_zero_s.
  - rewrite IH by lia. apply sval_snoc_zero_u.
Qed.

Theorem extend_preserves rho l sg w : (sg = true -> l <> []) -> sval rho sg (extend l sg w) = sval rho sg l.
Proof.
  intros H. unfold extend. destruct sg.
  - apply extend_by_sval_signed; auto.
  - apply extend_by_sval_unsigned.
Qed.

Lemma extend_mixed rho l w : nlen l < w -> sval rho true (extend l false w) = sval rho false l.
Proof. intros H. unfold extend. apply extend_by_sval_mixed. lia. Qed.

Lemma extend_nonempty l sg w : l <> [] -> extend l sg w <> [].
Proof.
  intros H E. assert (nlen (extend l sg w) = 0) by (rewrite E; reflexivity).
  rewrite extend_len in *. assert (0 < nlen l) by (destruct l; [congruence|rewrite nlen_cons; pose proof (nlen_nonneg l); lia]). lia.
Qed.

Lemma nlen_pos_nonempty l : 0 < nlen l -> l <> [].
Proof. intros H ->. unfold nlen in H. simpl in H. lia. Qed.

(* ---------- ModuleEmitter.shorten_operand ---------- *)
Lemma net_eqb_val rho a b : net_eqb a b = true -> net_val rho a = net_val rho b.
Proof.
  destruct a, b; simpl; intros H; try discriminate.
  - apply eqb_prop in H. now subst.
  - apply Nat.eqb_eq in H. now subst.
Qed.

(* MSB-first views: value of rev r *)
Lemma shorten_s_rev_sval rho r : sval rho true (rev (shorten_s_rev r)) = sval rho true (rev r).
Proof.
  induction r as [|a t IH]; [reflexivity|].
  destruct t as [|b t'].
  - reflexivity.
  - cbn [shorten_s_rev]. destruct (net_eqb a b) eqn:E; [|reflexivity].
    rewrite IH. simpl rev.
    pose proof (net_eqb_val rho a b E) as Hv.
    rewrite (sval_signed_last rho (rev t' ++ [b]) a), (sval_signed_last rho (rev t') b).
    rewrite nval_last, nlen_app, Hv. change (nlen [b]) with 1. pose proof (nlen_nonneg (rev t')).
    rewrite Z.pow_add_r by lia. change (2 ^ 1) with 2. ring.
Qed.

Lemma shorten_u_rev_sval rho r : sval rho false (rev (shorten_u_rev r)) = sval rho false (rev r).
Proof.
  induction r as [|a t IH]; [reflexivity|].
  cbn [shorten_u_rev]. destruct (net_eqb a (NC false)) eqn:E; [|reflexivity].
  rewrite IH. simpl rev. rewrite !sval_unsigned, nval_last.
  rewrite (net_eqb_val rho a (NC false) E). simpl. lia.
Qed.

Theorem shorten_preserves rho l sg : sval rho sg (shorten l sg) = sval rho sg l.
Proof.
  unfold shorten. destruct sg.
  - rewrite shorten_s_rev_sval, rev_involutive. reflexivity.
  - rewrite shorten_u_rev_sval, rev_involutive. reflexivity.
Qed.

Lemma shorten_s_rev_len r : (length (shorten_s_rev r) <= length r)%nat.
Proof.
  induction r as [|a t IH]; simpl; [lia|]. destruct t as [|b t']; [simpl; lia|].
  destruct (net_eqb a b); [|simpl; lia]. simpl in *. lia.
Qed.
Lemma shorten_u_rev_len r : (length (shorten_u_rev r) <= length r)%nat.
Proof. induction r as [|a t IH]; simpl; [lia|]. destruct (net_eqb a (NC false)); simpl; lia. Qed.

Lemma shorten_len l sg : nlen (shorten l sg) <= nlen l.
Proof.
  unfold shorten, nlen. rewrite rev_length. destruct sg.
  - pose proof (shorten_s_rev_len (rev l)). rewrite rev_length in *. lia.
  - pose proof (shorten_u_rev_len (rev l)). rewrite rev_length in *. lia.
Qed.

(* RtlilSemP.v — C04 layer A: the RTLIL cells emitted for every Amaranth operator compute the Python-integer
   specification (Model/Denote.v) for all widths and values; part-select; processes; flip-flops. *)
From Coq Require Import ZArith List Bool Lia ZifyBool.
From V.Model Require Import Bits Shape Ast Denote PyRTL PyEval Stmt Process RtlilSem.
From V.Proofs Require Import BitsP ShapeP ExprP StmtP.
Import ListNotations.
Open Scope Z_scope.

(* ====================================================================== *)
(* integers denoted by bit vectors, extension, truncation                  *)
(* ====================================================================== *)

Lemma ival_unsigned w v : ival false w v = mask w v.
Proof. reflexivity. Qed.

Lemma ival_signed w v : 0 < w -> ival true w v = sext w v.
Proof. intros H. unfold ival. simpl. destruct (0 <? w) eqn:E; [reflexivity|lia]. Qed.

Lemma ival_w0 sg v : ival sg 0 v = 0.
Proof. unfold ival. rewrite andb_false_r. unfold mask. simpl. apply Z.mod_1_r. Qed.

(* the integer is congruent to the bit pattern modulo 2^w *)
Lemma mask_ival sg w v : 0 <= w -> mask w (ival sg w v) = mask w v.
Proof.
  intros Hw. unfold ival. destruct (sg && (0 <? w)) eqn:E.
  - apply mask_sext. lia.
  - apply mask_idem; auto.
Qed.

Lemma ival_range sg w v : 0 <= w -> (sg = true -> 0 < w) -> in_range (Sh w sg) (ival sg w v).
Proof.
  intros Hw Hs. unfold in_range; simpl. destruct sg.
  - rewrite ival_signed by auto. apply sext_range. specialize (Hs eq_refl). lia.
  - rewrite ival_unsigned. apply mask_range; auto.
Qed.

Lemma ival_mask sg w v : 0 <= w -> ival sg w (mask w v) = ival sg w v.
Proof.
  intros Hw. unfold ival. destruct (sg && (0 <? w)) eqn:E.
  - apply sext_mask. lia.
  - apply mask_idem; auto.
Qed.

(* congruent patterns denote the same integer *)
Lemma ival_cong sg w x y : 0 <= w -> mask w x = mask w y -> ival sg w x = ival sg w y.
Proof. intros Hw H. rewrite <- (ival_mask sg w x), <- (ival_mask sg w y) by auto. now rewrite H. Qed.

(* an integer in the range of (w, sg) is recovered from its pattern *)
Lemma ival_of_in_range sg w x : 0 <= w -> (sg = true -> 0 < w) -> in_range (Sh w sg) x -> ival sg w (mask w x) = x.
Proof.
  intros Hw Hs Hr. rewrite ival_mask by auto. unfold in_range in Hr; simpl in Hr. destruct sg.
  - rewrite ival_signed by auto. apply sext_small; [specialize (Hs eq_refl); lia|exact Hr].
  - rewrite ival_unsigned. apply mask_small; exact Hr.
Qed.

Lemma in_range_mono sg w w' x : 0 <= w <= w' -> (sg = true -> 0 < w) -> in_range (Sh w sg) x -> in_range (Sh w' sg) x.
Proof.
  intros Hw Hs Hr. unfold in_range in *; simpl in *. destruct sg.
  - specialize (Hs eq_refl). pose proof (pow2_mono (w - 1) (w' - 1) ltac:(lia)). lia.
  - pose proof (pow2_mono w w' ltac:(lia)). lia.
Qed.

(* EXTENSION preserves the value: zero extension of an unsigned, sign extension of a signed operand *)
Theorem ext_preserves_value sg w v to : 0 <= w <= to -> ival sg to (ext sg w v to) = ival sg w v.
Proof.
  intros Hw. unfold ext.
  destruct (Z.eq_dec w 0) as [->|Hnz].
  - rewrite ival_w0. unfold mask. rewrite Z.mod_0_l by (pose proof (pow2_pos to ltac:(lia)); lia).
    unfold ival. destruct (sg && (0 <? to)) eqn:E.
    + assert (1 <= to) by lia. unfold sext. rewrite Z.mod_0_l by (pose proof (pow2_pos to ltac:(lia)); lia).
      pose proof (pow2_pos (to - 1) ltac:(lia)). destruct (2 ^ (to - 1) <=? 0) eqn:E2; lia.
    + unfold mask. apply Z.mod_0_l. pose proof (pow2_pos to ltac:(lia)); lia.
  - apply ival_of_in_range; [lia| |].
    + intros ->. lia.
    + apply (in_range_mono sg w to); [lia|intros; lia|]. apply ival_range; [lia|intros; lia].
Qed.

(* TRUNCATION is reduction modulo 2^to *)
Theorem ext_truncates sg w v to : 0 <= to <= w -> ext sg w v to = mask to v.
Proof.
  intros Hw. unfold ext. rewrite <- (mask_mask_le to w (ival sg w v)) by lia.
  rewrite mask_ival by lia. apply mask_mask_le; lia.
Qed.

Lemma ext_range sg w v to : 0 <= to -> 0 <= ext sg w v to < 2 ^ to.
Proof. intros. apply mask_range; auto. Qed.

Lemma ext_same sg w v : 0 <= w -> ext sg w v w = mask w v.
Proof. intros. apply ext_truncates; lia. Qed.

(* modular arithmetic helpers *)
Lemma mask_add_l w x y : 0 <= w -> mask w (mask w x + y) = mask w (x + y).
Proof. intros. unfold mask. apply Zplus_mod_idemp_l. Qed.
Lemma mask_add_r w x y : 0 <= w -> mask w (x + mask w y) = mask w (x + y).
Proof. intros. unfold mask. apply Zplus_mod_idemp_r. Qed.
Lemma mask_opp w x : 0 <= w -> mask w (- mask w x) = mask w (- x).
Proof.
  intros. unfold mask. pose proof (pow2_pos w H).
  rewrite <- (Z.sub_0_l (x mod 2 ^ w)), <- (Z.sub_0_l x). rewrite Zminus_mod_idemp_r. reflexivity.
Qed.
Lemma mask_mul_l w x y : 0 <= w -> mask w (mask w x * y) = mask w (x * y).
Proof. intros. unfold mask. apply Zmult_mod_idemp_l. Qed.
Lemma mask_mul_r w x y : 0 <= w -> mask w (x * mask w y) = mask w (x * y).
Proof. intros. unfold mask. apply Zmult_mod_idemp_r. Qed.

Lemma mask_eq_add w x x' y y' : 0 <= w -> mask w x = mask w x' -> mask w y = mask w y' ->
  mask w (x + y) = mask w (x' + y').
Proof. intros Hw Hx Hy. rewrite <- mask_add_l, <- mask_add_r, Hx, Hy, mask_add_l, mask_add_r by auto. reflexivity. Qed.
Lemma mask_eq_sub w x x' y y' : 0 <= w -> mask w x = mask w x' -> mask w y = mask w y' ->
  mask w (x - y) = mask w (x' - y').
Proof.
  intros Hw Hx Hy. unfold Z.sub. apply mask_eq_add; auto.
  rewrite <- mask_opp, Hy, mask_opp by auto. reflexivity.
Qed.
Lemma mask_eq_mul w x x' y y' : 0 <= w -> mask w x = mask w x' -> mask w y = mask w y' ->
  mask w (x * y) = mask w (x' * y').
Proof. intros Hw Hx Hy. rewrite <- mask_mul_l, <- mask_mul_r, Hx, Hy, mask_mul_l, mask_mul_r by auto. reflexivity. Qed.

Lemma mask_land w x y : 0 <= w -> mask w (Z.land x y) = Z.land (mask w x) (mask w y).
Proof.
  intros. apply Z.bits_inj'. intros i Hi. rewrite Z.land_spec, !testbit_mask, Z.land_spec by auto.
  destruct (i <? w); simpl; auto.
Qed.
Lemma mask_lor w x y : 0 <= w -> mask w (Z.lor x y) = Z.lor (mask w x) (mask w y).
Proof.
  intros. apply Z.bits_inj'. intros i Hi. rewrite Z.lor_spec, !testbit_mask, Z.lor_spec by auto.
  destruct (i <? w); simpl; auto.
Qed.
Lemma mask_lxor w x y : 0 <= w -> mask w (Z.lxor x y) = Z.lxor (mask w x) (mask w y).
Proof.
  intros. apply Z.bits_inj'. intros i Hi. rewrite Z.lxor_spec, !testbit_mask, Z.lxor_spec by auto.
  destruct (i <? w); simpl; auto.
Qed.

(* ====================================================================== *)
(* net lists                                                               *)
(* ====================================================================== *)

Lemma nlen_nonneg l : 0 <= nlen l.
Proof. unfold nlen. lia. Qed.

Lemma nlen_cons n l : nlen (n :: l) = 1 + nlen l.
Proof. unfold nlen. simpl length. lia. Qed.

Lemma nlen_app a b : nlen (a ++ b) = nlen a + nlen b.
Proof. unfold nlen. rewrite app_length. lia. Qed.

Lemma b2z_range01 b : 0 <= b2z b <= 1.
Proof. destruct b; simpl; lia. Qed.

Lemma nval_range rho l : 0 <= nval rho l < 2 ^ nlen l.
Proof.
  induction l as [|n l IH]; cbn [nval].
  - change (nlen []) with 0. rewrite Z.pow_0_r. lia.
  - rewrite nlen_cons. pose proof (nlen_nonneg l). rewrite Z.pow_add_r by lia. change (2 ^ 1) with 2.
    pose proof (b2z_range01 (net_val rho n)). lia.
Qed.

Lemma mask_nval rho l : mask (nlen l) (nval rho l) = nval rho l.
Proof. apply mask_small, nval_range. Qed.

Lemma nval_app rho a b : nval rho (a ++ b) = nval rho a + 2 ^ nlen a * nval rho b.
Proof.
  induction a as [|n a IH]; cbn [nval app].
  - change (nlen []) with 0. rewrite Z.pow_0_r. lia.
  - rewrite IH, nlen_cons. pose proof (nlen_nonneg a). rewrite Z.pow_add_r by lia. change (2 ^ 1) with 2. ring.
Qed.

Lemma nval_single rho n : nval rho [n] = b2z (net_val rho n).
Proof. simpl. lia. Qed.

(* the most significant net of a non-empty list decides the sign *)
Lemma nval_last rho l n : nval rho (l ++ [n]) = nval rho l + 2 ^ nlen l * b2z (net_val rho n).
Proof. rewrite nval_app, nval_single. reflexivity. Qed.

Lemma sval_unsigned rho l : sval rho false l = nval rho l.
Proof. unfold sval. rewrite ival_unsigned. apply mask_nval. Qed.

Lemma mask_sval rho sg l : mask (nlen l) (sval rho sg l) = nval rho l.
Proof. unfold sval. rewrite mask_ival by apply nlen_nonneg. apply mask_nval. Qed.

Lemma mask_sval_le rho sg l w : 0 <= w <= nlen l -> mask w (sval rho sg l) = mask w (nval rho l).
Proof. intros H. rewrite <- (mask_mask_le w (nlen l)) by lia. rewrite mask_sval. reflexivity. Qed.

Lemma sval_nil rho sg : sval rho sg [] = 0.
Proof. unfold sval. change (nlen []) with 0. apply ival_w0. Qed.

(* signed reading of l ++ [n] *)
Lemma sval_signed_last rho l n :
  sval rho true (l ++ [n]) = nval rho l - 2 ^ nlen l * b2z (net_val rho n).
Proof.
  unfold sval. rewrite nlen_app. change (nlen [n]) with 1. pose proof (nlen_nonneg l) as Hl.
  rewrite ival_signed by lia. rewrite nval_last. pose proof (nval_range rho l) as Hr.
  pose proof (pow2_pos (nlen l) Hl) as Hp.
  assert (Hp2 : 2 ^ (nlen l + 1) = 2 * 2 ^ nlen l) by (rewrite Z.pow_add_r by lia; change (2 ^ 1) with 2; ring).
  destruct (net_val rho n); simpl b2z.
  - rewrite <- (sext_add_mul (nlen l + 1) _ (-1)) by lia.
    rewrite sext_small; [lia|lia|]. replace (nlen l + 1 - 1) with (nlen l) by lia. lia.
  - rewrite sext_small; [lia|lia|]. replace (nlen l + 1 - 1) with (nlen l) by lia. lia.
Qed.

Lemma sval_zero_iff rho sg l : (sval rho sg l =? 0) = (nval rho l =? 0).
Proof.
  unfold sval. pose proof (nlen_nonneg l). pose proof (nval_range rho l).
  unfold ival. destruct (sg && (0 <? nlen l)) eqn:E.
  - rewrite sext_zero_iff by lia. rewrite mask_nval. reflexivity.
  - rewrite mask_nval. reflexivity.
Qed.

(* two readings of equally long lists agree iff the patterns agree *)
Lemma sval_inj rho sg a b : nlen a = nlen b -> (sval rho sg a =? sval rho sg b) = (nval rho a =? nval rho b).
Proof.
  intros Hl. destruct (nval rho a =? nval rho b) eqn:E.
  - apply Z.eqb_eq in E. unfold sval. rewrite Hl, E. apply Z.eqb_refl.
  - apply Z.eqb_neq in E. apply Z.eqb_neq. intros H. apply E.
    rewrite <- (mask_sval rho sg a), <- (mask_sval rho sg b), Hl, H. reflexivity.
Qed.

(* ---------- NetlistEmitter.extend ---------- *)
Lemma extend_by_len l sg k : nlen (extend_by l sg k) = nlen l + Z.of_nat k.
Proof.
  revert l. induction k as [|k IH]; intros l; simpl.
  - lia.
  - rewrite IH, nlen_app. change (nlen [_]) with 1. lia.
Qed.

Lemma extend_len l sg w : nlen (extend l sg w) = Z.max (nlen l) w.
Proof. unfold extend. rewrite extend_by_len. pose proof (nlen_nonneg l). lia. Qed.

Lemma last_app_single {A} (l : list A) (x d : A) : last (l ++ [x]) d = x.
Proof. induction l as [|a l IH]; simpl; auto. destruct (l ++ [x]) eqn:E; [destruct l; discriminate|exact IH]. Qed.

Lemma nonempty_snoc {A} (l : list A) : l <> [] -> exists l' x, l = l' ++ [x].
Proof. intros H. destruct (exists_last H) as [l' [x ->]]. eauto. Qed.

(* one more copy of the sign / one more zero keeps the value *)
Lemma sval_snoc_sign rho l : l <> [] -> sval rho true (l ++ [last l (NC false)]) = sval rho true l.
Proof.
  intros Hne. destruct (nonempty_snoc l Hne) as [l' [x ->]]. rewrite last_app_single.
  rewrite (sval_signed_last rho (l' ++ [x]) x), (sval_signed_last rho l' x).
  rewrite nval_last, nlen_app. change (nlen [x]) with 1. pose proof (nlen_nonneg l').
  rewrite Z.pow_add_r by lia. change (2 ^ 1) with 2. ring.
Qed.

Lemma sval_snoc_zero_u rho l : sval rho false (l ++ [NC false]) = sval rho false l.
Proof. rewrite !sval_unsigned, nval_last. simpl. lia. Qed.

Lemma sval_snoc_zero_s rho l : sval rho true (l ++ [NC false]) = sval rho false l.
Proof. rewrite sval_signed_last, sval_unsigned. simpl. lia. Qed.

Lemma extend_by_sval_signed rho l k : l <> [] -> sval rho true (extend_by l true k) = sval rho true l.
Proof.
  revert l. induction k as [|k IH]; intros l Hne; simpl; auto.
  rewrite IH by (destruct l; discriminate). apply sval_snoc_sign; auto.
Qed.

Lemma extend_by_sval_unsigned rho l k : sval rho false (extend_by l false k) = sval rho false l.
Proof. revert l. induction k as [|k IH]; intros l; simpl; auto. rewrite IH. apply sval_snoc_zero_u. Qed.

(* a zero-extended operand read as signed (at least one zero was appended) *)
Lemma extend_by_sval_mixed rho l k : (0 < k)%nat -> sval rho true (extend_by l false k) = sval rho false l.
Proof.
  revert l. induction k as [|k IH]; intros l Hk; [lia|]. simpl.
  destruct k as [|k'].
  - simpl. apply sval_snoc_zero_s.
  - rewrite IH by lia. apply sval_snoc_zero_u.
Qed.

Theorem extend_preserves rho l sg w : (sg = true -> l <> []) -> sval rho sg (extend l sg w) = sval rho sg l.
Proof.
  intros H. unfold extend. destruct sg.
  - apply extend_by_sval_signed; auto.
  - apply extend_by_sval_unsigned.
Qed.

Lemma extend_mixed rho l w : nlen l < w -> sval rho true (extend l false w) = sval rho false l.
Proof. intros H. unfold extend. apply extend_by_sval_mixed. lia. Qed.

Lemma extend_nonempty l sg w : l <> [] -> extend l sg w <> [].
Proof.
  intros H E. assert (nlen (extend l sg w) = 0) by (rewrite E; reflexivity).
  rewrite extend_len in *. assert (0 < nlen l) by (destruct l; [congruence|rewrite nlen_cons; pose proof (nlen_nonneg l); lia]). lia.
Qed.

Lemma nlen_pos_nonempty l : 0 < nlen l -> l <> [].
Proof. intros H ->. unfold nlen in H. simpl in H. lia. Qed.

(* ---------- ModuleEmitter.shorten_operand ---------- *)
Lemma net_eqb_val rho a b : net_eqb a b = true -> net_val rho a = net_val rho b.
Proof.
  destruct a, b; simpl; intros H; try discriminate.
  - apply eqb_prop in H. now subst.
  - apply Nat.eqb_eq in H. now subst.
Qed.

Lemma shorten_s_rev_cons2 a b t :
  shorten_s_rev (a :: b :: t) = if net_eqb a b then shorten_s_rev (b :: t) else a :: b :: t.
Proof. reflexivity. Qed.

(* MSB-first views: value of rev r *)
Lemma shorten_s_rev_sval rho r : sval rho true (rev (shorten_s_rev r)) = sval rho true (rev r).
Proof.
  induction r as [|a t IH]; [reflexivity|].
  destruct t as [|b t'].
  - reflexivity.
  - rewrite shorten_s_rev_cons2. destruct (net_eqb a b) eqn:E; [|reflexivity].
    rewrite IH. simpl rev.
    pose proof (net_eqb_val rho a b E) as Hv.
    rewrite (sval_signed_last rho (rev t' ++ [b]) a), (sval_signed_last rho (rev t') b).
    rewrite nval_last, nlen_app, Hv. change (nlen [b]) with 1. pose proof (nlen_nonneg (rev t')).
    rewrite Z.pow_add_r by lia. change (2 ^ 1) with 2. ring.
Qed.

Lemma shorten_u_rev_sval rho r : sval rho false (rev (shorten_u_rev r)) = sval rho false (rev r).
Proof.
  induction r as [|a t IH]; [reflexivity|].
  cbn [shorten_u_rev]. destruct (net_eqb a (NC false)) eqn:E; [|reflexivity].
  rewrite IH. simpl rev. rewrite !sval_unsigned, nval_last.
  rewrite (net_eqb_val rho a (NC false) E). simpl. lia.
Qed.

Theorem shorten_preserves rho l sg : sval rho sg (shorten l sg) = sval rho sg l.
Proof.
  unfold shorten. destruct sg.
  - rewrite shorten_s_rev_sval, rev_involutive. reflexivity.
  - rewrite shorten_u_rev_sval, rev_involutive. reflexivity.
Qed.

Lemma shorten_s_rev_len r : (length (shorten_s_rev r) <= length r)%nat.
Proof.
  induction r as [|a t IH]; [simpl; lia|]. destruct t as [|b t']; [simpl; lia|].
  rewrite shorten_s_rev_cons2. destruct (net_eqb a b); [|lia]. simpl length in *. lia.
Qed.
Lemma shorten_u_rev_len r : (length (shorten_u_rev r) <= length r)%nat.
Proof. induction r as [|a t IH]; simpl; [lia|]. destruct (net_eqb a (NC false)); simpl; lia. Qed.

Lemma shorten_len l sg : nlen (shorten l sg) <= nlen l.
Proof.
  unfold shorten, nlen. rewrite rev_length. destruct sg.
  - pose proof (shorten_s_rev_len (rev l)). rewrite rev_length in *. lia.
  - pose proof (shorten_u_rev_len (rev l)). rewrite rev_length in *. lia.
Qed.


(* ====================================================================== *)
(* rtlil.emit_operator: the emitted cells compute the NIR operator          *)
(* ====================================================================== *)

(* specification of the _nir.Operator kinds on bit patterns (w = width of the first input) *)
Definition nir1 (o : nop1) (w x : Z) : Z :=
  match o with
  | N1Neg => mask w (- x)
  | N1Not => ones w - x
  | N1Bool | N1Ror => b2z (negb (x =? 0))
  | N1Rand => b2z (x =? ones w)
  | N1Rxor => parity x
  end.

Definition nir2 (o : nop2) (w x y : Z) : Z :=
  match o with
  | N2Add => mask w (x + y)
  | N2Sub => mask w (x - y)
  | N2Mul => mask w (x * y)
  | N2DivU => if y =? 0 then 0 else mask w (x / y)
  | N2DivS => if y =? 0 then 0 else mask w (ival true w x / ival true w y)
  | N2ModU => if y =? 0 then 0 else mask w (x mod y)
  | N2ModS => if y =? 0 then 0 else mask w (ival true w x mod ival true w y)
  | N2Shl => mask w (x * 2 ^ y)
  | N2ShrU => mask w (x / 2 ^ y)
  | N2ShrS => mask w (ival true w x / 2 ^ y)
  | N2And => Z.land x y
  | N2Or => Z.lor x y
  | N2Xor => Z.lxor x y
  | N2Eq => b2z (x =? y)
  | N2Ne => b2z (negb (x =? y))
  | N2LtU => b2z (x <? y)
  | N2GtU => b2z (y <? x)
  | N2LeU => b2z (x <=? y)
  | N2GeU => b2z (y <=? x)
  | N2LtS => b2z (ival true w x <? ival true w y)
  | N2GtS => b2z (ival true w y <? ival true w x)
  | N2LeS => b2z (ival true w x <=? ival true w y)
  | N2GeS => b2z (ival true w y <=? ival true w x)
  end.

Definition is_shift (o : nop2) : bool := match o with N2Shl | N2ShrU | N2ShrS => true | _ => false end.

Lemma mask1_b2z b : mask 1 (b2z b) = b2z b.
Proof. apply mask_small. destruct b; simpl; lia. Qed.

(* the operand handed to a cell denotes what the NIR input denotes *)
Lemma operand_ival rho l sg : ival sg (nlen (shorten l sg)) (nval rho (shorten l sg)) = sval rho sg l.
Proof. exact (shorten_preserves rho l sg). Qed.

Lemma sval_as_ival rho sg l : sval rho sg l = ival sg (nlen l) (nval rho l).
Proof. reflexivity. Qed.

Lemma ext_operand rho l sg w : 0 <= w <= nlen l ->
  ext sg (nlen (shorten l sg)) (nval rho (shorten l sg)) w = mask w (nval rho l).
Proof. intros H. unfold ext. rewrite operand_ival. apply mask_sval_le; auto. Qed.

Lemma mask_sval' rho sg l : mask (nlen l) (sval rho sg l) = mask (nlen l) (nval rho l).
Proof. rewrite mask_sval, mask_nval. reflexivity. Qed.

Lemma guard_eq w x : 0 <= x < 2 ^ w -> (mask 1 (cell_reduce_bool w 1 x) =? 0) = (x =? 0).
Proof.
  intros. unfold cell_reduce_bool, cell_reduce_or. rewrite (mask_small w x) by auto.
  destruct (x =? 0); reflexivity.
Qed.

Theorem emit_unary_sem rho o a : emit_unary rho o a = Some (nir1 o (nlen a) (nval rho a)).
Proof.
  pose proof (nlen_nonneg a) as Ha. pose proof (nval_range rho a) as Hr.
  destruct o; unfold emit_unary, nop1_width, un_table, cell1, nir1.
  - (* neg *) destruct (nlen (shorten a true) <? nlen (shorten a false)); f_equal; unfold cell_neg;
      rewrite operand_ival; rewrite <- mask_opp by auto; rewrite mask_sval; reflexivity.
  - (* not *) f_equal. unfold cell_not. rewrite ext_same by auto. rewrite mask_nval. reflexivity.
  - f_equal. unfold cell_reduce_bool, cell_reduce_or. rewrite mask_nval. apply mask1_b2z.
  - f_equal. unfold cell_reduce_or. rewrite mask_nval. apply mask1_b2z.
  - f_equal. unfold cell_reduce_and. rewrite mask_nval. apply mask1_b2z.
  - f_equal. unfold cell_reduce_xor. rewrite mask_nval. apply mask_small. pose proof (parity_range (nval rho a)). lia.
Qed.

(* free-signedness operators: both operands shortened with one common signedness *)
Lemma choose_free o a b : free_sign o = true ->
  exists sg, choose_operands o a b = (sg, sg, shorten a sg, shorten b sg).
Proof.
  intros H. unfold choose_operands. rewrite H.
  destruct (bin_table o) as [[k asg] bsg].
  match goal with |- context [if ?c then (true, true, _, _) else _] => destruct c end; eauto.
Qed.

Lemma choose_forced o a b : free_sign o = false -> forced o = true ->
  choose_operands o a b = (snd (fst (bin_table o)), snd (bin_table o),
                           shorten a (snd (fst (bin_table o))), shorten b (snd (bin_table o))).
Proof.
  intros H1 H2. unfold choose_operands. rewrite H1, H2. destruct (bin_table o) as [[k asg] bsg]. reflexivity.
Qed.

Lemma div_mask_small w x y : 0 <= w -> 0 <= x < 2 ^ w -> 0 <= y -> 0 <= x / 2 ^ y < 2 ^ w.
Proof.
  intros Hw Hx Hy. pose proof (pow2_pos y Hy). split.
  - apply Z.div_pos; lia.
  - apply Z.div_lt_upper_bound; [lia|]. nia.
Qed.

Ltac free_op o a b rho :=
  let sg := fresh "sg" in let E := fresh "E" in
  destruct (choose_free o a b eq_refl) as [sg E]; rewrite E; clear E; cbn [cell2];
  f_equal.

Theorem emit_binary_sem rho o a b :
  (is_shift o = false -> nlen a = nlen b) ->
  emit_binary rho o a b = Some (nir2 o (nlen a) (nval rho a) (nval rho b)).
Proof.
  intros Hlen. pose proof (nlen_nonneg a) as Ha. pose proof (nlen_nonneg b) as Hb.
  pose proof (nval_range rho a) as Hra. pose proof (nval_range rho b) as Hrb.
  destruct o; unfold emit_binary, nop2_width; cbn [bin_table is_divmod nir2];
    try (specialize (Hlen eq_refl)).
  - (* + *) free_op N2Add a b rho. unfold cell_add. rewrite andb_diag, !operand_ival.
    apply mask_eq_add; auto. apply mask_sval'. rewrite Hlen. apply mask_sval'.
  - (* - *) free_op N2Sub a b rho. unfold cell_sub. rewrite andb_diag, !operand_ival.
    apply mask_eq_sub; auto. apply mask_sval'. rewrite Hlen. apply mask_sval'.
  - (* * *) free_op N2Mul a b rho. unfold cell_mul. rewrite andb_diag, !operand_ival.
    apply mask_eq_mul; auto. apply mask_sval'. rewrite Hlen. apply mask_sval'.
  - (* u// *) rewrite (choose_forced N2DivU a b eq_refl eq_refl). cbn [bin_table fst snd cell2].
    rewrite guard_eq by apply nval_range.
    pose proof (shorten_preserves rho b false) as Hsb. rewrite !sval_unsigned in Hsb.
    unfold cell_divfloor. cbn [andb]. rewrite !operand_ival, !sval_unsigned. rewrite Hsb.
    pose proof (pow2_pos (nlen a) Ha).
    destruct (nval rho b =? 0) eqn:E; [f_equal; apply mask_small; lia|reflexivity].
  - (* s// *) rewrite (choose_forced N2DivS a b eq_refl eq_refl). cbn [bin_table fst snd cell2].
    rewrite guard_eq by apply nval_range.
    pose proof (shorten_preserves rho b true) as Hsb.
    rewrite <- (sval_zero_iff rho true (shorten b true)), Hsb.
    unfold cell_divfloor. cbn [andb]. rewrite !operand_ival. rewrite !sval_zero_iff.
    rewrite (sval_as_ival rho true a), (sval_as_ival rho true b), Hlen.
    pose proof (pow2_pos (nlen b) Hb).
    destruct (nval rho b =? 0) eqn:E; [f_equal; apply mask_small; lia|reflexivity].
  - (* u% *) rewrite (choose_forced N2ModU a b eq_refl eq_refl). cbn [bin_table fst snd cell2].
    rewrite guard_eq by apply nval_range.
    pose proof (shorten_preserves rho b false) as Hsb. rewrite !sval_unsigned in Hsb.
    unfold cell_modfloor. cbn [andb]. rewrite !operand_ival, !sval_unsigned. rewrite Hsb.
    pose proof (pow2_pos (nlen a) Ha).
    destruct (nval rho b =? 0) eqn:E; [f_equal; apply mask_small; lia|reflexivity].
  - (* s% *) rewrite (choose_forced N2ModS a b eq_refl eq_refl). cbn [bin_table fst snd cell2].
    rewrite guard_eq by apply nval_range.
    pose proof (shorten_preserves rho b true) as Hsb.
    rewrite <- (sval_zero_iff rho true (shorten b true)), Hsb.
    unfold cell_modfloor. cbn [andb]. rewrite !operand_ival. rewrite !sval_zero_iff.
    rewrite (sval_as_ival rho true a), (sval_as_ival rho true b), Hlen.
    pose proof (pow2_pos (nlen b) Hb).
    destruct (nval rho b =? 0) eqn:E; [f_equal; apply mask_small; lia|reflexivity].
  - (* << *) unfold choose_operands. cbn [bin_table free_sign forced].
    pose proof (shorten_preserves rho b false) as Hsb. rewrite !sval_unsigned in Hsb.
    destruct (nlen (shorten a true) <? nlen (shorten a false)); cbn [cell2]; f_equal; unfold cell_shl;
      rewrite ext_operand by lia; rewrite mask_nval, mask_nval, Hsb; reflexivity.
  - (* u>> *) rewrite (choose_forced N2ShrU a b eq_refl eq_refl). cbn [bin_table fst snd cell2]. f_equal.
    unfold cell_shr. pose proof (shorten_len a false) as Hsl. pose proof (nlen_nonneg (shorten a false)).
    rewrite Z.max_l by lia. rewrite ext_operand by lia. rewrite !mask_nval.
    pose proof (shorten_preserves rho b false) as Hsb. rewrite !sval_unsigned in Hsb. rewrite Hsb. reflexivity.
  - (* s>> *) rewrite (choose_forced N2ShrS a b eq_refl eq_refl). cbn [bin_table fst snd cell2]. f_equal.
    unfold cell_sshr. rewrite operand_ival, mask_nval.
    pose proof (shorten_preserves rho b false) as Hsb. rewrite !sval_unsigned in Hsb. rewrite Hsb. reflexivity.
  - (* & *) unfold choose_operands. cbn [bin_table free_sign forced cell2]. f_equal. unfold cell_and. cbn [andb].
    rewrite <- Hlen. rewrite !ext_same by auto. rewrite mask_nval. rewrite Hlen, mask_nval. reflexivity.
  - (* | *) unfold choose_operands. cbn [bin_table free_sign forced cell2]. f_equal. unfold cell_or. cbn [andb].
    rewrite <- Hlen. rewrite !ext_same by auto. rewrite mask_nval. rewrite Hlen, mask_nval. reflexivity.
  - (* ^ *) unfold choose_operands. cbn [bin_table free_sign forced cell2]. f_equal. unfold cell_xor. cbn [andb].
    rewrite <- Hlen. rewrite !ext_same by auto. rewrite mask_nval. rewrite Hlen, mask_nval. reflexivity.
  - (* == *) free_op N2Eq a b rho. unfold cell_eq. rewrite andb_diag, mask1_b2z. f_equal.
    set (w := Z.max (nlen (shorten a sg)) (nlen (shorten b sg))).
    pose proof (nlen_nonneg (shorten a sg)). pose proof (nlen_nonneg (shorten b sg)).
    rewrite <- (sval_inj rho sg a b Hlen), <- (shorten_preserves rho a sg), <- (shorten_preserves rho b sg).
    unfold sval at 1 2.
    rewrite <- (ext_preserves_value sg (nlen (shorten a sg)) (nval rho (shorten a sg)) w) by lia.
    rewrite <- (ext_preserves_value sg (nlen (shorten b sg)) (nval rho (shorten b sg)) w) by lia.
    destruct (ext sg (nlen (shorten a sg)) (nval rho (shorten a sg)) w =? ext sg (nlen (shorten b sg)) (nval rho (shorten b sg)) w) eqn:E.
    + apply Z.eqb_eq in E. rewrite E. symmetry. apply Z.eqb_refl.
    + symmetry. apply Z.eqb_neq. intros Hc. apply Z.eqb_neq in E. apply E.
      rewrite <- (mask_small w (ext sg (nlen (shorten a sg)) _ w)) by (apply ext_range; lia).
      rewrite <- (mask_small w (ext sg (nlen (shorten b sg)) _ w)) by (apply ext_range; lia).
      rewrite <- (mask_ival sg w (ext sg (nlen (shorten a sg)) _ w)) by lia.
      rewrite <- (mask_ival sg w (ext sg (nlen (shorten b sg)) _ w)) by lia. rewrite Hc. reflexivity.
  - (* != *) free_op N2Ne a b rho. unfold cell_ne. rewrite andb_diag, mask1_b2z. f_equal. f_equal.
    set (w := Z.max (nlen (shorten a sg)) (nlen (shorten b sg))).
    pose proof (nlen_nonneg (shorten a sg)). pose proof (nlen_nonneg (shorten b sg)).
    rewrite <- (sval_inj rho sg a b Hlen), <- (shorten_preserves rho a sg), <- (shorten_preserves rho b sg).
    unfold sval at 1 2.
    rewrite <- (ext_preserves_value sg (nlen (shorten a sg)) (nval rho (shorten a sg)) w) by lia.
    rewrite <- (ext_preserves_value sg (nlen (shorten b sg)) (nval rho (shorten b sg)) w) by lia.
    destruct (ext sg (nlen (shorten a sg)) (nval rho (shorten a sg)) w =? ext sg (nlen (shorten b sg)) (nval rho (shorten b sg)) w) eqn:E.
    + apply Z.eqb_eq in E. rewrite E. symmetry. apply Z.eqb_refl.
    + symmetry. apply Z.eqb_neq. intros Hc. apply Z.eqb_neq in E. apply E.
      rewrite <- (mask_small w (ext sg (nlen (shorten a sg)) _ w)) by (apply ext_range; lia).
      rewrite <- (mask_small w (ext sg (nlen (shorten b sg)) _ w)) by (apply ext_range; lia).
      rewrite <- (mask_ival sg w (ext sg (nlen (shorten a sg)) _ w)) by lia.
      rewrite <- (mask_ival sg w (ext sg (nlen (shorten b sg)) _ w)) by lia. rewrite Hc. reflexivity.
  - rewrite (choose_forced N2LtU a b eq_refl eq_refl). cbn [bin_table fst snd cell2]. f_equal.
    unfold cell_lt. cbn [andb]. rewrite !operand_ival, !sval_unsigned, mask1_b2z. reflexivity.
  - rewrite (choose_forced N2GtU a b eq_refl eq_refl). cbn [bin_table fst snd cell2]. f_equal.
    unfold cell_gt. cbn [andb]. rewrite !operand_ival, !sval_unsigned, mask1_b2z. reflexivity.
  - rewrite (choose_forced N2LeU a b eq_refl eq_refl). cbn [bin_table fst snd cell2]. f_equal.
    unfold cell_le. cbn [andb]. rewrite !operand_ival, !sval_unsigned, mask1_b2z. reflexivity.
  - rewrite (choose_forced N2GeU a b eq_refl eq_refl). cbn [bin_table fst snd cell2]. f_equal.
    unfold cell_ge. cbn [andb]. rewrite !operand_ival, !sval_unsigned, mask1_b2z. reflexivity.
  - rewrite (choose_forced N2LtS a b eq_refl eq_refl). cbn [bin_table fst snd cell2]. f_equal.
    unfold cell_lt. cbn [andb]. rewrite !operand_ival, mask1_b2z. unfold sval. rewrite Hlen. reflexivity.
  - rewrite (choose_forced N2GtS a b eq_refl eq_refl). cbn [bin_table fst snd cell2]. f_equal.
    unfold cell_gt. cbn [andb]. rewrite !operand_ival, mask1_b2z. unfold sval. rewrite Hlen. reflexivity.
  - rewrite (choose_forced N2LeS a b eq_refl eq_refl). cbn [bin_table fst snd cell2]. f_equal.
    unfold cell_le. cbn [andb]. rewrite !operand_ival, mask1_b2z. unfold sval. rewrite Hlen. reflexivity.
  - rewrite (choose_forced N2GeS a b eq_refl eq_refl). cbn [bin_table fst snd cell2]. f_equal.
    unfold cell_ge. cbn [andb]. rewrite !operand_ival, mask1_b2z. unfold sval. rewrite Hlen. reflexivity.
Qed.


(* ====================================================================== *)
(* _ir.emit_rhs + rtlil.emit_operator = the Python-integer specification    *)
(* ====================================================================== *)

(* operands as emit_rhs returns them: a signed value has at least one bit *)
Definition opd_ok (l : list net) (sg : bool) : Prop := sg = true -> l <> [].

Lemma opd_wf l sg : opd_ok l sg -> wf_shape (Sh (nlen l) sg) = true.
Proof.
  intros H. unfold wf_shape; simpl. destruct sg.
  - specialize (H eq_refl). destruct l; [congruence|]. rewrite nlen_cons. pose proof (nlen_nonneg l). lia.
  - pose proof (nlen_nonneg l). lia.
Qed.

Lemma opd_in_range rho l sg : opd_ok l sg -> in_range (Sh (nlen l) sg) (sval rho sg l).
Proof.
  intros H. unfold sval. apply ival_range; [apply nlen_nonneg|].
  intros ->. specialize (H eq_refl). destruct l; [congruence|]. rewrite nlen_cons. pose proof (nlen_nonneg l). lia.
Qed.

Lemma unify2_sgn a b : sgn (unify2 a b) = sgn a || sgn b.
Proof. destruct a as [wa sa], b as [wb sb]. unfold unify2, unify. simpl. destruct sa, sb; reflexivity. Qed.

Lemma pat_of rho sg l A : sval rho sg l = A -> mask (nlen l) (nval rho l) = mask (nlen l) A.
Proof. intros <-. symmetry. apply mask_sval'. Qed.

(* extension to a shape that contains the operand's shape keeps the value *)
Lemma extend_to_shape rho l sg u : opd_ok l sg -> wf_shape u = true -> shape_le (Sh (nlen l) sg) u ->
  nlen (extend l sg (width u)) = width u /\ sval rho (sgn u) (extend l sg (width u)) = sval rho sg l.
Proof.
  intros Hok Hwu Hle. pose proof (opd_wf l sg Hok) as Hwl.
  apply (shape_le_char _ _ Hwl Hwu) in Hle. simpl in Hle. rewrite extend_len.
  destruct sg.
  - destruct Hle as [Hs Hw]. rewrite Hs. split; [lia|]. apply extend_preserves; auto.
  - destruct (sgn u) eqn:Esu.
    + split; [lia|]. apply extend_mixed. lia.
    + split; [lia|]. apply extend_preserves. discriminate.
Qed.

Lemma unify_facts rho la sa lb sb : opd_ok la sa -> opd_ok lb sb ->
  let u := unify2 (Sh (nlen la) sa) (Sh (nlen lb) sb) in
  wf_shape u = true /\
  nlen (extend la sa (width u)) = width u /\ nlen (extend lb sb (width u)) = width u /\
  sval rho (sgn u) (extend la sa (width u)) = sval rho sa la /\
  sval rho (sgn u) (extend lb sb (width u)) = sval rho sb lb.
Proof.
  intros Ha Hb u. pose proof (opd_wf la sa Ha) as Hwa. pose proof (opd_wf lb sb Hb) as Hwb.
  pose proof (unify2_wf _ _ Hwa Hwb) as Hwu. fold u in Hwu.
  destruct (extend_to_shape rho la sa u Ha Hwu (unify2_le_l _ _ Hwa Hwb)) as [H1 H2].
  destruct (extend_to_shape rho lb sb u Hb Hwu (unify2_le_r _ _ Hwa Hwb)) as [H3 H4].
  repeat split; auto.
Qed.

Lemma opd_ok_of_len l sg : (sg = true -> 0 < nlen l) -> opd_ok l sg.
Proof. intros H Hs. apply nlen_pos_nonempty. auto. Qed.

Lemma wf_signed_pos u : wf_shape u = true -> sgn u = true -> 0 < width u.
Proof. unfold wf_shape. intros H Hs. rewrite Hs in H. lia. Qed.

Theorem lower_op1_correct rho o la sa : opd_ok la sa -> (o = OS -> 0 < nlen la) ->
  let A := sval rho sa la in
  let rs := op1_shape o (Sh (nlen la) sa) in
  lower_op1 rho o la sa = Some (mask (width rs) (den_op1 o (Sh (nlen la) sa) A), width rs, sgn rs).
Proof.
  intros Hok Hos A rs. pose proof (nlen_nonneg la) as Hl. pose proof (nval_range rho la) as Hr.
  assert (HA : mask (nlen la) A = nval rho la) by apply mask_sval.
  destruct o; unfold lower_op1, rs; cbn [op1_shape width sgn den_op1].
  - (* ~ *) rewrite emit_unary_sem. cbn [nir1]. f_equal. f_equal. f_equal.
    destruct sa; cbn [sgn].
    + symmetry. destruct (mask_congr (nlen la) A Hl) as [k Hk]. rewrite HA in Hk.
      replace (- A - 1) with ((ones (nlen la) - nval rho la) + (k - 1) * 2 ^ nlen la) by (unfold ones; lia).
      rewrite mask_add_mul by auto. apply mask_small. unfold ones. lia.
    + unfold A. rewrite sval_unsigned. symmetry. apply mask_small. unfold ones. lia.
  - (* neg *) set (a2 := extend la sa (nlen la + 1)).
    assert (Hn : nlen a2 = nlen la + 1) by (unfold a2; rewrite extend_len; lia).
    rewrite emit_unary_sem. cbn [nir1]. rewrite Hn. f_equal. f_equal. f_equal.
    rewrite <- (mask_opp _ (nval _ _)) by lia. rewrite <- (mask_opp _ A) by lia. f_equal. f_equal.
    rewrite <- Hn. apply (pat_of rho sa). unfold a2. apply extend_preserves. exact Hok.
  - (* bool *) rewrite emit_unary_sem. cbn [nir1]. rewrite mask1_b2z. unfold A. rewrite sval_zero_iff. reflexivity.
  - rewrite emit_unary_sem. cbn [nir1]. rewrite mask1_b2z. unfold A. rewrite sval_zero_iff. reflexivity.
  - rewrite emit_unary_sem. cbn [nir1]. rewrite mask1_b2z. fold (mask (nlen la) A). rewrite HA. reflexivity.
  - rewrite emit_unary_sem. cbn [nir1]. fold (mask (nlen la) A). rewrite HA.
    f_equal. f_equal. f_equal. symmetry. apply mask_small. pose proof (parity_range (nval rho la)). lia.
  - (* u *) fold (mask (nlen la) A). rewrite HA, mask_nval. reflexivity.
  - (* s *) specialize (Hos eq_refl). rewrite mask_sext by lia. rewrite HA. reflexivity.
Qed.

Lemma norm_mask_id s x : wf_shape s = true -> in_range s x -> norm s (mask (width s) x) = x.
Proof.
  intros Hwf Hr. unfold norm, wf_shape, in_range in *. destruct (sgn s).
  - rewrite sext_mask by lia. apply sext_small; [lia|exact Hr].
  - rewrite mask_idem by lia. apply mask_small; exact Hr.
Qed.

Lemma pydiv_zero_iff A B : pydiv A B = if B =? 0 then 0 else A / B.
Proof. reflexivity. Qed.

Theorem lower_op2_correct rho o la sa lb sb : opd_ok la sa -> opd_ok lb sb ->
  (match o with OShl | OShr => sb = false | _ => True end) ->
  let A := sval rho sa la in let B := sval rho sb lb in
  let rs := op2_shape o (Sh (nlen la) sa) (Sh (nlen lb) sb) in
  lower_op2 rho o la sa lb sb = Some (mask (width rs) (den_op2 o A B), width rs, sgn rs).
Proof.
  intros Hoa Hob Hsh A B rs.
  pose proof (nlen_nonneg la) as Hla. pose proof (nlen_nonneg lb) as Hlb.
  destruct (unify_facts rho la sa lb sb Hoa Hob) as [Hwu [Hna [Hnb [Hva Hvb]]]].
  fold A in Hva. fold B in Hvb.
  set (u := unify2 (Sh (nlen la) sa) (Sh (nlen lb) sb)) in *.
  pose proof (wf_width_nonneg u Hwu) as Hwun.
  assert (Hsu : sgn u = sa || sb) by exact (unify2_sgn _ _).
  set (a' := extend la sa (width u)) in *. set (b' := extend lb sb (width u)) in *.
  destruct o; unfold lower_op2, unify_bitwise, rs; cbn [op2_shape width sgn den_op2]; fold u; fold a'; fold b'.
  - (* + *) set (a2 := extend a' (sgn u) (nlen a' + 1)). set (b2 := extend b' (sgn u) (nlen a' + 1)).
    assert (Hoa' : opd_ok a' (sgn u)) by (apply opd_ok_of_len; intros Hs; pose proof (wf_signed_pos u Hwu Hs); lia).
    assert (Hob' : opd_ok b' (sgn u)) by (apply opd_ok_of_len; intros Hs; pose proof (wf_signed_pos u Hwu Hs); lia).
    assert (Hn2a : nlen a2 = width u + 1) by (unfold a2; rewrite extend_len; lia).
    assert (Hn2b : nlen b2 = width u + 1) by (unfold b2; rewrite extend_len; lia).
    rewrite emit_binary_sem by (intros _; lia). cbn [nir2]. rewrite Hn2a. f_equal. f_equal. f_equal.
    apply mask_eq_add; [lia| |].
    + rewrite <- Hn2a. apply (pat_of rho (sgn u)). unfold a2. rewrite extend_preserves by exact Hoa'. exact Hva.
    + rewrite <- Hn2b. apply (pat_of rho (sgn u)). unfold b2. rewrite extend_preserves by exact Hob'. exact Hvb.
  - (* - *) set (a2 := extend a' (sgn u) (nlen a' + 1)). set (b2 := extend b' (sgn u) (nlen a' + 1)).
    assert (Hoa' : opd_ok a' (sgn u)) by (apply opd_ok_of_len; intros Hs; pose proof (wf_signed_pos u Hwu Hs); lia).
    assert (Hob' : opd_ok b' (sgn u)) by (apply opd_ok_of_len; intros Hs; pose proof (wf_signed_pos u Hwu Hs); lia).
    assert (Hn2a : nlen a2 = width u + 1) by (unfold a2; rewrite extend_len; lia).
    assert (Hn2b : nlen b2 = width u + 1) by (unfold b2; rewrite extend_len; lia).
    rewrite emit_binary_sem by (intros _; lia). cbn [nir2]. rewrite Hn2a. f_equal. f_equal. f_equal.
    apply mask_eq_sub; [lia| |].
    + rewrite <- Hn2a. apply (pat_of rho (sgn u)). unfold a2. rewrite extend_preserves by exact Hoa'. exact Hva.
    + rewrite <- Hn2b. apply (pat_of rho (sgn u)). unfold b2. rewrite extend_preserves by exact Hob'. exact Hvb.
  - (* * *) set (a2 := extend la sa (nlen la + nlen lb)). set (b2 := extend lb sb (nlen la + nlen lb)).
    assert (Hn2a : nlen a2 = nlen la + nlen lb) by (unfold a2; rewrite extend_len; lia).
    assert (Hn2b : nlen b2 = nlen la + nlen lb) by (unfold b2; rewrite extend_len; lia).
    rewrite emit_binary_sem by (intros _; lia). cbn [nir2]. rewrite Hn2a. f_equal. f_equal. f_equal.
    apply mask_eq_mul; [lia| |].
    + rewrite <- Hn2a. apply (pat_of rho sa). unfold a2. apply extend_preserves. exact Hoa.
    + rewrite <- Hn2b. apply (pat_of rho sb). unfold b2. apply extend_preserves. exact Hob.
  - (* // *) pose proof (wf_signed_pos u Hwu) as Hpos. rewrite Hsu in *.
    set (w := nlen la + (if sb then 1 else 0)).
    assert (Hoa' : opd_ok a' (sa || sb)) by (apply opd_ok_of_len; intros Hs; specialize (Hpos Hs); lia).
    assert (Hob' : opd_ok b' (sa || sb)) by (apply opd_ok_of_len; intros Hs; specialize (Hpos Hs); lia).
    assert (Hwle : exists a2 b2, (if nlen a' <? w then (extend a' (sa || sb) w, extend b' (sa || sb) w) else (a', b')) = (a2, b2)
                   /\ nlen a2 = nlen b2 /\ w <= nlen a2 /\ sval rho (sa || sb) a2 = A /\ sval rho (sa || sb) b2 = B).
    { destruct (nlen a' <? w) eqn:E.
      - exists (extend a' (sa || sb) w), (extend b' (sa || sb) w). rewrite !extend_len.
        repeat split; [lia|lia| |]; rewrite extend_preserves; auto.
      - exists a', b'. repeat split; auto; try lia. }
    destruct Hwle as [a2 [b2 [Epair [Hn2 [Hw2 [Hv2a Hv2b]]]]]]. rewrite Epair.
    destruct (sa || sb) eqn:Esg.
    + rewrite emit_binary_sem by (intros _; exact Hn2). cbn [nir2]. f_equal. f_equal. f_equal.
      rewrite <- (sval_zero_iff rho true b2), Hv2b. unfold pydiv.
      fold (sval rho true a2). rewrite Hn2. fold (sval rho true b2). rewrite Hv2a, Hv2b, <- Hn2.
      destruct (B =? 0); [reflexivity|]. apply mask_mask_le. lia.
    + rewrite emit_binary_sem by (intros _; exact Hn2). cbn [nir2]. f_equal. f_equal. f_equal.
      rewrite sval_unsigned in Hv2a, Hv2b. rewrite Hv2a, Hv2b. unfold pydiv.
      destruct (B =? 0); [reflexivity|]. apply mask_mask_le. lia.
  - (* % *) rewrite Hsu in *.
    assert (Hwle : nlen lb <= width u).
    { pose proof (opd_wf lb sb Hob) as Hwb. pose proof (opd_wf la sa Hoa) as Hwa.
      pose proof (unify2_le_r _ _ Hwa Hwb) as Hle. fold u in Hle.
      apply (shape_le_char _ _ Hwb Hwu) in Hle. simpl in Hle. destruct sb; [lia|destruct (sgn u); lia]. }
    destruct (sa || sb) eqn:Esg.
    + rewrite emit_binary_sem by (intros _; lia). cbn [nir2]. f_equal. f_equal. f_equal.
      rewrite <- (sval_zero_iff rho true b'), Hvb. unfold pymod.
      fold (sval rho true a'). rewrite Hna, <- Hnb. fold (sval rho true b'). rewrite Hva, Hvb.
      destruct (B =? 0); [reflexivity|]. apply mask_mask_le. lia.
    + rewrite emit_binary_sem by (intros _; lia). cbn [nir2]. f_equal. f_equal. f_equal.
      rewrite sval_unsigned in Hva, Hvb. rewrite Hva, Hvb. unfold pymod.
      destruct (B =? 0); [reflexivity|]. apply mask_mask_le. lia.
  - (* & *) rewrite emit_binary_sem by (intros _; lia). cbn [nir2]. rewrite Hna. f_equal. f_equal. f_equal.
    rewrite mask_land by auto. f_equal.
    + rewrite <- Hna. rewrite <- mask_nval. apply (pat_of rho (sgn u)). exact Hva.
    + rewrite <- Hnb. rewrite <- mask_nval. apply (pat_of rho (sgn u)). exact Hvb.
  - (* | *) rewrite emit_binary_sem by (intros _; lia). cbn [nir2]. rewrite Hna. f_equal. f_equal. f_equal.
    rewrite mask_lor by auto. f_equal.
    + rewrite <- Hna. rewrite <- mask_nval. apply (pat_of rho (sgn u)). exact Hva.
    + rewrite <- Hnb. rewrite <- mask_nval. apply (pat_of rho (sgn u)). exact Hvb.
  - (* ^ *) rewrite emit_binary_sem by (intros _; lia). cbn [nir2]. rewrite Hna. f_equal. f_equal. f_equal.
    rewrite mask_lxor by auto. f_equal.
    + rewrite <- Hna. rewrite <- mask_nval. apply (pat_of rho (sgn u)). exact Hva.
    + rewrite <- Hnb. rewrite <- mask_nval. apply (pat_of rho (sgn u)). exact Hvb.
  - (* << *) subst sb. pose proof (pow2_pos (nlen lb) Hlb) as Hp.
    set (a2 := extend la sa (nlen la + 2 ^ nlen lb - 1)).
    assert (Hn2a : nlen a2 = nlen la + 2 ^ nlen lb - 1) by (unfold a2; rewrite extend_len; lia).
    rewrite emit_binary_sem by (cbn; discriminate). cbn [nir2]. rewrite Hn2a. f_equal. f_equal. f_equal.
    unfold B. rewrite sval_unsigned. apply mask_eq_mul; [lia| |reflexivity].
    rewrite <- Hn2a. apply (pat_of rho sa). unfold a2. apply extend_preserves. exact Hoa.
  - (* >> *) subst sb. unfold B. rewrite sval_unsigned. destruct sa.
    + rewrite emit_binary_sem by (cbn; discriminate). cbn [nir2]. reflexivity.
    + rewrite emit_binary_sem by (cbn; discriminate). cbn [nir2]. unfold A. rewrite sval_unsigned. reflexivity.
  - (* == *) rewrite emit_binary_sem by (intros _; lia). cbn [nir2]. rewrite mask1_b2z. f_equal. f_equal. f_equal.
    rewrite <- (sval_inj rho (sgn u) a' b') by lia. rewrite Hva, Hvb. reflexivity.
  - (* != *) rewrite emit_binary_sem by (intros _; lia). cbn [nir2]. rewrite mask1_b2z. f_equal. f_equal. f_equal. f_equal.
    rewrite <- (sval_inj rho (sgn u) a' b') by lia. rewrite Hva, Hvb. reflexivity.
  - (* < *) destruct (sgn u) eqn:Esu; rewrite emit_binary_sem by (intros _; lia); cbn [nir2]; rewrite mask1_b2z.
    + fold (sval rho true a'). rewrite Hna, <- Hnb. fold (sval rho true b'). rewrite Hva, Hvb. reflexivity.
    + rewrite sval_unsigned in Hva, Hvb. rewrite Hva, Hvb. reflexivity.
  - (* <= *) destruct (sgn u) eqn:Esu; rewrite emit_binary_sem by (intros _; lia); cbn [nir2]; rewrite mask1_b2z.
    + fold (sval rho true a'). rewrite Hna, <- Hnb. fold (sval rho true b'). rewrite Hva, Hvb. reflexivity.
    + rewrite sval_unsigned in Hva, Hvb. rewrite Hva, Hvb. reflexivity.
  - (* > *) destruct (sgn u) eqn:Esu; rewrite emit_binary_sem by (intros _; lia); cbn [nir2]; rewrite mask1_b2z.
    + fold (sval rho true a'). rewrite Hna, <- Hnb. fold (sval rho true b'). rewrite Hva, Hvb. reflexivity.
    + rewrite sval_unsigned in Hva, Hvb. rewrite Hva, Hvb. reflexivity.
  - (* >= *) destruct (sgn u) eqn:Esu; rewrite emit_binary_sem by (intros _; lia); cbn [nir2]; rewrite mask1_b2z.
    + fold (sval rho true a'). rewrite Hna, <- Hnb. fold (sval rho true b'). rewrite Hva, Hvb. reflexivity.
    + rewrite sval_unsigned in Hva, Hvb. rewrite Hva, Hvb. reflexivity.
Qed.


(* the bit pattern, read in the result shape, IS the Python-integer result *)
Theorem lower_op2_norm rho o la sa lb sb : opd_ok la sa -> opd_ok lb sb ->
  (match o with OShl | OShr => sb = false | _ => True end) ->
  exists y, lower_op2 rho o la sa lb sb =
              Some (y, width (op2_shape o (Sh (nlen la) sa) (Sh (nlen lb) sb)),
                       sgn (op2_shape o (Sh (nlen la) sa) (Sh (nlen lb) sb))) /\
            norm (op2_shape o (Sh (nlen la) sa) (Sh (nlen lb) sb)) y
            = den_op2 o (sval rho sa la) (sval rho sb lb).
Proof.
  intros Hoa Hob Hsh. eexists. split; [apply lower_op2_correct; auto|].
  destruct (op2_sound o (Sh (nlen la) sa) (Sh (nlen lb) sb) (sval rho sa la) (sval rho sb lb)
              (opd_wf _ _ Hoa) (opd_wf _ _ Hob) (opd_in_range rho _ _ Hoa) (opd_in_range rho _ _ Hob)) as [Hwf Hr].
  { destruct o; auto. }
  apply norm_mask_id; auto.
Qed.

Theorem lower_op1_norm rho o la sa : opd_ok la sa -> (o = OS -> 0 < nlen la) ->
  exists y, lower_op1 rho o la sa =
              Some (y, width (op1_shape o (Sh (nlen la) sa)), sgn (op1_shape o (Sh (nlen la) sa))) /\
            norm (op1_shape o (Sh (nlen la) sa)) y = den_op1 o (Sh (nlen la) sa) (sval rho sa la).
Proof.
  intros Hoa Hos. eexists. split; [apply lower_op1_correct; auto|].
  destruct (op1_sound o (Sh (nlen la) sa) (sval rho sa la) (opd_wf _ _ Hoa) (opd_in_range rho _ _ Hoa) Hos) as [Hwf Hr].
  apply norm_mask_id; auto.
Qed.

(* ====================================================================== *)
(* rtlil.emit_part                                                         *)
(* ====================================================================== *)
Lemma part_offset rho off stride : 1 <= stride ->
  let '(ow, ov) :=
    if stride =? 1 then (nlen off, nval rho off)
    else let sw := bits_for stride false in
         let ow := nlen off + sw in
         (ow, cell_mul false false (nlen off) sw ow (nval rho off) stride) in
  mask ow ov = nval rho off * stride.
Proof.
  intros Hs. pose proof (nlen_nonneg off) as Hl. pose proof (nval_range rho off) as Hr.
  destruct (stride =? 1) eqn:E.
  - assert (stride = 1) by lia. subst. rewrite mask_nval. lia.
  - cbv zeta. unfold bits_for. destruct (0 <? stride) eqn:E0; [|lia].
    rewrite Z.add_0_r. pose proof (bit_length_nonneg stride) as Hb. pose proof (bit_length_upper stride ltac:(lia)) as Hu.
    unfold cell_mul, ival. cbn [andb]. rewrite mask_nval. rewrite (mask_small (bit_length stride) stride) by lia.
    rewrite mask_idem by lia. apply mask_small. rewrite Z.pow_add_r by lia. nia.
Qed.

(* under the sign-filling reading of $shift the lowering is right for every operand, offset, width and stride *)
Theorem lower_part_signfill rho v vsg off w stride : 1 <= stride ->
  emit_part_signfill rho v vsg off w stride = bits_at (sval rho vsg v) (nval rho off * stride) w.
Proof.
  intros Hs. unfold emit_part_signfill, emit_part_with. pose proof (part_offset rho off stride Hs) as Ho.
  destruct (if stride =? 1 then _ else _) as [ow ov]. unfold cell_shift_signfill. rewrite Ho. reflexivity.
Qed.

(* under the manual's reading ("logical shift"; A_SIGNED only extends A to max(A_WIDTH, Y_WIDTH)) it is right
   exactly when no bit above that width is selected from a negative value *)
Theorem lower_part_correct rho v vsg off w stride : 0 <= w -> 1 <= stride ->
  (vsg = false \/ 0 <= sval rho vsg v \/ nval rho off * stride + w <= Z.max w (nlen v)) ->
  emit_part rho v vsg off w stride = bits_at (sval rho vsg v) (nval rho off * stride) w.
Proof.
  intros Hw Hs Hc. unfold emit_part, emit_part_with. pose proof (part_offset rho off stride Hs) as Ho.
  destruct (if stride =? 1 then _ else _) as [ow ov]. unfold cell_shift_logical, cell_shr. rewrite Ho.
  pose proof (nlen_nonneg v) as Hl. pose proof (nval_range rho off) as Hro.
  set (O := nval rho off * stride) in *. assert (HO : 0 <= O) by (unfold O; nia).
  set (M := Z.max w (nlen v)). unfold ext. fold (sval rho vsg v). set (S := sval rho vsg v) in *.
  unfold bits_at. fold (mask w (mask M S / 2 ^ O)). fold (mask w (S / 2 ^ O)).
  assert (Hnonneg : 0 <= S -> mask M S = S).
  { intros H0. apply mask_small. split; auto.
    pose proof (ival_range vsg (nlen v) (nval rho v) Hl) as Hr. unfold in_range in Hr; simpl in Hr.
    assert (S < 2 ^ nlen v).
    { unfold S, sval. destruct vsg.
      - destruct (Z.eq_dec (nlen v) 0) as [E0|E0].
        + rewrite E0, ival_w0. simpl. lia.
        + specialize (Hr ltac:(intros; lia)). pose proof (pow2_mono (nlen v - 1) (nlen v) ltac:(lia)). lia.
      - specialize (Hr ltac:(discriminate)). lia. }
    pose proof (pow2_mono (nlen v) M ltac:(unfold M; lia)). lia. }
  destruct Hc as [Hc|[Hc|Hc]].
  - subst vsg. rewrite Hnonneg; auto. unfold S. rewrite sval_unsigned. pose proof (nval_range rho v). lia.
  - rewrite Hnonneg; auto.
  - apply Z.bits_inj'. intros i Hi. rewrite !testbit_mask by auto.
    destruct (i <? w) eqn:Ei; [|reflexivity]. cbn [andb].
    rewrite !testbit_div_pow2 by auto. rewrite testbit_mask by (unfold M; lia).
    replace (i + O <? M) with true by (symmetry; apply Z.ltb_lt; fold M in Hc; lia). reflexivity.
Qed.

Theorem lower_part_refuted : exists rho v vsg off w stride,
  0 <= w /\ 1 <= stride /\ emit_part rho v vsg off w stride <> bits_at (sval rho vsg v) (nval rho off * stride) w.
Proof.
  exists (fun _ => true), [NV 0%nat], true, [NC true], 1, 1. split; [lia|split; [lia|]]. vm_compute. discriminate.
Qed.

(* ====================================================================== *)
(* flip-flops                                                              *)
(* ====================================================================== *)
Lemma ones_eq w : ones w = Z.ones w.
Proof. unfold ones. rewrite Z.ones_equiv. lia. Qed.

Lemma put_full w d init : 0 <= w -> 0 <= d < 2 ^ w -> put w d 0 w init = mask w init.
Proof.
  intros Hw Hd. rewrite <- (mask_small w d Hd). unfold put. rewrite !Z.shiftl_0_r, Z.land_diag, ones_eq.
  apply Z.bits_inj'. intros i Hi. rewrite Z.lor_spec, !Z.land_spec, Z.lnot_spec by auto.
  rewrite Z.testbit_ones_nonneg by auto. rewrite !testbit_mask by auto.
  destruct (i <? w), (Z.testbit d i), (Z.testbit init i); reflexivity.
Qed.

(* $dff with the reset assignment appended last (sync-reset domain, signal not reset-less):
   on the active edge the register takes init under reset, else what the user statements computed; no edge: holds *)
Theorem dff_sync_reset w q d_user init rst clk_edge : 0 <= w -> 0 <= d_user < 2 ^ w ->
  dff_next q (d_with_sync_reset w d_user init rst) clk_edge =
  if clk_edge then (if rst then mask w init else d_user) else q.
Proof. intros Hw Hd. unfold dff_next, d_with_sync_reset. destruct clk_edge, rst; auto. apply put_full; auto. Qed.

(* the simulator's process (Model/Process.v sync_process) for a signal driven on all its bits: the same function of
   (reset, value computed by the statements) — so $dff = simulator at every active edge *)
Theorem dff_matches_sync_process tab ss r st i :
  stmts_mask ss i <> 0 -> sd_reset_less (tab i) = false ->
  let nx1 := exec_rtl_list (s_curr st) ss (s_next st) in
  let rst := negb (Z.land 1 (s_curr st r) =? 0) in
  s_next (sync_process tab ss (Some r) st) i =
  slot_update (s_next st i) (if rst then sd_init (tab i) else nx1 i) (update_mask (sd_shape (tab i)) (stmts_mask ss i)).
Proof.
  intros Hm Hrl nx1 rst. unfold sync_process. cbn [s_next].
  destruct (stmts_mask ss i =? 0) eqn:E; [lia|]. cbn [negb]. rewrite Hrl. cbn [negb]. rewrite !andb_true_r.
  fold rst. destruct rst; reflexivity.
Qed.

(* $adff: while ARST is high the register holds the reset value, whatever the clock does *)
Theorem adff_reset w q d init clk_edge : adff_next w q d init clk_edge true = mask w init.
Proof. reflexivity. Qed.
Theorem adff_no_reset w q d init clk_edge : adff_next w q d init clk_edge false = dff_next q d clk_edge.
Proof. reflexivity. Qed.

(* F7 (repaired in /repo by 574e1db): IF the sync process were run on a reset rise WITHOUT a clock edge (as the simulator
   used to), a reset-less signal of an
   async-reset domain (lowered to a plain $dff, which holds) then differs: a = Signal(4, reset_less), a <= a + 1 *)
Theorem async_reset_rise_refuted : exists tab ss r st i,
  sd_reset_less (tab i) = true /\
  s_next (sync_process tab ss (Some r) st) i <> dff_next (s_curr st i) (s_next (sync_process tab ss (Some r) st) i) false.
Proof.
  exists (fun _ => Build_sigdesc (Sh 4 false) 0 true),
         [SAssign (ESig 0 (Sh 4 false)) (EOp2 OAdd (ESig 0 (Sh 4 false)) (EConst 1 (Sh 1 false)))],
         1%nat,
         (Build_slots (fun j => match j with O => 3 | _ => 1 end) (fun j => match j with O => 3 | _ => 1 end)),
         0%nat.
  split; [reflexivity|]. vm_compute. discriminate.
Qed.


(* ====================================================================== *)
(* processes: nested switch/case = the flat conditional assignment list     *)
(* ====================================================================== *)
Section atree_ind'.
  Variable P : atree -> Prop.
  Hypothesis HA : forall s vw v, P (TAssign s vw v).
  Hypothesis HS : forall selw sel cs, Forall (fun c => Forall P (snd c)) cs -> P (TSwitch selw sel cs).
  Fixpoint atree_ind' (t : atree) : P t :=
    match t with
    | TAssign s vw v => HA s vw v
    | TSwitch selw sel cs =>
        HS selw sel cs
          ((fix go (cs : list (list pattern * list atree)) : Forall (fun c => Forall P (snd c)) cs :=
              match cs with
              | [] => Forall_nil _
              | c :: cs' =>
                  Forall_cons c
                    ((fix go2 (ts : list atree) : Forall P ts :=
                        match ts with
                        | [] => Forall_nil _
                        | t' :: ts' => Forall_cons t' (atree_ind' t') (go2 ts')
                        end) (snd c))
                    (go cs')
              end) cs)
    end.
End atree_ind'.

Definition case_hit (sel : Z) (ps : list pattern) : bool :=
  match ps with [] => true | p0 :: l => existsb (fun p => pat_sem p sel) (p0 :: l) end.

Fixpoint run_trees (w : Z) (ts : list atree) (acc : Z) : Z :=
  match ts with [] => acc | t :: ts' => run_trees w ts' (exec_atree w t acc) end.
Fixpoint go_cases (w sel : Z) (cs : list (list pattern * list atree)) (acc : Z) : Z :=
  match cs with
  | [] => acc
  | c :: cs' => if case_hit sel (fst c) then run_trees w (snd c) acc else go_cases w sel cs' acc
  end.
Fixpoint flat_trees (en : bool) (ts : list atree) : list (bool * Z * Z * Z) :=
  match ts with [] => [] | t :: ts' => flat_atree en t ++ flat_trees en ts' end.
Fixpoint flat_cases (en : bool) (sel : Z) (cs : list (list pattern * list atree)) (still : bool) : list (bool * Z * Z * Z) :=
  match cs with
  | [] => []
  | c :: cs' => flat_trees (en && still && case_hit sel (fst c)) (snd c)
                ++ flat_cases en sel cs' (still && negb (case_hit sel (fst c)))
  end.

Lemma run_fix w ts : forall acc,
  (fix run (ts : list atree) (acc : Z) : Z :=
     match ts with [] => acc | t' :: ts' => run ts' (exec_atree w t' acc) end) ts acc = run_trees w ts acc.
Proof. induction ts as [|t ts IH]; intros acc; simpl; auto. Qed.

Lemma exec_switch w selw sel cs acc : exec_atree w (TSwitch selw sel cs) acc = go_cases w sel cs acc.
Proof.
  induction cs as [|c cs IH]; [reflexivity|].
  cbn [go_cases]. rewrite <- IH, <- run_fix. reflexivity.
Qed.

Lemma flat_run_fix en ts :
  (fix run (ts : list atree) : list (bool * Z * Z * Z) :=
     match ts with [] => [] | t' :: ts' => flat_atree en t' ++ run ts' end) ts = flat_trees en ts.
Proof. induction ts as [|t ts IH]; simpl; auto. rewrite IH. reflexivity. Qed.

Lemma flat_switch_gen en sel cs : forall still,
  (fix go (cs : list (list pattern * list atree)) (still : bool) : list (bool * Z * Z * Z) :=
     match cs with
     | [] => []
     | c :: cs' =>
         let m := match fst c with [] => true | ps => existsb (fun p => pat_sem p sel) ps end in
         let sub := en && still && m in
         (fix run (ts : list atree) : list (bool * Z * Z * Z) :=
            match ts with [] => [] | t' :: ts' => flat_atree sub t' ++ run ts' end) (snd c)
         ++ go cs' (still && negb m)
     end) cs still = flat_cases en sel cs still.
Proof.
  induction cs as [|c cs IH]; intros still; [reflexivity|].
  cbn [flat_cases]. rewrite <- IH. cbv zeta. rewrite flat_run_fix. reflexivity.
Qed.

Lemma flat_switch en selw sel cs : flat_atree en (TSwitch selw sel cs) = flat_cases en sel cs true.
Proof. simpl. apply flat_switch_gen. Qed.

Lemma exec_flat_app w l1 l2 acc : exec_flat w (l1 ++ l2) acc = exec_flat w l2 (exec_flat w l1 acc).
Proof. unfold exec_flat. apply fold_left_app. Qed.

Lemma flat_atree_sem w t : forall en acc, exec_flat w (flat_atree en t) acc = if en then exec_atree w t acc else acc.
Proof.
  induction t as [s vw v|selw sel cs IH] using atree_ind'; intros en acc.
  - simpl. destruct en; reflexivity.
  - rewrite flat_switch, exec_switch.
    assert (Htrees : forall ts, Forall (fun t => forall en acc, exec_flat w (flat_atree en t) acc = if en then exec_atree w t acc else acc) ts ->
               forall en acc, exec_flat w (flat_trees en ts) acc = if en then run_trees w ts acc else acc).
    { induction ts as [|t ts IHts]; intros Hf en' acc'; [destruct en'; reflexivity|].
      inversion Hf as [|? ? Ht Hts]; subst. cbn [flat_trees run_trees]. rewrite exec_flat_app, Ht, IHts by auto.
      destruct en'; reflexivity. }
    assert (Hgen : forall still acc, exec_flat w (flat_cases en sel cs still) acc
                                    = if en && still then go_cases w sel cs acc else acc).
    { induction cs as [|c cs IHcs]; intros still acc'.
      - simpl. destruct (en && still); reflexivity.
      - inversion IH as [|? ? Hc Hcs]; subst. cbn [flat_cases go_cases].
        rewrite exec_flat_app, (Htrees _ Hc), (IHcs Hcs).
        destruct en, still, (case_hit sel (fst c)); reflexivity. }
    rewrite Hgen. rewrite andb_true_r. reflexivity.
Qed.

Lemma exec_atrees_run w ts : forall acc, exec_atrees w ts acc = run_trees w ts acc.
Proof. unfold exec_atrees. induction ts as [|t ts IH]; intros acc; simpl; auto. Qed.

Lemma flat_atrees_trees en ts : flat_atrees en ts = flat_trees en ts.
Proof. unfold flat_atrees. induction ts as [|t ts IH]; simpl; auto. rewrite IH. reflexivity. Qed.

(* the RTLIL process (nested switch/case, first matching case, later statements override earlier ones) computes
   what the NIR assignment list says: default, then every assignment in order, each iff its Match conditions hold *)
Theorem process_equiv w ts acc : exec_atrees w ts acc = exec_flat w (flat_atrees true ts) acc.
Proof.
  rewrite exec_atrees_run, flat_atrees_trees. revert acc.
  induction ts as [|t ts IH]; intros acc; [reflexivity|].
  cbn [run_trees flat_trees]. rewrite exec_flat_app, flat_atree_sem. apply IH.
Qed.

(* ---- last active assignment wins, per bit ---- *)
Lemma testbit_ones w i : 0 <= w -> 0 <= i -> Z.testbit (ones w) i = (i <? w).
Proof. intros. rewrite ones_eq. apply Z.testbit_ones_nonneg; auto. Qed.

Lemma put_bit w old s vw v i : 0 <= w -> 0 <= s -> 0 <= vw -> 0 <= i ->
  Z.testbit (put w old s vw v) i =
  if (s <=? i) && (i <? s + vw) && (i <? w) then Z.testbit v (i - s) else Z.testbit old i.
Proof.
  intros Hw Hs Hvw Hi. unfold put.
  rewrite Z.lor_spec, !Z.land_spec, Z.lnot_spec, !Z.land_spec by auto.
  rewrite !Z.shiftl_spec by auto. rewrite (testbit_ones w i) by auto.
  destruct (s <=? i) eqn:E1.
  - rewrite (testbit_ones vw (i - s)) by lia. rewrite testbit_mask by auto.
    replace (i - s <? vw) with (i <? s + vw) by lia.
    destruct (i <? s + vw), (i <? w), (Z.testbit old i), (Z.testbit v (i - s)); reflexivity.
  - rewrite !(Z.testbit_neg_r _ (i - s)) by lia. cbn [andb negb]. rewrite andb_true_r, orb_false_r. reflexivity.
Qed.

(* the bit, searching the assignments from the last one backwards *)
Fixpoint bit_of (w i : Z) (rl : list (bool * Z * Z * Z)) (acc : Z) : bool :=
  match rl with
  | [] => Z.testbit acc i
  | (c, s, vw, v) :: r =>
      if c && (s <=? i) && (i <? s + vw) && (i <? w) then Z.testbit v (i - s) else bit_of w i r acc
  end.

Definition flat_ok (l : list (bool * Z * Z * Z)) : Prop :=
  Forall (fun a : bool * Z * Z * Z => let '(_, s, vw, _) := a in 0 <= s /\ 0 <= vw) l.

Theorem last_assignment_wins w l acc i : 0 <= w -> 0 <= i -> flat_ok l ->
  Z.testbit (exec_flat w l acc) i = bit_of w i (rev l) acc.
Proof.
  intros Hw Hi. induction l as [|a l IH] using rev_ind; intros Hok; [reflexivity|].
  rewrite exec_flat_app, rev_app_distr. apply Forall_app in Hok. destruct Hok as [Hl Ha].
  inversion Ha as [|? ? Ha1 _]; subst. destruct a as [[[c s] vw] v]. destruct Ha1 as [Hs Hvw].
  cbn [rev app bit_of exec_flat fold_left]. destruct c; cbn [andb].
  - rewrite put_bit by auto. rewrite (IH Hl). reflexivity.
  - apply IH; auto.
Qed.


(* ====================================================================== *)
(* rtlil.emit_assignment_list: the reconstructed nested switches compute the AssignmentList *)
(* ====================================================================== *)
Lemma cnd_eqb_eq a b : cnd_eqb a b = true -> a = b.
Proof.
  destruct a as [|k i], b as [|k' i']; simpl; intros H; try discriminate; auto.
  apply andb_true_iff in H. destruct H as [H1 H2]. apply Nat.eqb_eq in H1, H2. subst. reflexivity.
Qed.

Lemma cnd_eqb_refl a : cnd_eqb a a = true.
Proof. destruct a; simpl; auto. rewrite !Nat.eqb_refl. reflexivity. Qed.

(* Match cells are created after the cell that enables them *)
Definition wf_tab (tab : mtab) : Prop :=
  forall k mc, nth_error tab k = Some mc ->
  match mc_en mc with CTrue => True | CM k' _ => (k' < k)%nat end.

Definition cdepth (c : cnd) : nat := match c with CTrue => 0%nat | CM k _ => S k end.

Lemma cnd_val_fuel rho tab : wf_tab tab -> forall f1 f2 c, (cdepth c <= f1)%nat -> (cdepth c <= f2)%nat ->
  cnd_val f1 rho tab c = cnd_val f2 rho tab c.
Proof.
  intros Hwf. induction f1 as [|f1 IH]; intros f2 c H1 H2.
  - destruct c; simpl in *; [destruct f2; reflexivity|lia].
  - destruct c as [|k b]; [destruct f2; reflexivity|].
    destruct f2 as [|f2]; [simpl in H2; lia|]. simpl.
    destruct (nth_error tab k) as [mc|] eqn:E; [|reflexivity].
    f_equal. apply IH; pose proof (Hwf k mc E) as Hk; destruct (mc_en mc); simpl in *; lia.
Qed.

Lemma cnd_val_S f rho tab k b :
  cnd_val (S f) rho tab (CM k b) =
  match nth_error tab k with
  | None => false
  | Some mc => cnd_val f rho tab (mc_en mc) && first_match (nval rho (mc_sel mc)) (mc_pats mc) b
  end.
Proof. reflexivity. Qed.

(* a Match output: enabled, its pattern set matches, no earlier one does *)
Lemma cval_unfold rho tab k mc b : wf_tab tab -> nth_error tab k = Some mc ->
  cval rho tab (CM k b) = cval rho tab (mc_en mc) && first_match (nval rho (mc_sel mc)) (mc_pats mc) b.
Proof.
  intros Hwf E. unfold cval. rewrite cnd_val_S, E. f_equal.
  assert (k < length tab)%nat by (apply nth_error_Some; congruence).
  apply cnd_val_fuel; auto; pose proof (Hwf k mc E) as Hk; destruct (mc_en mc); simpl in *; lia.
Qed.

Lemma climb_found tab cond : forall fuel c last k, climb fuel tab cond c last = Found k ->
  (cnd_eqb c cond = true /\ last = Some k) \/
  (exists mc, nth_error tab k = Some mc /\ mc_en mc = cond).
Proof.
  induction fuel as [|f IH]; intros c last k H; [discriminate|]. cbn [climb] in H.
  destruct (cnd_eqb c cond) eqn:E.
  - destruct last; [|discriminate]. injection H as <-. left. auto.
  - destruct c as [|k0 b0]; [discriminate|]. destruct (nth_error tab k0) as [mc0|] eqn:E0; [|discriminate].
    destruct (IH _ _ _ H) as [[H1 H2]|H1]; [|right; exact H1].
    injection H2 as <-. right. exists mc0. split; auto. apply cnd_eqb_eq; auto.
Qed.

Lemma pat_all_none_sem p t : forallb (fun b : option bool => match b with None => true | Some _ => false end) p = true ->
  pat_sem p t = true.
Proof.
  induction p as [|b r IH]; [reflexivity|]. simpl. destruct b; [discriminate|]. intros H. apply IH; auto.
Qed.

Lemma is_default_match n pl sel : is_default n pl = true -> pl_match sel pl = true.
Proof.
  destruct pl as [|p [|q r]]; simpl; try discriminate. intros H. apply andb_true_iff in H. destruct H as [_ H].
  unfold pl_match. simpl. rewrite (pat_all_none_sem p sel H). reflexivity.
Qed.

Lemma ptree_atree_PS rho sel cs :
  ptree_atree rho (PS sel cs) =
  TSwitch (nlen sel) (nval rho sel) (map (fun c => (fst c, map (ptree_atree rho) (snd c))) cs).
Proof.
  reflexivity.
Qed.

Lemma nir_run_app cv rho w l1 l2 acc : nir_run cv rho w (l1 ++ l2) acc = nir_run cv rho w l2 (nir_run cv rho w l1 acc).
Proof. unfold nir_run. apply fold_left_app. Qed.

Lemma nir_run_cons cv rho w a l acc : nir_run cv rho w (a :: l) acc = nir_run cv rho w l (nir_step cv rho w acc a).
Proof. reflexivity. Qed.

Section AssignmentListSound.
  Variables (rho : valuation) (tab : mtab) (w : Z) (cv : cnd -> bool).
  Hypothesis cv_true : cv CTrue = true.
  Hypothesis cv_match : forall k mc b, nth_error tab k = Some mc ->
    cv (CM k b) = cv (mc_en mc) && first_match (nval rho (mc_sel mc)) (mc_pats mc) b.

  Let X (ts : list ptree) (acc : Z) : Z := run_trees w (map (ptree_atree rho) ts) acc.
  Let G (sel : Z) (cs : list (list pattern * list ptree)) (acc : Z) : Z :=
    go_cases w sel (map (fun c => (fst c, map (ptree_atree rho) (snd c))) cs) acc.
  Let N := nir_run cv rho w.

  (* what one invocation consumed, and what it means *)
  Definition as_ok (cond : cnd) (l : list nassign) (ts : list ptree) (rest : list nassign) : Prop :=
    exists used, l = used ++ rest /\
      (cv cond = true -> forall acc, X ts acc = N used acc) /\
      (cv cond = false -> forall acc, N used acc = acc).
  Definition cases_ok (sel : Z) (g : bool) (l : list nassign) (cs : list (list pattern * list ptree))
                      (rest : list nassign) : Prop :=
    exists used, l = used ++ rest /\
      (g = true -> forall acc, G sel cs acc = N used acc) /\
      (g = false -> forall acc, N used acc = acc).

  Lemma emit_sound : forall fuel,
    (forall cond l ts rest, emit_as fuel tab cond l = (ts, rest) -> as_ok cond l ts rest) /\
    (forall k mc pats bit l cs rest g, nth_error tab k = Some mc ->
       (forall j, cv (CM k (bit + j)) = g && first_match (nval rho (mc_sel mc)) pats j) ->
       emit_cases fuel tab k (length (mc_sel mc)) pats bit l = (cs, rest) ->
       cases_ok (nval rho (mc_sel mc)) g l cs rest).
  Proof.
    induction fuel as [|f [IHA IHB]].
    - split.
      + intros cond l ts rest H. injection H as <- <-. exists []. repeat split; auto.
      + intros k mc pats bit l cs rest g _ _ H. injection H as <- <-. exists []. repeat split; auto.
    - split.
      + (* emit_assignments *)
        intros cond l ts rest H. cbn [emit_as] in H. destruct l as [|a r].
        { injection H as <- <-. exists []. repeat split; auto. }
        destruct (cnd_eqb (na_cond a) cond) eqn:Ec.
        * destruct (emit_as f tab cond r) as [ts' rest'] eqn:E. injection H as <- <-.
          destruct (IHA _ _ _ _ E) as [used [Hl [Ht Hf]]]. apply cnd_eqb_eq in Ec.
          exists (a :: used). split; [rewrite Hl; reflexivity|]. split.
          -- intros Hc acc. unfold X. cbn [map run_trees ptree_atree exec_atree]. fold (X ts' (put w acc (na_start a) (nlen (na_val a)) (nval rho (na_val a)))).
             rewrite (Ht Hc). unfold N. rewrite nir_run_cons. unfold nir_step. rewrite Ec, Hc. reflexivity.
          -- intros Hc acc. unfold N. rewrite nir_run_cons. unfold nir_step. rewrite Ec, Hc. apply (Hf Hc).
        * destruct (climb (S (S (length tab))) tab cond (na_cond a) None) as [k| |] eqn:Ek;
            try (injection H as <- <-; exists []; repeat split; auto).
          destruct (climb_found _ _ _ _ _ _ Ek) as [[_ Hn]|[mc [Em Hen]]]; [discriminate|].
          rewrite Em in H.
          destruct (emit_cases f tab k (length (mc_sel mc)) (mc_pats mc) 0 (a :: r)) as [cases rest1] eqn:E1.
          destruct (emit_as f tab cond rest1) as [ts' rest'] eqn:E2. injection H as <- <-.
          assert (Hg : forall j, cv (CM k (0 + j)) = cv cond && first_match (nval rho (mc_sel mc)) (mc_pats mc) j).
          { intros j. cbn [Nat.add]. rewrite (cv_match k mc j Em), Hen. reflexivity. }
          destruct (IHB _ _ _ _ _ _ _ _ Em Hg E1) as [used1 [Hl1 [Ht1 Hf1]]].
          destruct (IHA _ _ _ _ E2) as [used2 [Hl2 [Ht2 Hf2]]].
          exists (used1 ++ used2). split; [rewrite Hl1, Hl2, app_assoc; reflexivity|]. split.
          -- intros Hc acc. unfold X. cbn [map run_trees]. rewrite ptree_atree_PS, exec_switch.
             fold (G (nval rho (mc_sel mc)) cases acc). fold (X ts' (G (nval rho (mc_sel mc)) cases acc)).
             rewrite (Ht1 Hc), (Ht2 Hc). unfold N. rewrite nir_run_app. reflexivity.
          -- intros Hc acc. unfold N. rewrite nir_run_app. fold N. rewrite (Hf1 Hc), (Hf2 Hc). reflexivity.
      + (* the cases of one switch *)
        intros k mc pats bit l cs rest g Em Hg H. cbn [emit_cases] in H. destruct pats as [|pl ps].
        { injection H as <- <-. exists []. repeat split; auto. }
        destruct (emit_as f tab (CM k bit) l) as [body rest1] eqn:E1.
        destruct (emit_cases f tab k (length (mc_sel mc)) ps (S bit) rest1) as [cs' rest2] eqn:E2.
        set (sel := nval rho (mc_sel mc)) in *.
        assert (Hbit : cv (CM k bit) = g && pl_match sel pl).
        { specialize (Hg 0%nat). rewrite Nat.add_0_r in Hg. exact Hg. }
        assert (Hg' : forall j, cv (CM k (S bit + j)) = (g && negb (pl_match sel pl)) && first_match sel ps j).
        { intros j. specialize (Hg (S j)). replace (bit + S j)%nat with (S bit + j)%nat in Hg by lia.
          rewrite Hg. cbn [first_match]. rewrite andb_assoc. reflexivity. }
        destruct (IHA _ _ _ _ E1) as [used1 [Hl1 [Ht1 Hf1]]].
        destruct (IHB _ _ _ _ _ _ _ _ Em Hg' E2) as [used2 [Hl2 [Ht2 Hf2]]].
        assert (Hl : l = (used1 ++ used2) ++ rest2) by (rewrite Hl1, Hl2, app_assoc; reflexivity).
        destruct (is_default (length (mc_sel mc)) pl) eqn:Ed.
        * injection H as <- <-. pose proof (is_default_match _ _ sel Ed) as Hm. rewrite Hm in *.
          exists (used1 ++ used2). split; [exact Hl|]. split.
          -- intros Hgt acc. subst g. unfold G. cbn [map go_cases fst snd case_hit]. fold (X body acc).
             rewrite (Ht1 Hbit). unfold N. rewrite nir_run_app. fold N. rewrite (Hf2 eq_refl). reflexivity.
          -- intros Hgf acc. subst g. unfold N. rewrite nir_run_app. fold N. rewrite (Hf1 Hbit), (Hf2 eq_refl). reflexivity.
        * destruct pl as [|p0 pr].
          -- (* empty pattern list: the case is not added; it never matches *)
             injection H as <- <-. change (pl_match sel []) with false in *. rewrite andb_false_r in Hbit.
             rewrite andb_true_r in Hg'. exists (used1 ++ used2). split; [exact Hl|]. split.
             ++ intros Hgt acc. unfold N. rewrite nir_run_app. fold N. rewrite (Hf1 Hbit). apply Ht2.
                rewrite Hgt. reflexivity.
             ++ intros Hgf acc. unfold N. rewrite nir_run_app. fold N. rewrite (Hf1 Hbit). apply Hf2.
                rewrite Hgf. reflexivity.
          -- injection H as <- <-. exists (used1 ++ used2). split; [exact Hl|]. split.
             ++ intros Hgt acc. subst g. unfold G. cbn [map go_cases fst snd]. unfold case_hit.
                fold (pl_match sel (p0 :: pr)). cbn [andb] in *. destruct (pl_match sel (p0 :: pr)) eqn:Em2.
                ** fold (X body acc). rewrite (Ht1 Hbit). unfold N. rewrite nir_run_app. fold N.
                   rewrite (Hf2 eq_refl). reflexivity.
                ** fold (G sel cs' acc). rewrite (Ht2 eq_refl). unfold N. rewrite nir_run_app. fold N.
                   rewrite (Hf1 Hbit). reflexivity.
             ++ intros Hgf acc. subst g. cbn [andb] in *. unfold N. rewrite nir_run_app. fold N.
                rewrite (Hf1 Hbit), (Hf2 eq_refl). reflexivity.
  Qed.

  Theorem emit_assignment_list_sound default l proc : emit_assignment_list tab default l = Some proc ->
    forall acc, exec_ptrees rho w proc acc =
                N l (put w acc 0 (nlen default) (nval rho default)).
  Proof.
    unfold emit_assignment_list. destruct (emit_as (al_fuel tab l) tab CTrue l) as [ts rest] eqn:E.
    destruct rest; [|discriminate]. intros H acc. injection H as <-.
    destruct (proj1 (emit_sound _) _ _ _ _ E) as [used [Hl [Ht _]]]. rewrite app_nil_r in Hl. subst used.
    unfold exec_ptrees. rewrite exec_atrees_run. cbn [map run_trees ptree_atree exec_atree].
    apply (Ht cv_true).
  Qed.
End AssignmentListSound.


(* ====================================================================== *)
(* windows: _nir.Assignment (start, width) and NetlistDriver.emit_value      *)
(* ====================================================================== *)
Lemma firstn_skipn_nval rho v (k : nat) : (k <= length v)%nat ->
  nval rho v = nval rho (firstn k v) + 2 ^ Z.of_nat k * nval rho (skipn k v).
Proof.
  intros H. rewrite <- (firstn_skipn k v) at 1. rewrite nval_app. f_equal. f_equal. f_equal.
  unfold nlen. rewrite firstn_length. lia.
Qed.

Lemma nlen_firstn v (k : nat) : (k <= length v)%nat -> nlen (firstn k v) = Z.of_nat k.
Proof. intros. unfold nlen. rewrite firstn_length. lia. Qed.
Lemma nlen_skipn v (k : nat) : nlen (skipn k v) = nlen v - Z.of_nat (Nat.min k (length v)).
Proof. unfold nlen. rewrite skipn_length. lia. Qed.

Lemma nval_firstn rho v (k : nat) : (k <= length v)%nat -> nval rho (firstn k v) = mask (Z.of_nat k) (nval rho v).
Proof.
  intros H. pose proof (nval_range rho (firstn k v)) as Hr. rewrite nlen_firstn in Hr by auto.
  rewrite (firstn_skipn_nval rho v k H). unfold mask.
  rewrite Z.mul_comm, Z_mod_plus_full. symmetry. apply Z.mod_small. exact Hr.
Qed.

Lemma nval_skipn rho v (k : nat) : (k <= length v)%nat -> nval rho (skipn k v) = nval rho v / 2 ^ Z.of_nat k.
Proof.
  intros H. pose proof (nval_range rho (firstn k v)) as Hr. rewrite nlen_firstn in Hr by auto.
  rewrite (firstn_skipn_nval rho v k H). pose proof (pow2_pos (Z.of_nat k) ltac:(lia)).
  rewrite Z.mul_comm, Z.div_add by lia. rewrite Z.div_small by exact Hr. lia.
Qed.

Lemma testbit_small_high x n i : 0 <= n -> 0 <= x < 2 ^ n -> n <= i -> Z.testbit x i = false.
Proof.
  intros Hn Hx Hi. rewrite <- (mask_small n x Hx). rewrite testbit_mask by auto.
  destruct (i <? n) eqn:E; [lia|reflexivity].
Qed.

Lemma testbit_bits_at F off w i : 0 <= off -> 0 <= w -> 0 <= i ->
  Z.testbit (bits_at F off w) i = (i <? w) && Z.testbit F (i + off).
Proof.
  intros. unfold bits_at. fold (mask w (F / 2 ^ off)). rewrite testbit_mask by auto.
  rewrite testbit_div_pow2 by auto. reflexivity.
Qed.

(* ONLY THE ADDRESSED BITS CHANGE: an executed assignment (start, width) replaces exactly the bits
   start <= i < start + width that exist in the target; every other bit keeps its value *)
Theorem assignment_window w old s vw v i : 0 <= w -> 0 <= s -> 0 <= vw -> 0 <= i ->
  Z.testbit (put w old s vw v) i =
  if (s <=? i) && (i <? s + vw) && (i <? w) then Z.testbit v (i - s) else Z.testbit old i.
Proof. apply put_bit. Qed.

Theorem assignment_frame w old s vw v i : 0 <= w -> 0 <= s -> 0 <= vw -> 0 <= i ->
  (i < s \/ s + vw <= i \/ w <= i) -> Z.testbit (put w old s vw v) i = Z.testbit old i.
Proof.
  intros Hw Hs Hvw Hi Ho. rewrite put_bit by auto.
  destruct ((s <=? i) && (i <? s + vw) && (i <? w)) eqn:E; [lia|reflexivity].
Qed.

(* the clipped assignment of emit_value *)
Definition clip (cs ce : Z) (a : nassign) : Z * list net :=
  let '(start, value) :=
    if na_start a <? cs then (0, skipn (Z.to_nat (cs - na_start a)) (na_val a))
    else (na_start a - cs, na_val a) in
  (start, if ce - cs <? start + nlen value then firstn (Z.to_nat (ce - cs - start)) value else value).

Lemma clip_spec rho cs ce a : 0 <= cs <= ce -> 0 <= na_start a -> na_start a < ce -> cs < na_start a + nlen (na_val a) ->
  let s := na_start a in let vl := nlen (na_val a) in
  let s' := Z.max (s - cs) 0 in let k := Z.max (cs - s) 0 in
  let vl' := Z.min (vl - k) (ce - cs - s') in
  fst (clip cs ce a) = s' /\ nlen (snd (clip cs ce a)) = vl' /\
  nval rho (snd (clip cs ce a)) = mask vl' (nval rho (na_val a) / 2 ^ k) /\ 0 <= vl'.
Proof.
  intros Hc Hs Hlt Hgt. cbv zeta. unfold clip.
  pose proof (nlen_nonneg (na_val a)) as Hvl.
  set (s := na_start a) in *. set (vl := nlen (na_val a)) in *.
  set (s' := Z.max (s - cs) 0). set (k := Z.max (cs - s) 0). set (vl' := Z.min (vl - k) (ce - cs - s')).
  assert (Hlen : Z.of_nat (length (na_val a)) = vl) by reflexivity.
  destruct (s <? cs) eqn:E.
  - set (v1 := skipn (Z.to_nat (cs - s)) (na_val a)).
    assert (Hk : (Z.to_nat (cs - s) <= length (na_val a))%nat) by lia.
    assert (Hn1 : nlen v1 = vl - (cs - s)) by (unfold v1; rewrite nlen_skipn; lia).
    assert (Hv1 : nval rho v1 = nval rho (na_val a) / 2 ^ (cs - s)).
    { unfold v1. rewrite nval_skipn by auto. rewrite Z2Nat.id by lia. reflexivity. }
    assert (Hs' : s' = 0) by lia. assert (Hkk : k = cs - s) by lia.
    cbn [fst snd]. destruct (ce - cs <? 0 + nlen v1) eqn:E2.
    + assert (Hlen1 : Z.of_nat (length v1) = nlen v1) by reflexivity.
      assert (Hk2 : (Z.to_nat (ce - cs - 0) <= length v1)%nat) by lia.
      rewrite nlen_firstn, nval_firstn by auto. rewrite Z2Nat.id by lia. rewrite Hv1, Hkk.
      replace vl' with (ce - cs - 0) by lia. repeat split; lia.
    + rewrite Hn1, Hv1, Hkk. replace vl' with (vl - (cs - s)) by lia. repeat split; try lia.
      symmetry. apply mask_small. rewrite <- Hv1, <- Hn1. apply nval_range.
  - assert (Hs' : s' = s - cs) by lia. assert (Hkk : k = 0) by lia.
    cbn [fst snd]. fold vl. rewrite Hkk, Z.pow_0_r, Z.div_1_r.
    destruct (ce - cs <? s - cs + vl) eqn:E2.
    + assert (Hk2 : (Z.to_nat (ce - cs - (s - cs)) <= length (na_val a))%nat) by lia.
      rewrite nlen_firstn, nval_firstn by auto. rewrite Z2Nat.id by lia.
      replace vl' with (ce - cs - (s - cs)) by lia. repeat split; lia.
    + replace vl' with vl by lia. repeat split; try lia. symmetry. apply mask_small. apply nval_range.
Qed.

(* one assignment seen from the chunk [cs, ce) of a W-bit signal *)
Lemma clip_step rho cs ce W a F S (c : bool) : 0 <= cs <= ce -> ce <= W -> 0 <= na_start a ->
  na_start a < ce -> cs < na_start a + nlen (na_val a) ->
  S = bits_at F cs (ce - cs) ->
  (if c then put (ce - cs) S (fst (clip cs ce a)) (nlen (snd (clip cs ce a))) (nval rho (snd (clip cs ce a))) else S) =
  bits_at (if c then put W F (na_start a) (nlen (na_val a)) (nval rho (na_val a)) else F) cs (ce - cs).
Proof.
  intros Hc HW Hs Hlt Hgt HS. destruct c; [|exact HS].
  destruct (clip_spec rho cs ce a Hc Hs Hlt Hgt) as [H1 [H2 [H3 H4]]]. rewrite H1, H2, H3. clear H1 H2 H3.
  set (s := na_start a) in *. set (vl := nlen (na_val a)) in *. set (V := nval rho (na_val a)) in *.
  pose proof (nlen_nonneg (na_val a)) as Hvl. fold vl in Hvl.
  remember (Z.max (s - cs) 0) as s' eqn:Hs'. remember (Z.max (cs - s) 0) as k eqn:Hk.
  remember (Z.min (vl - k) (ce - cs - s')) as vl' eqn:Hvl'. remember (ce - cs) as L eqn:HL.
  apply Z.bits_inj'. intros i Hi.
  rewrite testbit_bits_at by lia. rewrite !put_bit by lia. subst S. rewrite testbit_bits_at by lia.
  destruct (i <? L) eqn:EL.
  - cbn [andb]. rewrite !andb_true_r.
    destruct ((s' <=? i) && (i <? s' + vl')) eqn:E1; destruct ((s <=? i + cs) && (i + cs <? s + vl) && (i + cs <? W)) eqn:E2; try lia.
    rewrite testbit_mask by lia. rewrite testbit_div_pow2 by lia.
    replace (i - s' <? vl') with true by lia. cbn [andb]. f_equal. lia.
  - rewrite !andb_false_r. reflexivity.
Qed.

Definition starts_ok (l : list nassign) : Prop := Forall (fun a => 0 <= na_start a) l.

Lemma emit_value_loop_correct cv rho cs ce W : 0 <= cs <= ce -> ce <= W -> cv CTrue = true ->
  forall l default kept F, starts_ok l -> nlen default = ce - cs ->
  nir_run cv rho (ce - cs) kept (nval rho default) = bits_at F cs (ce - cs) ->
  let '(d', k') := emit_value_loop cs ce l default kept in
  nir_run cv rho (ce - cs) k' (nval rho d') = bits_at (nir_run cv rho W l F) cs (ce - cs) /\ nlen d' = ce - cs.
Proof.
  intros Hc HW Hcv. induction l as [|a r IH]; intros default kept F Hst Hd HS.
  - cbn [emit_value_loop nir_run fold_left]. split; auto.
  - inversion Hst as [|? ? Ha Hr]; subst. cbn [emit_value_loop]. rewrite nir_run_cons.
    pose proof (nlen_nonneg (na_val a)) as Hvl.
    assert (Hskip : (ce <=? na_start a) = true \/ (na_start a + nlen (na_val a) <=? cs) = true ->
                    bits_at (nir_step cv rho W F a) cs (ce - cs) = bits_at F cs (ce - cs)).
    { intros Hor. unfold nir_step. destruct (cv (na_cond a)); [|reflexivity].
      apply Z.bits_inj'. intros i Hi. rewrite !testbit_bits_at by lia. destruct (i <? ce - cs) eqn:E; [|reflexivity].
      cbn [andb]. apply assignment_frame; lia. }
    destruct (ce <=? na_start a) eqn:E1.
    { apply IH; auto. rewrite Hskip by auto. exact HS. }
    destruct (na_start a + nlen (na_val a) <=? cs) eqn:E2.
    { apply IH; auto. rewrite Hskip by auto. exact HS. }
    destruct (cnd_eqb (na_cond a) CTrue && (na_start a =? cs) && (nlen (na_val a) =? ce - cs)
              && match kept with [] => true | _ :: _ => false end) eqn:E3.
    + (* folded into the default: nothing was kept before, so nothing can be overridden wrongly *)
      apply andb_true_iff in E3. destruct E3 as [E3 Ek]. apply andb_true_iff in E3. destruct E3 as [E3 El].
      apply andb_true_iff in E3. destruct E3 as [Ec Es]. apply cnd_eqb_eq in Ec.
      destruct kept; [|discriminate]. apply IH; auto; [lia|].
      cbn [nir_run fold_left]. unfold nir_step. rewrite Ec, Hcv.
      apply Z.bits_inj'. intros i Hi. rewrite testbit_bits_at by lia. rewrite put_bit by lia.
      destruct (i <? ce - cs) eqn:E.
      * replace ((na_start a <=? i + cs) && (i + cs <? na_start a + nlen (na_val a)) && (i + cs <? W)) with true by lia.
        cbn [andb]. f_equal. lia.
      * cbn [andb]. apply (testbit_small_high _ (nlen (na_val a))); [lia|apply nval_range|lia].
    + pose proof (clip_step rho cs ce W a F _ (cv (na_cond a)) Hc HW Ha ltac:(lia) ltac:(lia) HS) as Hstep.
      unfold clip in Hstep.
      destruct (na_start a <? cs) eqn:E4; cbn [fst snd] in Hstep; cbv beta iota zeta;
        (apply IH; auto; rewrite nir_run_app; cbn [nir_run fold_left]; unfold nir_step;
         cbn [na_cond na_start na_val]; exact Hstep).
Qed.

Lemma nslice_spec rho v lo hi : 0 <= lo <= hi -> hi <= nlen v ->
  nlen (nslice v lo hi) = hi - lo /\ nval rho (nslice v lo hi) = bits_at (nval rho v) lo (hi - lo).
Proof.
  intros H1 H2. unfold nslice. unfold nlen in H2.
  assert (Hk : (Z.to_nat lo <= length v)%nat) by lia.
  assert (Hk2 : (Z.to_nat (hi - lo) <= length (skipn (Z.to_nat lo) v))%nat) by (rewrite skipn_length; lia).
  split.
  - rewrite nlen_firstn by auto. lia.
  - rewrite nval_firstn by auto. rewrite nval_skipn by auto. rewrite !Z2Nat.id by lia. reflexivity.
Qed.

(* NetlistDriver.emit_value: the AssignmentList built for the chunk [cs, ce) computes exactly the bits [cs, ce) of
   "all assignments of the driver applied in order to the whole signal" — clipping of windows that overhang the chunk,
   dropping of windows outside it, and folding of an unconditional full-chunk assignment into the default (allowed
   only while nothing has been kept) all preserve the value *)
Theorem emit_value_correct cv rho cs ce sig l : 0 <= cs <= ce -> ce <= nlen sig -> cv CTrue = true -> starts_ok l ->
  let '(d, kept) := emit_value cs ce sig l in
  nir_run cv rho (ce - cs) kept (nval rho d) = bits_at (nir_run cv rho (nlen sig) l (nval rho sig)) cs (ce - cs)
  /\ nlen d = ce - cs.
Proof.
  intros Hc HW Hcv Hst. unfold emit_value. destruct (nslice_spec rho sig cs ce Hc HW) as [Hn Hv].
  apply (emit_value_loop_correct cv rho cs ce (nlen sig) Hc HW Hcv l _ [] (nval rho sig) Hst Hn).
  cbn [nir_run fold_left]. exact Hv.
Qed.

(* the whole path for one driver chunk: emit_value, then emit_assignment_list: the RTLIL process computes the
   chunk's bits of "last active assignment wins" on the whole signal *)
Theorem chunk_process_correct rho tab cs ce sig l d kept proc : wf_tab tab ->
  0 <= cs <= ce -> ce <= nlen sig -> starts_ok l ->
  emit_value cs ce sig l = (d, kept) -> emit_assignment_list tab d kept = Some proc ->
  exec_ptrees rho (ce - cs) proc 0 =
  bits_at (nir_run (cval rho tab) rho (nlen sig) l (nval rho sig)) cs (ce - cs).
Proof.
  intros Hwf Hc HW Hst Ev Ea.
  pose proof (emit_value_correct (cval rho tab) rho cs ce sig l Hc HW eq_refl Hst) as H. rewrite Ev in H.
  destruct H as [H Hn]. rewrite <- H.
  rewrite (emit_assignment_list_sound rho tab (ce - cs) (cval rho tab) eq_refl
             (fun k mc b E => cval_unfold rho tab k mc b Hwf E) d kept proc Ea).
  f_equal. rewrite Hn. pose proof (pow2_pos (ce - cs) ltac:(lia)) as Hp.
  rewrite put_full by lia. apply mask_small. rewrite <- Hn. apply nval_range.
Qed.

(* ====================================================================== *)
(* descriptors used by the structural tie are the data the theorems are about *)
(* ====================================================================== *)
(* lower_op2 is emit_binary on exactly the NIR operator and operands ir_op2 describes (then the result slice) *)
Lemma lower_op2_via_ir rho o a sa b sb : exists fin : Z -> Z * Z * bool,
  lower_op2 rho o a sa b sb =
  let '(n, a', b') := ir_op2 o a sa b sb in option_map fin (emit_binary rho n a' b').
Proof.
  destruct o; unfold lower_op2, ir_op2, unify_bitwise, option_map; cbv beta iota zeta;
    try (eexists; reflexivity).
  all: try (destruct (nlen (extend a sa (width (unify2 (Sh (nlen a) sa) (Sh (nlen b) sb)))) <? nlen a + (if sb then 1 else 0));
            eexists; reflexivity).
  all: destruct sa; eexists; reflexivity.
Qed.

(* the cell emit_binary evaluates is the one cell_desc2 describes *)
Lemma emit_binary_desc rho o a b :
  let '(k, _, _) := bin_table o in
  let '(asg, bsg, oa, ob) := choose_operands o a b in
  cell_desc2 o a b = [ckind_code k; b2z asg; b2z bsg; nlen oa; nlen ob; nop2_width o a; b2z (is_divmod o)] /\
  emit_binary rho o a b =
  (if is_divmod o
   then if mask 1 (cell_reduce_bool (nlen ob) 1 (nval rho ob)) =? 0 then Some (mask (nop2_width o a) 0)
        else cell2 k asg bsg (nlen oa) (nlen ob) (nop2_width o a) (nval rho oa) (nval rho ob)
   else cell2 k asg bsg (nlen oa) (nlen ob) (nop2_width o a) (nval rho oa) (nval rho ob)).
Proof.
  unfold cell_desc2, emit_binary. destruct (bin_table o) as [[k x] y]. destruct (choose_operands o a b) as [[[asg bsg] oa] ob].
  split; reflexivity.
Qed.

(* ====================================================================== *)
(* _ir.emit_rhs for Slice and Concat: pure net selection                    *)
(* ====================================================================== *)
Lemma bits_at_sval rho sg v lo w : 0 <= lo -> 0 <= w -> lo + w <= nlen v ->
  bits_at (sval rho sg v) lo w = bits_at (nval rho v) lo w.
Proof.
  intros Hlo Hw Hle. apply Z.bits_inj'. intros i Hi. rewrite !testbit_bits_at by auto.
  destruct (i <? w) eqn:E; [|reflexivity]. cbn [andb].
  pose proof (nlen_nonneg v) as Hn. rewrite <- (mask_sval rho sg v).
  rewrite testbit_mask by auto. replace (i + lo <? nlen v) with true by lia. reflexivity.
Qed.

(* Slice: result = inner[start:stop]; its value is bits [lo, hi) of the operand's integer value *)
Theorem slice_rhs_correct rho sg v lo hi : 0 <= lo <= hi -> hi <= nlen v ->
  nlen (nslice v lo hi) = hi - lo /\ nval rho (nslice v lo hi) = bits_at (sval rho sg v) lo (hi - lo).
Proof.
  intros H1 H2. destruct (nslice_spec rho v lo hi H1 H2) as [Hn Hv]. split; [exact Hn|].
  rewrite Hv. symmetry. apply bits_at_sval; lia.
Qed.

(* Concat: the nets of the parts one after the other, least significant part first *)
Theorem cat_rhs_correct rho (parts : list (list net * bool)) :
  nval rho (flat_map fst parts) = cat_of (map (fun p => (sval rho (snd p) (fst p), nlen (fst p))) parts) /\
  nlen (flat_map fst parts) = fold_right (fun p acc => nlen (fst p) + acc) 0 parts.
Proof.
  induction parts as [|[v sg] r [IHv IHn]]; [split; reflexivity|].
  cbn [flat_map map fst snd cat_of fold_right]. rewrite nval_app, nlen_app, IHv, IHn. split; [|reflexivity].
  f_equal. fold (mask (nlen v) (sval rho sg v)). rewrite mask_sval. reflexivity.
Qed.


(* ====================================================================== *)
(* rtlil.emit_assignment_list terminates with its assertion: completeness   *)
(* ====================================================================== *)
(* the chain of enables from c reaches cond (c is a condition nested, possibly not at all, under cond); every Match
   output on the way exists *)
Inductive under (tab : mtab) (cond : cnd) : cnd -> Prop :=
| under_refl : under tab cond cond
| under_step k b mc : nth_error tab k = Some mc -> (b < length (mc_pats mc))%nat ->
                      under tab cond (mc_en mc) -> under tab cond (CM k b).

(* conditions as the netlist builder produces them: a chain of existing Match outputs ending in const 1 *)
Definition conds_ok (tab : mtab) (l : list nassign) : Prop := Forall (fun a => under tab CTrue (na_cond a)) l.

Lemma cnd_eqb_neq a b : cnd_eqb a b = false -> a <> b.
Proof. intros H ->. rewrite cnd_eqb_refl in H. discriminate. Qed.

Lemma under_trans tab x y z : under tab x y -> under tab y z -> under tab x z.
Proof. intros Hxy Hyz. induction Hyz; auto. eapply under_step; eauto. Qed.

Lemma climb_spec tab cond : forall fuel c last, under tab CTrue c -> (cdepth c < fuel)%nat -> wf_tab tab ->
  match climb fuel tab cond c last with
  | Found k => (c = cond /\ last = Some k) \/
               (exists mc j, nth_error tab k = Some mc /\ mc_en mc = cond /\ (j < length (mc_pats mc))%nat /\
                             under tab (CM k j) c)
  | NotNested => ~ under tab cond c
  | Stuck => c = cond /\ last = None
  end.
Proof.
  induction fuel as [|f IH]; intros c last Hv Hd Hwf; [lia|]. cbn [climb].
  destruct (cnd_eqb c cond) eqn:E.
  - apply cnd_eqb_eq in E. destruct last; auto.
  - apply cnd_eqb_neq in E. destruct c as [|k0 b0].
    + intros H. inversion H; subst; congruence.
    + inversion Hv as [|? ? mc0 Hn Hb Hen]; subst. rewrite Hn.
      assert (Hd' : (cdepth (mc_en mc0) < f)%nat).
      { pose proof (Hwf k0 mc0 Hn) as Hk. destruct (mc_en mc0); simpl in *; lia. }
      specialize (IH (mc_en mc0) (Some k0) Hen Hd' Hwf).
      destruct (climb f tab cond (mc_en mc0) (Some k0)) as [k| |].
      * destruct IH as [[H1 H2]|[mc [j [H1 [H2 [H3 H4]]]]]].
        -- injection H2 as <-. right. exists mc0, b0. repeat split; auto. apply under_refl.
        -- right. exists mc, j. repeat split; auto. eapply under_step; eauto.
      * intros H. inversion H as [|? ? mc1 Hn1 Hb1 Hen1]; subst; [congruence|].
        rewrite Hn in Hn1. injection Hn1 as <-. auto.
      * destruct IH as [_ H]. discriminate.
Qed.

Definition suffix (rest l : list nassign) : Prop := exists used, l = used ++ rest.
Lemma suffix_refl l : suffix l l. Proof. exists []. reflexivity. Qed.
Lemma suffix_trans a b c : suffix a b -> suffix b c -> suffix a c.
Proof. intros [u1 ->] [u2 ->]. exists (u2 ++ u1). rewrite app_assoc. reflexivity. Qed.
Lemma suffix_cons a r l : suffix r l -> suffix r (a :: l).
Proof. intros [u ->]. exists (a :: u). reflexivity. Qed.
Lemma suffix_len rest l : suffix rest l -> (length rest <= length l)%nat.
Proof. intros [u ->]. rewrite app_length. lia. Qed.
Lemma suffix_strict rest l : suffix rest l -> rest <> l -> (length rest < length l)%nat.
Proof.
  intros [u ->] Hne. rewrite app_length. destruct u; [contradiction|]. simpl. lia.
Qed.
Lemma suffix_same_len rest l : suffix rest l -> length rest = length l -> rest = l.
Proof. intros [u ->] H. rewrite app_length in H. destruct u; [reflexivity|simpl in H; lia]. Qed.
Lemma suffix_conds tab rest l : suffix rest l -> conds_ok tab l -> conds_ok tab rest.
Proof. intros [u ->] H. apply Forall_app in H. tauto. Qed.

Definition head_not_under (tab : mtab) (cond : cnd) (rest : list nassign) : Prop :=
  match rest with [] => True | a :: _ => ~ under tab cond (na_cond a) end.

Lemma max_pats_ge tab k mc : nth_error tab k = Some mc -> (length (mc_pats mc) <= max_pats tab)%nat.
Proof.
  revert k. induction tab as [|m tab IH]; intros k H; [destruct k; discriminate|].
  unfold max_pats. cbn [fold_right]. fold (max_pats tab). destruct k; simpl in H.
  - injection H as <-. lia.
  - specialize (IH k H). lia.
Qed.

Section Complete.
  Variable tab : mtab.
  Hypothesis Hwf : wf_tab tab.
  Let D := length tab.
  Let Q := (max_pats tab + 2)%nat.

  Lemma emit_complete : forall fuel,
    (forall cond l h, conds_ok tab l -> (D + 1 <= cdepth cond + h)%nat -> (cdepth cond <= D)%nat ->
       (length l + h * Q <= fuel)%nat ->
       suffix (snd (emit_as fuel tab cond l)) l /\ head_not_under tab cond (snd (emit_as fuel tab cond l))) /\
    (forall k mc pats bit l h, nth_error tab k = Some mc -> pats = skipn bit (mc_pats mc) -> conds_ok tab l ->
       (D + 1 <= S k + h)%nat -> (length pats + 1 + length l + h * Q <= fuel)%nat ->
       suffix (snd (emit_cases fuel tab k (length (mc_sel mc)) pats bit l)) l /\
       (forall a r j, l = a :: r -> (bit <= j < bit + length pats)%nat -> under tab (CM k j) (na_cond a) ->
          (length (snd (emit_cases fuel tab k (length (mc_sel mc)) pats bit l)) < length l)%nat)).
  Proof.
    induction fuel as [|f [IHA IHB]].
    - split.
      + intros cond l h Hok Hh Hd Hf. exfalso. destruct h as [|h]; [lia|]. unfold Q in Hf. simpl in Hf. lia.
      + intros k mc pats bit l h Hn Hp Hok Hh Hf. exfalso. lia.
    - split.
      + intros cond l h Hok Hh Hd Hf. cbn [emit_as]. destruct l as [|a r].
        { split; [apply suffix_refl|exact I]. }
        inversion Hok as [|? ? Ha Hr]; subst.
        destruct (cnd_eqb (na_cond a) cond) eqn:Ec.
        * destruct (IHA cond r h Hr Hh Hd ltac:(simpl in Hf; lia)) as [H1 H2].
          destruct (emit_as f tab cond r) as [ts' rest']. cbn [snd] in *. split; [apply suffix_cons; auto|auto].
        * pose proof (climb_spec tab cond (S (S (length tab))) (na_cond a) None Ha) as Hc.
          assert (Hda : (cdepth (na_cond a) < S (S (length tab)))%nat).
          { destruct (na_cond a) as [|k0 b0]; simpl; [lia|]. inversion Ha; subst.
            assert (k0 < length tab)%nat by (apply nth_error_Some; congruence). lia. }
          specialize (Hc Hda Hwf).
          destruct (climb (S (S (length tab))) tab cond (na_cond a) None) as [k| |].
          -- destruct Hc as [[_ Hc]|[mc [j [Hn [Hen [Hj Hu]]]]]]; [discriminate|]. rewrite Hn.
             assert (Hk : (k < D)%nat) by (apply nth_error_Some; unfold D; congruence).
             assert (Hdk : (cdepth cond <= k)%nat).
             { pose proof (Hwf k mc Hn) as Hw. rewrite Hen in Hw. destruct cond; simpl in *; lia. }
             destruct h as [|h]; [lia|].
             pose proof (max_pats_ge tab k mc Hn) as Hmp.
             assert (HfB : (length (mc_pats mc) + 1 + length (a :: r) + h * Q <= f)%nat).
             { unfold Q in *. simpl in Hf. simpl. lia. }
             destruct (IHB k mc (mc_pats mc) 0%nat (a :: r) h Hn eq_refl Hok ltac:(lia) HfB) as [H1 H2].
             specialize (H2 a r j eq_refl ltac:(lia) Hu).
             destruct (emit_cases f tab k (length (mc_sel mc)) (mc_pats mc) 0 (a :: r)) as [cases rest1]. cbn [snd] in *.
             assert (Hok1 : conds_ok tab rest1) by (eapply suffix_conds; eauto).
             destruct (IHA cond rest1 (S h) Hok1 Hh Hd ltac:(simpl in *; lia)) as [H3 H4].
             destruct (emit_as f tab cond rest1) as [ts' rest']. cbn [snd] in *.
             split; [eapply suffix_trans; eauto|auto].
          -- cbn [snd]. split; [apply suffix_refl|exact Hc].
          -- destruct Hc as [Hc _]. apply cnd_eqb_neq in Ec. contradiction.
      + intros k mc pats bit l h Hn Hp Hok Hh Hf. cbn [emit_cases]. destruct pats as [|pl ps].
        { cbn [snd]. split; [apply suffix_refl|]. intros a r j _ Hj. simpl in Hj. lia. }
        assert (Hk : (k < D)%nat) by (apply nth_error_Some; unfold D; congruence).
        assert (Hps : ps = skipn (S bit) (mc_pats mc)).
        { clear - Hp. revert Hp. generalize (mc_pats mc). induction bit as [|b IH]; intros m Hp.
          - destruct m; simpl in *; [discriminate|]. injection Hp as _ <-. reflexivity.
          - destruct m; simpl in *; [discriminate|]. apply IH. exact Hp. }
        destruct (IHA (CM k bit) l h Hok ltac:(simpl; lia) ltac:(simpl; lia) ltac:(simpl in *; lia)) as [H1 H2].
        destruct (emit_as f tab (CM k bit) l) as [body rest1]. cbn [snd] in *.
        assert (Hok1 : conds_ok tab rest1) by (eapply suffix_conds; eauto).
        pose proof (suffix_len _ _ H1) as Hl1.
        destruct (IHB k mc ps (S bit) rest1 h Hn Hps Hok1 Hh ltac:(simpl in *; lia)) as [H3 H4].
        assert (Hres : suffix (snd (emit_cases f tab k (length (mc_sel mc)) ps (S bit) rest1)) l /\
                       (forall a r j, l = a :: r -> (bit <= j < bit + length (pl :: ps))%nat ->
                          under tab (CM k j) (na_cond a) ->
                          (length (snd (emit_cases f tab k (length (mc_sel mc)) ps (S bit) rest1)) < length l)%nat)).
        { split; [eapply suffix_trans; eauto|]. intros a r j -> Hj Hu.
          pose proof (suffix_len _ _ H3) as Hl3.
          destruct (Nat.eq_dec (length rest1) (length (a :: r))) as [Heq|Hne].
          - (* nothing consumed by this bit: then j is a later bit *)
            apply (suffix_same_len _ _ H1) in Heq. subst rest1. assert (j <> bit).
            { intros ->. simpl in H2. contradiction. }
            apply (H4 a r j eq_refl); [simpl in Hj; lia|exact Hu].
          - lia. }
        destruct (emit_cases f tab k (length (mc_sel mc)) ps (S bit) rest1) as [cs' rest2]. cbn [snd] in *.
        destruct (is_default (length (mc_sel mc)) pl); [exact Hres|]. destruct pl; exact Hres.
  Qed.
End Complete.

(* every assignment list whose conditions are chains of existing Match outputs (as _ir builds them) passes the
   emitter's final assertion: the model returns a process, with the fuel it is given *)
Theorem emit_assignment_list_complete tab default l : wf_tab tab -> conds_ok tab l ->
  exists proc, emit_assignment_list tab default l = Some proc.
Proof.
  intros Hwf Hok. unfold emit_assignment_list.
  assert (Hf : (length l + (length tab + 1) * (max_pats tab + 2) <= al_fuel tab l)%nat \/ l = []).
  { destruct l as [|a r]; [right; reflexivity|left]. unfold al_fuel. simpl length. nia. }
  destruct Hf as [Hf| ->]; [|unfold al_fuel; simpl; eauto].
  destruct (proj1 (emit_complete tab Hwf (al_fuel tab l)) CTrue l (length tab + 1)%nat Hok
              ltac:(simpl; lia) ltac:(simpl; lia) Hf) as [H1 H2].
  destruct (emit_as (al_fuel tab l) tab CTrue l) as [ts rest]. cbn [snd] in *.
  destruct rest as [|a' rest']; [eauto|].
  exfalso. apply H2. pose proof (suffix_conds tab _ _ H1 Hok) as Hc. inversion Hc; auto.
Qed.


(* ====================================================================== *)
(* _ir.emit_assign                                                         *)
(* ====================================================================== *)
Lemma wa_run_app rho i w l1 l2 acc : wa_run rho i w (l1 ++ l2) acc = wa_run rho i w l2 (wa_run rho i w l1 acc).
Proof. unfold wa_run. apply fold_left_app. Qed.

(* every Assignment produced under a condition is gated by it: under a false condition nothing happens *)
Lemma emit_assign_false rho selnets i w lhs : forall start rhs cond old, aval rho cond = false ->
  wa_run rho i w (emit_assign selnets lhs start rhs cond) old = old.
Proof.
  induction lhs as [v s|j s|o a IHa|o a b0 IHa IHb|a lo hi IHa|a off pw st IHa IHoff|l IH|t cs IHt IHcs]
    using expr_ind'; intros start rhs cond old Hc; try reflexivity.
  - cbn [emit_assign wa_run fold_left]. unfold wa_step. cbn [wa_cond]. rewrite Hc, andb_false_r. reflexivity.
  - destruct o; try reflexivity; cbn [emit_assign]; apply IHa; auto.
  - cbn [emit_assign]. apply IHa; auto.
  - cbn [emit_assign].
    generalize (seq 0 (Z.to_nat (Z.min ((ewidth a + st - 1) / st) (2 ^ nlen (selnets off))))) at 2.
    intros ks. revert old. induction ks as [|k ks IHk]; intros old; [reflexivity|].
    rewrite wa_run_app. destruct (ewidth a <=? start + Z.of_nat k * st).
    + cbn [wa_run fold_left]. apply IHk.
    + rewrite IHa by (cbn [aval]; rewrite Hc; reflexivity). apply IHk.
  - cbn [emit_assign].
    match goal with |- wa_run _ _ _ (?f l 0) _ = _ =>
      assert (H : forall ps ps0 old, Forall (fun lhs => forall start rhs cond old, aval rho cond = false ->
                    wa_run rho i w (emit_assign selnets lhs start rhs cond) old = old) ps ->
                  wa_run rho i w (f ps ps0) old = old) end.
    { induction ps as [|p ps IHp]; intros ps0 old' Hf; [reflexivity|].
      inversion Hf as [|? ? Hp Hps]; subst. cbn beta iota.
      destruct (ps0 + ewidth p <=? start); [apply IHp; auto|].
      destruct (start + nlen rhs <=? ps0); [apply IHp; auto|].
      rewrite wa_run_app. rewrite Hp by auto. apply IHp; auto. }
    apply H; auto.
  - cbn [emit_assign].
    match goal with |- wa_run _ _ _ (?f cs 0%nat) _ = _ =>
      assert (H : forall cs' k old, Forall (fun c : option (list pattern) * expr => forall start rhs cond old, aval rho cond = false ->
                    wa_run rho i w (emit_assign selnets (snd c) start rhs cond) old = old) cs' ->
                  wa_run rho i w (f cs' k) old = old) end.
    { induction cs' as [|c cs' IHc]; intros k old' Hf; [reflexivity|].
      inversion Hf as [|? ? Hc1 Hcs']; subst. cbn beta iota.
      rewrite wa_run_app. destruct (ewidth (snd c) <=? start); [cbn [wa_run fold_left]; apply IHc; auto|].
      rewrite Hc1 by (cbn [aval]; rewrite Hc; reflexivity). apply IHc; auto. }
    apply H; auto.
Qed.

(* ---- what the produced Assignments do, bit by bit, against the addressing specification Stmt.wr ---- *)
(* the selector nets emit_rhs returned carry the selector's value *)
Fixpoint seln_ok (selnets : expr -> list net) (rho : valuation) (curr : env) (lhs : expr) : Prop :=
  match lhs with
  | EOp1 _ a => seln_ok selnets rho curr a
  | ESlice a _ _ => seln_ok selnets rho curr a
  | EPart a off _ _ => seln_ok selnets rho curr a /\
                       nlen (selnets off) = ewidth off /\ nval rho (selnets off) = denote curr off
  | ECat parts => (fix go (ps : list expr) : Prop :=
                     match ps with [] => True | p :: r => seln_ok selnets rho curr p /\ go r end) parts
  | ESwitch t cs => (nlen (selnets t) = ewidth t /\ nval rho (selnets t) = denote curr t mod 2 ^ ewidth t) /\
                    (fix go (cs : list (option (list pattern) * expr)) : Prop :=
                       match cs with [] => True | c :: r => seln_ok selnets rho curr (snd c) /\ go r end) cs
  | _ => True
  end.

(* targets covered by the theorem below: signals, u/s reinterpretation, slices and choices (array elements, of any
   widths) nested in any way.  Part-select and concatenation targets: see the `ea` stream *)
Fixpoint tclass (lhs : expr) : bool :=
  match lhs with
  | ESig _ _ => true
  | EOp1 _ a => tclass a
  | ESlice a _ _ => tclass a
  | ESwitch t cs => forallb (fun c => tclass (snd c)) cs
  | _ => false
  end.

Lemma seln_ok_sw selnets rho curr t cs : seln_ok selnets rho curr (ESwitch t cs) <->
  (nlen (selnets t) = ewidth t /\ nval rho (selnets t) = denote curr t mod 2 ^ ewidth t) /\
  Forall (fun c => seln_ok selnets rho curr (snd c)) cs.
Proof.
  cbn [seln_ok]. apply and_iff_compat_l. induction cs as [|c cs IH]; [split; auto|]. rewrite IH.
  split; [intros [H1 H2]; constructor; auto|intros H; inversion H; auto].
Qed.

Lemma pat_sem_dashes n t : pat_sem (dashes n) t = true.
Proof. unfold dashes. induction n as [|n IH]; simpl; auto. Qed.

Lemma testbit_nval_firstn rho v (n : nat) j : 0 <= j -> (n <= length v)%nat ->
  Z.testbit (nval rho (firstn n v)) j = (j <? Z.of_nat n) && Z.testbit (nval rho v) j.
Proof. intros Hj Hn. rewrite nval_firstn by auto. apply testbit_mask. lia. Qed.

(* to_binary(k, n) matches exactly the value k *)
Lemma pat_sem_to_binary n k t : 0 <= k -> 0 <= t ->
  pat_sem (to_binary n k) t = (t mod 2 ^ Z.of_nat n =? k mod 2 ^ Z.of_nat n).
Proof.
  intros Hk Ht. unfold to_binary. induction n as [|n IH].
  - simpl. rewrite !Z.mod_1_r. reflexivity.
  - rewrite seq_S, rev_app_distr. cbn [rev app map Nat.add pat_sem]. rewrite map_length, rev_length, seq_length.
    rewrite IH. rewrite Nat2Z.inj_succ.
    pose proof (pow2_pos (Z.of_nat n) ltac:(lia)) as Hp.
    assert (Hsplit : forall x, 0 <= x -> x mod 2 ^ Z.succ (Z.of_nat n) =
                       x mod 2 ^ Z.of_nat n + 2 ^ Z.of_nat n * Z.b2z (Z.testbit x (Z.of_nat n))).
    { intros x Hx. rewrite Z.pow_succ_r by lia. rewrite (Z.mul_comm 2). rewrite Z.rem_mul_r by lia.
      rewrite Z.testbit_spec' by lia. reflexivity. }
    rewrite (Hsplit t Ht), (Hsplit k Hk).
    pose proof (Z.mod_pos_bound t (2 ^ Z.of_nat n) Hp). pose proof (Z.mod_pos_bound k (2 ^ Z.of_nat n) Hp).
    destruct (Z.testbit t (Z.of_nat n)), (Z.testbit k (Z.of_nat n)); cbn [Bool.eqb andb Z.b2z]; lia.
Qed.

Lemma pl_match_binary n k O : 0 <= k < 2 ^ Z.of_nat n -> 0 <= O < 2 ^ Z.of_nat n ->
  pl_match O [to_binary n k] = (O =? k).
Proof.
  intros Hk HO. unfold pl_match. cbn [existsb]. rewrite orb_false_r, pat_sem_to_binary by lia.
  rewrite !Z.mod_small by lia. reflexivity.
Qed.

Lemma first_match_binary n O : 0 <= O < 2 ^ Z.of_nat n -> forall m base j, (j < m)%nat ->
  Z.of_nat (base + m) <= 2 ^ Z.of_nat n ->
  first_match O (map (fun k => [to_binary n (Z.of_nat k)]) (seq base m)) j = (O =? Z.of_nat (base + j)).
Proof.
  intros HO. induction m as [|m IH]; intros base j Hj Hb; [lia|].
  cbn [seq map first_match]. destruct j as [|j].
  - rewrite pl_match_binary by lia. f_equal. lia.
  - rewrite pl_match_binary by lia. rewrite IH by lia.
    replace (Z.of_nat (S base + j)) with (Z.of_nat (base + S j)) by lia.
    destruct (O =? Z.of_nat (base + S j)) eqn:E; [|rewrite andb_false_r; reflexivity].
    replace (O =? Z.of_nat base) with false by lia. reflexivity.
Qed.

Lemma wa_run_one rho i w a acc : wa_run rho i w [a] acc = wa_step rho i w acc a.
Proof. reflexivity. Qed.

Theorem emit_assign_bits ss curr rho selnets lhs :
  wf_lhs lhs = true -> sig_ok ss lhs -> sel_ok curr lhs -> seln_ok selnets rho curr lhs -> tclass lhs = true ->
  forall start rhs cond i b old, aval rho cond = true -> 0 <= start -> start + nlen rhs <= ewidth lhs ->
  0 <= b < width (ss i) ->
  Z.testbit (wa_run rho i (width (ss i)) (emit_assign selnets lhs start rhs cond) old) b =
  match wr curr lhs i b with
  | Some k => if in_window start (nlen rhs) k then Z.testbit (nval rho rhs) (k - start) else Z.testbit old b
  | None => Z.testbit old b
  end.
Proof.
  unfold in_window.
  induction lhs as [v s|j s|o a IHa|o a b0 IHa IHb|a lo hi IHa|a off pw st IHa IHoff|l IH|t cs IHt IHcs]
    using expr_ind'; intros Hwf Hsig Hsel Hsn Hcl start rhs cond i b old Hc Hst Hfit Hb;
    simpl in Hwf; try discriminate; simpl in Hcl; try discriminate.
  - (* Signal *)
    simpl in Hsig. subst s. cbn [emit_assign]. rewrite wa_run_one. unfold wa_step. cbn [wa_sig wa_cond wa_start wa_val wr].
    rewrite Hc, andb_true_r. pose proof (nlen_nonneg rhs) as Hr.
    destruct (Nat.eqb j i) eqn:E.
    + apply Nat.eqb_eq in E. subst j. cbn [andb].
      replace ((0 <=? b) && (b <? width (ss i))) with true by lia.
      rewrite put_bit by lia. replace (b <? width (ss i)) with true by lia. rewrite andb_true_r. reflexivity.
    + reflexivity.
  - (* u / s *)
    destruct o; try discriminate; apply andb_true_iff in Hwf; destruct Hwf as [Hwf _];
      cbn [emit_assign wr]; apply IHa; auto.
  - (* Slice *)
    apply andb_true_iff in Hwf. destruct Hwf as [Hwf H3]. apply andb_true_iff in Hwf. destruct Hwf as [Hwf H2].
    apply andb_true_iff in Hwf. destruct Hwf as [Hwf H1].
    cbn [emit_assign wr]. unfold ewidth in Hfit. cbn [shape_of width] in Hfit.
    rewrite (IHa Hwf Hsig Hsel Hsn Hcl (start + lo) rhs cond i b old Hc ltac:(lia) ltac:(lia) Hb).
    pose proof (nlen_nonneg rhs) as Hr.
    destruct (wr curr a i b) as [k|]; [|reflexivity].
    destruct ((start + lo <=? k) && (k <? start + lo + nlen rhs)) eqn:E1.
    + replace ((lo <=? k) && (k <? hi)) with true by lia.
      replace ((start <=? k - lo) && (k - lo <? start + nlen rhs)) with true by lia. f_equal. lia.
    + destruct ((lo <=? k) && (k <? hi)) eqn:E2; [|reflexivity].
      replace ((start <=? k - lo) && (k - lo <? start + nlen rhs)) with false by lia. reflexivity.
  - (* choice (SwitchValue) *)
    apply andb_true_iff in Hwf. destruct Hwf as [Hwt Hwcs].
    apply sig_ok_sw in Hsig. apply sel_ok_sw in Hsel. destruct Hsel as [Het Hsel].
    apply seln_ok_sw in Hsn. destruct Hsn as [[Hnl Hnv] Hsn].
    set (W := ewidth (ESwitch t cs)) in *. set (tv := denote curr t mod 2 ^ ewidth t) in *.
    pose proof (nlen_nonneg rhs) as Hr.
    cbn [emit_assign wr]. fold tv.
    set (f := fun c : option (list pattern) * expr =>
                match fst c with Some ps => ps | None => [dashes (length (selnets t))] end).
    assert (Hpl : forall c, pl_match tv (f c) = case_sem tv (fst c)).
    { intros c. unfold f. destruct (fst c); [reflexivity|]. unfold pl_match. cbn [existsb case_sem].
      rewrite pat_sem_dashes. reflexivity. }
    match goal with |- Z.testbit (wa_run _ _ _ (?F cs 0%nat) _) _ = match ?G cs with _ => _ end =>
      assert (Hgen : forall cs' k g old',
        Forall (fun c : option (list pattern) * expr =>
                  wf_lhs (snd c) = true /\ sig_ok ss (snd c) /\ sel_ok curr (snd c) /\ seln_ok selnets rho curr (snd c) /\
                  tclass (snd c) = true /\
                  (wf_lhs (snd c) = true -> sig_ok ss (snd c) -> sel_ok curr (snd c) -> seln_ok selnets rho curr (snd c) ->
                   tclass (snd c) = true ->
                   forall start rhs cond i b old, aval rho cond = true -> 0 <= start -> start + nlen rhs <= ewidth (snd c) ->
                   0 <= b < width (ss i) ->
                   Z.testbit (wa_run rho i (width (ss i)) (emit_assign selnets (snd c) start rhs cond) old) b =
                   match wr curr (snd c) i b with
                   | Some k => if (start <=? k) && (k <? start + nlen rhs) then Z.testbit (nval rho rhs) (k - start) else Z.testbit old b
                   | None => Z.testbit old b
                   end)) cs' ->
        (forall j, first_match tv (map f cs) (k + j) = g && first_match tv (map f cs') j) ->
        Z.testbit (wa_run rho i (width (ss i)) (F cs' k) old') b =
        if g then match G cs' with
                  | Some k0 => if (start <=? k0) && (k0 <? start + nlen rhs) then Z.testbit (nval rho rhs) (k0 - start) else Z.testbit old' b
                  | None => Z.testbit old' b
                  end
        else Z.testbit old' b) end.
    { induction cs' as [|c cs' IHc]; intros k g old' Hf Hg; [destruct g; reflexivity|].
      inversion Hf as [|? ? [Hc1 [Hc2 [Hc3 [Hc4 [Hc5 Hc7]]]]] Hf']; subst. cbn beta iota.
      rewrite wa_run_app.
      assert (Hk : first_match tv (map f cs) k = g && case_sem tv (fst c)).
      { specialize (Hg 0%nat). rewrite Nat.add_0_r in Hg. rewrite Hg. cbn [map first_match]. rewrite Hpl. reflexivity. }
      assert (Hg' : forall j, first_match tv (map f cs) (S k + j) = (g && negb (case_sem tv (fst c))) && first_match tv (map f cs') j).
      { intros j. specialize (Hg (S j)). replace (k + S j)%nat with (S k + j)%nat in Hg by lia.
        rewrite Hg. cbn [map first_match]. rewrite Hpl, andb_assoc. reflexivity. }
      rewrite (IHc (S k) _ _ Hf' Hg').
      pose proof (ewidth_nonneg (snd c) Hc1) as Hew.
      destruct g; destruct (case_sem tv (fst c)) eqn:Ecs; cbn [andb negb] in *.
      - (* the selected element *)
        destruct (ewidth (snd c) <=? start) eqn:Esk.
        + cbn [wa_run fold_left]. destruct (wr curr (snd c) i b) as [k0|] eqn:Ew; [|reflexivity].
          pose proof (wr_range curr (snd c) Hc1 Hc3 i b k0 Ew). replace ((start <=? k0) && (k0 <? start + nlen rhs)) with false by lia.
          reflexivity.
        + set (n := Z.to_nat (ewidth (snd c) - start)).
          assert (Hfl : nlen (firstn n rhs) = Z.min (nlen rhs) (ewidth (snd c) - start)).
          { unfold nlen. rewrite firstn_length. unfold n. lia. }
          rewrite (Hc7 Hc1 Hc2 Hc3 Hc4 Hc5 start (firstn n rhs) (AMatch cond (selnets t) (map f cs) k) i b old').
          * destruct (wr curr (snd c) i b) as [k0|] eqn:Ew; [|reflexivity].
            pose proof (wr_range curr (snd c) Hc1 Hc3 i b k0 Ew). rewrite Hfl.
            destruct ((start <=? k0) && (k0 <? start + nlen rhs)) eqn:Ewin.
            -- replace ((start <=? k0) && (k0 <? start + Z.min (nlen rhs) (ewidth (snd c) - start))) with true by lia.
               destruct (Nat.leb n (length rhs)) eqn:En.
               ++ apply Nat.leb_le in En. rewrite testbit_nval_firstn by (auto; lia).
                  replace (k0 - start <? Z.of_nat n) with true by (unfold n; lia). reflexivity.
               ++ apply Nat.leb_gt in En. rewrite firstn_all2 by lia. reflexivity.
            -- replace ((start <=? k0) && (k0 <? start + Z.min (nlen rhs) (ewidth (snd c) - start))) with false by lia.
               reflexivity.
          * cbn [aval]. rewrite Hc, Hnv. fold tv. rewrite Hk. reflexivity.
          * lia.
          * rewrite Hfl. lia.
          * exact Hb.
      - destruct (ewidth (snd c) <=? start); [reflexivity|].
        rewrite emit_assign_false by (cbn [aval]; rewrite Hnv; fold tv; rewrite Hk, andb_false_r; reflexivity).
        reflexivity.
      - destruct (ewidth (snd c) <=? start); [reflexivity|].
        rewrite emit_assign_false by (cbn [aval]; rewrite Hnv; fold tv; rewrite Hk, andb_false_r; reflexivity).
        reflexivity.
      - destruct (ewidth (snd c) <=? start); [reflexivity|].
        rewrite emit_assign_false by (cbn [aval]; rewrite Hnv; fold tv; rewrite Hk, andb_false_r; reflexivity).
        reflexivity. }
    rewrite (Hgen cs 0%nat true old).
    + reflexivity.
    + clear Hgen. rewrite Forall_forall in *. intros c Hin.
      assert (Hcc := Hcl). rewrite forallb_forall in Hcc. specialize (Hcc c Hin).
      rewrite forallb_forall in Hwcs. specialize (Hwcs c Hin). apply andb_true_iff in Hwcs.
      repeat split; try tauto; auto; try lia.
    + intros j. reflexivity.
Qed.

(* ... which is what the statement-level semantics (Stmt.assign_rtl, the simulator's compiled assignment) does *)
Theorem emit_assign_equals_assign_rtl ss curr rho selnets lhs :
  wf_lhs lhs = true -> lin lhs = true -> sig_ok ss lhs -> sel_ok curr lhs -> seln_ok selnets rho curr lhs ->
  tclass lhs = true ->
  forall rhs arg nx i b, nlen rhs = ewidth lhs -> nval rho rhs = mask (ewidth lhs) arg -> 0 <= b < width (ss i) ->
  Z.testbit (wa_run rho i (width (ss i)) (emit_assign selnets lhs 0 rhs ATrue) (nx i)) b =
  Z.testbit (assign_rtl curr lhs arg nx i) b.
Proof.
  intros Hwf Hlin Hsig Hsel Hsn Hcl rhs arg nx i b Hn Hv Hb.
  rewrite (emit_assign_bits ss curr rho selnets lhs Hwf Hsig Hsel Hsn Hcl 0 rhs ATrue i b (nx i) eq_refl ltac:(lia) ltac:(lia) Hb).
  rewrite (assign_rtl_bits ss curr lhs Hwf Hlin Hsig Hsel arg nx i b Hb).
  destruct (wr curr lhs i b) as [k|] eqn:E; [|reflexivity].
  pose proof (wr_range curr lhs Hwf Hsel i b k E) as Hk. unfold in_window.
  replace ((0 <=? k) && (k <? 0 + nlen rhs)) with true by lia.
  rewrite Z.sub_0_r, Hv, testbit_mask by lia. replace (k <? ewidth lhs) with true by lia. reflexivity.
Qed.

(* ---- part-select and concatenation targets: the induction steps of emit_assign_bits for EPart / ECat, proved as
   standalone lemmas over `ea_spec` (= the statement of emit_assign_bits for one target); not yet wired into the
   induction of emit_assign_bits (tclass still excludes EPart / ECat) ---- *)

Definition ea_spec (ss : nat -> shape) (curr : env) (rho : valuation) (selnets : expr -> list net) (lhs : expr) : Prop :=
  forall start rhs cond i b old, aval rho cond = true -> 0 <= start -> start + nlen rhs <= ewidth lhs ->
  0 <= b < width (ss i) ->
  Z.testbit (wa_run rho i (width (ss i)) (emit_assign selnets lhs start rhs cond) old) b =
  match wr curr lhs i b with
  | Some k => if (start <=? k) && (k <? start + nlen rhs) then Z.testbit (nval rho rhs) (k - start) else Z.testbit old b
  | None => Z.testbit old b
  end.

Lemma ceil_div_mul W st O : 0 <= W -> 1 <= st -> (W + st - 1) / st <= O -> W <= O * st.
Proof.
  intros HW Hst H. pose proof (Z.div_mod (W + st - 1) st ltac:(lia)) as Hd.
  pose proof (Z.mod_pos_bound (W + st - 1) st ltac:(lia)) as Hm. nia.
Qed.

Lemma part_step ss curr rho selnets a off pw st :
  ea_spec ss curr rho selnets a -> wf_lhs a = true -> sel_ok curr a ->
  nlen (selnets off) = ewidth off -> nval rho (selnets off) = denote curr off -> 1 <= st -> 0 <= pw ->
  ea_spec ss curr rho selnets (EPart a off pw st).
Proof.
  intros IHa Hwa Hsa Hnl Hnv Hst Hpw start rhs cond i b old Hc Hs0 Hfit Hb.
  unfold ewidth in Hfit. cbn [shape_of width] in Hfit.
  set (offn := selnets off) in *. set (W := ewidth a).
  pose proof (ewidth_nonneg a Hwa) as HW. fold W in HW.
  pose proof (nval_range rho offn) as HO. set (O := nval rho offn) in *.
  pose proof (nlen_nonneg rhs) as Hr. pose proof (nlen_nonneg offn) as Hon.
  set (ncases := Z.to_nat (Z.min ((W + st - 1) / st) (2 ^ nlen offn))).
  set (pats := map (fun k => [to_binary (length offn) (Z.of_nat k)]) (seq 0 ncases)).
  assert (Hnc : Z.of_nat ncases <= 2 ^ nlen offn).
  { unfold ncases. pose proof (pow2_pos (nlen offn) Hon). lia. }
  assert (Hav : forall k, (k < ncases)%nat -> aval rho (AMatch cond offn pats k) = (O =? Z.of_nat k)).
  { intros k Hk. cbn [aval]. rewrite Hc. cbn [andb]. unfold pats. fold O.
    rewrite (first_match_binary (length offn) O ltac:(unfold nlen in HO; lia) ncases 0%nat k Hk ltac:(unfold nlen in Hnc; simpl; lia)).
    reflexivity. }
  cbn [emit_assign wr]. fold offn W ncases pats.
  (* the entries of the offsets in ks *)
  match goal with |- Z.testbit (wa_run _ _ _ (?F (seq 0 ncases)) _) _ = _ =>
    assert (Hgen : forall ks old', (forall k, In k ks -> (k < ncases)%nat) -> NoDup ks ->
      Z.testbit (wa_run rho i (width (ss i)) (F ks) old') b =
      if existsb (fun k => O =? Z.of_nat k) ks
      then Z.testbit (wa_run rho i (width (ss i))
                       (if W <=? start + O * st then []
                        else emit_assign selnets a (start + O * st)
                               (if W <=? start + O * st + nlen rhs then firstn (Z.to_nat (W - (start + O * st))) rhs else rhs)
                               (AMatch cond offn pats (Z.to_nat O))) old') b
      else Z.testbit old' b) end.
  { induction ks as [|k ks IHk]; intros old' Hin Hnd; [reflexivity|].
    inversion Hnd as [|? ? Hni Hnd']; subst. cbn beta iota. cbn [existsb]. rewrite wa_run_app.
    assert (Hk : (k < ncases)%nat) by (apply Hin; left; reflexivity).
    destruct (O =? Z.of_nat k) eqn:Ek.
    - assert (HOk : O = Z.of_nat k) by lia. cbn [orb].
      rewrite IHk by (auto; intros; apply Hin; right; auto).
      replace (existsb (fun k0 : nat => O =? Z.of_nat k0) ks) with false.
      2:{ symmetry. apply not_true_is_false. intros Hex. apply existsb_exists in Hex. destruct Hex as [k' [Hk' Hek]].
          assert (k' = k) by lia. subst. contradiction. }
      rewrite <- HOk. replace (Z.to_nat O) with k by lia. reflexivity.
    - cbn [orb]. replace (wa_run rho i (width (ss i)) _ old') with old'.
      + apply IHk; auto. intros; apply Hin; right; auto.
      + destruct (W <=? start + Z.of_nat k * st); [reflexivity|].
        symmetry. apply emit_assign_false. rewrite Hav by auto. exact Ek. }
  rewrite Hgen by (try apply seq_NoDup; intros k Hk; apply in_seq in Hk; lia).
  clear Hgen. set (s := start + O * st).
  assert (Hex : existsb (fun k => O =? Z.of_nat k) (seq 0 ncases) = (O <? Z.of_nat ncases)).
  { destruct (O <? Z.of_nat ncases) eqn:E.
    - apply existsb_exists. exists (Z.to_nat O). split; [apply in_seq; lia|lia].
    - apply not_true_is_false. intros Hx. apply existsb_exists in Hx. destruct Hx as [k [Hk1 Hk2]]. apply in_seq in Hk1. lia. }
  rewrite Hex. fold O in Hnv. rewrite <- Hnv. fold s.
  assert (Hs : 0 <= s) by (unfold s; nia).
  destruct (wr curr a i b) as [k'|] eqn:Ew.
  - pose proof (wr_range curr a Hwa Hsa i b k' Ew) as Hk'. fold W in Hk'.
    assert (Hout : W <= s -> (if (O * st <=? k') && (k' <? O * st + pw)
                             then Some (k' - O * st) else None) = None \/
                             exists kk, (if (O * st <=? k') && (k' <? O * st + pw) then Some (k' - O * st) else None) = Some kk /\
                                        (start <=? kk) && (kk <? start + nlen rhs) = false).
    { intros Hle. destruct ((O * st <=? k') && (k' <? O * st + pw)) eqn:E; [right|left; reflexivity].
      exists (k' - O * st). split; [reflexivity|]. unfold s in Hle. lia. }
    destruct (O <? Z.of_nat ncases) eqn:En.
    + destruct (W <=? s) eqn:Es.
      * cbn [wa_run fold_left]. destruct (Hout ltac:(lia)) as [-> |[kk [-> ->]]]; reflexivity.
      * set (sub := if W <=? s + nlen rhs then firstn (Z.to_nat (W - s)) rhs else rhs).
        assert (Hsl : nlen sub = Z.min (nlen rhs) (W - s)).
        { unfold sub. destruct (W <=? s + nlen rhs) eqn:E; [|lia]. unfold nlen. rewrite firstn_length. unfold nlen in E. lia. }
        assert (Hsv : forall j, 0 <= j < nlen sub -> Z.testbit (nval rho sub) j = Z.testbit (nval rho rhs) j).
        { intros j Hj. unfold sub in *. destruct (W <=? s + nlen rhs) eqn:E; [|reflexivity].
          rewrite testbit_nval_firstn by (unfold nlen in *; lia). replace (j <? Z.of_nat (Z.to_nat (W - s))) with true by lia. reflexivity. }
        assert (Hact : aval rho (AMatch cond offn pats (Z.to_nat O)) = true).
        { rewrite Hav by lia. lia. }
        assert (Hfs : s + nlen sub <= ewidth a) by (fold W; lia).
        rewrite (IHa s sub (AMatch cond offn pats (Z.to_nat O)) i b old Hact Hs Hfs Hb).
        rewrite Ew. rewrite Hsl.
        destruct ((s <=? k') && (k' <? s + Z.min (nlen rhs) (W - s))) eqn:Ein.
        -- replace ((O * st <=? k') && (k' <? O * st + pw)) with true by (unfold s in *; lia).
           replace ((start <=? k' - O * st) && (k' - O * st <? start + nlen rhs)) with true by (unfold s in *; lia).
           rewrite Hsv by lia. f_equal. unfold s. lia.
        -- destruct ((O * st <=? k') && (k' <? O * st + pw)); [|reflexivity].
           replace ((start <=? k' - O * st) && (k' - O * st <? start + nlen rhs)) with false by (unfold s in *; lia). reflexivity.
    + assert (W <= O * st).
      { apply ceil_div_mul; auto. unfold ncases in En. pose proof (pow2_pos (nlen offn) Hon). lia. }
      destruct (Hout ltac:(unfold s; lia)) as [-> |[kk [-> ->]]]; reflexivity.
  - destruct (O <? Z.of_nat ncases) eqn:En; [|reflexivity].
    destruct (W <=? s) eqn:Es; [reflexivity|].
    assert (Hact : aval rho (AMatch cond offn pats (Z.to_nat O)) = true).
    { rewrite Hav by lia. lia. }
    rewrite (IHa s _ (AMatch cond offn pats (Z.to_nat O)) i b old Hact Hs).
    + rewrite Ew. reflexivity.
    + fold W. destruct (W <=? s + nlen rhs) eqn:E; [|lia]. unfold nlen. rewrite firstn_length. unfold nlen in E. lia.
    + exact Hb.
Qed.

(* no signal is named by two parts of a concatenation (lin) *)
Fixpoint pairwise_disj (ps : list expr) : Prop :=
  match ps with
  | [] => True
  | p :: ps' => (forall q, In q ps' -> disjointb (sigs_of p) (sigs_of q) = true) /\ pairwise_disj ps'
  end.

Lemma lin_cat_pairwise l : lin (ECat l) = true -> Forall (fun p => lin p = true) l /\ pairwise_disj l.
Proof.
  cbn [lin]. intros H. apply andb_true_iff in H. destruct H as [H1 H2]. split.
  - apply Forall_forall. apply forallb_forall. exact H1.
  - clear H1. induction l as [|p ps IH]; [exact I|]. apply andb_true_iff in H2. destruct H2 as [H2 H3].
    split; [apply forallb_forall; exact H2|apply IH; exact H3].
Qed.

Lemma cat_step ss curr rho selnets l :
  Forall (fun p => ea_spec ss curr rho selnets p /\ wf_lhs p = true /\ sel_ok curr p) l -> pairwise_disj l ->
  ea_spec ss curr rho selnets (ECat l).
Proof.
  intros Hall Hpw start rhs cond i b old Hc Hs0 _ Hb. pose proof (nlen_nonneg rhs) as Hr.
  cbn [emit_assign wr].
  match goal with |- Z.testbit (wa_run _ _ _ (?F l 0) _) _ = match ?G l 0 with _ => _ end =>
    assert (Hgen : forall ps off old',
      Forall (fun p => ea_spec ss curr rho selnets p /\ wf_lhs p = true /\ sel_ok curr p) ps -> pairwise_disj ps -> 0 <= off ->
      Z.testbit (wa_run rho i (width (ss i)) (F ps off) old') b =
      match G ps off with
      | Some K => if (start <=? K) && (K <? start + nlen rhs) then Z.testbit (nval rho rhs) (K - start) else Z.testbit old' b
      | None => Z.testbit old' b
      end) end.
  { induction ps as [|p ps IHp]; intros off old' Hf Hd Hoff; [reflexivity|].
    inversion Hf as [|? ? [Hp1 [Hp2 Hp3]] Hf']; subst. destruct Hd as [Hd1 Hd2].
    pose proof (ewidth_nonneg p Hp2) as Hwp. cbn beta iota.
    (* what the part's own entries do to bit b *)
    assert (Hpart : forall o0, Z.testbit (wa_run rho i (width (ss i))
                      (if off + ewidth p <=? start then []
                       else if start + nlen rhs <=? off then []
                       else emit_assign selnets p (if start <? off then 0 else start - off)
                              (nslice rhs (if start <? off then off - start else 0)
                                          (if off + ewidth p <=? start + nlen rhs then off + ewidth p - start else nlen rhs)) cond) o0) b =
                    match wr curr p i b with
                    | Some k => if (start <=? k + off) && (k + off <? start + nlen rhs) then Z.testbit (nval rho rhs) (k + off - start)
                                else Z.testbit o0 b
                    | None => Z.testbit o0 b
                    end).
    { intros o0. destruct (off + ewidth p <=? start) eqn:E1.
      { cbn [wa_run fold_left]. destruct (wr curr p i b) as [k|] eqn:Ew; [|reflexivity].
        pose proof (wr_range curr p Hp2 Hp3 i b k Ew). replace ((start <=? k + off) && (k + off <? start + nlen rhs)) with false by lia. reflexivity. }
      destruct (start + nlen rhs <=? off) eqn:E2.
      { cbn [wa_run fold_left]. destruct (wr curr p i b) as [k|] eqn:Ew; [|reflexivity].
        pose proof (wr_range curr p Hp2 Hp3 i b k Ew). replace ((start <=? k + off) && (k + off <? start + nlen rhs)) with false by lia. reflexivity. }
      set (pls := if start <? off then 0 else start - off).
      set (prs := if start <? off then off - start else 0).
      set (pre := if off + ewidth p <=? start + nlen rhs then off + ewidth p - start else nlen rhs).
      assert (Hrange : 0 <= prs <= pre /\ pre <= nlen rhs) by (unfold prs, pre; destruct (start <? off) eqn:Ea0, (off + ewidth p <=? start + nlen rhs) eqn:Eb0; lia).
      destruct (nslice_spec rho rhs prs pre ltac:(lia) ltac:(lia)) as [Hsl Hsv].
      rewrite (Hp1 pls (nslice rhs prs pre) cond i b o0 Hc ltac:(unfold pls; destruct (start <? off) eqn:Ea0; lia)
                 ltac:(rewrite Hsl; unfold pls, prs, pre; destruct (start <? off) eqn:Ea0, (off + ewidth p <=? start + nlen rhs) eqn:Eb0; lia) Hb).
      destruct (wr curr p i b) as [k|] eqn:Ew; [|reflexivity].
      pose proof (wr_range curr p Hp2 Hp3 i b k Ew) as Hk. rewrite Hsl, Hsv.
      destruct ((start <=? k + off) && (k + off <? start + nlen rhs)) eqn:Ewin.
      - replace ((pls <=? k) && (k <? pls + (pre - prs))) with true
          by (unfold pls, prs, pre; destruct (start <? off) eqn:Ea, (off + ewidth p <=? start + nlen rhs) eqn:Eb; lia).
        rewrite testbit_bits_at by (unfold pls, prs in *; destruct (start <? off) eqn:Ea0; lia).
        replace (k - pls <? pre - prs) with true
          by (unfold pls, prs, pre; destruct (start <? off) eqn:Ea, (off + ewidth p <=? start + nlen rhs) eqn:Eb; lia).
        cbn [andb]. f_equal. unfold pls, prs. destruct (start <? off) eqn:Ea0; lia.
      - replace ((pls <=? k) && (k <? pls + (pre - prs))) with false
          by (unfold pls, prs, pre; destruct (start <? off) eqn:Ea, (off + ewidth p <=? start + nlen rhs) eqn:Eb; lia).
        reflexivity. }
    match goal with |- Z.testbit (wa_run _ _ _ (if _ then ?X else _) _) _ = _ => set (rest := X) end.
    assert (Hsplit : wa_run rho i (width (ss i))
                       (if off + ewidth p <=? start then rest
                        else if start + nlen rhs <=? off then rest
                        else emit_assign selnets p (if start <? off then 0 else start - off)
                               (nslice rhs (if start <? off then off - start else 0)
                                  (if off + ewidth p <=? start + nlen rhs then off + ewidth p - start else nlen rhs)) cond
                             ++ rest) old' =
                     wa_run rho i (width (ss i)) rest
                       (wa_run rho i (width (ss i))
                          (if off + ewidth p <=? start then []
                           else if start + nlen rhs <=? off then []
                           else emit_assign selnets p (if start <? off then 0 else start - off)
                                  (nslice rhs (if start <? off then off - start else 0)
                                     (if off + ewidth p <=? start + nlen rhs then off + ewidth p - start else nlen rhs)) cond) old')).
    { destruct (off + ewidth p <=? start); [reflexivity|]. destruct (start + nlen rhs <=? off); [reflexivity|]. apply wa_run_app. }
    rewrite Hsplit. subst rest. rewrite (IHp (off + ewidth p) _ Hf' Hd2 ltac:(lia)). rewrite Hpart.
    destruct (wr curr p i b) as [k|] eqn:Ew.
    - (* this part addresses the bit: no later part does *)
      rewrite wr_cat_none; [reflexivity|].
      intros q Hq. destruct (wr curr q i b) as [kq|] eqn:Eq; [|reflexivity].
      exfalso. apply (disjointb_spec _ _ i (Hd1 q Hq)); [eapply wr_sigs; eauto|eapply wr_sigs; eauto].
    - reflexivity. }
  apply Hgen; auto. lia.
Qed.

(* GenEqPySim.v — the definitions regenerated from /repo/amaranth/sim/pysim.py by translator/unit_pysim.py
   (coq/Gen/PySimGen.v) equal / refine the hand-written models Model/Engine.v (C08) and Model/Mem.v (C11), for all
   states and inputs.  A change of the translated source that is not semantics-preserving breaks one of these lemmas.

   Objects are records, methods return `option` (None = exception); callbacks (wakers, processes, triggers,
   testbenches) are indices applied through function parameters to an abstract world; a set is a list iterated
   through the parameter `set_order`.  Abstractions used (stated next to each lemma):
     * slot (curr, next, pending flag)  <->  _PySignalState record + membership of its index in the `pending` list
       (abs_slot, mem);  the wakers of a slot are folded into one waker per slot (notify_call, heap_of);
     * the values of the timeline dict = Engine.deadlines;  W = estate for step_design / advance, with the callbacks
       instantiated by the model phases (the m_ definitions);  wqueue / rows = the dict / list of _PyMemoryState (mem_obj).
   Guards (inputs the real code never produces): distinct dict keys, deadlines not in the past, data list as long
   as the depth, width >= 0, queued addresses in range, non-empty queue at commit. *)
From Coq Require Import ZArith List Bool Lia ZifyBool Permutation.
From V.Model Require Import Bits Process Engine Mem.
From V.Gen Require PySimGen.
Import ListNotations.
Open Scope Z_scope.
Module G := PySimGen.
Arguments G.py_foldM : simpl never.
Arguments G.py_while : simpl never.

(* ------------------------------------------------------------------ prelude facts *)
Lemma foldM_nil {A B} (f : A -> B -> option A) a : G.py_foldM f [] a = Some a.
Proof. reflexivity. Qed.

Lemma foldM_none {A B} (f : A -> B -> option A) l :
  fold_left (fun oa x => match oa with Some a => f a x | None => None end) l None = None.
Proof. induction l; simpl; auto. Qed.

Lemma foldM_cons {A B} (f : A -> B -> option A) x l a :
  G.py_foldM f (x :: l) a = match f a x with Some a' => G.py_foldM f l a' | None => None end.
Proof. unfold G.py_foldM. simpl. destruct (f a x); [reflexivity|apply foldM_none]. Qed.

Lemma foldM_app {A B} (f : A -> B -> option A) l1 l2 a :
  G.py_foldM f (l1 ++ l2) a = match G.py_foldM f l1 a with Some a' => G.py_foldM f l2 a' | None => None end.
Proof.
  revert a. induction l1 as [|x l1 IH]; intros a; [reflexivity|].
  simpl. rewrite !foldM_cons. destruct (f a x); auto.
Qed.

Lemma foldM_ext_inv {A B} (P : A -> Prop) (f g : A -> B -> option A) l a :
  P a -> (forall a x, P a -> f a x = g a x) -> (forall a x a', P a -> g a x = Some a' -> P a') ->
  G.py_foldM f l a = G.py_foldM g l a.
Proof.
  intros Ha Hfg Hp. revert a Ha. induction l as [|x l IH]; intros a Ha; [reflexivity|].
  rewrite !foldM_cons, (Hfg a x Ha). destruct (g a x) eqn:E; [|reflexivity]. apply IH. eapply Hp; eauto.
Qed.

Lemma py_index_nat {A} (l : list A) n : (n < length l)%nat -> G.py_index l (Z.of_nat n) = Some n.
Proof.
  intros H. unfold G.py_index.
  destruct (Z.of_nat n <? 0) eqn:E; [lia|].
  destruct ((Z.of_nat n <? 0) || (Z.of_nat (length l) <=? Z.of_nat n)) eqn:E2; [lia|].
  rewrite Nat2Z.id. reflexivity.
Qed.

Lemma set_nth_length {A} n (x : A) l : length (G.py_set_nth n x l) = length l.
Proof. revert n; induction l; destruct n; simpl; auto. Qed.

Lemma firstn_set_nth {A} n (x : A) l : (n < length l)%nat ->
  firstn (S n) (G.py_set_nth n x l) = firstn n l ++ [x].
Proof.
  revert n; induction l as [|h t IH]; intros n H; simpl in H; [lia|].
  destruct n; simpl; [reflexivity|]. f_equal. apply IH. lia.
Qed.

Lemma skipn_set_nth {A} n m (x : A) l : (n < m)%nat -> skipn m (G.py_set_nth n x l) = skipn m l.
Proof.
  revert n m; induction l as [|h t IH]; intros n m H; destruct m; try lia; destruct n; simpl; auto.
  apply IH. lia.
Qed.

Lemma firstn_set_nth_ge {A} n m (x : A) l : (m <= n)%nat -> firstn m (G.py_set_nth n x l) = firstn m l.
Proof.
  revert n m; induction l as [|h t IH]; intros n m H; destruct m; destruct n; simpl; auto; try lia.
  f_equal. apply IH. lia.
Qed.

Lemma skipn_S_tl {A} i (l : list A) : skipn (S i) l = tl (skipn i l).
Proof.
  revert l; induction i; intros [|h t]; try reflexivity.
  - change (skipn (S (S i)) (h :: t)) with (skipn (S i) t). rewrite IHi. reflexivity.
Qed.

(* ------------------------------------------------------------------ _run_wakers: `.retain()` *)
(* the wakers are called in list order with the same arguments, each on the world left by its predecessor; the
   list that remains holds exactly those that returned True, in order *)
Fixpoint retain {A W} (call : nat -> A -> W -> bool * W) (args : A) (l : list nat) (w : W) : list nat * W :=
  match l with
  | [] => ([], w)
  | k :: r => let (b, w1) := call k args w in
              let (l', w2) := retain call args r w1 in
              (if b then k :: l' else l', w2)
  end.

Lemma run_wakers_loop {A W} (call : nat -> A -> W -> bool * W) args :
  forall suf L kp w i,
    firstn (length kp) L = kp -> skipn i L = suf -> (length kp <= i)%nat -> (i + length suf = length L)%nat ->
    exists L',
      G.py_foldM (fun '(w_, wakers, index) i_ =>
        match nth_error wakers i_ with
        | Some waker =>
            let '(t1_, t2_) := call waker args w_ in
            let w_ := t2_ in
            if t1_ then
              match G.py_list_set wakers index waker with
              | Some t3_ => let wakers := t3_ in let index := Z.add index 1 in Some (w_, wakers, index)
              | None => None
              end
            else Some (w_, wakers, index)
        | None => None
        end) (seq i (length suf)) (w, L, Z.of_nat (length kp))
      = Some (snd (retain call args suf w), L', Z.of_nat (length (kp ++ fst (retain call args suf w)))) /\
      firstn (length (kp ++ fst (retain call args suf w))) L' = kp ++ fst (retain call args suf w).
Proof.
  induction suf as [|k suf IH]; intros L kp w i Hk Hs Hle Hlen.
  - exists L. simpl. rewrite app_nil_r. split; [reflexivity|exact Hk].
  - simpl length. simpl seq. rewrite foldM_cons.
    assert (Hn : nth_error L i = Some k).
    { rewrite <- (firstn_skipn i L) at 1. rewrite Hs. rewrite nth_error_app2; rewrite firstn_length_le by (simpl in Hlen; lia); [|lia].
      rewrite Nat.sub_diag. reflexivity. }
    rewrite Hn. simpl retain.
    destruct (call k args w) as [b w1] eqn:Ec.
    destruct (retain call args suf w1) as [l' w2] eqn:Er.
    simpl in Hlen.
    destruct b.
    + unfold G.py_list_set. rewrite py_index_nat by lia.
      specialize (IH (G.py_set_nth (length kp) k L) (kp ++ [k]) w1 (S i)).
      rewrite Er in IH. simpl fst in IH; simpl snd in IH.
      destruct IH as [L' [H1 H2]].
      * rewrite app_length. simpl. rewrite Nat.add_1_r. rewrite firstn_set_nth by lia. rewrite Hk. reflexivity.
      * rewrite skipn_set_nth by lia. rewrite skipn_S_tl, Hs. reflexivity.
      * rewrite app_length. simpl. lia.
      * rewrite set_nth_length. lia.
      * exists L'. rewrite app_length in H1. simpl length in H1.
        replace (Z.of_nat (length kp) + 1) with (Z.of_nat (length kp + 1)) by lia.
        simpl fst. simpl snd. rewrite <- app_assoc in H1, H2. simpl in H1, H2. split; [exact H1|exact H2].
    + specialize (IH L kp w1 (S i)). rewrite Er in IH. simpl fst in IH; simpl snd in IH.
      destruct IH as [L' [H1 H2]]; auto.
      * rewrite skipn_S_tl, Hs. reflexivity.
      * lia.
      * exists L'. split; assumption.
Qed.

Lemma gen_run_wakers_eq {A W} (call : nat -> A -> W -> bool * W) wakers args w :
  G.run_wakers call wakers args w = Some (retain call args wakers w).
Proof.
  unfold G.run_wakers.
  destruct (run_wakers_loop call args wakers wakers [] w 0%nat) as [L' [H1 H2]]; auto.
  simpl in H1, H2. simpl Z.of_nat in H1. 
  match goal with |- context [G.py_foldM ?f ?l ?a] => change (G.py_foldM f l a) with
    (G.py_foldM f (seq 0 (length wakers)) (w, wakers, 0)) end.
  rewrite H1. unfold G.py_del_from.
  destruct (Z.of_nat (length (fst (retain call args wakers w))) <? 0) eqn:E; [lia|].
  rewrite Nat2Z.id, H2. destruct (retain call args wakers w); reflexivity.
Qed.

(* ------------------------------------------------------------------ _PySignalState *)
(* abstraction: the model's slot is (curr, next, membership of the object in the engine's `pending` set) *)
Definition mem (i : nat) (p : list nat) : bool := existsb (Nat.eqb i) p.
Definition abs_slot (g : G.PySignalState) (pend : bool) : slot :=
  Slot (G.PySignalState_curr g) (G.PySignalState_next g) pend.

Lemma mem_set_add i j p : mem j (G.py_set_add Nat.eqb p i) = Nat.eqb j i || mem j p.
Proof.
  unfold G.py_set_add, mem. fold (mem i p). destruct (mem i p) eqn:E.
  - destruct (Nat.eqb j i) eqn:E2; [|reflexivity]. apply Nat.eqb_eq in E2. subst. exact E.
  - rewrite existsb_app. simpl. rewrite orb_false_r. apply orb_comm.
Qed.

(* __init__ + reset: curr = next = signal.init, nothing pending *)
Lemma gen_signal_init_eq v :
  G.PySignalState_init v = Some (G.Build_PySignalState v false v v []).
Proof. reflexivity. Qed.

Lemma gen_signal_reset_eq g :
  G.PySignalState_reset g =
  Some (G.Build_PySignalState (G.PySignalState_signal_init g) (G.PySignalState_is_comb g)
          (G.PySignalState_signal_init g) (G.PySignalState_signal_init g) (G.PySignalState_wakers g)).
Proof. reflexivity. Qed.

Lemma gen_init_slots_eq inits :
  map (fun v => match G.PySignalState_init v with Some g => abs_slot g false | None => Slot 0 0 false end) inits
  = init_slots inits.
Proof. reflexivity. Qed.

Lemma gen_signal_add_waker_eq g k :
  G.PySignalState_add_waker g k =
  if mem k (G.PySignalState_wakers g) then None
  else Some (G.Build_PySignalState (G.PySignalState_signal_init g) (G.PySignalState_is_comb g)
               (G.PySignalState_curr g) (G.PySignalState_next g) (G.PySignalState_wakers g ++ [k])).
Proof. unfold G.PySignalState_add_waker, mem. destruct (existsb _ _); reflexivity. Qed.

(* update(value, mask) of the state object with index i = the model's slot_apply of the write (i, value, mask) *)
Lemma gen_signal_update_eq i g p v m :
  exists g' p',
    G.PySignalState_update i g p v m = Some (g', p') /\
    abs_slot g' (mem i p') = slot_apply i (abs_slot g (mem i p)) (W i v m) /\
    G.PySignalState_signal_init g' = G.PySignalState_signal_init g /\
    G.PySignalState_is_comb g' = G.PySignalState_is_comb g /\
    G.PySignalState_wakers g' = G.PySignalState_wakers g /\
    (forall j, j <> i -> mem j p' = mem j p).
Proof.
  unfold G.PySignalState_update, slot_apply, abs_slot, slot_update. cbn [w_sig w_val w_mask sn sc sp].
  rewrite Nat.eqb_refl. destruct g as [si ic c n wk]. cbn.
  destruct (n =? Z.lor (Z.land n (Z.lnot m)) (Z.land v m)) eqn:E; cbn [negb].
  - eexists _, _. split; [reflexivity|]. cbn. repeat split; auto.
  - eexists _, _. split; [reflexivity|]. cbn. rewrite mem_set_add, Nat.eqb_refl. cbn.
    repeat split; auto. intros j Hj. rewrite mem_set_add. apply Nat.eqb_neq in Hj. rewrite Hj. reflexivity.
Qed.

(* commit(): nothing when curr == next; otherwise the wakers run with (curr, next), curr = next, True *)
Lemma gen_signal_commit_eq {W} (call : nat -> Z * Z -> W -> bool * W) g w :
  G.PySignalState_commit call g w =
  if G.PySignalState_curr g =? G.PySignalState_next g then Some (false, g, w)
  else let (wk, w') := retain call (G.PySignalState_curr g, G.PySignalState_next g) (G.PySignalState_wakers g) w in
       Some (true, G.Build_PySignalState (G.PySignalState_signal_init g) (G.PySignalState_is_comb g)
                     (G.PySignalState_next g) (G.PySignalState_next g) wk, w').
Proof.
  unfold G.PySignalState_commit. destruct g as [si ic c n wk]. cbn.
  destruct (c =? n); [reflexivity|]. rewrite gen_run_wakers_eq.
  destruct (retain call (c, n) wk w). reflexivity.
Qed.

(* ------------------------------------------------------------------ _PyEngineState.commit *)
Lemma py_set_nth_eq {A} n (x : A) l : G.py_set_nth n x l = set_nth n x l.
Proof. revert n; induction l; destruct n; simpl; try f_equal; auto. Qed.

Lemma nth_error_mapi_from {A B} (f : nat -> A -> B) l k i :
  nth_error (Engine.mapi_from k f l) i = option_map (f (k + i)%nat) (nth_error l i).
Proof.
  revert k i; induction l as [|h t IH]; intros k i; destruct i; simpl; auto.
  - rewrite Nat.add_0_r. reflexivity.
  - rewrite IH. replace (S k + i)%nat with (k + S i)%nat by lia. reflexivity.
Qed.

Lemma set_nth_mapi_from {A B} (f : nat -> A -> B) l k i x :
  set_nth i (f (k + i)%nat x) (Engine.mapi_from k f l) = Engine.mapi_from k f (set_nth i x l).
Proof.
  revert k i; induction l as [|h t IH]; intros k i; destruct i; simpl; auto.
  - rewrite Nat.add_0_r. reflexivity.
  - f_equal. replace (k + S i)%nat with (S k + i)%nat by lia. apply IH.
Qed.

(* The wakers of a signal are folded into ONE waker per slot (index = the slot's): it stays registered and does
   what all process wakers (p_wake) and trigger wakers (notify) of the model do for a commit of that slot; the
   registration bookkeeping of the individual wakers is the model's tp_reg. *)
Definition WW := (list pstate * list tbstate)%type.
Definition notify_call (ps : list proc) (k : nat) (cn : Z * Z) (w : WW) : bool * WW :=
  (true, (Engine.mapi (ps_notify ps k (fst cn) (snd cn)) (fst w), map (tb_notify k (fst cn) (snd cn)) (snd w))).
Definition sig_obj (ini : nat -> Z) (icf : nat -> bool) (i : nat) (s : slot) : G.pystate :=
  G.SigSt (G.Build_PySignalState (ini i) (icf i) (sc s) (sn s) [i]).
Definition heap_of ini icf (sl : list slot) : list G.pystate := Engine.mapi (sig_obj ini icf) sl.
Definition flagged (sl : list slot) (i : nat) : bool :=
  match nth_error sl i with Some s => sp s | None => false end.

Lemma commit_slot_flags ps st ch i : map sp (e_slots (fst (commit_slot ps (st, ch) i))) = map sp (e_slots st).
Proof.
  unfold commit_slot. destruct (nth_error (e_slots st) i) as [s|] eqn:E; [|reflexivity].
  destruct (sp s && negb (sc s =? sn s)); [|reflexivity]. simpl.
  revert i E. generalize (e_slots st). induction l as [|h t IH]; intros [|i] E; simpl in *; try discriminate.
  - inversion E; subst. reflexivity.
  - f_equal. apply IH. exact E.
Qed.

Lemma flagged_map_sp sl sl' : map sp sl = map sp sl' -> forall i, flagged sl i = flagged sl' i.
Proof.
  intros H i. unfold flagged.
  assert (H2 : nth_error (map sp sl) i = nth_error (map sp sl') i) by (rewrite H; reflexivity).
  rewrite !nth_error_map in H2. destruct (nth_error sl i), (nth_error sl' i); simpl in H2; congruence.
Qed.

Lemma set_nth_same {A} i (x : A) l : nth_error l i = Some x -> set_nth i x l = l.
Proof. revert i; induction l; intros [|i] H; simpl in *; try discriminate; [congruence|f_equal; auto]. Qed.

Notation cstate := (WW * option (list G.pychange) * list G.pystate * bool)%type.
(* the body of the loop `for state in self.pending` as generated, at changed = None *)
Definition commit_body ps (cm : nat -> unit -> WW -> bool * WW) : cstate -> nat -> option cstate :=
  fun '(w_, changed, slots, converged) state =>
         match changed with
         | Some changed_n_ => None
         | None =>
           match (match nth_error slots state with
                  | Some (G.SigSt o_) =>
                      match G.PySignalState_commit (notify_call ps) o_ w_ with
                      | Some (r_, o2_, w2_) => Some (r_, G.py_set_nth state (G.SigSt o2_) slots, w2_)
                      | None => None end
                  | Some (G.MemSt o_) =>
                      match G.PyMemoryState_commit cm o_ w_ with
                      | Some (r_, o2_, w2_) => Some (r_, G.py_set_nth state (G.MemSt o2_) slots, w2_)
                      | None => None end
                  | None => None end) with
           | Some (t7_, t8_, t9_) =>
               let slots := t8_ in let w_ := t9_ in
               if t7_ then let converged := false in Some (w_, changed, slots, converged)
               else Some (w_, changed, slots, converged)
           | None => None end
         end.

Lemma commit_body_step ps cm ini icf st ch i s :
  nth_error (e_slots st) i = Some s -> sp s = true ->
  commit_body ps cm ((e_procs st, e_tbs st), None, heap_of ini icf (e_slots st), negb ch) i =
  let (st3, ch3) := commit_slot ps (st, ch) i in
  Some ((e_procs st3, e_tbs st3), None, heap_of ini icf (e_slots st3), negb ch3).
Proof.
  intros En Ef. unfold commit_body, commit_slot. rewrite En, Ef. cbn [andb].
  unfold heap_of at 1, Engine.mapi. rewrite nth_error_mapi_from, En. cbn [option_map Nat.add sig_obj].
  rewrite gen_signal_commit_eq. cbn [G.PySignalState_curr G.PySignalState_next G.PySignalState_wakers
    G.PySignalState_signal_init G.PySignalState_is_comb retain notify_call fst snd].
  destruct (sc s =? sn s) eqn:Ec; cbn [negb].
  { rewrite py_set_nth_eq, set_nth_same; [reflexivity|].
    unfold heap_of, Engine.mapi. rewrite nth_error_mapi_from, En. reflexivity. }
  cbn [e_slots e_procs e_tbs negb]. rewrite py_set_nth_eq.
  change (G.SigSt (G.Build_PySignalState (ini i) (icf i) (sn s) (sn s) [i]))
    with (sig_obj ini icf (0 + i) (Slot (sn s) (sn s) (sp s))).
  unfold heap_of, Engine.mapi. rewrite set_nth_mapi_from, Ef. destruct ch; reflexivity.
Qed.

Lemma gen_engine_commit_loop ps cm ini icf o : forall st ch,
    G.py_foldM (commit_body ps cm) (filter (flagged (e_slots st)) o)
      ((e_procs st, e_tbs st), None, heap_of ini icf (e_slots st), negb ch)
    = let (st3, ch3) := fold_left (commit_slot ps) o (st, ch) in
      Some ((e_procs st3, e_tbs st3), None, heap_of ini icf (e_slots st3), negb ch3).
Proof.
  induction o as [|i o IH]; intros st ch.
  - reflexivity.
  - cbn [filter fold_left].
    pose proof (commit_slot_flags ps st ch i) as Hfl.
    destruct (commit_slot ps (st, ch) i) as [st1 ch1] eqn:E1. cbn [fst] in Hfl.
    destruct (flagged (e_slots st) i) eqn:Ef.
    + rewrite foldM_cons.
      unfold flagged in Ef. destruct (nth_error (e_slots st) i) as [s|] eqn:En; [|discriminate].
      rewrite (commit_body_step ps cm ini icf st ch i s En Ef). rewrite E1.
      rewrite (filter_ext _ _ (flagged_map_sp _ _ (eq_sym Hfl))). apply IH.
    + assert (st1 = st /\ ch1 = ch) as [-> ->].
      { unfold commit_slot in E1. unfold flagged in Ef.
        destruct (nth_error (e_slots st) i) as [s|]; [rewrite Ef in E1; cbn [andb] in E1|]; inversion E1; auto. }
      apply IH.
Qed.

(* _PyEngineState.commit(): for ANY order o over the slot indices, iterating the pending set in the order it
   induces (the members of o whose slot is flagged pending) commits exactly as the model's fold of commit_slot over
   o followed by clear_pending (`self.pending.clear()`); the result is `converged` *)
Lemma gen_engine_commit_eq ps cm ini icf o st :
  G.PyEngineState_commit (notify_call ps) cm (fun l => l) (filter (flagged (e_slots st)) o)
    (heap_of ini icf (e_slots st)) None (e_procs st, e_tbs st)
  = let (st3, ch) := fold_left (commit_slot ps) o (st, false) in
    Some (negb ch, [], heap_of ini icf (clear_pending (e_slots st3)), (e_procs st3, e_tbs st3)).
Proof.
  unfold G.PyEngineState_commit. cbv beta zeta.
  match goal with |- context [G.py_foldM ?f ?l ?a0] =>
    rewrite (foldM_ext_inv (fun z : cstate => snd (fst (fst z)) = None) f (commit_body ps cm) l a0) end.
  2: reflexivity.
  2: { intros [[[w c] sl] cv] x Hc. cbn in Hc. subst c. reflexivity. }
  2: { intros [[[w c] sl] cv] x [[[w' c'] sl'] cv'] Hc. cbn in Hc. subst c. unfold commit_body.
       destruct (match nth_error sl x with Some (G.SigSt o_) => _ | Some (G.MemSt o_) => _ | None => None end)
         as [[[r h] w2]|]; [|discriminate]. destruct r; intros H; inversion H; reflexivity. }
  change true with (negb false).
  rewrite gen_engine_commit_loop. destruct (fold_left (commit_slot ps) o (st, false)) as [st3 ch].
  f_equal. f_equal. f_equal.
  unfold heap_of, Engine.mapi, clear_pending. generalize 0%nat. generalize (e_slots st3).
  induction l; intros k; simpl; [reflexivity|]. f_equal. apply IHl.
Qed.

(* ------------------------------------------------------------------ _PyTimeline *)
Lemma gen_timeline_init_eq : G.PyTimeline_init = Some (G.Build_PyTimeline 0 []).
Proof. reflexivity. Qed.
Lemma gen_timeline_reset_eq tl : G.PyTimeline_reset tl = Some (G.Build_PyTimeline 0 []).
Proof. reflexivity. Qed.

(* set_waker(interval, waker): the deadline now + interval is stored under the waker (model: `Some (now + d)` in
   fresh_trig / trig_ran / proc_step) *)
Lemma dict_get_set {V} d k (v : V) k' :
  G.py_dict_get Nat.eqb (G.py_dict_set Nat.eqb d k v) k' = if Nat.eqb k k' then Some v else G.py_dict_get Nat.eqb d k'.
Proof.
  induction d as [|[a x] r IH]; simpl.
  - destruct (Nat.eqb k k'); reflexivity.
  - destruct (Nat.eqb a k) eqn:E; simpl.
    + apply Nat.eqb_eq in E. subst a. destruct (Nat.eqb k k'); reflexivity.
    + rewrite IH. destruct (Nat.eqb a k') eqn:E2; [|reflexivity].
      apply Nat.eqb_eq in E2. subst a. rewrite Nat.eqb_sym, E. reflexivity.
Qed.

Lemma gen_timeline_set_waker_eq tl d k :
  exists tl', G.PyTimeline_set_waker tl d k = Some tl' /\
    G.PyTimeline_now tl' = G.PyTimeline_now tl /\
    forall k', G.py_dict_get Nat.eqb (G.PyTimeline_wakers tl') k' =
               if Nat.eqb k k' then Some (G.PyTimeline_now tl + d) else G.py_dict_get Nat.eqb (G.PyTimeline_wakers tl) k'.
Proof.
  eexists. split; [reflexivity|]. split; [reflexivity|]. intros k'. cbn. apply dict_get_set.
Qed.

Lemma dict_mem_in {V} (d : list (nat * V)) k : G.py_dict_mem Nat.eqb d k = true <-> In k (map fst d).
Proof.
  unfold G.py_dict_mem. induction d as [|[a x] r IH]; simpl; [split; [discriminate|tauto]|].
  destruct (Nat.eqb a k) eqn:E.
  - apply Nat.eqb_eq in E. split; auto.
  - apply Nat.eqb_neq in E. rewrite IH. split; [auto|intros [H|H]; [contradiction|auto]].
Qed.

Lemma zmin_snoc l d : zmin_list (l ++ [d]) = Some (match zmin_list l with Some D => Z.min D d | None => d end).
Proof.
  destruct l as [|h t]; [reflexivity|]. simpl. rewrite fold_left_app. reflexivity.
Qed.

Lemma zmin_le l D : zmin_list l = Some D -> forall d, In d l -> D <= d.
Proof.
  destruct l as [|h t]; [discriminate|]. simpl. intros H. inversion H; subst; clear H.
  assert (G1 : forall t a, fold_left Z.min t a <= a) by (induction t0; intros; simpl; [lia|specialize (IHt0 (Z.min a0 a)); lia]).
  assert (G2 : forall t a d, In d t -> fold_left Z.min t a <= d).
  { induction t0; intros a0 d E; simpl in *; [contradiction|].
    destruct E as [E|E]; [subst; specialize (G1 t0 (Z.min a0 d)); lia|apply IHt0; auto]. }
  intros d [E|E]; [subst; apply G1|apply G2; auto].
Qed.

Lemma filter_nil {A} (h : A -> bool) l : (forall x, In x l -> h x = false) -> filter h l = [].
Proof. induction l; simpl; intros H; [reflexivity|]. rewrite (H a) by auto. apply IHl. auto. Qed.

Definition due (D : Z) (d : list (nat * Z)) : list nat := map fst (filter (fun kv => snd kv =? D) d).

(* first loop of advance(): the earliest deadline and the wakers that have it, in dict order *)
Lemma timeline_scan now d :
  NoDup (map fst d) -> Forall (fun kv => now <= snd kv) d ->
  G.py_foldM (fun '(nearest_wakers, nearest_deadline) '(waker, deadline) =>
     if match nearest_deadline with Some n => deadline <=? n | None => true end then
       if now <=? deadline then
         if match nearest_deadline with Some n => deadline <? n | None => false end then
           Some (G.py_set_add Nat.eqb [] waker, Some deadline)
         else
           Some (G.py_set_add Nat.eqb nearest_wakers waker, Some deadline)
       else None
     else Some (nearest_wakers, nearest_deadline)) d ([], None)
  = Some (match zmin_list (map snd d) with Some D => (due D d, Some D) | None => ([], None) end).
Proof.
  induction d as [|[k dl] d IH] using rev_ind; intros Hnd Hge; [reflexivity|].
  rewrite map_app in Hnd. simpl in Hnd. apply NoDup_remove in Hnd. rewrite app_nil_r in Hnd. destruct Hnd as [Hnd Hk].
  apply Forall_app in Hge. destruct Hge as [Hge Hx]. inversion Hx as [|? ? Hdl _]; subst. simpl in Hdl.
  rewrite foldM_app, IH by assumption. rewrite map_app. simpl map. rewrite zmin_snoc.
  destruct (zmin_list (map snd d)) as [D|] eqn:Ez.
  - rewrite foldM_cons. cbv beta iota.
    assert (Hk' : existsb (Nat.eqb k) (due D d) = false).
    { apply not_true_is_false. intros H. apply existsb_exists in H. destruct H as [x [Hx' He]].
      apply Nat.eqb_eq in He. subst x. apply Hk. unfold due in Hx'. apply in_map_iff in Hx'.
      destruct Hx' as [[a b] [E1 E2]]. apply filter_In in E2. apply in_map_iff. exists (a, b). split; [exact E1|tauto]. }
    assert (Hnow : (now <=? dl) = true) by lia. rewrite Hnow.
    unfold due. rewrite filter_app, map_app. simpl filter.
    destruct (dl <=? D) eqn:E1.
    + destruct (dl <? D) eqn:E2.
      * rewrite foldM_nil. f_equal. replace (Z.min D dl) with dl by lia. rewrite Z.eqb_refl. simpl.
        rewrite filter_nil; [reflexivity|]. intros [a b] Hin. simpl.
        pose proof (zmin_le _ _ Ez b) as Hb. assert (In b (map snd d)) by (apply in_map_iff; exists (a, b); auto).
        specialize (Hb H). lia.
      * rewrite foldM_nil. f_equal. assert (dl = D) by lia. subst dl. replace (Z.min D D) with D by lia.
        rewrite Z.eqb_refl. simpl. unfold G.py_set_add. fold (due D d). rewrite Hk'. reflexivity.
    + rewrite foldM_nil. f_equal. replace (Z.min D dl) with D by lia.
      assert ((dl =? D) = false) by lia. rewrite H. simpl. rewrite app_nil_r. reflexivity.
  - rewrite foldM_cons. cbv beta iota. assert (Hnow : (now <=? dl) = true) by lia. rewrite Hnow.
    cbv beta iota zeta. rewrite foldM_nil. f_equal. destruct d as [|h t]; [|discriminate]. unfold due. cbn [app filter map snd fst]. rewrite Z.eqb_refl. reflexivity.
Qed.

Lemma filter_all {A} (l : list A) : filter (fun _ => true) l = l.
Proof. induction l; simpl; [reflexivity|]. f_equal. exact IHl. Qed.

Lemma filter_del_mem (d : list (nat * Z)) k ks :
  filter (fun kv => negb (mem (fst kv) ks)) (filter (fun kv => negb (Nat.eqb (fst kv) k)) d)
  = filter (fun kv => negb (mem (fst kv) (k :: ks))) d.
Proof.
  induction d as [|[a x] d IH]; simpl; [reflexivity|].
  unfold mem at 2. simpl existsb. fold (mem a ks).
  destruct (Nat.eqb a k) eqn:E; simpl; [exact IH|]. rewrite IH. reflexivity.
Qed.

(* second loop: every nearest waker is called (in the set's iteration order) and deleted from the dict *)
Lemma timeline_fire {W} (cd : nat -> W -> W) ks : forall (d : list (nat * Z)) w,
  NoDup ks -> (forall k, In k ks -> In k (map fst d)) ->
  G.py_foldM (fun '(w_, self_wakers) waker =>
     match G.py_dict_del Nat.eqb self_wakers waker with
     | Some t1_ => Some (cd waker w_, t1_)
     | None => None
     end) ks (w, d)
  = Some (fold_left (fun w k => cd k w) ks w, filter (fun kv => negb (mem (fst kv) ks)) d).
Proof.
  induction ks as [|k ks IH]; intros d w Hnd Hin.
  - simpl. rewrite foldM_nil. rewrite filter_all. reflexivity.
  - rewrite foldM_cons. cbv beta iota zeta. unfold G.py_dict_del.
    assert (Hm : G.py_dict_mem Nat.eqb d k = true) by (apply dict_mem_in, Hin; left; reflexivity).
    rewrite Hm. inversion Hnd as [|? ? Hk Hnd']; subst. rewrite IH; auto.
    + simpl fold_left. rewrite filter_del_mem. reflexivity.
    + intros k0 H0. specialize (Hin k0 (or_intror H0)).
      apply in_map_iff in Hin. destruct Hin as [[a x] [E Hx]]. simpl in E. subst a.
      apply in_map_iff. exists (k0, x). split; [reflexivity|]. apply filter_In. split; [exact Hx|].
      simpl. apply negb_true_iff, Nat.eqb_neq. intros ->. contradiction.
Qed.

(* advance(): with D the earliest deadline, `now` becomes D, exactly the wakers whose deadline is D are called (each
   once, in the iteration order `ord` of the set) and removed; nothing happens on an empty timeline.
   Guards: the keys of a dict are distinct; no deadline lies in the past (the `assert`: deadlines are now + interval
   with interval >= 0); `ord` only reorders. *)
Lemma gen_timeline_advance_eq {W} (cd : nat -> W -> W) ord tl w :
  (forall l, Permutation (ord l) l) ->
  NoDup (map fst (G.PyTimeline_wakers tl)) ->
  Forall (fun kv => G.PyTimeline_now tl <= snd kv) (G.PyTimeline_wakers tl) ->
  G.PyTimeline_advance cd ord tl w =
  match zmin_list (map snd (G.PyTimeline_wakers tl)) with
  | None => Some (false, tl, w)
  | Some D => Some (true,
                    G.Build_PyTimeline D (filter (fun kv => negb (snd kv =? D)) (G.PyTimeline_wakers tl)),
                    fold_left (fun w k => cd k w) (ord (due D (G.PyTimeline_wakers tl))) w)
  end.
Proof.
  intros Hord Hnd Hge. destruct tl as [now d]. cbn [G.PyTimeline_now G.PyTimeline_wakers] in *.
  unfold G.PyTimeline_advance. cbn [G.PyTimeline_now G.PyTimeline_wakers]. cbv zeta.
  rewrite (timeline_scan now d Hnd Hge).
  destruct (zmin_list (map snd d)) as [D|] eqn:Ez; [|reflexivity].
  assert (Hne : due D d <> []).
  { unfold due. destruct d as [|h t]; [discriminate|]. intros H.
    assert (Hin : In D (map snd (h :: t))).
    { clear -Ez. cbn [map zmin_list] in Ez. inversion Ez; subst; clear Ez. cbn [map]. generalize (snd h).
      induction (map snd t) as [|a l IHl]; intros z; cbn [In fold_left]; [left; reflexivity|].
      destruct (IHl (Z.min z a)) as [E|E]; [|right; right; exact E].
      destruct (Z.min_spec z a) as [[_ E2]|[_ E2]]; [left|right; left]; rewrite <- E; symmetry; exact E2. }
    apply in_map_iff in Hin. destruct Hin as [[a b] [E Hin]]. simpl in E. subst b.
    assert (In a (map fst (filter (fun kv => snd kv =? D) (h :: t)))).
    { apply in_map_iff. exists (a, D). split; [reflexivity|]. apply filter_In. split; [exact Hin|]. simpl. apply Z.eqb_refl. }
    rewrite H in H0. destruct H0. }
  destruct (due D d) as [|k0 ks0] eqn:Ed; [contradiction|]. cbn [G.py_is_empty negb]. rewrite <- Ed.
  assert (HndD : NoDup (due D d)).
  { unfold due. clear -Hnd. induction d as [|[a b] d IH]; simpl; [constructor|].
    simpl in Hnd. inversion Hnd; subst. destruct (b =? D); simpl; auto. constructor; auto.
    intros H. apply H1. apply in_map_iff in H. destruct H as [x [E Hx]]. apply filter_In in Hx.
    apply in_map_iff. exists x. tauto. }
  rewrite timeline_fire.
  - f_equal. f_equal. f_equal. f_equal.
    apply filter_ext_in. intros [a b] Hin. simpl. f_equal.
    destruct (b =? D) eqn:Eb.
    + unfold mem. apply existsb_exists. exists a. split; [|apply Nat.eqb_refl].
      apply (Permutation_in _ (Permutation_sym (Hord _))). unfold due. apply in_map_iff. exists (a, b).
      split; [reflexivity|]. apply filter_In. split; [exact Hin|exact Eb].
    + apply not_true_is_false. intros H. unfold mem in H. apply existsb_exists in H. destruct H as [x [Hx He]].
      apply Nat.eqb_eq in He. subst x. apply (Permutation_in _ (Hord _)) in Hx. unfold due in Hx.
      apply in_map_iff in Hx. destruct Hx as [[a' b'] [E Hx]]. simpl in E. subst a'. apply filter_In in Hx.
      destruct Hx as [Hx Eb']. simpl in Eb'.
      assert (b' = b); [|lia].
      clear -Hnd Hin Hx. induction d as [|[p q] d IH]; [destruct Hin|]. simpl in Hnd. inversion Hnd; subst.
      destruct Hin as [E|Hin]; destruct Hx as [E'|Hx].
      * congruence.
      * inversion E; subst. exfalso. apply H1. apply in_map_iff. exists (a, b'). auto.
      * inversion E'; subst. exfalso. apply H1. apply in_map_iff. exists (a, b). auto.
      * auto.
  - apply (Permutation_NoDup (Permutation_sym (Hord _))). exact HndD.
  - intros k Hk. apply (Permutation_in _ (Hord _)) in Hk. unfold due in Hk. apply in_map_iff in Hk.
    destruct Hk as [x [E Hx]]. apply filter_In in Hx. apply in_map_iff. exists x. tauto.
Qed.

(* tie to Engine.tl_advance.  Abstraction: the dict's values are the model's `deadlines st` (timers of the clock
   processes and delay positions of the trigger objects); `now` is e_now.  Then the generated advance() moves `now`
   exactly as tl_advance does, reports whether the timeline was non-empty, and calls exactly the wakers whose
   deadline is the new `now` (the model's tests `d =? D` in ps_fire / pos_due). *)
Lemma gen_timeline_advance_model {W} (cd : nat -> W -> W) ord tl w st :
  (forall l, Permutation (ord l) l) -> NoDup (map fst (G.PyTimeline_wakers tl)) ->
  Forall (fun kv => G.PyTimeline_now tl <= snd kv) (G.PyTimeline_wakers tl) ->
  G.PyTimeline_now tl = e_now st -> map snd (G.PyTimeline_wakers tl) = deadlines st ->
  exists tl' w',
    G.PyTimeline_advance cd ord tl w = Some (negb (G.py_is_empty (deadlines st)), tl', w') /\
    G.PyTimeline_now tl' = e_now (tl_advance st) /\
    w' = (if G.py_is_empty (deadlines st) then w
          else fold_left (fun w k => cd k w) (ord (due (e_now (tl_advance st)) (G.PyTimeline_wakers tl))) w) /\
    map snd (G.PyTimeline_wakers tl') = filter (fun d => negb (d =? e_now (tl_advance st))) (deadlines st).
Proof.
  intros Hord Hnd Hge Hnow Hdl. rewrite (gen_timeline_advance_eq cd ord tl w Hord Hnd Hge).
  unfold tl_advance. rewrite Hdl. destruct (zmin_list (deadlines st)) as [D|] eqn:Ez.
  - assert (Hne : G.py_is_empty (deadlines st) = false) by (destruct (deadlines st); [discriminate|reflexivity]).
    rewrite Hne. eexists _, _. split; [reflexivity|]. cbn [e_now G.PyTimeline_now G.PyTimeline_wakers].
    split; [reflexivity|]. split; [reflexivity|]. rewrite <- Hdl. clear.
    induction (G.PyTimeline_wakers tl) as [|[a b] l IH]; simpl; [reflexivity|].
    destruct (b =? D); simpl; [exact IH|f_equal; exact IH].
  - assert (Hd : deadlines st = []) by (destruct (deadlines st); [reflexivity|discriminate]).
    rewrite Hd. eexists _, _. split; [reflexivity|]. split; [exact Hnow|]. split; [reflexivity|].
    rewrite <- Hd, <- Hdl. clear -Hdl Hd. rewrite Hd in Hdl. destruct (G.PyTimeline_wakers tl); [reflexivity|discriminate].
Qed.

(* ------------------------------------------------------------------ PySimEngine.step_design = Engine.settle *)
Lemma while_S {S} (cond : S -> bool) body fuel (s : S) :
  G.py_while cond body (Datatypes.S fuel) s =
  if cond s then match body s with Some s' => G.py_while cond body fuel s' | None => None end else Some s.
Proof. reflexivity. Qed.

(* Instance of the callbacks with the phases of the model (W = estate).  The three sets are iterated in the orders
   of the oracle: `_active_triggers` is presented as the oracle's owner list (trig_step itself skips owners whose
   trigger is not active, so listing more than the active ones changes nothing), `_processes` as o_proc,
   `pending` inside the commit as o_commit. *)
Definition enc (o : owner) : nat := match o with OProc k => 2 * k | OTb k => S (2 * k) end.
Definition dec (n : nat) : owner := if Nat.even n then OProc (Nat.div2 n) else OTb (Nat.div2 n).
Lemma dec_enc o : dec (enc o) = o.
Proof.
  destruct o as [k|k]; unfold dec, enc.
  - replace (Nat.even (2 * k)) with true by (symmetry; apply Nat.even_spec; exists k; lia).
    rewrite Nat.div2_double. reflexivity.
  - destruct (Nat.even (S (2 * k))) eqn:E; [apply Nat.even_spec in E; destruct E; lia|].
    rewrite Nat.div2_succ_double. reflexivity.
Qed.

Definition m_get_active (orc : oracle) (st : estate) : list nat := map enc (o_trig (orc (e_deltas st))).
Definition m_trig_run (n : nat) (st : estate) : estate := trig_step st (dec n).
Definition m_runnable (k : nat) (st : estate) : bool := ps_run (nth k (e_procs st) no_pstate).
Definition m_set_runnable (k : nat) (b : bool) (st : estate) : estate :=
  let p := nth k (e_procs st) no_pstate in
  ES (e_slots st) (set_nth k (PS b (ps_local p) (ps_timer p) (ps_trig p) (ps_res p) (ps_first p)) (e_procs st))
     (e_tbs st) (e_now st) (e_deltas st) (e_trace st).
Definition m_proc_run (ps : list proc) (k : nat) (st : estate) : estate :=
  let p := nth k (e_procs st) no_pstate in
  let (p', ws) := proc_step (nth k ps no_proc) (e_now st) p (currs (e_slots st)) (nexts (e_slots st)) in
  ES (apply_writes ws (e_slots st)) (set_nth k p' (e_procs st)) (e_tbs st) (e_now st) (e_deltas st) (e_trace st).
Definition m_commit (ps : list proc) (orc : oracle) (changed : option (list G.pychange)) (st : estate)
  : option (bool * estate) :=
  let (st3, ch) := fold_left (commit_slot ps) (o_commit (orc (e_deltas st))) (st, false) in
  Some (negb ch, ES (clear_pending (e_slots st3)) (e_procs st3) (e_tbs st3) (e_now st3) (S (e_deltas st3)) (e_trace st3)).

Lemma set_nth_set_nth {A} k (x y : A) l : set_nth k x (set_nth k y l) = set_nth k x l.
Proof. revert k; induction l; destruct k; simpl; auto. f_equal; auto. Qed.

Lemma nth_set_nth_same {A} k (x d : A) l : (k < length l)%nat -> nth k (set_nth k x l) d = x.
Proof. revert k; induction l; destruct k; simpl; intros; try lia; auto. apply IHl. lia. Qed.

Lemma m_proc_step ps k st :
  (if m_runnable k st then m_proc_run ps k (m_set_runnable k false st) else st) = run_proc ps st k.
Proof.
  unfold run_proc, m_runnable. destruct (ps_run (nth k (e_procs st) no_pstate)) eqn:Er; [|reflexivity].
  assert (Hk : (k < length (e_procs st))%nat).
  { destruct (Nat.lt_ge_cases k (length (e_procs st))); [assumption|]. rewrite nth_overflow in Er by assumption. discriminate. }
  unfold m_proc_run, m_set_runnable. cbn [e_slots e_procs e_tbs e_now e_deltas e_trace].
  rewrite nth_set_nth_same by assumption.
  destruct (nth k (e_procs st) no_pstate) as [r l t T rs f] eqn:Ep. cbn [ps_local ps_timer ps_trig ps_res ps_first].
  assert (E : proc_step (nth k ps no_proc) (e_now st) (PS false l t T rs f) (currs (e_slots st)) (nexts (e_slots st))
            = proc_step (nth k ps no_proc) (e_now st) (PS r l t T rs f) (currs (e_slots st)) (nexts (e_slots st))) by reflexivity.
  rewrite E. destruct (proc_step _ _ _ _ _) as [p' ws]. rewrite set_nth_set_nth. reflexivity.
Qed.

Lemma fold_left_map' {A B C} (f : A -> B -> A) (g : C -> B) l a :
  fold_left f (map g l) a = fold_left (fun a x => f a (g x)) l a.
Proof. revert a; induction l; intros; simpl; auto. Qed.
Lemma fold_left_ext' {A B} (f g : A -> B -> A) l a : (forall a x, f a x = g a x) -> fold_left f l a = fold_left g l a.
Proof. intros H. revert a; induction l; intros; simpl; [reflexivity|]. rewrite H. apply IHl. Qed.

Lemma foldM_total {A B} (f : A -> B -> A) l a :
  G.py_foldM (fun a x => Some (f a x)) l a = Some (fold_left f l a).
Proof. revert a; induction l; intros; [reflexivity|]. rewrite foldM_cons. apply IHl. Qed.

(* the loop of step_design, given what its condition and body compute *)
Lemma step_loop ps orc (cond : estate * Z * bool -> bool) body :
  (forall s dc cv, cond (s, dc, cv) = negb cv) ->
  (forall st dc cv, body (st, dc, cv) = let (st', conv) := run_delta ps (orc (e_deltas st)) st in Some (st', dc + 1, conv)) ->
  forall fuel dc st,
    match G.py_while cond body (S fuel) (st, dc, false) with
    | Some (st', _, cv) => settle ps orc fuel st = (st', true) /\ cv = true
    | None => snd (settle ps orc fuel st) = false
    end.
Proof.
  intros Hcond Hbody. induction fuel as [|fuel IH]; intros dc st.
  - rewrite while_S, Hcond. cbn [negb]. rewrite Hbody. destruct (run_delta ps (orc (e_deltas st)) st) as [st' conv].
    reflexivity.
  - rewrite while_S, Hcond. cbn [negb]. rewrite Hbody. cbn [settle].
    destruct (run_delta ps (orc (e_deltas st)) st) as [st' conv].
    destruct conv.
    + rewrite while_S, Hcond. cbn [negb]. split; reflexivity.
    + apply IH.
Qed.

Lemma e_deltas_trig o : forall s0, e_deltas (fold_left trig_step o s0) = e_deltas s0.
Proof.
  induction o; intros; simpl; [reflexivity|]. rewrite IHo. unfold trig_step. destruct a as [k|k];
  [destruct (t_active _)|destruct (t_active _)]; reflexivity.
Qed.
Lemma e_deltas_procs ps o : forall s0, e_deltas (fold_left (run_proc ps) o s0) = e_deltas s0.
Proof.
  induction o; intros; simpl; [reflexivity|]. rewrite IHo. unfold run_proc. destruct (ps_run _); [|reflexivity].
  destruct (proc_step _ _ _ _ _). reflexivity.
Qed.

(* one iteration of the generated loop body = run_delta (used for step_design and for its inlined copy in advance) *)
Ltac step_body ps orc Hp :=
  let s := fresh "s" in let dc := fresh "dc" in let cv := fresh "cv" in
  intros s dc cv; unfold m_get_active; rewrite foldM_total; rewrite fold_left_map';
  rewrite (foldM_ext_inv (fun _ => True) _ (fun a x => Some (run_proc ps a x))); auto;
  [ rewrite foldM_total; unfold m_commit, run_delta; rewrite <- (Hp (e_deltas s));
    rewrite e_deltas_procs;
    replace (fold_left (fun (a : estate) (b : owner) => m_trig_run (enc b) a) (o_trig (orc (e_deltas s))) s)
      with (fold_left trig_step (o_trig (orc (e_deltas s))) s)
      by (apply fold_left_ext'; intros; unfold m_trig_run; rewrite dec_enc; reflexivity);
    rewrite e_deltas_trig; destruct (fold_left (commit_slot ps) _ _) as [? ?]; reflexivity
  | intros a x _; rewrite <- m_proc_step; destruct (m_runnable x a); reflexivity ].

(* step_design() = settle: for every oracle whose process order is the engine's iteration order of `_processes`.
   Fuel: the generated loop needs one more unit than `settle` (it tests `converged` once more before leaving);
   None = not converged within the fuel.  No VCD writer is attached (pyvcd is absent; `changed` is then None). *)
Lemma gen_step_design_eq ps orc procs fuel eng st :
  (forall n, o_proc (orc n) = procs) -> G.PySimEngine__processes eng = procs -> G.PySimEngine__vcd_writers eng = [] ->
  option_map snd
    (G.PySimEngine_step_design (m_get_active orc) (fun st => st) m_trig_run m_runnable m_set_runnable (m_proc_run ps)
       (m_commit ps orc) (fun l => l) (S fuel) eng st)
  = let (st', conv) := settle ps orc fuel st in if conv then Some st' else None.
Proof.
  intros Hp Hpe Hv. unfold G.PySimEngine_step_design. rewrite Hpe, Hv. cbv zeta. cbn [G.py_is_empty negb].
  match goal with |- context [G.py_while ?c ?b _ _] => set (cond := c); set (body := b) end.
  assert (Hcond : forall (s : estate) (dc : Z) cv, cond (s, dc, cv) = negb cv) by reflexivity.
  assert (Hbody : forall st dc cv,
            body (st, dc, cv) = let (st', conv) := run_delta ps (orc (e_deltas st)) st in Some (st', dc + 1, conv)).
  { unfold body. step_body ps orc Hp. }
  pose proof (step_loop ps orc cond body Hcond Hbody fuel (G.PySimEngine__delta_cycles eng) st) as H.
  destruct (G.py_while cond body (S fuel) (st, G.PySimEngine__delta_cycles eng, false)) as [[[st' dc'] cv]|].
  - destruct H as [H _]. rewrite H. reflexivity.
  - destruct (settle ps orc fuel st) as [st' conv]. cbn [snd] in H. subst conv. reflexivity.
Qed.

(* ------------------------------------------------------------------ PySimEngine.advance = Engine.advance *)
(* the number of testbenches never changes *)
Lemma set_nth_len {A} n (x : A) l : length (set_nth n x l) = length l.
Proof. revert n; induction l; destruct n; simpl; auto. Qed.

Lemma len_trig_step st o : length (e_tbs (trig_step st o)) = length (e_tbs st).
Proof. unfold trig_step. destruct o; destruct (t_active _); simpl; rewrite ?set_nth_len; reflexivity. Qed.
Lemma len_run_proc ps st k : length (e_tbs (run_proc ps st k)) = length (e_tbs st).
Proof. unfold run_proc. destruct (ps_run _); [|reflexivity]. destruct (proc_step _ _ _ _ _). reflexivity. Qed.
Lemma len_commit_slot ps x i : length (e_tbs (fst (commit_slot ps x i))) = length (e_tbs (fst x)).
Proof.
  destruct x as [st ch]. unfold commit_slot. destruct (nth_error _ _); [|reflexivity].
  destruct (_ && _); [|reflexivity]. simpl. apply map_length.
Qed.
Lemma len_fold {A} (f : estate -> A -> estate) : (forall s a, length (e_tbs (f s a)) = length (e_tbs s)) ->
  forall l s, length (e_tbs (fold_left f l s)) = length (e_tbs s).
Proof. intros H. induction l; intros; simpl; [reflexivity|]. rewrite IHl. apply H. Qed.
Lemma len_run_delta ps o st : length (e_tbs (fst (run_delta ps o st))) = length (e_tbs st).
Proof.
  unfold run_delta.
  assert (H : forall l x, length (e_tbs (fst (fold_left (commit_slot ps) l x))) = length (e_tbs (fst x))).
  { induction l; intros; simpl; [reflexivity|]. rewrite IHl. apply len_commit_slot. }
  specialize (H (o_commit o) (fold_left (run_proc ps) (o_proc o) (fold_left trig_step (o_trig o) st), false)).
  destruct (fold_left (commit_slot ps) _ _) as [st3 ch]. simpl in *. rewrite H.
  rewrite (len_fold (run_proc ps) (len_run_proc ps)). apply (len_fold trig_step len_trig_step).
Qed.
Lemma len_settle ps orc fuel : forall st, length (e_tbs (fst (settle ps orc fuel st))) = length (e_tbs st).
Proof.
  induction fuel; intros; simpl; [reflexivity|].
  pose proof (len_run_delta ps (orc (e_deltas st)) st). destruct (run_delta _ _ _) as [st' conv]. simpl in H.
  destruct conv; simpl; [exact H|]. rewrite IHfuel. exact H.
Qed.
Lemma len_tb_put st k t tr : length (e_tbs (tb_put st k t tr)) = length (e_tbs st).
Proof. unfold tb_put. simpl. apply set_nth_len. Qed.
Lemma len_tb_set ps orc sf sig sh v st : length (e_tbs (tb_set ps orc sf sig sh v st)) = length (e_tbs st).
Proof. unfold tb_set. rewrite len_settle. reflexivity. Qed.

Lemma len_tb_exec ps orc sf fuel : forall k st, length (e_tbs (tb_exec ps orc sf fuel k st)) = length (e_tbs st).
Proof.
  induction fuel; intros; [reflexivity|]. cbn [tb_exec].
  repeat match goal with
  | |- context [match ?x with _ => _ end] => destruct x
  | |- context [if ?x then _ else _] => destruct x
  end; rewrite ?IHfuel, ?len_tb_put, ?len_tb_set; try reflexivity.
Qed.

Lemma len_tb_pass ps orc sf ks : forall acc,
  length (e_tbs (fst (tb_pass ps orc sf ks acc))) = length (e_tbs (fst acc)).
Proof.
  induction ks as [|k ks IH]; intros [st ran]; [reflexivity|]. cbn [tb_pass].
  destruct (tb_run (nth k (e_tbs st) no_tb)); rewrite IH; cbn [fst]; [|reflexivity].
  rewrite len_tb_exec, len_tb_put. reflexivity.
Qed.

Lemma len_tb_loop ps orc sf fuel : forall st, length (e_tbs (tb_loop ps orc sf fuel st)) = length (e_tbs st).
Proof.
  induction fuel; intros; cbn [tb_loop]; [reflexivity|].
  pose proof (len_tb_pass ps orc sf (seq 0 (length (e_tbs st))) (st, false)) as Hl.
  destruct (tb_pass _ _ _ _ _) as [s' ran]. cbn [fst] in Hl. destruct ran; [rewrite IHfuel|]; exact Hl.
Qed.
Lemma len_tl_advance st : length (e_tbs (tl_advance st)) = length (e_tbs st).
Proof. unfold tl_advance. destruct (zmin_list _); [cbn [e_tbs]; apply map_length|reflexivity]. Qed.

Definition m_tb_runnable (k : nat) (st : estate) : bool := tb_run (nth k (e_tbs st) no_tb).
Definition m_tb_set_runnable (k : nat) (b : bool) (st : estate) : estate :=
  let t := nth k (e_tbs st) no_tb in
  tb_put st k (TB b (tb_ops t) (tb_trig t) (tb_res t) (tb_mode t) (tb_cnt t) (tb_critical t)) [].
Definition m_tb_run ps orc sf (k : nat) (st : estate) : estate :=
  tb_exec ps orc sf (tb_fuel (nth k (e_tbs st) no_tb)) k st.
Definition m_tb_critical (k : nat) (st : estate) : bool := tb_critical (nth k (e_tbs st) no_tb).
Definition m_timeline_advance (st : estate) : option (bool * estate) :=
  Some (negb (G.py_is_empty (deadlines st)), tl_advance st).

(* one pass over the testbench list *)
Lemma tb_pass_gen ps orc sf ks : forall st ran,
  G.py_foldM (fun '(w_, converged) testbench =>
     if m_tb_runnable testbench w_ then
       Some (m_tb_run ps orc sf testbench (m_tb_set_runnable testbench false w_), false)
     else Some (w_, converged)) ks (st, negb ran)
  = Some (let (st', ran') := tb_pass ps orc sf ks (st, ran) in (st', negb ran')).
Proof.
  induction ks as [|k ks IH]; intros st ran; [reflexivity|].
  rewrite foldM_cons. cbv beta iota. cbn [tb_pass]. unfold m_tb_runnable at 1.
  destruct (tb_run (nth k (e_tbs st) no_tb)) eqn:Er.
  - assert (Hk : (k < length (e_tbs st))%nat).
    { destruct (Nat.lt_ge_cases k (length (e_tbs st))); [assumption|]. rewrite nth_overflow in Er by assumption. discriminate. }
    assert (E : m_tb_run ps orc sf k (m_tb_set_runnable k false st) =
                tb_exec ps orc sf (tb_fuel (nth k (e_tbs st) no_tb)) k
                  (tb_put st k (TB false (tb_ops (nth k (e_tbs st) no_tb)) (tb_trig (nth k (e_tbs st) no_tb))
                                   (tb_res (nth k (e_tbs st) no_tb)) (tb_mode (nth k (e_tbs st) no_tb))
                                   (tb_cnt (nth k (e_tbs st) no_tb)) (tb_critical (nth k (e_tbs st) no_tb))) [])).
    { unfold m_tb_run, m_tb_set_runnable. cbv zeta. f_equal.
      unfold tb_put. cbn [e_tbs]. rewrite nth_set_nth_same by assumption. reflexivity. }
    rewrite E. exact (IH _ true).
  - apply IH.
Qed.

Lemma tb_loop_gen ps orc sf n (cond : estate * bool -> bool) body :
  (forall s cv, cond (s, cv) = negb cv) ->
  (forall st cv, length (e_tbs st) = n ->
     body (st, cv) = Some (let (st', ran) := tb_pass ps orc sf (seq 0 n) (st, false) in (st', negb ran))) ->
  forall fuel st, length (e_tbs st) = n ->
    match G.py_while cond body (S fuel) (st, false) with
    | Some (st', _) => st' = tb_loop ps orc sf fuel st
    | None => True
    end.
Proof.
  intros Hcond Hbody. induction fuel as [|fuel IH]; intros st Hn.
  - rewrite while_S, Hcond. cbn [negb]. rewrite Hbody by assumption.
    destruct (tb_pass _ _ _ _ _) as [st' ran]. exact I.
  - rewrite while_S, Hcond. cbn [negb]. rewrite Hbody by assumption. cbn [tb_loop]. rewrite Hn.
    pose proof (len_tb_pass ps orc sf (seq 0 n) (st, false)) as Hl.
    destruct (tb_pass ps orc sf (seq 0 n) (st, false)) as [st' ran]. cbn [fst] in Hl.
    destruct ran; cbn [negb].
    + apply IH. lia.
    + rewrite while_S, Hcond. reflexivity.
Qed.

Lemma existsb_seq_nth {A} (f : A -> bool) d l : f d = false ->
  existsb (fun k => f (nth k l d)) (seq 0 (length l)) = existsb f l.
Proof.
  intros Hd. induction l as [|h t IH]; [reflexivity|]. cbn [length seq existsb nth]. f_equal.
  rewrite <- seq_shift. rewrite <- IH. clear. generalize (seq 0 (length t)).
  induction l; simpl; [reflexivity|]. f_equal. exact IHl.
Qed.

(* advance(): whenever the generated function returns (both loops finish within the fuel), its world and its result
   are those of the model's advance with sfuel = tfuel = the fuel less one: step_design, the testbench passes in
   insertion order until none ran, the timeline step, and "is anything critical" (the model has no critical
   processes: proc_critical is constantly false). *)
Lemma gen_advance_eq ps orc procs f eng st r eng' st' :
  (forall n, o_proc (orc n) = procs) -> G.PySimEngine__processes eng = procs -> G.PySimEngine__vcd_writers eng = [] ->
  G.PySimEngine__testbenches eng = seq 0 (length (e_tbs st)) ->
  G.PySimEngine_advance (m_get_active orc) (fun st => st) m_trig_run m_runnable m_set_runnable (m_proc_run ps)
    (fun _ _ => false) m_tb_runnable m_tb_set_runnable (m_tb_run ps orc f) m_tb_critical (m_commit ps orc)
    m_timeline_advance (fun l => l) (S f) eng st = Some (r, eng', st') ->
  advance ps orc f f st = (st', r).
Proof.
  intros Hp Hpe Hv Htb. unfold G.PySimEngine_advance. rewrite Hpe, Hv, Htb. cbv zeta. cbn [G.py_is_empty negb].
  match goal with |- context [G.py_while ?c ?b (S f) (st, _, false)] => set (cond := c); set (body := b) end.
  assert (Hcond : forall (s : estate) (dc : Z) cv, cond (s, dc, cv) = negb cv) by reflexivity.
  assert (Hbody : forall st dc cv,
            body (st, dc, cv) = let (st', conv) := run_delta ps (orc (e_deltas st)) st in Some (st', dc + 1, conv)).
  { unfold body. step_body ps orc Hp. }
  pose proof (step_loop ps orc cond body Hcond Hbody f (G.PySimEngine__delta_cycles eng) st) as H1.
  destruct (G.py_while cond body (S f) (st, G.PySimEngine__delta_cycles eng, false)) as [[[st1 dc1] cv1]|]; [|discriminate].
  destruct H1 as [H1 _].
  match goal with |- context [G.py_while ?c ?b (S f) (st1, false)] => set (cond2 := c); set (body2 := b) end.
  assert (Hcond2 : forall (s : estate) cv, cond2 (s, cv) = negb cv) by reflexivity.
  assert (Hl1 : length (e_tbs st1) = length (e_tbs st)).
  { pose proof (len_settle ps orc f st) as Hl. rewrite H1 in Hl. exact Hl. }
  assert (Hbody2 : forall s cv, length (e_tbs s) = length (e_tbs st) ->
            body2 (s, cv) = Some (let (s', ran) := tb_pass ps orc f (seq 0 (length (e_tbs st))) (s, false) in (s', negb ran))).
  { intros s cv _. unfold body2. change true with (negb false) at 1.
    rewrite (tb_pass_gen ps orc f (seq 0 (length (e_tbs st))) s false).
    destruct (tb_pass ps orc f (seq 0 (length (e_tbs st))) (s, false)); reflexivity. }
  pose proof (tb_loop_gen ps orc f (length (e_tbs st)) cond2 body2 Hcond2 Hbody2 f st1 Hl1) as H2.
  destruct (G.py_while cond2 body2 (S f) (st1, false)) as [[st2 cv2]|]; [|discriminate].
  unfold m_timeline_advance at 1. cbv beta iota zeta.
  rewrite (foldM_ext_inv (fun _ => True) _ (fun a _ => Some a)); auto.
  2: { intros a x _. destruct a; reflexivity. }
  rewrite foldM_total.
  replace (fold_left (fun (a : option bool) (_ : nat) => a) procs None) with (@None bool)
    by (clear; induction procs; simpl; auto).
  cbv beta iota.
  set (st3 := tl_advance st2).
  assert (Hl3 : length (e_tbs st3) = length (e_tbs st)).
  { unfold st3. rewrite len_tl_advance. subst st2. rewrite len_tb_loop. exact Hl1. }
  assert (Hcrit : G.py_foldM (fun (ret_ : option bool) (runnable : nat) =>
             match ret_ with
             | Some _ => Some ret_
             | None => if m_tb_critical runnable st3 then Some (Some true) else Some ret_
             end) (seq 0 (length (e_tbs st))) None
           = Some (if existsb tb_critical (e_tbs st3) then Some true else None)).
  { rewrite <- Hl3. rewrite <- (existsb_seq_nth tb_critical no_tb (e_tbs st3) eq_refl).
    generalize (seq 0 (length (e_tbs st3))). clear.
    assert (G1 : forall l, G.py_foldM (fun (ret_ : option bool) (runnable : nat) =>
              match ret_ with Some _ => Some ret_
              | None => if m_tb_critical runnable st3 then Some (Some true) else Some ret_ end) l (Some true) = Some (Some true)).
    { induction l; [reflexivity|]. rewrite foldM_cons. exact IHl. }
    induction l as [|k l IH]; [reflexivity|]. rewrite foldM_cons. cbn [existsb]. unfold m_tb_critical at 1.
    destruct (tb_critical (nth k (e_tbs st3) no_tb)); [apply G1|exact IH]. }
  rewrite Hcrit. unfold advance. rewrite H1. cbn [fst]. rewrite <- H2. fold st3.
  destruct (existsb tb_critical (e_tbs st3)); intros E; inversion E; reflexivity.
Qed.

(* ------------------------------------------------------------------ _PyMemoryState (model: Mem.v) *)
Definition mem_obj (s : shape) (depth : Z) (rows : list Z) (q : wqueue) (wk : list nat) : G.PyMemoryState :=
  G.Build_PyMemoryState depth s rows q wk.

Lemma dict_get_qget q a : G.py_dict_get Z.eqb q a = qget q a.
Proof. induction q as [|[k v] r IH]; simpl; [reflexivity|]. rewrite IH. reflexivity. Qed.
Lemma dict_set_qset q a v : G.py_dict_set Z.eqb q a v = qset q a v.
Proof. induction q as [|[k x] r IH]; simpl; [reflexivity|]. rewrite IH. reflexivity. Qed.

Lemma list_get_nth (rows : list Z) a : 0 <= a < Z.of_nat (length rows) ->
  G.py_list_get rows a = Some (nth (Z.to_nat a) rows 0).
Proof.
  intros H. unfold G.py_list_get, G.py_index.
  destruct (a <? 0) eqn:E; [lia|]. destruct ((a <? 0) || (Z.of_nat (length rows) <=? a)) eqn:E2; [lia|].
  apply nth_error_nth'. lia.
Qed.

(* read(addr) *)
Lemma gen_memory_read_eq s depth rows q wk a : depth <= Z.of_nat (length rows) ->
  G.PyMemoryState_read (mem_obj s depth rows q wk) a = Some (ms_read depth rows a).
Proof.
  intros Hd. unfold G.PyMemoryState_read, ms_read, in_depth, mem_obj. cbn.
  destruct ((0 <=? a) && (a <? depth)) eqn:E; [|reflexivity]. rewrite list_get_nth by lia. reflexivity.
Qed.

Lemma sign_fix_gen s v : 0 <= width s ->
  (if sgn s then
     if negb (Z.land v (Z.shiftl 1 (width s - 1)) =? 0) then Z.lor v (Z.shiftl (- (1)) (width s))
     else Z.land v (Z.shiftl 1 (width s) - 1)
   else v) = sign_fix s v.
Proof.
  intros Hw. unfold sign_fix. destruct (sgn s); [|reflexivity].
  rewrite (Z.shiftl_mul_pow2 (- (1)) (width s)), (Z.shiftl_mul_pow2 1 (width s)) by lia. rewrite Z.mul_1_l.
  replace (- (1) * 2 ^ width s) with (- 2 ^ width s) by lia.
  assert (Hb : negb (Z.land v (Z.shiftl 1 (width s - 1)) =? 0) = Z.testbit v (width s - 1)).
  { destruct (Z.testbit v (width s - 1)) eqn:Et.
    - apply negb_true_iff, Z.eqb_neq. intros H.
      assert (Z.testbit (Z.land v (Z.shiftl 1 (width s - 1))) (width s - 1) = false) by (rewrite H; apply Z.testbit_0_l).
      rewrite Z.land_spec, Et in H0. destruct (Z_lt_le_dec (width s - 1) 0) as [L|L].
      + rewrite Z.testbit_neg_r in Et by lia. discriminate.
      + rewrite Z.shiftl_spec, Z.sub_diag in H0 by lia. discriminate.
    - apply negb_false_iff, Z.eqb_eq. apply Z.bits_inj'. intros n Hn. rewrite Z.land_spec, Z.testbit_0_l.
      destruct (Z.eq_dec n (width s - 1)) as [->|Hne]; [rewrite Et; reflexivity|].
      destruct (Z_lt_le_dec (width s - 1) 0) as [L|L].
      + rewrite Z.shiftl_spec by lia. replace (Z.testbit 1 (n - (width s - 1))) with false; [apply andb_false_r|].
        symmetry. change 1 with (2 ^ 0). apply Z.pow2_bits_false. lia.
      + rewrite Z.shiftl_spec by lia. replace (Z.testbit 1 (n - (width s - 1))) with false; [apply andb_false_r|].
        symmetry. destruct (Z_lt_le_dec (n - (width s - 1)) 0); [apply Z.testbit_neg_r; lia|].
        change 1 with (2 ^ 0). apply Z.pow2_bits_false. lia. }
  rewrite Hb. reflexivity.
Qed.

(* write(addr, value, mask) with a mask (both callers pass one).  Guards: the data list has `depth` rows (reset()
   builds it from the memory's init, and nothing changes its length); shapes have width >= 0 (for a negative width
   Python's `1 << width` raises, Z.shiftl shifts right). *)
Lemma gen_memory_write_eq i s depth rows q wk p a v m : depth <= Z.of_nat (length rows) -> 0 <= width s ->
  G.PyMemoryState_write i (mem_obj s depth rows q wk) p a v (Some m) =
  Some (mem_obj s depth rows (ms_write s depth rows q a v m) wk,
        if in_depth depth a then G.py_set_add Nat.eqb p i else p).
Proof.
  intros Hd Hw. unfold G.PyMemoryState_write, ms_write, in_depth, mem_obj, wrv. cbn.
  destruct ((0 <=? a) && (a <? depth)) eqn:E; [|reflexivity].
  unfold G.py_dict_mem. rewrite dict_get_qget.
  destruct (qget q a) as [cur|] eqn:Eq; cbn [negb].
  - rewrite <- (sign_fix_gen s _ Hw).
    destruct (sgn s); [destruct (negb _)|]; rewrite dict_set_qset; reflexivity.
  - rewrite list_get_nth by lia. rewrite dict_get_qget, dict_set_qset.
    assert (Eg : qget (qset q a (nth (Z.to_nat a) rows 0)) a = Some (nth (Z.to_nat a) rows 0)).
    { clear -Eq. induction q as [|[k x] r IH]; simpl in *; [rewrite Z.eqb_refl; reflexivity|].
      destruct (k =? a) eqn:E; [discriminate|]. simpl. rewrite E. apply IH, Eq. }
    rewrite Eg. rewrite <- (sign_fix_gen s _ Hw).
    assert (Es : forall x, qset (qset q a (nth (Z.to_nat a) rows 0)) a x = qset q a x).
    { clear. intros x. induction q as [|[k y] r IH]; simpl; [rewrite Z.eqb_refl; reflexivity|].
      destruct (k =? a) eqn:E; simpl; rewrite E; [reflexivity|]. f_equal. exact IH. }
    destruct (sgn s); [destruct (negb _)|]; rewrite dict_set_qset, Es; reflexivity.
Qed.

(* without a mask (`mask=None`) the value is taken whole: the same as the all-ones mask *)
Lemma gen_memory_write_nomask i g p a v :
  G.PyMemoryState_write i g p a v None = G.PyMemoryState_write i g p a v (Some (-1)).
Proof.
  unfold G.PyMemoryState_write. destruct g as [depth s rows q wk]. cbn.
  destruct ((0 <=? a) && (a <? depth)); [|reflexivity].
  assert (Hm : forall t, Z.lor (Z.land v (-1)) (Z.land t (Z.lnot (-1))) = v).
  { intros t. rewrite Z.land_m1_r. change (Z.lnot (-1)) with 0. rewrite Z.land_0_r, Z.lor_0_r. reflexivity. }
  destruct (negb (G.py_dict_mem Z.eqb q a)) eqn:En.
  - destruct (G.py_list_get rows a) as [r0|]; [|reflexivity].
    destruct (G.py_dict_get Z.eqb (G.py_dict_set Z.eqb q a r0) a) as [t|] eqn:Eg.
    + rewrite Hm. reflexivity.
    + exfalso. clear -Eg. induction q as [|[k x] r IH]; simpl in Eg; [rewrite Z.eqb_refl in Eg; discriminate|].
      destruct (k =? a) eqn:E; simpl in Eg; rewrite E in Eg; [discriminate|auto].
  - destruct (G.py_dict_get Z.eqb q a) as [t|] eqn:Eg.
    + rewrite Hm. reflexivity.
    + exfalso. unfold G.py_dict_mem in En. rewrite Eg in En. discriminate.
Qed.

(* commit(): the queued rows are written in queue order; `changed` accumulates over the rows *)
Fixpoint writes_change (rows : list Z) (q : wqueue) : bool :=
  match q with
  | [] => false
  | (a, v) :: r => negb (nth (Z.to_nat a) rows 0 =? v) || writes_change (upd rows (Z.to_nat a) v) r
  end.

Lemma py_set_nth_upd n v (rows : list Z) : G.py_set_nth n v rows = upd rows n v.
Proof. revert n; induction rows; destruct n; simpl; auto. f_equal; auto. Qed.

Lemma upd_length' rows n v : length (upd rows n v) = length rows.
Proof. revert n; induction rows; destruct n; simpl; auto. Qed.

Lemma upd_same rows n : upd rows n (nth n rows 0) = rows.
Proof. revert n; induction rows; destruct n; simpl; auto. f_equal; auto. Qed.

Lemma memory_commit_loop q : forall data ch,
  Forall (fun kv => 0 <= fst kv < Z.of_nat (length data)) q ->
  G.py_foldM (fun '(self_data, changed) '(addr, value) =>
     match G.py_list_get self_data addr with
     | Some t3_ =>
         if negb (t3_ =? value) then
           match G.py_list_set self_data addr value with
           | Some t4_ => Some (t4_, true)
           | None => None
           end
         else Some (self_data, changed)
     | None => None
     end) q (data, ch)
  = Some (ms_commit data q, ch || writes_change data q).
Proof.
  induction q as [|[a v] q IH]; intros data ch Hr.
  - rewrite foldM_nil. simpl. rewrite orb_false_r. reflexivity.
  - inversion Hr as [|? ? Ha Hr']; subst. cbn [fst] in Ha. rewrite foldM_cons. cbv beta iota.
    rewrite list_get_nth by lia. unfold ms_commit. cbn [fold_left fst snd writes_change].
    destruct (nth (Z.to_nat a) data 0 =? v) eqn:E; cbn [negb].
    + apply Z.eqb_eq in E. rewrite <- E, !upd_same. rewrite IH by assumption. reflexivity.
    + unfold G.py_list_set, G.py_index. destruct (a <? 0) eqn:E1; [lia|].
      destruct ((a <? 0) || (Z.of_nat (length data) <=? a)) eqn:E2; [lia|].
      rewrite py_set_nth_upd. rewrite IH.
      * rewrite orb_true_r. reflexivity.
      * rewrite upd_length'. exact Hr'.
Qed.

(* Guards: commit() is only called on a pending state (non-empty queue: the `assert`); queued addresses are rows of
   the data list (write() only queues addresses in range(depth)). *)
Lemma gen_memory_commit_eq {W} (call : nat -> unit -> W -> bool * W) s depth rows q wk w :
  q <> [] -> Forall (fun kv => 0 <= fst kv < Z.of_nat (length rows)) q ->
  G.PyMemoryState_commit call (mem_obj s depth rows q wk) w =
  let (wk', w') := retain call tt wk w in
  Some (writes_change rows q, mem_obj s depth (ms_commit rows q) [] wk', w').
Proof.
  intros Hq Hr. unfold G.PyMemoryState_commit, mem_obj. cbn.
  destruct q as [|kv q]; [contradiction|]. cbn [G.py_is_empty negb].
  rewrite gen_run_wakers_eq. destruct (retain call tt wk w) as [wk' w']. cbv beta iota zeta.
  rewrite (memory_commit_loop (kv :: q) rows false Hr). reflexivity.
Qed.

(* `changed` is exactly "the data changed" (keys of a dict are distinct) *)
Lemma nth_upd' rows n v k : nth k (upd rows n v) 0 = if Nat.eqb k n && Nat.ltb n (length rows) then v else nth k rows 0.
Proof.
  revert n k; induction rows as [|h t IH]; intros n k; simpl.
  - rewrite andb_false_r. destruct n; reflexivity.
  - destruct n, k; simpl; auto. rewrite IH. reflexivity.
Qed.

Lemma ms_commit_untouched q : forall rows k, ~ In (Z.of_nat k) (map fst q) ->
  Forall (fun kv => 0 <= fst kv) q -> nth k (ms_commit rows q) 0 = nth k rows 0.
Proof.
  induction q as [|[a v] q IH]; intros rows k Hk Hp; [reflexivity|].
  unfold ms_commit. cbn [fold_left fst snd]. fold (ms_commit (upd rows (Z.to_nat a) v) q).
  inversion Hp; subst. cbn [fst] in *. rewrite IH; auto.
  - rewrite nth_upd'. destruct (Nat.eqb k (Z.to_nat a)) eqn:E; [|reflexivity].
    apply Nat.eqb_eq in E. exfalso. apply Hk. left. simpl. lia.
  - intros H. apply Hk. right. exact H.
Qed.

Lemma writes_change_spec q : forall rows,
  NoDup (map fst q) -> Forall (fun kv => 0 <= fst kv < Z.of_nat (length rows)) q ->
  (writes_change rows q = true <-> ms_commit rows q <> rows).
Proof.
  induction q as [|[a v] q IH]; intros rows Hnd Hr.
  - simpl. split; [discriminate|intros H; contradiction H; reflexivity].
  - inversion Hnd as [|? ? Ha Hnd']; subst. inversion Hr as [|? ? Hra Hr']; subst. cbn [fst] in *.
    cbn [writes_change]. unfold ms_commit. cbn [fold_left fst snd]. fold (ms_commit (upd rows (Z.to_nat a) v) q).
    assert (Hpos : Forall (fun kv : Z * Z => 0 <= fst kv) q) by (eapply Forall_impl; [|exact Hr']; simpl; intros; lia).
    assert (Hat : nth (Z.to_nat a) (ms_commit (upd rows (Z.to_nat a) v) q) 0 = v).
    { rewrite ms_commit_untouched; auto.
      - rewrite nth_upd', Nat.eqb_refl. replace (Nat.ltb (Z.to_nat a) (length rows)) with true; [reflexivity|].
        symmetry. apply Nat.ltb_lt. lia.
      - rewrite Z2Nat.id by lia. exact Ha. }
    destruct (nth (Z.to_nat a) rows 0 =? v) eqn:E; cbn [negb orb].
    + apply Z.eqb_eq in E. rewrite <- E. rewrite upd_same. apply IH; auto.
    + split; [intros _ H|reflexivity]. rewrite H in Hat. lia.
Qed.

(* NirP.v — proofs about Model/Nir.v (C06). *)
From Coq Require Import ZArith List Bool Arith Lia.
From V.Model Require Import Nir.
Import ListNotations.

(* ================================================================================================ *)
(* Part II — the cycle check                                                                        *)
(* ================================================================================================ *)

Lemma net_eqb_eq x y : net_eqb x y = true <-> x = y.
Proof.
  destruct x, y; simpl; split; intro H; try discriminate; try congruence.
  - apply andb_true_iff in H as [H1 H2]. apply Nat.eqb_eq in H1, H2. congruence.
  - inversion H; subst. now rewrite !Nat.eqb_refl.
  - apply Nat.eqb_eq in H. congruence.
  - inversion H; subst. now rewrite Nat.eqb_refl.
Qed.

Lemma nmem_In x l : nmem x l = true <-> In x l.
Proof.
  unfold nmem. rewrite existsb_exists. split.
  - intros [y [Hy He]]. apply net_eqb_eq in He. now subst.
  - intro H. exists x. split; [assumption | now apply net_eqb_eq].
Qed.

Lemma nmem_false x l : nmem x l = false <-> ~ In x l.
Proof.
  split.
  - intros H Hin. apply nmem_In in Hin. congruence.
  - intro H. destruct (nmem x l) eqn:E; [|reflexivity]. apply nmem_In in E. contradiction.
Qed.

(* ---------- soundness: a reported path is a closed chain of comb edges ---------- *)

(* p = [n_k; ...; n_1] (innermost first): n_k -> t, n_(k-1) -> n_k, ... *)
Fixpoint chain (g : netlist) (t : net) (p : list net) : Prop :=
  match p with
  | [] => True
  | x :: r => edge g x t /\ chain g x r
  end.

Lemma last_indep {A} : forall (l : list A) d d', l <> [] -> last l d = last l d'.
Proof.
  induction l as [|x r IH]; intros d d' H; [congruence|].
  destruct r as [|y r']; [reflexivity|]. simpl in *. apply IH. discriminate.
Qed.

Lemma last_cons {A} (x : A) r d : last (x :: r) d = last r x.
Proof. destruct r as [|y r']; [reflexivity|]. change (last (x :: y :: r') d) with (last (y :: r') d). apply last_indep. discriminate. Qed.

Lemma chain_app g : forall p t n, chain g t (p ++ [n]) <-> chain g t p /\ edge g n (last p t).
Proof.
  induction p as [|x r IH]; intros t n.
  - simpl. tauto.
  - rewrite last_cons. simpl. rewrite IH. tauto.
Qed.

Lemma last_app_one {A} (p : list A) (n d : A) : last (p ++ [n]) d = n.
Proof. induction p as [|x r IH]; simpl; [reflexivity|]. destruct (r ++ [n]) eqn:E; [destruct r; discriminate|]. exact IH. Qed.

Lemma reach_snoc g a b c : reach g a b -> edge g b c -> reach g a c.
Proof.
  intros R E. induction R.
  - eapply reach_step; [eassumption|]. now apply reach_one.
  - eapply reach_step; [eassumption|]. now apply IHR.
Qed.

Lemma chain_reach g : forall p t, chain g t p -> p <> [] -> reach g (last p t) t.
Proof.
  induction p as [|x r IH]; intros t Hc Hne; [congruence|].
  simpl in Hc. destruct Hc as [He Hc]. rewrite last_cons.
  destruct r as [|y r'].
  - simpl. now apply reach_one.
  - eapply reach_snoc; [|eassumption]. apply IH; [assumption|discriminate].
Qed.

(* what a result of traverse / trav_loop means *)
Definition res_ok (g : netlist) (n : net) (r : tres) : Prop :=
  match r with
  | TOk _ (Some (s, p)) => chain g s p /\ last p s = n
  | TRaise p => exists s m, chain g s p /\ p <> [] /\ last p s = m /\ (s = m \/ In s (extras g m))
  | _ => True
  end.
Definition loop_ok (g : netlist) (n : net) (r : tres) : Prop :=
  match r with
  | TOk _ (Some (s, p)) => chain g s p /\ last p s = n /\ p <> []
  | TRaise p => exists s m, chain g s p /\ p <> [] /\ last p s = m /\ (s = m \/ In s (extras g m))
  | _ => True
  end.

Lemma trav_loop_ok g trav n :
  (forall s st, res_ok g s (trav s st)) ->
  forall ss st, (forall s, In s ss -> edge g n s) -> loop_ok g n (trav_loop trav n ss st).
Proof.
  intros Ht. induction ss as [|s ss IH]; intros st Hss; simpl; [exact I|].
  pose proof (Ht s st) as H. destruct (trav s st) as [st' [[s0 p]|]|p|]; simpl in *.
  - destruct H as [Hc Hl]. rewrite chain_app, last_app_one. repeat split; try assumption.
    + rewrite Hl. apply Hss. now left.
    + destruct p; discriminate.
  - apply IH. intros; apply Hss; now right.
  - exact H.
  - exact I.
Qed.

Lemma traverse_ok g : forall fuel n st, res_ok g n (traverse g fuel n st).
Proof.
  induction fuel as [|fuel IH]; intros n st; simpl; [exact I|].
  destruct (nmem n (checked st)); [exact I|].
  destruct (nmem n (busy st)); [simpl; auto|].
  pose proof (trav_loop_ok g (traverse g fuel) n IH (succs g n)
                (Dfs (checked st) (extras g n ++ n :: busy st)) (fun s H => H)) as H.
  destruct (trav_loop _ _ _ _) as [st2 [[s0 p]|]|p|]; simpl in *; try exact I.
  - destruct H as [Hc [Hl Hne]].
    destruct (net_eqb s0 n || nmem s0 (extras g n)) eqn:E; simpl.
    + exists s0, n. repeat split; auto. apply orb_true_iff in E as [E|E];
        [left; now apply net_eqb_eq|right; now apply nmem_In].
    + auto.
  - exact H.
Qed.

Lemma top_loop_sound g fuel : forall rs st p,
  top_loop g fuel rs st = VCycle p ->
  exists s m, chain g s p /\ p <> [] /\ last p s = m /\ (s = m \/ In s (extras g m)).
Proof.
  induction rs as [|r rs IH]; intros st p H; simpl in H; [discriminate|].
  pose proof (traverse_ok g fuel r st) as Hr.
  destruct (traverse g fuel r st) as [st' [c|]|q|]; try discriminate.
  - eapply IH; eassumption.
  - inversion H; subst. exact Hr.
Qed.

Lemma comb_edges_not_per_bit c b b' : per_bit c = false -> comb_edges c b = comb_edges c b'.
Proof.
  destruct c; simpl; try reflexivity; try discriminate.
  destruct ins as [|i1 [|i2 [|i3 [|i4 r]]]]; try reflexivity.
  - destruct k; try reflexivity; discriminate.
  - intro H. now rewrite H.
  - discriminate.
Qed.

(* the outputs merged with a net have the same comb edges (cell 0 = Top has none) *)
Lemma extras_succs_rev g n e m : top_first g = true -> In e (extras g n) -> edge g n m -> edge g e m.
Proof.
  unfold top_first, extras, edge, succs. intro T. destruct (is_const n) eqn:Cn; [intros []|].
  destruct n as [c b|l]; [|intros []].
  destruct (nth_error (cells g) c) as [cl|] eqn:Ec; [|intros []].
  destruct (per_bit cl) eqn:Pb; [intros []|].
  intros He. apply filter_In in He as [He _]. unfold outputs in He. apply in_map_iff in He as [b' [<- _]].
  destruct (is_const (NC c b')) eqn:Ce.
  - destruct c; [|discriminate]. destruct (cells g) as [|c0 r]; [discriminate|]. simpl in Ec. inversion Ec; subst.
    destruct cl; try discriminate. intros [].
  - rewrite Ec. now rewrite (comb_edges_not_per_bit cl b' b Pb).
Qed.

(* a reported path runs from the frame's net m back to m, or to an output s merged with m; either way the
   net s lies on a real cycle *)
Theorem dfs_sound g p :
  top_first g = true -> check_cycles g = VCycle p ->
  exists s m, chain g s p /\ p <> [] /\ last p s = m /\ (s = m \/ In s (extras g m)) /\ reach g s s.
Proof.
  intros T H. apply top_loop_sound in H. destruct H as [s [m [Hc [Hne [Hl Hor]]]]].
  exists s, m. repeat split; try assumption.
  destruct Hor as [->|He].
  - pose proof (chain_reach g p m Hc Hne) as R. now rewrite Hl in R.
  - destruct (exists_last Hne) as [p' [x Hp]]. subst p. rewrite last_app_one in Hl. subst x.
    apply chain_app in Hc as [Hc He'].
    assert (Hc' : chain g s (p' ++ [s])) by (apply chain_app; split; [assumption|eapply extras_succs_rev; eassumption]).
    pose proof (chain_reach g (p' ++ [s]) s Hc') as R. rewrite last_app_one in R. apply R.
    destruct p'; discriminate.
Qed.

(* ---------- completeness: acceptance means no net of the netlist lies on a cycle ---------- *)

(* checked is kept in finishing order: every successor of an element was checked strictly before it *)
Inductive topo (g : netlist) : list net -> Prop :=
| topo_nil : topo g []
| topo_cons x l : topo g l -> (forall m, edge g x m -> In m l) -> topo g (x :: l).

Lemma topo_closed g l : topo g l -> forall x m, In x l -> edge g x m -> In m l.
Proof.
  induction 1 as [|x l Ht IH Hx]; intros y m Hy He; [destruct Hy|].
  destruct Hy as [->|Hy]; right; [now apply Hx | eapply IH; eassumption].
Qed.

Lemma topo_reach_closed g l : topo g l -> forall x m, In x l -> reach g x m -> In m l.
Proof.
  intros Ht x m Hx R. induction R.
  - eapply topo_closed; eassumption.
  - apply IHR. eapply topo_closed; eassumption.
Qed.

Lemma topo_acyclic g l : topo g l -> forall x, In x l -> ~ reach g x x.
Proof.
  induction 1 as [|x l Ht IH Hx]; intros y Hy R; [destruct Hy|].
  destruct (nmem y l) eqn:E.
  - apply nmem_In in E. exact (IH y E R).
  - apply nmem_false in E. destruct Hy as [<-|Hy]; [|contradiction].
    apply E. inversion R; subst.
    + now apply Hx.
    + eapply topo_reach_closed; [eassumption| |eassumption]. now apply Hx.
Qed.

Lemma topo_app g : forall l L, topo g L -> (forall e m, In e l -> edge g e m -> In m L) -> topo g (l ++ L).
Proof.
  induction l as [|e l IH]; intros L Ht H; simpl; [assumption|].
  constructor.
  - apply IH; [assumption|]. intros; eapply H; [right|]; eassumption.
  - intros m He. apply in_or_app. right. eapply H; [now left|eassumption].
Qed.

Lemma extras_succs g n e m : In e (extras g n) -> edge g e m -> edge g n m.
Proof.
  unfold extras, edge, succs. destruct (is_const n) eqn:Cn; [intros []|].
  destruct n as [c b|l]; [|intros []].
  destruct (nth_error (cells g) c) as [cl|] eqn:Ec; [|intros []].
  destruct (per_bit cl) eqn:Pb; [intros []|].
  intros He. apply filter_In in He as [He _]. unfold outputs in He. apply in_map_iff in He as [b' [<- _]].
  destruct (is_const (NC c b')); [intros []|]. rewrite Ec.
  now rewrite (comb_edges_not_per_bit cl b' b Pb).
Qed.

Definition inv_none (g : netlist) (n : net) (st : dfs) (r : tres) : Prop :=
  match r with
  | TOk st' None => topo g (checked st) -> topo g (checked st') /\ In n (checked st') /\ incl (checked st) (checked st')
  | _ => True
  end.

Lemma trav_loop_none g trav n :
  (forall s st, inv_none g s st (trav s st)) ->
  forall ss st st', trav_loop trav n ss st = TOk st' None -> topo g (checked st) ->
    topo g (checked st') /\ (forall s, In s ss -> In s (checked st')) /\ incl (checked st) (checked st').
Proof.
  intros Ht. induction ss as [|s ss IH]; intros st st' H T; simpl in H.
  - inversion H; subst. repeat split; [assumption| intros ? [] | apply incl_refl].
  - pose proof (Ht s st) as Hs. destruct (trav s st) as [st1 [[s0 p]|]|p|]; try discriminate.
    simpl in Hs. destruct (Hs T) as [T1 [I1 S1]].
    destruct (IH st1 st' H T1) as [T2 [I2 S2]].
    repeat split; [assumption| |eapply incl_tran; eassumption].
    intros x [<-|Hx]; [now apply S2 | now apply I2].
Qed.

Lemma traverse_none g : forall fuel n st, inv_none g n st (traverse g fuel n st).
Proof.
  induction fuel as [|fuel IH]; intros n st; simpl; [exact I|].
  destruct (nmem n (checked st)) eqn:Ck.
  { simpl. intro T. apply nmem_In in Ck. repeat split; [assumption|assumption|apply incl_refl]. }
  destruct (nmem n (busy st)); [exact I|].
  destruct (trav_loop (traverse g fuel) n (succs g n) (Dfs (checked st) (extras g n ++ n :: busy st)))
    as [st2 [[s0 p]|]|p|] eqn:EL; simpl; try exact I.
  { destruct (net_eqb s0 n || nmem s0 (extras g n)); exact I. }
  intro T.
  destruct (trav_loop_none g (traverse g fuel) n IH _ _ _ EL T) as [T2 [I2 S2]]. simpl in S2.
  assert (Tn : topo g (n :: checked st2)) by (constructor; [assumption| intros m Hm; now apply I2]).
  repeat split.
  - apply topo_app; [assumption|]. intros e m He Hm. apply in_rev in He. right. apply I2.
    eapply extras_succs; eassumption.
  - apply in_or_app. right. now left.
  - intros x Hx. apply in_or_app. right. right. now apply S2.
Qed.

Lemma top_loop_complete g fuel : forall rs st,
  top_loop g fuel rs st = VAccept -> topo g (checked st) ->
  exists st', topo g (checked st') /\ (forall r, In r rs -> In r (checked st')) /\ incl (checked st) (checked st').
Proof.
  induction rs as [|r rs IH]; intros st H T; simpl in H.
  - exists st. repeat split; [assumption|intros ? []|apply incl_refl].
  - pose proof (traverse_none g fuel r st) as Hr.
    destruct (traverse g fuel r st) as [st1 [c|]|p|]; try discriminate.
    simpl in Hr. destruct (Hr T) as [T1 [I1 S1]].
    destruct (IH st1 H T1) as [st' [T' [I' S']]].
    exists st'. repeat split; [assumption| |eapply incl_tran; eassumption].
    intros x [<-|Hx]; [now apply S'|now apply I'].
Qed.

Lemma const_no_succ g n : is_const n = true -> forall m, ~ edge g n m.
Proof. intros H m. unfold edge, succs. rewrite H. intros []. Qed.

Lemma reach_first g n m : reach g n m -> exists k, edge g n k.
Proof. destruct 1; eauto. Qed.

Theorem dfs_complete g :
  check_cycles g = VAccept -> forall n, In n (all_nets g) -> ~ reach g n n.
Proof.
  unfold check_cycles. intros H n Hn R.
  destruct (top_loop_complete g _ _ _ H (topo_nil g)) as [st' [T [I _]]].
  destruct Hn as [<-|[<-|Hn]].
  - destruct (reach_first _ _ _ R) as [k Hk]. now apply (const_no_succ g (NC 0 0)) in Hk.
  - destruct (reach_first _ _ _ R) as [k Hk]. now apply (const_no_succ g (NC 0 1)) in Hk.
  - exact (topo_acyclic g _ T n (I n Hn) R).
Qed.

(* ---------- the fuel |nets| + 1 is enough ---------- *)
Definition seen (st : dfs) : list net := checked st ++ busy st.
Definition mu (g : netlist) (st : dfs) : nat :=
  length (filter (fun x => negb (nmem x (seen st))) (all_nets g)).

Lemma filter_len_le {A} (p q : A -> bool) : forall L,
  (forall x, In x L -> q x = true -> p x = true) -> length (filter q L) <= length (filter p L).
Proof.
  induction L as [|x L IH]; intros H; simpl; [lia|].
  assert (IH' : length (filter q L) <= length (filter p L)) by (apply IH; intros; apply H; [now right|assumption]).
  destruct (q x) eqn:Q.
  - rewrite (H x (or_introl eq_refl) Q). simpl. lia.
  - destruct (p x); simpl; lia.
Qed.

Lemma filter_len_lt {A} (p q : A -> bool) : forall L x,
  (forall y, In y L -> q y = true -> p y = true) -> In x L -> p x = true -> q x = false ->
  length (filter q L) < length (filter p L).
Proof.
  induction L as [|y L IH]; intros x H Hin Px Qx; [destruct Hin|]. simpl.
  assert (Hle : length (filter q L) <= length (filter p L))
    by (apply filter_len_le; intros; apply H; [now right|assumption]).
  destruct Hin as [->|Hin].
  - rewrite Px, Qx. simpl. lia.
  - assert (IH' : length (filter q L) < length (filter p L))
      by (eapply IH; try eassumption; intros; apply H; [now right|assumption]).
    destruct (q y) eqn:Q.
    + rewrite (H y (or_introl eq_refl) Q). simpl. lia.
    + destruct (p y); simpl; lia.
Qed.

Lemma mu_le g a b : incl (seen a) (seen b) -> mu g b <= mu g a.
Proof.
  intro H. apply filter_len_le. intros x _ Hx. apply negb_true_iff in Hx. apply negb_true_iff.
  apply nmem_false. apply nmem_false in Hx. intro Hin. apply Hx. now apply H.
Qed.

Lemma mu_lt g a b n : incl (seen a) (seen b) -> In n (all_nets g) -> ~ In n (seen a) -> In n (seen b) ->
  mu g b < mu g a.
Proof.
  intros H Hn Ha Hb. eapply filter_len_lt with (x := n); try assumption.
  - intros x _ Hx. apply negb_true_iff in Hx. apply negb_true_iff.
    apply nmem_false. apply nmem_false in Hx. intro Hin. apply Hx. now apply H.
  - apply negb_true_iff. now apply nmem_false.
  - apply negb_false_iff. now apply nmem_In.
Qed.

Lemma remove_net_In x y l : In x (remove_net y l) <-> In x l /\ x <> y.
Proof.
  unfold remove_net. rewrite filter_In. split; intros [H1 H2]; split; try assumption.
  - intro E. subst. apply negb_true_iff in H2. assert (net_eqb y y = true) by now apply net_eqb_eq. congruence.
  - apply negb_true_iff. destruct (net_eqb x y) eqn:E; [|reflexivity]. apply net_eqb_eq in E. contradiction.
Qed.

Lemma fold_remove_In x : forall ex l, In x (fold_left (fun b e => remove_net e b) ex l) <-> In x l /\ ~ In x ex.
Proof.
  induction ex as [|e ex IH]; intros l; simpl; [tauto|].
  rewrite IH, remove_net_In. split.
  - intros [[H1 H2] H3]. split; [assumption|]. intros [E|E]; [now subst|contradiction].
  - intros [H1 H2]. repeat split; [assumption| |]; intro; apply H2; [left; congruence|now right].
Qed.

Definition mono_res (st : dfs) (r : tres) : Prop :=
  match r with TOk st' _ => incl (seen st) (seen st') | _ => True end.

Lemma trav_loop_mono trav n :
  (forall s st, mono_res st (trav s st)) -> forall ss st, mono_res st (trav_loop trav n ss st).
Proof.
  intros Ht. induction ss as [|s ss IH]; intros st; simpl; [apply incl_refl|].
  pose proof (Ht s st) as H. destruct (trav s st) as [st1 [[s0 p]|]|p|]; simpl in *; try exact I; try assumption.
  pose proof (IH st1) as H1. destruct (trav_loop trav n ss st1); simpl in *; try exact I.
  eapply incl_tran; eassumption.
Qed.

Lemma finish_seen n ex st2 x :
  In x (seen st2) ->
  In x (seen (Dfs (rev ex ++ n :: checked st2) (fold_left (fun b e => remove_net e b) ex (remove_net n (busy st2))))).
Proof.
  unfold seen. simpl. intro H. apply in_app_or in H. apply in_or_app.
  destruct H as [H|H].
  - left. apply in_or_app. right. now right.
  - destruct (nmem x (n :: ex)) eqn:E.
    + apply nmem_In in E. left. apply in_or_app. destruct E as [<-|E]; [right; now left|left; now apply in_rev in E].
    + apply nmem_false in E. right. apply fold_remove_In. split; [apply remove_net_In; split; [assumption|]|].
      * intro; apply E; left; congruence.
      * intro; apply E; now right.
Qed.

Lemma traverse_mono g : forall fuel n st, mono_res st (traverse g fuel n st).
Proof.
  induction fuel as [|fuel IH]; intros n st; simpl; [exact I|].
  destruct (nmem n (checked st)); [apply incl_refl|].
  destruct (nmem n (busy st)); [apply incl_refl|].
  pose proof (trav_loop_mono (traverse g fuel) n IH (succs g n) (Dfs (checked st) (extras g n ++ n :: busy st))) as H.
  destruct (trav_loop _ _ _ _) as [st2 [[s0 p]|]|p|]; simpl in *; try exact I.
  - destruct (net_eqb s0 n || nmem s0 (extras g n)); [exact I|]. simpl. intros x Hx. apply finish_seen. apply H.
    unfold seen in *. simpl. apply in_app_or in Hx. apply in_or_app. destruct Hx; [now left|right].
    apply in_or_app. right. now right.
  - intros x Hx. apply finish_seen. apply H.
    unfold seen in *. simpl. apply in_app_or in Hx. apply in_or_app. destruct Hx; [now left|right].
    apply in_or_app. right. now right.
Qed.

Definition closed_nets (g : netlist) : Prop :=
  forall n m, In n (all_nets g) -> edge g n m -> In m (all_nets g).

Lemma wf_netlist_closed g : wf_netlist g = true -> closed_nets g.
Proof.
  unfold wf_netlist, closed_nets, edge. rewrite forallb_forall. intros H n m Hn Hm.
  specialize (H n Hn). rewrite forallb_forall in H. now apply nmem_In, H.
Qed.

Lemma trav_loop_fuel g trav n bound :
  (forall s st, mono_res st (trav s st)) ->
  (forall s st, In s (all_nets g) -> mu g st <= bound -> trav s st <> TFuel) ->
  forall ss st, (forall s, In s ss -> In s (all_nets g)) -> mu g st <= bound ->
  trav_loop trav n ss st <> TFuel.
Proof.
  intros Hm Hf. induction ss as [|s ss IH]; intros st Hss Hb; simpl; [discriminate|].
  pose proof (Hf s st (Hss s (or_introl eq_refl)) Hb) as H1.
  pose proof (Hm s st) as H2.
  destruct (trav s st) as [st1 [[s0 p]|]|p|]; try discriminate; [|congruence].
  apply IH; [intros; apply Hss; now right|]. simpl in H2. pose proof (mu_le g st st1 H2). lia.
Qed.

Lemma traverse_fuel g : closed_nets g -> forall fuel n st,
  In n (all_nets g) -> mu g st < fuel -> traverse g fuel n st <> TFuel.
Proof.
  intros Hc. induction fuel as [|fuel IH]; intros n st Hn Hmu; [lia|]. simpl.
  destruct (nmem n (checked st)) eqn:Ck; [discriminate|].
  destruct (nmem n (busy st)) eqn:Bk; [discriminate|].
  set (st1 := Dfs (checked st) (extras g n ++ n :: busy st)).
  assert (Hlt : mu g st1 < mu g st).
  { apply mu_lt with (n := n); try assumption.
    - unfold seen, st1. simpl. intros x Hx. apply in_app_or in Hx. apply in_or_app.
      destruct Hx; [now left|right]. apply in_or_app. right. now right.
    - unfold seen. intro Hx. apply in_app_or in Hx. apply nmem_false in Ck, Bk. tauto.
    - unfold seen, st1. simpl. apply in_or_app. right. apply in_or_app. right. now left. }
  assert (HL : trav_loop (traverse g fuel) n (succs g n) st1 <> TFuel).
  { apply trav_loop_fuel with (g := g) (bound := mu g st1).
    - apply traverse_mono.
    - intros s st' Hs Hb. apply IH; [assumption|lia].
    - intros s Hs. eapply Hc; eassumption.
    - lia. }
  destruct (trav_loop _ _ _ _) as [st2 [[s0 p]|]|p|]; try discriminate; [|congruence].
  destruct (net_eqb s0 n || nmem s0 (extras g n)); discriminate.
Qed.

Lemma top_loop_fuel g fuel : closed_nets g -> length (all_nets g) < fuel ->
  forall rs st, (forall r, In r rs -> In r (all_nets g)) -> top_loop g fuel rs st <> VFuel.
Proof.
  intros Hc Hf. induction rs as [|r rs IH]; intros st Hrs; simpl; [discriminate|].
  assert (H : traverse g fuel r st <> TFuel).
  { apply traverse_fuel; [assumption|apply Hrs; now left|].
    unfold mu. pose proof (filter_len_le (fun _ => true) (fun x => negb (nmem x (seen st))) (all_nets g) (fun _ _ _ => eq_refl)).
    assert (E : filter (fun _ : net => true) (all_nets g) = all_nets g).
    { clear. induction (all_nets g); simpl; congruence. }
    rewrite E in H. lia. }
  destruct (traverse g fuel r st) as [st1 [c|]|p|]; try discriminate; [|congruence].
  apply IH. intros; apply Hrs; now right.
Qed.

Theorem dfs_fuel g : wf_netlist g = true -> check_cycles g <> VFuel.
Proof.
  intro W. unfold check_cycles. apply top_loop_fuel.
  - now apply wf_netlist_closed.
  - lia.
  - intros r Hr. right. right. exact Hr.
Qed.

(* ---------- the top-level `assert traverse(net) is None` can no longer fail ---------- *)
Definition busy_res (st : dfs) (r : tres) : Prop :=
  match r with
  | TOk st' c => incl (busy st') (busy st) /\ (forall s p, c = Some (s, p) -> In s (busy st))
  | _ => True
  end.

Lemma trav_loop_busy trav n :
  (forall s st, busy_res st (trav s st)) -> forall ss st, busy_res st (trav_loop trav n ss st).
Proof.
  intros Ht. induction ss as [|s ss IH]; intros st; simpl.
  - split; [apply incl_refl|discriminate].
  - pose proof (Ht s st) as H. destruct (trav s st) as [st1 [[s0 p]|]|p|]; simpl in *; try exact I.
    + destruct H as [H1 H2]. split; [assumption|]. intros s' p' E. inversion E; subst. eapply H2; reflexivity.
    + destruct H as [H1 _]. pose proof (IH st1) as H3. destruct (trav_loop trav n ss st1) as [st2 c| |]; simpl in *; try exact I.
      destruct H3 as [H3 H4]. split; [eapply incl_tran; eassumption|]. intros s' p' E. apply H1. eapply H4; eassumption.
Qed.

Lemma finish_busy n ex st st2 x :
  incl (busy st2) (ex ++ n :: busy st) ->
  In x (fold_left (fun b e => remove_net e b) ex (remove_net n (busy st2))) -> In x (busy st).
Proof.
  intros H Hx. apply fold_remove_In in Hx as [Hx Hex]. apply remove_net_In in Hx as [Hx Hn].
  apply H in Hx. apply in_app_or in Hx. destruct Hx as [Hx|[Hx|Hx]]; [contradiction|congruence|assumption].
Qed.

Lemma traverse_busy g : forall fuel n st, busy_res st (traverse g fuel n st).
Proof.
  induction fuel as [|fuel IH]; intros n st; simpl; [exact I|].
  destruct (nmem n (checked st)); [split; [apply incl_refl|discriminate]|].
  destruct (nmem n (busy st)) eqn:Bk.
  { split; [apply incl_refl|]. intros s p E. inversion E; subst. now apply nmem_In. }
  pose proof (trav_loop_busy (traverse g fuel) n IH (succs g n) (Dfs (checked st) (extras g n ++ n :: busy st))) as H.
  destruct (trav_loop _ _ _ _) as [st2 [[s0 p]|]|p|]; simpl in *; try exact I.
  - destruct H as [H1 H2].
    destruct (net_eqb s0 n || nmem s0 (extras g n)) eqn:E; [exact I|]. simpl.
    apply orb_false_iff in E as [E1 E2].
    split; [intros x Hx; eapply finish_busy; eassumption|].
    intros s' p' Eq. inversion Eq; subst.
    specialize (H2 _ _ eq_refl). apply in_app_or in H2. destruct H2 as [H2|[H2|H2]].
    + apply nmem_In in H2. congruence.
    + subst. assert (net_eqb s' s' = true) by now apply net_eqb_eq. congruence.
    + assumption.
  - destruct H as [H1 _]. split; [intros x Hx; eapply finish_busy; eassumption|discriminate].
Qed.

Lemma top_loop_no_assert g fuel : forall rs st, busy st = [] -> top_loop g fuel rs st <> VAssert.
Proof.
  induction rs as [|r rs IH]; intros st Hb; simpl; [discriminate|].
  pose proof (traverse_busy g fuel r st) as H.
  destruct (traverse g fuel r st) as [st1 [[s p]|]|p|]; simpl in *; try discriminate.
  - destruct H as [_ H]. specialize (H _ _ eq_refl). rewrite Hb in H. destruct H.
  - destruct H as [H _]. apply IH. rewrite Hb in H. destruct (busy st1) as [|x l]; [reflexivity|].
    exfalso. apply (H x). now left.
Qed.

(* for ALL netlists *)
Theorem dfs_no_assert g : check_cycles g <> VAssert.
Proof. unfold check_cycles. now apply top_loop_no_assert. Qed.

(* every well-formed netlist with a cycle through one of its nets is rejected with CombinationalCycle *)
Theorem dfs_rejects_cycles g n :
  wf_netlist g = true -> In n (all_nets g) -> reach g n n -> exists p, check_cycles g = VCycle p.
Proof.
  intros W Hn R. pose proof (dfs_fuel g W) as F. pose proof (dfs_complete g) as C. pose proof (dfs_no_assert g) as A.
  destruct (check_cycles g) as [|p| |]; [exfalso; exact (C eq_refl n Hn R)|eauto|congruence|congruence].
Qed.

(* ---------- per-bit precision of the edge relation ---------- *)
Lemma vl_ext v1 v2 l i : (forall n, In n (nth_l l i) -> v1 n = v2 n) -> vl v1 l i = vl v2 l i.
Proof.
  unfold vl, nth_l. destruct (nth_error l i); [|reflexivity]. intro H. apply H. now left.
Qed.

Theorem per_bit_precise c bit v1 v2 :
  per_bit c = true -> (forall n, In n (comb_edges c bit) -> v1 n = v2 n) ->
  cell_bit v1 c bit = cell_bit v2 c bit.
Proof.
  destruct c; simpl; try discriminate.
  - (* operator *)
    destruct ins as [|a [|b [|d [|e r]]]]; try discriminate.
    + destruct k; try discriminate. intros _ H. f_equal. now apply vl_ext.
    + intros Hk H. rewrite Hk in H.
      assert (Ha : vl v1 a bit = vl v2 a bit) by (apply vl_ext; intros; apply H; apply in_or_app; now left).
      assert (Hb : vl v1 b bit = vl v2 b bit) by (apply vl_ext; intros; apply H; apply in_or_app; now right).
      destruct k; try discriminate; now rewrite Ha, Hb.
    + intros _ H.
      assert (Hs : vl v1 a 0 = vl v2 a 0) by (apply vl_ext; intros; apply H; apply in_or_app; now left).
      assert (Hb : vl v1 b bit = vl v2 b bit)
        by (apply vl_ext; intros; apply H; apply in_or_app; right; apply in_or_app; now left).
      assert (Hd : vl v1 d bit = vl v2 d bit)
        by (apply vl_ext; intros; apply H; apply in_or_app; right; apply in_or_app; now right).
      destruct k; now rewrite Hs, Hb, Hd.
  - (* assignment list *)
    intros _ H.
    assert (Hd : vl v1 default bit = vl v2 default bit) by (apply vl_ext; intros; apply H; apply in_or_app; now left).
    assert (Ha : forall n, In n (flat_map (fun a => let '(cond, start, value) := a in
                         if (start <=? bit) && (bit <? start + length value)
                         then cond :: nth_l value (bit - start) else []) assigns) -> v1 n = v2 n)
      by (intros; apply H; apply in_or_app; now right).
    clear H. revert Hd Ha. generalize (vl v1 default bit) (vl v2 default bit).
    induction assigns as [|[[cond start] value] r IH]; intros x y Hd Ha; simpl; [assumption|].
    apply IH.
    + simpl in Ha. destruct ((start <=? bit) && (bit <? start + length value)) eqn:E; simpl; [|assumption].
      assert (Hc : v1 cond = v2 cond) by (apply Ha; apply in_or_app; left; now left).
      rewrite Hc. destruct (v2 cond); [|assumption].
      apply vl_ext. intros; apply Ha. apply in_or_app. left. now right.
    + intros n Hn. apply Ha. simpl. apply in_or_app. now right.
  - (* IO buffer *)
    intros _ H. destruct is_input; [reflexivity|].
    assert (Ho : vl v1 o bit = vl v2 o bit) by (apply vl_ext; intros; apply H; apply in_or_app; now left).
    assert (He : v1 oe = v2 oe) by (apply H; apply in_or_app; right; now left).
    now rewrite Ho, He.
Qed.

(* ================================================================================================ *)
(* Part I — drivers                                                                                 *)
(* ================================================================================================ *)


(* ---------- emit_assign covers exactly the addressable bits ---------- *)
Section tgt_induction.
  Variable P : tgt -> Prop.
  Hypothesis HSig : forall s w, P (TSig s w).
  Hypothesis HCast : forall a, P a -> P (TCast a).
  Hypothesis HSlice : forall a lo hi, P a -> P (TSlice a lo hi).
  Hypothesis HPart : forall a offw w st, P a -> P (TPart a offw w st).
  Hypothesis HCat : forall ps, Forall P ps -> P (TCat ps).
  Hypothesis HSwitch : forall w es, Forall P es -> P (TSwitch w es).
  Fixpoint tgt_ind' (t : tgt) : P t :=
    match t with
    | TSig s w => HSig s w
    | TCast a => HCast a (tgt_ind' a)
    | TSlice a lo hi => HSlice a lo hi (tgt_ind' a)
    | TPart a offw w st => HPart a offw w st (tgt_ind' a)
    | TCat ps => HCat ps ((fix go (ps : list tgt) : Forall P ps :=
                             match ps with [] => Forall_nil P | p :: r => Forall_cons p (tgt_ind' p) (go r) end) ps)
    | TSwitch w es => HSwitch w es ((fix go (ps : list tgt) : Forall P ps :=
                             match ps with [] => Forall_nil P | p :: r => Forall_cons p (tgt_ind' p) (go r) end) es)
    end.
End tgt_induction.

(* bit b of signal s lies in one of the recorded assignments *)
Definition covered (rs : list arec) (s b : nat) : Prop :=
  exists r, In r rs /\ a_sig r = s /\ a_start r <= b < a_start r + a_len r.

Lemma covered_app rs1 rs2 s b : covered (rs1 ++ rs2) s b <-> covered rs1 s b \/ covered rs2 s b.
Proof.
  unfold covered. split.
  - intros [r [H R]]. apply in_app_or in H. destruct H; [left|right]; eauto.
  - intros [[r [H R]]|[r [H R]]]; exists r; (split; [apply in_or_app; auto|assumption]).
Qed.

Lemma covered_flat_map {A} (f : A -> list arec) l s b :
  covered (flat_map f l) s b <-> exists x, In x l /\ covered (f x) s b.
Proof.
  unfold covered. split.
  - intros [r [H R]]. apply in_flat_map in H as [x [Hx Hr]]. eauto.
  - intros [x [Hx [r [Hr R]]]]. exists r. split; [apply in_flat_map; eauto|assumption].
Qed.

Lemma covered_nil s b : ~ covered [] s b.
Proof. intros [r [[] _]]. Qed.

Definition addr_cat (k s b : nat) := fix go (ps : list tgt) (off : nat) : Prop :=
  match ps with
  | [] => False
  | p :: ps' => (off <= k /\ k < off + tlen p /\ addr p (k - off) s b) \/ go ps' (off + tlen p)
  end.
Definition addr_sw (k s b : nat) := fix go (es : list tgt) : Prop :=
  match es with
  | [] => False
  | e :: es' => (k < tlen e /\ addr e k s b) \/ go es'
  end.

Lemma addr_sw_iff k s b es : addr_sw k s b es <-> exists e, In e es /\ k < tlen e /\ addr e k s b.
Proof.
  induction es as [|e es IH]; simpl.
  - split; [intros []|intros [e [[] _]]].
  - rewrite IH. split.
    + intros [H|[e' [H1 H2]]]; [exists e; auto|exists e'; auto].
    + intros [e' [[<-|H1] H2]]; [left; assumption|right; eauto].
Qed.

Lemma cat_len_ge ps : forall off k s b, addr_cat k s b ps off -> k < off + fold_right (fun p acc => tlen p + acc) 0 ps.
Proof.
  induction ps as [|p ps IH]; intros off k s b H; simpl in *; [destruct H|].
  destruct H as [[H1 [H2 _]]|H]; [lia|]. apply IH in H. lia.
Qed.

Lemma addr_lt : forall t, wf_tgt t = true -> forall k s b, addr t k s b -> k < tlen t.
Proof.
  induction t as [s' w|a IH|a lo hi IH|a offw w st IH|ps IH|w es IH] using tgt_ind'; intros W k s b H.
  - simpl in *. lia.
  - simpl in *. now apply IH in H.
  - simpl in *. lia.
  - simpl in *. destruct H as [H _]. exact H.
  - change (addr_cat k s b ps 0) in H. apply cat_len_ge in H. simpl. lia.
  - change (addr_sw k s b es) in H. apply addr_sw_iff in H as [e [He [Hk _]]]. simpl in *.
    rewrite forallb_forall in W. specialize (W e He). apply andb_true_iff in W as [_ W]. apply Nat.leb_le in W. lia.
Qed.

Definition emit_cat (start len : nat) := fix go (ps : list tgt) (part_stop : nat) : list arec :=
  match ps with
  | [] => []
  | p :: ps' =>
      let part_start := part_stop in
      let part_stop := part_start + tlen p in
      if part_stop <=? start then go ps' part_stop
      else if start + len <=? part_start then go ps' part_stop
      else
        let part_lhs_start := if start <? part_start then 0 else start - part_start in
        let part_rhs_start := if start <? part_start then part_start - start else 0 in
        let part_rhs_stop := if part_stop <=? start + len then part_stop - start else len in
        emit_assign p part_lhs_start (part_rhs_stop - part_rhs_start) ++ go ps' part_stop
  end.

Theorem emit_assign_spec : forall t, wf_tgt t = true -> forall start len s b,
  start + len <= tlen t ->
  (covered (emit_assign t start len) s b <-> exists k, start <= k < start + len /\ addr t k s b).
Proof.
  induction t as [s' w|a IH|a lo hi IH|a offw w st IH|ps IH|w es IH] using tgt_ind'; intros W start len s b Hlen.
  - (* Signal *)
    simpl in *. unfold covered. split.
    + intros [r [[<-|[]] [Hs Hb]]]. simpl in *. exists b. repeat split; try lia; try assumption.
    + intros [k [Hk [-> [-> Hw]]]]. exists (AR s w start len). simpl. repeat split; auto; lia.
  - (* cast *) simpl in *. now apply IH.
  - (* Slice *)
    simpl in W, Hlen. apply andb_true_iff in W as [W W3]. apply andb_true_iff in W as [W1 W2].
    apply Nat.leb_le in W2, W3. simpl. rewrite IH by (try assumption; lia). split.
    + intros [k [Hk Ha]]. exists (k - lo). replace (k - lo + lo) with k by lia. repeat split; try lia. assumption.
    + intros [k [Hk [_ Ha]]]. exists (k + lo). split; [lia|assumption].
  - (* Part *)
    cbn [wf_tgt] in W. simpl in Hlen. apply andb_true_iff in W as [W1 W2]. apply Nat.leb_le in W2.
    cbn [emit_assign]. rewrite covered_flat_map. split.
    + intros [idx [Hidx Hc]]. apply in_seq in Hidx.
      destruct (tlen a <=? start + idx * st) eqn:E; [now apply covered_nil in Hc|]. apply Nat.leb_gt in E.
      apply IH in Hc; [|assumption|destruct (tlen a <=? start + idx * st + len) eqn:E2;
                                    [apply Nat.leb_le in E2|apply Nat.leb_gt in E2]; lia].
      destruct Hc as [k [Hk Ha]].
      assert (Hl : (if tlen a <=? start + idx * st + len then tlen a - (start + idx * st) else len) <= len)
        by (destruct (tlen a <=? start + idx * st + len) eqn:E2;
            [apply Nat.leb_le in E2|apply Nat.leb_gt in E2]; lia).
      exists (k - idx * st). split; [lia|]. simpl. split; [lia|].
      exists idx. split; [lia|]. replace (k - idx * st + idx * st) with k by lia. assumption.
    + intros [k [Hk Ha]]. simpl in Ha. destruct Ha as [Hkw [o [Ho Ha]]].
      pose proof (addr_lt a W1 _ _ _ Ha) as Hlt.
      exists o. split.
      * apply in_seq. split; [lia|]. simpl. apply Nat.min_glb_lt; [|assumption].
        apply Nat.lt_le_trans with (m := S o); [lia|].
        apply Nat.div_le_lower_bound; [lia|]. nia.
      * destruct (tlen a <=? start + o * st) eqn:E; [apply Nat.leb_le in E; lia|].
        apply IH; [assumption|destruct (tlen a <=? start + o * st + len) eqn:E2;
                               [apply Nat.leb_le in E2|apply Nat.leb_gt in E2]; lia|].
        exists (k + o * st). split; [|assumption].
        destruct (tlen a <=? start + o * st + len) eqn:E2; [apply Nat.leb_le in E2|apply Nat.leb_gt in E2]; lia.
  - (* Cat *)
    clear Hlen. simpl in W. rewrite forallb_forall in W.
    change (exists k, start <= k < start + len /\ addr (TCat ps) k s b)
      with (exists k, start <= k < start + len /\ addr_cat k s b ps 0).
    change (emit_assign (TCat ps) start len) with (emit_cat start len ps 0).
    generalize 0 as off.
    induction ps as [|p ps IHps]; intros off; cbn [emit_cat].
    + split; [intro H; now apply covered_nil in H|intros [k [_ []]]].
    + inversion IH as [|? ? IHp IHr]; subst.
      assert (Wp : wf_tgt p = true) by (apply W; now left).
      assert (Wr : forall x, In x ps -> wf_tgt x = true) by (intros; apply W; now right).
      specialize (IHps IHr Wr (off + tlen p)).
      cbn [addr_cat].
      destruct (off + tlen p <=? start) eqn:E1.
      { apply Nat.leb_le in E1. rewrite IHps. split.
        - intros [k [Hk H]]. exists k. auto.
        - intros [k [Hk [[H1 [H2 _]]|H]]]; [lia|eauto]. }
      apply Nat.leb_gt in E1.
      destruct (start + len <=? off) eqn:E2.
      { apply Nat.leb_le in E2. rewrite IHps. split.
        - intros [k [Hk H]]. exists k. auto.
        - intros [k [Hk [[H1 [H2 _]]|H]]]; [lia|eauto]. }
      apply Nat.leb_gt in E2.
      rewrite covered_app, IHps.
      set (pls := if start <? off then 0 else start - off).
      set (n := (if off + tlen p <=? start + len then off + tlen p - start else len)
                - (if start <? off then off - start else 0)).
      assert (Hw : pls + n <= tlen p /\ pls + off = Nat.max start off
                   /\ pls + n + off = Nat.min (start + len) (off + tlen p)).
      { unfold pls, n. destruct (start <? off) eqn:E3; [apply Nat.ltb_lt in E3|apply Nat.ltb_ge in E3];
        (destruct (off + tlen p <=? start + len) eqn:E4; [apply Nat.leb_le in E4|apply Nat.leb_gt in E4]); lia. }
      destruct Hw as [Hw1 [Hw2 Hw3]].
      rewrite (IHp Wp pls n s b Hw1). split.
      * intros [[k [Hk Ha]]|[k [Hk H]]].
        -- exists (k + off). split; [lia|]. left. replace (k + off - off) with k by lia. repeat split; try lia. assumption.
        -- exists k. auto.
      * intros [k [Hk [[H1 [H2 Ha]]|H]]].
        -- left. exists (k - off). split; [lia|assumption].
        -- right. eauto.
  - (* SwitchValue *)
    cbn [emit_assign]. simpl in W, Hlen. rewrite forallb_forall in W. rewrite covered_flat_map.
    change (exists k, start <= k < start + len /\ addr (TSwitch w es) k s b)
      with (exists k, start <= k < start + len /\ addr_sw k s b es).
    rewrite Forall_forall in IH. split.
    + intros [e [He Hc]]. specialize (W e He). apply andb_true_iff in W as [W1 W2]. apply Nat.leb_le in W2.
      destruct (tlen e <=? start) eqn:E; [now apply covered_nil in Hc|]. apply Nat.leb_gt in E.
      apply (IH e He W1) in Hc; [|lia]. destruct Hc as [k [Hk Ha]].
      exists k. split; [lia|]. apply addr_sw_iff. exists e. repeat split; try assumption. lia.
    + intros [k [Hk Ha]]. apply addr_sw_iff in Ha as [e [He [Hke Ha]]]. exists e. split; [assumption|].
      specialize (W e He). apply andb_true_iff in W as [W1 W2]. apply Nat.leb_le in W2.
      destruct (tlen e <=? start) eqn:E; [apply Nat.leb_le in E; lia|]. apply Nat.leb_gt in E.
      apply (IH e He W1); [lia|]. exists k. split; [lia|assumption].
Qed.

(* the bits a whole assignment `t.eq(...)` contributes to drivers are exactly the bits it may drive *)
Corollary emit_assign_may_drive t s b : wf_tgt t = true ->
  (covered (emit_assign t 0 (tlen t)) s b <-> may_drive t s b).
Proof.
  intro W. rewrite (emit_assign_spec t W 0 (tlen t) s b (le_n _)). unfold may_drive.
  split; intros [k [Hk Ha]]; exists k; (split; [lia|assumption]).
Qed.


(* ---------- wf_tgt_top (kept for the statements of Props) is wf_tgt ---------- *)
Lemma wf_top_wf : forall t, wf_tgt_top t = true -> wf_tgt t = true.
Proof.
  induction t as [s' w|a IH|a lo hi IH|a offw w st IH|ps IH|w es IH] using tgt_ind'; intro W; simpl in *; auto.
  - rewrite forallb_forall in *. rewrite Forall_forall in IH. intros p Hp. apply IH; [assumption|now apply W].
  - rewrite forallb_forall in *. rewrite Forall_forall in IH. intros e He. specialize (W e He).
    apply andb_true_iff in W as [W1 W2]. apply andb_true_iff. split; [now apply IH|assumption].
Qed.

Theorem emit_assign_spec_top : forall t, wf_tgt_top t = true -> forall s b,
  (covered (emit_assign t 0 (tlen t)) s b <-> may_drive t s b).
Proof. intros t W s b. apply emit_assign_may_drive. now apply wf_top_wf. Qed.

(* every record emit_assign makes names a signal of the target with its width, and lies inside it *)
Lemma emit_assign_bounds : forall t, wf_tgt t = true -> forall start len r,
  start + len <= tlen t -> In r (emit_assign t start len) ->
  In (a_sig r, a_w r) (tgt_sigs t) /\ a_start r + a_len r <= a_w r.
Proof.
  induction t as [s' w|a IH|a lo hi IH|a offw w st IH|ps IH|w es IH] using tgt_ind'; intros W start len r Hlen Hr.
  - simpl in *. destruct Hr as [<-|[]]. simpl. split; [now left|lia].
  - simpl in *. now apply (IH W start len).
  - simpl in W, Hlen. apply andb_true_iff in W as [W W3]. apply andb_true_iff in W as [W1 W2].
    apply Nat.leb_le in W2, W3. simpl in Hr. simpl. apply (IH W1 (start + lo) len); [lia|assumption].
  - cbn [wf_tgt] in W. simpl in Hlen. apply andb_true_iff in W as [W1 W2]. cbn [emit_assign] in Hr.
    apply in_flat_map in Hr as [idx [_ Hr]]. destruct (tlen a <=? start + idx * st) eqn:E; [destruct Hr|].
    apply Nat.leb_gt in E. simpl. eapply (IH W1); [|exact Hr].
    destruct (tlen a <=? start + idx * st + len) eqn:E2; [apply Nat.leb_le in E2|apply Nat.leb_gt in E2]; lia.
  - clear Hlen. simpl in W. rewrite forallb_forall in W.
    change (emit_assign (TCat ps) start len) with (emit_cat start len ps 0) in Hr. cbn [tgt_sigs].
    revert Hr. generalize 0 as off. induction ps as [|p ps IHps]; intros off Hr; cbn [emit_cat] in Hr; [destruct Hr|].
    inversion IH as [|? ? IHp IHr]; subst.
    assert (Wp : wf_tgt p = true) by (apply W; now left).
    assert (Wr : forall x, In x ps -> wf_tgt x = true) by (intros; apply W; now right).
    assert (Rest : In r (emit_cat start len ps (off + tlen p)) ->
                   In (a_sig r, a_w r) (flat_map tgt_sigs (p :: ps)) /\ a_start r + a_len r <= a_w r).
    { intro H. destruct (IHps IHr Wr _ H) as [A B]. split; [simpl; apply in_or_app; now right|assumption]. }
    destruct (off + tlen p <=? start) eqn:E1; [now apply Rest|]. apply Nat.leb_gt in E1.
    destruct (start + len <=? off) eqn:E2; [now apply Rest|]. apply Nat.leb_gt in E2.
    apply in_app_or in Hr as [Hr|Hr]; [|now apply Rest].
    set (pls := if start <? off then 0 else start - off) in Hr.
    set (n := (if off + tlen p <=? start + len then off + tlen p - start else len)
              - (if start <? off then off - start else 0)) in Hr.
    assert (Hw : pls + n <= tlen p).
    { unfold pls, n. destruct (start <? off) eqn:E3; [apply Nat.ltb_lt in E3|apply Nat.ltb_ge in E3];
        (destruct (off + tlen p <=? start + len) eqn:E4; [apply Nat.leb_le in E4|apply Nat.leb_gt in E4]); lia. }
    destruct (IHp Wp pls n r Hw Hr) as [A B].
    split; [simpl; apply in_or_app; now left|assumption].
  - cbn [emit_assign] in Hr. simpl in W. rewrite forallb_forall in W. rewrite Forall_forall in IH.
    apply in_flat_map in Hr as [e [He Hr]]. specialize (W e He). apply andb_true_iff in W as [W1 W2].
    destruct (tlen e <=? start) eqn:E; [destruct Hr|]. apply Nat.leb_gt in E.
    destruct (IH e He W1 start (Nat.min len (tlen e - start)) r) as [A B]; [lia|exact Hr|].
    split; [simpl; apply in_flat_map; eauto|assumption].
Qed.

(* ---------- the computable spec agrees with the declarative one ---------- *)
Definition addrb_cat (k s b : nat) := fix go (ps : list tgt) (off : nat) : bool :=
  match ps with
  | [] => false
  | p :: ps' => ((off <=? k) && (k <? off + tlen p) && addrb p (k - off) s b) || go ps' (off + tlen p)
  end.

Lemma addrb_iff : forall t k s b, addrb t k s b = true <-> addr t k s b.
Proof.
  induction t as [s' w|a IH|a lo hi IH|a offw w st IH|ps IH|w es IH] using tgt_ind'; intros k s b.
  - simpl. rewrite !andb_true_iff, !Nat.eqb_eq, Nat.ltb_lt. tauto.
  - simpl. apply IH.
  - simpl. rewrite andb_true_iff, Nat.ltb_lt, IH. tauto.
  - cbn [addrb addr]. rewrite andb_true_iff, Nat.ltb_lt, existsb_exists. split.
    + intros [Hk [o [Ho Ha]]]. apply in_seq in Ho. apply IH in Ha. split; [assumption|]. exists o. split; [lia|assumption].
    + intros [Hk [o [Ho Ha]]]. split; [assumption|]. exists o. split; [apply in_seq; lia|now apply IH].
  - change (addrb (TCat ps) k s b) with (addrb_cat k s b ps 0).
    change (addr (TCat ps) k s b) with (addr_cat k s b ps 0).
    generalize 0 as off. induction ps as [|p ps IHps]; intros off; cbn [addrb_cat addr_cat].
    + split; [discriminate|intros []].
    + inversion IH as [|? ? IHp IHr]; subst.
      rewrite orb_true_iff, !andb_true_iff, Nat.leb_le, Nat.ltb_lt, IHp, (IHps IHr). tauto.
  - cbn [addrb]. change (addr (TSwitch w es) k s b) with (addr_sw k s b es).
    rewrite addr_sw_iff, existsb_exists. rewrite Forall_forall in IH. split.
    + intros [e [He H]]. apply andb_true_iff in H as [H1 H2]. apply Nat.ltb_lt in H1. apply (IH e He) in H2. eauto.
    + intros [e [He [H1 H2]]]. exists e. split; [assumption|]. apply andb_true_iff. split; [now apply Nat.ltb_lt|now apply IH].
Qed.

Lemma may_driveb_iff t s b : may_driveb t s b = true <-> may_drive t s b.
Proof.
  unfold may_driveb, may_drive. rewrite existsb_exists. split.
  - intros [k [Hk Ha]]. apply in_seq in Hk. exists k. split; [lia|now apply addrb_iff].
  - intros [k [Hk Ha]]. exists k. split; [apply in_seq; lia|now apply addrb_iff].
Qed.


(* ---------- connect(): the single-driver assertion, one step ---------- *)
Lemma bit_eqb_eq x y : bit_eqb x y = true <-> x = y.
Proof.
  destruct x as [a b], y as [c d]. unfold bit_eqb. simpl. rewrite andb_true_iff, !Nat.eqb_eq.
  split; [intros [-> ->]; reflexivity|intro H; inversion H; auto].
Qed.
Lemma bmem_In x l : bmem x l = true <-> In x l.
Proof.
  unfold bmem. rewrite existsb_exists. split.
  - intros [y [Hy He]]. apply bit_eqb_eq in He. now subst.
  - intro H. exists x. split; [assumption|now apply bit_eqb_eq].
Qed.

(* connect succeeds exactly when every bit is connected for the first time; it then records all of them *)
Theorem connect_spec : forall bits conns c',
  connect bits conns = inl c' <->
  (NoDup bits /\ (forall x, In x bits -> ~ In x conns) /\ c' = rev bits ++ conns).
Proof.
  induction bits as [|x r IH]; intros conns c'; simpl.
  - split; [intro H; inversion H; subst; repeat split; [constructor|intros ? []]|intros [_ [_ ->]]; reflexivity].
  - destruct (bmem x conns) eqn:E.
    + split; [discriminate|]. intros [_ [H _]]. exfalso. apply (H x (or_introl eq_refl)). now apply bmem_In.
    + assert (Hx : ~ In x conns) by (intro H; apply bmem_In in H; congruence).
      rewrite IH. split.
      * intros [Hn [Hd ->]]. repeat split.
        -- constructor; [|assumption]. intro Hin. apply (Hd x Hin). now left.
        -- intros y [<-|Hy]; [assumption|]. intro Hc. apply (Hd y Hy). now right.
        -- now rewrite <- app_assoc.
      * intros [Hn [Hd ->]]. inversion Hn; subst. repeat split; [assumption| |now rewrite <- app_assoc].
        intros y Hy [<-|Hc]; [contradiction|]. apply (Hd y (or_intror Hy) Hc).
Qed.

(* a raised connect error names a bit of the new value that is already connected or listed twice *)
Theorem connect_err : forall bits conns e,
  connect bits conns = inr e ->
  exists s b, e = ErrConnect s b /\ In (s, b) bits /\ (In (s, b) conns \/ ~ NoDup bits).
Proof.
  induction bits as [|x r IH]; intros conns e H; simpl in H; [discriminate|].
  destruct (bmem x conns) eqn:E.
  - inversion H; subst. exists (fst x), (snd x). rewrite <- surjective_pairing.
    repeat split; [now left|left; now apply bmem_In].
  - apply IH in H as [s [b [-> [Hin Hor]]]]. exists s, b. repeat split; [now right|].
    destruct Hor as [[Hx|Hc]|Hnd].
    + right. intro Hn. inversion Hn as [|? ? Hx' Hr]; subst. exact (Hx' Hin).
    + now left.
    + right. intro Hn. inversion Hn as [|? ? Hx' Hr]; subst. exact (Hnd Hr).
Qed.

(* the per-bit driven_bits check fires only when the bit is covered by another driver with a different key *)
Lemma mark_bits_err s key : forall bits db e,
  mark_bits s key bits db = inr e ->
  exists b k', In b bits /\ In (b, k') db /\ k' <> key /\ (e = ErrDomain s b \/ e = ErrModule s b).
Proof.
  induction bits as [|b r IH]; intros db e H; simpl in H; [discriminate|].
  destruct (find (fun p => Nat.eqb (fst p) b) db) as [[b' [om od]]|] eqn:F.
  - apply find_some in F as [Fin Fb]. simpl in Fb. apply Nat.eqb_eq in Fb. subst b'.
    destruct (negb (Nat.eqb od (snd key))) eqn:E1.
    + inversion H; subst. exists b, (om, od). repeat split; [now left|assumption| |now left].
      intro K. subst key. simpl in E1. now rewrite Nat.eqb_refl in E1.
    + destruct (negb (Nat.eqb om (fst key))) eqn:E2.
      * inversion H; subst. exists b, (om, od). repeat split; [now left|assumption| |now right].
        intro K. subst key. simpl in E2. now rewrite Nat.eqb_refl in E2.
      * apply IH in H as [b0 [k' [H1 [H2 [H3 H4]]]]]. exists b0, k'. repeat split; auto. now right.
  - apply IH in H as [b0 [k' [H1 [[H2|H2] [H3 H4]]]]].
    + inversion H2; subst. congruence.
    + exists b0, k'. repeat split; auto. now right.
Qed.


(* ---------- the early check of Module._add_statement, for ALL statement lists ---------- *)
(* bits set in the LHSMaskCollector masks of one statement's target *)
Definition mask_claims (ms : list (nat * nat * Z)) : list bit :=
  flat_map (fun p => let '(s, w, m) := p in map (fun b => (s, b)) (filter (fun b => Z.testbit m (Z.of_nat b)) (seq 0 w))) ms.
Definition mbits (t : tgt) : list bit := mask_claims (lhs_mask t (-1)%Z []).
Definition stmt_claims (stmts : list (nat * tgt)) : list (bit * nat) :=
  flat_map (fun st => map (fun x => (x, fst st)) (mbits (snd st))) stmts.

(* the `_driving` bookkeeping as one pass over (bit, domain) claims *)
Fixpoint claim_run (cl : list (bit * nat)) (drv : list (bit * nat)) : list (bit * nat) + bit :=
  match cl with
  | [] => inl drv
  | (x, d) :: r =>
      match find (fun p => bit_eqb (fst p) x) drv with
      | Some (_, d') => if Nat.eqb d' d then claim_run r drv else inr x
      | None => claim_run r ((x, d) :: drv)
      end
  end.

Lemma claim_run_app a : forall b drv,
  claim_run (a ++ b) drv = match claim_run a drv with inl d' => claim_run b d' | inr e => inr e end.
Proof.
  induction a as [|[x d] a IH]; intros b drv; simpl; [reflexivity|].
  destruct (find _ drv) as [[y d']|]; [destruct (Nat.eqb d' d); [apply IH|reflexivity]|apply IH].
Qed.

Lemma early_bits_run s dm m : forall bits drv,
  early_bits s dm m bits drv =
  claim_run (map (fun b => ((s, b), dm)) (filter (fun b => Z.testbit m (Z.of_nat b)) bits)) drv.
Proof.
  induction bits as [|b r IH]; intros drv; simpl; [reflexivity|].
  destruct (Z.testbit m (Z.of_nat b)); simpl; [|apply IH].
  destruct (find _ drv) as [[y d']|]; [destruct (Nat.eqb d' dm); [apply IH|reflexivity]|apply IH].
Qed.

Lemma early_masks_run dm : forall ms drv,
  early_masks dm ms drv = claim_run (map (fun x => (x, dm)) (mask_claims ms)) drv.
Proof.
  induction ms as [|[[s w] m] r IH]; intros drv; simpl; [reflexivity|].
  rewrite map_app, claim_run_app, early_bits_run, map_map.
  destruct (claim_run _ drv); [apply IH|reflexivity].
Qed.

Lemma early_stmts_run : forall stmts drv,
  early_stmts stmts drv = match claim_run (stmt_claims stmts) drv with inl _ => None | inr e => Some e end.
Proof.
  induction stmts as [|[dm t] r IH]; intros drv; simpl; [reflexivity|].
  rewrite claim_run_app, early_masks_run. unfold mbits. simpl.
  destruct (claim_run _ drv); [apply IH|reflexivity].
Qed.

(* no bit is claimed by two different domains *)
Definition functional (l : list (bit * nat)) : Prop :=
  forall x d1 d2, In (x, d1) l -> In (x, d2) l -> d1 = d2.

Lemma find_bit_some x drv y d : find (fun p : bit * nat => bit_eqb (fst p) x) drv = Some (y, d) -> In (x, d) drv.
Proof. intro H. apply find_some in H as [H1 H2]. simpl in H2. apply bit_eqb_eq in H2. now subst. Qed.
Lemma find_bit_none x drv d : find (fun p : bit * nat => bit_eqb (fst p) x) drv = None -> ~ In (x, d) drv.
Proof.
  intros H Hin. apply (find_none _ _ H) in Hin. simpl in Hin.
  assert (bit_eqb x x = true) by now apply bit_eqb_eq. congruence.
Qed.

Lemma claim_run_spec : forall cl drv, functional drv ->
  ((exists d', claim_run cl drv = inl d') <-> functional (drv ++ cl)).
Proof.
  induction cl as [|[x d] r IH]; intros drv F; simpl.
  - rewrite app_nil_r. split; [intros _; exact F|intros _; eauto].
  - destruct (find _ drv) as [[y d']|] eqn:E.
    + apply find_bit_some in E. destruct (Nat.eqb d' d) eqn:Ed.
      * apply Nat.eqb_eq in Ed. subst d'. rewrite (IH drv F).
        assert (M : forall z, In z (drv ++ (x, d) :: r) <-> In z (drv ++ r)).
        { intro z. rewrite !in_app_iff. cbn [In]. split; [intros [H|[H|H]]; auto; subst; auto|intros [H|H]; auto]. }
        split; intros G a d1 d2 H1 H2; apply (G a d1 d2); apply M; assumption.
      * apply Nat.eqb_neq in Ed. split; [intros [? H]; discriminate|].
        intro G. exfalso. apply Ed. apply (G x d' d); apply in_or_app; [now left|right; now left].
    + assert (F' : functional ((x, d) :: drv)).
      { intros a d1 d2 [H1|H1] [H2|H2].
        - congruence.
        - inversion H1; subst. now apply find_bit_none with (d := d2) in E.
        - inversion H2; subst. now apply find_bit_none with (d := d1) in E.
        - eapply F; eassumption. }
      rewrite (IH _ F'). split; intros G a d1 d2 H1 H2; apply (G a d1 d2);
        repeat (rewrite in_app_iff in * || cbn [In] in * ); tauto.
Qed.

(* For ALL statement lists of one module: the DSL raises its early "Driver-driver conflict" SyntaxError exactly when
   two statements of DIFFERENT domains have a common bit in their LHSMaskCollector masks *)
Theorem early_conflict_iff stmts :
  early_conflict stmts <> None <->
  exists x d1 t1 d2 t2, d1 <> d2 /\ In (d1, t1) stmts /\ In (d2, t2) stmts /\ In x (mbits t1) /\ In x (mbits t2).
Proof.
  unfold early_conflict. rewrite early_stmts_run.
  pose proof (claim_run_spec (stmt_claims stmts) [] ltac:(intros ? ? ? [])) as S. simpl in S.
  assert (In_claims : forall x d, In (x, d) (stmt_claims stmts) <-> exists t, In (d, t) stmts /\ In x (mbits t)).
  { intros x d. unfold stmt_claims. rewrite in_flat_map. split.
    - intros [[dm t] [H1 H2]]. simpl in H2. apply in_map_iff in H2 as [y [E H2]]. inversion E; subst. eauto.
    - intros [t [H1 H2]]. exists (d, t). split; [assumption|]. simpl. apply in_map_iff. eauto. }
  split.
  - intro H. destruct (claim_run (stmt_claims stmts) []) as [d'|e] eqn:E; [congruence|].
    assert (NF : ~ functional (stmt_claims stmts)) by (intro G; apply S in G; destruct G; discriminate).
    (* a non-functional finite relation has a witness: search it *)
    assert (W : forall l : list (bit * nat), ~ functional l ->
                exists x d1 d2, d1 <> d2 /\ In (x, d1) l /\ In (x, d2) l).
    { clear. induction l as [|[x d] l IH]; intro NF; [exfalso; apply NF; intros ? ? ? []|].
      destruct (find (fun p => bit_eqb (fst p) x && negb (Nat.eqb (snd p) d)) l) as [[y d']|] eqn:Ef.
      - apply find_some in Ef as [H1 H2]. simpl in H2. apply andb_true_iff in H2 as [H2 H3].
        apply bit_eqb_eq in H2. subst y. apply negb_true_iff, Nat.eqb_neq in H3.
        exists x, d', d. repeat split; [assumption|now right|now left].
      - destruct IH as [a [d1 [d2 [Hn [H1 H2]]]]].
        + intro G. apply NF. intros a d1 d2 [H1|H1] [H2|H2].
          * congruence.
          * inversion H1; subst. pose proof (find_none _ _ Ef _ H2) as Hf. simpl in Hf.
            assert (bit_eqb a a = true) by now apply bit_eqb_eq. rewrite H in Hf. simpl in Hf.
            apply negb_false_iff, Nat.eqb_eq in Hf. congruence.
          * inversion H2; subst. pose proof (find_none _ _ Ef _ H1) as Hf. simpl in Hf.
            assert (bit_eqb a a = true) by now apply bit_eqb_eq. rewrite H in Hf. simpl in Hf.
            apply negb_false_iff, Nat.eqb_eq in Hf. congruence.
          * eapply G; eassumption.
        + exists a, d1, d2. repeat split; [assumption|now right|now right]. }
    destruct (W _ NF) as [x [d1 [d2 [Hn [H1 H2]]]]].
    apply In_claims in H1 as [t1 [A1 B1]]. apply In_claims in H2 as [t2 [A2 B2]].
    exists x, d1, t1, d2, t2. auto.
  - intros [x [d1 [t1 [d2 [t2 [Hn [A1 [A2 [B1 B2]]]]]]]]].
    destruct (claim_run (stmt_claims stmts) []) as [d'|e] eqn:E; [|discriminate].
    exfalso. apply Hn. assert (G : functional (stmt_claims stmts)) by (apply S; eauto).
    apply (G x d1 d2); apply In_claims; eauto.
Qed.

(* ---------- the systematic family of the harness, inside Coq ---------- *)
Definition ranges4 : list (nat * nat) :=
  [(0,1);(0,2);(0,3);(0,4);(1,2);(1,3);(1,4);(2,3);(2,4);(3,4)].
(* every target form on a range of the 4-bit signal 0; `dm` is a private dummy signal *)
Definition forms_of (dm : nat) (r : nat * nat) : list tgt :=
  let '(lo, hi) := r in
  let s := TSig 0 4 in
  let sl := TSlice s lo hi in
  let L := hi - lo in
  [ sl;
    TPart sl 1 (if 2 <=? L then L - 1 else 1) 1;
    (if 2 <=? L then TCat [TSlice s lo (S lo); TSlice s (S lo) hi] else TCat [sl; TSlice (TSig dm 2) 0 1]);
    TSwitch L [sl; TSlice (TSig dm 4) 0 L];
    TCast sl ].
Definition whole_parts : list tgt :=
  let s := TSig 0 4 in [TPart s 1 2 2; TPart s 1 1 1; TPart s 1 2 1; TPart s 2 1 1; TPart s 1 3 1].
Definition targets_of (dm : nat) : list tgt := flat_map (forms_of dm) ranges4 ++ whole_parts.

(* a source placed in the 3-node tree: statement (module 0..2, domain) or an output hanging under a module *)
Inductive placed := PStmt (m dm : nat) (t : tgt) | POutAt (m : nat) (t : tgt).
Definition stmts_at (m : nat) (ps : list placed) : list (nat * tgt) :=
  flat_map (fun p => match p with PStmt m' dm t => if Nat.eqb m m' then [(dm, t)] else [] | _ => [] end) ps.
Definition outs_at (m : nat) (ps : list placed) : list frag :=
  flat_map (fun p => match p with POutAt m' t => if Nat.eqb m m' then [FOut [t]] else [] | _ => [] end) ps.
Definition tree (fan : bool) (ps : list placed) : frag :=
  let m2 := FMod (stmts_at 2 ps) (outs_at 2 ps) in
  if fan then FMod (stmts_at 0 ps) ([FMod (stmts_at 1 ps) (outs_at 1 ps); m2] ++ outs_at 0 ps)
  else FMod (stmts_at 0 ps) ([FMod (stmts_at 1 ps) (m2 :: outs_at 1 ps)] ++ outs_at 0 ps).

Definition placements (dm : nat) : list placed :=
  flat_map (fun t => flat_map (fun m => map (fun d => PStmt m d t) [0; 1; 2]) [0; 1; 2]) (targets_of dm)
  ++ flat_map (fun r => map (fun m => POutAt m (TSlice (TSig 0 4) (fst r) (snd r))) [0; 1; 2]) ranges4.

Definition agree (d : design) : bool :=
  Bool.eqb (match driver_table d with Some _ => true | None => false end) (conflictb d).

Definition pair_family_ok (fan : bool) (ports : list (nat * nat * pdir)) : bool :=
  forallb (fun p => forallb (fun q => agree (Design (tree fan [p; q]) ports)) (placements 2)) (placements 1).

Definition sl4 (r : nat * nat) : tgt := TSlice (TSig 0 4) (fst r) (snd r).
Definition placements_a : list placed :=
  flat_map (fun r => [PStmt 0 0 (sl4 r); PStmt 0 1 (sl4 r); PStmt 1 0 (sl4 r)]) ranges4
  ++ map (PStmt 0 0) whole_parts
  ++ map (fun r => POutAt 1 (sl4 r)) ranges4.
Definition placements_b : list placed :=
  flat_map (fun r => [PStmt 1 0 (sl4 r); PStmt 2 1 (sl4 r)]) ranges4
  ++ map (fun r => POutAt 2 (sl4 r)) ranges4.

Definition family (fan : bool) (ps : list placed) (ports : list (nat * nat * pdir)) : list design :=
  flat_map (fun p => map (fun q => Design (tree fan [p; q]) ports) (placements 2)) ps.
Definition family_ports : list design :=
  flat_map (fun p => map (fun dir => Design (tree true [p]) [(0, 4, dir)]) [PNone; PIn; POut]) (placements 1).

Lemma family_fan_ok : forallb agree (family true placements_a []) = true.
Proof. vm_cast_no_check (eq_refl true). Qed.
Lemma family_chain_ok : forallb agree (family false placements_b []) = true.
Proof. vm_cast_no_check (eq_refl true). Qed.
Lemma family_ports_ok : forallb agree family_ports = true.
Proof. vm_cast_no_check (eq_refl true). Qed.

Theorem driver_check_iff_family d :
  In d (family true placements_a [] ++ family false placements_b [] ++ family_ports) ->
  (driver_table d <> None <-> conflictb d = true).
Proof.
  intro H.
  assert (A : agree d = true).
  { apply in_app_or in H. destruct H as [H|H]; [exact (proj1 (forallb_forall _ _) family_fan_ok d H)|].
    apply in_app_or in H. destruct H as [H|H];
      [exact (proj1 (forallb_forall _ _) family_chain_ok d H) | exact (proj1 (forallb_forall _ _) family_ports_ok d H)]. }
  unfold agree in A. apply Bool.eqb_prop in A. rewrite <- A.
  destruct (driver_table d); split; intro; congruence.
Qed.

(* the early DSL check over-approximates part-selects (S2): rejected although no bit has two sources *)
Definition s2_stmts : list (nat * tgt) := [(0, TPart (TSig 0 8) 1 2 2); (1, TSlice (TSig 0 8) 4 8)].
Lemma early_conflict_refuted :
  early_conflict s2_stmts = Some (0, 4) /\ conflictb (Design (FMod s2_stmts []) []) = false
  /\ driver_table (Design (FMod [] [FMod [(0, TPart (TSig 0 8) 1 2 2)] []; FMod [(1, TSlice (TSig 0 8) 4 8)] []]) []) = None.
Proof. vm_compute. repeat split. Qed.

(* a zero-width target makes a driver with no bits; it is NOT widened to the whole signal (repo fix of
   C06-zero-width-driver-vs-input-port), so the signal may also be an Input port; a one-bit sole driver is still widened
   and then collides with the port on bit 0 *)
Lemma zero_width_accepted :
  let d := Design (FMod [(0, TSlice (TSig 0 4) 1 1)] []) [(0, 4, PIn)] in
  let d1 := Design (FMod [(0, TSlice (TSig 0 4) 1 2)] []) [(0, 4, PIn)] in
  driver_table d = None /\ conflictb d = false /\ driver_table d1 = Some (ErrConnect 0 0) /\ conflictb d1 = true.
Proof. vm_compute. repeat split. Qed.

(* m.d.comb += a.eq(a[1] + 1), a 2 bits wide: the DFS enters the adder by output 0 and closes on its sibling
   output 1; reported at the frame of output 0 since the `cycle.start in extra_nets` fix *)
Definition g_assert : netlist :=
  Netlist [CTop []; COperator KOther 2 [[NL 1; NC 0 0]; [NC 0 1; NC 0 0]]]
          [(2, NC 1 0); (1, NC 1 1)] [[NL 2; NL 1]].
Lemma dfs_sibling_cycle_reported :
  wf_netlist g_assert = true /\ top_first g_assert = true /\ reach g_assert (NL 1) (NL 1)
  /\ check_cycles g_assert = VCycle [NL 1; NC 1 0].
Proof.
  repeat split; try (vm_compute; reflexivity).
  eapply reach_step with (k := NC 1 1); [vm_compute; now left|]. apply reach_one. vm_compute. now left.
Qed.

(* ================================================================================================ *)
(* Part III — the design-level oracle decides the dependency SPEC                                   *)
(* ================================================================================================ *)
Lemma bdedup_In x : forall l, In x (bdedup l) <-> In x l.
Proof.
  induction l as [|y l IH]; simpl; [tauto|].
  destruct (bmem y l) eqn:E.
  - rewrite IH. apply bmem_In in E. split; [auto|intros [<-|H]; auto].
  - simpl. rewrite IH. tauto.
Qed.
Lemma bdedup_NoDup : forall l, NoDup (bdedup l).
Proof.
  induction l as [|y l IH]; simpl; [constructor|].
  destruct (bmem y l) eqn:E; [assumption|]. constructor; [|assumption].
  rewrite bdedup_In. intro H. apply bmem_In in H. congruence.
Qed.
Lemma bcode_inj x y : bcode x = bcode y -> x = y.
Proof.
  unfold bcode. intro H. injection H as H.
  rewrite <- (Cantor.cancel_of_to x), <- (Cantor.cancel_of_to y). now rewrite H.
Qed.

Lemma conn_from_find c : forall D j q,
  find (fun p : nat * net => Nat.eqb (fst p) c) (conn_from D j) = Some q ->
  exists i x, nth_error D i = Some x /\ c = bcode x /\ q = (c, NC (S (j + i)) 0).
Proof.
  induction D as [|x D IH]; intros j q H; cbn [conn_from find fst] in H; [discriminate|].
  destruct (Nat.eqb (bcode x) c) eqn:E.
  - apply Nat.eqb_eq in E. inversion H; subst. exists 0, x. rewrite Nat.add_0_r. repeat split; reflexivity.
  - apply IH in H as [i [y [H1 [H2 H3]]]]. exists (S i), y. repeat split; auto.
    rewrite H3. replace (S j + i) with (j + S i) by lia. reflexivity.
Qed.
Lemma conn_from_found : forall D j i x, NoDup D -> nth_error D i = Some x ->
  find (fun p : nat * net => Nat.eqb (fst p) (bcode x)) (conn_from D j) = Some (bcode x, NC (S (j + i)) 0).
Proof.
  induction D as [|y D IH]; intros j i x N H; [destruct i; discriminate|].
  inversion N as [|? ? Hy N']; subst. cbn [conn_from find fst]. destruct i as [|i]; cbn [nth_error] in H.
  - inversion H; subst. rewrite Nat.eqb_refl, Nat.add_0_r. reflexivity.
  - destruct (Nat.eqb (bcode y) (bcode x)) eqn:E.
    + apply Nat.eqb_eq, bcode_inj in E. subst. exfalso. apply Hy. eapply nth_error_In; eassumption.
    + rewrite (IH (S j) i x N' H). do 3 f_equal. lia.
Qed.

Section Oracle.
Variable sts : list cstmt.
Let deps := design_deps sts.
Let D := bdedup (map fst deps).
Let g := dep_graph_netlist deps.

Lemma deps_of_In x y : In y (deps_of deps x) <-> dep1 sts x y.
Proof.
  unfold deps_of, dep1. fold deps. rewrite in_flat_map. split.
  - intros [[a l] [H1 H2]]. simpl in H2. destruct (bit_eqb a x) eqn:E; [|destruct H2].
    apply bit_eqb_eq in E. subst. eauto.
  - intros [l [H1 H2]]. exists (x, l). split; [assumption|]. simpl.
    assert (bit_eqb x x = true) as -> by now apply bit_eqb_eq. assumption.
Qed.

Lemma g_cells j : nth_error (cells g) (S j) =
  option_map (fun x => CMatch 1 (NC 0 1) (map benc (deps_of deps x))) (nth_error D j).
Proof. unfold g, dep_graph_netlist. simpl. fold D. apply nth_error_map. Qed.

(* the owner of a net: the signal bit it stands for *)
Definition own (n : net) (x : bit) : Prop :=
  n = benc x \/ exists j b, n = NC (S j) b /\ nth_error D j = Some x.
Definition is_cellnet (n : net) : bool := match n with NC _ _ => true | NL _ => false end.

Lemma succs_late c m : In m (succs g (NL c)) ->
  exists i x, nth_error D i = Some x /\ c = bcode x /\ m = NC (S i) 0.
Proof.
  unfold succs. simpl. unfold conn_of, g, dep_graph_netlist. simpl. fold D.
  destruct (find _ _) as [q|] eqn:E; [|intros []].
  apply conn_from_find in E as [i [x [H1 [H2 H3]]]]. subst q. simpl. intros [<-|[]]. eauto.
Qed.
Lemma succs_cell j b m : In m (succs g (NC (S j) b)) ->
  exists x, nth_error D j = Some x /\ (m = NC 0 1 \/ exists y, m = benc y /\ dep1 sts x y).
Proof.
  unfold succs. cbn [is_const]. rewrite g_cells. destruct (nth_error D j) as [x|]; [|intros []].
  simpl. intros [<-|H]; exists x; split; auto. right.
  apply in_map_iff in H as [y [<- H]]. exists y. split; [reflexivity|now apply deps_of_In].
Qed.
Lemma succs_top b m : ~ In m (succs g (NC 0 b)).
Proof. unfold succs. destruct (is_const (NC 0 b)); [intros []|]. simpl. intros []. Qed.

Lemma edge_owner n m : edge g n m -> exists x, own n x.
Proof.
  unfold edge. destruct n as [[|j] b|c]; intro H.
  - now apply succs_top in H.
  - apply succs_cell in H as [x [H _]]. exists x. right. eauto.
  - apply succs_late in H as [i [x [H1 [H2 _]]]]. exists x. left. unfold benc. congruence.
Qed.
Lemma own_fun n x y : own n x -> own n y -> x = y.
Proof.
  intros [->|[j [b [-> H]]]] [H2|[j2 [b2 [E2 H2]]]]; try discriminate.
  - unfold benc in H2. apply bcode_inj. congruence.
  - inversion E2; subst. congruence.
Qed.

Lemma decode n m : reach g n m -> forall x y, own n x -> own m y ->
  ((is_cellnet n = true \/ is_cellnet m = false) -> dreach sts x y) /\ (x = y \/ dreach sts x y).
Proof.
  induction 1 as [n m E|n k m E R IH]; intros x y On Om.
  - destruct n as [[|j] b|c].
    + now apply succs_top in E.
    + apply succs_cell in E as [x' [Hx [->|[y' [-> Hd]]]]].
      * destruct Om as [Om|[j2 [b2 [Om _]]]]; discriminate.
      * assert (x = x') as -> by (eapply own_fun; [exact On|right; eauto]).
        assert (y = y') as -> by (eapply own_fun; [exact Om|now left]).
        split; [intros _|right]; now apply dreach_one.
    + apply succs_late in E as [i [x' [H1 [H2 ->]]]].
      assert (x = x') as -> by (eapply own_fun; [exact On|left; unfold benc; congruence]).
      assert (y = x') as -> by (eapply own_fun; [exact Om|right; eauto]).
      split; [intros [H|H]; discriminate|now left].
  - destruct (reach_first _ _ _ R) as [k' Ek]. destruct (edge_owner _ _ Ek) as [z Oz].
    destruct (IH z y Oz Om) as [IH1 IH2].
    destruct n as [[|j] b|c].
    + now apply succs_top in E.
    + apply succs_cell in E as [x' [Hx [->|[z' [-> Hd]]]]].
      * destruct Oz as [Oz|[j2 [b2 [Oz _]]]]; discriminate.
      * assert (x = x') as -> by (eapply own_fun; [exact On|right; eauto]).
        assert (z = z') as -> by (eapply own_fun; [exact Oz|now left]).
        assert (dreach sts x' y) by (destruct IH2 as [<-|IH2]; [now apply dreach_one|eapply dreach_step; eassumption]).
        auto.
    + apply succs_late in E as [i [x' [H1 [H2 ->]]]].
      assert (x = x') as -> by (eapply own_fun; [exact On|left; unfold benc; congruence]).
      assert (z = x') as -> by (eapply own_fun; [exact Oz|right; eauto]).
      split; [intros _; apply IH1; now left|exact IH2].
Qed.

Lemma encode_step x y : dep1 sts x y ->
  exists j, nth_error D j = Some x /\ edge g (benc x) (NC (S j) 0) /\ edge g (NC (S j) 0) (benc y).
Proof.
  intro Hd. assert (In x D) as Hin.
  { destruct Hd as [l [H _]]. unfold D. apply bdedup_In. apply in_map_iff. exists (x, l). auto. }
  apply In_nth_error in Hin as [j Hj]. exists j. split; [assumption|]. split.
  - unfold edge, succs. simpl. unfold conn_of, g, dep_graph_netlist. simpl. fold D.
    rewrite (conn_from_found D 0 j x (bdedup_NoDup _) Hj). simpl. now left.
  - unfold edge, succs. cbn [is_const]. rewrite g_cells, Hj. simpl. right. apply in_map. now apply deps_of_In.
Qed.

Lemma encode x y : dreach sts x y -> reach g (benc x) (benc y).
Proof.
  induction 1 as [x y Hd|x y z Hd R IH].
  - destruct (encode_step x y Hd) as [j [_ [E1 E2]]]. eapply reach_step; [exact E1|now apply reach_one].
  - destruct (encode_step x y Hd) as [j [_ [E1 E2]]].
    eapply reach_step; [exact E1|]. eapply reach_step; [exact E2|exact IH].
Qed.

Lemma cell_roots_match : forall (l : list bit) k f,
  (forall x, exists en v, f x = CMatch 1 en v) ->
  forall j, j < length l -> In (NC (k + j) 0) (cell_roots (map f l) k).
Proof.
  induction l as [|x l IH]; intros k f Hf j Hj; simpl in *; [lia|].
  destruct (Hf x) as [en [v ->]]. simpl. destruct j as [|j].
  - left. now rewrite Nat.add_0_r.
  - right. replace (k + S j) with (S k + j) by lia. apply IH; [assumption|lia].
Qed.

Lemma g_closed : closed_nets g.
Proof.
  intros n m _ E. destruct n as [[|j] b|c].
  - now apply succs_top in E.
  - apply succs_cell in E as [x [Hx [->|[y [-> [l [H1 H2]]]]]]].
    + right. now left.
    + right. right. unfold roots. apply in_or_app. right. unfold g, dep_graph_netlist. simpl. rewrite app_nil_r.
      apply in_map. apply in_or_app. right. apply in_flat_map. exists (x, l). auto.
  - apply succs_late in E as [i [x [H1 [H2 ->]]]].
    right. right. unfold roots. apply in_or_app. left. unfold g, dep_graph_netlist. simpl. fold D.
    apply (cell_roots_match D 1 (fun x0 => CMatch 1 (NC 0 1) (map benc (deps_of deps x0)))); [intro; eauto|].
    apply nth_error_Some. congruence.
Qed.

Lemma benc_in_nets x y : dep1 sts x y -> In (benc x) (all_nets g).
Proof.
  intros [l [H _]]. right. right. unfold roots. apply in_or_app. right.
  unfold g, dep_graph_netlist. simpl. rewrite app_nil_r. apply in_map. apply in_or_app. left.
  apply in_map_iff. exists (x, l). auto.
Qed.

(* For ALL designs of the statement language: the oracle run by the harness says "cyclic" exactly when some signal
   bit depends on itself through >= 1 step of the dependency SPEC *)
Theorem design_cyclicb_iff : design_cyclicb sts = true <-> design_cyclic sts.
Proof.
  unfold design_cyclicb. fold deps. fold g. split.
  - destruct (check_cycles g) as [|p| |] eqn:E; try discriminate. intros _.
    destruct (dfs_sound g p eq_refl E) as [s [m [_ [_ [_ [_ R]]]]]].
    assert (exists x, own s x) as [x Ox] by (destruct (reach_first _ _ _ R) as [k Ek]; eapply edge_owner; exact Ek).
    exists x. destruct (decode s s R x x Ox Ox) as [H _]. apply H. destruct s; auto.
  - intros [x R].
    assert (exists z, dep1 sts x z) as [z Hz] by (inversion R; eauto).
    assert (In (benc x) (all_nets g)) as Hin by (eapply benc_in_nets; exact Hz).
    pose proof (encode x x R) as Rg.
    pose proof (dfs_complete g) as C. pose proof (dfs_no_assert g) as A.
    assert (check_cycles g <> VFuel) as F.
    { unfold check_cycles. apply top_loop_fuel; [exact g_closed|lia|]. intros r Hr. right. right. exact Hr. }
    destruct (check_cycles g) as [|p| |]; [exfalso; exact (C eq_refl _ Hin Rg)|reflexivity|congruence|congruence].
Qed.
End Oracle.

(* ================================================================================================ *)
(* the search never trips over its own bookkeeping (for the translated code: no exception other than  *)
(* CombinationalCycle): busy is restored exactly, merged outputs are never already checked            *)
(* ================================================================================================ *)
Lemma nodupb_NoDup l : nodupb l = true -> NoDup l.
Proof.
  induction l as [|x r IH]; simpl; [constructor|]. intro H. apply andb_true_iff in H as [H1 H2].
  constructor; [|now apply IH]. apply negb_true_iff in H1. now apply nmem_false.
Qed.

Lemma NoDup_app_l {A} (a b : list A) : NoDup (a ++ b) -> NoDup a.
Proof.
  induction a as [|x a IH]; simpl; intro H; [constructor|]. inversion H; subst. constructor; [|now apply IH].
  intro Hx. apply H2. apply in_or_app. now left.
Qed.
Lemma NoDup_app_r {A} (a b : list A) : NoDup (a ++ b) -> NoDup b.
Proof. induction a as [|x a IH]; simpl; intro H; [assumption|]. inversion H; subst. now apply IH. Qed.

Lemma cell_roots_nth : forall cs k c cl n, nth_error cs c = Some cl -> In n (outputs cl (k + c)) -> In n (cell_roots cs k).
Proof.
  induction cs as [|c0 cs IH]; intros k c cl n H Hn; [destruct c; discriminate|].
  simpl. apply in_or_app. destruct c as [|c]; simpl in H.
  - inversion H; subst. left. now rewrite Nat.add_0_r in Hn.
  - right. apply (IH (S k) c cl n H). now replace (S k + c) with (k + S c) by lia.
Qed.
Lemma cell_roots_inv : forall cs k n, In n (cell_roots cs k) ->
  exists c cl, nth_error cs c = Some cl /\ In n (outputs cl (k + c)).
Proof.
  induction cs as [|c0 cs IH]; intros k n H; [destruct H|]. simpl in H. apply in_app_or in H as [H|H].
  - exists 0, c0. rewrite Nat.add_0_r. auto.
  - apply IH in H as [c [cl [H1 H2]]]. exists (S c), cl. split; [assumption|]. now replace (k + S c) with (S k + c) by lia.
Qed.
Lemma outputs_cell c cl n : In n (outputs cl c) -> exists b, n = NC c b.
Proof. unfold outputs. intro H. apply in_map_iff in H as [b [<- _]]. eauto. Qed.
Lemma cell_roots_split : forall cs k c cl, nth_error cs c = Some cl ->
  exists l1 l2, cell_roots cs k = l1 ++ outputs cl (k + c) ++ l2.
Proof.
  induction cs as [|c0 cs IH]; intros k c cl H; [destruct c; discriminate|]. destruct c as [|c]; simpl in *.
  - inversion H; subst. exists [], (cell_roots cs (S k)). now rewrite Nat.add_0_r.
  - destruct (IH (S k) c cl H) as [l1 [l2 E]]. exists (outputs c0 k ++ l1), l2.
    rewrite E, <- app_assoc. now replace (k + S c) with (S k + c) by lia.
Qed.

Section Safe.
Variable g : netlist.
Hypothesis W : wf_struct g = true.

Let roots_nc : forall n, In n (cell_roots (cells g) 0) -> is_const n = false.
Proof.
  intros n H. unfold wf_struct in W. apply andb_true_iff in W as [W1 _]. apply andb_true_iff in W1 as [W1 _].
  apply andb_true_iff in W1 as [W1 _]. rewrite forallb_forall in W1. now apply negb_true_iff, W1.
Qed.
Let outputs_nodup : forall c cl, nth_error (cells g) c = Some cl -> NoDup (outputs cl c).
Proof.
  intros c cl H. unfold wf_struct in W. apply andb_true_iff in W as [W1 _]. apply andb_true_iff in W1 as [W1 _].
  apply andb_true_iff in W1 as [_ W2]. apply nodupb_NoDup in W2.
  destruct (cell_roots_split (cells g) 0 c cl H) as [l1 [l2 E]]. rewrite E in W2. simpl in W2.
  apply NoDup_app_r in W2. now apply NoDup_app_l in W2.
Qed.

(* a net the search can meet: late, constant, or a listed output of its cell *)
Definition valid (n : net) : Prop :=
  match n with NL _ => True | NC _ _ => is_const n = true \/ In n (cell_roots (cells g) 0) end.

Lemma valid_nets n : In n (all_nets g) -> valid n.
Proof.
  intros [<-|[<-|H]]; [now left|now left|]. unfold roots in H. apply in_app_or in H as [H|H].
  - destruct n; [now right|exact I].
  - unfold wf_struct in W. apply andb_true_iff in W as [W1 _]. apply andb_true_iff in W1 as [_ W3].
    rewrite forallb_forall in W3. specialize (W3 n H). destruct n as [c b|l]; [|exact I].
    apply orb_true_iff in W3 as [W3|W3]; [now left|right; now apply nmem_In].
Qed.

Lemma extras_char n e : In e (extras g n) ->
  exists c b b' cl, n = NC c b /\ e = NC c b' /\ is_const n = false /\ nth_error (cells g) c = Some cl /\
                    per_bit cl = false /\ In e (outputs cl c) /\ e <> n.
Proof.
  unfold extras. destruct (is_const n) eqn:Cn; [intros []|]. destruct n as [c b|l]; [|intros []].
  destruct (nth_error (cells g) c) as [cl|] eqn:Ec; [|intros []]. destruct (per_bit cl) eqn:Pb; [intros []|].
  intro H. apply filter_In in H as [H1 H2]. destruct (outputs_cell _ _ _ H1) as [b' ->].
  exists c, b, b', cl. repeat split; auto. intro E. rewrite E in H2.
  assert (net_eqb (NC c b) (NC c b) = true) by now apply net_eqb_eq. rewrite H in H2. discriminate.
Qed.

Lemma extras_sym n e : valid n -> In e (extras g n) -> In n (extras g e).
Proof.
  intros V H. destruct (extras_char n e H) as [c [b [b' [cl [-> [-> [Cn [Ec [Pb [He Hne]]]]]]]]]].
  assert (Hn : In (NC c b) (outputs cl c)).
  { destruct V as [V|V]; [congruence|]. apply cell_roots_inv in V as [c2 [cl2 [E2 H2]]]. simpl in H2.
    destruct (outputs_cell _ _ _ H2) as [b2 E]. inversion E; subst. congruence. }
  assert (Ce : is_const (NC c b') = false) by (apply roots_nc; eapply (cell_roots_nth _ 0); eassumption).
  unfold extras. rewrite Ce, Ec, Pb. apply filter_In. split; [assumption|].
  apply negb_true_iff. destruct (net_eqb (NC c b) (NC c b')) eqn:E; [|reflexivity]. apply net_eqb_eq in E. congruence.
Qed.

Lemma extras_trans n e z : In e (extras g n) -> In z (extras g e) -> z = n \/ In z (extras g n).
Proof.
  intros H1 H2. destruct (extras_char n e H1) as [c [b [b' [cl [-> [-> [Cn [Ec [Pb [He Hne]]]]]]]]]].
  destruct (extras_char _ z H2) as [c2 [b2 [b3 [cl2 [E1 [-> [Ce [Ec2 [Pb2 [Hz Hze]]]]]]]]]].
  inversion E1; subst c2 b2. rewrite Ec in Ec2. inversion Ec2; subst cl2.
  destruct (net_eqb (NC c b3) (NC c b)) eqn:E; [left; now apply net_eqb_eq|right].
  unfold extras. rewrite Cn, Ec, Pb. apply filter_In. split; [assumption|]. now rewrite E.
Qed.

Lemma extras_nodup n : NoDup (extras g n) /\ ~ In n (extras g n).
Proof.
  split.
  - unfold extras. destruct (is_const n); [constructor|]. destruct n as [c b|l]; [|constructor].
    destruct (nth_error (cells g) c) as [cl|] eqn:Ec; [|constructor]. destruct (per_bit cl); [constructor|].
    apply NoDup_filter. eapply outputs_nodup; eassumption.
  - intro H. destruct (extras_char n n H) as [c [b [b' [cl [_ [_ [_ [_ [_ [_ Hne]]]]]]]]]]. now apply Hne.
Qed.

(* a set of nets closed under "merged with" *)
Definition cc (S : list net) : Prop := forall x y, In x S -> In y (extras g x) -> In y S.
Definition pre (st : dfs) : Prop := cc (checked st) /\ cc (busy st).

Lemma cc_add n S ex : valid n -> cc S -> (forall x, In x ex <-> In x (extras g n)) -> cc (ex ++ n :: S).
Proof.
  intros V C Hex x y Hx Hy. apply in_or_app. apply in_app_or in Hx as [Hx|[<-|Hx]].
  - apply Hex in Hx. destruct (extras_trans _ _ _ Hx Hy) as [->|H]; [right; now left|left; now apply Hex].
  - left. now apply Hex.
  - right. right. eapply C; eassumption.
Qed.

Lemma cc_not_in n S e : valid n -> cc S -> ~ In n S -> In e (extras g n) -> ~ In e S.
Proof. intros V C Hn He Hin. apply Hn. eapply C; [exact Hin|]. now apply extras_sym. Qed.

Definition seteq (a b : list net) : Prop := forall x, In x a <-> In x b.
Lemma cc_seteq a b : seteq a b -> cc a -> cc b.
Proof. intros E C x y Hx Hy. apply E. eapply C; [apply E; exact Hx|exact Hy]. Qed.

(* the invariant of one call *)
Definition safe_res (st : dfs) (r : tres) : Prop :=
  match r with TOk st' _ => pre st' /\ seteq (busy st') (busy st) | _ => True end.

Hypothesis closed : closed_nets g.

Lemma trav_loop_safe trav n :
  (forall s st, In s (all_nets g) -> pre st -> safe_res st (trav s st)) ->
  forall ss st, (forall s, In s ss -> In s (all_nets g)) -> pre st -> safe_res st (trav_loop trav n ss st).
Proof.
  intros Ht. induction ss as [|s ss IH]; intros st Hss P; simpl.
  - split; [assumption|intro; tauto].
  - pose proof (Ht s st (Hss s (or_introl eq_refl)) P) as H.
    destruct (trav s st) as [st1 [[s0 p]|]|p|]; simpl in *; try exact I; [exact H|].
    destruct H as [P1 E1]. pose proof (IH st1 (fun x Hx => Hss x (or_intror Hx)) P1) as H2.
    destruct (trav_loop trav n ss st1) as [st2 c| |]; simpl in *; try exact I.
    destruct H2 as [P2 E2]. split; [assumption|]. intro x. rewrite (E2 x). apply E1.
Qed.

Lemma finish_safe n st st2 : valid n -> pre st -> ~ In n (busy st) ->
  pre st2 -> seteq (busy st2) (extras g n ++ n :: busy st) ->
  let st' := Dfs (rev (extras g n) ++ n :: checked st2)
                 (fold_left (fun b e => remove_net e b) (extras g n) (remove_net n (busy st2))) in
  pre st' /\ seteq (busy st') (busy st).
Proof.
  intros V [Cc Cb] Hnb [Cc2 Cb2] E2 st'.
  assert (Eb : seteq (busy st') (busy st)).
  { intro x. unfold st'. simpl. rewrite fold_remove_In, remove_net_In, (E2 x), in_app_iff. simpl. split.
    - intros [[[H|[H|H]] H1] H2]; [contradiction|congruence|assumption].
    - intro H. repeat split; [right; now right| |].
      + intro; subst; contradiction.
      + intro He. eapply (cc_not_in n (busy st) x); eassumption. }
  split; [split|exact Eb].
  - unfold st'. simpl. apply cc_add; [assumption|assumption|]. intro x. now rewrite <- in_rev.
  - eapply cc_seteq; [|exact Cb]. intro x. symmetry. apply Eb.
Qed.

Lemma traverse_safe : forall fuel n st, In n (all_nets g) -> pre st -> safe_res st (traverse g fuel n st).
Proof.
  induction fuel as [|fuel IH]; intros n st Hn P; simpl; [exact I|].
  destruct (nmem n (checked st)) eqn:Ck; [split; [assumption|intro; tauto]|].
  destruct (nmem n (busy st)) eqn:Bk; [split; [assumption|intro; tauto]|].
  apply nmem_false in Ck, Bk. pose proof (valid_nets n Hn) as V. destruct P as [Cc Cb].
  set (st1 := Dfs (checked st) (extras g n ++ n :: busy st)).
  assert (P1 : pre st1) by (split; [exact Cc|apply cc_add; [assumption|assumption|intro; tauto]]).
  pose proof (trav_loop_safe (traverse g fuel) n IH (succs g n) st1 (fun s Hs => closed n s Hn Hs) P1) as H.
  destruct (trav_loop (traverse g fuel) n (succs g n) st1) as [st2 [[s0 p]|]|p|]; simpl in *; try exact I.
  - destruct (net_eqb s0 n || nmem s0 (extras g n)); [exact I|]. destruct H as [P2 E2].
    apply finish_safe; auto. split; assumption.
  - destruct H as [P2 E2]. apply finish_safe; auto. split; assumption.
Qed.
End Safe.

(* ================================================================================================ *)
(* Part I — the whole-design driver check, for ALL designs                                          *)
(* ================================================================================================ *)
Definition cov (b : nat) (rs : list arec) : Prop := exists r, In r rs /\ covers b r = true.
Definition mine (s w : nat) (rs : list arec) : list bit :=
  map (fun b => (s, b)) (filter (fun b => existsb (covers b) rs) (seq 0 w)).
Definition allbits (s w : nat) : list bit := map (fun b => (s, b)) (seq 0 w).

Lemma mine_In s w rs x : In x (mine s w rs) <-> fst x = s /\ snd x < w /\ cov (snd x) rs.
Proof.
  unfold mine, cov. rewrite in_map_iff. split.
  - intros [b [<- H]]. apply filter_In in H as [H1 H2]. apply in_seq in H1. apply existsb_exists in H2. simpl. split; [reflexivity|]. split; [lia|exact H2].
  - intros [H1 [H2 H3]]. exists (snd x). split; [destruct x; simpl in *; congruence|].
    apply filter_In. split; [apply in_seq; lia|now apply existsb_exists].
Qed.
Lemma allbits_In s w x : In x (allbits s w) <-> fst x = s /\ snd x < w.
Proof.
  unfold allbits. rewrite in_map_iff. split.
  - intros [b [<- H]]. apply in_seq in H. simpl. lia.
  - intros [H1 H2]. exists (snd x). split; [destruct x; simpl in *; congruence|apply in_seq; lia].
Qed.
Lemma NoDup_map_pair (s : nat) (l : list nat) : NoDup l -> NoDup (map (fun b : nat => (s, b)) l).
Proof.
  induction 1; simpl; constructor; auto. intro Hin. apply in_map_iff in Hin as [y [E Hy]]. inversion E; subst. contradiction.
Qed.
Lemma mine_NoDup s w rs : NoDup (mine s w rs).
Proof. apply NoDup_map_pair. apply NoDup_filter. apply seq_NoDup. Qed.
Lemma allbits_NoDup s w : NoDup (allbits s w).
Proof. apply NoDup_map_pair. apply seq_NoDup. Qed.

Lemma connect_ok_In bits conns c' : connect bits conns = inl c' -> forall x, In x c' <-> In x bits \/ In x conns.
Proof.
  intro H. apply connect_spec in H as [_ [_ ->]]. intro x. rewrite in_app_iff, <- in_rev. tauto.
Qed.
Lemma connect_ok_disj bits conns c' : connect bits conns = inl c' -> forall x, In x bits -> ~ In x conns.
Proof. intro H. apply connect_spec in H as [_ [H _]]. exact H. Qed.

(* ---- driven_bits ---- *)
Lemma mark_bits_db s key : forall bits db db', mark_bits s key bits db = inl db' ->
  forall b k, In (b, k) db' -> In (b, k) db \/ (k = key /\ In b bits).
Proof.
  induction bits as [|b0 r IH]; intros db db' H b k Hin; simpl in H; [inversion H; subst; auto|].
  destruct (find (fun p => Nat.eqb (fst p) b0) db) as [[b' [om od]]|] eqn:F.
  - destruct (negb (Nat.eqb od (snd key))); [discriminate|]. destruct (negb (Nat.eqb om (fst key))); [discriminate|].
    destruct (IH _ _ H b k Hin) as [H1|[H1 H2]]; [now left|right; split; [assumption|now right]].
  - destruct (IH _ _ H b k Hin) as [[H1|H1]|[H1 H2]].
    + inversion H1; subst. right. split; [reflexivity|now left].
    + now left.
    + right. split; [assumption|now right].
Qed.
Lemma covers_seq b r : In b (seq (a_start r) (a_len r)) <-> covers b r = true.
Proof.
  unfold covers. rewrite in_seq, andb_true_iff, Nat.leb_le, Nat.ltb_lt. tauto.
Qed.
Lemma mark_assigns_db s key : forall rs db db', mark_assigns s key rs db = inl db' ->
  forall b k, In (b, k) db' -> In (b, k) db \/ (k = key /\ cov b rs).
Proof.
  induction rs as [|r rs IH]; intros db db' H b k Hin; simpl in H; [inversion H; subst; auto|].
  destruct (mark_bits s key (seq (a_start r) (a_len r)) db) as [db1|e] eqn:E; [|discriminate].
  destruct (IH _ _ H b k Hin) as [H1|[H1 [r' [H2 H3]]]].
  - destruct (mark_bits_db _ _ _ _ _ E b k H1) as [H4|[H4 H5]]; [now left|].
    right. split; [assumption|]. exists r. split; [now left|now apply covers_seq].
  - right. split; [assumption|]. exists r'. split; [now right|assumption].
Qed.
Lemma mark_assigns_err s key : forall rs db e, mark_assigns s key rs db = inr e ->
  exists b k', cov b rs /\ In (b, k') db /\ k' <> key.
Proof.
  induction rs as [|r rs IH]; intros db e H; simpl in H; [discriminate|].
  destruct (mark_bits s key (seq (a_start r) (a_len r)) db) as [db1|e1] eqn:E.
  - destruct (IH _ _ H) as [b [k' [[r' [H1 H2]] [H3 H4]]]].
    destruct (mark_bits_db _ _ _ _ _ E b k' H3) as [H5|[H5 _]]; [|contradiction].
    exists b, k'. split; [exists r'; split; [now right|assumption]|auto].
  - inversion H; subst. destruct (mark_bits_err _ _ _ _ _ E) as [b [k' [H1 [H2 [H3 _]]]]].
    exists b, k'. split; [exists r; split; [now left|now apply covers_seq]|auto].
Qed.

(* ---- one signal ---- *)
Section OneSignal.
Variables s w : nat.

(* success: conns only grows, by bits of s; every driver's bits got connected, and were free before *)
Lemma esd_ok n : forall ds db conns conns', emit_sig_drivers s w n ds db conns = inl conns' ->
  (forall x, In x conns -> In x conns') /\
  (forall x, In x conns' -> In x conns \/ (fst x = s /\ snd x < w /\ exists k rs b, In (k, rs) ds /\ cov b rs)) /\
  (forall key rs, In (key, rs) ds -> forall x, In x (mine s w rs) -> In x conns' /\ ~ In x conns) /\
  (forall k1 rs1 k2 rs2, In (k1, rs1) ds -> In (k2, rs2) ds -> k1 <> k2 ->
     forall x, In x (mine s w rs1) -> ~ In x (mine s w rs2)).
Proof.
  induction ds as [|[key rs] rest IH]; intros db conns conns' H; simpl in H.
  - inversion H; subst. split; [auto|]. split; [auto|]. split; intros; contradiction.
  - set (guard := Nat.eqb n 1 && existsb (fun r => 0 <? a_len r) rs
                  && forallb (fun b => negb (bmem (s, b) conns)) (seq 0 w)) in H.
    assert (Step : exists bits db1 conns1, connect bits conns = inl conns1 /\
                   emit_sig_drivers s w n rest db1 conns1 = inl conns' /\
                   (forall x, In x bits -> fst x = s /\ snd x < w) /\
                   (forall x, In x (mine s w rs) -> In x bits) /\
                   (forall x, In x bits -> exists b, cov b rs)).
    { destruct guard eqn:G.
      - fold (allbits s w) in H. destruct (connect (allbits s w) conns) as [c1|e] eqn:E; [|discriminate].
        exists (allbits s w), db, c1. split; [exact E|]. split; [exact H|]. split; [intros x Hx; now apply allbits_In|].
        split; [intros x Hx; apply mine_In in Hx; apply allbits_In; tauto|].
        intros x _. subst guard. apply andb_true_iff in G as [G _]. apply andb_true_iff in G as [_ G].
        apply existsb_exists in G as [r [Hr Hl]]. apply Nat.ltb_lt in Hl. exists (a_start r), r. split; [assumption|].
        unfold covers. rewrite Nat.leb_refl. simpl. apply Nat.ltb_lt. lia.
      - destruct (mark_assigns s key rs db) as [db1|e] eqn:M; [|discriminate].
        fold (mine s w rs) in H. destruct (connect (mine s w rs) conns) as [c1|e] eqn:E; [|discriminate].
        exists (mine s w rs), db1, c1. split; [exact E|]. split; [exact H|]. split; [intros x Hx; apply mine_In in Hx; tauto|].
        split; [auto|]. intros x Hx. apply mine_In in Hx. exists (snd x). tauto. }
    destruct Step as (bits & db1 & conns1 & E1 & E2 & Hb & Hm & Hcv).
    destruct (IH _ _ _ E2) as (I1 & I2 & I3 & I4).
    pose proof (connect_ok_In _ _ _ E1) as C1. pose proof (connect_ok_disj _ _ _ E1) as C2.
    split; [|split; [|split]].
    + intros x Hx. apply I1, C1. now right.
    + intros x Hx. apply I2 in Hx as [Hx|[H1 [H2 (k0 & rs0 & b0 & H3 & H4)]]];
        [|right; split; [assumption|]; split; [assumption|]; exists k0, rs0, b0; split; [now right|assumption]].
      apply C1 in Hx as [Hx|Hx]; [right|now left]. destruct (Hb x Hx) as [H1 H2]. destruct (Hcv x Hx) as [b0 H3].
      split; [assumption|]. split; [assumption|]. exists key, rs, b0. split; [now left|assumption].
    + intros k r0 [E|Hin] x Hx.
      * inversion E; subst. split; [apply I1, C1; left; now apply Hm|apply C2; now apply Hm].
      * destruct (I3 k r0 Hin x Hx) as [A B]. split; [assumption|]. intro Hc. apply B, C1. now right.
    + intros k1 rs1 k2 rs2 [E1'|H1] [E2'|H2] Hne x Hx1 Hx2.
      * congruence.
      * inversion E1'; subst. destruct (I3 k2 rs2 H2 x Hx2) as [_ B]. apply B, C1. left. now apply Hm.
      * inversion E2'; subst. destruct (I3 k1 rs1 H1 x Hx1) as [_ B]. apply B, C1. left. now apply Hm.
      * exact (I4 k1 rs1 k2 rs2 H1 H2 Hne x Hx1 Hx2).
Qed.

(* failure: a bit of s claimed twice *)
Lemma esd_sound base n : forall ds prev db conns e,
  (forall b k, In (b, k) db -> exists rs, In (k, rs) prev /\ cov b rs) ->
  (forall b, In (s, b) conns -> In (s, b) base \/ exists k rs, In (k, rs) prev /\ cov b rs) ->
  NoDup (map fst (prev ++ ds)) ->
  (forall k rs r, In (k, rs) ds -> In r rs -> a_start r + a_len r <= w) ->
  n = length (prev ++ ds) ->
  emit_sig_drivers s w n ds db conns = inr e ->
  exists b, b < w /\
    ((exists k1 rs1 k2 rs2, k1 <> k2 /\ In (k1, rs1) (prev ++ ds) /\ In (k2, rs2) (prev ++ ds) /\ cov b rs1 /\ cov b rs2)
     \/ (exists k rs, In (k, rs) (prev ++ ds) /\ cov b rs /\ In (s, b) base)).
Proof.
  induction ds as [|[key rs] rest IH]; intros prev db conns e Hdb Hconns ND Hbound Hn H; simpl in H; [discriminate|].
  assert (Hcovw : forall b, cov b rs -> b < w).
  { intros b [r [Hr Hc]]. specialize (Hbound key rs r (or_introl eq_refl) Hr). unfold covers in Hc.
    apply andb_true_iff in Hc as [_ Hc]. apply Nat.ltb_lt in Hc. lia. }
  assert (Hkey : forall k rs0, In (k, rs0) prev -> k <> key).
  { intros k rs0 Hin E. subst k. rewrite map_app in ND. apply NoDup_remove_2 in ND.
    apply ND. apply in_or_app. left. apply in_map_iff. exists (key, rs0). auto. }
  destruct (Nat.eqb n 1 && existsb (fun r => 0 <? a_len r) rs
            && forallb (fun b => negb (bmem (s, b) conns)) (seq 0 w)) eqn:G.
  - (* shortcut: sole driver, nothing after it, and the connect cannot fail *)
    apply andb_true_iff in G as [G1 G2]. apply andb_true_iff in G1 as [G1 _]. apply Nat.eqb_eq in G1. rewrite G1 in Hn. rewrite app_length in Hn. simpl in Hn.
    assert (rest = []) as -> by (destruct rest; [reflexivity|simpl in Hn; lia]).
    fold (allbits s w) in H. destruct (connect (allbits s w) conns) as [c1|e1] eqn:E; [simpl in H; discriminate|].
    exfalso. apply connect_err in E as [s' [b [_ [Hin [Hc|Hd]]]]].
    + apply allbits_In in Hin as [Hs Hb]. simpl in *. subst s'. rewrite forallb_forall in G2.
      specialize (G2 b ltac:(apply in_seq; lia)). apply negb_true_iff in G2.
      assert (bmem (s, b) conns = true) by now apply bmem_In. congruence.
    + apply Hd, allbits_NoDup.
  - destruct (mark_assigns s key rs db) as [db1|e1] eqn:M.
    + fold (mine s w rs) in H. destruct (connect (mine s w rs) conns) as [c1|e2] eqn:E.
      * (* go on with this driver among the previous ones *)
        destruct (IH (prev ++ [(key, rs)]) db1 c1 e) as [b [Hb Hw]]; auto.
        -- intros b k Hin. destruct (mark_assigns_db _ _ _ _ _ M b k Hin) as [H1|[-> H1]].
           ++ destruct (Hdb b k H1) as [rs0 [A B]]. exists rs0. split; [apply in_or_app; now left|assumption].
           ++ exists rs. split; [apply in_or_app; right; now left|assumption].
        -- intros b Hin. apply (connect_ok_In _ _ _ E) in Hin as [Hin|Hin].
           ++ apply mine_In in Hin as [_ [_ Hc]]. right. exists key, rs. split; [apply in_or_app; right; now left|assumption].
           ++ destruct (Hconns b Hin) as [H1|[k [rs0 [A B]]]]; [now left|right]. exists k, rs0. split; [apply in_or_app; now left|assumption].
        -- now rewrite <- app_assoc.
        -- intros k rs0 r H1 H2. eapply Hbound; [right; exact H1|exact H2].
        -- now rewrite <- app_assoc.
        -- exists b. split; [assumption|]. rewrite <- app_assoc in Hw. exact Hw.
      * (* connect(): a bit of this driver is already connected *)
        apply connect_err in E as [s' [b [_ [Hin [Hc|Hd]]]]]; [|exfalso; apply Hd, mine_NoDup].
        apply mine_In in Hin as [Hs [Hb Hcv]]. simpl in *. subst s'. exists b. split; [assumption|].
        destruct (Hconns b Hc) as [H1|[k [rs0 [A B]]]].
        -- right. exists key, rs. split; [apply in_or_app; right; now left|auto].
        -- left. exists k, rs0, key, rs. repeat split; auto; [eapply Hkey; eassumption|apply in_or_app; now left|apply in_or_app; right; now left].
    + (* driven_bits: domain / module clash *)
      destruct (mark_assigns_err _ _ _ _ _ M) as [b [k' [Hcv [Hin Hne]]]].
      destruct (Hdb b k' Hin) as [rs0 [A B]]. exists b. split; [now apply Hcovw|]. left.
      exists k', rs0, key, rs. repeat split; auto; [apply in_or_app; now left|apply in_or_app; right; now left].
Qed.
End OneSignal.

(* ---- all signals ---- *)
Definition esig (e : sigdrv) : nat := fst (fst e).
Definition tab_ok (tab : list sigdrv) : Prop :=
  NoDup (map esig tab) /\
  forall s w ds, In ((s, w), ds) tab ->
    NoDup (map fst ds) /\ (forall k rs r, In (k, rs) ds -> In r rs -> a_start r + a_len r <= w).

Lemma tab_same_entry tab s w1 ds1 w2 ds2 : NoDup (map esig tab) ->
  In ((s, w1), ds1) tab -> In ((s, w2), ds2) tab -> w1 = w2 /\ ds1 = ds2.
Proof.
  induction tab as [|e tab IH]; intros N H1 H2; [destruct H1|]. simpl in N. inversion N as [|? ? Hn N']; subst.
  destruct H1 as [->|H1], H2 as [E2|H2].
  - inversion E2; auto.
  - exfalso. apply Hn. apply in_map_iff. exists ((s, w2), ds2). auto.
  - subst e. exfalso. apply Hn. apply in_map_iff. exists ((s, w1), ds1). auto.
  - now apply IH.
Qed.

Lemma ed_ok : forall tab conns conns', NoDup (map esig tab) -> emit_drivers tab conns = inl conns' ->
  (forall x, In x conns -> In x conns') /\
  (forall x, In x conns' -> In x conns \/ exists w ds k rs b, In ((fst x, w), ds) tab /\ snd x < w /\ In (k, rs) ds /\ cov b rs) /\
  (forall s w ds key rs, In ((s, w), ds) tab -> In (key, rs) ds ->
     forall x, In x (mine s w rs) -> In x conns' /\ ~ In x conns) /\
  (forall s w ds k1 rs1 k2 rs2, In ((s, w), ds) tab -> In (k1, rs1) ds -> In (k2, rs2) ds -> k1 <> k2 ->
     forall x, In x (mine s w rs1) -> ~ In x (mine s w rs2)).
Proof.
  induction tab as [|[[s w] ds] tab IH]; intros conns conns' N H; simpl in H.
  - inversion H; subst. split; [auto|]. split; [auto|]. split; intros; contradiction.
  - simpl in N. inversion N as [|? ? Hn N']; subst.
    destruct (emit_sig_drivers s w (length ds) ds [] conns) as [c1|e] eqn:E; [|discriminate].
    destruct (esd_ok s w _ _ _ _ _ E) as (A1 & A2 & A3 & A4). destruct (IH _ _ N' H) as (B1 & B2 & B3 & B4).
    split; [|split; [|split]].
    + auto.
    + intros x Hx. apply B2 in Hx as [Hx|(w0 & ds0 & k0 & rs0 & b0 & H1 & H2)].
      * apply A2 in Hx as [Hx|[H1 [H2 (k0 & rs0 & b0 & H3 & H4)]]]; [now left|right]. exists w, ds, k0, rs0, b0.
        destruct x; simpl in *; subst. auto.
      * right. exists w0, ds0, k0, rs0, b0. split; [now right|assumption].
    + intros s0 w0 ds0 key rs [E0|Hin] Hk x Hx.
      * inversion E0; subst. destruct (A3 key rs Hk x Hx). auto.
      * destruct (B3 s0 w0 ds0 key rs Hin Hk x Hx) as [H1 H2]. split; [assumption|]. intro Hc. apply H2. auto.
    + intros s0 w0 ds0 k1 rs1 k2 rs2 [E0|Hin] H1 H2 Hk.
      * inversion E0; subst. exact (A4 k1 rs1 k2 rs2 H1 H2 Hk).
      * exact (B4 s0 w0 ds0 k1 rs1 k2 rs2 Hin H1 H2 Hk).
Qed.

Lemma ed_sound : forall tab conns e, tab_ok tab -> emit_drivers tab conns = inr e ->
  exists s w ds b, In ((s, w), ds) tab /\ b < w /\
    ((exists k1 rs1 k2 rs2, k1 <> k2 /\ In (k1, rs1) ds /\ In (k2, rs2) ds /\ cov b rs1 /\ cov b rs2)
     \/ (exists k rs, In (k, rs) ds /\ cov b rs /\ In (s, b) conns)).
Proof.
  induction tab as [|[[s w] ds] tab IH]; intros conns e [N T] H; simpl in H; [discriminate|].
  simpl in N. inversion N as [|? ? Hn N']; subst.
  destruct (emit_sig_drivers s w (length ds) ds [] conns) as [c1|e1] eqn:E.
  - destruct (IH c1 e) as (s' & w' & ds' & b & Hin & Hb & Hw); [split; [assumption|intros s0 w0 ds0 Hi; apply (T s0 w0 ds0); now right]|assumption|].
    exists s', w', ds', b. split; [now right|]. split; [assumption|].
    destruct Hw as [Hw|[k [rs [H1 [H2 H3]]]]]; [now left|right]. exists k, rs. repeat split; auto.
    destruct (esd_ok s w _ _ _ _ _ E) as (_ & A2 & _). apply A2 in H3 as [H3|[H3 _]]; [assumption|].
    simpl in H3. subst s'. exfalso. apply Hn. apply in_map_iff. exists ((s, w'), ds'). auto.
  - destruct (T s w ds (or_introl eq_refl)) as [Nk Hbd].
    destruct (esd_sound s w conns (length ds) ds [] [] conns e1
                (fun b k (F : In (b, k) []) => match F with end)
                (fun b Hin => or_introl Hin) Nk
                (fun k rs r H1 H2 => Hbd k rs r H1 H2) eq_refl E) as (b & Hb & Hw).
    exists s, w, ds, b. split; [now left|]. split; [assumption|]. exact Hw.
Qed.

(* ---- ports ---- *)
Definition psig (p : nat * nat * pdir) : nat := fst (fst p).
Lemma etp_ok : forall P conns conns', emit_top_ports P conns = inl conns' ->
  (forall x, In x conns -> In x conns') /\
  (forall s w, In (s, w, PIn) P -> forall b, b < w -> ~ In (s, b) conns).
Proof.
  induction P as [|[[s w] dir] P IH]; intros conns conns' H; simpl in H.
  - inversion H; subst. split; [auto|intros ? ? []].
  - set (isin := match dir with PIn => true | POut => false
                 | PNone => negb (existsb (fun x => bmem x conns) (map (fun b => (s, b)) (seq 0 w))) end) in H.
    destruct isin eqn:I.
    + fold (allbits s w) in H. destruct (connect (allbits s w) conns) as [c1|e] eqn:E; [|discriminate].
      destruct (IH _ _ H) as [B1 B2]. pose proof (connect_ok_In _ _ _ E) as C1. split.
      * intros x Hx. apply B1, C1. now right.
      * intros s0 w0 [E0|Hin] b Hb.
        -- inversion E0; subst. apply (connect_ok_disj _ _ _ E). apply allbits_In. auto.
        -- intro Hc. apply (B2 s0 w0 Hin b Hb). apply C1. now right.
    + destruct (IH _ _ H) as [B1 B2]. split; [assumption|]. intros s0 w0 [E0|Hin] b Hb.
      * inversion E0; subst. discriminate.
      * now apply (B2 s0 w0).
Qed.

Lemma etp_sound : forall P conns e, NoDup (map psig P) -> emit_top_ports P conns = inr e ->
  exists s w b, In (s, w, PIn) P /\ b < w /\ In (s, b) conns.
Proof.
  induction P as [|[[s w] dir] P IH]; intros conns e N H; simpl in H; [discriminate|].
  simpl in N. inversion N as [|? ? Hn N']; subst.
  set (isin := match dir with PIn => true | POut => false
               | PNone => negb (existsb (fun x => bmem x conns) (map (fun b => (s, b)) (seq 0 w))) end) in H.
  destruct isin eqn:I.
  - fold (allbits s w) in H. destruct (connect (allbits s w) conns) as [c1|e1] eqn:E.
    + destruct (IH _ _ N' H) as (s' & w' & b & Hin & Hb & Hc). exists s', w', b. split; [now right|]. split; [assumption|].
      apply (connect_ok_In _ _ _ E) in Hc as [Hc|Hc]; [|assumption]. apply allbits_In in Hc as [Hs _]. simpl in Hs. subst s'.
      exfalso. apply Hn. apply in_map_iff. exists (s, w', PIn). auto.
    + apply connect_err in E as [s' [b [_ [Hin [Hc|Hd]]]]]; [|exfalso; apply Hd, allbits_NoDup].
      apply allbits_In in Hin as [Hs Hb]. simpl in *. subst s'.
      destruct dir; subst isin; try discriminate.
      * exfalso. apply negb_true_iff in I. assert (existsb (fun x => bmem x conns) (allbits s w) = true); [|unfold allbits in *; congruence].
        apply existsb_exists. exists (s, b). split; [apply allbits_In; auto|now apply bmem_In].
      * exists s, w, b. split; [now left|auto].
  - destruct (IH _ _ N' H) as (s' & w' & b & Hin & Hb & Hc). exists s', w', b. split; [now right|auto].
Qed.

(* ---- phases 2 + 3 on a driver table ---- *)
Definition phase23 (tab : list sigdrv) (P : list (nat * nat * pdir)) (conns : list bit) : option derr :=
  match emit_drivers tab conns with
  | inr e => Some e
  | inl conns' => match emit_top_ports P conns' with inr e => Some e | inl _ => None end
  end.

Definition conflictT (tab : list sigdrv) (P : list (nat * nat * pdir)) (conns : list bit) : Prop :=
  (exists s w ds b k1 rs1 k2 rs2, In ((s, w), ds) tab /\ b < w /\ k1 <> k2 /\ In (k1, rs1) ds /\ In (k2, rs2) ds
                                  /\ cov b rs1 /\ cov b rs2)
  \/ (exists s w ds b k rs, In ((s, w), ds) tab /\ b < w /\ In (k, rs) ds /\ cov b rs /\ In (s, b) conns)
  \/ (exists s w b, In (s, w, PIn) P /\ b < w /\ In (s, b) conns)
  \/ (exists s wp w ds b k rs, In (s, wp, PIn) P /\ In ((s, w), ds) tab /\ In (k, rs) ds /\ b < w /\ b < wp /\ cov b rs).

Theorem phase23_iff tab P conns : tab_ok tab -> NoDup (map psig P) ->
  (forall s wp dir w ds, In (s, wp, dir) P -> In ((s, w), ds) tab -> wp = w) ->
  (phase23 tab P conns <> None <-> conflictT tab P conns).
Proof.
  intros [N T] NP Hw. unfold phase23. split.
  - destruct (emit_drivers tab conns) as [c1|e] eqn:E.
    + destruct (emit_top_ports P c1) as [c2|e] eqn:E2; [congruence|]. intros _.
      destruct (etp_sound _ _ _ NP E2) as (s & wp & b & Hin & Hb & Hc).
      destruct (ed_ok _ _ _ N E) as (_ & A2 & _ & _). apply A2 in Hc as [Hc|(w & ds & k & rs & b' & H1 & H2 & H3 & Hcv)].
      * right. right. left. exists s, wp, b. auto.
      * simpl in *.
        assert (wp = w) by (eapply Hw; eassumption). subst wp.
        assert (b' < w).
        { destruct Hcv as [r [Hr Hc']]. destruct (T s w _ H1) as [_ Hbd]. specialize (Hbd k rs r H3 Hr).
          unfold covers in Hc'. apply andb_true_iff in Hc' as [_ Hc']. apply Nat.ltb_lt in Hc'. lia. }
        right. right. right. exists s, w, w, ds, b', k, rs. repeat split; auto.
    + intros _. destruct (ed_sound _ _ _ (conj N T) E) as (s & w & ds & b & Hin & Hb & [Hc|Hc]).
      * left. destruct Hc as (k1 & rs1 & k2 & rs2 & H). exists s, w, ds, b, k1, rs1, k2, rs2. tauto.
      * right. left. destruct Hc as (k & rs & H). exists s, w, ds, b, k, rs. tauto.
  - intros C Hnone. destruct (emit_drivers tab conns) as [c1|e] eqn:E; [|congruence].
    destruct (emit_top_ports P c1) as [c2|e] eqn:E2; [|congruence].
    destruct (ed_ok _ _ _ N E) as (A1 & A2 & A3 & A4). destruct (etp_ok _ _ _ E2) as (B1 & B2).
    destruct C as [C|[C|[C|C]]].
    + destruct C as (s & w & ds & b & k1 & rs1 & k2 & rs2 & Hin & Hb & Hk & H1 & H2 & C1 & C2).
      assert (M1 : In (s, b) (mine s w rs1)) by (apply mine_In; auto).
      assert (M2 : In (s, b) (mine s w rs2)) by (apply mine_In; auto).
      exact (A4 s w ds k1 rs1 k2 rs2 Hin H1 H2 Hk (s, b) M1 M2).
    + destruct C as (s & w & ds & b & k & rs & Hin & Hb & Hk & Hc & Hcon).
      destruct (A3 s w ds k rs Hin Hk (s, b)) as [_ X]; [apply mine_In; auto|]. contradiction.
    + destruct C as (s & w & b & Hin & Hb & Hcon). apply (B2 s w Hin b Hb). auto.
    + destruct C as (s & wp & w & ds & b & k & rs & Hp & Hin & Hk & Hb & Hbp & Hc).
      destruct (A3 s w ds k rs Hin Hk (s, b)) as [X _]; [apply mine_In; auto|]. exact (B2 s wp Hp b Hbp X).
Qed.

(* ---- phase 1: the event list ---- *)
Definition outs (E : list ev) : list bit := flat_map (fun e => match e with EvOut bits => bits | _ => [] end) E.
Fixpoint tab_of (E : list ev) (tab : list sigdrv) : list sigdrv :=
  match E with
  | [] => tab
  | EvOut _ :: r => tab_of r tab
  | EvAssign m dm rec :: r => tab_of r (sig_add (a_sig rec) (a_w rec) (m, dm) rec tab)
  end.

Lemma connect_app a : forall b conns,
  connect (a ++ b) conns = match connect a conns with inl c => connect b c | inr e => inr e end.
Proof. induction a as [|x a IH]; intros b conns; simpl; [reflexivity|]. destruct (bmem x conns); [reflexivity|apply IH]. Qed.

Lemma run_events_spec : forall E conns tab,
  run_events E conns tab = match connect (outs E) conns with inl c => inl (c, tab_of E tab) | inr e => inr e end.
Proof.
  induction E as [|[m dm r|bits] E IH]; intros conns tab; simpl; [reflexivity|apply IH|].
  rewrite connect_app. destruct (connect bits conns); [apply IH|reflexivity].
Qed.

(* membership of an assignment record in a driver table *)
Definition intab (tab : list sigdrv) (s : nat) (k : nat * nat) (r : arec) : Prop :=
  exists w ds rs, In ((s, w), ds) tab /\ In (k, rs) ds /\ In r rs.
Definition keyeqb (a b : nat * nat) : bool := Nat.eqb (fst a) (fst b) && Nat.eqb (snd a) (snd b).
Lemma keyeqb_eq a b : keyeqb a b = true <-> a = b.
Proof. destruct a, b. unfold keyeqb. simpl. rewrite andb_true_iff, !Nat.eqb_eq. split; [intros [-> ->]; reflexivity|intro H; inversion H; auto]. Qed.

(* rec_ok: what emit_assign records look like for width table W *)
Definition rec_ok (W : nat -> nat) (r : arec) : Prop := a_w r = W (a_sig r) /\ a_start r + a_len r <= a_w r.
Definition ds_inv (W : nat -> nat) (s : nat) (ds : list drv) : Prop :=
  NoDup (map fst ds) /\ ds <> [] /\
  forall k rs, In (k, rs) ds -> rs <> [] /\ forall r, In r rs -> a_sig r = s /\ rec_ok W r.
Definition tab_inv (W : nat -> nat) (tab : list sigdrv) : Prop :=
  NoDup (map esig tab) /\ forall s w ds, In ((s, w), ds) tab -> w = W s /\ ds_inv W s ds.

Lemma drv_add_spec k r : forall ds k' r',
  (exists rs, In (k', rs) (drv_add k r ds) /\ In r' rs) <-> (exists rs, In (k', rs) ds /\ In r' rs) \/ (k' = k /\ r' = r).
Proof.
  induction ds as [|[k0 rs0] ds IH]; intros k' r'; simpl.
  - split; [intros [rs [[E|[]] H]]; inversion E; subst; destruct H as [->|[]]; auto|].
    intros [[rs [[] _]]|[-> ->]]. exists [r]. split; [now left|now left].
  - fold (keyeqb k0 k). destruct (keyeqb k0 k) eqn:E.
    + apply keyeqb_eq in E. subst k0. split.
      * intros [rs [[E|Hin] H]].
        -- inversion E; subst. apply in_app_or in H as [H|[->|[]]]; [left; exists rs0; split; [now left|assumption]|now right].
        -- left. exists rs. split; [now right|assumption].
      * intros [[rs [[E|Hin] H]]|[-> ->]].
        -- inversion E; subst. exists (rs ++ [r]). split; [now left|apply in_or_app; now left].
        -- exists rs. split; [now right|assumption].
        -- exists (rs0 ++ [r]). split; [now left|apply in_or_app; right; now left].
    + split.
      * intros [rs [[E0|Hin] H]].
        -- inversion E0; subst. left. exists rs. split; [now left|assumption].
        -- destruct (proj1 (IH k' r') (ex_intro _ rs (conj Hin H))) as [[rs1 [H1 H2]]|H1]; [left; exists rs1; split; [now right|assumption]|now right].
      * intros [[rs [[E0|Hin] H]]|H0].
        -- inversion E0; subst. exists rs. split; [now left|assumption].
        -- destruct (proj2 (IH k' r') (or_introl (ex_intro _ rs (conj Hin H)))) as [rs1 [H1 H2]]. exists rs1. split; [now right|assumption].
        -- destruct (proj2 (IH k' r') (or_intror H0)) as [rs1 [H1 H2]]. exists rs1. split; [now right|assumption].
Qed.

Lemma drv_add_keys k r : forall ds x, In x (map fst (drv_add k r ds)) <-> In x (map fst ds) \/ x = k.
Proof.
  induction ds as [|[k0 rs0] ds IH]; intros x; simpl; [intuition|].
  fold (keyeqb k0 k). destruct (keyeqb k0 k) eqn:E; simpl.
  - apply keyeqb_eq in E. subst. intuition.
  - rewrite IH. intuition.
Qed.

Lemma drv_add_inv W k r ds : rec_ok W r -> (ds = [] \/ ds_inv W (a_sig r) ds) -> ds_inv W (a_sig r) (drv_add k r ds).
Proof.
  intros Hr. induction ds as [|[k0 rs0] ds IH]; intros Hd.
  - simpl. split; [repeat constructor; intros []|]. split; [discriminate|].
    intros k' rs [E|[]]. inversion E; subst. split; [discriminate|]. intros r' [<-|[]]. auto.
  - destruct Hd as [Hd|(N & _ & H)]; [discriminate|]. simpl. fold (keyeqb k0 k). destruct (keyeqb k0 k) eqn:E.
    + split; [exact N|]. split; [discriminate|]. intros k' rs [E0|Hin].
      * inversion E0; subst. split; [destruct rs0; discriminate|]. intros r' Hr'. apply in_app_or in Hr' as [Hr'|[<-|[]]]; [|auto].
        exact (proj2 (H k' rs0 (or_introl eq_refl)) r' Hr').
      * apply (H k' rs). now right.
    + simpl in N. inversion N as [|? ? Hn N']; subst.
      assert (IH' : ds_inv W (a_sig r) (drv_add k r ds)).
      { apply IH. destruct ds; [now left|right]. split; [assumption|]. split; [discriminate|]. intros k1 rs1 Hi; apply (H k1 rs1); now right. }
      destruct IH' as (N1 & _ & H1). split; [|split; [discriminate|]].
      * simpl. constructor; [|assumption]. intro Hin. apply drv_add_keys in Hin as [Hin|Hin]; [contradiction|].
        subst k0. assert (keyeqb k k = true) by now apply keyeqb_eq. congruence.
      * intros k' rs [E0|Hin]; [inversion E0; subst; eapply H; now left|eapply H1; eassumption].
Qed.

Lemma sig_add_spec s w k r : forall tab s' k' r',
  intab (sig_add s w k r tab) s' k' r' <-> intab tab s' k' r' \/ (s' = s /\ k' = k /\ r' = r).
Proof.
  unfold intab. induction tab as [|[[s0 w0] ds0] tab IH]; intros s' k' r'; simpl.
  - split.
    + intros (w1 & ds & rs & [E|[]] & H1 & H2). inversion E; subst. destruct H1 as [E1|[]]. inversion E1; subst.
      destruct H2 as [->|[]]. auto.
    + intros [(w1 & ds & rs & [] & _)|(-> & -> & ->)]. exists w, [(k, [r])], [r]. repeat split; now left.
  - destruct (Nat.eqb s0 s) eqn:E.
    + apply Nat.eqb_eq in E. subst s0. split.
      * intros (w1 & ds & rs & [E0|Hin] & H1 & H2).
        -- inversion E0; subst. destruct (proj1 (drv_add_spec k r ds0 k' r') (ex_intro _ rs (conj H1 H2))) as [[rs1 [A B]]|[-> ->]].
           ++ left. exists w1, ds0, rs1. repeat split; simpl; auto.
           ++ now right.
        -- left. exists w1, ds, rs. repeat split; simpl; auto.
      * intros [(w1 & ds & rs & [E0|Hin] & H1 & H2)|(-> & -> & ->)].
        -- inversion E0; subst. destruct (proj2 (drv_add_spec k r ds k' r') (or_introl (ex_intro _ rs (conj H1 H2)))) as [rs1 [A B]].
           exists w1, (drv_add k r ds), rs1. repeat split; simpl; auto.
        -- exists w1, ds, rs. repeat split; simpl; auto.
        -- destruct (proj2 (drv_add_spec k r ds0 k r) (or_intror (conj eq_refl eq_refl))) as [rs1 [A B]].
           exists w0, (drv_add k r ds0), rs1. repeat split; simpl; auto.
    + split.
      * intros (w1 & ds & rs & [E0|Hin] & H1 & H2).
        -- inversion E0; subst. left. exists w1, ds, rs. repeat split; simpl; auto.
        -- destruct (proj1 (IH s' k' r') (ex_intro _ w1 (ex_intro _ ds (ex_intro _ rs (conj Hin (conj H1 H2)))))) as [(w2 & ds2 & rs2 & A & B & C)|H0].
           ++ left. exists w2, ds2, rs2. repeat split; simpl; auto.
           ++ now right.
      * intros [(w1 & ds & rs & [E0|Hin] & H1 & H2)|H0].
        -- inversion E0; subst. exists w1, ds, rs. repeat split; simpl; auto.
        -- destruct (proj2 (IH s' k' r') (or_introl (ex_intro _ w1 (ex_intro _ ds (ex_intro _ rs (conj Hin (conj H1 H2))))))) as (w2 & ds2 & rs2 & A & B & C).
           exists w2, ds2, rs2. repeat split; simpl; auto.
        -- destruct (proj2 (IH s' k' r') (or_intror H0)) as (w2 & ds2 & rs2 & A & B & C).
           exists w2, ds2, rs2. repeat split; simpl; auto.
Qed.

Lemma sig_add_sigs s w k r : forall tab x, In x (map esig (sig_add s w k r tab)) <-> In x (map esig tab) \/ x = s.
Proof.
  induction tab as [|[[s0 w0] ds0] tab IH]; intros x; simpl; [unfold esig; simpl; intuition|].
  destruct (Nat.eqb s0 s) eqn:E; simpl.
  - apply Nat.eqb_eq in E. subst. unfold esig; simpl. intuition.
  - rewrite IH. unfold esig; simpl. intuition.
Qed.

Lemma sig_add_inv W k r : rec_ok W r -> forall tab, tab_inv W tab -> tab_inv W (sig_add (a_sig r) (a_w r) k r tab).
Proof.
  intros Hr. induction tab as [|[[s0 w0] ds0] tab IH]; intros [N T].
  - simpl. split; [repeat constructor; intros []|]. intros s w ds [E|[]]. inversion E; subst. split; [apply Hr|].
    apply (drv_add_inv W k r []); auto.
  - simpl. simpl in N. inversion N as [|? ? Hn N']; subst. destruct (Nat.eqb s0 (a_sig r)) eqn:E.
    + apply Nat.eqb_eq in E. subst s0. split; [exact N|]. intros s w ds [E0|Hin]; [|apply T; now right].
      inversion E0; subst. destruct (T _ _ _ (or_introl eq_refl)) as [Hw Hd]. split; [assumption|]. apply drv_add_inv; auto.
    + destruct (IH (conj N' (fun s w ds H => T s w ds (or_intror H)))) as [N1 T1]. split.
      * simpl. constructor; [|assumption]. intro Hin. apply sig_add_sigs in Hin as [Hin|Hin]; [contradiction|].
        unfold esig in Hin. simpl in Hin. subst s0. now rewrite Nat.eqb_refl in E.
      * intros s w ds [E0|Hin]; [inversion E0; subst; apply T; now left|now apply T1].
Qed.

Lemma tab_of_inv W : forall E tab, (forall m dm r, In (EvAssign m dm r) E -> rec_ok W r) -> tab_inv W tab -> tab_inv W (tab_of E tab).
Proof.
  induction E as [|[m dm r|bits] E IH]; intros tab H T; simpl; [assumption| |].
  - apply IH; [intros; eapply H; right; eassumption|]. apply sig_add_inv; [eapply H; now left|assumption].
  - apply IH; [intros; eapply H; right; eassumption|assumption].
Qed.

Lemma tab_of_spec : forall E tab s k r,
  intab (tab_of E tab) s k r <-> intab tab s k r \/ (In (EvAssign (fst k) (snd k) r) E /\ a_sig r = s).
Proof.
  induction E as [|[m dm r0|bits] E IH]; intros tab s k r; simpl.
  - tauto.
  - rewrite IH, sig_add_spec. split.
    + intros [[H|(-> & -> & ->)]|[H1 H2]]; [now left|right; split; [now left|reflexivity]|right; split; [now right|assumption]].
    + intros [H|[[H|H] H2]]; [left; now left| |right; auto].
      inversion H; subst. left. right. destruct k; simpl. auto.
  - rewrite IH. split; [intros [H|[H1 H2]]; [now left|right; split; [now right|assumption]]|].
    intros [H|[[H|H] H2]]; [now left|discriminate|right; auto].
Qed.

Definition run (E : list ev) (P : list (nat * nat * pdir)) : option derr :=
  match run_events E [] [] with inr e => Some e | inl (c, tab) => phase23 tab P c end.

Definition asg (E : list ev) (k : nat * nat) (s b : nat) : Prop :=
  exists r, In (EvAssign (fst k) (snd k) r) E /\ a_sig r = s /\ covers b r = true.

Definition conflictE (E : list ev) (P : list (nat * nat * pdir)) : Prop :=
  ~ NoDup (outs E)
  \/ (exists s b k1 k2, k1 <> k2 /\ asg E k1 s b /\ asg E k2 s b)
  \/ (exists s b k, asg E k s b /\ In (s, b) (outs E))
  \/ (exists s w b, In (s, w, PIn) P /\ b < w /\ In (s, b) (outs E))
  \/ (exists s w b k, In (s, w, PIn) P /\ b < w /\ asg E k s b).

Lemma ds_same_key (ds : list drv) k rs1 rs2 : NoDup (map fst ds) -> In (k, rs1) ds -> In (k, rs2) ds -> rs1 = rs2.
Proof.
  induction ds as [|[k0 rs0] ds IH]; intros N H1 H2; [destruct H1|]. simpl in N. inversion N as [|? ? Hn N']; subst.
  destruct H1 as [E1|H1], H2 as [E2|H2].
  - congruence.
  - inversion E1; subst. exfalso. apply Hn. apply in_map_iff. exists (k, rs2). auto.
  - inversion E2; subst. exfalso. apply Hn. apply in_map_iff. exists (k, rs1). auto.
  - now apply IH.
Qed.

Section Events.
Variable W : nat -> nat.
Variable E : list ev.
Variable P : list (nat * nat * pdir).
Hypothesis Hrec : forall m dm r, In (EvAssign m dm r) E -> rec_ok W r.
Hypothesis HP : NoDup (map psig P).
Hypothesis HPw : forall s w dir, In (s, w, dir) P -> w = W s.

Let tab := tab_of E [].
Lemma tabI : tab_inv W tab.
Proof. apply tab_of_inv; [exact Hrec|]. split; [constructor|intros ? ? ? []]. Qed.

Lemma intab_E s k r : intab tab s k r <-> In (EvAssign (fst k) (snd k) r) E /\ a_sig r = s.
Proof. unfold tab. rewrite tab_of_spec. split; [intros [(w & ds & rs & [] & _)|H]; exact H|auto]. Qed.

Lemma cov_lt s w ds k rs b : In ((s, w), ds) tab -> In (k, rs) ds -> cov b rs -> b < w.
Proof.
  intros H1 H2 [r [Hr Hc]]. destruct tabI as [_ T]. destruct (T s w ds H1) as [Hw (_ & _ & Hd)].
  destruct (Hd k rs H2) as [_ Hr']. destruct (Hr' r Hr) as [Hs [Ha Hb]]. unfold covers in Hc.
  apply andb_true_iff in Hc as [_ Hc]. apply Nat.ltb_lt in Hc. rewrite Ha, Hs, <- Hw in Hb. lia.
Qed.

Lemma cov_asg s k b : (exists w ds rs, In ((s, w), ds) tab /\ In (k, rs) ds /\ cov b rs) <-> asg E k s b.
Proof.
  split.
  - intros (w & ds & rs & H1 & H2 & [r [Hr Hc]]). exists r.
    destruct (proj1 (intab_E s k r)) as [A B]; [exists w, ds, rs; auto|]. auto.
  - intros (r & H1 & H2 & H3). destruct (proj2 (intab_E s k r) (conj H1 H2)) as (w & ds & rs & A & B & C).
    exists w, ds, rs. repeat split; auto. exists r. auto.
Qed.

Lemma tab_ok_tab : tab_ok tab.
Proof.
  destruct tabI as [N T]. split; [exact N|]. intros s w ds H. destruct (T s w ds H) as [Hw (Nk & _ & Hd)]. split; [exact Nk|].
  intros k rs r H1 H2. destruct (Hd k rs H1) as [_ Hr]. destruct (Hr r H2) as [Hs [Ha Hb]]. rewrite Ha, Hs, <- Hw in Hb. exact Hb.
Qed.

Theorem events_iff : run E P <> None <-> conflictE E P.
Proof.
  unfold run. rewrite run_events_spec. fold tab.
  destruct (connect (outs E) []) as [c|e] eqn:Ec.
  - pose proof (proj1 (connect_spec _ _ _) Ec) as [Nd [_ Hc]].
    assert (Cin : forall x, In x c <-> In x (outs E)) by (intro x; rewrite Hc, app_nil_r, <- in_rev; tauto).
    rewrite (phase23_iff tab P c tab_ok_tab HP).
    2:{ intros s wp dir w ds H1 H2. rewrite (HPw _ _ _ H1). destruct tabI as [_ T]. destruct (T s w ds H2) as [Hw _]. auto. }
    unfold conflictT, conflictE. split.
    + intros [C|[C|[C|C]]].
      * destruct C as (s & w & ds & b & k1 & rs1 & k2 & rs2 & Hin & Hb & Hk & H1 & H2 & C1 & C2).
        right. left. exists s, b, k1, k2. split; [assumption|]. split; apply cov_asg; [exists w, ds, rs1|exists w, ds, rs2]; auto.
      * destruct C as (s & w & ds & b & k & rs & Hin & Hb & Hk & C1 & C2).
        right. right. left. exists s, b, k. split; [apply cov_asg; exists w, ds, rs; auto|now apply Cin].
      * destruct C as (s & w & b & Hin & Hb & C1). right. right. right. left. exists s, w, b. repeat split; auto. now apply Cin.
      * destruct C as (s & wp & w & ds & b & k & rs & Hp & Hin & Hk & Hb & Hbp & C1).
        right. right. right. right. exists s, wp, b, k. repeat split; auto. apply cov_asg. exists w, ds, rs. auto.
    + intros [C|[C|[C|[C|C]]]].
      * contradiction.
      * destruct C as (s & b & k1 & k2 & Hk & A1 & A2).
        apply cov_asg in A1 as (w1 & ds1 & rs1 & X1 & Y1 & Z1). apply cov_asg in A2 as (w2 & ds2 & rs2 & X2 & Y2 & Z2).
        destruct (tab_same_entry tab s w1 ds1 w2 ds2 (proj1 tabI) X1 X2) as [-> ->].
        left. exists s, w2, ds2, b, k1, rs1, k2, rs2. repeat split; auto. eapply cov_lt; eassumption.
      * destruct C as (s & b & k & A1 & Ho). apply cov_asg in A1 as (w1 & ds1 & rs1 & X1 & Y1 & Z1).
        right. left. exists s, w1, ds1, b, k, rs1. repeat split; auto; [eapply cov_lt; eassumption|now apply Cin].
      * destruct C as (s & w & b & Hp & Hb & Ho). right. right. left. exists s, w, b. repeat split; auto. now apply Cin.
      * destruct C as (s & wp & b & k & Hp & Hb & A1). apply cov_asg in A1 as (w1 & ds1 & rs1 & X1 & Y1 & Z1).
        right. right. right. exists s, wp, w1, ds1, b, k, rs1. repeat split; auto. eapply cov_lt; eassumption.
  - split; [intros _|intros _; discriminate].
    left. intro Nd. apply connect_err in Ec as (s & b & _ & _ & [[]|Hd]). contradiction.
Qed.
End Events.

(* ---- the walk of the fragment tree ---- *)
Section frag_induction.
  Variable Pf : frag -> Prop.
  Hypothesis HOut : forall outs, Pf (FOut outs).
  Hypothesis HMod : forall stmts subs, Forall Pf subs -> Pf (FMod stmts subs).
  Fixpoint frag_ind' (f : frag) : Pf f :=
    match f with
    | FOut o => HOut o
    | FMod stmts subs => HMod stmts subs ((fix go (l : list frag) : Forall Pf l :=
                           match l with [] => Forall_nil Pf | x :: r => Forall_cons x (frag_ind' x) (go r) end) subs)
    end.
End frag_induction.

Definition walk_subs := fix go (subs : list frag) (acc : list ev) (next : nat) : list ev * nat :=
  match subs with
  | [] => (acc, next)
  | s :: subs' => let '(e, next') := walk s next in go subs' (acc ++ e) next'
  end.
Definition mods_subs := fix go (subs : list frag) (acc : list (nat * list (nat * tgt))) (next : nat) :=
  match subs with
  | [] => (acc, next)
  | s :: subs' => let '(l, next') := mods s next in go subs' (acc ++ l) next'
  end.
Definition own_events (m : nat) (stmts : list (nat * tgt)) : list ev :=
  flat_map (fun g => flat_map (stmt_events m (fst g)) (snd g)) (group_by_domain stmts).
Lemma walk_FMod stmts subs next : walk (FMod stmts subs) next = walk_subs subs (own_events next stmts) (S next).
Proof. reflexivity. Qed.
Lemma mods_FMod stmts subs next : mods (FMod stmts subs) next = mods_subs subs [(next, stmts)] (S next).
Proof. reflexivity. Qed.

Lemma dom_insert_spec dm t : forall acc d t',
  (exists ts, In (d, ts) (dom_insert dm t acc) /\ In t' ts) <-> (exists ts, In (d, ts) acc /\ In t' ts) \/ (d = dm /\ t' = t).
Proof.
  induction acc as [|[d0 ts0] acc IH]; intros d t'; simpl.
  - split; [intros [ts [[E|[]] H]]; inversion E; subst; destruct H as [->|[]]; auto|].
    intros [[ts [[] _]]|[-> ->]]. exists [t]. split; now left.
  - destruct (Nat.eqb d0 dm) eqn:E.
    + apply Nat.eqb_eq in E. subst d0. split.
      * intros [ts [[E|Hin] H]].
        -- inversion E; subst. apply in_app_or in H as [H|[->|[]]]; [left; exists ts0; split; [now left|assumption]|now right].
        -- left. exists ts. split; [now right|assumption].
      * intros [[ts [[E|Hin] H]]|[-> ->]].
        -- inversion E; subst. exists (ts ++ [t]). split; [now left|apply in_or_app; now left].
        -- exists ts. split; [now right|assumption].
        -- exists (ts0 ++ [t]). split; [now left|apply in_or_app; right; now left].
    + split.
      * intros [ts [[E0|Hin] H]].
        -- inversion E0; subst. left. exists ts. split; [now left|assumption].
        -- destruct (proj1 (IH d t') (ex_intro _ ts (conj Hin H))) as [[ts1 [H1 H2]]|H1]; [left; exists ts1; split; [now right|assumption]|now right].
      * intros [[ts [[E0|Hin] H]]|H0].
        -- inversion E0; subst. exists ts. split; [now left|assumption].
        -- destruct (proj2 (IH d t') (or_introl (ex_intro _ ts (conj Hin H)))) as [ts1 [H1 H2]]. exists ts1. split; [now right|assumption].
        -- destruct (proj2 (IH d t') (or_intror H0)) as [ts1 [H1 H2]]. exists ts1. split; [now right|assumption].
Qed.

Lemma group_spec : forall stmts acc d t,
  (exists ts, In (d, ts) (fold_left (fun a st => dom_insert (fst st) (snd st) a) stmts acc) /\ In t ts)
  <-> (exists ts, In (d, ts) acc /\ In t ts) \/ In (d, t) stmts.
Proof.
  induction stmts as [|[d0 t0] stmts IH]; intros acc d t; simpl; [tauto|].
  rewrite IH, dom_insert_spec. split.
  - intros [[H|[-> ->]]|H]; auto.
  - intros [H|[H|H]]; auto. inversion H; subst. auto.
Qed.

Lemma own_events_In m stmts e : In e (own_events m stmts) <->
  exists dm t r, e = EvAssign m dm r /\ In (dm, t) stmts /\ In r (emit_assign t 0 (tlen t)).
Proof.
  unfold own_events, group_by_domain. rewrite in_flat_map. split.
  - intros [[d ts] [H1 H2]]. simpl in H2. apply in_flat_map in H2 as [t [H2 H3]]. unfold stmt_events in H3.
    apply in_map_iff in H3 as [r [<- H3]]. exists d, t, r. split; [reflexivity|]. split; [|assumption].
    destruct (proj1 (group_spec stmts [] d t) (ex_intro _ ts (conj H1 H2))) as [[ts' [[] _]]|H]. exact H.
  - intros (dm & t & r & -> & H1 & H2).
    destruct (proj2 (group_spec stmts [] dm t) (or_intror H1)) as [ts [A B]]. exists (dm, ts). split; [assumption|].
    simpl. apply in_flat_map. exists t. split; [assumption|]. unfold stmt_events. apply in_map. assumption.
Qed.

(* what the walk yields for a fragment, in terms of mods / out_bits *)
Definition walk_spec (f : frag) : Prop := forall k,
  snd (walk f k) = snd (mods f k) /\
  outs (fst (walk f k)) = out_bits f /\
  (forall m dm r, In (EvAssign m dm r) (fst (walk f k)) <->
     exists stmts t, In (m, stmts) (fst (mods f k)) /\ In (dm, t) stmts /\ In r (emit_assign t 0 (tlen t))).

Lemma outs_app a b : outs (a ++ b) = outs a ++ outs b.
Proof. unfold outs. apply flat_map_app. Qed.

Definition ev_mods (E' : list ev) (M' : list (nat * list (nat * tgt))) : Prop :=
  forall m dm r, In (EvAssign m dm r) E' <->
    exists stmts t, In (m, stmts) M' /\ In (dm, t) stmts /\ In r (emit_assign t 0 (tlen t)).

Lemma subs_spec : forall subs, Forall walk_spec subs -> forall k,
  exists E' M' k', (forall acc, walk_subs subs acc k = (acc ++ E', k')) /\
                   (forall macc, mods_subs subs macc k = (macc ++ M', k')) /\
                   outs E' = flat_map out_bits subs /\ ev_mods E' M'.
Proof.
  induction subs as [|s subs IH]; intros F k.
  - exists [], [], k. repeat split; intros; simpl; try now rewrite app_nil_r.
    + destruct H.
    + destruct H as (? & ? & [] & _).
  - inversion F as [|? ? Hs Hr]; subst. destruct (Hs k) as (A & B & C).
    destruct (walk s k) as [e k1] eqn:Ew. destruct (mods s k) as [l k1'] eqn:Em. simpl in A, B, C. subst k1'.
    destruct (IH Hr k1) as (E2 & M2 & k2 & W2 & Mo2 & O2 & R2).
    exists (e ++ E2), (l ++ M2), k2. split; [|split; [|split]].
    + intro acc. simpl. rewrite Ew, W2. now rewrite app_assoc.
    + intro macc. simpl. rewrite Em, Mo2. now rewrite app_assoc.
    + rewrite outs_app, B, O2. reflexivity.
    + intros m dm r. rewrite in_app_iff, (C m dm r), (R2 m dm r). split.
      * intros [(st & t & H1 & H2)|(st & t & H1 & H2)]; exists st, t; (split; [apply in_or_app; auto|exact H2]).
      * intros (st & t & H1 & H2). apply in_app_or in H1 as [H1|H1]; [left|right]; exists st, t; auto.
Qed.

Lemma outs_nil E : (forall e, In e E -> exists m dm r, e = EvAssign m dm r) -> outs E = [].
Proof.
  induction E as [|e E IH]; intro H; [reflexivity|]. unfold outs in *. simpl.
  destruct (H e (or_introl eq_refl)) as (m & dm & r & ->). simpl. apply IH. intros; apply H; now right.
Qed.
Lemma outs_own m stmts : outs (own_events m stmts) = [].
Proof. apply outs_nil. intros e He. apply own_events_In in He as (dm & t & r & -> & _). eauto. Qed.

Lemma walk_ok : forall f, walk_spec f.
Proof.
  induction f as [o|stmts subs IH] using frag_ind'; intro k.
  - simpl. split; [reflexivity|]. split.
    + unfold outs. rewrite flat_map_concat_map, map_map, <- flat_map_concat_map. reflexivity.
    + intros m dm r. split; [intro H; apply in_map_iff in H as [t [E _]]; discriminate|intros (? & ? & [] & _)].
  - rewrite walk_FMod, mods_FMod. destruct (subs_spec subs IH (S k)) as (E2 & M2 & k2 & W2 & Mo2 & O2 & R2).
    rewrite W2, Mo2. simpl. split; [reflexivity|]. split.
    + rewrite outs_app, outs_own, O2. reflexivity.
    + intros m dm r. rewrite in_app_iff, own_events_In, (R2 m dm r). split.
      * intros [(dm0 & t & r0 & E0 & H1 & H2)|(st & t & H1 & H2)].
        -- inversion E0; subst. exists stmts, t. split; [now left|auto].
        -- exists st, t. split; [now right|exact H2].
      * intros (st & t & [E0|H1] & H2).
        -- inversion E0; subst. left. exists dm, t, r. destruct H2. auto.
        -- right. exists st, t. auto.
Qed.

(* ---- the unbounded theorem ---- *)
Lemma driver_table_run d : driver_table d = run (fst (walk (d_top d) 0)) (d_ports d).
Proof.
  unfold driver_table, run, phase23. destruct (run_events _ [] []) as [[c tab]|e]; reflexivity.
Qed.

Lemma dup_nth : forall l : list bit, ~ NoDup l -> exists i j x, i <> j /\ nth_error l i = Some x /\ nth_error l j = Some x.
Proof.
  induction l as [|x l IH]; intro H; [exfalso; apply H; constructor|].
  destruct (bmem x l) eqn:E.
  - apply bmem_In, In_nth_error in E as [j Hj]. exists 0, (S j), x. auto.
  - destruct IH as (i & j & y & Hne & Hi & Hj).
    + intro N. apply H. constructor; [|assumption]. intro Hin. apply bmem_In in Hin. congruence.
    + exists (S i), (S j), y. auto.
Qed.
Lemma nth_dup {A} (l : list A) i j x : i <> j -> nth_error l i = Some x -> nth_error l j = Some x -> ~ NoDup l.
Proof.
  intros Hne Hi Hj N. apply Hne. apply (proj1 (NoDup_nth_error l) N); [apply nth_error_Some; congruence|congruence].
Qed.

(* what a design must satisfy: targets the API can build (zero-width ones included); one width per signal (table W), in
   targets and ports; every signal is a port at most once *)
Definition wf_design (W : nat -> nat) (d : design) : Prop :=
  (forall m stmts dm t, In (m, stmts) (fst (mods (d_top d) 0)) -> In (dm, t) stmts -> wf_tgt_top t = true) /\
  (forall m stmts dm t s w, In (m, stmts) (fst (mods (d_top d) 0)) -> In (dm, t) stmts -> In (s, w) (tgt_sigs t) -> w = W s) /\
  NoDup (map psig (d_ports d)) /\
  (forall s w dir, In (s, w, dir) (d_ports d) -> w = W s).

Theorem driver_check_iff W d : wf_design W d -> (driver_table d <> None <-> conflict d).
Proof.
  intros (Wt & Ws & Wp & Ww). rewrite driver_table_run.
  destruct (walk_ok (d_top d) 0) as (_ & Ho & Hm).
  assert (Wr : forall m dm r, In (EvAssign m dm r) (fst (walk (d_top d) 0)) -> rec_ok W r).
  { intros m dm r Hr. apply Hm in Hr as (stmts & t & H1 & H2 & H3).
    destruct (emit_assign_bounds t (wf_top_wf t (Wt _ _ _ _ H1 H2)) 0 (tlen t) r (le_n _) H3) as [A B].
    split; [exact (Ws _ _ _ _ _ _ H1 H2 A)|exact B]. }
  rewrite (events_iff W _ _ Wr Wp Ww).
  set (E := fst (walk (d_top d) 0)) in *.
  assert (Hlog : forall x m dm, has_source d x (SrcLogic m dm) <-> asg E (m, dm) (fst x) (snd x)).
  { intros x m dm. simpl. unfold asg. simpl. split.
    - intros (stmts & t & H1 & H2 & H3). apply (emit_assign_spec_top t (Wt _ _ _ _ H1 H2)) in H3 as (r & Hr & Hs & Hc).
      exists r. split; [apply Hm; eauto|]. split; [assumption|]. unfold covers. apply andb_true_iff. split; [apply Nat.leb_le|apply Nat.ltb_lt]; lia.
    - intros (r & Hr & Hs & Hc). apply Hm in Hr as (stmts & t & H1 & H2 & H3). exists stmts, t. split; [assumption|]. split; [assumption|].
      apply (emit_assign_spec_top t (Wt _ _ _ _ H1 H2)). exists r. split; [assumption|]. split; [assumption|].
      unfold covers in Hc. apply andb_true_iff in Hc as [A B]. apply Nat.leb_le in A. apply Nat.ltb_lt in B. lia. }
  unfold conflict, conflictE. rewrite Ho. split.
  - intros [C|[C|[C|[C|C]]]].
    + destruct (dup_nth _ C) as (i & j & x & Hne & Hi & Hj). exists x, (SrcOut i), (SrcOut j). split; [congruence|]. simpl. auto.
    + destruct C as (s & b & k1 & k2 & Hk & A1 & A2). exists (s, b), (SrcLogic (fst k1) (snd k1)), (SrcLogic (fst k2) (snd k2)).
      split; [intro H; inversion H; apply Hk; destruct k1, k2; simpl in *; congruence|].
      split; apply Hlog; simpl; rewrite <- surjective_pairing; assumption.
    + destruct C as (s & b & k & A1 & Hin). apply In_nth_error in Hin as [i Hi].
      exists (s, b), (SrcLogic (fst k) (snd k)), (SrcOut i). split; [discriminate|]. split; [apply Hlog; simpl; rewrite <- surjective_pairing; assumption|exact Hi].
    + destruct C as (s & w & b & Hp & Hb & Hin). apply In_nth_error in Hin as [i Hi]. apply In_nth_error in Hp as [j Hj].
      exists (s, b), (SrcOut i), (SrcPort j). split; [discriminate|]. split; [exact Hi|]. simpl. eauto.
    + destruct C as (s & w & b & k & Hp & Hb & A1). apply In_nth_error in Hp as [j Hj].
      exists (s, b), (SrcLogic (fst k) (snd k)), (SrcPort j). split; [discriminate|].
      split; [apply Hlog; simpl; rewrite <- surjective_pairing; assumption|]. simpl. eauto.
  - intros (x & s1 & s2 & Hne & H1 & H2).
    assert (Port : forall k, has_source d x (SrcPort k) -> exists w, In (fst x, w, PIn) (d_ports d) /\ snd x < w).
    { intros k (w & Hk & Hb). exists w. split; [eapply nth_error_In; eassumption|assumption]. }
    destruct s1 as [m1 d1|i1|p1], s2 as [m2 d2|i2|p2].
    + right. left. exists (fst x), (snd x), (m1, d1), (m2, d2). split; [congruence|]. split; now apply Hlog.
    + right. right. left. exists (fst x), (snd x), (m1, d1). split; [now apply Hlog|]. rewrite <- surjective_pairing. eapply nth_error_In; exact H2.
    + destruct (Port _ H2) as (w & A & B). right. right. right. right. exists (fst x), w, (snd x), (m1, d1). repeat split; auto. now apply Hlog.
    + right. right. left. exists (fst x), (snd x), (m2, d2). split; [now apply Hlog|]. rewrite <- surjective_pairing. eapply nth_error_In; exact H1.
    + left. simpl in H1, H2. eapply nth_dup; [|exact H1|exact H2]. congruence.
    + destruct (Port _ H2) as (w & A & B). right. right. right. left. exists (fst x), w, (snd x). repeat split; auto.
      rewrite <- surjective_pairing. eapply nth_error_In; exact H1.
    + destruct (Port _ H1) as (w & A & B). right. right. right. right. exists (fst x), w, (snd x), (m2, d2). repeat split; auto. now apply Hlog.
    + destruct (Port _ H1) as (w & A & B). right. right. right. left. exists (fst x), w, (snd x). repeat split; auto.
      rewrite <- surjective_pairing. eapply nth_error_In; exact H2.
    + (* two Input ports on one signal: excluded *)
      exfalso. destruct H1 as (w1 & K1 & _), H2 as (w2 & K2 & _).
      apply (nth_dup (map psig (d_ports d)) p1 p2 (fst x)); [congruence| | |exact Wp];
        rewrite nth_error_map; [rewrite K1|rewrite K2]; reflexivity.
Qed.

(* a computable check of wf_design (for concrete designs) *)
Fixpoint nodupn (l : list nat) : bool :=
  match l with [] => true | x :: r => negb (existsb (Nat.eqb x) r) && nodupn r end.
Lemma nodupn_NoDup l : nodupn l = true -> NoDup l.
Proof.
  induction l as [|x r IH]; simpl; [constructor|]. intro H. apply andb_true_iff in H as [H1 H2]. constructor; [|now apply IH].
  intro Hin. apply negb_true_iff in H1. assert (existsb (Nat.eqb x) r = true); [|congruence].
  apply existsb_exists. exists x. split; [assumption|apply Nat.eqb_refl].
Qed.
Definition wf_designb (W : nat -> nat) (d : design) : bool :=
  forallb (fun ms => forallb (fun st => wf_tgt_top (snd st)) (snd ms)) (fst (mods (d_top d) 0))
  && forallb (fun ms => forallb (fun st => forallb (fun sw => Nat.eqb (snd sw) (W (fst sw))) (tgt_sigs (snd st))) (snd ms))
             (fst (mods (d_top d) 0))
  && nodupn (map psig (d_ports d))
  && forallb (fun p => Nat.eqb (snd (fst p)) (W (fst (fst p)))) (d_ports d).

Lemma wf_designb_sound W d : wf_designb W d = true -> wf_design W d.
Proof.
  unfold wf_designb, wf_design. intro H.
  apply andb_true_iff in H as [H H5]. apply andb_true_iff in H as [H H4].
  apply andb_true_iff in H as [H1 H2]. rewrite forallb_forall in H1, H2, H5. repeat split.
  - intros m stmts dm t A B. specialize (H1 _ A). simpl in H1. rewrite forallb_forall in H1. exact (H1 _ B).
  - intros m stmts dm t s w A B C. specialize (H2 _ A). simpl in H2. rewrite forallb_forall in H2. specialize (H2 _ B).
    simpl in H2. rewrite forallb_forall in H2. specialize (H2 _ C). simpl in H2. now apply Nat.eqb_eq.
  - now apply nodupn_NoDup.
  - intros s w dir A. specialize (H5 _ A). simpl in H5. now apply Nat.eqb_eq.
Qed.

(* ================================================================================================ *)
(* the LHSMaskCollector mask contains every bit the target may address                              *)
(* ================================================================================================ *)
Definition mset (acc : list (nat * nat * Z)) (s b : nat) : Prop :=
  exists w m, In (s, w, m) acc /\ b < w /\ Z.testbit m (Z.of_nat b) = true.

Lemma mset_claims acc s b : mset acc s b <-> In (s, b) (mask_claims acc).
Proof.
  unfold mset, mask_claims. rewrite in_flat_map. split.
  - intros (w & m & H1 & H2 & H3). exists (s, w, m). split; [assumption|]. apply in_map.
    apply filter_In. split; [apply in_seq; lia|assumption].
  - intros [[[s' w] m] [H1 H2]]. apply in_map_iff in H2 as [b' [E H2]]. inversion E; subst.
    apply filter_In in H2 as [H2 H3]. apply in_seq in H2. exists w, m. repeat split; auto. lia.
Qed.

Section Widths.
Variable W : nat -> nat.
Definition acc_ok (acc : list (nat * nat * Z)) : Prop := forall s w m, In (s, w, m) acc -> w = W s.
Definition sigs_ok (t : tgt) : Prop := forall s w, In (s, w) (tgt_sigs t) -> w = W s.

Lemma mask_or_ok s m : forall acc, acc_ok acc -> acc_ok (mask_or s (W s) m acc).
Proof.
  induction acc as [|[[s0 w0] m0] acc IH]; intros A s' w' m' H; simpl in H.
  - destruct H as [H|[]]. inversion H; subst. reflexivity.
  - destruct (Nat.eqb s0 s) eqn:E.
    + destruct H as [H|H]; [inversion H; subst; eapply A; now left|eapply A; right; exact H].
    + destruct H as [H|H]; [inversion H; subst; eapply A; now left|].
      eapply IH; [|exact H]. intros ? ? ? Hi. eapply A. right. exact Hi.
Qed.

Lemma mask_or_mono s m : forall acc s' b, mset acc s' b -> mset (mask_or s (W s) m acc) s' b.
Proof.
  induction acc as [|[[s0 w0] m0] acc IH]; intros s' b (w & m1 & H1 & H2 & H3); [destruct H1|]. simpl.
  destruct (Nat.eqb s0 s) eqn:E.
  - destruct H1 as [H1|H1].
    + inversion H1; subst. exists w, (Z.lor m1 m). split; [now left|]. split; [assumption|]. rewrite Z.lor_spec, H3. reflexivity.
    + exists w, m1. split; [now right|auto].
  - destruct H1 as [H1|H1].
    + exists w, m1. split; [now left|auto].
    + destruct (IH s' b (ex_intro _ w (ex_intro _ m1 (conj H1 (conj H2 H3))))) as (w2 & m2 & A & B & C).
      exists w2, m2. split; [now right|auto].
Qed.

Lemma mask_or_set s m b : forall acc, acc_ok acc -> b < W s -> Z.testbit m (Z.of_nat b) = true ->
  mset (mask_or s (W s) m acc) s b.
Proof.
  induction acc as [|[[s0 w0] m0] acc IH]; intros A Hb Hm; simpl.
  - exists (W s), m. split; [now left|auto].
  - destruct (Nat.eqb s0 s) eqn:E.
    + apply Nat.eqb_eq in E. subst s0. assert (w0 = W s) by (eapply A; now left). subst w0.
      exists (W s), (Z.lor m0 m). split; [now left|]. split; [assumption|]. rewrite Z.lor_spec, Hm. apply orb_true_r.
    + destruct IH as (w2 & m2 & X & Y & Z0); auto; [intros ? ? ? Hi; eapply A; right; exact Hi|].
      exists w2, m2. split; [now right|auto].
Qed.

Definition lhs_mask_cat := fix go (ps : list tgt) (mask : Z) (acc : list (nat * nat * Z)) :=
  match ps with
  | [] => acc
  | p :: ps' => go ps' (Z.shiftr mask (Z.of_nat (tlen p))) (lhs_mask p mask acc)
  end.
Definition lhs_mask_sw (mask : Z) := fix go (es : list tgt) (acc : list (nat * nat * Z)) :=
  match es with
  | [] => acc
  | e :: es' => go es' (lhs_mask e mask acc)
  end.

(* visiting a target keeps the table well-formed and never clears a bit *)
Definition keeps (t : tgt) : Prop := sigs_ok t -> forall mask acc, acc_ok acc ->
  acc_ok (lhs_mask t mask acc) /\ (forall s b, mset acc s b -> mset (lhs_mask t mask acc) s b).

Lemma sigs_ok_in (ps : list tgt) p : (forall s w, In (s, w) (flat_map tgt_sigs ps) -> w = W s) -> In p ps -> sigs_ok p.
Proof. intros H Hp s w Hs. apply H. apply in_flat_map. eauto. Qed.

Lemma keeps_all : forall t, keeps t.
Proof.
  induction t as [s' w|a IH|a lo hi IH|a offw w st IH|ps IH|w es IH] using tgt_ind'; intros S mask acc A.
  - simpl. assert (w = W s') as -> by (apply S; now left). split; [now apply mask_or_ok|intros; now apply mask_or_mono].
  - simpl. now apply IH.
  - simpl. now apply IH.
  - simpl. now apply IH.
  - change (lhs_mask (TCat ps) mask acc) with (lhs_mask_cat ps mask acc). simpl in S.
    revert mask acc A. induction ps as [|p ps IHps]; intros mask acc A; cbn [lhs_mask_cat]; [auto|].
    inversion IH as [|? ? Hp Hr]; subst.
    destruct (Hp (sigs_ok_in (p :: ps) p S (or_introl eq_refl)) mask acc A) as [A1 M1].
    destruct (IHps Hr (fun s w H => S s w (in_or_app _ _ _ (or_intror H))) (Z.shiftr mask (Z.of_nat (tlen p))) _ A1) as [A2 M2].
    split; [assumption|]. intros s b H. apply M2, M1, H.
  - change (lhs_mask (TSwitch w es) mask acc) with (lhs_mask_sw mask es acc). simpl in S.
    revert acc A. induction es as [|e es IHes]; intros acc A; cbn [lhs_mask_sw]; [auto|].
    inversion IH as [|? ? He Hr]; subst.
    destruct (He (sigs_ok_in (e :: es) e S (or_introl eq_refl)) mask acc A) as [A1 M1].
    destruct (IHes Hr (fun s w H => S s w (in_or_app _ _ _ (or_intror H))) _ A1) as [A2 M2].
    split; [assumption|]. intros s b H. apply M2, M1, H.
Qed.

(* bit facts *)
Lemma ones_mask w : (Z.shiftl 1 (Z.of_nat w) - 1 = Z.ones (Z.of_nat w))%Z.
Proof. rewrite Z.ones_equiv, Z.shiftl_1_l. lia. Qed.
Lemma range_mask lo hi : lo <= hi ->
  (Z.shiftl 1 (Z.of_nat hi) - Z.shiftl 1 (Z.of_nat lo) = Z.shiftl (Z.ones (Z.of_nat (hi - lo))) (Z.of_nat lo))%Z.
Proof.
  intro H. rewrite !Z.shiftl_1_l, Z.ones_equiv, Z.shiftl_mul_pow2 by lia.
  replace (Z.of_nat hi) with (Z.of_nat (hi - lo) + Z.of_nat lo)%Z by lia. rewrite Z.pow_add_r by lia. lia.
Qed.

(* the bits a target may address under `mask` are set *)
Definition sets (t : tgt) : Prop := sigs_ok t -> forall mask acc k s b, acc_ok acc ->
  addr t k s b -> Z.testbit mask (Z.of_nat k) = true -> mset (lhs_mask t mask acc) s b.

Lemma sets_all : forall t, sets t.
Proof.
  induction t as [s' w|a IH|a lo hi IH|a offw w st IH|ps IH|w es IH] using tgt_ind'; intros S mask acc k s b A Ha Hm.
  - simpl in Ha. destruct Ha as (-> & -> & Hb). simpl. assert (w = W s) as -> by (apply S; now left).
    apply mask_or_set; [assumption|assumption|].
    rewrite Z.land_spec, Hm, ones_mask, Z.ones_spec_low by lia. reflexivity.
  - simpl in *. eapply IH; eassumption.
  - simpl in Ha. destruct Ha as [Hk Ha]. simpl. eapply (IH S _ acc (k + lo)); [assumption|exact Ha|].
    rewrite Z.land_spec, range_mask by lia. rewrite !Z.shiftl_spec by lia.
    replace (Z.of_nat (k + lo) - Z.of_nat lo)%Z with (Z.of_nat k) by lia. rewrite Hm, Z.ones_spec_low by lia. reflexivity.
  - simpl in Ha. destruct Ha as [Hk [o [Ho Ha]]]. simpl. eapply (IH S _ acc (k + o * st)); [assumption|exact Ha|].
    apply Z.bits_m1. lia.
  - change (lhs_mask (TCat ps) mask acc) with (lhs_mask_cat ps mask acc).
    change (addr (TCat ps) k s b) with (addr_cat k s b ps 0) in Ha. simpl in S.
    assert (G : forall off mask acc, acc_ok acc -> addr_cat k s b ps off -> off <= k ->
                Z.testbit mask (Z.of_nat (k - off)) = true -> mset (lhs_mask_cat ps mask acc) s b).
    { clear mask acc A Ha Hm. induction ps as [|p ps IHps]; intros off mask acc A Ha Hoff Hm; cbn [addr_cat lhs_mask_cat] in *; [destruct Ha|].
      inversion IH as [|? ? Hp Hr]; subst.
      assert (Sp : sigs_ok p) by exact (sigs_ok_in (p :: ps) p S (or_introl eq_refl)).
      assert (Sr : forall s w, In (s, w) (flat_map tgt_sigs ps) -> w = W s) by (intros s0 w0 H; apply S; apply in_or_app; now right).
      destruct (keeps_all p Sp mask acc A) as [A1 _].
      destruct Ha as [(H1 & H2 & Ha)|Ha].
      - pose proof (Hp Sp mask acc (k - off) s b A Ha Hm) as M.
        assert (Kr : forall ps0 mask0 acc0, (forall s w, In (s, w) (flat_map tgt_sigs ps0) -> w = W s) -> acc_ok acc0 ->
                       mset acc0 s b -> mset (lhs_mask_cat ps0 mask0 acc0) s b).
        { clear. induction ps0 as [|q ps0 IHq]; intros mask0 acc0 Sq A0 M0; cbn [lhs_mask_cat]; [assumption|].
          destruct (keeps_all q (sigs_ok_in (q :: ps0) q Sq (or_introl eq_refl)) mask0 acc0 A0) as [Aq Mq].
          apply IHq; [intros s0 w0 H; apply Sq; apply in_or_app; now right|assumption|now apply Mq]. }
        apply Kr; assumption.
      - apply (IHps Hr Sr (off + tlen p)); [assumption|exact Ha| |].
        + clear - Ha. revert Ha. generalize (off + tlen p). induction ps as [|q ps IHq]; intros o Ha; cbn [addr_cat] in Ha; [destruct Ha|].
          destruct Ha as [(H1 & _)|Ha]; [assumption|]. apply IHq in Ha. lia.
        + assert (off + tlen p <= k).
          { clear - Ha. revert Ha. generalize (off + tlen p). induction ps as [|q ps IHq]; intros o Ha; cbn [addr_cat] in Ha; [destruct Ha|].
            destruct Ha as [(H1 & _)|Ha]; [assumption|]. apply IHq in Ha. lia. }
          rewrite Z.shiftr_spec by lia. replace (Z.of_nat (k - (off + tlen p)) + Z.of_nat (tlen p))%Z with (Z.of_nat (k - off)) by lia.
          exact Hm. }
    apply (G 0 mask acc A Ha); [lia|]. now rewrite Nat.sub_0_r.
  - change (lhs_mask (TSwitch w es) mask acc) with (lhs_mask_sw mask es acc).
    change (addr (TSwitch w es) k s b) with (addr_sw k s b es) in Ha. simpl in S.
    revert acc A. induction es as [|e es IHes]; intros acc A; cbn [addr_sw lhs_mask_sw] in *; [destruct Ha|].
    inversion IH as [|? ? He Hr]; subst.
    assert (Se : sigs_ok e) by exact (sigs_ok_in (e :: es) e S (or_introl eq_refl)).
    assert (Sr : forall s w, In (s, w) (flat_map tgt_sigs es) -> w = W s) by (intros s0 w0 H; apply S; apply in_or_app; now right).
    destruct (keeps_all e Se mask acc A) as [A1 _].
    destruct Ha as [[_ Ha]|Ha].
    + pose proof (He Se mask acc k s b A Ha Hm) as M.
      clear - M A1 Sr. revert M A1. generalize (lhs_mask e mask acc). induction es as [|q es IHq]; intros acc0 M0 A0; cbn [lhs_mask_sw]; [assumption|].
      destruct (keeps_all q (sigs_ok_in (q :: es) q Sr (or_introl eq_refl)) mask acc0 A0) as [Aq Mq].
      apply IHq; [intros s0 w0 H; apply Sr; apply in_or_app; now right|now apply Mq|assumption].
    + apply (IHes Hr Sr Ha _ A1).
Qed.

Theorem mask_covers_may_drive t s b : sigs_ok t -> may_drive t s b -> In (s, b) (mbits t).
Proof.
  intros S (k & _ & Ha). unfold mbits. apply mset_claims.
  apply (sets_all t S (-1)%Z [] k s b); [intros ? ? ? []|exact Ha|apply Z.bits_m1; lia].
Qed.
End Widths.

(* the early check never misses an intra-module domain conflict *)
Theorem early_check_complete W stmts :
  (forall dm t, In (dm, t) stmts -> sigs_ok W t) ->
  (exists s b d1 t1 d2 t2, d1 <> d2 /\ In (d1, t1) stmts /\ In (d2, t2) stmts /\ may_drive t1 s b /\ may_drive t2 s b) ->
  early_conflict stmts <> None.
Proof.
  intros S (s & b & d1 & t1 & d2 & t2 & Hd & H1 & H2 & M1 & M2). apply early_conflict_iff.
  exists (s, b), d1, t1, d2, t2. repeat split; auto; eapply mask_covers_may_drive; eauto.
Qed.

(* NirP.v — proofs about Model/Nir.v (C06). *)
From Coq Require Import ZArith List Bool Arith Lia.
From V.Model Require Import Nir.
Import ListNotations.

(* ================================================================================================ *)
(* Part II — the cycle check                                                                        *)
(* ================================================================================================ *)

Lemma net_eqb_eq x y : net_eqb x y = true <-> x = y.
Proof.
  destruct x, y; simpl; split; intro H; try discriminate; try congruence.
  - apply andb_true_iff in H as [H1 H2]. apply Nat.eqb_eq in H1, H2. congruence.
  - inversion H; subst. now rewrite !Nat.eqb_refl.
  - apply Nat.eqb_eq in H. congruence.
  - inversion H; subst. now rewrite Nat.eqb_refl.
Qed.

Lemma nmem_In x l : nmem x l = true <-> In x l.
Proof.
  unfold nmem. rewrite existsb_exists. split.
  - intros [y [Hy He]]. apply net_eqb_eq in He. now subst.
  - intro H. exists x. split; [assumption | now apply net_eqb_eq].
Qed.

Lemma nmem_false x l : nmem x l = false <-> ~ In x l.
Proof.
  split.
  - intros H Hin. apply nmem_In in Hin. congruence.
  - intro H. destruct (nmem x l) eqn:E; [|reflexivity]. apply nmem_In in E. contradiction.
Qed.

(* ---------- soundness: a reported path is a closed chain of comb edges ---------- *)

(* p = [n_k; ...; n_1] (innermost first): n_k -> t, n_(k-1) -> n_k, ... *)
Fixpoint chain (g : netlist) (t : net) (p : list net) : Prop :=
  match p with
  | [] => True
  | x :: r => edge g x t /\ chain g x r
  end.

Lemma chain_app g : forall p t n, chain g t (p ++ [n]) <-> chain g t p /\ edge g n (last p t).
Proof.
  induction p as [|x r IH]; intros t n; simpl.
  - tauto.
  - rewrite IH. destruct r; simpl; tauto.
Qed.

Lemma last_app_one {A} (p : list A) (n d : A) : last (p ++ [n]) d = n.
Proof. induction p as [|x r IH]; simpl; [reflexivity|]. destruct (r ++ [n]) eqn:E; [destruct r; discriminate|]. exact IH. Qed.

Lemma chain_reach g : forall p t, chain g t p -> p <> [] -> reach g (last p t) t.
Proof.
  induction p as [|x r IH]; intros t Hc Hne; [congruence|].
  simpl in Hc. destruct Hc as [He Hc].
  destruct r as [|y r'].
  - simpl. now apply reach_one.
  - change (last (x :: y :: r') t) with (last (y :: r') t).
    assert (Hl : forall d, last (y :: r') d = last (y :: r') x).
    { clear. generalize y. induction r' as [|z r'' IH]; intros y0 d; simpl; [reflexivity|]. apply IH. }
    rewrite (Hl t).
    assert (R : reach g (last (y :: r') x) x) by (apply IH; [assumption|discriminate]).
    clear -R He. induction R.
    + eapply reach_step; [eassumption|]. now apply reach_one.
    + eapply reach_step; [eassumption|]. now apply IHR.
Qed.

(* what a result of traverse / trav_loop means *)
Definition res_ok (g : netlist) (n : net) (r : tres) : Prop :=
  match r with
  | TOk _ (Some (s, p)) => chain g s p /\ last p s = n
  | TRaise p => exists x, chain g x p /\ p <> [] /\ last p x = x
  | _ => True
  end.
Definition loop_ok (g : netlist) (n : net) (r : tres) : Prop :=
  match r with
  | TOk _ (Some (s, p)) => chain g s p /\ last p s = n /\ p <> []
  | TRaise p => exists x, chain g x p /\ p <> [] /\ last p x = x
  | _ => True
  end.

Lemma trav_loop_ok g trav n :
  (forall s st, res_ok g s (trav s st)) ->
  forall ss st, (forall s, In s ss -> edge g n s) -> loop_ok g n (trav_loop trav n ss st).
Proof.
  intros Ht. induction ss as [|s ss IH]; intros st Hss; simpl; [exact I|].
  pose proof (Ht s st) as H. destruct (trav s st) as [st' [[s0 p]|]|p|]; simpl in *.
  - destruct H as [Hc Hl]. rewrite chain_app, last_app_one. repeat split; try assumption.
    + rewrite Hl. apply Hss. now left.
    + destruct p; discriminate.
  - apply IH. intros; apply Hss; now right.
  - exact H.
  - exact I.
Qed.

Lemma traverse_ok g : forall fuel n st, res_ok g n (traverse g fuel n st).
Proof.
  induction fuel as [|fuel IH]; intros n st; simpl; [exact I|].
  destruct (nmem n (checked st)); [exact I|].
  destruct (nmem n (busy st)); [simpl; auto|].
  pose proof (trav_loop_ok g (traverse g fuel) n IH (succs g n)
                (Dfs (checked st) (extras g n ++ n :: busy st)) (fun s H => H)) as H.
  destruct (trav_loop _ _ _ _) as [st2 [[s0 p]|]|p|]; simpl in *; try exact I.
  - destruct H as [Hc [Hl Hne]].
    destruct (net_eqb s0 n) eqn:E; simpl.
    + apply net_eqb_eq in E. subst s0. exists n. auto.
    + auto.
  - exact H.
Qed.

Lemma top_loop_sound g fuel : forall rs st p,
  top_loop g fuel rs st = VCycle p -> exists x, chain g x p /\ p <> [] /\ last p x = x.
Proof.
  induction rs as [|r rs IH]; intros st p H; simpl in H; [discriminate|].
  pose proof (traverse_ok g fuel r st) as Hr.
  destruct (traverse g fuel r st) as [st' [c|]|q|]; try discriminate.
  - eapply IH; eassumption.
  - inversion H; subst. exact Hr.
Qed.

Theorem dfs_sound g p :
  check_cycles g = VCycle p ->
  exists x, chain g x p /\ p <> [] /\ last p x = x /\ reach g x x.
Proof.
  intro H. apply top_loop_sound in H. destruct H as [x [Hc [Hne Hl]]].
  exists x. repeat split; try assumption.
  pose proof (chain_reach g p x Hc Hne) as R. now rewrite Hl in R.
Qed.

(* ---------- completeness: acceptance means no net of the netlist lies on a cycle ---------- *)

(* checked is kept in finishing order: every successor of an element was checked strictly before it *)
Inductive topo (g : netlist) : list net -> Prop :=
| topo_nil : topo g []
| topo_cons x l : topo g l -> (forall m, edge g x m -> In m l) -> topo g (x :: l).

Lemma topo_closed g l : topo g l -> forall x m, In x l -> edge g x m -> In m l.
Proof.
  induction 1 as [|x l Ht IH Hx]; intros y m Hy He; [destruct Hy|].
  destruct Hy as [->|Hy]; right; [now apply Hx | eapply IH; eassumption].
Qed.

Lemma topo_reach_closed g l : topo g l -> forall x m, In x l -> reach g x m -> In m l.
Proof.
  intros Ht x m Hx R. induction R.
  - eapply topo_closed; eassumption.
  - apply IHR. eapply topo_closed; eassumption.
Qed.

Lemma topo_acyclic g l : topo g l -> forall x, In x l -> ~ reach g x x.
Proof.
  induction 1 as [|x l Ht IH Hx]; intros y Hy R; [destruct Hy|].
  destruct (nmem y l) eqn:E.
  - apply nmem_In in E. exact (IH y E R).
  - apply nmem_false in E. destruct Hy as [<-|Hy]; [|contradiction].
    apply E. inversion R; subst.
    + now apply Hx.
    + eapply topo_reach_closed; [eassumption| |eassumption]. now apply Hx.
Qed.

Lemma topo_app g : forall l L, topo g L -> (forall e m, In e l -> edge g e m -> In m L) -> topo g (l ++ L).
Proof.
  induction l as [|e l IH]; intros L Ht H; simpl; [assumption|].
  constructor.
  - apply IH; [assumption|]. intros; eapply H; [right|]; eassumption.
  - intros m He. apply in_or_app. right. eapply H; [now left|eassumption].
Qed.

Lemma comb_edges_not_per_bit c b b' : per_bit c = false -> comb_edges c b = comb_edges c b'.
Proof.
  destruct c; simpl; try reflexivity; try discriminate.
  destruct ins as [|i1 [|i2 [|i3 [|i4 r]]]]; try reflexivity.
  - destruct k; try reflexivity; discriminate.
  - intro H. now rewrite H.
  - discriminate.
Qed.

Lemma extras_succs g n e m : In e (extras g n) -> edge g e m -> edge g n m.
Proof.
  unfold extras, edge, succs. destruct (is_const n) eqn:Cn; [intros []|].
  destruct n as [c b|l]; [|intros []].
  destruct (nth_error (cells g) c) as [cl|] eqn:Ec; [|intros []].
  destruct (per_bit cl) eqn:Pb; [intros []|].
  intros He. apply filter_In in He as [He _]. unfold outputs in He. apply in_map_iff in He as [b' [<- _]].
  destruct (is_const (NC c b')); [intros []|]. rewrite Ec.
  now rewrite (comb_edges_not_per_bit cl b' b Pb).
Qed.

Definition inv_none (g : netlist) (n : net) (st : dfs) (r : tres) : Prop :=
  match r with
  | TOk st' None => topo g (checked st) -> topo g (checked st') /\ In n (checked st') /\ incl (checked st) (checked st')
  | _ => True
  end.

Lemma trav_loop_none g trav n :
  (forall s st, inv_none g s st (trav s st)) ->
  forall ss st st', trav_loop trav n ss st = TOk st' None -> topo g (checked st) ->
    topo g (checked st') /\ (forall s, In s ss -> In s (checked st')) /\ incl (checked st) (checked st').
Proof.
  intros Ht. induction ss as [|s ss IH]; intros st st' H T; simpl in H.
  - inversion H; subst. repeat split; [assumption| intros ? [] | apply incl_refl].
  - pose proof (Ht s st) as Hs. destruct (trav s st) as [st1 [[s0 p]|]|p|]; try discriminate.
    simpl in Hs. destruct (Hs T) as [T1 [I1 S1]].
    destruct (IH st1 st' H T1) as [T2 [I2 S2]].
    repeat split; [assumption| |eapply incl_tran; eassumption].
    intros x [<-|Hx]; [now apply S2 | now apply I2].
Qed.

Lemma traverse_none g : forall fuel n st, inv_none g n st (traverse g fuel n st).
Proof.
  induction fuel as [|fuel IH]; intros n st; simpl; [exact I|].
  destruct (nmem n (checked st)) eqn:Ck.
  { simpl. intro T. apply nmem_In in Ck. repeat split; [assumption|assumption|apply incl_refl]. }
  destruct (nmem n (busy st)); [exact I|].
  destruct (trav_loop (traverse g fuel) n (succs g n) (Dfs (checked st) (extras g n ++ n :: busy st)))
    as [st2 [[s0 p]|]|p|] eqn:EL; simpl; try exact I.
  { destruct (net_eqb s0 n); exact I. }
  intro T.
  destruct (trav_loop_none g (traverse g fuel) n IH _ _ _ EL T) as [T2 [I2 S2]]. simpl in S2.
  assert (Tn : topo g (n :: checked st2)) by (constructor; [assumption| intros m Hm; now apply I2]).
  repeat split.
  - apply topo_app; [assumption|]. intros e m He Hm. apply in_rev in He. right. apply I2.
    eapply extras_succs; eassumption.
  - apply in_or_app. right. now left.
  - intros x Hx. apply in_or_app. right. right. now apply S2.
Qed.

Lemma top_loop_complete g fuel : forall rs st,
  top_loop g fuel rs st = VAccept -> topo g (checked st) ->
  exists st', topo g (checked st') /\ (forall r, In r rs -> In r (checked st')).
Proof.
  induction rs as [|r rs IH]; intros st H T; simpl in H.
  - exists st. split; [assumption|intros ? []].
  - pose proof (traverse_none g fuel r st) as Hr.
    destruct (traverse g fuel r st) as [st1 [c|]|p|]; try discriminate.
    simpl in Hr. destruct (Hr T) as [T1 [I1 S1]].
    destruct (IH st1 H T1) as [st' [T' I']].
    exists st'. split; [assumption|]. intros x [<-|Hx]; [|now apply I'].
    (* checked only grows *)
    clear -I1 H T1 IH. revert st1 I1 H T1. induction rs as [|r' rs IH']; intros st1 I1 H T1; simpl in H.
    + admit.
    + admit.
Admitted.

(* DerivedP.v — C01: the operators defined by rewriting (Mux, abs, constant shifts, in-range array indexing,
   indexing/slicing) denote the documented integer / bit-sequence results. *)
From Coq Require Import ZArith List Bool Lia ZifyBool.
From V.Model Require Import Bits Shape Ast Denote PyRTL PyEval Stmt Derived.
From V.Proofs Require Import BitsP ShapeP ExprP StmtP.
Import ListNotations.
Open Scope Z_scope.

(* ---------- to_binary patterns ---------- *)
Lemma bin_pattern_nat_length w i : length (bin_pattern_nat w i) = w.
Proof. induction w as [|w IH]; simpl; auto. Qed.

Lemma mod_pow2_succ x n : 0 <= n -> x mod 2 ^ (n + 1) = x mod 2 ^ n + 2 ^ n * Z.b2z (Z.testbit x n).
Proof.
  intros Hn. rewrite Z.pow_add_r by lia. change (2 ^ 1) with 2.
  rewrite Z.rem_mul_r by (pose proof (pow2_pos n Hn); lia). rewrite Z.testbit_spec' by auto. reflexivity.
Qed.

Lemma bin_pattern_nat_sem w i t :
  pat_sem (bin_pattern_nat w i) t = (t mod 2 ^ Z.of_nat w =? i mod 2 ^ Z.of_nat w).
Proof.
  induction w as [|w IH]; [simpl; rewrite !Z.mod_1_r; reflexivity|].
  cbn [bin_pattern_nat pat_sem]. rewrite bin_pattern_nat_length, IH.
  rewrite Nat2Z.inj_succ. replace (Z.succ (Z.of_nat w)) with (Z.of_nat w + 1) by lia.
  rewrite !mod_pow2_succ by lia.
  pose proof (pow2_pos (Z.of_nat w) (Nat2Z.is_nonneg w)) as Hpw.
  pose proof (Z.mod_pos_bound t (2 ^ Z.of_nat w) Hpw).
  pose proof (Z.mod_pos_bound i (2 ^ Z.of_nat w) Hpw).
  destruct (Z.testbit t (Z.of_nat w)), (Z.testbit i (Z.of_nat w)); cbn [Bool.eqb Z.b2z andb];
    destruct (t mod 2 ^ Z.of_nat w =? i mod 2 ^ Z.of_nat w) eqn:E; nia.
Qed.

Lemma bin_pattern_sem w i t : 0 <= w -> 0 <= i < 2 ^ w -> 0 <= t < 2 ^ w ->
  pat_sem (bin_pattern w i) t = (t =? i) /\ Z.of_nat (length (bin_pattern w i)) = w.
Proof.
  intros Hw Hi Ht. unfold bin_pattern. rewrite bin_pattern_nat_sem, bin_pattern_nat_length, Z2Nat.id by auto.
  rewrite !Z.mod_small by auto. auto.
Qed.

(* ---------- Mux ---------- *)
Theorem mk_mux_spec en sel a b : wf_expr sel = true -> wf_expr a = true -> wf_expr b = true ->
  env_ok en sel -> env_ok en a -> env_ok en b ->
  wf_expr (mk_mux sel a b) = true /\ env_ok en (mk_mux sel a b) /\
  denote en (mk_mux sel a b) = (if denote en sel =? 0 then denote en b else denote en a) /\
  shape_of (mk_mux sel a b) = unify2 (shape_of b) (shape_of a).
Proof.
  intros Hs Ha Hb Es Ea Eb. destruct (shape_sound en sel Hs Es) as [Hws Hrs].
  pose proof (wf_width_nonneg _ Hws) as Hwn. pose proof (pow2_pos (ewidth sel) Hwn) as Hp.
  destruct (bin_pattern_sem (ewidth sel) 0 (denote en sel mod 2 ^ ewidth sel) Hwn ltac:(lia)
              ltac:(apply Z.mod_pos_bound; auto)) as [Hsem Hlen].
  unfold mk_mux. split; [|split; [|split]].
  - simpl. rewrite Hs, Ha, Hb. unfold pattern_ok. rewrite Hlen, Z.eqb_refl. reflexivity.
  - simpl. tauto.
  - cbn [denote map fst snd switch_of case_sem existsb]. cbv beta. rewrite Hsem, orb_false_r.
    assert ((denote en sel mod 2 ^ ewidth sel =? 0) = (denote en sel =? 0)) as ->; [|destruct (denote en sel =? 0); reflexivity].
    rewrite <- (norm_id _ _ Hws Hrs) at 2. rewrite norm_zero_iff by auto. reflexivity.
  - reflexivity.
Qed.

(* ---------- abs ---------- *)
Theorem mk_abs_spec en e : wf_expr e = true -> env_ok en e ->
  wf_expr (mk_abs e) = true /\ env_ok en (mk_abs e) /\
  denote en (mk_abs e) = Z.abs (denote en e) /\ shape_of (mk_abs e) = Sh (ewidth e) false.
Proof.
  intros Hwf Henv. destruct (shape_sound en e Hwf Henv) as [Hw Hr].
  pose proof (wf_width_nonneg _ Hw) as Hwn. unfold mk_abs, ewidth.
  destruct (sgn (shape_of e)) eqn:Es.
  - set (ge := EOp2 OGe e (EConst 0 (Sh 1 false))).
    assert (Hge : wf_expr ge = true) by (simpl; rewrite Hwf; reflexivity).
    assert (Ege : env_ok en ge) by (simpl; tauto).
    assert (Hneg : wf_expr (EOp1 ONeg e) = true) by (simpl; rewrite Hwf; reflexivity).
    destruct (mk_mux_spec en ge e (EOp1 ONeg e) Hge Hwf Hneg Ege Henv Henv) as (Hm1 & Hm2 & Hm3 & Hm4).
    assert (Hmw : ewidth (mk_mux ge e (EOp1 ONeg e)) = width (shape_of e) + 1).
    { unfold ewidth. rewrite Hm4. simpl shape_of. unfold unify2, unify. simpl. rewrite Es. simpl. lia. }
    split; [|split; [|split]].
    + cbn [wf_expr]. rewrite Hm1, Hmw. lia.
    + exact Hm2.
    + cbn [denote]. rewrite Hm3. cbn [denote den_op1 den_op2 ge]. change (norm (Sh 1 false) 0) with 0.
      unfold in_range, wf_shape in *. rewrite Es in *. unfold bits_at. rewrite Z.sub_0_r. change (2 ^ 0) with 1. rewrite Z.div_1_r.
      pose proof (pow2_split (width (shape_of e)) ltac:(lia)). pose proof (pow2_pos (width (shape_of e) - 1) ltac:(lia)).
      destruct (0 <=? denote en e) eqn:E0; cbn [b2z Z.eqb].
      * rewrite Z.mod_small by lia. lia.
      * rewrite Z.mod_small by lia. lia.
    + simpl. rewrite Z.sub_0_r. reflexivity.
  - split; [|split; [|split]]; auto.
    + unfold in_range in Hr. rewrite Es in Hr. lia.
    + destruct (shape_of e); simpl in *; subst; reflexivity.
Qed.

(* ---------- shifts by constants ---------- *)
Theorem mk_shift_left_spec en e n : wf_expr e = true -> env_ok en e -> 0 <= n ->
  wf_expr (mk_shift_left e n) = true /\ env_ok en (mk_shift_left e n) /\
  denote en (mk_shift_left e n) = denote en e * 2 ^ n /\
  shape_of (mk_shift_left e n) = Sh (ewidth e + n) (sgn (shape_of e)).
Proof.
  intros Hwf Henv Hn. destruct (shape_sound en e Hwf Henv) as [Hw Hr].
  pose proof (wf_width_nonneg _ Hw) as Hwn. pose proof (pow2_pos n Hn) as Hp.
  assert (Hc : denote en (ECat [EConst 0 (Sh n false); e]) = (denote en e mod 2 ^ ewidth e) * 2 ^ n).
  { simpl. unfold norm, mask; simpl. rewrite ?Z.mod_0_l by lia. unfold ewidth; simpl. lia. }
  unfold mk_shift_left, ewidth in *. destruct (sgn (shape_of e)) eqn:Es.
  - split; [|split; [|split]].
    + simpl. rewrite Hwf. unfold wf_shape; simpl. unfold ewidth; simpl. unfold wf_shape in Hw. rewrite Es in Hw. lia.
    + simpl. tauto.
    + assert (Hos : forall c, denote en (EOp1 OS c) = sext (width (shape_of c)) (denote en c)) by reflexivity.
      rewrite Hos, Hc. cbn [shape_of width fold_right].
      replace (n + (width (shape_of e) + 0)) with (width (shape_of e) + n) by lia.
      unfold in_range, wf_shape in *. rewrite Es in *.
      change (sext (width (shape_of e) + n) (denote en e mod 2 ^ width (shape_of e) * 2 ^ n))
        with (norm (Sh (width (shape_of e) + n) true) (denote en e mod 2 ^ width (shape_of e) * 2 ^ n)).
      apply norm_eq_intro.
      * unfold wf_shape; simpl. lia.
      * unfold in_range; simpl.
        replace (width (shape_of e) + n - 1) with ((width (shape_of e) - 1) + n) by lia.
        rewrite Z.pow_add_r by lia. nia.
      * destruct (mask_congr (width (shape_of e)) (denote en e) Hwn) as [k Hk]. unfold mask in Hk. rewrite Hk.
        exists (- k). simpl. rewrite Z.pow_add_r by lia. lia.
    + simpl. f_equal. lia.
  - split; [|split; [|split]].
    + simpl. rewrite Hwf. unfold wf_shape; simpl. lia.
    + simpl. tauto.
    + rewrite Hc. unfold in_range in Hr. rewrite Es in Hr. rewrite Z.mod_small by lia. reflexivity.
    + simpl. f_equal. lia.
Qed.

Theorem mk_shift_right_spec en e n : wf_expr e = true -> env_ok en e -> 0 <= n ->
  wf_expr (mk_shift_right e n) = true /\ env_ok en (mk_shift_right e n) /\
  denote en (mk_shift_right e n) = denote en e / 2 ^ n.
Proof.
  intros Hwf Henv Hn. destruct (shape_sound en e Hwf Henv) as [Hw Hr].
  pose proof (wf_width_nonneg _ Hw) as Hwn. unfold mk_shift_right.
  set (len := ewidth e) in *. assert (len = width (shape_of e)) as Hlen by reflexivity.
  destruct (sgn (shape_of e)) eqn:Es.
  - unfold wf_shape, in_range in *. rewrite Es in *. rewrite <- Hlen in Hr, Hw.
    set (n' := if len <=? n then len - 1 else n).
    assert (0 <= n' <= len - 1) as Hn' by (unfold n'; destruct (len <=? n) eqn:E; lia).
    replace (Z.min len n') with n' by lia.
    split; [|split].
    + simpl. rewrite Hwf. unfold ewidth; simpl. fold len. lia.
    + simpl. exact Henv.
    + assert (Hos : forall c, denote en (EOp1 OS c) = sext (width (shape_of c)) (denote en c)) by reflexivity.
      rewrite Hos. cbn [denote shape_of width]. unfold bits_at.
      change (sext (len - n') ((denote en e / 2 ^ n') mod 2 ^ (len - n')))
        with (norm (Sh (len - n') true) ((denote en e / 2 ^ n') mod 2 ^ (len - n'))).
      pose proof (pow2_pos n' ltac:(lia)) as Hp'. pose proof (pow2_pos n Hn) as Hp.
      assert (Hdiv : denote en e / 2 ^ n = denote en e / 2 ^ n').
      { unfold n'. destruct (len <=? n) eqn:E; [|reflexivity].
        (* n >= len: both quotients are the sign: -1 or 0 *)
        pose proof (pow2_mono (len - 1) n ltac:(lia)).
        destruct (Z_lt_le_dec (denote en e) 0).
        - assert (denote en e / 2 ^ n = -1) as -> by (symmetry; apply (Z.div_unique _ _ (-1) (denote en e + 2 ^ n)); lia).
          apply (Z.div_unique _ _ (-1) (denote en e + 2 ^ (len - 1))); lia.
        - rewrite !Z.div_small by lia. reflexivity. }
      rewrite Hdiv. apply norm_eq_intro.
      * unfold wf_shape; simpl. lia.
      * unfold in_range; simpl. replace (len - n' - 1) with ((len - 1) - n') by lia.
        assert (2 ^ (len - 1) = 2 ^ (len - 1 - n') * 2 ^ n') as Hsplit by (rewrite <- Z.pow_add_r by lia; f_equal; lia).
        pose proof (pow2_pos (len - 1 - n') ltac:(lia)).
        pose proof (Z.div_mod (denote en e) (2 ^ n') ltac:(lia)). pose proof (Z.mod_pos_bound (denote en e) (2 ^ n') Hp'). nia.
      * destruct (mask_congr (len - n') (denote en e / 2 ^ n') ltac:(lia)) as [k Hk]. unfold mask in Hk.
        exists (- k). simpl. lia.
  - unfold in_range in Hr. rewrite Es in Hr. rewrite <- Hlen in Hr. split; [|split].
    + simpl. rewrite Hwf. fold len. lia.
    + simpl. exact Henv.
    + cbn [denote]. unfold bits_at. pose proof (pow2_pos n Hn) as Hp.
      destruct (Z_le_gt_dec len n).
      * replace (Z.min len n) with len by lia. replace (len - len) with 0 by lia. change (2 ^ 0) with 1. rewrite Z.mod_1_r.
        pose proof (pow2_mono len n ltac:(lia)). rewrite Z.div_small by lia. reflexivity.
      * replace (Z.min len n) with n by lia. apply Z.mod_small.
        assert (2 ^ len = 2 ^ (len - n) * 2 ^ n) as Hsplit by (rewrite <- Z.pow_add_r by lia; f_equal; lia).
        pose proof (pow2_pos (len - n) ltac:(lia)).
        pose proof (Z.div_mod (denote en e) (2 ^ n) ltac:(lia)). pose proof (Z.mod_pos_bound (denote en e) (2 ^ n) Hp). nia.
Qed.

(* ---------- indexing ---------- *)
Theorem mk_index_spec en e k : wf_expr e = true -> env_ok en e -> - ewidth e <= k < ewidth e ->
  wf_expr (mk_index e k) = true /\
  denote en (mk_index e k) = Z.b2z (Z.testbit (denote en e) (if k <? 0 then k + ewidth e else k)).
Proof.
  intros Hwf Henv Hk. unfold mk_index. set (k' := if k <? 0 then k + ewidth e else k).
  assert (0 <= k' < ewidth e) by (unfold k'; destruct (k <? 0) eqn:E; lia).
  split.
  - simpl. rewrite Hwf. lia.
  - cbn [denote]. unfold bits_at. replace (k' + 1 - k') with 1 by lia. change (2 ^ 1) with 2.
    rewrite Z.testbit_spec' by lia. reflexivity.
Qed.

(* ---------- in-range array indexing ---------- *)
Lemma array_cases_spec en (elems : list expr) (w : Z) : 0 <= w -> forall i t, 0 <= i -> 0 <= t < 2 ^ w ->
  switch_of t (map (fun c => (fst c, denote en (snd c))) (array_cases w elems i)) =
  if (i <=? t) && (t <? i + Z.of_nat (length elems))
  then denote en (nth (Z.to_nat (t - i)) elems (EConst 0 (Sh 0 false))) else 0.
Proof.
  intros Hw. induction elems as [|x r IH]; intros i t Hi Ht.
  - simpl. destruct ((i <=? t) && (t <? i + 0)) eqn:E; [lia|reflexivity].
  - cbn [array_cases]. destruct (i <? 2 ^ w) eqn:Ei.
    + cbn [map fst snd switch_of case_sem existsb].
      destruct (bin_pattern_sem w i t Hw ltac:(lia) Ht) as [Hs _]. rewrite Hs, orb_false_r.
      destruct (t =? i) eqn:Et.
      * assert (t = i) by lia. subst t. replace (i - i) with 0 by lia. simpl length.
        replace ((i <=? i) && (i <? i + Z.of_nat (S (length r)))) with true by lia. reflexivity.
      * rewrite IH by lia. simpl length.
        destruct ((i + 1 <=? t) && (t <? i + 1 + Z.of_nat (length r))) eqn:E1.
        -- replace ((i <=? t) && (t <? i + Z.of_nat (S (length r)))) with true by lia.
           replace (Z.to_nat (t - i)) with (S (Z.to_nat (t - (i + 1)))) by lia. reflexivity.
        -- replace ((i <=? t) && (t <? i + Z.of_nat (S (length r)))) with false by lia. reflexivity.
    + cbn [map switch_of]. replace ((i <=? t) && (t <? i + Z.of_nat (length (x :: r)))) with false by lia. reflexivity.
Qed.

Theorem mk_array_spec en elems index : wf_expr index = true -> env_ok en index -> sgn (shape_of index) = false ->
  0 <= denote en index < Z.of_nat (length elems) ->
  denote en (mk_array elems index) = denote en (nth (Z.to_nat (denote en index)) elems (EConst 0 (Sh 0 false))).
Proof.
  intros Hwf Henv Hs Hin. destruct (shape_sound en index Hwf Henv) as [Hw Hr].
  pose proof (wf_width_nonneg _ Hw) as Hwn. unfold in_range in Hr. rewrite Hs in Hr.
  unfold mk_array. cbn [denote]. fold (ewidth index) in *.
  unfold ewidth in *. rewrite Z.mod_small by lia.
  rewrite (array_cases_spec en elems (width (shape_of index)) Hwn 0 (denote en index)) by lia.
  replace ((0 <=? denote en index) && (denote en index <? 0 + Z.of_nat (length elems))) with true by lia.
  rewrite Z.sub_0_r. reflexivity.
Qed.

(* ---------- rotations ---------- *)
Lemma testbit_bits_at d off w i : 0 <= off -> 0 <= w -> 0 <= i ->
  Z.testbit (bits_at d off w) i = (i <? w) && Z.testbit d (i + off).
Proof.
  intros Ho Hw Hi. unfold bits_at. rewrite Z.testbit_mod_pow2 by auto.
  destruct (i <? w); simpl; auto. apply testbit_div_pow2; auto.
Qed.

Lemma rot_cat_bits en e k i : wf_expr e = true -> env_ok en e -> 0 <= k <= ewidth e -> 0 <= i < ewidth e ->
  Z.testbit (denote en (ECat [ESlice e k (ewidth e); ESlice e 0 k])) i =
  Z.testbit (denote en e) (if i <? ewidth e - k then i + k else i + k - ewidth e).
Proof.
  intros Hwf Henv Hk Hi. set (len := ewidth e) in *.
  cbn [denote map]. unfold ewidth at 1 2. cbn [shape_of width].
  assert (Hnn : 0 <= cat_of [(bits_at (denote en e) 0 (k - 0), k - 0)]).
  { apply cat_of_nonneg. repeat constructor; simpl; lia. }
  rewrite testbit_cat_of by (auto; lia).
  destruct (i <? len - k) eqn:E.
  - rewrite testbit_bits_at by lia. rewrite E. reflexivity.
  - rewrite testbit_cat_of by (simpl; lia). replace (i - (len - k) <? k - 0) with true by lia.
    rewrite testbit_bits_at by lia. replace (i - (len - k) <? k - 0) with true by lia. simpl. f_equal. lia.
Qed.

(* e.rotate_left(n): bit i of the result is bit (i - n) mod len of e's bit pattern; any integer amount *)
Theorem mk_rotate_left_spec en e n i : wf_expr e = true -> env_ok en e -> 0 <= i < ewidth e ->
  wf_expr (mk_rotate_left e n) = true /\
  Z.testbit (denote en (mk_rotate_left e n)) i = Z.testbit (denote en e) ((i - n) mod ewidth e).
Proof.
  intros Hwf Henv Hi. unfold mk_rotate_left. set (len := ewidth e) in *.
  replace (len =? 0) with false by lia. set (a := n mod len).
  pose proof (Z.mod_pos_bound n len ltac:(lia)) as Ha. fold a in Ha.
  set (k := norm_index len (- a)).
  assert (Hk : 0 <= k <= len /\ k = (- n) mod len).
  { unfold k, norm_index. destruct (- a <? 0) eqn:E.
    - split; [lia|]. replace (Z.max 0 (- a + len)) with (len - a) by lia.
      unfold a. apply (Z.mod_unique_pos _ _ (- (n / len) - 1)); [lia|].
      pose proof (Z.div_mod n len ltac:(lia)). lia.
    - assert (a = 0) by lia. split; [lia|]. replace (Z.min len (- a)) with 0 by lia.
      symmetry. apply Z.mod_opp_l_z; [lia|]. unfold a in *; lia. }
  destruct Hk as [Hkr Hkeq]. split.
  - simpl. rewrite Hwf. fold len. simpl. replace (0 <=? k) with true by lia.
    replace (k <=? len) with true by lia. replace (len <=? len) with true by lia.
    replace (0 <=? 0) with true by lia. reflexivity.
  - change (Z.testbit (denote en (ECat [ESlice e k (ewidth e); ESlice e 0 k])) i = Z.testbit (denote en e) ((i - n) mod len)).
    rewrite (rot_cat_bits en e k i Hwf Henv) by (fold len; lia). fold len. f_equal.
    replace ((i - n) mod len) with ((i + k) mod len).
    + destruct (i <? len - k) eqn:E.
      * symmetry; apply Z.mod_small; lia.
      * apply (Z.mod_unique_pos _ _ 1); lia.
    + rewrite Hkeq. rewrite Z.add_mod_idemp_r by lia. f_equal; lia.
Qed.

Theorem mk_rotate_right_spec en e n i : wf_expr e = true -> env_ok en e -> 0 <= i < ewidth e ->
  wf_expr (mk_rotate_right e n) = true /\
  Z.testbit (denote en (mk_rotate_right e n)) i = Z.testbit (denote en e) ((i + n) mod ewidth e).
Proof.
  intros Hwf Henv Hi. unfold mk_rotate_right. set (len := ewidth e) in *.
  replace (len =? 0) with false by lia. set (a := n mod len).
  pose proof (Z.mod_pos_bound n len ltac:(lia)) as Ha. fold a in Ha.
  assert (norm_index len a = a) as -> by (unfold norm_index; replace (a <? 0) with false by lia; lia).
  split.
  - simpl. rewrite Hwf. fold len. simpl. replace (0 <=? a) with true by lia.
    replace (a <=? len) with true by lia. replace (len <=? len) with true by lia.
    replace (0 <=? 0) with true by lia. reflexivity.
  - change (Z.testbit (denote en (ECat [ESlice e a (ewidth e); ESlice e 0 a])) i = Z.testbit (denote en e) ((i + n) mod len)).
    rewrite (rot_cat_bits en e a i Hwf Henv) by (fold len; lia). fold len. f_equal.
    replace ((i + n) mod len) with ((i + a) mod len) by (unfold a; rewrite Z.add_mod_idemp_r by lia; reflexivity).
    destruct (i <? len - a) eqn:E.
    + symmetry; apply Z.mod_small; lia.
    + apply (Z.mod_unique_pos _ _ 1); lia.
Qed.

(* ---------- matches ---------- *)
Lemma const_auto_spec en v : wf_expr (mk_const_auto v) = true /\ denote en (mk_const_auto v) = v.
Proof.
  unfold mk_const_auto. split; [simpl; apply const_shape_wf|].
  simpl. apply norm_id; [apply const_shape_wf|apply const_shape_fits].
Qed.

Lemma mk_match1_spec en e p : wf_expr e = true -> env_ok en e -> Z.of_nat (length p) = ewidth e ->
  wf_expr (mk_match1 e p) = true /\ env_ok en (mk_match1 e p) /\ ewidth (mk_match1 e p) = 1 /\
  denote en (mk_match1 e p) = b2z (pat_sem p (denote en e mod 2 ^ ewidth e)).
Proof.
  intros Hwf Henv Hlen. destruct (shape_sound en e Hwf Henv) as [Hw _]. pose proof (wf_width_nonneg _ Hw) as Hwn.
  destruct (const_auto_spec en (pat_mask p)) as [Hm1 Hm2]. destruct (const_auto_spec en (pat_value p)) as [Hv1 Hv2].
  unfold mk_match1. split; [|split; [|split]].
  - simpl. rewrite Hwf. simpl. unfold mk_const_auto in *. simpl in *. rewrite Hm1, Hv1. reflexivity.
  - simpl. tauto.
  - reflexivity.
  - cbn [denote den_op2]. rewrite Hm2, Hv2.
    rewrite <- (pat_match_sem p (denote en e mod 2 ^ ewidth e))
      by (rewrite Hlen; apply Z.mod_pos_bound, pow2_pos; auto).
    unfold pat_match. pose proof (pat_mask_range p) as Hr. rewrite Hlen in Hr.
    rewrite (Z.land_comm (denote en e)). rewrite (land_mask_low (pat_mask p) (denote en e) (ewidth e)) by auto.
    rewrite Z.eqb_sym. reflexivity.
Qed.

Lemma cat_one_bits_zero en (l : list expr) : Forall (fun t => ewidth t = 1) l ->
  (cat_of (map (fun p => (denote en p, ewidth p)) l) =? 0) = forallb (fun t => denote en t mod 2 =? 0) l.
Proof.
  induction l as [|t l IH]; intros HF; [reflexivity|].
  pose proof (Forall_inv HF) as H0; pose proof (Forall_inv_tail HF) as HF'. cbv beta in H0.
  simpl map. cbn [cat_of forallb]. rewrite H0. change (2 ^ 1) with 2.
  assert (Hnn : 0 <= cat_of (map (fun p => (denote en p, ewidth p)) l)).
  { apply cat_of_nonneg. apply Forall_forall. intros [v w] Hin. apply in_map_iff in Hin.
    destruct Hin as (p & Heq & Hp). injection Heq as _ <-. simpl. rewrite Forall_forall in HF'. rewrite (HF' p Hp). lia. }
  rewrite <- IH by auto. pose proof (Z.mod_pos_bound (denote en t) 2 ltac:(lia)).
  destruct (denote en t mod 2 =? 0) eqn:E1; destruct (cat_of (map (fun p => (denote en p, ewidth p)) l) =? 0) eqn:E2; lia.
Qed.

(* e.matches(p1, ..., pn) on normalised patterns = "some pattern matches e's bit pattern" *)
Theorem mk_matches_spec en e ps : wf_expr e = true -> env_ok en e ->
  Forall (fun p => Z.of_nat (length p) = ewidth e) ps ->
  wf_expr (mk_matches e ps) = true /\
  denote en (mk_matches e ps) = b2z (existsb (fun p => pat_sem p (denote en e mod 2 ^ ewidth e)) ps).
Proof.
  intros Hwf Henv HF. unfold mk_matches. destruct ps as [|p [|q r]].
  - split; reflexivity.
  - destruct (mk_match1_spec en e p Hwf Henv (Forall_inv HF)) as (H1 & _ & _ & H4).
    split; [exact H1|]. rewrite H4. simpl. rewrite orb_false_r. reflexivity.
  - set (l := p :: q :: r) in *. clearbody l.
    assert (Hall : forall x, In x l -> wf_expr (mk_match1 e x) = true /\ env_ok en (mk_match1 e x) /\
                      ewidth (mk_match1 e x) = 1 /\
                      denote en (mk_match1 e x) = b2z (pat_sem x (denote en e mod 2 ^ ewidth e))).
    { intros x Hx. apply mk_match1_spec; auto. rewrite Forall_forall in HF; auto. }
    split.
    + assert (Hf : forallb wf_expr (map (mk_match1 e) l) = true).
      { apply forallb_forall. intros y Hy. apply in_map_iff in Hy. destruct Hy as (x & <- & Hx). apply Hall; auto. }
      cbn [wf_expr]. rewrite Hf. reflexivity.
    + cbn [denote den_op1]. rewrite cat_one_bits_zero.
      * f_equal.
        assert (Hx : forall l', (forall x, In x l' -> denote en (mk_match1 e x) = b2z (pat_sem x (denote en e mod 2 ^ ewidth e))) ->
                  negb (forallb (fun t => denote en t mod 2 =? 0) (map (mk_match1 e) l')) =
                  existsb (fun p => pat_sem p (denote en e mod 2 ^ ewidth e)) l').
        { induction l' as [|x l' IHl]; intros Hd; [reflexivity|].
          cbn [map forallb existsb]. rewrite (Hd x (or_introl eq_refl)).
          rewrite negb_andb, IHl by (intros y Hy; apply Hd; right; auto).
          destruct (pat_sem x (denote en e mod 2 ^ ewidth e)); reflexivity. }
        apply Hx. intros x Hx'. apply Hall; auto.
      * apply Forall_forall. intros y Hy. apply in_map_iff in Hy. destruct Hy as (x & <- & Hx). apply Hall; auto.
Qed.

(* ---------- replicate ---------- *)
Theorem mk_replicate_spec en e count i : wf_expr e = true -> env_ok en e -> 0 < ewidth e ->
  0 <= i < Z.of_nat count * ewidth e ->
  wf_expr (mk_replicate e count) = true /\
  Z.testbit (denote en (mk_replicate e count)) i = Z.testbit (denote en e) (i mod ewidth e).
Proof.
  intros Hwf Henv Hw Hi. unfold mk_replicate. split.
  - simpl. apply forallb_forall. intros x Hx. apply repeat_spec in Hx. subst; auto.
  - cbn [denote]. revert i Hi. induction count as [|c IH]; intros i Hi; [lia|].
    simpl repeat. simpl map.
    assert (Hnn : 0 <= cat_of (map (fun p => (denote en p, ewidth p)) (repeat e c))).
    { apply cat_of_nonneg. apply Forall_forall. intros [v w] Hin. apply in_map_iff in Hin.
      destruct Hin as (p & Heq & Hp). injection Heq as _ <-. apply repeat_spec in Hp. subst. simpl. lia. }
    rewrite testbit_cat_of by (auto; lia).
    destruct (i <? ewidth e) eqn:E.
    + rewrite Z.mod_small by lia. reflexivity.
    + rewrite IH by lia. f_equal.
      replace i with ((i - ewidth e) + 1 * ewidth e) at 2 by lia. rewrite Z.mod_add by lia. reflexivity.
Qed.

(* ---------- bit_select / word_select: folding a constant offset into a slice does not change the value ---------- *)
Lemma const_of_denote en off v : const_of off = Some v -> denote en off = v.
Proof. destruct off; try discriminate. cbn. congruence. Qed.

Lemma const_unsigned_nonneg off v : const_of off = Some v -> wf_expr off = true -> sgn (shape_of off) = false -> 0 <= v.
Proof.
  destruct off as [c s| | | | | | |]; try discriminate. cbn. intros H Hwf Hs. injection H as <-.
  unfold norm. rewrite Hs. unfold mask. apply Z.mod_pos_bound. apply pow2_pos. apply wf_width_nonneg. exact Hwf.
Qed.

Theorem mk_bit_select_spec en e off w r : wf_expr e = true -> wf_expr off = true -> sgn (shape_of off) = false ->
  env_ok en e -> 0 <= w -> mk_bit_select e off w = Some r ->
  wf_expr r = true /\ shape_of r = Sh w false /\ denote en r = denote en (EPart e off w 1).
Proof.
  intros Hwf Hwo Hso Henv Hw H. destruct (shape_sound en e Hwf Henv) as [Hws _].
  pose proof (wf_width_nonneg _ Hws) as Hlen. fold (ewidth e) in Hlen.
  unfold mk_bit_select in H. destruct (const_of off) as [v|] eqn:Hc.
  - pose proof (const_unsigned_nonneg _ _ Hc Hwo Hso) as Hv.
    destruct (v + w <=? ewidth e) eqn:Efit.
    + unfold mk_getitem_key, py_key_indices in H. cbn [kstep kstart kstop] in H. cbn [Z.eqb Z.ltb Z.compare] in H.
      unfold py_adjust in H. replace (v <? 0) with false in H by lia. replace (v + w <? 0) with false in H by lia.
      replace (Z.min v (ewidth e)) with v in H by lia. replace (Z.min (v + w) (ewidth e)) with (v + w) in H by lia.
      injection H as <-. split; [|split].
      * cbn [wf_expr]. rewrite Hwf. lia.
      * cbn [shape_of]. f_equal. lia.
      * cbn [denote]. rewrite (const_of_denote en _ _ Hc). f_equal; lia.
    + injection H as <-. split; [|split]; try reflexivity. cbn [wf_expr]. rewrite Hwf, Hwo, Hso. cbn. lia.
  - injection H as <-. split; [|split]; try reflexivity. cbn [wf_expr]. rewrite Hwf, Hwo, Hso. cbn. lia.
Qed.

Theorem mk_word_select_spec en e off w r : wf_expr e = true -> wf_expr off = true -> sgn (shape_of off) = false ->
  env_ok en e -> 1 <= w -> mk_word_select e off w = Some r ->
  wf_expr r = true /\ shape_of r = Sh w false /\ denote en r = denote en (EPart e off w w).
Proof.
  intros Hwf Hwo Hso Henv Hw H. destruct (shape_sound en e Hwf Henv) as [Hws _].
  pose proof (wf_width_nonneg _ Hws) as Hlen. fold (ewidth e) in Hlen.
  unfold mk_word_select in H. destruct (const_of off) as [v|] eqn:Hc.
  - pose proof (const_unsigned_nonneg _ _ Hc Hwo Hso) as Hv.
    destruct ((v + 1) * w <=? ewidth e) eqn:Efit.
    + unfold mk_getitem_key, py_key_indices in H. cbn [kstep kstart kstop] in H. cbn [Z.eqb Z.ltb Z.compare] in H.
      unfold py_adjust in H. assert (0 <= v * w) by nia. assert ((v + 1) * w = v * w + w) as Hvw by ring.
      replace (v * w <? 0) with false in H by lia. replace ((v + 1) * w <? 0) with false in H by lia.
      replace (Z.min (v * w) (ewidth e)) with (v * w) in H by lia.
      replace (Z.min ((v + 1) * w) (ewidth e)) with ((v + 1) * w) in H by lia.
      injection H as <-. split; [|split].
      * cbn [wf_expr]. rewrite Hwf. lia.
      * cbn [shape_of]. f_equal. lia.
      * cbn [denote]. rewrite (const_of_denote en _ _ Hc). f_equal; lia.
    + injection H as <-. split; [|split]; try reflexivity. cbn [wf_expr]. rewrite Hwf, Hwo, Hso. cbn. lia.
  - injection H as <-. split; [|split]; try reflexivity. cbn [wf_expr]. rewrite Hwf, Hwo, Hso. cbn. lia.
Qed.

(* ---------- stepped slices: value[start:stop:step] picks bit start + j*step as bit j ---------- *)
Lemma step_slice_bits en e s : forall n a j, (forall k, 0 <= k < Z.of_nat n -> 0 <= a + k * s) -> 0 <= j < Z.of_nat n ->
  Z.testbit (denote en (mk_step_slice e a s n)) j = Z.testbit (denote en e) (a + j * s).
Proof.
  unfold mk_step_slice. induction n as [|n IH]; intros a j Hk Hj; [lia|].
  cbn [mk_step_slice_n]. cbn [denote map]. fold (denote en).
  cbn [denote cat_of]. unfold ewidth at 1. cbn [shape_of width]. replace (a + 1 - a) with 1 by lia.
  change (2 ^ 1) with 2. unfold bits_at. change (2 ^ 1) with 2. rewrite Z.mod_mod by lia.
  pose proof (Hk 0 ltac:(lia)) as Ha. rewrite Z.mul_0_l, Z.add_0_r in Ha.
  rewrite <- (Z.testbit_spec' (denote en e) a Ha).
  set (R := cat_of _). rewrite (Z.add_comm (Z.b2z _)).
  replace (2 ^ ewidth (ESlice e a (a + 1))) with 2 by (unfold ewidth; cbn [shape_of width]; replace (a + 1 - a) with 1 by lia; reflexivity).
  destruct (Z.eq_dec j 0) as [->|Hj0].
  - rewrite Z.testbit_0_r. rewrite Z.mul_0_l, Z.add_0_r. reflexivity.
  - replace j with (Z.succ (j - 1)) at 1 by lia. rewrite Z.testbit_succ_r by lia.
    unfold R. transitivity (Z.testbit (denote en (ECat (mk_step_slice_n e (a + s) s n))) (j - 1)); [reflexivity|].
    rewrite (IH (a + s) (j - 1)).
    + f_equal. ring.
    + intros k Hk'. specialize (Hk (k + 1) ltac:(lia)). replace (a + s + k * s) with (a + (k + 1) * s) by ring. exact Hk.
    + lia.
Qed.

(* ---------- matches() on raw patterns ---------- *)
Definition npat_sem (w d : Z) (p : npat) : bool :=
  match p with NStr p => pat_sem p (d mod 2 ^ w) | NInt v => d =? v end.
Definition npat_ok (sh : shape) (p : npat) : Prop :=
  match p with NStr p => Z.of_nat (length p) = width sh | NInt _ => True end.

Lemma mk_any_spec en l :
  (forall m, In m l -> wf_expr m = true /\ ewidth m = 1 /\ exists b, denote en m = b2z b) ->
  wf_expr (mk_any l) = true /\ denote en (mk_any l) = b2z (existsb (fun m => denote en m =? 1) l).
Proof.
  intros H. destruct l as [|p [|q r]].
  - split; reflexivity.
  - destruct (H p (or_introl eq_refl)) as (Hw & _ & b & Hb). split; [exact Hw|].
    cbn [mk_any existsb]. rewrite Hb. destruct b; reflexivity.
  - set (l := p :: q :: r) in *. change (mk_any l) with (EOp1 ORor (ECat l)). clearbody l. split.
    + cbn [wf_expr]. rewrite andb_true_r. apply forallb_forall. intros m Hm. apply H; auto.
    + cbn [denote den_op1]. rewrite cat_one_bits_zero.
      * f_equal. clear -H. induction l as [|x l IH]; [reflexivity|].
        cbn [forallb existsb]. rewrite negb_andb, IH by (intros m Hm; apply H; right; auto).
        destruct (H x (or_introl eq_refl)) as (_ & _ & b & Hb). rewrite Hb. destruct b; reflexivity.
      * apply Forall_forall. intros m Hm. apply H; auto.
Qed.

Lemma mk_match1n_spec en e p : wf_expr e = true -> env_ok en e -> npat_ok (shape_of e) p ->
  wf_expr (mk_match1n e p) = true /\ ewidth (mk_match1n e p) = 1 /\
  denote en (mk_match1n e p) = b2z (npat_sem (ewidth e) (denote en e) p).
Proof.
  intros Hwf Henv Hok. destruct p as [p|v].
  - destruct (mk_match1_spec en e p Hwf Henv Hok) as (H1 & _ & H3 & H4). auto.
  - destruct (const_auto_spec en v) as [Hc Hd]. split; [|split].
    + cbn [mk_match1n wf_expr]. rewrite Hwf, Hc. reflexivity.
    + reflexivity.
    + cbn [mk_match1n denote den_op2]. rewrite Hd. reflexivity.
Qed.

(* e.matches(p1, ..., pn) after normalisation: 1 iff some string pattern matches e's bit pattern or some integer
   pattern equals e's value *)
Theorem mk_matches_n_spec en e ps : wf_expr e = true -> env_ok en e -> Forall (npat_ok (shape_of e)) ps ->
  wf_expr (mk_matches_n e ps) = true /\
  denote en (mk_matches_n e ps) = b2z (existsb (npat_sem (ewidth e) (denote en e)) ps).
Proof.
  intros Hwf Henv HF. unfold mk_matches_n.
  destruct (mk_any_spec en (map (mk_match1n e) ps)) as [H1 H2].
  - intros m Hm. apply in_map_iff in Hm. destruct Hm as (p & <- & Hp).
    rewrite Forall_forall in HF. destruct (mk_match1n_spec en e p Hwf Henv (HF p Hp)) as (A & B & C).
    split; [exact A|split; [exact B|]]. eexists; exact C.
  - split; [exact H1|]. rewrite H2. f_equal.
    clear H1 H2. induction ps as [|p ps IH]; [reflexivity|]. cbn [map existsb].
    rewrite IH by (inversion HF; auto). f_equal.
    destruct (mk_match1n_spec en e p Hwf Henv (Forall_inv HF)) as (_ & _ & C). rewrite C.
    destruct (npat_sem (ewidth e) (denote en e) p); reflexivity.
Qed.

(* what _normalize_patterns lets through is well-sized (strings) *)
Lemma normalize_patterns_ok sh : forall ps l, normalize_patterns sh ps = Some l -> Forall (npat_ok sh) l.
Proof.
  induction ps as [|p ps IH]; intros l H; cbn [normalize_patterns] in H.
  - injection H as <-. constructor.
  - destruct (normalize_pattern sh p) as [o|] eqn:Ep; [|discriminate].
    destruct (normalize_patterns sh ps) as [l'|]; [|discriminate]. injection H as <-.
    specialize (IH l' eq_refl). destruct o as [n|]; [|exact IH]. constructor; [|exact IH].
    destruct p as [s|v]; cbn [normalize_pattern] in Ep.
    + destruct (existsb _ s); [discriminate|].
      destruct (Z.of_nat (length (pchar_strip s)) =? width sh) eqn:El; cbn [negb] in Ep; [|discriminate].
      injection Ep as <-. cbn [npat_ok]. unfold pat_of_chars. rewrite map_length. lia.
    + destruct (const_norm sh v =? v); cbn [negb] in Ep; [|discriminate]. injection Ep as <-. exact I.
Qed.

Theorem mk_matches_raw_spec en e raw r : wf_expr e = true -> env_ok en e -> mk_matches_raw e raw = Some r ->
  exists ps, normalize_patterns (shape_of e) raw = Some ps /\ wf_expr r = true /\
             denote en r = b2z (existsb (npat_sem (ewidth e) (denote en e)) ps).
Proof.
  intros Hwf Henv H. unfold mk_matches_raw in H. destruct (normalize_patterns (shape_of e) raw) as [ps|] eqn:En; [|discriminate].
  injection H as <-. exists ps. split; [reflexivity|].
  apply mk_matches_n_spec; auto. apply (normalize_patterns_ok _ _ _ En).
Qed.
(* ================= appended after the coverage audit ================= *)
(* ---------- exception classes: build_err is 0 exactly on the well-formed expressions ---------- *)
Lemma first_err_cons c l : first_err (c :: l) = 0 <-> c = 0 /\ first_err l = 0.
Proof. unfold first_err. cbn [fold_right]. destruct (c =? 0) eqn:E; split; intros; lia. Qed.

Lemma first_err_app l1 l2 : first_err (l1 ++ l2) = 0 <-> first_err l1 = 0 /\ first_err l2 = 0.
Proof.
  induction l1 as [|c l1 IH]; [cbn; tauto|].
  rewrite <- app_comm_cons, !first_err_cons, IH. tauto.
Qed.

Lemma first_err_nil : first_err [] = 0.
Proof. reflexivity. Qed.

Lemma build_err_wf e : build_err e = 0 <-> wf_expr e = true.
Proof.
  induction e as [v s|i s|o a IHa|o a b IHa IHb|a lo hi IHa|a off w st IHa IHoff|l IH|t cs IHt IHcs] using expr_ind'.
  - cbn. destruct (wf_shape s); split; intros; congruence.
  - cbn. destruct (wf_shape s); split; intros; congruence.
  - cbn [build_err wf_expr]. rewrite !first_err_cons, andb_true_iff, IHa.
    assert (Hx : match o with OS => if 0 <? ewidth a then 0 else 2 | _ => 0 end = 0 <->
                 match o with OS => 0 <? ewidth a | _ => true end = true).
    { destruct o; try tauto. destruct (0 <? ewidth a); split; intros; try reflexivity; try lia; discriminate. }
    rewrite Hx. pose proof first_err_nil. tauto.
  - cbn [build_err wf_expr]. rewrite !first_err_cons, !andb_true_iff, IHa, IHb.
    assert (Hx : match o with OShl | OShr => if sgn (shape_of b) then 1 else 0 | _ => 0 end = 0 <->
                 match o with OShl | OShr => negb (sgn (shape_of b)) | _ => true end = true).
    { destruct o; try tauto; destruct (sgn (shape_of b)); cbn [negb]; split; intros; try reflexivity; try lia; discriminate. }
    rewrite Hx. pose proof first_err_nil. tauto.
  - cbn [build_err wf_expr]. rewrite !first_err_cons, IHa.
    destruct ((0 <=? lo) && (lo <=? hi) && (hi <=? ewidth a)) eqn:E.
    + split; [intros [Ha _]|intros H]. { rewrite Ha. lia. } { split; [|auto using first_err_nil]. lia. }
    + split; [intros (_ & ? & _); lia|intros H; lia].
  - cbn [build_err wf_expr]. rewrite !first_err_cons, IHa, IHoff.
    destruct (negb (sgn (shape_of off)) && (0 <=? w) && (1 <=? st)) eqn:E.
    + split; [intros (Ha & Ho & _)|intros H]. { rewrite Ha, Ho. lia. } { repeat split; auto using first_err_nil; lia. }
    + split; [intros (_ & _ & ? & _); lia|intros H; lia].
  - cbn [build_err wf_expr]. induction IH as [|x l Hx HF IHl]; [cbn; tauto|].
    cbn [map forallb]. rewrite first_err_cons, andb_true_iff, Hx, IHl. tauto.
  - cbn [build_err wf_expr]. rewrite first_err_cons, first_err_app, first_err_cons, andb_true_iff, IHt.
    assert (Hsplit : forallb (fun c => wf_expr (snd c) && match fst c with None => true | Some ps => forallb (pattern_ok (ewidth t)) ps end) cs
                     = forallb (fun c => wf_expr (snd c)) cs && forallb (case_patterns_ok (ewidth t)) cs).
    { clear. induction cs as [|c cs IH]; [reflexivity|]. cbn [forallb]. rewrite IH. unfold case_patterns_ok.
      destruct (wf_expr (snd c)), (match fst c with None => true | Some ps => forallb (pattern_ok (ewidth t)) ps end),
        (forallb (fun c0 => wf_expr (snd c0)) cs); reflexivity. }
    rewrite Hsplit, andb_true_iff.
    assert (Hel : first_err (map (fun c => build_err (snd c)) cs) = 0 <-> forallb (fun c => wf_expr (snd c)) cs = true).
    { clear - IHcs. induction IHcs as [|x l Hx HF IHl]; [cbn; tauto|].
      cbn [map forallb]. rewrite first_err_cons, andb_true_iff, Hx, IHl. tauto. }
    rewrite Hel. destruct (forallb (case_patterns_ok (ewidth t)) cs); split.
    + intros (? & ? & _); auto.
    + intros (? & ? & _); auto using first_err_nil.
    + intros (_ & _ & ? & _); lia.
    + intros (_ & _ & ?); discriminate.
Qed.

(* ---------- Array indexing with any index shape and any number of elements ---------- *)
Lemma array_cases_raw_unsigned w elems : 0 <= w -> forall i, 0 <= i ->
  array_cases_raw (Sh w false) elems i = array_cases w elems i.
Proof.
  intros Hw. induction elems as [|x r IH]; intros i Hi; [reflexivity|].
  cbn [array_cases_raw array_cases width]. destruct (i <? 2 ^ w) eqn:E; [|reflexivity].
  rewrite IH by lia. unfold int_case_patterns.
  rewrite const_norm_spec by (unfold wf_shape; cbn; lia). cbn [norm sgn width]. unfold mask.
  rewrite Z.mod_small by lia. rewrite Z.eqb_refl. reflexivity.
Qed.

(* with an unsigned index the general construction is the one of C01_array_spec *)
Theorem mk_array_raw_unsigned elems index : wf_shape (shape_of index) = true -> sgn (shape_of index) = false ->
  mk_array_raw elems index = mk_array elems index.
Proof.
  intros Hwf Hs. unfold mk_array_raw, mk_array, ewidth. destruct (shape_of index) as [w sg] eqn:E. cbn in Hs. subst sg.
  cbn [width]. rewrite array_cases_raw_unsigned; [reflexivity| |lia]. unfold wf_shape in Hwf. cbn in Hwf. lia.
Qed.

Definition reach (sh : shape) (k : Z) : bool := const_norm sh k =? k.

Lemma array_cases_raw_spec en sh (elems : list expr) : wf_shape sh = true -> forall i t, 0 <= i -> 0 <= t < 2 ^ width sh ->
  switch_of t (map (fun c => (fst c, denote en (snd c))) (array_cases_raw sh elems i)) =
  if (i <=? t) && (t <? i + Z.of_nat (length elems)) && reach sh t
  then denote en (nth (Z.to_nat (t - i)) elems (EConst 0 (Sh 0 false))) else 0.
Proof.
  intros Hwf. pose proof (wf_width_nonneg _ Hwf) as Hw.
  induction elems as [|x r IH]; intros i t Hi Ht.
  - simpl. destruct ((i <=? t) && (t <? i + 0)) eqn:E; [lia|reflexivity].
  - cbn [array_cases_raw]. destruct (i <? 2 ^ width sh) eqn:Ei.
    + cbn [map fst snd switch_of case_sem]. unfold int_case_patterns. fold (reach sh i).
      destruct (bin_pattern_sem (width sh) i t Hw ltac:(lia) Ht) as [Hs _].
      assert (Hcase : existsb (fun p => pat_sem p t) (if reach sh i then [bin_pattern (width sh) i] else []) = (t =? i) && reach sh i).
      { destruct (reach sh i); cbn [existsb]; rewrite ?Hs; destruct (t =? i); reflexivity. }
      rewrite Hcase. destruct (t =? i) eqn:Et.
      * assert (t = i) by lia. subst t. cbn [andb length]. destruct (reach sh i) eqn:Er.
        -- replace (i - i) with 0 by lia. replace ((i <=? i) && (i <? i + Z.of_nat (S (length r)))) with true by lia. reflexivity.
        -- rewrite IH by lia. replace ((i + 1 <=? i) && (i <? i + 1 + Z.of_nat (length r))) with false by lia.
           rewrite andb_false_r. reflexivity.
      * cbn [andb]. rewrite IH by lia. cbn [length].
        destruct ((i + 1 <=? t) && (t <? i + 1 + Z.of_nat (length r))) eqn:E1.
        -- replace ((i <=? t) && (t <? i + Z.of_nat (S (length r)))) with true by lia.
           replace (Z.to_nat (t - i)) with (S (Z.to_nat (t - (i + 1)))) by lia. reflexivity.
        -- replace ((i <=? t) && (t <? i + Z.of_nat (S (length r)))) with false by lia. reflexivity.
    + cbn [map switch_of]. replace ((i <=? t) && (t <? i + Z.of_nat (length (x :: r)))) with false by lia. reflexivity.
Qed.

(* which bit patterns of the index are matched by some integer key: exactly the non-negative index values *)
Lemma reach_index sh d : wf_shape sh = true -> in_range sh d ->
  reach sh (d mod 2 ^ width sh) = (0 <=? d) /\ (0 <= d -> d mod 2 ^ width sh = d).
Proof.
  intros Hwf Hr. pose proof (wf_width_nonneg _ Hwf) as Hw. pose proof (pow2_pos _ Hw) as Hp.
  unfold reach. rewrite const_norm_spec by auto. unfold norm, in_range, wf_shape in *.
  pose proof (Z.mod_pos_bound d (2 ^ width sh) Hp) as Hm.
  destruct (sgn sh).
  - pose proof (pow2_split (width sh) ltac:(lia)) as Hsp. pose proof (pow2_pos (width sh - 1) ltac:(lia)).
    unfold sext. rewrite Z.mod_mod by lia.
    destruct (Z_lt_le_dec d 0).
    + assert (d mod 2 ^ width sh = d + 2 ^ width sh) as -> by (symmetry; apply (Z.mod_unique_pos _ _ (-1)); lia).
      split; [|lia]. destruct (2 ^ (width sh - 1) <=? d + 2 ^ width sh) eqn:E; lia.
    + rewrite Z.mod_small by lia. split; [|lia]. destruct (2 ^ (width sh - 1) <=? d) eqn:E; lia.
  - unfold mask. rewrite Z.mod_mod by lia. rewrite Z.mod_small by lia. split; lia.
Qed.

(* Array(elems)[index] for an index of ANY shape and ANY number of elements: the element at the index when the index
   value is a position of the list, 0 otherwise (negative values of a signed index and positions past the end) *)
Theorem mk_array_raw_spec en elems index : wf_expr index = true -> env_ok en index ->
  denote en (mk_array_raw elems index) =
  if (0 <=? denote en index) && (denote en index <? Z.of_nat (length elems))
  then denote en (nth (Z.to_nat (denote en index)) elems (EConst 0 (Sh 0 false))) else 0.
Proof.
  intros Hwf Henv. destruct (shape_sound en index Hwf Henv) as [Hw Hr].
  pose proof (wf_width_nonneg _ Hw) as Hwn. pose proof (pow2_pos _ Hwn) as Hp.
  unfold mk_array_raw. cbn [denote]. unfold ewidth.
  rewrite (array_cases_raw_spec en (shape_of index) elems Hw 0 _ ltac:(lia) (Z.mod_pos_bound _ _ Hp)).
  destruct (reach_index _ _ Hw Hr) as [Hre Hid]. rewrite Hre.
  pose proof (Z.mod_pos_bound (denote en index) _ Hp) as Hm.
  destruct (0 <=? denote en index) eqn:E0.
  - rewrite Hid by lia. rewrite Z.sub_0_r, Z.add_0_l, andb_true_r, E0. reflexivity.
  - rewrite andb_false_r. reflexivity.
Qed.

(* the shape the proxy reports contains the shape of the value it converts to, and the two coincide when every
   element is addressable *)
Lemma array_cases_raw_all sh elems : forall i, i + Z.of_nat (length elems) <= 2 ^ width sh ->
  map snd (array_cases_raw sh elems i) = elems.
Proof.
  induction elems as [|x r IH]; intros i Hi; [reflexivity|].
  cbn [array_cases_raw]. cbn [length] in Hi. replace (i <? 2 ^ width sh) with true by lia.
  cbn [map snd]. rewrite IH by lia. reflexivity.
Qed.

Theorem array_proxy_shape_exact elems index : Z.of_nat (length elems) <= 2 ^ ewidth index ->
  shape_of (mk_array_raw elems index) = array_proxy_shape elems.
Proof.
  intros H. unfold mk_array_raw, array_proxy_shape. cbn [shape_of]. rewrite <- map_map.
  rewrite array_cases_raw_all by (unfold ewidth in H; lia). reflexivity.
Qed.

(* Value.replicate with a negative count is rejected, any other count is the replication of C01_replicate_spec *)
Lemma mk_replicate_z_spec e c : mk_replicate_z e c = if c <? 0 then None else Some (mk_replicate e (Z.to_nat c)).
Proof. reflexivity. Qed.

(* ---------- operands that are Python ints or enumeration members ---------- *)
(* Value.cast(v) = Const(v): a + v, v - a, v << a ... compute with the integer v itself *)
Theorem int_operand_spec en o e v : wf_expr e = true ->
  (match o with OShl | OShr => False | _ => True end) ->
  wf_expr (EOp2 o e (mk_const_auto v)) = true /\ wf_expr (EOp2 o (mk_const_auto v) e) = true /\
  denote en (EOp2 o e (mk_const_auto v)) = den_op2 o (denote en e) v /\
  denote en (EOp2 o (mk_const_auto v) e) = den_op2 o v (denote en e).
Proof.
  intros Hwf Ho. destruct (const_auto_spec en v) as [Hc Hd].
  repeat split; cbn [wf_expr denote]; rewrite ?Hwf, ?Hc, ?Hd; try reflexivity; destruct o; try reflexivity; contradiction.
Qed.

(* a shift by a Python int amount is accepted exactly when the amount is not negative; the other way round
   (int << value) exactly when the value is unsigned *)
Theorem int_shift_spec en o e v : wf_expr e = true -> (o = OShl \/ o = OShr) ->
  wf_expr (EOp2 o e (mk_const_auto v)) = (0 <=? v) /\
  wf_expr (EOp2 o (mk_const_auto v) e) = negb (sgn (shape_of e)) /\
  denote en (EOp2 o e (mk_const_auto v)) = den_op2 o (denote en e) v /\
  denote en (EOp2 o (mk_const_auto v) e) = den_op2 o v (denote en e).
Proof.
  intros Hwf Ho. destruct (const_auto_spec en v) as [Hc Hd].
  assert (Hs : negb (sgn (shape_of (mk_const_auto v))) = (0 <=? v)).
  { unfold mk_const_auto, const_shape. cbn. destruct (v <? 0) eqn:E; cbn; lia. }
  repeat split; cbn [wf_expr denote]; rewrite ?Hwf, ?Hc, ?Hd; try reflexivity;
    destruct Ho; subst o; cbn [andb]; auto.
Qed.

(* Value.cast(member) of an integer enumeration: a constant of the class's shape holding the member's value *)
Theorem enum_const_spec en ms v : In v ms ->
  wf_expr (mk_enum_const ms v) = true /\ denote en (mk_enum_const ms v) = v.
Proof.
  intros Hin. pose proof (cast_enum_represents ms v Hin) as Hr.
  assert (Hwf : wf_shape (cast_enum ms) = true).
  { rewrite cast_enum_is_unify. apply unify_wf. apply Forall_forall. intros s Hs. apply in_map_iff in Hs.
    destruct Hs as (x & <- & _). apply const_shape_wf. }
  split; [exact Hwf|]. cbn. apply norm_id; auto.
Qed.

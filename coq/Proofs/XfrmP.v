(* XfrmP.v — proofs about Model/Xfrm.v: per-bit frame properties of the domain processes, the engine step
   (a sync process runs only when its own edge_waker fires), resets, LHS mask chunks, control inserters. *)
From Coq Require Import ZArith List Bool Lia ZifyBool.
From V.Model Require Import Bits Shape Ast Denote PyRTL PyEval Stmt Process Xfrm.
From V.Proofs Require Import BitsP ShapeP ExprP StmtP.
Import ListNotations.
Open Scope Z_scope.

Ltac dfired := match goal with |- context [if fired ?c ?o ?n then _ else _] => destruct (fired c o n) eqn:?Ef end.

(* ================= bits of a masked slot update ================= *)
Lemma testbit_slot_update old v m b : 0 <= b ->
  Z.testbit (slot_update old v m) b = if Z.testbit m b then Z.testbit v b else Z.testbit old b.
Proof.
  intros Hb. unfold slot_update. rewrite Z.lor_spec, !Z.land_spec, Z.lnot_spec by lia.
  destruct (Z.testbit m b), (Z.testbit v b), (Z.testbit old b); reflexivity.
Qed.

Lemma slot_update_same old m : slot_update old old m = old.
Proof.
  apply Z.bits_inj'. intros b Hb. rewrite testbit_slot_update by lia. destruct (Z.testbit m b); reflexivity.
Qed.

Lemma slot_update_agree old v v' m :
  (forall b, 0 <= b -> Z.testbit m b = true -> Z.testbit v b = Z.testbit v' b) ->
  slot_update old v m = slot_update old v' m.
Proof.
  intros H. apply Z.bits_inj'. intros b Hb. rewrite !testbit_slot_update by lia.
  destruct (Z.testbit m b) eqn:E; auto.
Qed.

Lemma um_zero tab ss i b : stmts_mask ss i = 0 -> Z.testbit (um tab ss i) b = false.
Proof.
  intros H. unfold um, update_mask. rewrite H. rewrite Z.testbit_0_l. rewrite andb_false_r. apply Z.testbit_0_l.
Qed.

Lemma um_driven tab ss i b : Z.testbit (um tab ss i) b = true -> (stmts_mask ss i =? 0) = false.
Proof.
  intros H. destruct (stmts_mask ss i =? 0) eqn:E; auto. apply Z.eqb_eq in E.
  rewrite (um_zero tab ss i b E) in H. discriminate.
Qed.

(* ================= frame: a process only writes the bits of its own mask ================= *)
Lemma comb_frame tab ss st i b : 0 <= b -> Z.testbit (um tab ss i) b = false ->
  Z.testbit (s_next (comb_process tab ss st) i) b = Z.testbit (s_next st i) b.
Proof.
  intros Hb H. unfold comb_process; cbn [s_next]. destruct (stmts_mask ss i =? 0); auto.
  rewrite testbit_slot_update by lia. fold (um tab ss i). rewrite H. reflexivity.
Qed.

Lemma sync_frame tab ss rst st i b : 0 <= b -> Z.testbit (um tab ss i) b = false ->
  Z.testbit (s_next (sync_process tab ss rst st) i) b = Z.testbit (s_next st i) b.
Proof.
  intros Hb H. unfold sync_process; cbn [s_next]. destruct (stmts_mask ss i =? 0); auto.
  rewrite testbit_slot_update by lia. fold (um tab ss i). rewrite H. reflexivity.
Qed.

Lemma reset_only_frame tab ss st i b : 0 <= b -> Z.testbit (um tab ss i) b = false ->
  Z.testbit (s_next (reset_only tab ss st) i) b = Z.testbit (s_next st i) b.
Proof.
  intros Hb H. unfold reset_only; cbn [s_next]. destruct ((stmts_mask ss i =? 0) || sd_reset_less (tab i)); auto.
  rewrite testbit_slot_update by lia. fold (um tab ss i). rewrite H. reflexivity.
Qed.

Lemma comb_curr tab ss st : s_curr (comb_process tab ss st) = s_curr st.
Proof. reflexivity. Qed.
Lemma sync_curr tab ss rst st : s_curr (sync_process tab ss rst st) = s_curr st.
Proof. reflexivity. Qed.

(* a driven bit of a non-reset-less signal takes its initial value when the process runs with reset asserted *)
Lemma sync_reset_bit tab ss r st i b : 0 <= b ->
  Z.testbit (um tab ss i) b = true -> sd_reset_less (tab i) = false ->
  Z.land 1 (s_curr st r) <> 0 ->
  Z.testbit (s_next (sync_process tab ss (Some r) st) i) b = Z.testbit (sd_init (tab i)) b.
Proof.
  intros Hb Hd Hrl Hr. unfold sync_process; cbn [s_next].
  rewrite (um_driven _ _ _ _ Hd). rewrite testbit_slot_update by lia. fold (um tab ss i). rewrite Hd.
  rewrite Hrl. replace (Z.land 1 (s_curr st r) =? 0) with false by lia. reflexivity.
Qed.

(* reset-less signals: the reset block of the process skips them *)
Lemma reset_less_process tab ss r st i : sd_reset_less (tab i) = true ->
  s_next (sync_process tab ss (Some r) st) i = s_next (sync_process tab ss None st) i.
Proof.
  intros H. unfold sync_process; cbn [s_next]. rewrite H. rewrite !andb_false_r. reflexivity.
Qed.

(* ================= engine ================= *)
Lemma freeze_eq n en i : freeze n en i = en i.
Proof.
  unfold freeze. destruct (nth_error (map en (seq 0 n)) i) as [v|] eqn:E; auto.
  assert (Hlt : (i < length (map en (seq 0 n)))%nat) by (apply nth_error_Some; congruence).
  rewrite map_length, seq_length in Hlt.
  apply nth_error_nth with (d := en 0%nat) in E. rewrite map_nth in E. rewrite seq_nth in E by auto. simpl in E. auto.
Qed.

Lemma apply_writes_other e : forall cur i, ~ In i (map fst e) -> apply_writes e cur i = cur i.
Proof.
  unfold apply_writes. induction e as [|w e IH]; intros cur i H; simpl; auto.
  rewrite IH by (intro; apply H; simpl; auto). apply upd_other. intro; apply H; simpl; auto.
Qed.

Lemma fired_freeze c old n new : fired c old (freeze n new) = fired c old new.
Proof. unfold fired, clk_edge, rst_rise. destruct (d_rst c); rewrite ?freeze_eq; reflexivity. Qed.
Lemma clk_edge_freeze c old n new : clk_edge c old (freeze n new) = clk_edge c old new.
Proof. unfold clk_edge. rewrite ?freeze_eq; reflexivity. Qed.
Lemma rst_rise_freeze c old n new : rst_rise c old (freeze n new) = rst_rise c old new.
Proof. unfold rst_rise. destruct (d_rst c); rewrite ?freeze_eq; reflexivity. Qed.

Section Frame.
Variables (tab : sigtab) (doms : domtab).

(* the comb-only deltas leave alone every bit no comb process drives *)
Lemma eval_phase_comb_frame procs i b : 0 <= b ->
  (forall p, In p procs -> fst p = 0%nat -> Z.testbit (um tab (snd p) i) b = false) ->
  forall st, Z.testbit (s_next (eval_phase tab doms (fun _ => false) procs st) i) b = Z.testbit (s_next st i) b.
Proof.
  intros Hb. unfold eval_phase. induction procs as [|p procs IH]; intros H st; simpl; auto.
  rewrite IH by (intros; apply H; simpl; auto). unfold run_proc.
  destruct (Nat.eqb (fst p) 0) eqn:E; auto.
  apply comb_frame; auto. apply H; simpl; auto. apply Nat.eqb_eq; auto.
Qed.
End Frame.

Lemma settle_frame D i b : 0 <= b ->
  (forall p, In p (g_procs D) -> fst p = 0%nat -> Z.testbit (um (g_tab D) (snd p) i) b = false) ->
  forall fuel cur, Z.testbit (settle fuel D cur i) b = Z.testbit (cur i) b.
Proof.
  intros Hb H. induction fuel as [|k IH]; intros cur; simpl; auto.
  destruct (differs _ _ _).
  - rewrite IH, freeze_eq. rewrite eval_phase_comb_frame by auto. reflexivity.
  - rewrite freeze_eq. rewrite eval_phase_comb_frame by auto. reflexivity.
Qed.

(* the process function used in delta 2 *)
Definition delta2 (sp : sigtab -> list stmt -> domcfg -> env -> env -> slots -> slots)
  (D : design) (cur nx : env) (st : slots) (p : dom * list stmt) : slots :=
  if Nat.eqb (fst p) 0 then comb_process (g_tab D) (snd p) st
  else sp (g_tab D) (snd p) (g_doms D (fst p)) cur nx st.

Lemma step_with_unfold sp D e cur :
  step_with sp D e cur =
  let nx := freeze (g_nsig D) (apply_writes e cur) in
  settle (fuel_of D) D (freeze (g_nsig D)
    (s_next (fold_left (delta2 sp D cur nx) (g_procs D) {| s_curr := nx; s_next := nx |}))).
Proof. reflexivity. Qed.

Lemma delta2_curr sp D cur nx :
  (forall tab ss c st, s_curr (sp tab ss c cur nx st) = s_curr st) ->
  forall procs st, s_curr (fold_left (delta2 sp D cur nx) procs st) = s_curr st.
Proof.
  intros Hsp. induction procs as [|p procs IH]; intros st; simpl; auto.
  rewrite IH. unfold delta2. destruct (Nat.eqb (fst p) 0); auto.
Qed.

Lemma sync_code_curr tab ss c cur nx st : s_curr (sync_code tab ss c cur nx st) = s_curr st.
Proof. unfold sync_code. destruct (fired c cur nx); reflexivity. Qed.

(* ---------- C03 clause 1: a bit driven only from domain d changes only when d's waker fires ---------- *)
Definition only_dom (D : design) (d : dom) (i : nat) (b : Z) : Prop :=
  forall p, In p (g_procs D) -> Z.testbit (um (g_tab D) (snd p) i) b = true -> fst p = d.

Lemma delta2_unfired D cur nx d i b : 0 <= b -> d <> 0%nat ->
  (forall p, In p (g_procs D) -> Z.testbit (um (g_tab D) (snd p) i) b = true -> fst p = d) ->
  fired (g_doms D d) cur nx = false ->
  forall procs, incl procs (g_procs D) ->
  forall st, Z.testbit (s_next (fold_left (delta2 sync_code D cur nx) procs st) i) b = Z.testbit (s_next st i) b.
Proof.
  intros Hb Hd Honly Hnf. induction procs as [|p procs IH]; intros Hincl st; simpl; auto.
  rewrite IH by (intros q Hq; apply Hincl; simpl; auto).
  assert (Hin : In p (g_procs D)) by (apply Hincl; simpl; auto).
  unfold delta2. destruct (Z.testbit (um (g_tab D) (snd p) i) b) eqn:E.
  - pose proof (Honly p Hin E) as Hp. destruct (Nat.eqb (fst p) 0) eqn:E0.
    + apply Nat.eqb_eq in E0. congruence.
    + unfold sync_code. rewrite Hp, Hnf. reflexivity.
  - destruct (Nat.eqb (fst p) 0); [apply comb_frame; auto|].
    unfold sync_code. dfired; auto. apply sync_frame; auto.
Qed.

Theorem unfired_unchanged D e cur d i b : 0 <= b -> d <> 0%nat ->
  only_dom D d i b -> ~ In i (map fst e) ->
  fired (g_doms D d) cur (apply_writes e cur) = false ->
  Z.testbit (step D e cur i) b = Z.testbit (cur i) b.
Proof.
  intros Hb Hd Honly He Hnf. unfold step. rewrite step_with_unfold. cbv zeta.
  rewrite settle_frame; auto.
  2:{ intros p Hp H0. destruct (Z.testbit (um (g_tab D) (snd p) i) b) eqn:E; auto.
      apply Honly in E; auto. congruence. }
  rewrite freeze_eq. rewrite (delta2_unfired D cur _ d i b); auto.
  - cbn [s_next]. rewrite freeze_eq. rewrite apply_writes_other by auto. reflexivity.
  - rewrite fired_freeze. auto.
  - apply incl_refl.
Qed.

(* the full clause with resets: without an active clock edge the bit keeps its value, or (async reset rise)
   takes its initial value; reset-less signals of async domains are excluded (finding F7) *)
Lemma delta2_reset_or_keep D cur nx d r i b : 0 <= b -> d <> 0%nat ->
  (forall p, In p (g_procs D) -> Z.testbit (um (g_tab D) (snd p) i) b = true -> fst p = d) ->
  d_rst (g_doms D d) = Some r -> nx r = 1 -> sd_reset_less (g_tab D i) = false ->
  forall procs, incl procs (g_procs D) ->
  forall st, s_curr st = nx ->
    let st' := fold_left (delta2 sync_code D cur nx) procs st in
    Z.testbit (s_next st' i) b = Z.testbit (s_next st i) b \/
    Z.testbit (s_next st' i) b = Z.testbit (sd_init (g_tab D i)) b.
Proof.
  intros Hb Hd Honly Hr Hnx Hrl. induction procs as [|p procs IH]; intros Hincl st Hc; simpl; auto.
  assert (Hin : In p (g_procs D)) by (apply Hincl; simpl; auto).
  assert (Hc' : s_curr (delta2 sync_code D cur nx st p) = nx).
  { unfold delta2. destruct (Nat.eqb (fst p) 0); [rewrite comb_curr|rewrite sync_code_curr]; auto. }
  destruct (IH (fun q Hq => Hincl q (or_intror Hq)) _ Hc') as [IH1|IH1]; [|right; exact IH1].
  cbv zeta in IH1. rewrite IH1. clear IH1.
  unfold delta2. destruct (Z.testbit (um (g_tab D) (snd p) i) b) eqn:E.
  - pose proof (Honly p Hin E) as Hp. destruct (Nat.eqb (fst p) 0) eqn:E0.
    + apply Nat.eqb_eq in E0. congruence.
    + unfold sync_code. dfired; [|left; reflexivity]. right.
      rewrite Hp, Hr. apply sync_reset_bit; auto. rewrite Hc, Hnx. discriminate.
  - left. destruct (Nat.eqb (fst p) 0); [apply comb_frame; auto|].
    unfold sync_code. dfired; auto. apply sync_frame; auto.
Qed.

Theorem no_clock_edge_keeps_or_resets D e cur d i b : 0 <= b -> d <> 0%nat ->
  only_dom D d i b -> ~ In i (map fst e) ->
  clk_edge (g_doms D d) cur (apply_writes e cur) = false ->
  (d_async (g_doms D d) = true -> sd_reset_less (g_tab D i) = false) ->
  Z.testbit (step D e cur i) b = Z.testbit (cur i) b \/
  (rst_rise (g_doms D d) cur (apply_writes e cur) = true /\
   Z.testbit (step D e cur i) b = Z.testbit (sd_init (g_tab D i)) b).
Proof.
  intros Hb Hd Honly He Hck Hx.
  destruct (rst_rise (g_doms D d) cur (apply_writes e cur)) eqn:Hrr.
  2:{ left. apply (unfired_unchanged D e cur d); auto. unfold fired. rewrite Hck, Hrr. reflexivity. }
  assert (Hrr' := Hrr). unfold rst_rise in Hrr'. destruct (d_rst (g_doms D d)) as [r|] eqn:Hr; [|discriminate].
  apply andb_prop in Hrr'. destruct Hrr' as [Hrr1 Hrr3]. apply andb_prop in Hrr1. destruct Hrr1 as [Hasync _].
  apply Z.eqb_eq in Hrr3.
  unfold step. rewrite step_with_unfold. cbv zeta.
  rewrite settle_frame; auto.
  2:{ intros p Hp H0. destruct (Z.testbit (um (g_tab D) (snd p) i) b) eqn:E; auto.
      apply Honly in E; auto. congruence. }
  rewrite freeze_eq.
  pose proof (delta2_reset_or_keep D cur (freeze (g_nsig D) (apply_writes e cur)) d r i b Hb Hd Honly Hr) as L.
  rewrite freeze_eq in L. specialize (L Hrr3 (Hx Hasync) (g_procs D) (incl_refl _)
     {| s_curr := freeze (g_nsig D) (apply_writes e cur); s_next := freeze (g_nsig D) (apply_writes e cur) |} eq_refl).
  cbv zeta in L. cbn [s_next] in L. rewrite freeze_eq in L. rewrite apply_writes_other in L by auto.
  destruct L as [L|L]; [left|right]; auto.
Qed.

(* ---------- C03 clause 2/3: reset asserted when the process runs => initial value ---------- *)
Lemma delta2_keeps_init D cur nx d r i b : 0 <= b -> d <> 0%nat ->
  (forall p, In p (g_procs D) -> Z.testbit (um (g_tab D) (snd p) i) b = true -> fst p = d) ->
  d_rst (g_doms D d) = Some r -> Z.land 1 (nx r) <> 0 -> sd_reset_less (g_tab D i) = false ->
  forall procs, incl procs (g_procs D) ->
  forall st, s_curr st = nx -> Z.testbit (s_next st i) b = Z.testbit (sd_init (g_tab D i)) b ->
    Z.testbit (s_next (fold_left (delta2 sync_code D cur nx) procs st) i) b = Z.testbit (sd_init (g_tab D i)) b.
Proof.
  intros Hb Hd Honly Hr Hnx Hrl. induction procs as [|p procs IH]; intros Hincl st Hc Hi; simpl; auto.
  assert (Hin : In p (g_procs D)) by (apply Hincl; simpl; auto).
  apply IH; [intros q Hq; apply Hincl; simpl; auto| |].
  - unfold delta2. destruct (Nat.eqb (fst p) 0); [rewrite comb_curr|rewrite sync_code_curr]; auto.
  - unfold delta2. destruct (Z.testbit (um (g_tab D) (snd p) i) b) eqn:E.
    + pose proof (Honly p Hin E) as Hp. destruct (Nat.eqb (fst p) 0) eqn:E0.
      * apply Nat.eqb_eq in E0. congruence.
      * unfold sync_code. dfired; auto.
        rewrite Hp, Hr. apply sync_reset_bit; auto. rewrite Hc. auto.
    + rewrite <- Hi. destruct (Nat.eqb (fst p) 0); [apply comb_frame; auto|].
      unfold sync_code. dfired; auto. apply sync_frame; auto.
Qed.

Theorem fired_with_reset_loads_init D e cur d r p i b : 0 <= b -> d <> 0%nat ->
  only_dom D d i b -> In p (g_procs D) -> fst p = d -> Z.testbit (um (g_tab D) (snd p) i) b = true ->
  d_rst (g_doms D d) = Some r -> sd_reset_less (g_tab D i) = false ->
  fired (g_doms D d) cur (apply_writes e cur) = true ->
  Z.land 1 (apply_writes e cur r) <> 0 ->
  Z.testbit (step D e cur i) b = Z.testbit (sd_init (g_tab D i)) b.
Proof.
  intros Hb Hd Honly Hin Hp Hdrv Hr Hrl Hf Hon.
  unfold step. rewrite step_with_unfold. cbv zeta.
  rewrite settle_frame; auto.
  2:{ intros q Hq H0. destruct (Z.testbit (um (g_tab D) (snd q) i) b) eqn:E; auto.
      apply Honly in E; auto. congruence. }
  rewrite freeze_eq.
  destruct (in_split _ _ Hin) as [l1 [l2 Hsplit]].
  set (nx := freeze (g_nsig D) (apply_writes e cur)).
  assert (Hon' : Z.land 1 (nx r) <> 0) by (unfold nx; rewrite freeze_eq; auto).
  rewrite Hsplit, fold_left_app. cbn [fold_left].
  apply (delta2_keeps_init D cur nx d r i b); auto.
  - rewrite Hsplit. intros q Hq. apply in_or_app. right. simpl. auto.
  - unfold delta2 at 1. replace (Nat.eqb (fst p) 0) with false by (symmetry; apply Nat.eqb_neq; congruence).
    rewrite sync_code_curr. apply (delta2_curr sync_code D cur nx). intros; apply sync_code_curr.
  - unfold delta2 at 1. replace (Nat.eqb (fst p) 0) with false by (symmetry; apply Nat.eqb_neq; congruence).
    unfold sync_code. rewrite Hp. unfold nx at 1. rewrite fired_freeze, Hf. rewrite Hr.
    apply sync_reset_bit; auto.
    rewrite (delta2_curr sync_code D cur nx) by (intros; apply sync_code_curr). auto.
Qed.

Theorem async_reset_rise_loads_init D e cur d r p i b : 0 <= b -> d <> 0%nat ->
  only_dom D d i b -> In p (g_procs D) -> fst p = d -> Z.testbit (um (g_tab D) (snd p) i) b = true ->
  d_rst (g_doms D d) = Some r -> d_async (g_doms D d) = true -> sd_reset_less (g_tab D i) = false ->
  cur r <> 1 -> apply_writes e cur r = 1 ->
  Z.testbit (step D e cur i) b = Z.testbit (sd_init (g_tab D i)) b.
Proof.
  intros Hb Hd Honly Hin Hp Hdrv Hr Ha Hrl Hold Hnew.
  apply (fired_with_reset_loads_init D e cur d r p); auto.
  - unfold fired, rst_rise. rewrite Hr, Ha, Hnew. simpl.
    replace (cur r =? 1) with false by lia. simpl. apply orb_true_r.
  - rewrite Hnew. discriminate.
Qed.

(* ================= LHSMaskCollector.chunks ================= *)
Definition covered (rs : list (Z * Z)) (k : Z) : bool := existsb (fun r => (fst r <=? k) && (k <? snd r)) rs.

Ltac zb := repeat match goal with
  | |- context [?a <=? ?b] => destruct (Z.leb_spec a b)
  | |- context [?a <? ?b] => destruct (Z.ltb_spec a b)
  end; simpl; try reflexivity; try lia.

Lemma nth_nil_false n : nth n (@nil bool) false = false.
Proof. destruct n; reflexivity. Qed.

Lemma runs_cov bits : forall pos opn k,
  (forall st, opn = Some st -> st <= pos) ->
  covered (runs bits pos opn) k =
  (match opn with Some st => (st <=? k) && (k <? pos) | None => false end)
  || ((pos <=? k) && nth (Z.to_nat (k - pos)) bits false).
Proof.
  induction bits as [|b r IH]; intros pos opn k Hopn.
  - rewrite nth_nil_false, andb_false_r, orb_false_r. destruct opn; simpl; auto. rewrite orb_false_r. reflexivity.
  - assert (Hnth : pos < k -> nth (Z.to_nat (k - pos)) (b :: r) false = nth (Z.to_nat (k - (pos + 1))) r false).
    { intros. replace (Z.to_nat (k - pos)) with (S (Z.to_nat (k - (pos + 1)))) by lia. reflexivity. }
    assert (Hnth0 : k = pos -> nth (Z.to_nat (k - pos)) (b :: r) false = b).
    { intros. replace (Z.to_nat (k - pos)) with O by lia. reflexivity. }
    destruct b, opn as [st|]; cbn [runs covered existsb fst snd].
    + fold (covered (runs r (pos + 1) (Some st)) k). rewrite IH by (intros s0 E; inversion E; subst; specialize (Hopn _ eq_refl); lia).
      specialize (Hopn _ eq_refl).
      destruct (Z.lt_trichotomy k pos) as [H|[H|H]].
      * replace (pos <=? k) with false by lia. replace (pos + 1 <=? k) with false by lia. simpl. rewrite !orb_false_r. zb.
      * rewrite Hnth0 by auto. subst k. replace (pos + 1 <=? pos) with false by lia. zb.
      * rewrite Hnth by auto. zb.
    + fold (covered (runs r (pos + 1) (Some pos)) k). rewrite IH by (intros s0 E; inversion E; subst; lia).
      destruct (Z.lt_trichotomy k pos) as [H|[H|H]].
      * replace (pos <=? k) with false by lia. replace (pos + 1 <=? k) with false by lia. simpl. zb.
      * rewrite Hnth0 by auto. subst k. replace (pos + 1 <=? pos) with false by lia. zb.
      * rewrite Hnth by auto. zb.
    + fold (covered (runs r (pos + 1) None) k). rewrite IH by (intros s0 E; discriminate).
      specialize (Hopn _ eq_refl).
      destruct (Z.lt_trichotomy k pos) as [H|[H|H]].
      * replace (pos <=? k) with false by lia. replace (pos + 1 <=? k) with false by lia. simpl. rewrite !orb_false_r. reflexivity.
      * rewrite Hnth0 by auto. subst k. replace (pos + 1 <=? pos) with false by lia. zb.
      * rewrite Hnth by auto. zb.
    + fold (covered (runs r (pos + 1) None) k). rewrite IH by (intros s0 E; discriminate).
      destruct (Z.lt_trichotomy k pos) as [H|[H|H]].
      * replace (pos <=? k) with false by lia. replace (pos + 1 <=? k) with false by lia. reflexivity.
      * rewrite Hnth0 by auto. subst k. replace (pos + 1 <=? pos) with false by lia. zb.
      * rewrite Hnth by auto. zb.
Qed.

(* every run is a non-empty interval inside the scanned range *)
Lemma runs_wf bits : forall pos opn lo hi,
  (forall st, opn = Some st -> st < pos) ->
  In (lo, hi) (runs bits pos opn) ->
  (match opn with Some st => st | None => pos end) <= lo /\ lo < hi /\ hi <= pos + Z.of_nat (length bits).
Proof.
  induction bits as [|b r IH]; intros pos opn lo hi Hopn Hin.
  - destruct opn as [st|]; simpl in Hin; [|contradiction]. destruct Hin as [E|[]]. inversion E; subst.
    specialize (Hopn _ eq_refl). simpl. lia.
  - cbn [length]. destruct b, opn as [st|]; cbn [runs] in Hin.
    + apply IH in Hin; [|intros s0 E; inversion E; subst; specialize (Hopn _ eq_refl); lia]. lia.
    + apply IH in Hin; [|intros s0 E; inversion E; subst; lia]. lia.
    + destruct Hin as [E|Hin].
      * inversion E; subst. specialize (Hopn _ eq_refl). lia.
      * apply IH in Hin; [|intros s0 E; discriminate]. specialize (Hopn _ eq_refl). lia.
    + apply IH in Hin; [|intros s0 E; discriminate]. lia.
Qed.

Lemma nth_mask_bits w m k : 0 <= k < w -> nth (Z.to_nat k) (mask_bits w m) false = Z.testbit m k.
Proof.
  intros Hk. unfold mask_bits.
  rewrite nth_indep with (d' := Z.testbit m (Z.of_nat 0)) by (rewrite map_length, seq_length; lia).
  rewrite (map_nth (fun j => Z.testbit m (Z.of_nat j))). rewrite seq_nth by lia. f_equal. lia.
Qed.

Definition in_chunk (w k : Z) (c : Z * option Z) : bool :=
  (fst c <=? k) && (k <? match snd c with Some h => h | None => w end).

(* chunks_partition_mask: the chunks cover exactly the set bits of the mask *)
Theorem chunks_cover w m k : 0 <= k < w ->
  existsb (in_chunk w k) (chunks w m) = Z.testbit m k.
Proof.
  intros Hk. unfold chunks. destruct (m =? Z.shiftl 1 w - 1) eqn:E.
  - apply Z.eqb_eq in E. subst m. simpl. unfold in_chunk; simpl.
    replace (Z.shiftl 1 w - 1) with (Z.ones w) by (unfold Z.ones; lia).
    rewrite Z.ones_spec_low by lia. zb.
  - assert (Hm : forall rs, existsb (in_chunk w k) (map (fun r : Z * Z => (fst r, Some (snd r))) rs) = covered rs k).
    { induction rs as [|r rs IH]; simpl; auto. rewrite IH. reflexivity. }
    rewrite Hm. rewrite runs_cov by (intros; discriminate).
    simpl. replace (k - 0) with k by lia. rewrite nth_mask_bits by auto. zb.
Qed.

(* ================= control switches ================= *)
Lemma run_fold curr ss : forall nx,
  (fix run (ss : list stmt) (nx : env) : env :=
     match ss with [] => nx | s' :: ss' => run ss' (exec_rtl curr s' nx) end) ss nx = exec_rtl_list curr ss nx.
Proof. unfold exec_rtl_list. induction ss as [|s ss IH]; intros nx; simpl; auto. Qed.

Lemma mask_run_fold ss : forall acc,
  (fix run (ss : list stmt) (acc : maskmap) : maskmap :=
     match ss with [] => acc | s' :: ss' => run ss' (stmt_mask s' acc) end) ss acc
  = fold_left (fun acc s => stmt_mask s acc) ss acc.
Proof. induction ss as [|s ss IH]; intros acc; simpl; auto. Qed.

Lemma exec_list_app curr a b nx : exec_rtl_list curr (a ++ b) nx = exec_rtl_list curr b (exec_rtl_list curr a nx).
Proof. unfold exec_rtl_list. apply fold_left_app. Qed.

Lemma ctl_pats_1 : ctl_pats (Sh 1 false) = [[Some true]].
Proof. reflexivity. Qed.

Lemma exec_ctl_switch curr c body nx : shape_of c = Sh 1 false ->
  exec_rtl curr (ctl_switch c body) nx = if ctl_on curr c then exec_rtl_list curr body nx else nx.
Proof.
  intros H. unfold ctl_switch. rewrite H, ctl_pats_1. unfold ctl_on.
  cbn [exec_rtl map fst snd]. unfold use_match, rtl_case_match. cbn [map forallb existsb has_dash negb andb orb].
  change (pat_value [Some true]) with 1. rewrite orb_false_r.
  destruct (1 =? rmask (ewidth c) (eval_rtl curr c)); auto; try apply run_fold.
Qed.

Lemma stmt_mask_ctl_switch c body acc :
  stmt_mask (ctl_switch c body) acc = fold_left (fun acc s => stmt_mask s acc) body acc.
Proof. unfold ctl_switch. cbn [stmt_mask snd]. apply mask_run_fold. Qed.

Lemma stmts_mask_ctl_switch c body : stmts_mask [ctl_switch c body] = stmts_mask body.
Proof. unfold stmts_mask. cbn [fold_left]. apply stmt_mask_ctl_switch. Qed.

(* ---------- EnableInserter on one process ---------- *)
Theorem enable_process tab ss c rst st : shape_of c = Sh 1 false ->
  forall i, s_next (sync_process tab [ctl_switch c ss] rst st) i
          = s_next (sync_ctl tab ss rst (ctl_on (s_curr st) c) false st) i.
Proof.
  intros Hc i. unfold sync_process, sync_ctl; cbn [s_next s_curr]. rewrite stmts_mask_ctl_switch.
  destruct (stmts_mask ss i =? 0) eqn:E; auto. f_equal.
  rewrite orb_false_r. cbn [negb]. rewrite andb_true_r.
  unfold exec_rtl_list at 1. cbn [fold_left]. rewrite exec_ctl_switch by auto.
  destruct (ctl_on (s_curr st) c); reflexivity.
Qed.

Lemma sync_ctl_plain tab ss rst st i :
  s_next (sync_ctl tab ss rst true false st) i = s_next (sync_process tab ss rst st) i.
Proof.
  unfold sync_process, sync_ctl; cbn [s_next s_curr]. destruct (stmts_mask ss i =? 0) eqn:E; auto.
  all: try (rewrite orb_false_r; cbn [negb]; rewrite andb_true_r; reflexivity).
Qed.

(* enable low and the domain's own reset low: nothing changes *)
Lemma sync_ctl_frozen tab ss rst st i :
  match rst with Some r => Z.land 1 (s_curr st r) = 0 | None => True end ->
  s_next (sync_ctl tab ss rst false false st) i = s_next st i.
Proof.
  intros Hr. unfold sync_ctl; cbn [s_next s_curr]. destruct (stmts_mask ss i =? 0); auto.
  replace (match rst with Some r => negb (Z.land 1 (s_curr st r) =? 0) | None => false end) with false.
  - simpl. apply slot_update_same.
  - destruct rst; auto. rewrite Hr. reflexivity.
Qed.

(* reset asserted (own or inserted): every driven bit of a non-reset-less signal is loaded, enable or not *)
Lemma sync_ctl_reset_bit tab ss rst en rs st i b : 0 <= b ->
  Z.testbit (um tab ss i) b = true -> sd_reset_less (tab i) = false ->
  rs = true \/ (exists r, rst = Some r /\ Z.land 1 (s_curr st r) <> 0) ->
  Z.testbit (s_next (sync_ctl tab ss rst en rs st) i) b = Z.testbit (sd_init (tab i)) b.
Proof.
  intros Hb Hd Hrl Hon. unfold sync_ctl; cbn [s_next s_curr].
  rewrite (um_driven _ _ _ _ Hd). rewrite testbit_slot_update by lia. fold (um tab ss i). rewrite Hd, Hrl.
  replace ((match rst with Some r => negb (Z.land 1 (s_curr st r) =? 0) | None => false end) || rs) with true; auto.
  destruct Hon as [->|[r [-> Hr]]]; [rewrite orb_true_r; auto|].
  replace (Z.land 1 (s_curr st r) =? 0) with false by lia. reflexivity.
Qed.

(* ---------- ResetInserter on one process ---------- *)
Definition chunk_mask (w : Z) (ch : Z * option Z) : Z :=
  match snd ch with
  | None => Z.land (-1) (Z.shiftl 1 w - 1)
  | Some hi => Z.land (Z.land (Z.shiftl (-1) (fst ch)) (Z.shiftl 1 hi - Z.shiftl 1 (fst ch))) (Z.shiftl 1 w - 1)
  end.

Definition sig_resets (tab : sigtab) (m : maskmap) (i : nat) : list stmt :=
  if sd_reset_less (tab i) then []
  else map (reset_stmt i (tab i)) (chunks (width (sd_shape (tab i))) (m i)).

Lemma reset_stmts_of_flat tab keys m : reset_stmts_of tab keys m = flat_map (sig_resets tab m) keys.
Proof. reflexivity. Qed.

Lemma exec_reset_stmt_other curr i sd ch nx j : j <> i -> exec_rtl curr (reset_stmt i sd ch) nx j = nx j.
Proof.
  intros H. unfold reset_stmt. destruct (snd ch); cbn [exec_rtl assign_rtl]; apply upd_other; auto.
Qed.

Lemma exec_reset_list_other curr i sd j : j <> i -> forall chs nx,
  exec_rtl_list curr (map (reset_stmt i sd) chs) nx j = nx j.
Proof.
  intros H. unfold exec_rtl_list. induction chs as [|c chs IH]; intros nx; simpl; auto.
  rewrite IH. apply exec_reset_stmt_other; auto.
Qed.

Lemma exec_sig_resets_other curr tab m i j nx : j <> i -> exec_rtl_list curr (sig_resets tab m i) nx j = nx j.
Proof.
  intros H. unfold sig_resets. destruct (sd_reset_less (tab i)); [reflexivity|]. apply exec_reset_list_other; auto.
Qed.

Definition wf_chunk (w : Z) (c : Z * option Z) : Prop :=
  match snd c with None => fst c = 0 | Some hi => 0 <= fst c /\ fst c < hi /\ hi <= w end.

Lemma chunks_wf w m c : 0 <= w -> In c (chunks w m) -> wf_chunk w c.
Proof.
  intros Hw. unfold chunks. destruct (m =? Z.shiftl 1 w - 1).
  - intros [<-|[]]. reflexivity.
  - rewrite in_map_iff. intros [[lo hi] [<- Hin]]. unfold wf_chunk; simpl.
    apply runs_wf in Hin; [|intros; discriminate]. unfold mask_bits in Hin. rewrite map_length, seq_length in Hin. lia.
Qed.

Section ResetBits.
Variables (curr : env) (i : nat) (sd : sigdesc).
Let s := sd_shape sd.
Let w := width s.
Hypothesis Hwf : wf_shape s = true.
Hypothesis Hinit : in_range s (sd_init sd).

Lemma testbit_rsign_low x b : 0 <= b < w -> Z.testbit (rsign s x) b = Z.testbit x b.
Proof.
  intros Hb. rewrite rsign_norm by auto. rewrite testbit_norm by (auto; lia). fold w.
  replace (b <? w) with true by lia. destruct (sgn s); reflexivity.
Qed.

Lemma exec_reset_stmt_bit ch nx b : wf_chunk w ch -> 0 <= b < w ->
  Z.testbit (exec_rtl curr (reset_stmt i sd ch) nx i) b =
  if in_chunk w b ch then Z.testbit (sd_init sd) b else Z.testbit (nx i) b.
Proof.
  intros Hch Hb. unfold reset_stmt, in_chunk, wf_chunk in *. fold s. destruct ch as [lo [hi|]]; cbn [fst snd] in *.
  - cbn [exec_rtl assign_rtl lread shape_of eval_rtl]. rewrite upd_same.
    rewrite testbit_rsign_low by auto. rewrite testbit_rmw by lia.
    replace (lo + (hi - lo)) with hi by lia.
    destruct ((lo <=? b) && (b <? hi)) eqn:E; auto.
    rewrite rsign_norm by (unfold wf_shape; simpl; lia). rewrite norm_unsigned. rewrite rmask_mask by lia.
    rewrite mask_idem by lia. rewrite testbit_mask by lia. replace (b - lo <? hi - lo) with true by lia.
    rewrite const_norm_spec by auto. rewrite norm_id by auto. cbn [andb]. rewrite Z.shiftr_spec by lia. f_equal. lia.
  - subst lo. cbn [exec_rtl assign_rtl shape_of eval_rtl]. rewrite upd_same.
    rewrite !rsign_norm by auto. rewrite const_norm_spec by auto.
    repeat rewrite (norm_id s (sd_init sd)) by auto.
    replace ((0 <=? b) && (b <? w)) with true by lia. reflexivity.
Qed.

Lemma exec_reset_stmt_shape ch nx : exists x, exec_rtl curr (reset_stmt i sd ch) nx i = rsign s x.
Proof.
  unfold reset_stmt. fold s. destruct (snd ch); cbn [exec_rtl assign_rtl]; rewrite upd_same; eauto.
Qed.

Lemma exec_reset_list_bit : forall chs nx b, (forall c, In c chs -> wf_chunk w c) -> 0 <= b < w ->
  Z.testbit (exec_rtl_list curr (map (reset_stmt i sd) chs) nx i) b =
  if existsb (in_chunk w b) chs then Z.testbit (sd_init sd) b else Z.testbit (nx i) b.
Proof.
  unfold exec_rtl_list. induction chs as [|c chs IH]; intros nx b Hch Hb; simpl; auto.
  rewrite IH by (auto; intros; apply Hch; simpl; auto).
  rewrite exec_reset_stmt_bit by (auto; apply Hch; simpl; auto).
  destruct (in_chunk w b c), (existsb (in_chunk w b) chs); reflexivity.
Qed.

Lemma exec_reset_list_shape : forall chs nx, chs <> [] ->
  exists x, exec_rtl_list curr (map (reset_stmt i sd) chs) nx i = rsign s x.
Proof.
  unfold exec_rtl_list. induction chs as [|c chs IH]; intros nx H; [congruence|]. simpl.
  destruct chs as [|c' chs'].
  - simpl. apply exec_reset_stmt_shape.
  - apply IH. discriminate.
Qed.

(* every bit handed to update() (sign bits included) holds the initial value after the chunk assignments *)
Lemma exec_reset_list_um m nx b : 0 <= b ->
  (forall k, w <= k -> Z.testbit m k = false) ->
  Z.testbit (update_mask s m) b = true ->
  Z.testbit (exec_rtl_list curr (map (reset_stmt i sd) (chunks w m)) nx i) b = Z.testbit (sd_init sd) b.
Proof.
  intros Hb Hm Hu.
  assert (Hw : 0 <= w) by (unfold w, wf_shape in *; destruct (sgn s); lia).
  assert (Hchs : forall c, In c (chunks w m) -> wf_chunk w c) by (intros; eapply chunks_wf; eauto).
  destruct (Z.lt_ge_cases b w) as [Hlt|Hge].
  - rewrite exec_reset_list_bit by (auto; lia). rewrite chunks_cover by lia.
    assert (Z.testbit m b = true).
    { unfold update_mask in Hu. destruct (sgn s && Z.testbit m (width s - 1)); auto.
      rewrite Z.lor_spec, Z.shiftl_spec in Hu by lia. rewrite (Z.testbit_neg_r _ (b - width s)) in Hu by (fold w; lia).
      rewrite orb_false_r in Hu. auto. }
    rewrite H. reflexivity.
  - (* sign bits: only for a signed signal whose MSB is driven *)
    unfold update_mask in Hu. destruct (sgn s) eqn:Hsg; cbn [andb] in Hu.
    2:{ rewrite Hm in Hu by auto. discriminate. }
    destruct (Z.testbit m (width s - 1)) eqn:Hmsb; [|rewrite Hm in Hu by auto; discriminate].
    fold w in Hmsb.
    assert (Hw1 : 1 <= w) by (unfold w, wf_shape in *; rewrite Hsg in Hwf; lia).
    assert (Hne : chunks w m <> []).
    { intro E. pose proof (chunks_cover w m (w - 1) ltac:(lia)) as C. rewrite E, Hmsb in C. discriminate. }
    destruct (exec_reset_list_shape (chunks w m) nx Hne) as [x Hx].
    assert (Hmsbv : Z.testbit (rsign s x) (w - 1) = Z.testbit (sd_init sd) (w - 1)).
    { rewrite <- Hx. rewrite exec_reset_list_bit by (auto; lia). rewrite chunks_cover by lia. rewrite Hmsb. reflexivity. }
    rewrite Hx.
    assert (Hhi : forall y, Z.testbit (norm s y) b = Z.testbit (norm s y) (w - 1)).
    { intros y. rewrite !testbit_norm by (auto; lia). rewrite Hsg. fold w.
      replace (b <? w) with false by lia. replace (w - 1 <? w) with true by lia. reflexivity. }
    rewrite rsign_norm in Hmsbv by auto. rewrite rsign_norm by auto.
    rewrite Hhi. rewrite Hmsbv. rewrite <- (norm_id s (sd_init sd)) by auto. symmetry. apply Hhi.
Qed.
End ResetBits.

(* ---------- the whole reset block ---------- *)
Record tab_ok (tab : sigtab) : Prop := {
  tk_wf : forall i, wf_shape (sd_shape (tab i)) = true;
  tk_init : forall i, in_range (sd_shape (tab i)) (sd_init (tab i)) }.

(* facts about the collector on a statement list (true of every list whose ESig shapes agree with tab) *)
Record collector_ok (tab : sigtab) (ss : list stmt) : Prop := {
  ck_width : forall i k, width (sd_shape (tab i)) <= k -> Z.testbit (stmts_mask ss i) k = false;
  ck_keys : forall i, stmts_mask ss i <> 0 -> In i (lhs_keys ss) }.

Lemma uniq_nodup : forall l seen, NoDup (uniq seen l) /\ forall x, In x (uniq seen l) -> ~ In x seen.
Proof.
  induction l as [|x l IH]; intros seen; simpl.
  - split; [constructor|contradiction].
  - destruct (existsb (Nat.eqb x) seen) eqn:E.
    + apply IH.
    + destruct (IH (x :: seen)) as [N S]. split.
      * constructor; auto. intro H. apply S in H. apply H. simpl. auto.
      * intros y [<-|Hy].
        -- intro H. assert (existsb (Nat.eqb x) seen = true) by (apply existsb_exists; exists x; split; auto; apply Nat.eqb_refl). congruence.
        -- apply S in Hy. intro. apply Hy. simpl. auto.
Qed.

Lemma lhs_keys_nodup ss : NoDup (lhs_keys ss).
Proof. apply uniq_nodup. Qed.

Section ResetBlock.
Variables (tab : sigtab) (curr : env) (m : maskmap) (i : nat).
Hypothesis Htab : tab_ok tab.
Hypothesis Hm : forall k, width (sd_shape (tab i)) <= k -> Z.testbit (m i) k = false.

Lemma reset_keys_bits : forall keys nx, NoDup keys ->
  (sd_reset_less (tab i) = true \/ ~ In i keys -> exec_rtl_list curr (flat_map (sig_resets tab m) keys) nx i = nx i) /\
  (sd_reset_less (tab i) = false -> In i keys -> forall b, 0 <= b ->
     Z.testbit (update_mask (sd_shape (tab i)) (m i)) b = true ->
     Z.testbit (exec_rtl_list curr (flat_map (sig_resets tab m) keys) nx i) b = Z.testbit (sd_init (tab i)) b).
Proof.
  induction keys as [|k keys IH]; intros nx Hnd.
  - split; [reflexivity|contradiction].
  - inversion Hnd as [|? ? Hnotin Hnd']; subst. cbn [flat_map]. rewrite exec_list_app.
    destruct (IH (exec_rtl_list curr (sig_resets tab m k) nx) Hnd') as [IH1 IH2]. split.
    + intros H. rewrite IH1 by (destruct H as [H|H]; [left; auto|right; intro; apply H; simpl; auto]).
      destruct (Nat.eq_dec k i) as [->|Hne].
      * destruct H as [H|H]; [|exfalso; apply H; simpl; auto]. unfold sig_resets. rewrite H. reflexivity.
      * apply exec_sig_resets_other. auto.
    + intros Hrl Hin b Hb Hu. destruct (Nat.eq_dec k i) as [->|Hne].
      * rewrite IH1 by (right; auto). unfold sig_resets. rewrite Hrl.
        apply exec_reset_list_um; auto; [apply (tk_wf _ Htab)|apply (tk_init _ Htab)].
      * destruct Hin as [Hin|Hin]; [congruence|]. apply IH2; auto.
Qed.
End ResetBlock.

(* the inserted statements only name bits that are already in the mask *)
Lemma stmt_mask_reset_stmt i sd ch acc j :
  stmt_mask (reset_stmt i sd ch) acc j =
  if Nat.eqb j i then Z.lor (acc j) (chunk_mask (width (sd_shape sd)) ch) else acc j.
Proof.
  unfold reset_stmt, chunk_mask. destruct (snd ch); cbn [stmt_mask lhs_mask]; unfold mm_or; reflexivity.
Qed.

Lemma chunk_mask_sub w mk c : 0 <= w -> In c (chunks w mk) ->
  (forall k, w <= k -> Z.testbit mk k = false) -> Z.lor mk (chunk_mask w c) = mk.
Proof.
  intros Hw Hin Hmk. apply Z.bits_inj'. intros b Hb. rewrite Z.lor_spec.
  destruct (Z.testbit mk b) eqn:E; auto. cbn [orb].
  pose proof (chunks_wf w mk c Hw Hin) as Hc.
  destruct (Z.lt_ge_cases b w) as [Hlt|Hge].
  - pose proof (chunks_cover w mk b ltac:(lia)) as C. rewrite E in C.
    assert (Hn : in_chunk w b c = false).
    { destruct (in_chunk w b c) eqn:E2; auto.
      assert (existsb (in_chunk w b) (chunks w mk) = true) by (apply existsb_exists; eauto). congruence. }
    unfold chunk_mask, in_chunk, wf_chunk in *. destruct c as [lo [hi|]]; cbn [fst snd] in *.
    + rewrite !Z.land_spec. rewrite Z.shiftl_spec by lia.
      destruct (Z.lt_ge_cases b lo) as [H1|H1].
      * rewrite (Z.testbit_neg_r _ (b - lo)) by lia. reflexivity.
      * assert (hi <= b) by lia.
        replace (Z.shiftl 1 hi - Z.shiftl 1 lo) with (Z.shiftl (Z.ones (hi - lo)) lo).
        2:{ rewrite !Z.shiftl_mul_pow2 by lia. rewrite Z.ones_equiv. replace hi with ((hi - lo) + lo) at 2 by lia.
            rewrite Z.pow_add_r by lia. lia. }
        rewrite (Z.shiftl_spec (Z.ones _)) by lia. rewrite Z.ones_spec_high by lia. rewrite andb_false_r. reflexivity.
    + subst lo. lia.
  - unfold chunk_mask. destruct (snd c); rewrite !Z.land_spec;
      replace (Z.shiftl 1 w - 1) with (Z.ones w) by (unfold Z.ones; lia); rewrite Z.ones_spec_high by lia;
      rewrite andb_false_r; reflexivity.
Qed.

Lemma reset_stmts_mask tab mk keys :
  (forall i, 0 <= width (sd_shape (tab i))) ->
  (forall i k, width (sd_shape (tab i)) <= k -> Z.testbit (mk i) k = false) ->
  forall acc j, (forall j, acc j = mk j) ->
  fold_left (fun acc s => stmt_mask s acc) (flat_map (sig_resets tab mk) keys) acc j = mk j.
Proof.
  intros Hw Hmk. induction keys as [|k keys IH]; intros acc j Hacc; cbn [flat_map fold_left]; auto.
  rewrite fold_left_app. apply IH. clear IH. intros j'.
  unfold sig_resets. destruct (sd_reset_less (tab k)); [apply Hacc|].
  assert (G : forall chs acc, (forall c, In c chs -> In c (chunks (width (sd_shape (tab k))) (mk k))) ->
              (forall j, acc j = mk j) ->
              fold_left (fun acc s => stmt_mask s acc) (map (reset_stmt k (tab k)) chs) acc j' = mk j').
  { induction chs as [|c chs IHc]; intros acc0 Hsub Ha; cbn [map fold_left]; auto.
    apply IHc; [intros; apply Hsub; simpl; auto|]. intros j0. rewrite stmt_mask_reset_stmt.
    destruct (Nat.eqb j0 k) eqn:E; auto. apply Nat.eqb_eq in E. subst j0. rewrite Ha.
    apply chunk_mask_sub; auto. apply Hsub; simpl; auto. }
  apply G; auto.
Qed.

Lemma stmts_mask_reset tab ss c j : tab_ok tab -> collector_ok tab ss ->
  stmts_mask (ss ++ [ctl_switch c (reset_stmts tab ss)]) j = stmts_mask ss j.
Proof.
  intros Ht Hc. unfold stmts_mask at 1. rewrite fold_left_app. cbn [fold_left]. rewrite stmt_mask_ctl_switch.
  fold (stmts_mask ss). unfold reset_stmts. rewrite reset_stmts_of_flat. apply reset_stmts_mask; auto.
  - intros i. pose proof (tk_wf _ Ht i) as H. unfold wf_shape in H. destruct (sgn _); lia.
  - apply (ck_width _ _ Hc).
Qed.

(* ResetInserter on one process (generalised to an already present inserted reset `rs`) *)
Theorem reset_ctl tab ss c rst rs st : shape_of c = Sh 1 false -> tab_ok tab -> collector_ok tab ss ->
  forall i, s_next (sync_ctl tab (ss ++ [ctl_switch c (reset_stmts tab ss)]) rst true rs st) i
          = s_next (sync_ctl tab ss rst true (ctl_on (s_curr st) c || rs) st) i.
Proof.
  intros Hc Ht Hk i. unfold sync_ctl; cbn [s_next s_curr]. rewrite stmts_mask_reset by auto.
  destruct (stmts_mask ss i =? 0) eqn:E; auto.
  apply slot_update_agree. intros b Hb Hu.
  set (rst_on := match rst with Some r => negb (Z.land 1 (s_curr st r) =? 0) | None => false end).
  rewrite exec_list_app. unfold exec_rtl_list at 1. cbn [fold_left]. rewrite exec_ctl_switch by auto.
  fold (exec_rtl_list (s_curr st) ss (s_next st)).
  destruct (sd_reset_less (tab i)) eqn:Hrl.
  - rewrite !andb_false_r. destruct (ctl_on (s_curr st) c); auto.
    unfold reset_stmts. rewrite reset_stmts_of_flat. f_equal.
    apply (reset_keys_bits tab (s_curr st) (stmts_mask ss) i Ht (ck_width _ _ Hk i)); [apply lhs_keys_nodup|auto].
  - rewrite !andb_true_r. destruct rst_on; cbn [orb]; auto.
    destruct (ctl_on (s_curr st) c); cbn [orb]; auto. destruct rs; auto.
    unfold reset_stmts. rewrite reset_stmts_of_flat.
    apply (reset_keys_bits tab (s_curr st) (stmts_mask ss) i Ht (ck_width _ _ Hk i)); auto.
    + apply lhs_keys_nodup.
    + apply (ck_keys _ _ Hk). intro H0. rewrite H0 in E. discriminate.
Qed.

Theorem reset_process tab ss c rst st : shape_of c = Sh 1 false -> tab_ok tab -> collector_ok tab ss ->
  forall i, s_next (sync_process tab (ss ++ [ctl_switch c (reset_stmts tab ss)]) rst st) i
          = s_next (sync_ctl tab ss rst true (ctl_on (s_curr st) c) st) i.
Proof.
  intros Hc Ht Hk i. rewrite <- sync_ctl_plain. rewrite reset_ctl by auto. rewrite orb_false_r. reflexivity.
Qed.

(* ================= stacks of inserters of one kind ================= *)
Lemma sync_ctl_enable tab ss c rst en st : shape_of c = Sh 1 false ->
  forall i, s_next (sync_ctl tab [ctl_switch c ss] rst en false st) i
          = s_next (sync_ctl tab ss rst (ctl_on (s_curr st) c && en) false st) i.
Proof.
  intros Hc i. unfold sync_ctl; cbn [s_next s_curr]. rewrite stmts_mask_ctl_switch.
  destruct (stmts_mask ss i =? 0) eqn:E; auto. f_equal.
  destruct en; [|rewrite andb_false_r; reflexivity]. rewrite andb_true_r.
  unfold exec_rtl_list at 1. cbn [fold_left]. rewrite exec_ctl_switch by auto.
  destruct (ctl_on (s_curr st) c); reflexivity.
Qed.

Lemma enable_n_ctl tab rst st i : forall cs ss en, Forall (fun c => shape_of c = Sh 1 false) cs ->
  s_next (sync_ctl tab (enable_n cs ss) rst en false st) i
  = s_next (sync_ctl tab ss rst (forallb (ctl_on (s_curr st)) cs && en) false st) i.
Proof.
  induction cs as [|c cs IH]; intros ss en Hf; [reflexivity|].
  inversion Hf; subst. unfold enable_n in *. cbn [fold_left forallb]. rewrite IH by auto.
  rewrite sync_ctl_enable by auto. rewrite andb_assoc. reflexivity.
Qed.

Theorem enable_n_process tab cs ss rst st : Forall (fun c => shape_of c = Sh 1 false) cs ->
  forall i, s_next (sync_process tab (enable_n cs ss) rst st) i
          = s_next (sync_ctl tab ss rst (forallb (ctl_on (s_curr st)) cs) false st) i.
Proof. intros Hf i. rewrite <- sync_ctl_plain. rewrite enable_n_ctl by auto. rewrite andb_true_r. reflexivity. Qed.

Fixpoint collector_ok_n (tab : sigtab) (cs : list expr) (ss : list stmt) : Prop :=
  match cs with
  | [] => True
  | c :: cs' => collector_ok tab ss /\ collector_ok_n tab cs' (ss ++ [ctl_switch c (reset_stmts tab ss)])
  end.

Lemma reset_n_ctl tab rst st i : tab_ok tab -> forall cs ss rs,
  Forall (fun c => shape_of c = Sh 1 false) cs -> collector_ok_n tab cs ss ->
  s_next (sync_ctl tab (reset_n tab cs ss) rst true rs st) i
  = s_next (sync_ctl tab ss rst true (existsb (ctl_on (s_curr st)) cs || rs) st) i.
Proof.
  intros Ht. induction cs as [|c cs IH]; intros ss rs Hf Hk; [reflexivity|].
  inversion Hf; subst. destruct Hk as [Hk1 Hk2]. unfold reset_n in *. cbn [fold_left existsb]. rewrite IH by auto.
  rewrite reset_ctl by auto. rewrite orb_assoc. reflexivity.
Qed.

Theorem reset_n_process tab cs ss rst st : tab_ok tab ->
  Forall (fun c => shape_of c = Sh 1 false) cs -> collector_ok_n tab cs ss ->
  forall i, s_next (sync_process tab (reset_n tab cs ss) rst st) i
          = s_next (sync_ctl tab ss rst true (existsb (ctl_on (s_curr st)) cs) st) i.
Proof. intros Ht Hf Hk i. rewrite <- sync_ctl_plain. rewrite reset_n_ctl by auto. rewrite orb_false_r. reflexivity. Qed.

(* the OR / AND of two one-bit controls *)
Lemma land1 z : Z.land 1 z = Z.b2z (Z.testbit z 0).
Proof. rewrite Z.land_comm. change 1 with (Z.ones 1). rewrite Z.land_ones by lia. symmetry. apply Z.bit0_mod. Qed.

Lemma ctl_on_or curr a b : shape_of a = Sh 1 false -> shape_of b = Sh 1 false ->
  shape_of (EOp2 OOr a b) = Sh 1 false /\
  ctl_on curr (EOp2 OOr a b) = ctl_on curr a || ctl_on curr b.
Proof.
  intros Ha Hb. split; [cbn [shape_of op2_shape]; rewrite Ha, Hb; reflexivity|].
  unfold ctl_on, ewidth. cbn [shape_of op2_shape eval_rtl rtl_op2]. rewrite Ha, Hb.
  change (width (unify2 (Sh 1 false) (Sh 1 false))) with 1. change (width (Sh 1 false)) with 1.
  unfold rsign, rmask. cbn [sgn width]. change (Z.shiftl 1 1 - 1) with 1. rewrite !land1.
  rewrite Z.lor_spec. destruct (Z.testbit (eval_rtl curr a) 0), (Z.testbit (eval_rtl curr b) 0); reflexivity.
Qed.

Lemma ctl_on_and curr a b : shape_of a = Sh 1 false -> shape_of b = Sh 1 false ->
  shape_of (EOp2 OAnd a b) = Sh 1 false /\
  ctl_on curr (EOp2 OAnd a b) = ctl_on curr a && ctl_on curr b.
Proof.
  intros Ha Hb. split; [cbn [shape_of op2_shape]; rewrite Ha, Hb; reflexivity|].
  unfold ctl_on, ewidth. cbn [shape_of op2_shape eval_rtl rtl_op2]. rewrite Ha, Hb.
  change (width (unify2 (Sh 1 false) (Sh 1 false))) with 1. change (width (Sh 1 false)) with 1.
  unfold rsign, rmask. cbn [sgn width]. change (Z.shiftl 1 1 - 1) with 1. rewrite !land1.
  rewrite Z.land_spec. destruct (Z.testbit (eval_rtl curr a) 0), (Z.testbit (eval_rtl curr b) 0); reflexivity.
Qed.

(* ================= DomainRenamer ================= *)
Lemma add_stmts_fresh d ss l : ss <> [] -> ~ In d (map fst l) -> add_stmts d ss l = l ++ [(d, ss)].
Proof.
  intros Hne. unfold add_stmts. destruct ss as [|s ss]; [congruence|]. clear Hne.
  induction l as [|e l IH]; intros H; simpl; auto.
  destruct (Nat.eqb (fst e) d) eqn:E.
  - apply Nat.eqb_eq in E. exfalso. apply H. simpl. auto.
  - f_equal. apply IH. intro. apply H. simpl. auto.
Qed.

Definition ren_entry (rho : list (nat * nat)) (e : nat * list stmt) : nat * list stmt := (rename_dom rho (fst e), snd e).

(* no two domains of the fragment are merged: renaming just re-keys the statement dict *)
Lemma rename_entries_map rho : forall st acc,
  NoDup (map fst acc ++ map (fun e => rename_dom rho (fst e)) st) ->
  (forall e, In e st -> snd e <> []) ->
  fold_left (fun acc e => add_stmts (rename_dom rho (fst e)) (snd e) acc) st acc = acc ++ map (ren_entry rho) st.
Proof.
  induction st as [|e st IH]; intros acc Hnd Hne; cbn [fold_left map].
  - rewrite app_nil_r. reflexivity.
  - rewrite add_stmts_fresh.
    + rewrite IH.
      * rewrite <- app_assoc. reflexivity.
      * rewrite map_app. cbn [map fst]. rewrite <- app_assoc. exact Hnd.
      * intros; apply Hne; simpl; auto.
    + apply Hne; simpl; auto.
    + cbn [map] in Hnd. apply NoDup_remove_2 in Hnd. intro H. apply Hnd. apply in_or_app. auto.
Qed.

Theorem rename_entries_spec rho st :
  NoDup (map (fun e => rename_dom rho (fst e)) st) -> (forall e, In e st -> snd e <> []) ->
  rename_entries rho st = map (ren_entry rho) st.
Proof. intros Hnd Hne. unfold rename_entries. rewrite rename_entries_map; auto. Qed.

Lemma fold_left_map_ext {A B C} (f : A -> B -> A) (g : C -> B) (h : A -> C -> A) l :
  (forall a x, In x l -> f a (g x) = h a x) -> forall a, fold_left f (map g l) a = fold_left h l a.
Proof.
  induction l as [|x l IH]; intros H a; simpl; auto.
  rewrite H by (simpl; auto). apply IH. intros; apply H; simpl; auto.
Qed.

(* behaviour is unchanged when the processes are re-keyed to domains with the same clock/reset configuration *)
Section Rename.
Variables (D : design) (rho : list (nat * nat)) (doms' : domtab).
Let D' := {| g_tab := g_tab D; g_doms := doms'; g_procs := map (ren_entry rho) (g_procs D); g_nsig := g_nsig D |}.
Hypothesis Hcomb : forall p, In p (g_procs D) -> (rename_dom rho (fst p) = 0%nat <-> fst p = 0%nat).
Hypothesis Hcfg : forall p, In p (g_procs D) -> fst p <> 0%nat -> doms' (rename_dom rho (fst p)) = g_doms D (fst p).

Lemma ren_eqb0 p : In p (g_procs D) -> Nat.eqb (rename_dom rho (fst p)) 0 = Nat.eqb (fst p) 0.
Proof.
  intros Hin. destruct (Nat.eqb (fst p) 0) eqn:E.
  - apply Nat.eqb_eq. apply Hcomb; auto. apply Nat.eqb_eq; auto.
  - apply Nat.eqb_neq. intro H. apply Hcomb in H; auto. apply Nat.eqb_neq in E. auto.
Qed.

Lemma settle_rename : forall fuel cur, settle fuel D' cur = settle fuel D cur.
Proof.
  induction fuel as [|k IH]; intros cur; cbn [settle]; auto.
  assert (E : eval_phase (g_tab D') (g_doms D') (fun _ => false) (g_procs D') {| s_curr := cur; s_next := cur |}
            = eval_phase (g_tab D) (g_doms D) (fun _ => false) (g_procs D) {| s_curr := cur; s_next := cur |}).
  { unfold eval_phase, D'. cbn [g_tab g_doms g_procs]. apply fold_left_map_ext. intros a x Hx.
    unfold run_proc, ren_entry. cbn [fst snd]. rewrite ren_eqb0 by auto. reflexivity. }
  rewrite E. unfold D' at 1 2 3. cbn [g_nsig]. destruct (differs _ _ _); auto.
Qed.

Theorem rename_step sp e cur : step_with sp D' e cur = step_with sp D e cur.
Proof.
  unfold step_with. unfold fuel_of. rewrite settle_rename. unfold D' at 1 2 3 4. cbn [g_nsig]. f_equal. f_equal. f_equal.
  unfold D'. cbn [g_procs g_tab g_doms]. apply fold_left_map_ext. intros a x Hx.
  unfold ren_entry. cbn [fst snd]. rewrite ren_eqb0 by auto.
  destruct (Nat.eqb (fst x) 0) eqn:E; auto. rewrite Hcfg; auto. apply Nat.eqb_neq; auto.
Qed.

Theorem rename_run sp evs : forall cur, run_with (step_with sp) D' evs cur = run_with (step_with sp) D evs cur.
Proof. induction evs as [|e evs IH]; intros cur; simpl; auto. rewrite rename_step, IH. reflexivity. Qed.
End Rename.

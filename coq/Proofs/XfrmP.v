(* XfrmP.v — proofs about Model/Xfrm.v: per-bit frame properties of the domain processes, the engine step
   (a sync process runs only when its own edge_waker fires), resets, LHS mask chunks, control inserters. *)
From Coq Require Import ZArith List Bool Lia ZifyBool.
From V.Model Require Import Bits Shape Ast Denote PyRTL PyEval Stmt Process Xfrm.
From V.Proofs Require Import BitsP ShapeP ExprP StmtP.
Import ListNotations.
Open Scope Z_scope.

Ltac dfired := match goal with |- context [if fired ?c ?o ?n then _ else _] => destruct (fired c o n) eqn:?Ef end.

(* ================= bits of a masked slot update ================= *)
Lemma testbit_slot_update old v m b : 0 <= b ->
  Z.testbit (slot_update old v m) b = if Z.testbit m b then Z.testbit v b else Z.testbit old b.
Proof.
  intros Hb. unfold slot_update. rewrite Z.lor_spec, !Z.land_spec, Z.lnot_spec by lia.
  destruct (Z.testbit m b), (Z.testbit v b), (Z.testbit old b); reflexivity.
Qed.

Lemma slot_update_same old m : slot_update old old m = old.
Proof.
  apply Z.bits_inj'. intros b Hb. rewrite testbit_slot_update by lia. destruct (Z.testbit m b); reflexivity.
Qed.

Lemma slot_update_agree old v v' m :
  (forall b, 0 <= b -> Z.testbit m b = true -> Z.testbit v b = Z.testbit v' b) ->
  slot_update old v m = slot_update old v' m.
Proof.
  intros H. apply Z.bits_inj'. intros b Hb. rewrite !testbit_slot_update by lia.
  destruct (Z.testbit m b) eqn:E; auto.
Qed.

Lemma um_zero tab ss i b : stmts_mask ss i = 0 -> Z.testbit (um tab ss i) b = false.
Proof.
  intros H. unfold um, update_mask. rewrite H. rewrite Z.testbit_0_l. rewrite andb_false_r. apply Z.testbit_0_l.
Qed.

Lemma um_driven tab ss i b : Z.testbit (um tab ss i) b = true -> (stmts_mask ss i =? 0) = false.
Proof.
  intros H. destruct (stmts_mask ss i =? 0) eqn:E; auto. apply Z.eqb_eq in E.
  rewrite (um_zero tab ss i b E) in H. discriminate.
Qed.

(* ================= frame: a process only writes the bits of its own mask ================= *)
Lemma comb_frame tab ss st i b : 0 <= b -> Z.testbit (um tab ss i) b = false ->
  Z.testbit (s_next (comb_process tab ss st) i) b = Z.testbit (s_next st i) b.
Proof.
  intros Hb H. unfold comb_process; cbn [s_next]. destruct (stmts_mask ss i =? 0); auto.
  rewrite testbit_slot_update by lia. fold (um tab ss i). rewrite H. reflexivity.
Qed.

Lemma sync_frame tab ss rst st i b : 0 <= b -> Z.testbit (um tab ss i) b = false ->
  Z.testbit (s_next (sync_process tab ss rst st) i) b = Z.testbit (s_next st i) b.
Proof.
  intros Hb H. unfold sync_process; cbn [s_next]. destruct (stmts_mask ss i =? 0); auto.
  rewrite testbit_slot_update by lia. fold (um tab ss i). rewrite H. reflexivity.
Qed.

Lemma reset_only_frame tab ss st i b : 0 <= b -> Z.testbit (um tab ss i) b = false ->
  Z.testbit (s_next (reset_only tab ss st) i) b = Z.testbit (s_next st i) b.
Proof.
  intros Hb H. unfold reset_only; cbn [s_next]. destruct ((stmts_mask ss i =? 0) || sd_reset_less (tab i)); auto.
  rewrite testbit_slot_update by lia. fold (um tab ss i). rewrite H. reflexivity.
Qed.

Lemma comb_curr tab ss st : s_curr (comb_process tab ss st) = s_curr st.
Proof. reflexivity. Qed.
Lemma sync_curr tab ss rst st : s_curr (sync_process tab ss rst st) = s_curr st.
Proof. reflexivity. Qed.

(* a driven bit of a non-reset-less signal takes its initial value when the process runs with reset asserted *)
Lemma sync_reset_bit tab ss r st i b : 0 <= b ->
  Z.testbit (um tab ss i) b = true -> sd_reset_less (tab i) = false ->
  Z.land 1 (s_curr st r) <> 0 ->
  Z.testbit (s_next (sync_process tab ss (Some r) st) i) b = Z.testbit (sd_init (tab i)) b.
Proof.
  intros Hb Hd Hrl Hr. unfold sync_process; cbn [s_next].
  rewrite (um_driven _ _ _ _ Hd). rewrite testbit_slot_update by lia. fold (um tab ss i). rewrite Hd.
  rewrite Hrl. replace (Z.land 1 (s_curr st r) =? 0) with false by lia. reflexivity.
Qed.

(* reset-less signals: the reset block of the process skips them *)
Lemma reset_less_process tab ss r st i : sd_reset_less (tab i) = true ->
  s_next (sync_process tab ss (Some r) st) i = s_next (sync_process tab ss None st) i.
Proof.
  intros H. unfold sync_process; cbn [s_next]. rewrite H. rewrite !andb_false_r. reflexivity.
Qed.

(* ================= engine ================= *)
Lemma freeze_eq n en i : freeze n en i = en i.
Proof.
  unfold freeze. destruct (nth_error (map en (seq 0 n)) i) as [v|] eqn:E; auto.
  assert (Hlt : (i < length (map en (seq 0 n)))%nat) by (apply nth_error_Some; congruence).
  rewrite map_length, seq_length in Hlt.
  apply nth_error_nth with (d := en 0%nat) in E. rewrite map_nth in E. rewrite seq_nth in E by auto. simpl in E. auto.
Qed.

Lemma apply_writes_other e : forall cur i, ~ In i (map fst e) -> apply_writes e cur i = cur i.
Proof.
  unfold apply_writes. induction e as [|w e IH]; intros cur i H; simpl; auto.
  rewrite IH by (intro; apply H; simpl; auto). apply upd_other. intro; apply H; simpl; auto.
Qed.

Lemma fired_freeze c old n new : fired c old (freeze n new) = fired c old new.
Proof. unfold fired, clk_edge, rst_rise. destruct (d_rst c); rewrite ?freeze_eq; reflexivity. Qed.
Lemma clk_edge_freeze c old n new : clk_edge c old (freeze n new) = clk_edge c old new.
Proof. unfold clk_edge. rewrite ?freeze_eq; reflexivity. Qed.
Lemma rst_rise_freeze c old n new : rst_rise c old (freeze n new) = rst_rise c old new.
Proof. unfold rst_rise. destruct (d_rst c); rewrite ?freeze_eq; reflexivity. Qed.

Section Frame.
Variables (tab : sigtab) (doms : domtab).

(* the comb-only deltas leave alone every bit no comb process drives *)
Lemma eval_phase_comb_frame procs i b : 0 <= b ->
  (forall p, In p procs -> fst p = 0%nat -> Z.testbit (um tab (snd p) i) b = false) ->
  forall st, Z.testbit (s_next (eval_phase tab doms (fun _ => false) procs st) i) b = Z.testbit (s_next st i) b.
Proof.
  intros Hb. unfold eval_phase. induction procs as [|p procs IH]; intros H st; simpl; auto.
  rewrite IH by (intros; apply H; simpl; auto). unfold run_proc.
  destruct (Nat.eqb (fst p) 0) eqn:E; auto.
  apply comb_frame; auto. apply H; simpl; auto. apply Nat.eqb_eq; auto.
Qed.
End Frame.

Lemma settle_frame D i b : 0 <= b ->
  (forall p, In p (g_procs D) -> fst p = 0%nat -> Z.testbit (um (g_tab D) (snd p) i) b = false) ->
  forall fuel cur, Z.testbit (settle fuel D cur i) b = Z.testbit (cur i) b.
Proof.
  intros Hb H. induction fuel as [|k IH]; intros cur; simpl; auto.
  destruct (differs _ _ _).
  - rewrite IH, freeze_eq. rewrite eval_phase_comb_frame by auto. reflexivity.
  - rewrite freeze_eq. rewrite eval_phase_comb_frame by auto. reflexivity.
Qed.

(* the process function used in delta 2 *)
Definition delta2 (sp : sigtab -> list stmt -> domcfg -> env -> env -> slots -> slots)
  (D : design) (cur nx : env) (st : slots) (p : dom * list stmt) : slots :=
  if Nat.eqb (fst p) 0 then comb_process (g_tab D) (snd p) st
  else sp (g_tab D) (snd p) (g_doms D (fst p)) cur nx st.

Lemma step_with_unfold sp D e cur :
  step_with sp D e cur =
  let nx := freeze (g_nsig D) (apply_writes e cur) in
  settle (fuel_of D) D (freeze (g_nsig D)
    (s_next (fold_left (delta2 sp D cur nx) (g_procs D) {| s_curr := nx; s_next := nx |}))).
Proof. reflexivity. Qed.

Lemma delta2_curr sp D cur nx :
  (forall tab ss c st, s_curr (sp tab ss c cur nx st) = s_curr st) ->
  forall procs st, s_curr (fold_left (delta2 sp D cur nx) procs st) = s_curr st.
Proof.
  intros Hsp. induction procs as [|p procs IH]; intros st; simpl; auto.
  rewrite IH. unfold delta2. destruct (Nat.eqb (fst p) 0); auto.
Qed.

Lemma sync_code_curr tab ss c cur nx st : s_curr (sync_code tab ss c cur nx st) = s_curr st.
Proof. unfold sync_code. destruct (clk_edge c cur nx); [reflexivity|]. destruct (rst_rise c cur nx); reflexivity. Qed.

Lemma sync_code_frame tab ss c cur nx st i b : 0 <= b -> Z.testbit (um tab ss i) b = false ->
  Z.testbit (s_next (sync_code tab ss c cur nx st) i) b = Z.testbit (s_next st i) b.
Proof.
  intros Hb H. unfold sync_code. destruct (clk_edge c cur nx); [apply sync_frame; auto|].
  destruct (rst_rise c cur nx); [apply reset_only_frame; auto|reflexivity].
Qed.

Lemma sync_code_unfired tab ss c cur nx st : fired c cur nx = false -> sync_code tab ss c cur nx st = st.
Proof.
  unfold fired, sync_code. intros H. apply orb_false_elim in H. destruct H as [-> ->]. reflexivity.
Qed.

(* a reset rise alone: init into every driven bit of a non-reset-less signal, nothing else *)
Lemma reset_only_bit tab ss st i b : 0 <= b ->
  Z.testbit (um tab ss i) b = true -> sd_reset_less (tab i) = false ->
  Z.testbit (s_next (reset_only tab ss st) i) b = Z.testbit (sd_init (tab i)) b.
Proof.
  intros Hb Hd Hrl. unfold reset_only; cbn [s_next]. rewrite (um_driven _ _ _ _ Hd), Hrl. cbn [orb].
  rewrite testbit_slot_update by lia. fold (um tab ss i). rewrite Hd. reflexivity.
Qed.

Lemma reset_only_rl tab ss st i : sd_reset_less (tab i) = true -> s_next (reset_only tab ss st) i = s_next st i.
Proof. intros H. unfold reset_only; cbn [s_next]. rewrite H, orb_true_r. reflexivity. Qed.

(* the woken process with reset asserted (clock edge with rst high, or reset rise) loads init *)
Lemma sync_code_reset_bit tab ss c r cur nx st i b : 0 <= b ->
  fired c cur nx = true -> d_rst c = Some r -> Z.land 1 (s_curr st r) <> 0 ->
  Z.testbit (um tab ss i) b = true -> sd_reset_less (tab i) = false ->
  Z.testbit (s_next (sync_code tab ss c cur nx st) i) b = Z.testbit (sd_init (tab i)) b.
Proof.
  intros Hb Hf Hr Hon Hd Hrl. unfold sync_code. unfold fired in Hf. destruct (clk_edge c cur nx).
  - rewrite Hr. apply sync_reset_bit; auto.
  - cbn [orb] in Hf. rewrite Hf. apply reset_only_bit; auto.
Qed.

(* ---------- C03 clause 1: a bit driven only from domain d changes only when d's waker fires ---------- *)
Definition only_dom (D : design) (d : dom) (i : nat) (b : Z) : Prop :=
  forall p, In p (g_procs D) -> Z.testbit (um (g_tab D) (snd p) i) b = true -> fst p = d.

Lemma delta2_unfired D cur nx d i b : 0 <= b -> d <> 0%nat ->
  (forall p, In p (g_procs D) -> Z.testbit (um (g_tab D) (snd p) i) b = true -> fst p = d) ->
  fired (g_doms D d) cur nx = false ->
  forall procs, incl procs (g_procs D) ->
  forall st, Z.testbit (s_next (fold_left (delta2 sync_code D cur nx) procs st) i) b = Z.testbit (s_next st i) b.
Proof.
  intros Hb Hd Honly Hnf. induction procs as [|p procs IH]; intros Hincl st; simpl; auto.
  rewrite IH by (intros q Hq; apply Hincl; simpl; auto).
  assert (Hin : In p (g_procs D)) by (apply Hincl; simpl; auto).
  unfold delta2. destruct (Z.testbit (um (g_tab D) (snd p) i) b) eqn:E.
  - pose proof (Honly p Hin E) as Hp. destruct (Nat.eqb (fst p) 0) eqn:E0.
    + apply Nat.eqb_eq in E0. congruence.
    + rewrite Hp, sync_code_unfired by auto. reflexivity.
  - destruct (Nat.eqb (fst p) 0); [apply comb_frame; auto|apply sync_code_frame; auto].
Qed.

Theorem unfired_unchanged D e cur d i b : 0 <= b -> d <> 0%nat ->
  only_dom D d i b -> ~ In i (map fst e) ->
  fired (g_doms D d) cur (apply_writes e cur) = false ->
  Z.testbit (step D e cur i) b = Z.testbit (cur i) b.
Proof.
  intros Hb Hd Honly He Hnf. unfold step. rewrite step_with_unfold. cbv zeta.
  rewrite settle_frame; auto.
  2:{ intros p Hp H0. destruct (Z.testbit (um (g_tab D) (snd p) i) b) eqn:E; auto.
      apply Honly in E; auto. congruence. }
  rewrite freeze_eq. rewrite (delta2_unfired D cur _ d i b); auto.
  - cbn [s_next]. rewrite freeze_eq. rewrite apply_writes_other by auto. reflexivity.
  - rewrite fired_freeze. auto.
  - apply incl_refl.
Qed.

(* the full clause: without an active clock edge the bit keeps its value, or (reset rise of an async domain, signal
   not reset-less) takes its initial value; reset-less signals always keep theirs *)
Lemma delta2_reset_or_keep D cur nx d i b : 0 <= b -> d <> 0%nat ->
  (forall p, In p (g_procs D) -> Z.testbit (um (g_tab D) (snd p) i) b = true -> fst p = d) ->
  clk_edge (g_doms D d) cur nx = false ->
  forall procs, incl procs (g_procs D) ->
  forall st,
    let st' := fold_left (delta2 sync_code D cur nx) procs st in
    Z.testbit (s_next st' i) b = Z.testbit (s_next st i) b \/
    (rst_rise (g_doms D d) cur nx = true /\ sd_reset_less (g_tab D i) = false /\
     Z.testbit (s_next st' i) b = Z.testbit (sd_init (g_tab D i)) b).
Proof.
  intros Hb Hd Honly Hck. induction procs as [|p procs IH]; intros Hincl st; simpl; auto.
  assert (Hin : In p (g_procs D)) by (apply Hincl; simpl; auto).
  destruct (IH (fun q Hq => Hincl q (or_intror Hq)) (delta2 sync_code D cur nx st p)) as [IH1|IH1]; [|right; exact IH1].
  cbv zeta in IH1. rewrite IH1. clear IH1.
  unfold delta2. destruct (Z.testbit (um (g_tab D) (snd p) i) b) eqn:E.
  - pose proof (Honly p Hin E) as Hp. destruct (Nat.eqb (fst p) 0) eqn:E0.
    + apply Nat.eqb_eq in E0. congruence.
    + unfold sync_code. rewrite Hp, Hck. destruct (rst_rise (g_doms D d) cur nx) eqn:Hrr; [|left; reflexivity].
      destruct (sd_reset_less (g_tab D i)) eqn:Hrl.
      * left. rewrite reset_only_rl by auto. reflexivity.
      * right. split; [reflexivity|]. split; [reflexivity|]. apply reset_only_bit; auto.
  - left. destruct (Nat.eqb (fst p) 0); [apply comb_frame; auto|apply sync_code_frame; auto].
Qed.

Theorem no_clock_edge_keeps_or_resets D e cur d i b : 0 <= b -> d <> 0%nat ->
  only_dom D d i b -> ~ In i (map fst e) ->
  clk_edge (g_doms D d) cur (apply_writes e cur) = false ->
  Z.testbit (step D e cur i) b = Z.testbit (cur i) b \/
  (rst_rise (g_doms D d) cur (apply_writes e cur) = true /\ sd_reset_less (g_tab D i) = false /\
   Z.testbit (step D e cur i) b = Z.testbit (sd_init (g_tab D i)) b).
Proof.
  intros Hb Hd Honly He Hck.
  unfold step. rewrite step_with_unfold. cbv zeta.
  rewrite settle_frame; auto.
  2:{ intros p Hp H0. destruct (Z.testbit (um (g_tab D) (snd p) i) b) eqn:E; auto.
      apply Honly in E; auto. congruence. }
  rewrite freeze_eq.
  pose proof (delta2_reset_or_keep D cur (freeze (g_nsig D) (apply_writes e cur)) d i b Hb Hd Honly) as L.
  rewrite clk_edge_freeze, rst_rise_freeze in L.
  specialize (L Hck (g_procs D) (incl_refl _)
     {| s_curr := freeze (g_nsig D) (apply_writes e cur); s_next := freeze (g_nsig D) (apply_writes e cur) |}).
  cbv zeta in L. cbn [s_next] in L. rewrite freeze_eq in L. rewrite apply_writes_other in L by auto.
  exact L.
Qed.

(* ---------- C03 clause 2/3: reset asserted when the process runs => initial value ---------- *)
Lemma delta2_keeps_init D cur nx d r i b : 0 <= b -> d <> 0%nat ->
  (forall p, In p (g_procs D) -> Z.testbit (um (g_tab D) (snd p) i) b = true -> fst p = d) ->
  d_rst (g_doms D d) = Some r -> Z.land 1 (nx r) <> 0 -> sd_reset_less (g_tab D i) = false ->
  forall procs, incl procs (g_procs D) ->
  forall st, s_curr st = nx -> Z.testbit (s_next st i) b = Z.testbit (sd_init (g_tab D i)) b ->
    Z.testbit (s_next (fold_left (delta2 sync_code D cur nx) procs st) i) b = Z.testbit (sd_init (g_tab D i)) b.
Proof.
  intros Hb Hd Honly Hr Hnx Hrl. induction procs as [|p procs IH]; intros Hincl st Hc Hi; simpl; auto.
  assert (Hin : In p (g_procs D)) by (apply Hincl; simpl; auto).
  apply IH; [intros q Hq; apply Hincl; simpl; auto| |].
  - unfold delta2. destruct (Nat.eqb (fst p) 0); [rewrite comb_curr|rewrite sync_code_curr]; auto.
  - unfold delta2. destruct (Z.testbit (um (g_tab D) (snd p) i) b) eqn:E.
    + pose proof (Honly p Hin E) as Hp. destruct (Nat.eqb (fst p) 0) eqn:E0.
      * apply Nat.eqb_eq in E0. congruence.
      * rewrite Hp. destruct (fired (g_doms D d) cur nx) eqn:Hf.
        -- apply (sync_code_reset_bit _ _ _ r); auto. rewrite Hc. auto.
        -- rewrite sync_code_unfired by auto. auto.
    + rewrite <- Hi. destruct (Nat.eqb (fst p) 0); [apply comb_frame; auto|apply sync_code_frame; auto].
Qed.

Theorem fired_with_reset_loads_init D e cur d r p i b : 0 <= b -> d <> 0%nat ->
  only_dom D d i b -> In p (g_procs D) -> fst p = d -> Z.testbit (um (g_tab D) (snd p) i) b = true ->
  d_rst (g_doms D d) = Some r -> sd_reset_less (g_tab D i) = false ->
  fired (g_doms D d) cur (apply_writes e cur) = true ->
  Z.land 1 (apply_writes e cur r) <> 0 ->
  Z.testbit (step D e cur i) b = Z.testbit (sd_init (g_tab D i)) b.
Proof.
  intros Hb Hd Honly Hin Hp Hdrv Hr Hrl Hf Hon.
  unfold step. rewrite step_with_unfold. cbv zeta.
  rewrite settle_frame; auto.
  2:{ intros q Hq H0. destruct (Z.testbit (um (g_tab D) (snd q) i) b) eqn:E; auto.
      apply Honly in E; auto. congruence. }
  rewrite freeze_eq.
  destruct (in_split _ _ Hin) as [l1 [l2 Hsplit]].
  set (nx := freeze (g_nsig D) (apply_writes e cur)).
  assert (Hon' : Z.land 1 (nx r) <> 0) by (unfold nx; rewrite freeze_eq; auto).
  rewrite Hsplit, fold_left_app. cbn [fold_left].
  apply (delta2_keeps_init D cur nx d r i b); auto.
  - rewrite Hsplit. intros q Hq. apply in_or_app. right. simpl. auto.
  - unfold delta2 at 1. replace (Nat.eqb (fst p) 0) with false by (symmetry; apply Nat.eqb_neq; congruence).
    rewrite sync_code_curr. apply (delta2_curr sync_code D cur nx). intros; apply sync_code_curr.
  - unfold delta2 at 1. replace (Nat.eqb (fst p) 0) with false by (symmetry; apply Nat.eqb_neq; congruence).
    rewrite Hp. apply (sync_code_reset_bit _ _ _ r); auto.
    + unfold nx. rewrite fired_freeze. auto.
    + rewrite (delta2_curr sync_code D cur nx) by (intros; apply sync_code_curr). auto.
Qed.

Theorem async_reset_rise_loads_init D e cur d r p i b : 0 <= b -> d <> 0%nat ->
  only_dom D d i b -> In p (g_procs D) -> fst p = d -> Z.testbit (um (g_tab D) (snd p) i) b = true ->
  d_rst (g_doms D d) = Some r -> d_async (g_doms D d) = true -> sd_reset_less (g_tab D i) = false ->
  cur r <> 1 -> apply_writes e cur r = 1 ->
  Z.testbit (step D e cur i) b = Z.testbit (sd_init (g_tab D i)) b.
Proof.
  intros Hb Hd Honly Hin Hp Hdrv Hr Ha Hrl Hold Hnew.
  apply (fired_with_reset_loads_init D e cur d r p); auto.
  - unfold fired, rst_rise. rewrite Hr, Ha, Hnew. simpl.
    replace (cur r =? 1) with false by lia. simpl. apply orb_true_r.
  - rewrite Hnew. discriminate.
Qed.

(* reset-less signals: a reset rise alone leaves them untouched *)
Theorem reset_rise_keeps_reset_less D e cur d i b : 0 <= b -> d <> 0%nat ->
  only_dom D d i b -> ~ In i (map fst e) -> sd_reset_less (g_tab D i) = true ->
  clk_edge (g_doms D d) cur (apply_writes e cur) = false ->
  Z.testbit (step D e cur i) b = Z.testbit (cur i) b.
Proof.
  intros Hb Hd Honly He Hrl Hck.
  destruct (no_clock_edge_keeps_or_resets D e cur d i b Hb Hd Honly He Hck) as [H|[_ [H _]]]; auto. congruence.
Qed.

(* ================= LHSMaskCollector.chunks ================= *)
Definition covered (rs : list (Z * Z)) (k : Z) : bool := existsb (fun r => (fst r <=? k) && (k <? snd r)) rs.

Ltac zb := repeat match goal with
  | |- context [?a <=? ?b] => destruct (Z.leb_spec a b)
  | |- context [?a <? ?b] => destruct (Z.ltb_spec a b)
  end; simpl; try reflexivity; try lia.

Lemma nth_nil_false n : nth n (@nil bool) false = false.
Proof. destruct n; reflexivity. Qed.

Lemma runs_cov bits : forall pos opn k,
  (forall st, opn = Some st -> st <= pos) ->
  covered (runs bits pos opn) k =
  (match opn with Some st => (st <=? k) && (k <? pos) | None => false end)
  || ((pos <=? k) && nth (Z.to_nat (k - pos)) bits false).
Proof.
  induction bits as [|b r IH]; intros pos opn k Hopn.
  - rewrite nth_nil_false, andb_false_r, orb_false_r. destruct opn; simpl; auto. rewrite orb_false_r. reflexivity.
  - assert (Hnth : pos < k -> nth (Z.to_nat (k - pos)) (b :: r) false = nth (Z.to_nat (k - (pos + 1))) r false).
    { intros. replace (Z.to_nat (k - pos)) with (S (Z.to_nat (k - (pos + 1)))) by lia. reflexivity. }
    assert (Hnth0 : k = pos -> nth (Z.to_nat (k - pos)) (b :: r) false = b).
    { intros. replace (Z.to_nat (k - pos)) with O by lia. reflexivity. }
    destruct b, opn as [st|]; cbn [runs covered existsb fst snd].
    + fold (covered (runs r (pos + 1) (Some st)) k). rewrite IH by (intros s0 E; inversion E; subst; specialize (Hopn _ eq_refl); lia).
      specialize (Hopn _ eq_refl).
      destruct (Z.lt_trichotomy k pos) as [H|[H|H]].
      * replace (pos <=? k) with false by lia. replace (pos + 1 <=? k) with false by lia. simpl. rewrite !orb_false_r. zb.
      * rewrite Hnth0 by auto. subst k. replace (pos + 1 <=? pos) with false by lia. zb.
      * rewrite Hnth by auto. zb.
    + fold (covered (runs r (pos + 1) (Some pos)) k). rewrite IH by (intros s0 E; inversion E; subst; lia).
      destruct (Z.lt_trichotomy k pos) as [H|[H|H]].
      * replace (pos <=? k) with false by lia. replace (pos + 1 <=? k) with false by lia. simpl. zb.
      * rewrite Hnth0 by auto. subst k. replace (pos + 1 <=? pos) with false by lia. zb.
      * rewrite Hnth by auto. zb.
    + fold (covered (runs r (pos + 1) None) k). rewrite IH by (intros s0 E; discriminate).
      specialize (Hopn _ eq_refl).
      destruct (Z.lt_trichotomy k pos) as [H|[H|H]].
      * replace (pos <=? k) with false by lia. replace (pos + 1 <=? k) with false by lia. simpl. rewrite !orb_false_r. reflexivity.
      * rewrite Hnth0 by auto. subst k. replace (pos + 1 <=? pos) with false by lia. zb.
      * rewrite Hnth by auto. zb.
    + fold (covered (runs r (pos + 1) None) k). rewrite IH by (intros s0 E; discriminate).
      destruct (Z.lt_trichotomy k pos) as [H|[H|H]].
      * replace (pos <=? k) with false by lia. replace (pos + 1 <=? k) with false by lia. reflexivity.
      * rewrite Hnth0 by auto. subst k. replace (pos + 1 <=? pos) with false by lia. zb.
      * rewrite Hnth by auto. zb.
Qed.

(* every run is a non-empty interval inside the scanned range *)
Lemma runs_wf bits : forall pos opn lo hi,
  (forall st, opn = Some st -> st < pos) ->
  In (lo, hi) (runs bits pos opn) ->
  (match opn with Some st => st | None => pos end) <= lo /\ lo < hi /\ hi <= pos + Z.of_nat (length bits).
Proof.
  induction bits as [|b r IH]; intros pos opn lo hi Hopn Hin.
  - destruct opn as [st|]; simpl in Hin; [|contradiction]. destruct Hin as [E|[]]. inversion E; subst.
    specialize (Hopn _ eq_refl). simpl. lia.
  - cbn [length]. destruct b, opn as [st|]; cbn [runs] in Hin.
    + apply IH in Hin; [|intros s0 E; inversion E; subst; specialize (Hopn _ eq_refl); lia]. lia.
    + apply IH in Hin; [|intros s0 E; inversion E; subst; lia]. lia.
    + destruct Hin as [E|Hin].
      * inversion E; subst. specialize (Hopn _ eq_refl). lia.
      * apply IH in Hin; [|intros s0 E; discriminate]. specialize (Hopn _ eq_refl). lia.
    + apply IH in Hin; [|intros s0 E; discriminate]. lia.
Qed.

Lemma nth_mask_bits w m k : 0 <= k < w -> nth (Z.to_nat k) (mask_bits w m) false = Z.testbit m k.
Proof.
  intros Hk. unfold mask_bits.
  rewrite nth_indep with (d' := Z.testbit m (Z.of_nat 0)) by (rewrite map_length, seq_length; lia).
  rewrite (map_nth (fun j => Z.testbit m (Z.of_nat j))). rewrite seq_nth by lia. f_equal. lia.
Qed.

Definition in_chunk (w k : Z) (c : Z * option Z) : bool :=
  (fst c <=? k) && (k <? match snd c with Some h => h | None => w end).

(* chunks_partition_mask: the chunks cover exactly the set bits of the mask *)
Theorem chunks_cover w m k : 0 <= k < w ->
  existsb (in_chunk w k) (chunks w m) = Z.testbit m k.
Proof.
  intros Hk. unfold chunks. destruct (m =? Z.shiftl 1 w - 1) eqn:E.
  - apply Z.eqb_eq in E. subst m. simpl. unfold in_chunk; simpl.
    replace (Z.shiftl 1 w - 1) with (Z.ones w) by (unfold Z.ones; lia).
    rewrite Z.ones_spec_low by lia. zb.
  - assert (Hm : forall rs, existsb (in_chunk w k) (map (fun r : Z * Z => (fst r, Some (snd r))) rs) = covered rs k).
    { induction rs as [|r rs IH]; simpl; auto. rewrite IH. reflexivity. }
    rewrite Hm. rewrite runs_cov by (intros; discriminate).
    simpl. replace (k - 0) with k by lia. rewrite nth_mask_bits by auto. zb.
Qed.

(* ================= control switches ================= *)
Lemma run_fold curr ss : forall nx,
  (fix run (ss : list stmt) (nx : env) : env :=
     match ss with [] => nx | s' :: ss' => run ss' (exec_rtl curr s' nx) end) ss nx = exec_rtl_list curr ss nx.
Proof. unfold exec_rtl_list. induction ss as [|s ss IH]; intros nx; simpl; auto. Qed.

Lemma mask_run_fold ss : forall acc,
  (fix run (ss : list stmt) (acc : maskmap) : maskmap :=
     match ss with [] => acc | s' :: ss' => run ss' (stmt_mask s' acc) end) ss acc
  = fold_left (fun acc s => stmt_mask s acc) ss acc.
Proof. induction ss as [|s ss IH]; intros acc; simpl; auto. Qed.

Lemma exec_list_app curr a b nx : exec_rtl_list curr (a ++ b) nx = exec_rtl_list curr b (exec_rtl_list curr a nx).
Proof. unfold exec_rtl_list. apply fold_left_app. Qed.

Lemma ctl_pats_1 : ctl_pats (Sh 1 false) = [[Some true]].
Proof. reflexivity. Qed.

Lemma exec_ctl_switch curr c body nx : shape_of c = Sh 1 false ->
  exec_rtl curr (ctl_switch c body) nx = if ctl_on curr c then exec_rtl_list curr body nx else nx.
Proof.
  intros H. unfold ctl_switch. rewrite H, ctl_pats_1. unfold ctl_on.
  cbn [exec_rtl map fst snd]. unfold use_match, rtl_case_match. cbn [map forallb existsb has_dash negb andb orb].
  change (pat_value [Some true]) with 1. rewrite orb_false_r.
  destruct (1 =? rmask (ewidth c) (eval_rtl curr c)); auto; try apply run_fold.
Qed.

Lemma stmt_mask_ctl_switch c body acc :
  stmt_mask (ctl_switch c body) acc = fold_left (fun acc s => stmt_mask s acc) body acc.
Proof. unfold ctl_switch. cbn [stmt_mask snd]. apply mask_run_fold. Qed.

Lemma stmts_mask_ctl_switch c body : stmts_mask [ctl_switch c body] = stmts_mask body.
Proof. unfold stmts_mask. cbn [fold_left]. apply stmt_mask_ctl_switch. Qed.

(* ---------- EnableInserter on one process ---------- *)
Theorem enable_process tab ss c rst st : shape_of c = Sh 1 false ->
  forall i, s_next (sync_process tab [ctl_switch c ss] rst st) i
          = s_next (sync_ctl tab ss rst (ctl_on (s_curr st) c) false st) i.
Proof.
  intros Hc i. unfold sync_process, sync_ctl; cbn [s_next s_curr]. rewrite stmts_mask_ctl_switch.
  destruct (stmts_mask ss i =? 0) eqn:E; auto. f_equal.
  rewrite orb_false_r. cbn [negb]. rewrite andb_true_r.
  unfold exec_rtl_list at 1. cbn [fold_left]. rewrite exec_ctl_switch by auto.
  destruct (ctl_on (s_curr st) c); reflexivity.
Qed.

Lemma sync_ctl_plain tab ss rst st i :
  s_next (sync_ctl tab ss rst true false st) i = s_next (sync_process tab ss rst st) i.
Proof.
  unfold sync_process, sync_ctl; cbn [s_next s_curr]. destruct (stmts_mask ss i =? 0) eqn:E; auto.
  all: try (rewrite orb_false_r; cbn [negb]; rewrite andb_true_r; reflexivity).
Qed.

(* enable low and the domain's own reset low: nothing changes *)
Lemma sync_ctl_frozen tab ss rst st i :
  match rst with Some r => Z.land 1 (s_curr st r) = 0 | None => True end ->
  s_next (sync_ctl tab ss rst false false st) i = s_next st i.
Proof.
  intros Hr. unfold sync_ctl; cbn [s_next s_curr]. destruct (stmts_mask ss i =? 0); auto.
  replace (match rst with Some r => negb (Z.land 1 (s_curr st r) =? 0) | None => false end) with false.
  - simpl. apply slot_update_same.
  - destruct rst; auto. rewrite Hr. reflexivity.
Qed.

(* reset asserted (own or inserted): every driven bit of a non-reset-less signal is loaded, enable or not *)
Lemma sync_ctl_reset_bit tab ss rst en rs st i b : 0 <= b ->
  Z.testbit (um tab ss i) b = true -> sd_reset_less (tab i) = false ->
  rs = true \/ (exists r, rst = Some r /\ Z.land 1 (s_curr st r) <> 0) ->
  Z.testbit (s_next (sync_ctl tab ss rst en rs st) i) b = Z.testbit (sd_init (tab i)) b.
Proof.
  intros Hb Hd Hrl Hon. unfold sync_ctl; cbn [s_next s_curr].
  rewrite (um_driven _ _ _ _ Hd). rewrite testbit_slot_update by lia. fold (um tab ss i). rewrite Hd, Hrl.
  replace ((match rst with Some r => negb (Z.land 1 (s_curr st r) =? 0) | None => false end) || rs) with true; auto.
  destruct Hon as [->|[r [-> Hr]]]; [rewrite orb_true_r; auto|].
  replace (Z.land 1 (s_curr st r) =? 0) with false by lia. reflexivity.
Qed.

(* ---------- ResetInserter on one process ---------- *)
Definition chunk_mask (w : Z) (ch : Z * option Z) : Z :=
  match snd ch with
  | None => Z.land (-1) (Z.shiftl 1 w - 1)
  | Some hi => Z.land (Z.land (Z.shiftl (-1) (fst ch)) (Z.shiftl 1 hi - Z.shiftl 1 (fst ch))) (Z.shiftl 1 w - 1)
  end.

Definition sig_resets (tab : sigtab) (m : maskmap) (i : nat) : list stmt :=
  if sd_reset_less (tab i) then []
  else map (reset_stmt i (tab i)) (chunks (width (sd_shape (tab i))) (m i)).

Lemma reset_stmts_of_flat tab keys m : reset_stmts_of tab keys m = flat_map (sig_resets tab m) keys.
Proof. reflexivity. Qed.

Lemma exec_reset_stmt_other curr i sd ch nx j : j <> i -> exec_rtl curr (reset_stmt i sd ch) nx j = nx j.
Proof.
  intros H. unfold reset_stmt. destruct (snd ch); cbn [exec_rtl assign_rtl]; apply upd_other; auto.
Qed.

Lemma exec_reset_list_other curr i sd j : j <> i -> forall chs nx,
  exec_rtl_list curr (map (reset_stmt i sd) chs) nx j = nx j.
Proof.
  intros H. unfold exec_rtl_list. induction chs as [|c chs IH]; intros nx; simpl; auto.
  rewrite IH. apply exec_reset_stmt_other; auto.
Qed.

Lemma exec_sig_resets_other curr tab m i j nx : j <> i -> exec_rtl_list curr (sig_resets tab m i) nx j = nx j.
Proof.
  intros H. unfold sig_resets. destruct (sd_reset_less (tab i)); [reflexivity|]. apply exec_reset_list_other; auto.
Qed.

Definition wf_chunk (w : Z) (c : Z * option Z) : Prop :=
  match snd c with None => fst c = 0 | Some hi => 0 <= fst c /\ fst c < hi /\ hi <= w end.

Lemma chunks_wf w m c : 0 <= w -> In c (chunks w m) -> wf_chunk w c.
Proof.
  intros Hw. unfold chunks. destruct (m =? Z.shiftl 1 w - 1).
  - intros [<-|[]]. reflexivity.
  - rewrite in_map_iff. intros [[lo hi] [<- Hin]]. unfold wf_chunk; simpl.
    apply runs_wf in Hin; [|intros; discriminate]. unfold mask_bits in Hin. rewrite map_length, seq_length in Hin. lia.
Qed.

Section ResetBits.
Variables (curr : env) (i : nat) (sd : sigdesc).
Let s := sd_shape sd.
Let w := width s.
Hypothesis Hwf : wf_shape s = true.
Hypothesis Hinit : in_range s (sd_init sd).

Lemma testbit_rsign_low x b : 0 <= b < w -> Z.testbit (rsign s x) b = Z.testbit x b.
Proof.
  intros Hb. rewrite rsign_norm by auto. rewrite testbit_norm by (auto; lia). fold w.
  replace (b <? w) with true by lia. destruct (sgn s); reflexivity.
Qed.

Lemma exec_reset_stmt_bit ch nx b : wf_chunk w ch -> 0 <= b < w ->
  Z.testbit (exec_rtl curr (reset_stmt i sd ch) nx i) b =
  if in_chunk w b ch then Z.testbit (sd_init sd) b else Z.testbit (nx i) b.
Proof.
  intros Hch Hb. unfold reset_stmt, in_chunk, wf_chunk in *. fold s. destruct ch as [lo [hi|]]; cbn [fst snd] in *.
  - cbn [exec_rtl assign_rtl lread shape_of eval_rtl]. rewrite upd_same.
    rewrite testbit_rsign_low by auto. rewrite testbit_rmw by lia.
    replace (lo + (hi - lo)) with hi by lia.
    destruct ((lo <=? b) && (b <? hi)) eqn:E; auto.
    rewrite rsign_norm by (unfold wf_shape; simpl; lia). rewrite norm_unsigned. rewrite rmask_mask by lia.
    rewrite mask_idem by lia. rewrite testbit_mask by lia. replace (b - lo <? hi - lo) with true by lia.
    rewrite const_norm_spec by auto. rewrite norm_id by auto. cbn [andb]. rewrite Z.shiftr_spec by lia. f_equal. lia.
  - subst lo. cbn [exec_rtl assign_rtl shape_of eval_rtl]. rewrite upd_same.
    rewrite !rsign_norm by auto. rewrite const_norm_spec by auto.
    repeat rewrite (norm_id s (sd_init sd)) by auto.
    replace ((0 <=? b) && (b <? w)) with true by lia. reflexivity.
Qed.

Lemma exec_reset_stmt_shape ch nx : exists x, exec_rtl curr (reset_stmt i sd ch) nx i = rsign s x.
Proof.
  unfold reset_stmt. fold s. destruct (snd ch); cbn [exec_rtl assign_rtl]; rewrite upd_same; eauto.
Qed.

Lemma exec_reset_list_bit : forall chs nx b, (forall c, In c chs -> wf_chunk w c) -> 0 <= b < w ->
  Z.testbit (exec_rtl_list curr (map (reset_stmt i sd) chs) nx i) b =
  if existsb (in_chunk w b) chs then Z.testbit (sd_init sd) b else Z.testbit (nx i) b.
Proof.
  unfold exec_rtl_list. induction chs as [|c chs IH]; intros nx b Hch Hb; simpl; auto.
  rewrite IH by (auto; intros; apply Hch; simpl; auto).
  rewrite exec_reset_stmt_bit by (auto; apply Hch; simpl; auto).
  destruct (in_chunk w b c), (existsb (in_chunk w b) chs); reflexivity.
Qed.

Lemma exec_reset_list_shape : forall chs nx, chs <> [] ->
  exists x, exec_rtl_list curr (map (reset_stmt i sd) chs) nx i = rsign s x.
Proof.
  unfold exec_rtl_list. induction chs as [|c chs IH]; intros nx H; [congruence|]. simpl.
  destruct chs as [|c' chs'].
  - simpl. apply exec_reset_stmt_shape.
  - apply IH. discriminate.
Qed.

(* every bit handed to update() (sign bits included) holds the initial value after the chunk assignments *)
Lemma exec_reset_list_um m nx b : 0 <= b ->
  (forall k, w <= k -> Z.testbit m k = false) ->
  Z.testbit (update_mask s m) b = true ->
  Z.testbit (exec_rtl_list curr (map (reset_stmt i sd) (chunks w m)) nx i) b = Z.testbit (sd_init sd) b.
Proof.
  intros Hb Hm Hu.
  assert (Hw : 0 <= w) by (unfold w, wf_shape in *; destruct (sgn s); lia).
  assert (Hchs : forall c, In c (chunks w m) -> wf_chunk w c) by (intros; eapply chunks_wf; eauto).
  destruct (Z.lt_ge_cases b w) as [Hlt|Hge].
  - rewrite exec_reset_list_bit by (auto; lia). rewrite chunks_cover by lia.
    assert (Z.testbit m b = true).
    { unfold update_mask in Hu. destruct (sgn s && Z.testbit m (width s - 1)); auto.
      rewrite Z.lor_spec, Z.shiftl_spec in Hu by lia. rewrite (Z.testbit_neg_r _ (b - width s)) in Hu by (fold w; lia).
      rewrite orb_false_r in Hu. auto. }
    rewrite H. reflexivity.
  - (* sign bits: only for a signed signal whose MSB is driven *)
    unfold update_mask in Hu. destruct (sgn s) eqn:Hsg; cbn [andb] in Hu.
    2:{ rewrite Hm in Hu by auto. discriminate. }
    destruct (Z.testbit m (width s - 1)) eqn:Hmsb; [|rewrite Hm in Hu by auto; discriminate].
    fold w in Hmsb.
    assert (Hw1 : 1 <= w) by (unfold w, wf_shape in *; rewrite Hsg in Hwf; lia).
    assert (Hne : chunks w m <> []).
    { intro E. pose proof (chunks_cover w m (w - 1) ltac:(lia)) as C. rewrite E, Hmsb in C. discriminate. }
    destruct (exec_reset_list_shape (chunks w m) nx Hne) as [x Hx].
    assert (Hmsbv : Z.testbit (rsign s x) (w - 1) = Z.testbit (sd_init sd) (w - 1)).
    { rewrite <- Hx. rewrite exec_reset_list_bit by (auto; lia). rewrite chunks_cover by lia. rewrite Hmsb. reflexivity. }
    rewrite Hx.
    assert (Hhi : forall y, Z.testbit (norm s y) b = Z.testbit (norm s y) (w - 1)).
    { intros y. rewrite !testbit_norm by (auto; lia). rewrite Hsg. fold w.
      replace (b <? w) with false by lia. replace (w - 1 <? w) with true by lia. reflexivity. }
    rewrite rsign_norm in Hmsbv by auto. rewrite rsign_norm by auto.
    rewrite Hhi. rewrite Hmsbv. rewrite <- (norm_id s (sd_init sd)) by auto. symmetry. apply Hhi.
Qed.
End ResetBits.

(* ---------- the whole reset block ---------- *)
Record tab_ok (tab : sigtab) : Prop := {
  tk_wf : forall i, wf_shape (sd_shape (tab i)) = true;
  tk_init : forall i, in_range (sd_shape (tab i)) (sd_init (tab i)) }.

(* facts about the collector on a statement list (true of every list whose ESig shapes agree with tab) *)
Record collector_ok (tab : sigtab) (ss : list stmt) : Prop := {
  ck_width : forall i k, width (sd_shape (tab i)) <= k -> Z.testbit (stmts_mask ss i) k = false;
  ck_keys : forall i, stmts_mask ss i <> 0 -> In i (lhs_keys ss) }.

Lemma uniq_nodup : forall l seen, NoDup (uniq seen l) /\ forall x, In x (uniq seen l) -> ~ In x seen.
Proof.
  induction l as [|x l IH]; intros seen; simpl.
  - split; [constructor|contradiction].
  - destruct (existsb (Nat.eqb x) seen) eqn:E.
    + apply IH.
    + destruct (IH (x :: seen)) as [N S]. split.
      * constructor; auto. intro H. apply S in H. apply H. simpl. auto.
      * intros y [<-|Hy].
        -- intro H. assert (existsb (Nat.eqb x) seen = true) by (apply existsb_exists; exists x; split; auto; apply Nat.eqb_refl). congruence.
        -- apply S in Hy. intro. apply Hy. simpl. auto.
Qed.

Lemma lhs_keys_nodup ss : NoDup (lhs_keys ss).
Proof. apply uniq_nodup. Qed.

Section ResetBlock.
Variables (tab : sigtab) (curr : env) (m : maskmap) (i : nat).
Hypothesis Htab : tab_ok tab.
Hypothesis Hm : forall k, width (sd_shape (tab i)) <= k -> Z.testbit (m i) k = false.

Lemma reset_keys_bits : forall keys nx, NoDup keys ->
  (sd_reset_less (tab i) = true \/ ~ In i keys -> exec_rtl_list curr (flat_map (sig_resets tab m) keys) nx i = nx i) /\
  (sd_reset_less (tab i) = false -> In i keys -> forall b, 0 <= b ->
     Z.testbit (update_mask (sd_shape (tab i)) (m i)) b = true ->
     Z.testbit (exec_rtl_list curr (flat_map (sig_resets tab m) keys) nx i) b = Z.testbit (sd_init (tab i)) b).
Proof.
  induction keys as [|k keys IH]; intros nx Hnd.
  - split; [reflexivity|contradiction].
  - inversion Hnd as [|? ? Hnotin Hnd']; subst. cbn [flat_map]. rewrite exec_list_app.
    destruct (IH (exec_rtl_list curr (sig_resets tab m k) nx) Hnd') as [IH1 IH2]. split.
    + intros H. rewrite IH1 by (destruct H as [H|H]; [left; auto|right; intro; apply H; simpl; auto]).
      destruct (Nat.eq_dec k i) as [->|Hne].
      * destruct H as [H|H]; [|exfalso; apply H; simpl; auto]. unfold sig_resets. rewrite H. reflexivity.
      * apply exec_sig_resets_other. auto.
    + intros Hrl Hin b Hb Hu. destruct (Nat.eq_dec k i) as [->|Hne].
      * rewrite IH1 by (right; auto). unfold sig_resets. rewrite Hrl.
        apply exec_reset_list_um; auto; [apply (tk_wf _ Htab)|apply (tk_init _ Htab)].
      * destruct Hin as [Hin|Hin]; [congruence|]. apply IH2; auto.
Qed.
End ResetBlock.

(* the inserted statements only name bits that are already in the mask *)
Lemma stmt_mask_reset_stmt i sd ch acc j :
  stmt_mask (reset_stmt i sd ch) acc j =
  if Nat.eqb j i then Z.lor (acc j) (chunk_mask (width (sd_shape sd)) ch) else acc j.
Proof.
  unfold reset_stmt, chunk_mask. destruct (snd ch); cbn [stmt_mask lhs_mask]; unfold mm_or; reflexivity.
Qed.

Lemma chunk_mask_sub w mk c : 0 <= w -> In c (chunks w mk) ->
  (forall k, w <= k -> Z.testbit mk k = false) -> Z.lor mk (chunk_mask w c) = mk.
Proof.
  intros Hw Hin Hmk. apply Z.bits_inj'. intros b Hb. rewrite Z.lor_spec.
  destruct (Z.testbit mk b) eqn:E; auto. cbn [orb].
  pose proof (chunks_wf w mk c Hw Hin) as Hc.
  destruct (Z.lt_ge_cases b w) as [Hlt|Hge].
  - pose proof (chunks_cover w mk b ltac:(lia)) as C. rewrite E in C.
    assert (Hn : in_chunk w b c = false).
    { destruct (in_chunk w b c) eqn:E2; auto.
      assert (existsb (in_chunk w b) (chunks w mk) = true) by (apply existsb_exists; eauto). congruence. }
    unfold chunk_mask, in_chunk, wf_chunk in *. destruct c as [lo [hi|]]; cbn [fst snd] in *.
    + rewrite !Z.land_spec. rewrite Z.shiftl_spec by lia.
      destruct (Z.lt_ge_cases b lo) as [H1|H1].
      * rewrite (Z.testbit_neg_r _ (b - lo)) by lia. reflexivity.
      * assert (hi <= b) by lia.
        replace (Z.shiftl 1 hi - Z.shiftl 1 lo) with (Z.shiftl (Z.ones (hi - lo)) lo).
        2:{ rewrite !Z.shiftl_mul_pow2 by lia. rewrite Z.ones_equiv. replace hi with ((hi - lo) + lo) at 2 by lia.
            rewrite Z.pow_add_r by lia. lia. }
        rewrite (Z.shiftl_spec (Z.ones _)) by lia. rewrite Z.ones_spec_high by lia. rewrite andb_false_r. reflexivity.
    + subst lo. lia.
  - unfold chunk_mask. destruct (snd c); rewrite !Z.land_spec;
      replace (Z.shiftl 1 w - 1) with (Z.ones w) by (unfold Z.ones; lia); rewrite Z.ones_spec_high by lia;
      rewrite andb_false_r; reflexivity.
Qed.

Lemma reset_stmts_mask tab mk keys :
  (forall i, 0 <= width (sd_shape (tab i))) ->
  (forall i k, width (sd_shape (tab i)) <= k -> Z.testbit (mk i) k = false) ->
  forall acc j, (forall j, acc j = mk j) ->
  fold_left (fun acc s => stmt_mask s acc) (flat_map (sig_resets tab mk) keys) acc j = mk j.
Proof.
  intros Hw Hmk. induction keys as [|k keys IH]; intros acc j Hacc; cbn [flat_map fold_left]; auto.
  rewrite fold_left_app. apply IH. clear IH. intros j'.
  unfold sig_resets. destruct (sd_reset_less (tab k)); [apply Hacc|].
  assert (G : forall chs acc, (forall c, In c chs -> In c (chunks (width (sd_shape (tab k))) (mk k))) ->
              (forall j, acc j = mk j) ->
              fold_left (fun acc s => stmt_mask s acc) (map (reset_stmt k (tab k)) chs) acc j' = mk j').
  { induction chs as [|c chs IHc]; intros acc0 Hsub Ha; cbn [map fold_left]; auto.
    apply IHc; [intros; apply Hsub; simpl; auto|]. intros j0. rewrite stmt_mask_reset_stmt.
    destruct (Nat.eqb j0 k) eqn:E; auto. apply Nat.eqb_eq in E. subst j0. rewrite Ha.
    apply chunk_mask_sub; auto. apply Hsub; simpl; auto. }
  apply G; auto.
Qed.

Lemma stmts_mask_reset tab ss c j : tab_ok tab -> collector_ok tab ss ->
  stmts_mask (ss ++ [ctl_switch c (reset_stmts tab ss)]) j = stmts_mask ss j.
Proof.
  intros Ht Hc. unfold stmts_mask at 1. rewrite fold_left_app. cbn [fold_left]. rewrite stmt_mask_ctl_switch.
  fold (stmts_mask ss). unfold reset_stmts. rewrite reset_stmts_of_flat. apply reset_stmts_mask; auto.
  - intros i. pose proof (tk_wf _ Ht i) as H. unfold wf_shape in H. destruct (sgn _); lia.
  - apply (ck_width _ _ Hc).
Qed.

(* ResetInserter on one process (generalised to an already present inserted reset `rs`) *)
Theorem reset_ctl tab ss c rst rs st : shape_of c = Sh 1 false -> tab_ok tab -> collector_ok tab ss ->
  forall i, s_next (sync_ctl tab (ss ++ [ctl_switch c (reset_stmts tab ss)]) rst true rs st) i
          = s_next (sync_ctl tab ss rst true (ctl_on (s_curr st) c || rs) st) i.
Proof.
  intros Hc Ht Hk i. unfold sync_ctl; cbn [s_next s_curr]. rewrite stmts_mask_reset by auto.
  destruct (stmts_mask ss i =? 0) eqn:E; auto.
  apply slot_update_agree. intros b Hb Hu.
  set (rst_on := match rst with Some r => negb (Z.land 1 (s_curr st r) =? 0) | None => false end).
  rewrite exec_list_app. unfold exec_rtl_list at 1. cbn [fold_left]. rewrite exec_ctl_switch by auto.
  fold (exec_rtl_list (s_curr st) ss (s_next st)).
  destruct (sd_reset_less (tab i)) eqn:Hrl.
  - rewrite !andb_false_r. destruct (ctl_on (s_curr st) c); auto.
    unfold reset_stmts. rewrite reset_stmts_of_flat. f_equal.
    apply (reset_keys_bits tab (s_curr st) (stmts_mask ss) i Ht (ck_width _ _ Hk i)); [apply lhs_keys_nodup|auto].
  - rewrite !andb_true_r. destruct rst_on; cbn [orb]; auto.
    destruct (ctl_on (s_curr st) c); cbn [orb]; auto. destruct rs; auto.
    unfold reset_stmts. rewrite reset_stmts_of_flat.
    apply (reset_keys_bits tab (s_curr st) (stmts_mask ss) i Ht (ck_width _ _ Hk i)); auto.
    + apply lhs_keys_nodup.
    + apply (ck_keys _ _ Hk). intro H0. rewrite H0 in E. discriminate.
Qed.

Theorem reset_process tab ss c rst st : shape_of c = Sh 1 false -> tab_ok tab -> collector_ok tab ss ->
  forall i, s_next (sync_process tab (ss ++ [ctl_switch c (reset_stmts tab ss)]) rst st) i
          = s_next (sync_ctl tab ss rst true (ctl_on (s_curr st) c) st) i.
Proof.
  intros Hc Ht Hk i. rewrite <- sync_ctl_plain. rewrite reset_ctl by auto. rewrite orb_false_r. reflexivity.
Qed.

(* ================= stacks of inserters of one kind ================= *)
Lemma sync_ctl_enable tab ss c rst en st : shape_of c = Sh 1 false ->
  forall i, s_next (sync_ctl tab [ctl_switch c ss] rst en false st) i
          = s_next (sync_ctl tab ss rst (ctl_on (s_curr st) c && en) false st) i.
Proof.
  intros Hc i. unfold sync_ctl; cbn [s_next s_curr]. rewrite stmts_mask_ctl_switch.
  destruct (stmts_mask ss i =? 0) eqn:E; auto. f_equal.
  destruct en; [|rewrite andb_false_r; reflexivity]. rewrite andb_true_r.
  unfold exec_rtl_list at 1. cbn [fold_left]. rewrite exec_ctl_switch by auto.
  destruct (ctl_on (s_curr st) c); reflexivity.
Qed.

Lemma enable_n_ctl tab rst st i : forall cs ss en, Forall (fun c => shape_of c = Sh 1 false) cs ->
  s_next (sync_ctl tab (enable_n cs ss) rst en false st) i
  = s_next (sync_ctl tab ss rst (forallb (ctl_on (s_curr st)) cs && en) false st) i.
Proof.
  induction cs as [|c cs IH]; intros ss en Hf; [reflexivity|].
  inversion Hf; subst. unfold enable_n in *. cbn [fold_left forallb]. rewrite IH by auto.
  rewrite sync_ctl_enable by auto. rewrite andb_assoc. reflexivity.
Qed.

Theorem enable_n_process tab cs ss rst st : Forall (fun c => shape_of c = Sh 1 false) cs ->
  forall i, s_next (sync_process tab (enable_n cs ss) rst st) i
          = s_next (sync_ctl tab ss rst (forallb (ctl_on (s_curr st)) cs) false st) i.
Proof. intros Hf i. rewrite <- sync_ctl_plain. rewrite enable_n_ctl by auto. rewrite andb_true_r. reflexivity. Qed.

Fixpoint collector_ok_n (tab : sigtab) (cs : list expr) (ss : list stmt) : Prop :=
  match cs with
  | [] => True
  | c :: cs' => collector_ok tab ss /\ collector_ok_n tab cs' (ss ++ [ctl_switch c (reset_stmts tab ss)])
  end.

Lemma reset_n_ctl tab rst st i : tab_ok tab -> forall cs ss rs,
  Forall (fun c => shape_of c = Sh 1 false) cs -> collector_ok_n tab cs ss ->
  s_next (sync_ctl tab (reset_n tab cs ss) rst true rs st) i
  = s_next (sync_ctl tab ss rst true (existsb (ctl_on (s_curr st)) cs || rs) st) i.
Proof.
  intros Ht. induction cs as [|c cs IH]; intros ss rs Hf Hk; [reflexivity|].
  inversion Hf; subst. destruct Hk as [Hk1 Hk2]. unfold reset_n in *. cbn [fold_left existsb]. rewrite IH by auto.
  rewrite reset_ctl by auto. rewrite orb_assoc. reflexivity.
Qed.

Theorem reset_n_process tab cs ss rst st : tab_ok tab ->
  Forall (fun c => shape_of c = Sh 1 false) cs -> collector_ok_n tab cs ss ->
  forall i, s_next (sync_process tab (reset_n tab cs ss) rst st) i
          = s_next (sync_ctl tab ss rst true (existsb (ctl_on (s_curr st)) cs) st) i.
Proof. intros Ht Hf Hk i. rewrite <- sync_ctl_plain. rewrite reset_n_ctl by auto. rewrite orb_false_r. reflexivity. Qed.

(* the OR / AND of two one-bit controls *)
Lemma land1 z : Z.land 1 z = Z.b2z (Z.testbit z 0).
Proof. rewrite Z.land_comm. change 1 with (Z.ones 1). rewrite Z.land_ones by lia. symmetry. apply Z.bit0_mod. Qed.

Lemma ctl_on_or curr a b : shape_of a = Sh 1 false -> shape_of b = Sh 1 false ->
  shape_of (EOp2 OOr a b) = Sh 1 false /\
  ctl_on curr (EOp2 OOr a b) = ctl_on curr a || ctl_on curr b.
Proof.
  intros Ha Hb. split; [cbn [shape_of op2_shape]; rewrite Ha, Hb; reflexivity|].
  unfold ctl_on, ewidth. cbn [shape_of op2_shape eval_rtl rtl_op2]. rewrite Ha, Hb.
  change (width (unify2 (Sh 1 false) (Sh 1 false))) with 1. change (width (Sh 1 false)) with 1.
  unfold rsign, rmask. cbn [sgn width]. change (Z.shiftl 1 1 - 1) with 1. rewrite !land1.
  rewrite Z.lor_spec. destruct (Z.testbit (eval_rtl curr a) 0), (Z.testbit (eval_rtl curr b) 0); reflexivity.
Qed.

Lemma ctl_on_and curr a b : shape_of a = Sh 1 false -> shape_of b = Sh 1 false ->
  shape_of (EOp2 OAnd a b) = Sh 1 false /\
  ctl_on curr (EOp2 OAnd a b) = ctl_on curr a && ctl_on curr b.
Proof.
  intros Ha Hb. split; [cbn [shape_of op2_shape]; rewrite Ha, Hb; reflexivity|].
  unfold ctl_on, ewidth. cbn [shape_of op2_shape eval_rtl rtl_op2]. rewrite Ha, Hb.
  change (width (unify2 (Sh 1 false) (Sh 1 false))) with 1. change (width (Sh 1 false)) with 1.
  unfold rsign, rmask. cbn [sgn width]. change (Z.shiftl 1 1 - 1) with 1. rewrite !land1.
  rewrite Z.land_spec. destruct (Z.testbit (eval_rtl curr a) 0), (Z.testbit (eval_rtl curr b) 0); reflexivity.
Qed.

(* ================= DomainRenamer ================= *)
Lemma add_stmts_fresh d ss l : ss <> [] -> ~ In d (map fst l) -> add_stmts d ss l = l ++ [(d, ss)].
Proof.
  intros Hne. unfold add_stmts. destruct ss as [|s ss]; [congruence|]. clear Hne.
  induction l as [|e l IH]; intros H; simpl; auto.
  destruct (Nat.eqb (fst e) d) eqn:E.
  - apply Nat.eqb_eq in E. exfalso. apply H. simpl. auto.
  - f_equal. apply IH. intro. apply H. simpl. auto.
Qed.

Definition ren_entry (rho : list (nat * nat)) (e : nat * list stmt) : nat * list stmt := (rename_dom rho (fst e), snd e).

(* no two domains of the fragment are merged: renaming just re-keys the statement dict *)
Lemma rename_entries_map rho : forall st acc,
  NoDup (map fst acc ++ map (fun e => rename_dom rho (fst e)) st) ->
  (forall e, In e st -> snd e <> []) ->
  fold_left (fun acc e => add_stmts (rename_dom rho (fst e)) (snd e) acc) st acc = acc ++ map (ren_entry rho) st.
Proof.
  induction st as [|e st IH]; intros acc Hnd Hne; cbn [fold_left map].
  - rewrite app_nil_r. reflexivity.
  - rewrite add_stmts_fresh.
    + rewrite IH.
      * rewrite <- app_assoc. reflexivity.
      * rewrite map_app. cbn [map fst]. rewrite <- app_assoc. exact Hnd.
      * intros; apply Hne; simpl; auto.
    + apply Hne; simpl; auto.
    + cbn [map] in Hnd. apply NoDup_remove_2 in Hnd. intro H. apply Hnd. apply in_or_app. auto.
Qed.

Theorem rename_entries_spec rho st :
  NoDup (map (fun e => rename_dom rho (fst e)) st) -> (forall e, In e st -> snd e <> []) ->
  rename_entries rho st = map (ren_entry rho) st.
Proof. intros Hnd Hne. unfold rename_entries. rewrite rename_entries_map; auto. Qed.

Lemma fold_left_map_ext {A B C} (f : A -> B -> A) (g : C -> B) (h : A -> C -> A) l :
  (forall a x, In x l -> f a (g x) = h a x) -> forall a, fold_left f (map g l) a = fold_left h l a.
Proof.
  induction l as [|x l IH]; intros H a; simpl; auto.
  rewrite H by (simpl; auto). apply IH. intros; apply H; simpl; auto.
Qed.

(* behaviour is unchanged when the processes are re-keyed to domains with the same clock/reset configuration *)
Section Rename.
Variables (D : design) (rho : list (nat * nat)) (doms' : domtab).
Let D' := {| g_tab := g_tab D; g_doms := doms'; g_procs := map (ren_entry rho) (g_procs D); g_nsig := g_nsig D |}.
Hypothesis Hcomb : forall p, In p (g_procs D) -> (rename_dom rho (fst p) = 0%nat <-> fst p = 0%nat).
Hypothesis Hcfg : forall p, In p (g_procs D) -> fst p <> 0%nat -> doms' (rename_dom rho (fst p)) = g_doms D (fst p).

Lemma ren_eqb0 p : In p (g_procs D) -> Nat.eqb (rename_dom rho (fst p)) 0 = Nat.eqb (fst p) 0.
Proof.
  intros Hin. destruct (Nat.eqb (fst p) 0) eqn:E.
  - apply Nat.eqb_eq. apply Hcomb; auto. apply Nat.eqb_eq; auto.
  - apply Nat.eqb_neq. intro H. apply Hcomb in H; auto. apply Nat.eqb_neq in E. auto.
Qed.

Lemma settle_rename : forall fuel cur, settle fuel D' cur = settle fuel D cur.
Proof.
  induction fuel as [|k IH]; intros cur; cbn [settle]; auto.
  assert (E : eval_phase (g_tab D') (g_doms D') (fun _ => false) (g_procs D') {| s_curr := cur; s_next := cur |}
            = eval_phase (g_tab D) (g_doms D) (fun _ => false) (g_procs D) {| s_curr := cur; s_next := cur |}).
  { unfold eval_phase, D'. cbn [g_tab g_doms g_procs]. apply fold_left_map_ext. intros a x Hx.
    unfold run_proc, ren_entry. cbn [fst snd]. rewrite ren_eqb0 by auto. reflexivity. }
  rewrite E. unfold D' at 1 2 3. cbn [g_nsig]. destruct (differs _ _ _); auto.
Qed.

Theorem rename_step sp e cur : step_with sp D' e cur = step_with sp D e cur.
Proof.
  unfold step_with. unfold fuel_of. rewrite settle_rename. unfold D' at 1 2 3 4. cbn [g_nsig]. f_equal. f_equal. f_equal.
  unfold D'. cbn [g_procs g_tab g_doms]. apply fold_left_map_ext. intros a x Hx.
  unfold ren_entry. cbn [fst snd]. rewrite ren_eqb0 by auto.
  destruct (Nat.eqb (fst x) 0) eqn:E; auto. rewrite Hcfg; auto. apply Nat.eqb_neq; auto.
Qed.

Theorem rename_run sp evs : forall cur, run_with (step_with sp) D' evs cur = run_with (step_with sp) D evs cur.
Proof. induction evs as [|e evs IH]; intros cur; simpl; auto. rewrite rename_step, IH. reflexivity. Qed.
End Rename.

(* ================= extensionality: everything depends on environments pointwise ================= *)
Definition eqe (a b : env) : Prop := forall i, a i = b i.
Definition eqs (a b : slots) : Prop := eqe (s_curr a) (s_curr b) /\ eqe (s_next a) (s_next b).

Lemma eqe_refl a : eqe a a. Proof. intro; reflexivity. Qed.
Lemma eqe_sym a b : eqe a b -> eqe b a. Proof. intros H i; symmetry; apply H. Qed.
Lemma eqe_trans a b c : eqe a b -> eqe b c -> eqe a c. Proof. intros H1 H2 i; rewrite H1; apply H2. Qed.

Section stmt_ind2.
  Variable P : stmt -> Prop.
  Hypothesis Has : forall l r, P (SAssign l r).
  Hypothesis Hsw : forall t cs, Forall (fun c => Forall P (snd c)) cs -> P (SSwitch t cs).
  Fixpoint stmt_ind2 (s : stmt) : P s :=
    match s with
    | SAssign l r => Has l r
    | SSwitch t cs =>
        Hsw t cs ((fix go (cs : list (option (list pattern) * list stmt)) : Forall (fun c => Forall P (snd c)) cs :=
                     match cs with
                     | [] => Forall_nil _
                     | c :: cs' => Forall_cons _ ((fix run (ss : list stmt) : Forall P ss :=
                                                     match ss with
                                                     | [] => Forall_nil _
                                                     | s' :: ss' => Forall_cons _ (stmt_ind2 s') (run ss')
                                                     end) (snd c)) (go cs')
                     end) cs)
    end.
End stmt_ind2.

Lemma eval_rtl_ext en en' : eqe en en' -> forall e, eval_rtl en e = eval_rtl en' e.
Proof.
  intros H. induction e as [v s|j s|o a IHa|o a b0 IHa IHb|a lo hi IHa|a off w st IHa IHoff|l IH|t cs IHt IHcs]
    using expr_ind'; cbn [eval_rtl].
  - reflexivity.
  - apply H.
  - rewrite IHa. reflexivity.
  - rewrite IHa, IHb. reflexivity.
  - rewrite IHa. reflexivity.
  - rewrite IHa, IHoff. reflexivity.
  - f_equal. apply map_ext_in. intros p Hp. rewrite Forall_forall in IH. rewrite IH by auto. reflexivity.
  - rewrite IHt. f_equal. apply map_ext_in. intros c Hc. rewrite Forall_forall in IHcs. rewrite IHcs by auto. reflexivity.
Qed.

Lemma lread_ext curr curr' nx nx' : eqe curr curr' -> eqe nx nx' -> forall e, lread curr nx e = lread curr' nx' e.
Proof.
  intros Hc Hn. induction e as [v s|j s|o a IHa|o a b0 IHa IHb|a lo hi IHa|a off w st IHa IHoff|l IH|t cs IHt IHcs]
    using expr_ind'; cbn [lread].
  - reflexivity.
  - apply Hn.
  - destruct o; auto; apply (eval_rtl_ext nx nx' Hn (EOp1 _ a)).
  - apply (eval_rtl_ext nx nx' Hn (EOp2 o a b0)).
  - rewrite IHa. reflexivity.
  - rewrite IHa. rewrite (eval_rtl_ext curr curr' Hc off). reflexivity.
  - f_equal. apply map_ext_in. intros p Hp. rewrite Forall_forall in IH. rewrite IH by auto. reflexivity.
  - rewrite (eval_rtl_ext curr curr' Hc t). f_equal. apply map_ext_in. intros c Hcs.
    rewrite Forall_forall in IHcs. rewrite IHcs by auto. reflexivity.
Qed.

Lemma upd_ext nx nx' i v : eqe nx nx' -> eqe (upd nx i v) (upd nx' i v).
Proof. intros H j. unfold upd. destruct (Nat.eqb j i); auto. Qed.

Lemma assign_rtl_ext curr curr' : eqe curr curr' ->
  forall lhs arg nx nx', eqe nx nx' -> eqe (assign_rtl curr lhs arg nx) (assign_rtl curr' lhs arg nx').
Proof.
  intros Hc. induction lhs as [v s|j s|o a IHa|o a b0 IHa IHb|a lo hi IHa|a off w st IHa IHoff|l IH|t cs IHt IHcs]
    using expr_ind'; intros arg nx nx' Hn; cbn [assign_rtl].
  - exact Hn.
  - apply upd_ext; auto.
  - destruct o; auto.
  - exact Hn.
  - rewrite (lread_ext curr curr' nx nx' Hc Hn a). apply IHa; auto.
  - rewrite (lread_ext curr curr' nx nx' Hc Hn a). rewrite (eval_rtl_ext curr curr' Hc off). apply IHa; auto.
  - generalize 0 as offset. revert nx nx' Hn. induction l as [|p ps IHl]; intros nx nx' Hn offset; auto.
    inversion IH as [|? ? Hp Hps]; subst. apply IHl; auto.
  - rewrite (eval_rtl_ext curr curr' Hc t). generalize (use_match (map fst cs)) as um0. intro um0.
    induction cs as [|c cs' IHl]; auto. inversion IHcs as [|? ? Hp Hps]; subst.
    destruct (rtl_case_match _ _ (fst c)); auto.
Qed.

Lemma exec_rtl_ext curr curr' : eqe curr curr' ->
  forall s nx nx', eqe nx nx' -> eqe (exec_rtl curr s nx) (exec_rtl curr' s nx').
Proof.
  intros Hc. induction s as [l r|t cs IH] using stmt_ind2; intros nx nx' Hn; cbn [exec_rtl].
  - rewrite (eval_rtl_ext curr curr' Hc r). apply assign_rtl_ext; auto.
  - rewrite (eval_rtl_ext curr curr' Hc t). generalize (use_match (map fst cs)) as um0. intro um0.
    induction cs as [|c cs' IHl]; auto. inversion IH as [|? ? Hp Hps]; subst.
    destruct (rtl_case_match _ _ (fst c)); auto.
    clear IHl Hps. revert nx nx' Hn. induction (snd c) as [|s' ss' IHs]; intros nx nx' Hn; auto.
    inversion Hp; subst. apply IHs; auto.
Qed.

Lemma exec_rtl_list_ext curr curr' : eqe curr curr' ->
  forall ss nx nx', eqe nx nx' -> eqe (exec_rtl_list curr ss nx) (exec_rtl_list curr' ss nx').
Proof.
  intros Hc. unfold exec_rtl_list. induction ss as [|s ss IH]; intros nx nx' Hn; simpl; auto.
  apply IH. apply exec_rtl_ext; auto.
Qed.

Lemma ctl_on_ext curr curr' c : eqe curr curr' -> ctl_on curr c = ctl_on curr' c.
Proof. intros H. unfold ctl_on. rewrite (eval_rtl_ext curr curr' H c). reflexivity. Qed.

Lemma comb_process_ext tab ss st st' : eqs st st' -> eqs (comb_process tab ss st) (comb_process tab ss st').
Proof.
  intros [Hc Hn]. split; [exact Hc|]. intros i. unfold comb_process; cbn [s_next s_curr]. rewrite (Hn i).
  destruct (stmts_mask ss i =? 0); auto. f_equal.
  apply exec_rtl_list_ext; auto. intros j. rewrite (Hn j). reflexivity.
Qed.

Lemma sync_ctl_ext tab ss rst en rs st st' : eqs st st' ->
  eqs (sync_ctl tab ss rst en rs st) (sync_ctl tab ss rst en rs st').
Proof.
  intros [Hc Hn]. split; [exact Hc|]. intros i. unfold sync_ctl; cbn [s_next s_curr]. rewrite (Hn i).
  destruct (stmts_mask ss i =? 0); auto. f_equal.
  replace (match rst with Some r => negb (Z.land 1 (s_curr st' r) =? 0) | None => false end)
    with (match rst with Some r => negb (Z.land 1 (s_curr st r) =? 0) | None => false end)
    by (destruct rst; auto; rewrite (Hc n); reflexivity).
  destruct (_ && _); auto. destruct en; auto. apply exec_rtl_list_ext; auto.
Qed.

Lemma freeze_eqe n a : eqe (freeze n a) a.
Proof. intro i. apply freeze_eq. Qed.

Lemma differs_ext n a a' b b' : eqe a a' -> eqe b b' -> differs n a b = differs n a' b'.
Proof.
  intros Ha Hb. unfold differs. induction (seq 0 n) as [|x l IH]; simpl; auto. rewrite IH, (Ha x), (Hb x). reflexivity.
Qed.

Lemma clk_edge_ext c old old' new new' : eqe old old' -> eqe new new' -> clk_edge c old new = clk_edge c old' new'.
Proof. intros Ho Hn. unfold clk_edge. rewrite (Ho (d_clk c)), (Hn (d_clk c)). reflexivity. Qed.
Lemma rst_rise_ext c old old' new new' : eqe old old' -> eqe new new' -> rst_rise c old new = rst_rise c old' new'.
Proof. intros Ho Hn. unfold rst_rise. destruct (d_rst c) as [r|]; auto. rewrite (Ho r), (Hn r). reflexivity. Qed.

(* the reset-only activation depends on the statements only through their masks *)
Lemma reset_only_rel tab ss ss' st st' : (forall i, stmts_mask ss i = stmts_mask ss' i) -> eqs st st' ->
  eqs (reset_only tab ss st) (reset_only tab ss' st').
Proof.
  intros Hm [Hc Hn]. split; [exact Hc|]. intros i. unfold reset_only; cbn [s_next]. rewrite (Hm i), (Hn i). reflexivity.
Qed.

Lemma fired_ext c old old' new new' : eqe old old' -> eqe new new' -> fired c old new = fired c old' new'.
Proof.
  intros Ho Hn. unfold fired, clk_edge, rst_rise. rewrite (Ho (d_clk c)), (Hn (d_clk c)).
  destruct (d_rst c) as [r|]; auto. rewrite (Ho r), (Hn r). reflexivity.
Qed.

Lemma apply_writes_ext e : forall a a', eqe a a' -> eqe (apply_writes e a) (apply_writes e a').
Proof.
  unfold apply_writes. induction e as [|w e IH]; intros a a' H; simpl; auto. apply IH. apply upd_ext; auto.
Qed.

(* fold of related process functions over related slots *)
Lemma fold_eqs {A B} (F : slots -> A -> slots) (G : slots -> B -> slots) (g : B -> A) l :
  (forall x st st', In x l -> eqs st st' -> eqs (F st (g x)) (G st' x)) ->
  forall st st', eqs st st' -> eqs (fold_left F (map g l) st) (fold_left G l st').
Proof.
  induction l as [|x l IH]; intros H st st' Hs; simpl; auto.
  apply IH; [intros; apply H; simpl; auto|]. apply H; simpl; auto.
Qed.

Lemma settle_ext D : forall fuel cur cur', eqe cur cur' -> eqe (settle fuel D cur) (settle fuel D cur').
Proof.
  induction fuel as [|k IH]; intros cur cur' H; cbn [settle]; auto.
  set (a := s_next (eval_phase _ _ _ _ {| s_curr := cur; s_next := cur |})).
  set (a' := s_next (eval_phase _ _ _ _ {| s_curr := cur'; s_next := cur' |})).
  assert (Ha : eqe a a').
  { unfold a, a', eval_phase. rewrite <- (map_id (g_procs D)) at 1.
    apply (fold_eqs _ _ (fun x => x)); [|split; exact H].
    intros p st st' _ Hs. unfold run_proc. destruct (Nat.eqb (fst p) 0); auto. apply comb_process_ext; auto. }
  assert (Hf : eqe (freeze (g_nsig D) a) (freeze (g_nsig D) a')).
  { eapply eqe_trans; [apply freeze_eqe|]. eapply eqe_trans; [exact Ha|]. apply eqe_sym, freeze_eqe. }
  rewrite (differs_ext _ cur cur' _ _ H Hf). destruct (differs _ _ _); auto.
Qed.

(* a process rewriting that keeps the domain and the comb processes does not change the comb-only deltas *)
Lemma settle_map_procs T D :
  (forall p, In p (g_procs D) -> fst (T p) = fst p /\ (fst p = 0%nat -> T p = p)) ->
  forall fuel cur, settle fuel (map_procs T D) cur = settle fuel D cur.
Proof.
  intros HT. induction fuel as [|k IH]; intros cur; cbn [settle]; auto.
  assert (E : eval_phase (g_tab (map_procs T D)) (g_doms (map_procs T D)) (fun _ => false) (g_procs (map_procs T D))
                {| s_curr := cur; s_next := cur |}
            = eval_phase (g_tab D) (g_doms D) (fun _ => false) (g_procs D) {| s_curr := cur; s_next := cur |}).
  { unfold eval_phase, map_procs. cbn [g_tab g_doms g_procs]. apply fold_left_map_ext. intros a x Hx.
    destruct (HT x Hx) as [H1 H2]. unfold run_proc. rewrite H1.
    destruct (Nat.eqb (fst x) 0) eqn:E; auto. apply Nat.eqb_eq in E. rewrite (H2 E). reflexivity. }
  rewrite E. unfold map_procs at 1 2 3. cbn [g_nsig]. destruct (differs _ _ _); auto.
Qed.

(* ================= refinement: transformed design run = spec run of the original design ================= *)
Section Refine.
Variables (D : design) (T : nat * list stmt -> nat * list stmt) (en_of rs_of : nat -> env -> bool).
Hypothesis HT : forall p, In p (g_procs D) -> fst (T p) = fst p /\ (fst p = 0%nat -> T p = p).
(* one activation of a transformed sync process is `sync_ctl` of the original one *)
Hypothesis Hproc : forall p, In p (g_procs D) -> fst p <> 0%nat -> forall rst st i,
  s_next (sync_process (g_tab D) (snd (T p)) rst st) i
  = s_next (sync_ctl (g_tab D) (snd p) rst (en_of (fst p) (s_curr st)) (rs_of (fst p) (s_curr st)) st) i.
(* ... and the rewriting keeps the LHS masks (what a reset rise alone loads) *)
Hypothesis Hmask : forall p, In p (g_procs D) -> fst p <> 0%nat -> forall i,
  stmts_mask (snd (T p)) i = stmts_mask (snd p) i.
Hypothesis Hen : forall d a a', eqe a a' -> en_of d a = en_of d a'.
Hypothesis Hrs : forall d a a', eqe a a' -> rs_of d a = rs_of d a'.

Theorem refine_step e cur cur' : eqe cur cur' ->
  eqe (step (map_procs T D) e cur) (step_ctl en_of rs_of D e cur').
Proof.
  intros Hcur. unfold step. rewrite step_with_unfold. cbv zeta. unfold step_ctl, step_gen.
  change (fuel_of (map_procs T D)) with (fuel_of D). change (g_nsig (map_procs T D)) with (g_nsig D).
  rewrite settle_map_procs by exact HT.
  apply settle_ext.
  eapply eqe_trans; [apply freeze_eqe|]. eapply eqe_trans; [|apply eqe_sym, freeze_eqe].
  set (nx := freeze (g_nsig D) (apply_writes e cur)). set (nx' := freeze (g_nsig D) (apply_writes e cur')).
  assert (Hnx : eqe nx nx').
  { unfold nx, nx'. eapply eqe_trans; [apply freeze_eqe|]. eapply eqe_trans; [|apply eqe_sym, freeze_eqe].
    apply apply_writes_ext; auto. }
  cbn [g_procs map_procs].
  assert (G : forall l, incl l (g_procs D) -> forall st st', eqs st st' -> eqe (s_curr st') nx' ->
            eqs (fold_left (delta2 sync_code (map_procs T D) cur nx) (map T l) st)
                (fold_left (ctl_proc (g_tab D) (g_doms D) en_of rs_of cur' nx') l st')).
  { induction l as [|p l IH]; intros Hl st st' Hs Hc'; simpl; auto.
    assert (Hin : In p (g_procs D)) by (apply Hl; simpl; auto).
    destruct (HT p Hin) as [H1 H2].
    assert (Hstep : eqs (delta2 sync_code (map_procs T D) cur nx st (T p))
                        (ctl_proc (g_tab D) (g_doms D) en_of rs_of cur' nx' st' p)).
    { unfold delta2, ctl_proc. cbn [g_tab g_doms map_procs]. rewrite H1.
      destruct (Nat.eqb (fst p) 0) eqn:E0.
      - apply Nat.eqb_eq in E0. rewrite (H2 E0). apply comb_process_ext; auto.
      - apply Nat.eqb_neq in E0. unfold sync_code.
        rewrite (clk_edge_ext _ cur cur' nx nx' Hcur Hnx), (rst_rise_ext _ cur cur' nx nx' Hcur Hnx).
        destruct (clk_edge _ _ _); [|destruct (rst_rise _ _ _); auto; apply reset_only_rel; auto; apply Hmask; auto].
        destruct Hs as [Hsc Hsn]. split; [exact Hsc|]. intros i.
        rewrite (Hproc p Hin E0).
        rewrite (Hen (fst p) (s_curr st) nx'), (Hrs (fst p) (s_curr st) nx')
          by (eapply eqe_trans; [exact Hsc|exact Hc']).
        apply (sync_ctl_ext (g_tab D) (snd p) _ _ _ st st'). split; auto. }
    apply IH; auto.
    - intros q Hq. apply Hl. simpl. auto.
    - unfold ctl_proc. destruct (Nat.eqb (fst p) 0); [exact Hc'|]. destruct (clk_edge _ _ _); [exact Hc'|].
      destruct (rst_rise _ _ _); exact Hc'. }
  apply G; [apply incl_refl| split; exact Hnx | apply eqe_refl].
Qed.

(* over every event sequence, from related states *)
Theorem refine_trace : forall evs cur cur', eqe cur cur' ->
  eqe (state_after (step (map_procs T D)) evs cur) (state_after (step_ctl en_of rs_of D) evs cur').
Proof.
  unfold state_after. induction evs as [|e evs IH]; intros cur cur' H; simpl; auto.
  apply IH. apply refine_step. auto.
Qed.
End Refine.

(* ================= the inserters on fragment trees are maps over the process list ================= *)
Section frag_ind2.
  Variable P : frag -> Prop.
  Hypothesis H : forall st ms subs, Forall P subs -> P (Frag st ms subs).
  Fixpoint frag_ind2 (f : frag) : P f :=
    match f with
    | Frag st ms subs => H st ms subs ((fix go (l : list frag) : Forall P l :=
                                   match l with [] => Forall_nil _ | x :: xs => Forall_cons _ (frag_ind2 x) (go xs) end) subs)
    end.
End frag_ind2.

Lemma flatten_map_entries (T : nat * list stmt -> nat * list stmt) (X : frag -> frag) :
  (forall st ms subs, exists ms', X (Frag st ms subs) = Frag (map T st) ms' (map X subs)) ->
  forall f, flatten (X f) = map T (flatten f).
Proof.
  intros HX. induction f as [st ms subs IH] using frag_ind2. destruct (HX st ms subs) as [ms' ->]. cbn [flatten]. rewrite map_app. f_equal.
  induction subs as [|s subs IHs]; auto. inversion IH; subst. cbn [map flat_map]. rewrite map_app. f_equal; auto.
Qed.

Lemma flatten_reset tab ctl f : flatten (reset_inserter tab ctl f) = map (reset_entry tab ctl) (flatten f).
Proof. apply flatten_map_entries. intros; eexists; reflexivity. Qed.
Lemma flatten_enable ctl f : flatten (enable_inserter ctl f) = map (enable_entry ctl) (flatten f).
Proof. apply flatten_map_entries. intros; eexists; reflexivity. Qed.

Lemma mk_design_reset tab doms ctl f n :
  mk_design tab doms (reset_inserter tab ctl f) n = map_procs (reset_entry tab ctl) (mk_design tab doms f n).
Proof. unfold mk_design, map_procs. cbn [g_tab g_doms g_procs g_nsig]. rewrite flatten_reset. reflexivity. Qed.
Lemma mk_design_enable tab doms ctl f n :
  mk_design tab doms (enable_inserter ctl f) n = map_procs (enable_entry ctl) (mk_design tab doms f n).
Proof. unfold mk_design, map_procs. cbn [g_tab g_doms g_procs g_nsig]. rewrite flatten_enable. reflexivity. Qed.

Definition ctl_ok (ctl : controls) : Prop := forall d c, lookup d ctl = Some c -> shape_of c = Sh 1 false.

Lemma ctl_of_ext ctl dflt d a a' : eqe a a' -> ctl_of ctl dflt d a = ctl_of ctl dflt d a'.
Proof. intros H. unfold ctl_of. destruct (lookup d ctl); auto. apply ctl_on_ext; auto. Qed.

Lemma reset_entry_shape tab ctl p : fst (reset_entry tab ctl p) = fst p /\ (fst p = 0%nat -> reset_entry tab ctl p = p).
Proof.
  unfold reset_entry. destruct (Nat.eqb (fst p) 0) eqn:E; [auto|]. apply Nat.eqb_neq in E.
  destruct (lookup (fst p) ctl); split; auto; intros; congruence.
Qed.
Lemma enable_entry_shape ctl p : fst (enable_entry ctl p) = fst p /\ (fst p = 0%nat -> enable_entry ctl p = p).
Proof.
  unfold enable_entry. destruct (Nat.eqb (fst p) 0) eqn:E; [auto|]. apply Nat.eqb_neq in E.
  destruct (lookup (fst p) ctl); split; auto; intros; congruence.
Qed.

Lemma stmts_mask_enable_n cs : forall ss, stmts_mask (enable_n cs ss) = stmts_mask ss.
Proof.
  unfold enable_n. induction cs as [|c cs IH]; intros ss; [reflexivity|]. cbn [fold_left]. rewrite IH.
  apply stmts_mask_ctl_switch.
Qed.

Lemma stmts_mask_reset_n tab cs : tab_ok tab -> forall ss, collector_ok_n tab cs ss ->
  forall i, stmts_mask (reset_n tab cs ss) i = stmts_mask ss i.
Proof.
  intros Ht. unfold reset_n. induction cs as [|c cs IH]; intros ss Hk i; [reflexivity|].
  destruct Hk as [Hk1 Hk2]. cbn [fold_left]. rewrite IH by auto. apply stmts_mask_reset; auto.
Qed.

(* ResetInserter: over every event sequence the wrapped design is the original design run with the explicit
   extra reset `ctl d` on every sync process of a named domain d (enable constantly high) *)
Theorem reset_inserter_refines D ctl : tab_ok (g_tab D) -> ctl_ok ctl ->
  (forall p, In p (g_procs D) -> fst p <> 0%nat -> lookup (fst p) ctl <> None -> collector_ok (g_tab D) (snd p)) ->
  forall evs cur cur', eqe cur cur' ->
  eqe (state_after (step (map_procs (reset_entry (g_tab D) ctl) D)) evs cur)
      (state_after (step_ctl (fun _ _ => true) (ctl_of ctl false) D) evs cur').
Proof.
  intros Ht Hc Hk. apply refine_trace.
  - intros p _. apply reset_entry_shape.
  - intros p Hin H0 rst st i. unfold reset_entry, ctl_of.
    replace (Nat.eqb (fst p) 0) with false by (symmetry; apply Nat.eqb_neq; auto).
    destruct (lookup (fst p) ctl) as [c|] eqn:E.
    + cbn [snd]. apply reset_process; eauto. apply Hk; auto. congruence.
    + symmetry. apply sync_ctl_plain.
  - intros p Hin H0 i. unfold reset_entry.
    replace (Nat.eqb (fst p) 0) with false by (symmetry; apply Nat.eqb_neq; auto).
    destruct (lookup (fst p) ctl) as [c|] eqn:E; [|reflexivity].
    cbn [snd]. apply stmts_mask_reset; auto. apply Hk; auto. congruence.
  - reflexivity.
  - intros; apply ctl_of_ext; auto.
Qed.

Theorem enable_inserter_refines D ctl : ctl_ok ctl ->
  forall evs cur cur', eqe cur cur' ->
  eqe (state_after (step (map_procs (enable_entry ctl) D)) evs cur)
      (state_after (step_ctl (ctl_of ctl true) (fun _ _ => false) D) evs cur').
Proof.
  intros Hc. apply refine_trace.
  - intros p _. apply enable_entry_shape.
  - intros p Hin H0 rst st i. unfold enable_entry, ctl_of.
    replace (Nat.eqb (fst p) 0) with false by (symmetry; apply Nat.eqb_neq; auto).
    destruct (lookup (fst p) ctl) as [c|] eqn:E.
    + cbn [snd]. apply enable_process; eauto.
    + symmetry. apply sync_ctl_plain.
  - intros p Hin H0 i. unfold enable_entry.
    replace (Nat.eqb (fst p) 0) with false by (symmetry; apply Nat.eqb_neq; auto).
    destruct (lookup (fst p) ctl) as [c|] eqn:E; [|reflexivity].
    cbn [snd]. rewrite stmts_mask_ctl_switch. reflexivity.
  - intros; apply ctl_of_ext; auto.
  - reflexivity.
Qed.

(* the spec run without controls is the run of the design itself *)
Theorem step_ctl_plain D : forall evs cur cur', eqe cur cur' ->
  eqe (state_after (step D) evs cur) (state_after (step_ctl (fun _ _ => true) (fun _ _ => false) D) evs cur').
Proof.
  assert (E : map_procs (fun p => p) D = D) by (destruct D; unfold map_procs; cbn; rewrite map_id; reflexivity).
  intros evs cur cur' H. rewrite <- E at 1. apply refine_trace; auto.
  intros p Hin H0 rst st i. symmetry. apply sync_ctl_plain.
Qed.

Lemma existsb_ctl_on_ext a a' cs : eqe a a' -> existsb (ctl_on a) cs = existsb (ctl_on a') cs.
Proof. intros H. induction cs as [|c cs IH]; simpl; auto. rewrite (ctl_on_ext a a' c H), IH. reflexivity. Qed.
Lemma forallb_ctl_on_ext a a' cs : eqe a a' -> forallb (ctl_on a) cs = forallb (ctl_on a') cs.
Proof. intros H. induction cs as [|c cs IH]; simpl; auto. rewrite (ctl_on_ext a a' c H), IH. reflexivity. Qed.

(* n reset inserters and one inserter with the OR of the controls have the same trace (both refine the same
   spec run); likewise n enable inserters and the AND *)
Definition stack_entry (X : list stmt -> list stmt) (p : nat * list stmt) : nat * list stmt :=
  if Nat.eqb (fst p) 0 then p else (fst p, X (snd p)).

Lemma stack_entry_shape X p : fst (stack_entry X p) = fst p /\ (fst p = 0%nat -> stack_entry X p = p).
Proof. unfold stack_entry. destruct (Nat.eqb (fst p) 0) eqn:E; [auto|]. apply Nat.eqb_neq in E. split; auto; congruence. Qed.

Theorem reset_stack_refines D cs : tab_ok (g_tab D) -> Forall (fun c => shape_of c = Sh 1 false) cs ->
  (forall p, In p (g_procs D) -> fst p <> 0%nat -> collector_ok_n (g_tab D) cs (snd p)) ->
  forall evs cur cur', eqe cur cur' ->
  eqe (state_after (step (map_procs (stack_entry (reset_n (g_tab D) cs)) D)) evs cur)
      (state_after (step_ctl (fun _ _ => true) (fun _ nx => existsb (ctl_on nx) cs) D) evs cur').
Proof.
  intros Ht Hc Hk. apply refine_trace.
  - intros p _. apply stack_entry_shape.
  - intros p Hin H0 rst st i. unfold stack_entry.
    replace (Nat.eqb (fst p) 0) with false by (symmetry; apply Nat.eqb_neq; auto). cbn [snd].
    apply reset_n_process; auto.
  - intros p Hin H0 i. unfold stack_entry.
    replace (Nat.eqb (fst p) 0) with false by (symmetry; apply Nat.eqb_neq; auto). cbn [snd].
    apply stmts_mask_reset_n; auto.
  - reflexivity.
  - intros d a a' H. apply existsb_ctl_on_ext; auto.
Qed.

Theorem enable_stack_refines D cs : Forall (fun c => shape_of c = Sh 1 false) cs ->
  forall evs cur cur', eqe cur cur' ->
  eqe (state_after (step (map_procs (stack_entry (enable_n cs)) D)) evs cur)
      (state_after (step_ctl (fun _ nx => forallb (ctl_on nx) cs) (fun _ _ => false) D) evs cur').
Proof.
  intros Hc. apply refine_trace.
  - intros p _. apply stack_entry_shape.
  - intros p Hin H0 rst st i. unfold stack_entry.
    replace (Nat.eqb (fst p) 0) with false by (symmetry; apply Nat.eqb_neq; auto). cbn [snd].
    apply enable_n_process; auto.
  - intros p Hin H0 i. unfold stack_entry.
    replace (Nat.eqb (fst p) 0) with false by (symmetry; apply Nat.eqb_neq; auto). cbn [snd].
    rewrite stmts_mask_enable_n. reflexivity.
  - intros d a a' H. apply forallb_ctl_on_ext; auto.
  - reflexivity.
Qed.

(* one inserter whose control is asserted exactly when some (every) control of the stack is: same spec run *)
Theorem reset_or_refines D c cs : tab_ok (g_tab D) -> shape_of c = Sh 1 false ->
  (forall curr, ctl_on curr c = existsb (ctl_on curr) cs) ->
  (forall p, In p (g_procs D) -> fst p <> 0%nat -> collector_ok (g_tab D) (snd p)) ->
  forall evs cur cur', eqe cur cur' ->
  eqe (state_after (step (map_procs (stack_entry (reset_n (g_tab D) [c])) D)) evs cur)
      (state_after (step_ctl (fun _ _ => true) (fun _ nx => existsb (ctl_on nx) cs) D) evs cur').
Proof.
  intros Ht Hc Hor Hk. apply refine_trace.
  - intros p _. apply stack_entry_shape.
  - intros p Hin H0 rst st i. unfold stack_entry.
    replace (Nat.eqb (fst p) 0) with false by (symmetry; apply Nat.eqb_neq; auto). cbn [snd].
    unfold reset_n. cbn [fold_left]. rewrite reset_process by auto. rewrite Hor. reflexivity.
  - intros p Hin H0 i. unfold stack_entry.
    replace (Nat.eqb (fst p) 0) with false by (symmetry; apply Nat.eqb_neq; auto). cbn [snd].
    unfold reset_n. cbn [fold_left]. apply stmts_mask_reset; auto.
  - reflexivity.
  - intros d a a' H. apply existsb_ctl_on_ext; auto.
Qed.

Theorem enable_and_refines D c cs : shape_of c = Sh 1 false ->
  (forall curr, ctl_on curr c = forallb (ctl_on curr) cs) ->
  forall evs cur cur', eqe cur cur' ->
  eqe (state_after (step (map_procs (stack_entry (enable_n [c])) D)) evs cur)
      (state_after (step_ctl (fun _ nx => forallb (ctl_on nx) cs) (fun _ _ => false) D) evs cur').
Proof.
  intros Hc Hand. apply refine_trace.
  - intros p _. apply stack_entry_shape.
  - intros p Hin H0 rst st i. unfold stack_entry.
    replace (Nat.eqb (fst p) 0) with false by (symmetry; apply Nat.eqb_neq; auto). cbn [snd].
    unfold enable_n. cbn [fold_left]. rewrite enable_process by auto. rewrite Hand. reflexivity.
  - intros p Hin H0 i. unfold stack_entry.
    replace (Nat.eqb (fst p) 0) with false by (symmetry; apply Nat.eqb_neq; auto). cbn [snd].
    unfold enable_n. cbn [fold_left]. rewrite stmts_mask_ctl_switch. reflexivity.
  - intros d a a' H. apply forallb_ctl_on_ext; auto.
  - reflexivity.
Qed.

(* ================= what the spec run guarantees (sole driver of a bit) ================= *)
Lemma sync_ctl_frame tab ss rst en rs st i b : 0 <= b -> Z.testbit (um tab ss i) b = false ->
  Z.testbit (s_next (sync_ctl tab ss rst en rs st) i) b = Z.testbit (s_next st i) b.
Proof.
  intros Hb H. unfold sync_ctl; cbn [s_next]. destruct (stmts_mask ss i =? 0); auto.
  rewrite testbit_slot_update by lia. fold (um tab ss i). rewrite H. reflexivity.
Qed.

Definition sole_driver (D : design) (p : nat * list stmt) (i : nat) (b : Z) : Prop :=
  exists l1 l2, g_procs D = l1 ++ p :: l2 /\
    forall q, In q (l1 ++ l2) -> Z.testbit (um (g_tab D) (snd q) i) b = false.

Section SpecRun.
Variables (D : design) (en_of rs_of : nat -> env -> bool).
Let F := ctl_proc (g_tab D) (g_doms D) en_of rs_of.

Lemma ctl_proc_curr cur nx st p : s_curr (F cur nx st p) = s_curr st.
Proof.
  unfold F, ctl_proc. destruct (Nat.eqb (fst p) 0); auto. destruct (clk_edge _ _ _); auto.
  destruct (rst_rise _ _ _); auto.
Qed.

Lemma ctl_proc_frame cur nx st p i b : 0 <= b -> Z.testbit (um (g_tab D) (snd p) i) b = false ->
  Z.testbit (s_next (F cur nx st p) i) b = Z.testbit (s_next st i) b.
Proof.
  intros Hb H. unfold F, ctl_proc. destruct (Nat.eqb (fst p) 0); [apply comb_frame; auto|].
  destruct (clk_edge _ _ _); [apply sync_ctl_frame; auto|].
  destruct (rst_rise _ _ _); [apply reset_only_frame; auto|reflexivity].
Qed.

Lemma ctl_fold_frame cur nx i b : 0 <= b -> forall l,
  (forall q, In q l -> Z.testbit (um (g_tab D) (snd q) i) b = false) ->
  forall st, s_curr (fold_left (F cur nx) l st) = s_curr st /\
             Z.testbit (s_next (fold_left (F cur nx) l st) i) b = Z.testbit (s_next st i) b.
Proof.
  intros Hb. induction l as [|q l IH]; intros H st; simpl; auto.
  destruct (IH (fun x Hx => H x (or_intror Hx)) (F cur nx st q)) as [I1 I2]. rewrite I1, I2.
  split; [apply ctl_proc_curr|apply ctl_proc_frame; auto; apply H; simpl; auto].
Qed.

(* the bit after the step is the bit its sole driver computed from a state with the committed inputs *)
Lemma step_ctl_sole e cur p i b : 0 <= b -> sole_driver D p i b -> fst p <> 0%nat ->
  exists st, s_curr st = freeze (g_nsig D) (apply_writes e cur) /\
    Z.testbit (s_next st i) b = Z.testbit (apply_writes e cur i) b /\
    Z.testbit (step_ctl en_of rs_of D e cur i) b
    = Z.testbit (s_next (F cur (freeze (g_nsig D) (apply_writes e cur)) st p) i) b.
Proof.
  intros Hb [l1 [l2 [Hsplit Hoth]]] Hp. unfold step_ctl, step_gen. fold F.
  set (nx := freeze (g_nsig D) (apply_writes e cur)).
  rewrite settle_frame; auto.
  2:{ intros q Hq H0. rewrite Hsplit in Hq. apply in_app_or in Hq. destruct Hq as [Hq|[<-|Hq]];
      [apply Hoth; apply in_or_app; auto|congruence|apply Hoth; apply in_or_app; auto]. }
  rewrite freeze_eq. rewrite Hsplit, fold_left_app. cbn [fold_left].
  destruct (ctl_fold_frame cur nx i b Hb l1 (fun q Hq => Hoth q (in_or_app _ _ _ (or_introl Hq)))
              {| s_curr := nx; s_next := nx |}) as [A1 A2].
  destruct (ctl_fold_frame cur nx i b Hb l2 (fun q Hq => Hoth q (in_or_app _ _ _ (or_intror Hq)))
              (F cur nx (fold_left (F cur nx) l1 {| s_curr := nx; s_next := nx |}) p)) as [_ B2].
  exists (fold_left (F cur nx) l1 {| s_curr := nx; s_next := nx |}). split; [exact A1|]. split; [|exact B2].
  rewrite A2. cbn [s_next]. unfold nx. rewrite freeze_eq. reflexivity.
Qed.

(* reset asserted (the inserted one or the domain's own) at an own-domain edge: init *)
Theorem ctl_reset_loads_init e cur p i b : 0 <= b -> sole_driver D p i b -> fst p <> 0%nat ->
  (forall d a a', eqe a a' -> rs_of d a = rs_of d a') ->
  Z.testbit (um (g_tab D) (snd p) i) b = true -> sd_reset_less (g_tab D i) = false ->
  clk_edge (g_doms D (fst p)) cur (apply_writes e cur) = true ->
  rs_of (fst p) (apply_writes e cur) = true ->
  Z.testbit (step_ctl en_of rs_of D e cur i) b = Z.testbit (sd_init (g_tab D i)) b.
Proof.
  intros Hb Hsole Hp Hrs Hd Hrl Hf Hon. destruct (step_ctl_sole e cur p i b Hb Hsole Hp) as [st [Hc [_ ->]]].
  unfold F, ctl_proc. replace (Nat.eqb (fst p) 0) with false by (symmetry; apply Nat.eqb_neq; auto).
  rewrite clk_edge_freeze, Hf. apply sync_ctl_reset_bit; auto. left.
  rewrite (Hrs (fst p) _ (apply_writes e cur)); auto. apply freeze_eqe.
Qed.

(* enable low, no reset: the register bit keeps its value, edge or not *)
Lemma rst_low_no_rise c old new :
  match d_rst c with Some r => Z.land 1 (new r) = 0 | None => True end -> rst_rise c old new = false.
Proof.
  unfold rst_rise. destruct (d_rst c) as [r|]; auto. intros H. destruct (new r =? 1) eqn:E; [|rewrite andb_false_r; auto].
  apply Z.eqb_eq in E. rewrite E in H. discriminate.
Qed.

Theorem ctl_enable_low_keeps e cur p i b : 0 <= b -> sole_driver D p i b -> fst p <> 0%nat ->
  (forall d a a', eqe a a' -> rs_of d a = rs_of d a') -> (forall d a a', eqe a a' -> en_of d a = en_of d a') ->
  ~ In i (map fst e) ->
  en_of (fst p) (apply_writes e cur) = false -> rs_of (fst p) (apply_writes e cur) = false ->
  match d_rst (g_doms D (fst p)) with Some r => Z.land 1 (apply_writes e cur r) = 0 | None => True end ->
  Z.testbit (step_ctl en_of rs_of D e cur i) b = Z.testbit (cur i) b.
Proof.
  intros Hb Hsole Hp Hrs Hen He Hen0 Hrs0 Hr. destruct (step_ctl_sole e cur p i b Hb Hsole Hp) as [st [Hc [Hn ->]]].
  rewrite <- (apply_writes_other e cur i He), <- Hn.
  unfold F, ctl_proc. replace (Nat.eqb (fst p) 0) with false by (symmetry; apply Nat.eqb_neq; auto).
  rewrite (rst_low_no_rise (g_doms D (fst p)) cur)
    by (destruct (d_rst (g_doms D (fst p))); auto; rewrite freeze_eq; auto).
  destruct (clk_edge _ _ _); auto.
  rewrite (Hen (fst p) _ (apply_writes e cur)), (Hrs (fst p) _ (apply_writes e cur)) by apply freeze_eqe.
  rewrite Hen0, Hrs0. rewrite sync_ctl_frozen; auto.
  destruct (d_rst (g_doms D (fst p))); auto. rewrite Hc, freeze_eq. auto.
Qed.

(* a process whose controls are idle (enable high, no inserted reset) does exactly what the original process does:
   reset-less registers of a reset domain and all registers of the other domains follow the original design *)
Theorem ctl_idle_is_original e cur p i b : 0 <= b -> sole_driver D p i b -> fst p <> 0%nat ->
  (forall d a a', eqe a a' -> rs_of d a = rs_of d a') -> (forall d a a', eqe a a' -> en_of d a = en_of d a') ->
  en_of (fst p) (apply_writes e cur) = true ->
  rs_of (fst p) (apply_writes e cur) = false \/ sd_reset_less (g_tab D i) = true ->
  exists st, s_curr st = freeze (g_nsig D) (apply_writes e cur) /\
    Z.testbit (s_next st i) b = Z.testbit (apply_writes e cur i) b /\
    Z.testbit (step_ctl en_of rs_of D e cur i) b
    = Z.testbit (s_next (sync_code (g_tab D) (snd p) (g_doms D (fst p)) cur (apply_writes e cur) st) i) b.
Proof.
  intros Hb Hsole Hp Hrs Hen Hen1 Hrs0. destruct (step_ctl_sole e cur p i b Hb Hsole Hp) as [st [Hc [Hn ->]]].
  exists st. split; auto. split; auto.
  unfold F, ctl_proc, sync_code. replace (Nat.eqb (fst p) 0) with false by (symmetry; apply Nat.eqb_neq; auto).
  rewrite clk_edge_freeze, rst_rise_freeze. destruct (clk_edge _ _ _); auto.
  rewrite (Hen (fst p) _ (apply_writes e cur)), (Hrs (fst p) _ (apply_writes e cur)) by apply freeze_eqe.
  rewrite Hen1. destruct Hrs0 as [H0|Hrl].
  - rewrite H0. rewrite sync_ctl_plain. reflexivity.
  - f_equal. unfold sync_ctl, sync_process; cbn [s_next s_curr]. destruct (stmts_mask (snd p) i =? 0) eqn:E; auto.
    rewrite Hrl. rewrite !andb_false_r. reflexivity.
Qed.
End SpecRun.

(* ================= the same facts on the traces of the transformed designs ================= *)
Lemma state_after_snoc stp pre e cur : state_after stp (pre ++ [e]) cur = stp e (state_after stp pre cur).
Proof. unfold state_after. rewrite fold_left_app. reflexivity. Qed.

Section InsertedTraces.
Variables (D : design) (ctl : controls).
Hypothesis Htab : tab_ok (g_tab D).
Hypothesis Hctl : ctl_ok ctl.

(* after any prefix of events: an own-domain edge with the inserted reset high loads init into every
   non-reset-less bit whose sole driver is a process of a named domain *)
Theorem reset_inserter_trace_loads_init pre e cur0 p c i b :
  (forall q, In q (g_procs D) -> fst q <> 0%nat -> lookup (fst q) ctl <> None -> collector_ok (g_tab D) (snd q)) ->
  let D' := map_procs (reset_entry (g_tab D) ctl) D in
  let s := state_after (step D') pre cur0 in
  0 <= b -> sole_driver D p i b -> fst p <> 0%nat -> lookup (fst p) ctl = Some c ->
  Z.testbit (um (g_tab D) (snd p) i) b = true -> sd_reset_less (g_tab D i) = false ->
  clk_edge (g_doms D (fst p)) s (apply_writes e s) = true ->
  ctl_on (apply_writes e s) c = true ->
  Z.testbit (state_after (step D') (pre ++ [e]) cur0 i) b = Z.testbit (sd_init (g_tab D i)) b.
Proof.
  intros Hk D' s Hb Hsole Hp Hl Hd Hrl Hf Hon. rewrite state_after_snoc. fold s.
  pose proof (reset_inserter_refines D ctl Htab Hctl Hk [e] s s (eqe_refl s) i) as R.
  unfold state_after in R. cbn [fold_left] in R. fold D' in R. rewrite R.
  apply (ctl_reset_loads_init D _ _ e s p); auto.
  - intros; apply ctl_of_ext; auto.
  - unfold ctl_of. rewrite Hl. auto.
Qed.

(* with the inserted enable low (and the domain's own reset low) every register bit of a named domain keeps
   its value across any event, after any prefix *)
Theorem enable_inserter_trace_keeps pre e cur0 p c i b :
  let D' := map_procs (enable_entry ctl) D in
  let s := state_after (step D') pre cur0 in
  0 <= b -> sole_driver D p i b -> fst p <> 0%nat -> lookup (fst p) ctl = Some c -> ~ In i (map fst e) ->
  ctl_on (apply_writes e s) c = false ->
  match d_rst (g_doms D (fst p)) with Some r => Z.land 1 (apply_writes e s r) = 0 | None => True end ->
  Z.testbit (state_after (step D') (pre ++ [e]) cur0 i) b = Z.testbit (s i) b.
Proof.
  intros D' s Hb Hsole Hp Hl He Hoff Hr. rewrite state_after_snoc. fold s.
  pose proof (enable_inserter_refines D ctl Hctl [e] s s (eqe_refl s) i) as R.
  unfold state_after in R. cbn [fold_left] in R. fold D' in R. rewrite R.
  apply (ctl_enable_low_keeps D _ _ e s p); auto.
  - intros; apply ctl_of_ext; auto.
  - unfold ctl_of. rewrite Hl. auto.
Qed.
End InsertedTraces.

(* ================= memory ports under the inserters ================= *)
Lemma frag_mems_reset tab ctl f : frag_mems (reset_inserter tab ctl f) = frag_mems f.
Proof.
  induction f as [st ms subs IH] using frag_ind2. cbn [reset_inserter frag_mems]. f_equal.
  induction subs as [|s subs IHs]; auto. inversion IH; subst. cbn [map flat_map]. f_equal; auto.
Qed.

Lemma frag_mems_enable ctl f : frag_mems (enable_inserter ctl f) = map (enable_mem ctl) (frag_mems f).
Proof.
  induction f as [st ms subs IH] using frag_ind2. cbn [enable_inserter frag_mems]. rewrite map_app. f_equal.
  induction subs as [|s subs IHs]; auto. inversion IH; subst. cbn [map flat_map]. rewrite map_app. f_equal; auto.
Qed.

Lemma rmask1 v : rmask 1 v = Z.b2z (Z.testbit v 0).
Proof. unfold rmask. change (Z.shiftl 1 1 - 1) with 1. apply land1. Qed.

Lemma ctl_off_zero curr c : shape_of c = Sh 1 false -> ctl_on curr c = false -> rmask 1 (eval_rtl curr c) = 0.
Proof.
  intros Hs H. unfold ctl_on, ewidth in H. rewrite Hs in H. cbn [width] in H. rewrite rmask1 in *.
  destruct (Z.testbit (eval_rtl curr c) 0); [discriminate|reflexivity].
Qed.

Lemma en_cat_zero g n : forall k, en_cat 0 g n k = 0.
Proof. induction n as [|n IH]; intros k; cbn [en_cat]; auto. rewrite Z.testbit_0_l, IH. reflexivity. Qed.

(* EnableInserter, enable low: the gated write enable of a write port is all zeros *)
Theorem wen_gated_off curr w c en : shape_of c = Sh 1 false -> ctl_on curr c = false -> 0 <= ewidth en ->
  wen_value curr w (mux_ctl c en) = 0.
Proof.
  intros Hs Hoff Hw. unfold wen_value.
  assert (E : eval_rtl curr (mux_ctl c en) = 0).
  { unfold ewidth in Hw. unfold mux_ctl, ewidth. rewrite Hs. cbn [width]. change (Z.to_nat 1) with 1%nat. cbn [repeat].
    cbn [eval_rtl map fst snd shape_of]. unfold ewidth. rewrite Hs. cbn [width]. rewrite (ctl_off_zero curr c Hs Hoff).
    unfold use_match. cbn [map forallb existsb has_dash negb andb orb rtl_switch rtl_case_match].
    change (pat_value [Some false] =? 0) with true. cbn [orb].
    rewrite rsign_norm by (unfold wf_shape; cbn; lia). rewrite const_norm_spec by (unfold wf_shape; cbn; lia).
    rewrite norm_unsigned. unfold mask. rewrite Z.mod_0_l by (apply Z.pow_nonzero; lia). reflexivity. }
  rewrite E, en_cat_zero. unfold rmask. apply Z.land_0_r.
Qed.

(* ... and the gated enable of a sync read port reads as 0 *)
Theorem ren_gated_off curr c en : shape_of c = Sh 1 false -> shape_of en = Sh 1 false -> ctl_on curr c = false ->
  Z.land 1 (eval_rtl curr (EOp2 OAnd en c)) = 0.
Proof.
  intros Hc He Hoff. destruct (ctl_on_and curr en c He Hc) as [Hs Hv]. rewrite Hoff, andb_false_r in Hv.
  pose proof (ctl_off_zero curr _ Hs Hv) as Z0. unfold rmask in Z0. exact Z0.
Qed.

(* a write with an all-zero mask queues the row's own content *)
Lemma zero_mask_value v old : Z.lor (Z.land v 0) (Z.land old (Z.lnot 0)) = old.
Proof. rewrite Z.land_0_r, Z.lor_0_l. change (Z.lnot 0) with (-1). apply Z.land_m1_r. Qed.

Lemma set_row_same : forall rw n, set_row rw n (nth n rw 0) = rw.
Proof. induction rw as [|x rw IH]; intros n; cbn [set_row]; auto. destruct n; cbn [nth]; [reflexivity|]. rewrite IH. reflexivity. Qed.

Definition q_idle (rw : rows) (q : wqueue) : Prop := forall av, In av q -> snd av = nth (Z.to_nat (fst av)) rw 0.

Lemma qget_in q a v : qget q a = Some v -> In (a, v) q.
Proof.
  induction q as [|av q IH]; cbn [qget]; [discriminate|]. destruct (fst av =? a) eqn:E.
  - intros H. inversion H; subst. apply Z.eqb_eq in E. left. destruct av; cbn in *; subst; reflexivity.
  - intros H. right. auto.
Qed.

Lemma qset_idle rw q a : q_idle rw q -> q_idle rw (qset q a (nth (Z.to_nat a) rw 0)).
Proof.
  intros Hq. induction q as [|av q IH]; cbn [qset].
  - intros x [<-|[]]. reflexivity.
  - destruct (fst av =? a) eqn:E.
    + apply Z.eqb_eq in E. intros x [<-|Hx]; [cbn; rewrite E; reflexivity|apply Hq; right; auto].
    + intros x [<-|Hx]; [apply Hq; left; auto|]. apply IH; auto. intros y Hy. apply Hq. right. auto.
Qed.

Lemma mem_write_zero_idle s depth rw q a v : sgn s = false -> q_idle rw q -> q_idle rw (mem_write s depth rw q a v 0).
Proof.
  intros Hs Hq. unfold mem_write. destruct (in_depth depth a); auto.
  rewrite zero_mask_value. unfold sign_fix. rewrite Hs.
  destruct (qget q a) as [old|] eqn:E.
  - apply qget_in in E. pose proof (Hq _ E) as H0. cbn [fst snd] in H0. rewrite H0. apply qset_idle; auto.
  - apply qset_idle; auto.
Qed.

Lemma commit_idle rw q : q_idle rw q -> mem_commit rw q = rw.
Proof.
  unfold mem_commit. induction q as [|av q IH]; intros Hq; cbn [fold_left]; auto.
  rewrite (Hq av (or_introl eq_refl)). rewrite set_row_same. apply IH. intros x Hx. apply Hq. right. auto.
Qed.

(* EnableInserter on a whole memory process: with the enable of domain d low at an edge of d the memory keeps its
   rows and every sync read-data register of that domain keeps its value *)
Theorem enable_mem_sync_frozen tab ctl m d c rw st :
  lookup d ctl = Some c -> shape_of c = Sh 1 false -> ctl_on (s_curr st) c = false ->
  sgn (mi_shape m) = false ->
  (forall p, In p (mi_wports m) -> 0 <= ewidth (wp_en p)) ->
  (forall p, In p (mi_rports m) -> rp_dom p = d -> shape_of (rp_en p) = Sh 1 false) ->
  let r := mem_sync tab (enable_mem ctl m) d rw (st, []) in
  mem_commit rw (snd r) = rw /\ forall i, s_next (fst r) i = s_next st i.
Proof.
  intros Hl Hc Hoff Hsg Hw Hr r. subst r. unfold mem_sync. cbn [fst snd enable_mem mi_wports mi_rports mi_shape mi_depth].
  split.
  - apply commit_idle. rewrite map_map.
    assert (G : forall ws q, (forall p, In p ws -> 0 <= ewidth (wp_en p)) -> q_idle rw q ->
              q_idle rw (fold_left (fun q o => match o with
                 | Some t => mem_write (mi_shape m) (mi_depth m) rw q (fst (fst t)) (snd (fst t)) (snd t)
                 | None => q end) (map (fun x => port_wvals (s_curr st) d (enable_wport ctl x)) ws) q)).
    { induction ws as [|p ws IH]; intros q Hws Hq; cbn [map fold_left]; auto.
      apply IH; [intros; apply Hws; simpl; auto|].
      unfold port_wvals, enable_wport. destruct (lookup (wp_dom p) ctl) as [c'|] eqn:E; cbn [wp_dom wp_addr wp_data wp_en].
      - destruct (Nat.eqb (wp_dom p) d) eqn:Ed; auto. apply Nat.eqb_eq in Ed. rewrite Ed, Hl in E. inversion E; subst c'.
        cbn [fst snd]. rewrite wen_gated_off by (auto; apply Hws; simpl; auto). apply mem_write_zero_idle; auto.
      - destruct (Nat.eqb (wp_dom p) d) eqn:Ed; auto. apply Nat.eqb_eq in Ed. rewrite Ed, Hl in E. discriminate. }
    apply G; auto. intros x [].
  - intros i. cbn [s_next]. destruct (mem_masks _ i =? 0); auto.
    match goal with |- slot_update _ (fold_left ?F ?l ?n i) _ = _ => assert (E : fold_left F l n = n) end.
    { generalize (s_next st) as nx.
      assert (Hin : forall p, In p (filter (fun p => Nat.eqb (rp_dom p) d) (map (enable_rport ctl) (mi_rports m))) ->
                Z.land 1 (eval_rtl (s_curr st) (rp_en p)) = 0).
      { intros p Hp. apply filter_In in Hp. destruct Hp as [Hp Hd]. apply Nat.eqb_eq in Hd.
        apply in_map_iff in Hp. destruct Hp as [p0 [<- Hp0]]. unfold enable_rport in *.
        destruct (lookup (rp_dom p0) ctl) as [c'|] eqn:E; cbn [rp_dom rp_en] in *.
        - rewrite Hd, Hl in E. inversion E; subst c'. apply ren_gated_off; auto.
        - rewrite Hd, Hl in E. discriminate. }
      induction (filter _ _) as [|p l IH]; intros nx; cbn [fold_left]; auto.
      unfold read_port_sync at 2. rewrite (Hin p) by (simpl; auto). cbn. apply IH. intros; apply Hin; simpl; auto. }
    rewrite E. apply slot_update_same.
Qed.

(* ================= collector_ok from shape consistency ================= *)
(* all assignment targets of a statement, in visit order *)
Fixpoint stmt_lhss (s : stmt) : list expr :=
  match s with
  | SAssign l _ => [l]
  | SSwitch _ cs =>
      (fix go (cs : list (option (list pattern) * list stmt)) : list expr :=
         match cs with
         | [] => []
         | c :: cs' => (fix run (ss : list stmt) : list expr :=
                          match ss with [] => [] | s' :: ss' => stmt_lhss s' ++ run ss' end) (snd c) ++ go cs'
         end) cs
  end.

Definition mask_step (acc : maskmap) (l : expr) : maskmap := lhs_mask l (-1) acc.

Lemma stmt_mask_flat s : forall acc, stmt_mask s acc = fold_left mask_step (stmt_lhss s) acc.
Proof.
  induction s as [l r|t cs IH] using stmt_ind2; intros acc; [reflexivity|].
  cbn [stmt_mask stmt_lhss]. revert acc. induction cs as [|c cs' IHc]; intros acc; [reflexivity|].
  inversion IH as [|? ? Hc Hcs]; subst. rewrite fold_left_app. rewrite <- IHc by auto. f_equal.
  clear IHc Hcs. revert acc. induction (snd c) as [|s' ss' IHs]; intros acc; [reflexivity|].
  inversion Hc; subst. rewrite fold_left_app. rewrite <- IHs by auto. f_equal. auto.
Qed.

Lemma stmt_sigs_flat s : stmt_sigs s = flat_map sigs_of (stmt_lhss s).
Proof.
  induction s as [l r|t cs IH] using stmt_ind2; [cbn; rewrite app_nil_r; reflexivity|].
  cbn [stmt_sigs stmt_lhss]. induction cs as [|c cs' IHc]; [reflexivity|].
  inversion IH as [|? ? Hc Hcs]; subst. rewrite flat_map_app. rewrite <- IHc by auto. f_equal.
  clear IHc Hcs. induction (snd c) as [|s' ss' IHs]; [reflexivity|].
  inversion Hc; subst. rewrite flat_map_app. rewrite <- IHs by auto. f_equal. auto.
Qed.

Lemma stmts_mask_flat ss : stmts_mask ss = fold_left mask_step (flat_map stmt_lhss ss) (fun _ => 0).
Proof.
  unfold stmts_mask. generalize (fun _ : nat => 0) as acc. induction ss as [|s ss IH]; intros acc; [reflexivity|].
  cbn [fold_left flat_map]. rewrite fold_left_app, <- stmt_mask_flat. apply IH.
Qed.

Lemma stmts_sigs_flat ss : flat_map stmt_sigs ss = flat_map sigs_of (flat_map stmt_lhss ss).
Proof.
  induction ss as [|s ss IH]; [reflexivity|]. cbn [flat_map]. rewrite flat_map_app, <- stmt_sigs_flat, IH. reflexivity.
Qed.

(* a target only touches the masks of the signals it names *)
Lemma lhs_mask_frame lhs : forall mask acc i, ~ In i (sigs_of lhs) -> lhs_mask lhs mask acc i = acc i.
Proof.
  induction lhs as [v s|j s|o a IHa|o a b0 IHa IHb|a lo hi IHa|a off w st IHa IHoff|l IH|t cs IHt IHcs]
    using expr_ind'; intros mask acc i Hn; cbn [lhs_mask]; auto.
  - unfold mm_or. destruct (Nat.eqb i j) eqn:E; auto. apply Nat.eqb_eq in E. exfalso. apply Hn. simpl. auto.
  - destruct o; auto.
  - cbn [sigs_of] in Hn. revert mask acc. induction l as [|p ps IHl]; intros mask acc; auto.
    inversion IH; subst. cbn [flat_map] in Hn. rewrite IHl by (auto; intro; apply Hn; apply in_or_app; auto).
    apply H1. intro; apply Hn; apply in_or_app; auto.
  - cbn [sigs_of] in Hn. revert acc. induction cs as [|c cs' IHl]; intros acc; auto.
    inversion IHcs; subst. cbn [flat_map] in Hn. rewrite IHl by (auto; intro; apply Hn; apply in_or_app; auto).
    apply H1. intro; apply Hn; apply in_or_app; auto.
Qed.

Definition within (ss : nat -> shape) (acc : maskmap) : Prop :=
  forall i k, width (ss i) <= k -> Z.testbit (acc i) k = false.

Lemma lhs_mask_within ss lhs : (forall i, 0 <= width (ss i)) -> sig_ok ss lhs ->
  forall mask acc, within ss acc -> within ss (lhs_mask lhs mask acc).
Proof.
  intros Hw.
  induction lhs as [v s|j s|o a IHa|o a b0 IHa IHb|a lo hi IHa|a off w st IHa IHoff|l IH|t cs IHt IHcs]
    using expr_ind'; intros Hs mask acc Ha; cbn [lhs_mask]; auto.
  - simpl in Hs. subst s. intros i k Hk. unfold mm_or. destruct (Nat.eqb i j) eqn:E; [|apply Ha; auto].
    apply Nat.eqb_eq in E. subst i. rewrite Z.lor_spec, (Ha j k Hk), Z.land_spec.
    replace (Z.shiftl 1 (width (ss j)) - 1) with (Z.ones (width (ss j))) by (unfold Z.ones; lia).
    rewrite Z.ones_spec_high by (specialize (Hw j); lia). rewrite andb_false_r. reflexivity.
  - destruct o; auto.
  - apply sig_ok_cat in Hs. revert mask acc Ha. induction l as [|p ps IHl]; intros mask acc Ha; auto.
    inversion IH; subst. inversion Hs; subst. apply IHl; auto.
  - apply sig_ok_sw in Hs. revert acc Ha. induction cs as [|c cs' IHl]; intros acc Ha; auto.
    inversion IHcs; subst. inversion Hs; subst. apply IHl; auto.
Qed.

Lemma uniq_in : forall l seen x, In x l -> In x seen \/ In x (uniq seen l).
Proof.
  induction l as [|y l IH]; intros seen x H; [contradiction|]. cbn [uniq].
  destruct (existsb (Nat.eqb y) seen) eqn:E.
  - destruct H as [<-|H]; [|apply IH; auto]. left. apply existsb_exists in E. destruct E as [z [Hz Hy]].
    apply Nat.eqb_eq in Hy. subst. auto.
  - destruct H as [<-|H]; [right; left; reflexivity|]. destruct (IH (y :: seen) x H) as [[<-|Hs]|Hu]; auto.
    + right. left. reflexivity.
    + right. right. auto.
Qed.

(* every assignment target names its signals with the shapes of the signal table *)
Definition stmts_sig_ok (tab : sigtab) (ss : list stmt) : Prop :=
  Forall (sig_ok (fun i => sd_shape (tab i))) (flat_map stmt_lhss ss).

Theorem collector_ok_of_sig_ok tab ss : (forall i, 0 <= width (sd_shape (tab i))) -> stmts_sig_ok tab ss ->
  collector_ok tab ss.
Proof.
  intros Hw Hs. unfold stmts_sig_ok in Hs. split.
  - rewrite stmts_mask_flat.
    assert (G : forall l acc, Forall (sig_ok (fun i => sd_shape (tab i))) l -> within (fun i => sd_shape (tab i)) acc ->
              within (fun i => sd_shape (tab i)) (fold_left mask_step l acc)).
    { induction l as [|x l IH]; intros acc Hf Ha; auto. inversion Hf; subst. cbn [fold_left]. apply IH; auto.
      apply lhs_mask_within; auto. }
    apply (G _ _ Hs). intros i k _. apply Z.testbit_0_l.
  - intros i Hne. unfold lhs_keys. rewrite stmts_sigs_flat.
    destruct (in_dec Nat.eq_dec i (flat_map sigs_of (flat_map stmt_lhss ss))) as [Hin|Hnin].
    + destruct (uniq_in _ [] i Hin) as [[]|H]; auto.
    + exfalso. apply Hne. rewrite stmts_mask_flat.
      assert (G : forall l acc, ~ In i (flat_map sigs_of l) -> fold_left mask_step l acc i = acc i).
      { induction l as [|x l IH]; intros acc Hn; auto. cbn [fold_left flat_map] in *.
        rewrite IH by (intro; apply Hn; apply in_or_app; auto). apply lhs_mask_frame.
        intro; apply Hn; apply in_or_app; auto. }
      rewrite G by auto. reflexivity.
Qed.

(* ================= ClockSignal / ResetSignal: renaming then lowering = lowering ================= *)
Lemma cs_decode_index base d k : (k < 3)%nat -> cs_decode base (cs_index base d k) = Some (d, k).
Proof.
  intros Hk. unfold cs_decode, cs_index. replace (Nat.ltb (base + (3 * d + k)) base) with false by (symmetry; apply Nat.ltb_ge; lia).
  replace (base + (3 * d + k) - base)%nat with (k + d * 3)%nat by lia.
  rewrite Nat.div_add, Nat.mod_add by lia. rewrite Nat.div_small, Nat.mod_small by lia. reflexivity.
Qed.

Lemma cs_decode_k base i d k : cs_decode base i = Some (d, k) -> (k < 3)%nat.
Proof.
  unfold cs_decode. destruct (Nat.ltb i base); [discriminate|]. intros H.
  assert (E : k = ((i - base) mod 3)%nat) by congruence. rewrite E. apply Nat.mod_upper_bound. lia.
Qed.

Lemma map_sig_ext_in f g e : (forall i s, In i (expr_sigs e) -> f i s = g i s) -> map_sig f e = map_sig g e.
Proof.
  induction e as [v s|j s|o a IHa|o a b0 IHa IHb|a lo hi IHa|a off w st IHa IHoff|l IH|t cs IHt IHcs]
    using expr_ind'; intros H; cbn [map_sig expr_sigs] in *.
  - reflexivity.
  - apply H. simpl. auto.
  - rewrite IHa; auto.
  - rewrite IHa, IHb; auto; intros; apply H; apply in_or_app; auto.
  - rewrite IHa; auto.
  - rewrite IHa, IHoff; auto; intros; apply H; apply in_or_app; auto.
  - f_equal. apply map_ext_in. intros p Hp. rewrite Forall_forall in IH. apply IH; auto.
    intros i s Hi. apply H. apply in_flat_map. eauto.
  - rewrite IHt by (intros; apply H; apply in_or_app; auto). f_equal. apply map_ext_in. intros c Hc.
    rewrite Forall_forall in IHcs. rewrite IHcs; auto. intros i s Hi. apply H. apply in_or_app. right.
    apply in_flat_map. eauto.
Qed.

Lemma map_sig_comp f g e : map_sig g (map_sig f e) = map_sig (fun i s => map_sig g (f i s)) e.
Proof.
  induction e as [v s|j s|o a IHa|o a b0 IHa IHb|a lo hi IHa|a off w st IHa IHoff|l IH|t cs IHt IHcs]
    using expr_ind'; cbn [map_sig]; try congruence.
  - f_equal. rewrite map_map. apply map_ext_in. intros p Hp. rewrite Forall_forall in IH. auto.
  - rewrite IHt. f_equal. rewrite map_map. apply map_ext_in. intros c Hc. rewrite Forall_forall in IHcs.
    cbn [fst snd]. rewrite IHcs; auto.
Qed.

(* a value renamed by DomainRenamer and then resolved in a design where every renamed domain has the configuration
   of the original one is the value resolved directly: late-bound signals follow the logic to the target domain *)
Theorem lower_rename base rho doms doms' e :
  (forall i d k, In i (expr_sigs e) -> cs_decode base i = Some (d, k) -> doms' (rename_dom rho d) = doms d) ->
  map_sig (lower_sig base doms') (map_sig (ren_sig base rho) e) = map_sig (lower_sig base doms) e.
Proof.
  intros H. rewrite map_sig_comp. apply map_sig_ext_in. intros i s Hi.
  unfold ren_sig. destruct (cs_decode base i) as [[d k]|] eqn:E; cbn [map_sig fst snd].
  - unfold lower_sig. rewrite cs_decode_index by (eapply cs_decode_k; eauto). rewrite E. cbn [fst snd].
    rewrite (H i d k Hi E). reflexivity.
  - unfold lower_sig. rewrite E. reflexivity.
Qed.

(* without late-bound signals the renamer leaves values alone *)
Theorem rename_no_cs base rho e : (forall i, In i (expr_sigs e) -> (i < base)%nat) ->
  map_sig (ren_sig base rho) e = e.
Proof.
  intros H. transitivity (map_sig (fun i s => ESig i s) e).
  - apply map_sig_ext_in. intros i s Hi. unfold ren_sig, cs_decode.
    replace (Nat.ltb i base) with true by (symmetry; apply Nat.ltb_lt; auto). reflexivity.
  - clear H. induction e as [v s|j s|o a IHa|o a b0 IHa IHb|a lo hi IHa|a off w st IHa IHoff|l IH|t cs IHt IHcs]
      using expr_ind'; cbn [map_sig]; try congruence.
    + f_equal. rewrite <- (map_id l) at 2. apply map_ext_in. intros p Hp. rewrite Forall_forall in IH. auto.
    + rewrite IHt. f_equal. rewrite <- (map_id cs) at 2. apply map_ext_in. intros c Hc.
      rewrite Forall_forall in IHcs. rewrite IHcs by auto. destruct c; reflexivity.
Qed.

(* ================= DomainRenamer on fragment trees with memories, whole traces ================= *)


Lemma flatten_rename rho f : no_merge rho f -> flatten (domain_renamer rho f) = map (ren_entry rho) (flatten f).
Proof.
  induction f as [st ms subs IH] using frag_ind2. intros H. cbn [domain_renamer flatten].
  rewrite map_app. f_equal.
  - destruct (H st (or_introl eq_refl)) as [H1 H2]. apply rename_entries_spec; auto.
  - assert (Hs : forall s, In s subs -> no_merge rho s).
    { intros s Hs st' Hst'. apply H. cbn [frag_nodes]. right. apply in_flat_map. eauto. }
    clear H. induction subs as [|s subs IHs]; auto. inversion IH; subst. cbn [map flat_map]. rewrite map_app. f_equal.
    + apply H1. apply Hs. simpl. auto.
    + apply IHs; auto. intros; apply Hs; simpl; auto.
Qed.

Lemma frag_mems_rename rho f : frag_mems (domain_renamer rho f) = map (rename_mem rho) (frag_mems f).
Proof.
  induction f as [st ms subs IH] using frag_ind2. cbn [domain_renamer frag_mems]. rewrite map_app. f_equal.
  induction subs as [|s subs IHs]; auto. inversion IH; subst. cbn [map flat_map]. rewrite map_app. f_equal; auto.
Qed.


Lemma uniq_sub : forall l seen x, In x (uniq seen l) -> In x l.
Proof.
  induction l as [|y l IH]; intros seen x Hx; [simpl in Hx; contradiction|].
  cbn [uniq] in Hx. destruct (existsb (Nat.eqb y) seen).
  - right. eapply IH; eauto.
  - destruct Hx as [<-|Hx]; [left; auto|right; eapply IH; eauto].
Qed.

Lemma uniq_map (g : nat -> nat) : forall l seen,
  (forall x y, In x (seen ++ l) -> In y (seen ++ l) -> g x = g y -> x = y) ->
  uniq (map g seen) (map g l) = map g (uniq seen l).
Proof.
  induction l as [|x l IH]; intros seen Hinj; [reflexivity|]. cbn [map uniq].
  assert (E : existsb (Nat.eqb (g x)) (map g seen) = existsb (Nat.eqb x) seen).
  { destruct (existsb (Nat.eqb x) seen) eqn:E1.
    - apply existsb_exists in E1. destruct E1 as [y [Hy Hxy]]. apply Nat.eqb_eq in Hxy. subst y.
      apply existsb_exists. exists (g x). split; [apply in_map; auto|apply Nat.eqb_refl].
    - destruct (existsb (Nat.eqb (g x)) (map g seen)) eqn:E2; auto.
      apply existsb_exists in E2. destruct E2 as [z [Hz Hgz]]. apply Nat.eqb_eq in Hgz. subst z.
      apply in_map_iff in Hz. destruct Hz as [y [Hgy Hy]].
      assert (y = x). { apply Hinj; auto; apply in_or_app; [left; auto|right; simpl; auto]. }
      subst y. assert (existsb (Nat.eqb x) seen = true) by (apply existsb_exists; exists x; split; auto; apply Nat.eqb_refl).
      congruence. }
  rewrite E. destruct (existsb (Nat.eqb x) seen).
  - apply IH. intros a b Ha Hb. apply Hinj; apply in_app_or in Ha; apply in_app_or in Hb; apply in_or_app;
      [destruct Ha; [left|right; simpl]; auto|destruct Hb; [left|right; simpl]; auto].
  - cbn [map]. f_equal. apply (IH (x :: seen)). intros a b Ha Hb. apply Hinj.
    + cbn [app] in Ha. destruct Ha as [<-|Ha]; [apply in_or_app; right; simpl; auto|].
      apply in_app_or in Ha. apply in_or_app. destruct Ha; [left|right; simpl]; auto.
    + cbn [app] in Hb. destruct Hb as [<-|Hb]; [apply in_or_app; right; simpl; auto|].
      apply in_app_or in Hb. apply in_or_app. destruct Hb; [left|right; simpl]; auto.
Qed.

Lemma filter_map_comm {A B} (p : B -> bool) (q : A -> bool) (g : A -> B) l :
  (forall x, In x l -> p (g x) = q x) -> filter p (map g l) = map g (filter q l).
Proof.
  induction l as [|x l IH]; intros H; [reflexivity|]. cbn [map filter]. rewrite H by (simpl; auto).
  rewrite IH by (intros; apply H; simpl; auto). destruct (q x); reflexivity.
Qed.

Section RenameMem.
Variables (D : design) (rho : list (nat * nat)) (doms' : domtab) (U : list nat).
Let r := rename_dom rho.
Let D' := {| g_tab := g_tab D; g_doms := doms'; g_procs := map (ren_entry rho) (g_procs D); g_nsig := g_nsig D |}.
Hypothesis Hzero : forall d, In d U -> (r d = 0%nat <-> d = 0%nat).
Hypothesis Hcfg : forall d, In d U -> d <> 0%nat -> doms' (r d) = g_doms D d.
Hypothesis HUp : forall p, In p (g_procs D) -> In (fst p) U.

Lemma r_eqb0 d : In d U -> Nat.eqb (r d) 0 = Nat.eqb d 0.
Proof.
  intros H. destruct (Nat.eqb d 0) eqn:E.
  - apply Nat.eqb_eq in E. apply Nat.eqb_eq. apply (proj2 (Hzero d H)). exact E.
  - apply Nat.eqb_neq in E. apply Nat.eqb_neq. intro H0. apply E. apply (proj1 (Hzero d H)). exact H0.
Qed.

Definition gw (p : wport) : wport := WP (r (wp_dom p)) (wp_addr p) (wp_data p) (wp_en p).
Definition gr (p : rport) : rport := RP (r (rp_dom p)) (rp_addr p) (rp_data p) (rp_en p) (rp_transp p).

Lemma rename_mem_eq m : rename_mem rho m = MI (mi_shape m) (mi_depth m) (mi_init m) (map gw (mi_wports m)) (map gr (mi_rports m)).
Proof. reflexivity. Qed.

Section OneMem.
Variable m : meminst.
Hypothesis HUm : forall d, In d (mem_port_doms m) -> In d U.
(* the port domains of this memory are not merged *)
Hypothesis HinjM : forall d1 d2, In d1 (mem_port_doms m) -> In d2 (mem_port_doms m) -> r d1 = r d2 -> d1 = d2.

Lemma r_eqb d1 d2 : In d1 (mem_port_doms m) -> In d2 (mem_port_doms m) -> Nat.eqb (r d1) (r d2) = Nat.eqb d1 d2.
Proof.
  intros H1 H2. destruct (Nat.eqb d1 d2) eqn:E.
  - apply Nat.eqb_eq in E. subst. apply Nat.eqb_refl.
  - apply Nat.eqb_neq. intro H. apply HinjM in H; auto. apply Nat.eqb_neq in E. auto.
Qed.

Lemma HPw p : In p (mi_wports m) -> In (wp_dom p) (mem_port_doms m).
Proof. intros H. unfold mem_port_doms. apply in_or_app. left. apply in_map. auto. Qed.
Lemma HPr p : In p (mi_rports m) -> In (rp_dom p) (mem_port_doms m).
Proof. intros H. unfold mem_port_doms. apply in_or_app. right. apply in_map. auto. Qed.

Lemma mem_masks_map l : mem_masks (map gr l) = mem_masks l.
Proof. unfold mem_masks. apply fold_left_map_ext. reflexivity. Qed.

Lemma mem_comb_rename rw st : mem_comb (g_tab D) rw st (rename_mem rho m) = mem_comb (g_tab D) rw st m.
Proof.
  rewrite rename_mem_eq. unfold mem_comb. cbn [mi_rports mi_depth].
  rewrite (filter_map_comm _ (fun p => Nat.eqb (rp_dom p) 0) gr) by (intros x Hx; cbn [gr rp_dom]; apply r_eqb0, HUm, HPr; auto).
  rewrite mem_masks_map. f_equal. 
  assert (E : forall l nx, fold_left (fun nx p => assign_rtl (s_curr st) (rp_data p)
               (mem_read (mi_depth m) rw (rmask (ewidth (rp_addr p)) (eval_rtl (s_curr st) (rp_addr p)))) nx) (map gr l) nx
             = fold_left (fun nx p => assign_rtl (s_curr st) (rp_data p)
               (mem_read (mi_depth m) rw (rmask (ewidth (rp_addr p)) (eval_rtl (s_curr st) (rp_addr p)))) nx) l nx).
  { intros l nx. apply fold_left_map_ext. reflexivity. }
  rewrite E. reflexivity.
Qed.

Lemma mem_sync_rename d rw sq : In d (mem_port_doms m) ->
  mem_sync (g_tab D) (rename_mem rho m) (r d) rw sq = mem_sync (g_tab D) m d rw sq.
Proof.
  intros Hd. rewrite rename_mem_eq. unfold mem_sync. cbn [mi_rports mi_wports mi_depth mi_shape].
  rewrite (filter_map_comm _ (fun p => Nat.eqb (rp_dom p) d) gr)
    by (intros x Hx; cbn [gr rp_dom]; apply r_eqb; auto; apply HPr; auto).
  rewrite mem_masks_map.
  assert (Ewv : map (port_wvals (s_curr (fst sq)) (r d)) (map gw (mi_wports m)) = map (port_wvals (s_curr (fst sq)) d) (mi_wports m)).
  { rewrite map_map. apply map_ext_in. intros p Hp. unfold port_wvals. cbn [gw wp_dom wp_addr wp_data wp_en].
    rewrite r_eqb by (auto; apply HPw; auto). reflexivity. }
  rewrite Ewv.
  assert (E : forall l nx, fold_left (read_port_sync (MI (mi_shape m) (mi_depth m) (mi_init m) (map gw (mi_wports m)) (map gr (mi_rports m)))
                 (s_curr (fst sq)) rw (map (port_wvals (s_curr (fst sq)) d) (mi_wports m))) (map gr l) nx
             = fold_left (read_port_sync m (s_curr (fst sq)) rw (map (port_wvals (s_curr (fst sq)) d) (mi_wports m))) l nx).
  { intros l nx. apply fold_left_map_ext. reflexivity. }
  rewrite E. reflexivity.
Qed.

Lemma mem_doms_rename : mem_doms (rename_mem rho m) = map r (mem_doms m).
Proof.
  rewrite rename_mem_eq. unfold mem_doms. cbn [mi_wports mi_rports].
  replace (map wp_dom (map gw (mi_wports m)) ++ map rp_dom (map gr (mi_rports m))) with (map r (mem_port_doms m))
    by (unfold mem_port_doms; rewrite map_app, !map_map; reflexivity).
  change (@nil nat) with (map r []) at 1. rewrite uniq_map.
  - apply filter_map_comm. intros x Hx. rewrite r_eqb0; auto. apply HUm. eapply uniq_sub; eauto.
  - cbn [app]. intros x y Hx Hy. apply HinjM; auto.
Qed.

Lemma mem_doms_in d : In d (mem_doms m) -> In d (mem_port_doms m).
Proof.
  unfold mem_doms. intros H. apply filter_In in H. destruct H as [H _]. eapply uniq_sub; eauto.
Qed.

Lemma mem_delta2_rename cur nx rw st :
  mem_delta2 D' cur nx (rename_mem rho m) rw st = mem_delta2 D cur nx m rw st.
Proof.
  unfold mem_delta2. rewrite mem_doms_rename. unfold D' at 2. cbn [g_tab]. rewrite mem_comb_rename.
  apply fold_left_map_ext. intros sq d Hd. unfold D'. cbn [g_doms g_tab].
  assert (HdP := mem_doms_in d Hd). assert (HdU := HUm d HdP).
  assert (Hd0 : d <> 0%nat).
  { unfold mem_doms in Hd. apply filter_In in Hd. destruct Hd as [_ Hd]. destruct (Nat.eqb d 0) eqn:E; [discriminate|].
    apply Nat.eqb_neq; auto. }
  rewrite Hcfg by auto. destruct (clk_edge _ _ _); auto. apply mem_sync_rename; auto.
Qed.
End OneMem.

Variable ms : list meminst.
Hypothesis HUms : forall m d, In m ms -> In d (mem_port_doms m) -> In d U.
Hypothesis HinjMs : forall m d1 d2, In m ms -> In d1 (mem_port_doms m) -> In d2 (mem_port_doms m) -> r d1 = r d2 -> d1 = d2.

Lemma mems_delta2_rename cur nx : forall l, (forall m, In m l -> In m ms) -> forall rws st,
  mems_delta2 D' cur nx (map (rename_mem rho) l) rws st = mems_delta2 D cur nx l rws st.
Proof.
  induction l as [|m l IH]; intros Hl rws st; [reflexivity|]. cbn [map mems_delta2]. destruct rws as [|rw rws]; [reflexivity|].
  rewrite mem_delta2_rename; [|intros d Hd; eapply HUms; eauto; apply Hl; simpl; auto|intros d1 d2; apply HinjMs; apply Hl; simpl; auto].
  rewrite IH by (intros; apply Hl; simpl; auto). reflexivity.
Qed.

Lemma ren_eqb0' p : In p (g_procs D) -> Nat.eqb (rename_dom rho (fst p)) 0 = Nat.eqb (fst p) 0.
Proof. intros H. apply r_eqb0. apply HUp; auto. Qed.

Lemma msettle_rename : forall fuel rws cur, msettle fuel D' (map (rename_mem rho) ms) rws cur = msettle fuel D ms rws cur.
Proof.
  induction fuel as [|k IH]; intros rws cur; cbn [msettle]; auto.
  assert (E : eval_phase (g_tab D') (g_doms D') (fun _ => false) (g_procs D') {| s_curr := cur; s_next := cur |}
            = eval_phase (g_tab D) (g_doms D) (fun _ => false) (g_procs D) {| s_curr := cur; s_next := cur |}).
  { unfold eval_phase, D'. cbn [g_tab g_doms g_procs]. apply fold_left_map_ext. intros a x Hx.
    unfold run_proc, ren_entry. cbn [fst snd]. rewrite ren_eqb0' by auto. reflexivity. }
  rewrite E.
  assert (E2 : forall l st, (forall m, In m l -> In m ms) -> forall rws',
     fold_left (fun st mr => mem_comb (g_tab D') (snd mr) st (fst mr)) (combine (map (rename_mem rho) l) rws') st
     = fold_left (fun st mr => mem_comb (g_tab D) (snd mr) st (fst mr)) (combine l rws') st).
  { induction l as [|m l IHl]; intros st Hl rws'; [reflexivity|]. destruct rws' as [|rw rws']; [reflexivity|].
    cbn [map combine fold_left fst snd]. unfold D' at 1. cbn [g_tab].
    rewrite mem_comb_rename by (intros d Hd; eapply HUms; eauto; apply Hl; simpl; auto).
    apply IHl. intros; apply Hl; simpl; auto. }
  rewrite E2 by auto. unfold D' at 1 2 3. cbn [g_nsig]. destruct (differs _ _ _); auto.
Qed.

Theorem mstep_rename e s : mstep D' (map (rename_mem rho) ms) e s = mstep D ms e s.
Proof.
  unfold mstep. unfold fuel_of. change (g_nsig D') with (g_nsig D).
  set (nx := freeze (g_nsig D) (apply_writes e (fst s))).
  assert (E : fold_left (fun st p => if Nat.eqb (fst p) 0 then comb_process (g_tab D') (snd p) st
                 else sync_code (g_tab D') (snd p) (g_doms D' (fst p)) (fst s) nx st) (g_procs D') {| s_curr := nx; s_next := nx |}
            = fold_left (fun st p => if Nat.eqb (fst p) 0 then comb_process (g_tab D) (snd p) st
                 else sync_code (g_tab D) (snd p) (g_doms D (fst p)) (fst s) nx st) (g_procs D) {| s_curr := nx; s_next := nx |}).
  { unfold D'. cbn [g_procs g_tab g_doms]. apply fold_left_map_ext. intros a x Hx.
    unfold ren_entry. cbn [fst snd]. rewrite ren_eqb0' by auto.
    destruct (Nat.eqb (fst x) 0) eqn:E0; auto. change (rename_dom rho (fst x)) with (r (fst x)).
    rewrite Hcfg; [reflexivity|apply HUp; auto|apply Nat.eqb_neq; auto]. }
  rewrite E. rewrite mems_delta2_rename by auto. rewrite msettle_rename. reflexivity.
Qed.

Theorem mrun_rename evs : forall s, mrun D' (map (rename_mem rho) ms) evs s = mrun D ms evs s.
Proof. induction evs as [|e evs IH]; intros s; cbn [mrun]; auto. rewrite mstep_rename, IH. reflexivity. Qed.

Theorem minit_rename : minit D' (map (rename_mem rho) ms) = minit D ms.
Proof.
  unfold minit. rewrite map_map. unfold fuel_of. unfold D' at 1 2 3. cbn [g_nsig g_tab].
  replace (map (fun x => init_rows (rename_mem rho x)) ms) with (map init_rows ms) by (apply map_ext; reflexivity).
  rewrite msettle_rename. reflexivity.
Qed.
End RenameMem.

(* ---------- fragment trees ---------- *)
Theorem rename_tree_trace tab doms doms' rho f n U :
  no_merge rho f ->
  (forall d, In d U -> (rename_dom rho d = 0%nat <-> d = 0%nat)) ->
  (forall d, In d U -> d <> 0%nat -> doms' (rename_dom rho d) = doms d) ->
  (forall p, In p (flatten f) -> In (fst p) U) ->
  (forall m d, In m (frag_mems f) -> In d (mem_port_doms m) -> In d U) ->
  (forall m d1 d2, In m (frag_mems f) -> In d1 (mem_port_doms m) -> In d2 (mem_port_doms m) ->
     rename_dom rho d1 = rename_dom rho d2 -> d1 = d2) ->
  let D := mk_design tab doms f n in
  let D' := mk_design tab doms' (domain_renamer rho f) n in
  minit D' (frag_mems (domain_renamer rho f)) = minit D (frag_mems f) /\
  forall evs s, mrun D' (frag_mems (domain_renamer rho f)) evs s = mrun D (frag_mems f) evs s.
Proof.
  intros Hnm Hz Hc Hp Hm Hi D D'. unfold D', mk_design. rewrite flatten_rename by auto. rewrite frag_mems_rename.
  split.
  - apply (minit_rename D rho doms' U); auto.
  - intros evs s. apply (mrun_rename D rho doms' U); auto.
Qed.

(* without memories: the signal engine *)
Theorem rename_tree_run tab doms doms' rho f n evs cur :
  no_merge rho f ->
  (forall p, In p (flatten f) -> (rename_dom rho (fst p) = 0%nat <-> fst p = 0%nat)) ->
  (forall p, In p (flatten f) -> fst p <> 0%nat -> doms' (rename_dom rho (fst p)) = doms (fst p)) ->
  run (mk_design tab doms' (domain_renamer rho f) n) evs cur = run (mk_design tab doms f n) evs cur.
Proof.
  intros Hnm Hz Hc. unfold mk_design. rewrite flatten_rename by auto.
  exact (rename_run (mk_design tab doms f n) rho doms' Hz Hc sync_code evs cur).
Qed.

(* ---------- one pair (a, b) ---------- *)
Lemma rename_dom_single a b d : rename_dom [(a, b)] d = if Nat.eqb a d then b else d.
Proof. unfold rename_dom, lookup. cbn [find fst snd]. destruct (Nat.eqb a d); reflexivity. Qed.

Lemma NoDup_map_inj_on {A B} (g : A -> B) l : NoDup l ->
  (forall x y, In x l -> In y l -> g x = g y -> x = y) -> NoDup (map g l).
Proof.
  induction l as [|x l IH]; intros Hnd Hinj; [constructor|]. inversion Hnd; subst. cbn [map]. constructor.
  - intro H. apply in_map_iff in H. destruct H as [y [Hy Hin]]. assert (y = x) by (apply Hinj; simpl; auto). subst. auto.
  - apply IH; auto. intros; apply Hinj; simpl; auto.
Qed.


Lemma no_merge_pair a b f : frag_dicts_ok f ->
  (forall st, In st (frag_nodes f) -> ~ (In a (map fst st) /\ In b (map fst st))) ->
  no_merge [(a, b)] f.
Proof.
  intros Hd Hab st Hst. destruct (Hd st Hst) as [Hnd Hne]. split; auto.
  rewrite <- (map_map fst (rename_dom [(a, b)])). apply NoDup_map_inj_on; auto.
  intros x y Hx Hy. rewrite !rename_dom_single.
  destruct (Nat.eqb a x) eqn:Ex, (Nat.eqb a y) eqn:Ey; try apply Nat.eqb_eq in Ex; try apply Nat.eqb_eq in Ey; intros E; subst; auto.
  - exfalso. apply (Hab st Hst). auto.
  - exfalso. apply (Hab st Hst). auto.
Qed.

(* renaming a to a FRESH domain b whose configuration in the new table is a's *)
Theorem rename_fresh_tree_trace tab doms doms' a b f n U :
  a <> 0%nat -> b <> 0%nat -> ~ In b U -> frag_dicts_ok f ->
  (forall p, In p (flatten f) -> In (fst p) U) ->
  (forall st e, In st (frag_nodes f) -> In e st -> In (fst e) U) ->
  (forall m d, In m (frag_mems f) -> In d (mem_port_doms m) -> In d U) ->
  doms' b = doms a -> (forall d, In d U -> d <> a -> doms' d = doms d) ->
  let D := mk_design tab doms f n in
  let D' := mk_design tab doms' (domain_renamer [(a, b)] f) n in
  minit D' (frag_mems (domain_renamer [(a, b)] f)) = minit D (frag_mems f) /\
  forall evs s, mrun D' (frag_mems (domain_renamer [(a, b)] f)) evs s = mrun D (frag_mems f) evs s.
Proof.
  intros Ha Hb Hfresh Hd Hp Hk Hm Hcb Hco. apply (rename_tree_trace tab doms doms' [(a, b)] f n U); auto.
  - apply no_merge_pair; auto. intros st Hst [_ Hin]. apply Hfresh. apply in_map_iff in Hin.
    destruct Hin as [e [<- He]]. eapply Hk; eauto.
  - intros d Hd0. rewrite rename_dom_single. destruct (Nat.eqb a d) eqn:E.
    + apply Nat.eqb_eq in E. subst. split; intros; congruence.
    + reflexivity.
  - intros d HdU Hd0. rewrite rename_dom_single. destruct (Nat.eqb a d) eqn:E.
    + apply Nat.eqb_eq in E. subst. auto.
    + apply Hco; auto. apply Nat.eqb_neq in E. auto.
  - intros m d1 d2 Hmm H1 H2. rewrite !rename_dom_single.
    destruct (Nat.eqb a d1) eqn:E1, (Nat.eqb a d2) eqn:E2; try apply Nat.eqb_eq in E1; try apply Nat.eqb_eq in E2;
      intros E; subst; auto.
    + exfalso. apply Hfresh. eapply Hm; eauto.
    + exfalso. apply Hfresh. eapply Hm; eauto.
Qed.

(* renaming a ONTO an existing domain b with the identical configuration (same table): proved when no single fragment
   and no single memory holds logic of both a and b (their processes stay separate processes of one domain) *)
Theorem rename_onto_existing_tree_trace tab doms a b f n U :
  a <> 0%nat -> b <> 0%nat -> doms b = doms a -> frag_dicts_ok f ->
  (forall st, In st (frag_nodes f) -> ~ (In a (map fst st) /\ In b (map fst st))) ->
  (forall m, In m (frag_mems f) -> ~ (In a (mem_port_doms m) /\ In b (mem_port_doms m))) ->
  (forall p, In p (flatten f) -> In (fst p) U) ->
  (forall m d, In m (frag_mems f) -> In d (mem_port_doms m) -> In d U) ->
  let D := mk_design tab doms f n in
  let D' := mk_design tab doms (domain_renamer [(a, b)] f) n in
  minit D' (frag_mems (domain_renamer [(a, b)] f)) = minit D (frag_mems f) /\
  forall evs s, mrun D' (frag_mems (domain_renamer [(a, b)] f)) evs s = mrun D (frag_mems f) evs s.
Proof.
  intros Ha Hb Hcb Hd Hst Hmm Hp Hm. apply (rename_tree_trace tab doms doms [(a, b)] f n U); auto.
  - apply no_merge_pair; auto.
  - intros d Hd0. rewrite rename_dom_single. destruct (Nat.eqb a d) eqn:E.
    + apply Nat.eqb_eq in E. subst. split; intros; congruence.
    + reflexivity.
  - intros d HdU Hd0. rewrite rename_dom_single. destruct (Nat.eqb a d) eqn:E.
    + apply Nat.eqb_eq in E. subst. auto.
    + reflexivity.
  - intros m d1 d2 Hin H1 H2. rewrite !rename_dom_single.
    destruct (Nat.eqb a d1) eqn:E1, (Nat.eqb a d2) eqn:E2; try apply Nat.eqb_eq in E1; try apply Nat.eqb_eq in E2;
      intros E; subst; auto.
    + exfalso. apply (Hmm m Hin). auto.
    + exfalso. apply (Hmm m Hin). auto.
Qed.
